/-
  Model/C09 — executable model of load / modify / save histories over an abstract file system.

  Python source modelled (line numbers of /repo after the `fix:` commits):
  * nibabel/loadsave.py:147-208            `save()` — `to_filename`, on ImageFileError class conversion by
                                            extension (the four NIfTI single<->pair special cases, else the first
                                            class of `all_image_classes` whose `valid_exts` has the extension;
                                            `from_image`) and `converted.to_filename`
  * nibabel/imageclasses.py:33-48          `all_image_classes` (order matters), `valid_exts` of every class
  * nibabel/filebasedimages.py:287-304     `to_filename` — rebinding `self.file_map`, then `to_file_map()`
  * nibabel/analyze.py:1001-1066           `AnalyzeImage.to_file_map` (SPM2 Analyze, NIfTI-1/2 single/pair inherit):
                                            `data = np.asanyarray(self.dataobj)`; `if maps_file(data):
                                            data = np.array(data)` (the repair); `update_header()`; open 'wb'; write
  * nibabel/spm99analyze.py:304-340        `Spm99AnalyzeImage.to_file_map`: the above, then the affine goes to the
                                            `.mat` side file; `from_file_map` (241-302) reads it back
  * nibabel/freesurfer/mghformat.py:546-562 `MGHImage.to_file_map` (same shape)
  * nibabel/spatialimages.py:532-559       `update_header`: `if np.allclose(self._affine, hdr.get_best_affine()):
                                            return` else `_affine2header()`
  * nibabel/nifti1.py:908-915              `get_best_affine`: sform if `sform_code != 0`, else qform if
                                            `qform_code != 0`, else the base affine
  * nibabel/nifti1.py:2052-2058            `_affine2header`: `set_sform(affine, 'aligned')`, `set_qform(affine,
                                            'unknown')`;  mghformat.py:583-597 (delta / Mdc / Pxyz_c)
  * nibabel/nifti1.py `Nifti1Pair.set_sform/set_qform`: header first, then `img._affine[:] = best affine`
  * nibabel/freesurfer/mghformat.py:143-154 `MGHHeader.from_header` (foreign header -> FRESH header: float32)
  * nibabel/analyze.py `AnalyzeHeader.from_header`: own type -> copy; other Analyze-family type -> fresh NATIVE
                                            header + every common field (`as_analyze_map`); else dtype/shape/zooms
  * nibabel/spatialimages.py:591-612, 206-220 `from_image` / `from_header`
  * nibabel/volumeutils.py:441-453         `array_from_file`: `np.memmap(mode=…)` for an uncompressed file
  * nibabel/arrayproxy.py:174, 383-441     the proxy keeps `file_like` and the (shape, dtype, offset, slope, inter)
                                            it was built with; `__array__` returns the memmap itself when
                                            slope, inter = 1, 0; `astype(dtype, copy=False)` keeps it when the
                                            stored dtype already is the (native) dtype asked for
  * nibabel/dataobj_images.py:225-357      `get_fdata(dtype)` cache (reused only for the same dtype), `uncache`
  * nibabel/filebasedimages.py `to_bytes`  serialises through `to_file_map(BytesIO map)` (rebinds `file_map`!)
  * nibabel/volumeutils.py:392-407         `maps_file(arr)`: follows the chain of OWNERS (`memoryview.obj`, else any
                                            `.base` attribute) — true for a `np.memmap`/`mmap.mmap`, for a base-class view
                                            of one (`np.asarray(memmap)`, `[::1]`, `.T.T`, …) and for arrays whose owner
                                            chain passes through a memoryview or an array-interface holder
                                            (`np.frombuffer(mmap)`, `np.asarray(memoryview(m))`, `as_strided(m)`,
                                            `sliding_window_view(m)`): the guard of both `to_file_map` since fix 8d96c629
                                            (ae98171b: ndarray `.base` links only; before: `isinstance(data, np.memmap)`)
  * nibabel/spatialimages.py:474-520       `SpatialImage.__init__(dataobj, affine, header)`: header COPIED
                                            (`from_header`), dtype/fields of the given header kept, `update_header()`,
                                            `file_map` fresh (no filename) — the re-wrap op `Klass(view, img.affine, img.header)`

  Abstractions
  * a file's content is what a FRESH load decodes to: (class, data id, affine id, on-disk dtype, byte order,
    scaled?, tag, transform fields), or `truncated` (opened 'wb', nothing written yet);  `load` returns the class
    that wrote the file (header sniffing: trusted, compared on every history);
  * data/affine/tag are abstract identifiers (Nat);  shape is fixed;  "scaled" = slope/inter ≠ (1, 0);
    `np.allclose` on affines is identity of ids in the executable model (`closeId`) — the decision rule itself
    (`reconcile`) takes the predicate as a parameter;
  * external behaviour entering as contract (trusted base): `np.memmap` is a REFERENCE to the file's
    current content — reading it after the file was truncated or re-laid-out yields SIGBUS, zeros or
    garbage, all collapsed into the outcome `bad`;  a compressed file cannot be mapped (fresh decode);
    NumPy casts of the (small-integer) test data are value preserving up to the array-writer tolerance.
-/
namespace Nb.C09

/-- the path alphabet of the property (`a.img` stands for the pair `a.img` + `a.hdr` (+ `a.mat`),
    `c.img.gz` for `c.img.gz` + `c.hdr.gz` (+ `c.mat.gz`)) -/
inductive Path where
  | aNii | aNiiGz | bNii | aImg | aMgh | aMgz
  | sImg        -- initially an SPM2 Analyze pair (+ .mat)
  | nNii        -- initially a NIfTI-2 single file
  | cImgGz      -- compressed pair
  | aNiiBz2 | bNiiZst
  deriving Repr, DecidableEq, Inhabited

inductive Cls where
  | nifti1   -- Nifti1Image
  | pair     -- Nifti1Pair
  | mgh      -- MGHImage
  | spm2     -- Spm2AnalyzeImage (what `load` makes of any non-NIfTI `.img/.hdr`)
  | nifti2   -- Nifti2Image
  | pair2    -- Nifti2Pair
  deriving Repr, DecidableEq, Inhabited

/-- extension family of a name (after stripping `.gz/.bz2/.zst`; `.hdr` = `.img`, `.mgz` = `.mgh`) -/
inductive Ext where
  | nii | img | mgh
  deriving Repr, DecidableEq, Inhabited

inductive DT where
  | u8 | i16 | i32 | f32 | f64
  deriving Repr, DecidableEq, Inhabited

def DT.isFloat : DT → Bool
  | .f32 | .f64 => true
  | _ => false

/-- `Opener`: `.gz/.bz2/.zst` names (and `.mgz`) are compressed streams — never memory mapped -/
def Path.compressed : Path → Bool
  | .aNiiGz | .aMgz | .cImgGz | .aNiiBz2 | .bNiiZst => true
  | _ => false

def Path.ext : Path → Ext
  | .aNii | .aNiiGz | .bNii | .nNii | .aNiiBz2 | .bNiiZst => .nii
  | .aImg | .sImg | .cImgGz => .img
  | .aMgh | .aMgz => .mgh

/-- `klass.valid_exts` -/
def Cls.validExt : Cls → Ext → Bool
  | .nifti1, .nii | .nifti2, .nii => true
  | .pair, .img | .pair2, .img | .spm2, .img => true
  | .mgh, .mgh => true
  | _, _ => false

/-- first class of `all_image_classes` whose `valid_exts` contains the extension -/
def firstCls : Ext → Cls
  | .nii => .nifti1
  | .img => .pair
  | .mgh => .mgh

/-- class of the image `nib.save(img, name)` actually writes (loadsave.py:147-208): the image's own class when
    `to_filename` accepts the extension; the NIfTI single <-> pair special cases; else the first class -/
def outCls (c : Cls) (e : Ext) : Cls :=
  if c.validExt e then c
  else match c, e with
    | .nifti1, .img => .pair
    | .nifti2, .img => .pair2
    | .pair, .nii => .nifti1
    | .pair2, .nii => .nifti2
    | _, e => firstCls e

/-- class by extension alone (what a save of a foreign image produces) -/
def Path.cls (p : Path) : Cls := firstCls p.ext

def Path.all : List Path :=
  [.aNii, .aNiiGz, .bNii, .aImg, .aMgh, .aMgz, .sImg, .nNii, .cImgGz, .aNiiBz2, .bNiiZst]

def Cls.isNifti : Cls → Bool
  | .nifti1 | .pair | .nifti2 | .pair2 => true
  | _ => false

/-- the affine-carrying header fields: NIfTI `sform_code`, sform (affine id), `qform_code`, qform (affine id);
    MGH: `sa` = the affine `Mdc / delta / Pxyz_c` encode (`sc` = 1);  SPM2: unused (all 0 — the affine lives in
    the `.mat` file) -/
structure XF where
  sc : Nat
  sa : Nat
  qc : Nat
  qa : Nat
  deriving Repr, DecidableEq, Inhabited

/-- id of "the base affine of a fresh header" (zooms and shape only) -/
def baseAff : Nat := 1000

/-- `hdr.get_best_affine()` (nifti1.py:908-915) -/
def XF.best (x : XF) : Nat := if x.sc ≠ 0 then x.sa else if x.qc ≠ 0 then x.qa else baseAff

/-- `img._affine2header()` -/
def affine2header (c : Cls) (a : Nat) (x : XF) : XF :=
  match c with
  | .mgh => ⟨1, a, 0, 0⟩
  | .spm2 => x               -- zooms only
  | _ => ⟨2, a, 0, a⟩        -- sform 'aligned', qform 'unknown'

/-- `update_header()`: keep the header when its best affine is `close` to the image affine, else overwrite -/
def reconcile (close : Nat → Nat → Bool) (c : Cls) (a : Nat) (x : XF) : XF :=
  if c = .spm2 then x
  else if close a x.best then x else affine2header c a x

/-- `np.allclose` on the affine ids of the executable model -/
def closeId (a b : Nat) : Bool := a == b

/-- what a fresh load of an intact file decodes to -/
structure Content where
  cls : Cls
  data : Nat
  aff : Nat             -- `img.affine` of a fresh load (best header affine; SPM2: from the `.mat` file)
  dt : DT
  be : Bool             -- header is not in native byte order (MGH: always)
  scaled : Bool
  tag : Nat
  xf : XF
  deriving Repr, DecidableEq, Inhabited

inductive File where
  | intact (c : Content)
  | truncated
  deriving Repr, DecidableEq, Inhabited

abbrev FS := Path → Option File

def FS.set (fs : FS) (q : Path) (v : Option File) : FS := fun p => if p = q then v else fs p

/-- `_fdata_cache` of `DataobjImage`; `w` = the cache is float32 (`get_fdata(dtype=np.float32)`) -/
inductive Cache where
  | none
  | owned (d : Nat) (w : Bool)   -- an ndarray that owns its memory
  | alias (w : Bool)             -- the float memmap of the source file itself (`astype(copy=False)`)
  deriving Repr, DecidableEq, Inhabited

/-- how an array that reads a memory map reaches it -/
inductive VKind where
  | inst      -- it IS an `np.memmap` instance
  | plain     -- base-class ndarray whose chain of ndarray `.base` links ends in the np.memmap / mmap.mmap
  | hidden    -- the map is reachable only through a `memoryview.obj` or an array-interface holder's `.base`
              -- (`np.frombuffer(mmap)`, `np.asarray(memoryview(m))`, `as_strided(m)`, `sliding_window_view(m)`)
  deriving Repr, DecidableEq, Inhabited

/-- what `img.dataobj` is -/
inductive Arr where
  | proxy                        -- the ArrayProxy of a loaded image
  | owned (d : Nat) (fl : Bool)  -- an ndarray that owns its memory (`fl`: floating dtype)
  | view (vk : VKind)            -- an array reading a memory map of the source file (layout = the proxy spec below)
  deriving Repr, DecidableEq, Inhabited

/-- the copy-before-open guard of `to_file_map` -/
inductive Guard where
  | none     -- pinned tree: no copy
  | inst     -- fae418e9 … ae98171b^: `isinstance(data, np.memmap)`
  | baseNd   -- ae98171b … 8d96c629^: `maps_file` following ndarray `.base` links only
  | owners   -- current (8d96c629): `maps_file` following `memoryview.obj` and any `.base` attribute
  deriving Repr, DecidableEq, Inhabited

/-- a lazily loaded image (or an array image re-wrapped from one): header state + data object + caches -/
structure Img where
  cls : Cls
  dt : DT               -- header data dtype (what the next save writes)
  be : Bool             -- header byte order
  tag : Nat             -- a free header field (`descrip` / `tr`)
  aff : Nat             -- img.affine
  xf : XF               -- affine fields of the HEADER
  data : Nat            -- GHOST: data id the proxy decoded when the image was loaded (not used by `step`)
  arr : Arr             -- kind of `img.dataobj`
  src : Path            -- proxy.file_like / the file the viewed memmap maps
  srcDt : DT            -- proxy spec: dtype ...
  srcBe : Bool          -- ... its byte order ...
  srcScaled : Bool      -- ... and slope/inter the proxy was built with
  mm : Bool             -- `mmap=` argument of load (True / 'c' / 'r')
  fname : Option Path   -- file_map (what `get_filename()` reports)
  cache : Cache
  deriving Repr, DecidableEq, Inhabited

/-- affine the header currently encodes (what `img.header.get_best_affine()` returns) -/
def Img.hdrAff (im : Img) : Nat := im.xf.best

/-- result of `np.asanyarray(self.dataobj)` -/
inductive Mat where
  | copy (d : Nat)      -- fresh ndarray
  | ref (p : Path) (dt : DT) (be : Bool) (scaled : Bool) (vk : VKind)
        -- array backed by a memory map of `p`, interpreting it with this layout; `vk`: how it reaches the map
  deriving Repr, DecidableEq, Inhabited

/-- read `p` through a proxy / memmap built for layout (dt, byte order, scaled): `none` = SIGBUS / zeros /
    garbage / "Expected n bytes, got m" -/
def readLayout (fs : FS) (p : Path) (dt : DT) (be : Bool) (scaled : Bool) : Option Nat :=
  match fs p with
  | some (.intact c) => if c.dt = dt ∧ c.be = be ∧ c.scaled = scaled then some c.data else none
  | _ => none

/-- the proxy hands out the memmap itself iff mmap was requested, the file is not compressed and no scaling
    is applied (arrayproxy.py `_get_scaled` / volumeutils.py `apply_read_scaling`, `array_from_file`) -/
def Img.mapped (im : Img) : Bool := im.mm && !im.src.compressed && !im.srcScaled

/-- `np.asanyarray(img.dataobj)`: the proxy reads (or maps) the file; an array image hands out its array -/
def materialise (fs : FS) (im : Img) : Option Mat :=
  match im.arr with
  | .owned d _ => some (.copy d)
  | .view vk => some (.ref im.src im.srcDt im.srcBe im.srcScaled vk)
  | .proxy =>
    match readLayout fs im.src im.srcDt im.srcBe im.srcScaled with
    | none => none
    | some d => if im.mapped then some (.ref im.src im.srcDt im.srcBe im.srcScaled .inst) else some (.copy d)

/-- touch the elements of a materialised array -/
def deref (fs : FS) : Mat → Option Nat
  | .copy d => some d
  | .ref p dt be sc _ => readLayout fs p dt be sc

/-- dtype of the in-memory array is floating: float storage, or integer storage with scale factors -/
def Img.arrFloat (im : Img) : Bool :=
  match im.arr with
  | .owned _ fl => fl
  | _ => im.srcDt.isFloat || im.srcScaled

/-- header of the image actually written to `q` before `update_header` (`save()` conversion rules):
    (dtype, tag, byte order, affine fields).
    same class → own header; between Analyze-family classes → fresh NATIVE header with every common field copied
    (`as_analyze_map`: NIfTI <-> NIfTI keeps sform/qform, SPM2 → NIfTI has none);
    anything → MGH: FRESH MGH header (float32, tr 0); MGH → NIfTI: dtype/shape/zooms only -/
def outHeader (im : Img) (q : Path) : DT × Nat × Bool × XF :=
  let c := outCls im.cls q.ext
  if c = im.cls then (im.dt, im.tag, im.be, im.xf)
  else if c = .mgh then (.f32, 0, true, ⟨1, baseAff, 0, 0⟩)
  else if im.cls = .mgh then (im.dt, 0, false, ⟨0, 0, 0, 0⟩)
  else (im.dt, im.tag, false, if im.cls.isNifti then im.xf else ⟨0, 0, 0, 0⟩)

/-- the array writer computes scale factors iff the array is floating and the output integer
    (Analyze family: NIfTI slope+inter, SPM2 slope; MGH `array_to_file` just casts) -/
def outScaled (im : Img) (q : Path) : Bool :=
  outCls im.cls q.ext != .mgh && !(outHeader im q).1.isFloat && im.arrFloat

/-- affine fields of the header as written: `update_header()` of the (converted) image -/
def outXF (im : Img) (q : Path) : XF :=
  reconcile closeId (outCls im.cls q.ext) im.aff (outHeader im q).2.2.2

/-- `img.affine` of a fresh load of the written file: the header's best affine; SPM2: the `.mat` file, which
    `Spm99AnalyzeImage.to_file_map` writes from `self._affine` -/
def outAff (im : Img) (q : Path) : Nat :=
  if outCls im.cls q.ext = .spm2 then im.aff else (outXF im q).best

inductive Out where
  | noImg                       -- op without a live image
  | loadOk | loadErr
  | fdata (d : Nat)
  | unit                        -- uncache / edit / set affine
  | dtOk | dtErr
  | saved (c : Content)         -- fresh load of the target right after the save
  | bytes (c : Content)
  | bytesErr
  | bad                         -- crash / zeros / garbage (the model outcome `Crash`)
  deriving Repr, DecidableEq, Inhabited

structure St where
  fs : FS
  img : Option Img

/-- does the guard `g` copy a file-backed array of kind `vk`? -/
def Guard.copies (g : Guard) (vk : VKind) : Bool :=
  match g with
  | .none => false
  | .inst => vk == .inst
  | .baseNd => vk != .hidden
  | .owners => true

/-- `to_file_map` of the (converted) image onto `q` under copy guard `g` (`.none` = the pinned logic BEFORE the
    first repair, `.inst` = instance check only, `.baseNd` = ndarray-base chain, `.owners` = current).  Returns
    outcome and the new file system. -/
def writeTo (orig : Guard) (fs : FS) (im : Img) (q : Path) : Out × FS :=
  -- data = np.asanyarray(self.dataobj)
  match materialise fs im with
  | none => (.bad, fs)
  | some m =>
    -- if maps_file(data): data = np.array(data)     [the repair; maps_file = a np.memmap or a view of one]
    let m? : Option Mat :=
      match m with
      | .ref _ _ _ _ vk => if orig.copies vk then (deref fs m).map Mat.copy else some m
      | .copy d => some (.copy d)
    match m? with
    | none => (.bad, fs)
    | some m' =>
      -- get_prepare_fileobj('wb'): the target is truncated before anything is written
      let fs1 := fs.set q (some .truncated)
      -- arr_writer.to_fileobj / array_to_file: the array elements are read now
      match deref fs1 m' with
      | none => (.bad, fs1)
      | some d =>
        let (dtO, tagO, beO, _) := outHeader im q
        let c : Content := { cls := outCls im.cls q.ext, data := d, aff := outAff im q, dt := dtO, be := beO,
                             scaled := outScaled im q, tag := tagO, xf := outXF im q }
        (.saved c, fs1.set q (some (.intact c)))

/-- `nib.save(img, q)`: rebinding of `file_map` happens only when no class conversion was needed; in that case
    `update_header()` also reconciles the image's OWN header with `img.affine` in place.  A converting save works on
    `Klass.from_image(img)` = `Klass(img.dataobj, img.affine, from_header(img.header))` — a COPY of the header that
    `update_header()` reconciles with `img.affine`; the original header keeps whatever was edited into it. -/
def save (orig : Guard) (fs : FS) (im : Img) (q : Path) : Out × FS × Img :=
  match writeTo orig fs im q with
  | (.saved c, fs') =>
      (.saved c, fs', if outCls im.cls q.ext = im.cls then { im with fname := some q, xf := outXF im q } else im)
  | (o, fs') => (o, fs', im)

/-- `img.get_fdata(dtype)`; `w` = float32 requested -/
def getFdata (fs : FS) (im : Img) (w : Bool) : Option (Nat × Img) :=
  let fresh : Option (Nat × Img) :=
    match materialise fs im with
    | none => none
    | some m =>
      match deref fs m with
      | none => none
      | some d =>
        -- np.asanyarray(dataobj, dtype): no copy when the memmap already has that (native) dtype
        let aliasing := (match m with | .ref _ _ _ _ _ => true | .copy _ => false) && !im.srcBe &&
                          im.srcDt == (if w then DT.f32 else DT.f64)
        some (d, { im with cache := if aliasing then .alias w else .owned d w })
  match im.cache with
  | .owned d w' => if w' = w then some (d, im) else fresh
  | .alias w' =>
      if w' = w then (readLayout fs im.src im.srcDt im.srcBe im.srcScaled).map (fun d => (d, im)) else fresh
  | .none => fresh

/-- classes that are serialisable to one byte string -/
def Cls.hasToBytes : Cls → Bool
  | .nifti1 | .nifti2 | .mgh => true
  | _ => false

/-- `img.to_bytes()`: `to_file_map` onto a BytesIO map (rebinds `file_map`); multi-file classes have no `to_bytes` -/
def toBytes (fs : FS) (im : Img) : Out × Img :=
  if im.cls.hasToBytes = false then (.bytesErr, im)
  else
    match (materialise fs im).bind (deref fs) with
    | none => (.bad, im)
    | some d =>
      let x := reconcile closeId im.cls im.aff im.xf
      (.bytes { cls := im.cls, data := d, aff := x.best, dt := im.dt, be := im.be, tag := im.tag,
                scaled := im.cls != .mgh && !im.dt.isFloat && im.arrFloat, xf := x },
       { im with fname := none, xf := x })

/-- dtypes an MGH header accepts (`MGHHeader.set_data_dtype`) -/
def mghOk : DT → Bool
  | .f64 => false
  | _ => true

/-- which array the re-wrap op hands to the constructor -/
inductive Wrap where
  | plainView   -- `np.asarray(img.dataobj)`, `…[::1]`, `….T.T`, `np.asanyarray(…).view(np.ndarray)`, `np.asfortranarray(…)`
  | mapInst     -- `np.asanyarray(img.dataobj)`, `np.asanyarray(img.dataobj)[..., :]`  (np.memmap instances)
  | proxy       -- `img.dataobj` itself
  | copy        -- `np.array(img.dataobj)`
  | fdata       -- `img.get_fdata()` (the mapped array itself for a native float64 unscaled mapped file)
  | hiddenView  -- `as_strided(m)`, `np.asarray(memoryview(m))`, `sliding_window_view(m, (1,1,1))[..., 0, 0, 0]` of
                -- `m = np.asanyarray(img.dataobj)`
  | rawMap      -- `np.frombuffer(mmap.mmap(<the proxy's file>), dtype, count, offset)` for an uncompressed, unscaled
                -- source (whatever the `mmap=` flag of the load); else as `hiddenView`
  deriving Repr, DecidableEq, Inhabited

inductive Op where
  | load (p : Path) (mm : Bool)
  | fdata (w : Bool)     -- `get_fdata()` / `get_fdata(dtype=np.float32)`
  | uncache
  | edit (k : Nat)
  | setAff (k : Nat)     -- image API `img.set_sform/set_qform` (MGH, SPM2: `img.affine[:] = A`): changes img.affine
  | hdrEdit (k : Nat)    -- `img.header.set_sform(B, 3)` (k even) / `set_sform(None, 0); set_qform(B, 2)` (k odd) /
                         -- MGH Mdc,Pxyz_c / SPM2 origin: header only
  | setDt (dt : DT)
  | save (q : Path)
  | toBytes
  | wrap (k : Wrap)      -- replace the live image by `type(img)(<array>, img.affine, img.header)`
  deriving Repr, DecidableEq, Inhabited

def load (fs : FS) (p : Path) (mm : Bool) : Option Img :=
  match fs p with
  | some (.intact c) =>
      some { cls := c.cls, dt := c.dt, be := c.be, tag := c.tag, aff := c.aff, xf := c.xf, data := c.data, src := p,
             arr := .proxy, srcDt := c.dt, srcBe := c.be, srcScaled := c.scaled, mm := mm, fname := some p,
             cache := .none }
  | _ => none

/-- `img.header.set_sform(B, code=3)` / `set_sform(None, code=0); set_qform(B, code=2)` / MGH direction fields -/
def hdrEditXF (c : Cls) (k : Nat) (x : XF) : XF :=
  match c with
  | .mgh => { x with sa := k }
  | .spm2 => x
  | _ => if k % 2 = 0 then { x with sc := 3, sa := k } else { x with sc := 0, qc := 2, qa := k }

/-- the new image of a re-wrap: header copied and reconciled with the affine (`__init__` → `update_header`),
    no filename, no cache -/
def rewrapped (im : Img) (a : Arr) : Img :=
  { im with arr := a, fname := none, cache := .none, xf := reconcile closeId im.cls im.aff im.xf }

/-- `type(img)(<array of kind k>, img.affine, img.header)`; `none` = building the array already failed (stale proxy) -/
def wrapArr (fs : FS) (im : Img) : Wrap → Option Img
  | .proxy => some (rewrapped im im.arr)
  | .fdata =>
      match getFdata fs im false with
      | none => none
      | some (d, im1) =>
          some (rewrapped im (match im1.cache with
            | .alias false => .view (match im.arr with | .view vk => vk | _ => .inst)
            | _ => .owned d true))
  | k =>
      if k = .rawMap ∧ im.arr = .proxy ∧ im.src.compressed = false ∧ im.srcScaled = false then
        some (rewrapped im (.view .hidden))
      else
      match materialise fs im with
      | none => none
      | some (.copy d) => some (rewrapped im (.owned d im.arrFloat))
      | some (.ref p dt be sc vk) =>
          if k = .copy then (readLayout fs p dt be sc).map (fun d => rewrapped im (.owned d im.arrFloat))
          else if k = .mapInst then some (rewrapped im (.view vk))
          else if k = .plainView then some (rewrapped im (.view (if vk = .hidden then .hidden else .plain)))
          else some (rewrapped im (.view .hidden))

/-- the re-wrap op: build the new image, then touch ITS data once (`np.array(new.dataobj)`): a stale proxy / view
    shows here (a `get_fdata()` cache that owns its memory does not go stale) -/
def wrapImg (fs : FS) (im : Img) (k : Wrap) : Option Img :=
  match wrapArr fs im k with
  | none => none
  | some im' =>
    match (materialise fs im').bind (deref fs) with
    | none => none
    | some _ => some im'

/-- ops other than `load` need a live image -/
def withImg (s : St) (f : Img → Out × St) : Out × St :=
  match s.img with
  | none => (.noImg, s)
  | some im => f im

def step (orig : Guard) (s : St) : Op → Out × St
  | .load p mm =>
      match load s.fs p mm with
      | some im => (.loadOk, { s with img := some im })
      | none => (.loadErr, s)
  | .fdata w => withImg s fun im =>
      match getFdata s.fs im w with
      | some (d, im') => (.fdata d, { s with img := some im' })
      | none => (.bad, s)
  | .uncache => withImg s fun im => (.unit, { s with img := some { im with cache := .none } })
  | .edit k => withImg s fun im => (.unit, { s with img := some { im with tag := k } })
  | .setAff k => withImg s fun im =>
      -- NIfTI: the header is set and img.affine re-read from it; MGH / SPM2: only the array `img.affine` is overwritten
      (.unit, { s with img := some (if im.cls.isNifti then { im with aff := k, xf := ⟨2, k, 2, k⟩ }
                                    else { im with aff := k }) })
  | .hdrEdit k => withImg s fun im => (.unit, { s with img := some { im with xf := hdrEditXF im.cls k im.xf } })
  | .setDt dt => withImg s fun im =>
      if im.cls = .mgh ∧ mghOk dt = false then (.dtErr, s)
      else (.dtOk, { s with img := some { im with dt := dt } })
  | .save q => withImg s fun im =>
      match save orig s.fs im q with
      | (o, fs', im') => (o, { fs := fs', img := some im' })
  | .toBytes => withImg s fun im =>
      match toBytes s.fs im with
      | (o, im') => (o, { s with img := some im' })
  | .wrap k => withImg s fun im =>
      match wrapImg s.fs im k with
      | some im' => (.unit, { s with img := some im' })
      | none => (.bad, s)

/-- end-of-history usability probe: `get_fdata()` then `np.asanyarray(img.dataobj)` -/
def probe (s : St) : Option (Option (Nat × Nat)) :=
  match s.img with
  | none => some none
  | some im =>
    match getFdata s.fs im false with
    | none => none
    | some (d, _) =>
      match (materialise s.fs im).bind (deref s.fs) with
      | none => none
      | some d2 => some (some (d, d2))

/-- run a history; stops at the first `bad` (the process is dead / the data are gone) -/
def run (orig : Guard) : St → List Op → List Out × Option St
  | s, [] => ([], some s)
  | s, op :: rest =>
    match step orig s op with
    | (.bad, _) => ([.bad], none)
    | (o, s') => let (os, f) := run orig s' rest; (o :: os, f)

/-- class of the file the harness creates at each path -/
def initCls : Path → Cls
  | .sImg => .spm2
  | .nNii => .nifti2
  | .cImgGz => .pair
  | p => p.cls

def pathIdx (p : Path) : Nat := Path.all.idxOf p

/-- initial file at `p`: data id / affine id = index of the path, tag 0, header as `Klass(arr, affine)` makes it -/
def initContent (p : Path) (dt : DT) (be : Bool) (scaled : Bool) : Content :=
  let c := initCls p
  { cls := c, data := pathIdx p, aff := pathIdx p, dt := dt, be := be || c == .mgh, scaled := scaled, tag := 0,
    xf := affine2header c (pathIdx p) ⟨0, 0, 0, 0⟩ }

end Nb.C09
