/-! Model/C09 — executable model (core Lean only; imports only NibabelModel.Basic.* / other Model files). -/
namespace Nb.C09

end Nb.C09
