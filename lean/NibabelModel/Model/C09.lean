/-
  Model/C09 — executable model of load / modify / save histories over an abstract file system.

  Python source modelled (line numbers of /repo after the `fix:` commits):
  * nibabel/loadsave.py:147-208            `save()` — `to_filename`, on ImageFileError class conversion by
                                            extension (`from_image`) and `converted.to_filename`
  * nibabel/filebasedimages.py:287-304     `to_filename` — rebinding `self.file_map`, then `to_file_map()`
  * nibabel/analyze.py:1001-1066           `AnalyzeImage.to_file_map` (NIfTI single/pair inherit):
                                            `data = np.asanyarray(self.dataobj)`; `if isinstance(data, np.memmap):
                                            data = np.array(data)` (the repair); open 'wb'; write; rebind
  * nibabel/freesurfer/mghformat.py:546-562 `MGHImage.to_file_map` (same shape)
  * nibabel/freesurfer/mghformat.py:143-154 `MGHHeader.from_header` (foreign header -> FRESH header: float32)
  * nibabel/spatialimages.py:591-612, 206-220 `from_image` / `from_header` (dtype, shape, zooms survive)
  * nibabel/volumeutils.py:441-453         `array_from_file`: `np.memmap(mode='c')` for an uncompressed file
  * nibabel/arrayproxy.py:174, 383-441     the proxy keeps `file_like` and the (shape, dtype, offset, slope, inter)
                                            it was built with; `__array__` returns the memmap itself when
                                            slope, inter = 1, 0; `astype(copy=False)` keeps it for float64
  * nibabel/dataobj_images.py              `get_fdata` cache, `uncache`
  * nibabel/filebasedimages.py `to_bytes`  serialises through `to_file_map(BytesIO map)` (rebinds `file_map`!)

  Abstractions
  * a file's content is what a FRESH load decodes to: (data id, affine id, on-disk dtype, scaled?, tag), or
    `truncated` (opened 'wb', nothing written yet);   the class of a fresh load is a function of the path;
  * data/affine/tag are abstract identifiers (Nat);  shape is fixed;  "scaled" = slope/inter ≠ (1, 0);
  * external behaviour entering as contract (trusted base): `np.memmap(mode='c')` is a REFERENCE to the file's
    current content — reading it after the file was truncated or re-laid-out yields SIGBUS, zeros or
    garbage, all collapsed into the outcome `bad`;  a compressed file cannot be mapped (fresh decode);
    NumPy casts of the (small-integer) test data are value preserving up to the array-writer tolerance.
-/
namespace Nb.C09

/-- the path alphabet of the property (`a.img` stands for the pair `a.img` + `a.hdr`) -/
inductive Path where
  | aNii | aNiiGz | bNii | aImg | aMgh | aMgz
  deriving Repr, DecidableEq, Inhabited

inductive Cls where
  | nifti1   -- Nifti1Image
  | pair     -- Nifti1Pair
  | mgh      -- MGHImage
  deriving Repr, DecidableEq, Inhabited

inductive DT where
  | u8 | i16 | i32 | f32 | f64
  deriving Repr, DecidableEq, Inhabited

def DT.isFloat : DT → Bool
  | .f32 | .f64 => true
  | _ => false

/-- `Opener`: `.gz` names (and `.mgz`) are compressed streams — never memory mapped -/
def Path.compressed : Path → Bool
  | .aNiiGz | .aMgz => true
  | _ => false

/-- image class that `load` returns for / `save` converts to, by extension (loadsave.py) -/
def Path.cls : Path → Cls
  | .aNii | .aNiiGz | .bNii => .nifti1
  | .aImg => .pair
  | .aMgh | .aMgz => .mgh

def Path.all : List Path := [.aNii, .aNiiGz, .bNii, .aImg, .aMgh, .aMgz]

/-- what a fresh load of an intact file decodes to -/
structure Content where
  data : Nat
  aff : Nat
  dt : DT
  scaled : Bool
  tag : Nat
  deriving Repr, DecidableEq, Inhabited

inductive File where
  | intact (c : Content)
  | truncated
  deriving Repr, DecidableEq, Inhabited

abbrev FS := Path → Option File

def FS.set (fs : FS) (q : Path) (v : Option File) : FS := fun p => if p = q then v else fs p

/-- `_fdata_cache` of `DataobjImage` -/
inductive Cache where
  | none
  | owned (d : Nat)     -- an ndarray that owns its memory
  | alias               -- the float64 memmap of the source file itself (`astype(copy=False)`)
  deriving Repr, DecidableEq, Inhabited

/-- a lazily loaded image: header state + array proxy + caches -/
structure Img where
  cls : Cls
  dt : DT               -- header data dtype (what the next save writes)
  tag : Nat             -- a free header field (`descrip` / `tr`)
  aff : Nat             -- img.affine
  hdrAff : Nat          -- affine the HEADER fields (sform/qform, MGH Mdc/Pxyz_c) currently encode
  data : Nat            -- GHOST: data id the proxy decoded when the image was loaded (not used by `step`)
  src : Path            -- proxy.file_like
  srcDt : DT            -- proxy spec: dtype ...
  srcScaled : Bool      -- ... and slope/inter the proxy was built with
  mm : Bool             -- `mmap=` argument of load
  fname : Option Path   -- file_map (what `get_filename()` reports)
  cache : Cache
  deriving Repr, DecidableEq, Inhabited

/-- result of `np.asanyarray(self.dataobj)` -/
inductive Mat where
  | copy (d : Nat)      -- fresh ndarray
  | ref (p : Path) (dt : DT) (scaled : Bool)   -- np.memmap on `p`, interpreting it with this layout
  deriving Repr, DecidableEq, Inhabited

/-- read `p` through a proxy / memmap built for layout (dt, scaled): `none` = SIGBUS / zeros / garbage /
    "Expected n bytes, got m" -/
def readLayout (fs : FS) (p : Path) (dt : DT) (scaled : Bool) : Option Nat :=
  match fs p with
  | some (.intact c) => if c.dt = dt ∧ c.scaled = scaled then some c.data else none
  | _ => none

/-- the proxy hands out the memmap itself iff mmap was requested, the file is not compressed and no scaling
    is applied (arrayproxy.py `_get_scaled` / volumeutils.py `apply_read_scaling`, `array_from_file`) -/
def Img.mapped (im : Img) : Bool := im.mm && !im.src.compressed && !im.srcScaled

/-- `np.asanyarray(img.dataobj)` -/
def materialise (fs : FS) (im : Img) : Option Mat :=
  match readLayout fs im.src im.srcDt im.srcScaled with
  | none => none
  | some d => if im.mapped then some (.ref im.src im.srcDt im.srcScaled) else some (.copy d)

/-- touch the elements of a materialised array -/
def deref (fs : FS) : Mat → Option Nat
  | .copy d => some d
  | .ref p dt sc => readLayout fs p dt sc

/-- dtype of the in-memory array is floating: float storage, or integer storage with scale factors -/
def Img.arrFloat (im : Img) : Bool := im.srcDt.isFloat || im.srcScaled

/-- header of the image actually written to `q` (`save()` conversion rules):
    same class → own header; NIfTI single↔pair → all fields copied (`as_analyze_map`);
    anything → MGH: FRESH MGH header (float32, tr 0); MGH → NIfTI: dtype/shape/zooms only -/
def outHeader (im : Img) (q : Path) : DT × Nat :=
  if q.cls = im.cls then (im.dt, im.tag)
  else if q.cls = .mgh then (.f32, 0)
  else if im.cls = .mgh then (im.dt, 0)
  else (im.dt, im.tag)

/-- the array writer computes scale factors iff the array is floating and the output integer
    (NIfTI family only; MGH `array_to_file` just casts) -/
def outScaled (im : Img) (q : Path) : Bool :=
  q.cls != .mgh && !(outHeader im q).1.isFloat && im.arrFloat

inductive Out where
  | noImg                       -- op without a live image
  | loadOk | loadErr
  | fdata (d : Nat)
  | unit                        -- uncache / edit / set affine
  | dtOk | dtErr
  | saved (c : Content)         -- fresh load of the target right after the save
  | bytes (c : Content)
  | bytesErr
  | bad                         -- crash / zeros / garbage (the model outcome `Crash`)
  deriving Repr, DecidableEq, Inhabited

structure St where
  fs : FS
  img : Option Img

/-- `to_file_map` of the (converted) image onto `q`.  `orig = true` is the logic BEFORE the repair
    (no copy of a memmap).  Returns outcome and the new file system. -/
def writeTo (orig : Bool) (fs : FS) (im : Img) (q : Path) : Out × FS :=
  -- data = np.asanyarray(self.dataobj)
  match materialise fs im with
  | none => (.bad, fs)
  | some m =>
    -- if isinstance(data, np.memmap): data = np.array(data)     [the repair]
    let m? : Option Mat :=
      match m with
      | .ref _ _ _ => if orig then some m else (deref fs m).map Mat.copy
      | .copy d => some (.copy d)
    match m? with
    | none => (.bad, fs)
    | some m' =>
      -- get_prepare_fileobj('wb'): the target is truncated before anything is written
      let fs1 := fs.set q (some .truncated)
      -- arr_writer.to_fileobj / array_to_file: the array elements are read now
      match deref fs1 m' with
      | none => (.bad, fs1)
      | some d =>
        let (dtO, tagO) := outHeader im q
        let c : Content := { data := d, aff := im.aff, dt := dtO, scaled := outScaled im q, tag := tagO }
        (.saved c, fs1.set q (some (.intact c)))

/-- `nib.save(img, q)`: rebinding of `file_map` happens only when no class conversion was needed; in that case
    `update_header()` also reconciles the image's OWN header with `img.affine` in place.  A converting save works on
    `Klass.from_image(img)` = `Klass(img.dataobj, img.affine, from_header(img.header))` — a COPY of the header that
    `update_header()` reconciles with `img.affine`; the original header keeps whatever was edited into it.  Either
    way the file gets `im.aff` (spatialimages.py:532-559, 591-612). -/
def save (orig : Bool) (fs : FS) (im : Img) (q : Path) : Out × FS × Img :=
  match writeTo orig fs im q with
  | (.saved c, fs') =>
      (.saved c, fs', if q.cls = im.cls then { im with fname := some q, hdrAff := im.aff } else im)
  | (o, fs') => (o, fs', im)

/-- `img.get_fdata()` -/
def getFdata (fs : FS) (im : Img) : Option (Nat × Img) :=
  match im.cache with
  | .owned d => some (d, im)
  | .alias => (readLayout fs im.src im.srcDt im.srcScaled).map (fun d => (d, im))
  | .none =>
    match materialise fs im with
    | none => none
    | some m =>
      match deref fs m with
      | none => none
      | some d =>
        -- np.asanyarray(dataobj, dtype=float64): no copy when the memmap already is float64
        let aliasing := (match m with | .ref _ _ _ => true | .copy _ => false) && im.srcDt == .f64
        some (d, { im with cache := if aliasing then .alias else .owned d })

/-- `img.to_bytes()`: `to_file_map` onto a BytesIO map (rebinds `file_map`); pairs have no `to_bytes` -/
def toBytes (fs : FS) (im : Img) : Out × Img :=
  if im.cls = .pair then (.bytesErr, im)
  else
    match (materialise fs im).bind (deref fs) with
    | none => (.bad, im)
    | some d =>
      (.bytes { data := d, aff := im.aff, dt := im.dt, tag := im.tag,
                scaled := im.cls != .mgh && !im.dt.isFloat && im.arrFloat },
       { im with fname := none, hdrAff := im.aff })

/-- dtypes an MGH header accepts (`MGHHeader.set_data_dtype`) -/
def mghOk : DT → Bool
  | .f64 => false
  | _ => true

inductive Op where
  | load (p : Path) (mm : Bool)
  | fdata
  | uncache
  | edit (k : Nat)
  | setAff (k : Nat)     -- image API `img.set_sform/set_qform` (MGH: `img.affine[:] = A`): changes img.affine
  | hdrEdit (k : Nat)    -- `img.header.set_sform(B)` / `set_sform(None,0)+set_qform(B)` / MGH Mdc,Pxyz_c: header only
  | setDt (dt : DT)
  | save (q : Path)
  | toBytes
  deriving Repr, DecidableEq, Inhabited

def load (fs : FS) (p : Path) (mm : Bool) : Option Img :=
  match fs p with
  | some (.intact c) =>
      some { cls := p.cls, dt := c.dt, tag := c.tag, aff := c.aff, hdrAff := c.aff, data := c.data, src := p, srcDt := c.dt,
             srcScaled := c.scaled, mm := mm, fname := some p, cache := .none }
  | _ => none

/-- ops other than `load` need a live image -/
def withImg (s : St) (f : Img → Out × St) : Out × St :=
  match s.img with
  | none => (.noImg, s)
  | some im => f im

def step (orig : Bool) (s : St) : Op → Out × St
  | .load p mm =>
      match load s.fs p mm with
      | some im => (.loadOk, { s with img := some im })
      | none => (.loadErr, s)
  | .fdata => withImg s fun im =>
      match getFdata s.fs im with
      | some (d, im') => (.fdata d, { s with img := some im' })
      | none => (.bad, s)
  | .uncache => withImg s fun im => (.unit, { s with img := some { im with cache := .none } })
  | .edit k => withImg s fun im => (.unit, { s with img := some { im with tag := k } })
  | .setAff k => withImg s fun im =>
      -- NIfTI: the header is set and img.affine re-read from it; MGH: only the array `img.affine` is overwritten
      (.unit, { s with img := some (if im.cls = .mgh then { im with aff := k } else { im with aff := k, hdrAff := k }) })
  | .hdrEdit k => withImg s fun im => (.unit, { s with img := some { im with hdrAff := k } })
  | .setDt dt => withImg s fun im =>
      if im.cls = .mgh ∧ mghOk dt = false then (.dtErr, s)
      else (.dtOk, { s with img := some { im with dt := dt } })
  | .save q => withImg s fun im =>
      match save orig s.fs im q with
      | (o, fs', im') => (o, { fs := fs', img := some im' })
  | .toBytes => withImg s fun im =>
      match toBytes s.fs im with
      | (o, im') => (o, { s with img := some im' })

/-- end-of-history usability probe: `get_fdata()` then `np.asanyarray(img.dataobj)` -/
def probe (s : St) : Option (Option (Nat × Nat)) :=
  match s.img with
  | none => some none
  | some im =>
    match getFdata s.fs im with
    | none => none
    | some (d, _) =>
      match (materialise s.fs im).bind (deref s.fs) with
      | none => none
      | some d2 => some (some (d, d2))

/-- run a history; stops at the first `bad` (the process is dead / the data are gone) -/
def run (orig : Bool) : St → List Op → List Out × Option St
  | s, [] => ([], some s)
  | s, op :: rest =>
    match step orig s op with
    | (.bad, _) => ([.bad], none)
    | (o, s') => let (os, f) := run orig s' rest; (o :: os, f)

end Nb.C09
