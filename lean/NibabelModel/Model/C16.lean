/-
  Model/C16 — executable model of the TRK / TCK tractogram readers and writers
  (nibabel/streamlines/tck.py, trk.py; orientation helpers of nibabel/orientations.py), as the
  code is AFTER the `fix:` commits "TRK/TCK readers restore the file position" (C16) and
  "TRK reader raises DataError on fewer streamlines than announced" (C08).

  Conventions
  * a float32 is its BIT PATTERN (`Nat < 2^32`); a point is a `Triple` of bit patterns.  The
    little-endian byte packing itself (`ndarray.tobytes` / `np.frombuffer`, `struct.pack('<i')`)
    is NumPy's and is not modelled: a file's data section is a list of 32-bit words (TRK) or of
    12-byte triples plus `ragged` trailing bytes (TCK).
  * Python dicts (`data_per_point`, `data_per_streamline`) are association lists LISTED IN SORTED
    KEY ORDER (the canonical representation of a dict whose iteration order does not matter); the
    `sorted(...)` calls of `TrkFile.save` are therefore the identity on the model's inputs and are
    checked by the correspondence (the harness builds the real dicts in random insertion order).
  * coordinates that go through an affine are exact rationals; `f32OfRat` is the exact
    `Rat → float32` conversion, defined only where the value is representable (the EXACT
    correspondence stream stays inside that domain; rounding of general values is NumPy's).
  * external, modelled-not-verified: `numpy.linalg.inv` (modelled as the exact adjugate inverse
    `Aff.inv`), `io_orientation` (SVD; enters `trackvisToRas` as the parameter `affOrnt`, with the
    executable stand-in `ioOrientSP` for signed-permutation × zoom matrices).
  * errors: `Err.data` = DataError, `Err.header` = HeaderError, `Err.value` = ValueError,
    `Err.short` = the TypeError/ValueError/struct.error NumPy/struct raise on a short or
    malformed record, `Err.zerodiv` = ZeroDivisionError.
-/
namespace Nb.C16

inductive Err where
  | data | header | value | short | zerodiv
  deriving Repr, DecidableEq, Inhabited

def Err.name : Err → String
  | .data => "ERR:DataError" | .header => "ERR:HeaderError" | .value => "ERR:ValueError"
  | .short => "ERR:short" | .zerodiv => "ERR:ZeroDivisionError"

/-! ## Decimal representation: `str(n)`, `len(str(n))`, `int(s)` for non-negative ints -/

/-- `len(str(n))` for `n ≥ 0` -/
def decDigits (n : Nat) : Nat := if n < 10 then 1 else decDigits (n / 10) + 1

/-- `str(n)` as ASCII codes -/
def decRepr (n : Nat) : List Nat := if n < 10 then [48 + n] else decRepr (n / 10) ++ [48 + n % 10]

def isDigit (c : Nat) : Bool := 48 ≤ c && c ≤ 57

/-- `int(s)` for strings made of ASCII digits only; anything else (incl. the empty string) is
    `none` = ValueError.  (CPython also accepts surrounding whitespace, a sign and `_`; the
    correspondence streams avoid those characters.) -/
def parseDec (s : List Nat) : Option Nat :=
  if s.isEmpty || !s.all isDigit then none
  else some (s.foldl (fun acc c => acc * 10 + (c - 48)) 0)

/-! ## TCK header: the `file: . <offset>` arithmetic (tck.py:277-287) -/

/-- `hdr_offset` as written after `file: . ` for a header text `out` of `lenOut` bytes:
    ```
    hdr_offset = len(out) + 8 + 3 + 3
    offset_repr = f'{hdr_offset}'
    hdr_offset += len(f'{hdr_offset + len(offset_repr)}')
    ``` -/
def tckHdrOffset (lenOut : Nat) : Nat :=
  let h := lenOut + 8 + 3 + 3
  let reprLen := decDigits h
  h + decDigits (h + reprLen)

/-- `len('\nfile: . ')` and `len('\nEND\n')` — the text written around the number (tck.py:287) -/
def tckFilePrefixLen : Nat := 9
def tckFileSuffixLen : Nat := 5

/-- the REAL byte position at which the data start, for a header whose `file` entry holds `n` -/
def tckDataStart (lenOut n : Nat) : Nat := lenOut + tckFilePrefixLen + decDigits n + tckFileSuffixLen

/-- reader's buffer size in bytes (tck.py:422-425) given `req = int(buffer_size * MEGABYTE)`:
    `buffer_size += coordinate_size - (buffer_size % coordinate_size)` with coordinate_size 12 -/
def tckCoordSize : Nat := 12
def tckBufferBytes (req : Nat) : Nat := req + (tckCoordSize - req % tckCoordSize)

/-! ## float32 bit patterns -/

abbrev Triple := Nat × Nat × Nat

def isNaN32 (w : Nat) : Bool := (w &&& 0x7F800000) == 0x7F800000 && (w &&& 0x007FFFFF) != 0
def isInf32 (w : Nat) : Bool := (w &&& 0x7FFFFFFF) == 0x7F800000

/-- `np.isnan(coords).all(axis=1)` — a streamline delimiter -/
def isDelim (t : Triple) : Bool := isNaN32 t.1 && isNaN32 t.2.1 && isNaN32 t.2.2
/-- `np.isinf(row).all()` -/
def isInfTriple (t : Triple) : Bool := isInf32 t.1 && isInf32 t.2.1 && isInf32 t.2.2

/-- `FIBER_DELIMITER` / `EOF_DELIMITER` as written (`np.nan`, `np.inf` as '<f4') -/
def nanWord : Nat := 0x7FC00000
def infWord : Nat := 0x7F800000
def nanTriple : Triple := (nanWord, nanWord, nanWord)
def infTriple : Triple := (infWord, infWord, infWord)

/-! ## TCK writer (tck.py:229-238): every streamline followed by the NaN triple, then the inf triple -/

def tckData (sls : List (List Triple)) : List Triple :=
  (sls.map (fun s => s ++ [nanTriple])).flatten ++ [infTriple]

/-! ## TCK chunked reader (tck.py:434-477) -/

/-- `np.where(np.isnan(coords).all(axis=1))[0]`, numbering rows from `off` -/
def delimIdxs (off : Nat) : List Triple → List Nat
  | [] => []
  | t :: ts => if isDelim t then off :: delimIdxs (off + 1) ts else delimIdxs (off + 1) ts

/-- `coords[b:e]` for `0 ≤ b`, `0 ≤ e` -/
def pySlice {α} (l : List α) (b e : Nat) : List α := (l.drop b).take (e - b)

/-- the `for delim in delims:` loop (tck.py:458-464): returns the yielded streamlines and the final `begin` -/
def splitAtDelims (coords : List Triple) : Nat → List Nat → List (List Triple) × Nat
  | begin, [] => ([], begin)
  | begin, d :: ds =>
      let pts := pySlice coords begin d
      let r := splitAtDelims coords (d + 1) ds
      (if pts.isEmpty then r.1 else pts :: r.1, r.2)

/-- one pass of the `while not eof` body after the read: (yielded, new leftover) -/
def procChunk (leftover chunk : List Triple) : List (List Triple) × List Triple :=
  let delims0 := delimIdxs 0 chunk
  let delims := if leftover.isEmpty then delims0 else delims0.map (· + leftover.length)
  let coords := if leftover.isEmpty then chunk else leftover ++ chunk
  let r := splitAtDelims coords 0 delims
  (r.1, coords.drop r.2)

/-- final check (tck.py:469-474) -/
def tckEofOk (leftover : List Triple) : Bool :=
  match leftover with
  | [t] => isInfTriple t
  | _ => false

/-- What a reader generator does when run to the end: the items it yields, each with the file
    position at the moment of the yield, then how it ends and where the file position is then
    (before the `finally`). -/
structure GenRun (α : Type) where
  items : List (α × Nat)
  err : Option Err
  endPos : Nat

/-- The loop.  `c` = buffer size in triples (`buffer_size / 12`, positive), `data` = the triples
    from `_offset_data` to the end of file, `ragged` = number of extra bytes (0..11) after the last
    whole triple, `pos` = current file position.  A short read is the last one (`eof`); if the
    bytes read are not whole triples `np.frombuffer`/`reshape` raise ValueError. -/
def tckLoop (c : Nat) (ragged : Nat) (data leftover : List Triple) (pos : Nat) : GenRun (List Triple) :=
  if h : 0 < c ∧ c ≤ data.length then
    let pos' := pos + 12 * c
    let r := procChunk leftover (data.take c)
    let rest := tckLoop c ragged (data.drop c) r.2 pos'
    { rest with items := r.1.map (·, pos') ++ rest.items }
  else
    let pos' := pos + 12 * data.length + ragged
    if ragged ≠ 0 then ⟨[], some .value, pos'⟩
    else
      let r := procChunk leftover data
      ⟨r.1.map (·, pos'), if tckEofOk r.2 then none else some .data, pos'⟩
termination_by data.length
decreasing_by simp [List.length_drop]; omega

/-- `TckFile._read(fileobj, header, buffer_size)` run to completion from `_offset_data = off` -/
def tckRead (c : Nat) (ragged : Nat) (off : Nat) (data : List Triple) : GenRun (List Triple) :=
  tckLoop c ragged data [] off

/-- whole-stream parse = the reader with a buffer larger than the file -/
def tckScan (cur : List Triple) : List Triple → List (List Triple) × List Triple
  | [] => ([], cur)
  | t :: ts =>
      if isDelim t then
        let r := tckScan [] ts
        (if cur.isEmpty then r.1 else cur :: r.1, r.2)
      else tckScan (cur ++ [t]) ts

/-- specification of the parse: split at NaN triples, drop empty pieces, what follows the last
    delimiter must be exactly one inf triple -/
def tckParseWhole (data : List Triple) : List (List Triple) × Option Err :=
  let r := tckScan [] data
  (r.1, if tckEofOk r.2 then none else some .data)

/-! ## Generator protocol and the file position (tck.py:427-480, trk.py:672-732)

  `with Opener(fileobj) as f: start = f.tell(); try: <body with yields> finally: f.seek(start, SEEK_SET)`.
  The consumer may call `next` any number of times and `close` (explicitly, or implicitly when the
  generator is garbage-collected: `GeneratorExit` is raised at the suspended `yield`, so the
  `finally` clause runs).  The ORIGINAL code had `f.seek(start, os.SEEK_CUR)` as the last statement
  of the body, without try/finally. -/

inductive GState where
  | fresh                 -- created, body not started: nothing has touched the file
  | suspended (k : Nat)   -- suspended at the yield of item number k (0-based)
  | finished              -- returned, raised, or closed
  deriving Repr, DecidableEq

def GState.isSuspended : GState → Bool
  | .suspended _ => true
  | _ => false

structure Gen (α : Type) where
  run : GenRun α
  fixed : Bool            -- true: current code (SEEK_SET in finally); false: original code
  start : Nat             -- file position when the body starts (`f.tell()`)
  st : GState
  pos : Nat               -- current file position

inductive Act where | next | close
  deriving Repr, DecidableEq

def Gen.init {α} (run : GenRun α) (fixed : Bool) (start : Nat) : Gen α := ⟨run, fixed, start, .fresh, start⟩

/-- advance to item `k` or to the end of the body -/
def Gen.advance {α} (g : Gen α) (k : Nat) : Gen α :=
  match g.run.items[k]? with
  | some it => { g with st := .suspended k, pos := it.2 }
  | none =>
      -- body runs to its end (normal return or raise)
      if g.fixed then { g with st := .finished, pos := g.start }                 -- finally: seek(start, SEEK_SET)
      else match g.run.err with
        | none => { g with st := .finished, pos := g.run.endPos + g.start }      -- seek(start, SEEK_CUR)
        | some _ => { g with st := .finished, pos := g.run.endPos }              -- raised before the seek

def Gen.step {α} (g : Gen α) : Act → Gen α
  | .next => match g.st with
      | .fresh => g.advance 0
      | .suspended k => g.advance (k + 1)
      | .finished => g
  | .close => match g.st with
      | .fresh => { g with st := .finished }                 -- body never ran
      | .suspended _ =>
          if g.fixed then { g with st := .finished, pos := g.start }   -- GeneratorExit → finally
          else { g with st := .finished }                               -- original: position stays
      | .finished => g

/-- items delivered to the consumer by a history of actions -/
def Gen.runActs {α} (g : Gen α) (acts : List Act) : Gen α := acts.foldl Gen.step g

/-! ## TRK names (trk.py:122-200) -/

abbrev Name := List Nat    -- latin-1 code points

/-- `encode_value_in_name(value, name, max_name_len=20)` -/
def encodeName (value : Nat) (name : Name) (maxLen : Nat := 20) : Except Err (List Nat) :=
  if name.length > maxLen then .error .value
  else
    let enc := if value ≤ 1 then name else name ++ [0] ++ decRepr value
    if enc.length > maxLen then .error .value
    else .ok (enc ++ List.replicate (maxLen - enc.length) 0)

/-- `s.rstrip('\x00')` -/
def rstripNul (s : List Nat) : List Nat := (s.reverse.dropWhile (· == 0)).reverse

/-- `s.split('\x00')` -/
def splitNul : List Nat → List (List Nat)
  | [] => [[]]
  | c :: cs =>
      match splitNul cs with
      | [] => [[]]   -- unreachable
      | p :: ps => if c == 0 then [] :: p :: ps else (c :: p) :: ps

/-- `decode_value_from_name(encoded_name)` -/
def decodeName (enc : List Nat) : Except Err (Name × Nat) :=
  if enc.isEmpty then .ok ([], 0)
  else
    match splitNul (rstripNul enc) with
    | [n] => .ok (n, 1)
    | [n, v] => match parseDec v with
        | some k => .ok (n, k)
        | none => .error .value
    | _ => .error .header

/-- NumPy `S20` item access strips trailing NUL bytes -/
def s20 (field : List Nat) : List Nat := rstripNul field

/-- Python dict assignment `d[k] = v` on an insertion-ordered association list -/
def dictSet {κ β} [DecidableEq κ] (d : List (κ × β)) (k : κ) (v : β) : List (κ × β) :=
  if d.any (·.1 == k) then d.map (fun e => if e.1 == k then (k, v) else e) else d ++ [(k, v)]

/-- the name-table loops of `TrkFile.load` (trk.py:320-354): `nb` = header count
    (`nb_scalars_per_point` / `nb_properties_per_streamline`), `fields` = the ten S20 items,
    `dflt` = 'scalars' / 'properties'.  Result: name ↦ (start, stop). -/
def nameSlicesLoop : List (List Nat) → Nat → List (Name × Nat × Nat) → Except Err (List (Name × Nat × Nat) × Nat)
  | [], cpt, acc => .ok (acc, cpt)
  | f :: fs, cpt, acc =>
      match decodeName (s20 f) with
      | .error e => .error e
      | .ok (name, k) =>
          if k == 0 then nameSlicesLoop fs cpt acc
          else nameSlicesLoop fs (cpt + k) (dictSet acc name (cpt, cpt + k))

def nameSlices (nb : Nat) (fields : List (List Nat)) (dflt : Name) : Except Err (List (Name × Nat × Nat)) :=
  if nb == 0 then .ok []
  else match nameSlicesLoop fields 0 [] with
    | .error e => .error e
    | .ok (acc, cpt) => .ok (if cpt < nb then dictSet acc dflt (cpt, nb) else acc)

/-- the name table written by `TrkFile.save` (trk.py:465-501) for the (sorted) keys of the first
    item with their numbers of columns; more than ten → ValueError; unused fields are zero -/
def nameTable (cols : List (Name × Nat)) : Except Err (List (List Nat)) :=
  if cols.length > 10 then .error .value
  else do
    let encs ← cols.mapM (fun c => encodeName c.2 c.1)
    pure (encs ++ List.replicate (10 - cols.length) (List.replicate 20 0))

def scalarsName : Name := [115, 99, 97, 108, 97, 114, 115]                     -- 'scalars'
def propertiesName : Name := [112, 114, 111, 112, 101, 114, 116, 105, 101, 115] -- 'properties'


/-! ## TRK records (trk.py:503-524 writer, 676-729 reader), at the level of 32-bit words -/

/-- `TrkFile.HEADER_SIZE` = itemsize of the header dtype: the data start right after it -/
def trkHeaderSize : Nat := 1000

/-- one record as the reader yields it: `rows` = per point the 3 coordinates followed by the
    `nb_scalars_per_point` scalars, `props` = the `nb_properties_per_streamline` properties -/
structure TrkRec where
  rows : List (List Nat)
  props : List Nat
  deriving Repr, DecidableEq, Inhabited

/-- `struct.pack('<i', len(points)) + pts_scalars.tobytes() + properties.tobytes()` -/
def trkRecWords (r : TrkRec) : List Nat := r.rows.length :: (r.rows.flatten ++ r.props)

def trkDataWords (recs : List TrkRec) : List Nat := (recs.map trkRecWords).flatten

/-- `np.ndarray(shape=(n, w), buffer=...)`: n rows of w words -/
def chunkRows (w : Nat) : Nat → List Nat → List (List Nat)
  | 0, _ => []
  | n + 1, l => l.take w :: chunkRows w n (l.drop w)

/-- `TrkFile._read` loop.  `announced` = header `nb_streamlines` (0 = not provided: read to EOF),
    `words` = the file from the current position to its end, `count` = records read so far. -/
def trkLoop (ns np announced : Nat) (words : List Nat) (count pos : Nat) : GenRun TrkRec :=
  if announced ≠ 0 ∧ announced ≤ count then ⟨[], none, pos⟩          -- `while count < nb_streamlines`
  else
    match words with
    | [] => ⟨[], if count < announced then some .data else none, pos⟩  -- `len(nb_pts_str) == 0: break`, then the C08 check
    | n :: rest =>
        let need := n * (3 + ns)
        if 2147483648 ≤ n then ⟨[], some .short, pos + 4⟩              -- negative int32: np.ndarray raises ValueError
        else if rest.length < need then ⟨[], some .short, pos + 4 + 4 * rest.length⟩   -- buffer too small: TypeError
        else if (rest.drop need).length < np then ⟨[], some .short, pos + 4 + 4 * rest.length⟩
        else
          let rec_ : TrkRec := ⟨chunkRows (3 + ns) n (rest.take need), (rest.drop need).take np⟩
          let pos' := pos + 4 + 4 * need + 4 * np
          let r := trkLoop ns np announced ((rest.drop need).drop np) (count + 1) pos'
          { r with items := (rec_, pos') :: r.items }
termination_by words.length
decreasing_by simp [List.length_drop]; omega

def trkRead (ns np announced off : Nat) (words : List Nat) : GenRun TrkRec :=
  trkLoop ns np announced words 0 off

/-! ## TRK save / load at the level of items (trk.py:465-545, 318-397) -/

/-- a `TractogramItem` whose dicts are listed in sorted key order -/
structure Item where
  pts : List Triple
  dpp : List (Name × List (List Nat))     -- data_for_points: name ↦ one row (k words) per point
  dps : List (Name × List Nat)            -- data_for_streamline: name ↦ k words
  deriving Repr, DecidableEq, Inhabited

/-- the header fields `save` rewrites -/
structure TrkCounts where
  nStreams : Nat
  ns : Nat
  np : Nat
  scalarFields : List (List Nat)
  propFields : List (List Nat)
  deriving Repr, DecidableEq, Inhabited

def zeroFields : List (List Nat) := List.replicate 10 (List.replicate 20 0)

def tripleWords (t : Triple) : List Nat := [t.1, t.2.1, t.2.2]

/-- `np.concatenate([points, scalars], axis=1)` row `i` -/
def lookupKeys {β} (keys : List Name) (d : List (Name × β)) : Except Err (List β) :=
  keys.mapM (fun k => match d.lookup k with | some v => .ok v | none => .error .value)   -- KeyError (not generated)

def itemRows (keys : List Name) (it : Item) : Except Err (List (List Nat)) :=
  if it.dpp.any (fun d => d.2.length != it.pts.length) then .error .data    -- 'Missing scalars for some points!'
  else
    match lookupKeys keys it.dpp with
    | .error e => .error e
    | .ok cols => .ok (it.pts.zipIdx.map (fun x => tripleWords x.1 ++ (cols.map (fun c => c.getD x.2 [])).flatten))

def itemProps (keys : List Name) (it : Item) : Except Err (List Nat) :=
  match lookupKeys keys it.dps with
  | .error e => .error e
  | .ok vs => .ok vs.flatten

/-- one record of the `for t in tractogram:` loop -/
def itemRec (skeys pkeys : List Name) (it : Item) : Except Err TrkRec :=
  match itemRows skeys it with
  | .error e => .error e
  | .ok rows =>
      match itemProps pkeys it with
      | .error e => .error e
      | .ok props => .ok ⟨rows, props⟩

/-- the header counts computed after the loop (trk.py:526-541) -/
def trkHeaderCounts (nItems : Nat) (recs : List TrkRec) (scalarFields propFields : List (List Nat)) :
    Except Err TrkCounts :=
  let nbPoints := (recs.map (·.rows.length)).sum
  let nbScalars := (recs.map (fun r => (r.rows.map (fun row => row.length - 3)).sum)).sum
  let nbProps := (recs.map (·.props.length)).sum
  if nbPoints == 0 then .error .zerodiv
  else if nbScalars % nbPoints != 0 then .error .data
  else if nbProps % nItems != 0 then .error .data
  else .ok ⟨nItems, nbScalars / nbPoints, nbProps / nItems, scalarFields, propFields⟩

/-- `TrkFile.save` after the affine has been applied: counts, name tables and the data words -/
def trkSaveItems (items : List Item) : Except Err (TrkCounts × List Nat) :=
  match items with
  | [] => .ok (⟨0, 0, 0, zeroFields, zeroFields⟩, [])
  | first :: _ =>
      match nameTable (first.dps.map (fun d => (d.1, d.2.length))) with
      | .error e => .error e
      | .ok propFields =>
          match nameTable (first.dpp.map (fun d => (d.1, (d.2.headD []).length))) with
          | .error e => .error e
          | .ok scalarFields =>
              match items.mapM (itemRec (first.dpp.map (·.1)) (first.dps.map (·.1))) with
              | .error e => .error e
              | .ok recs =>
                  match trkHeaderCounts items.length recs scalarFields propFields with
                  | .error e => .error e
                  | .ok h => .ok (h, trkDataWords recs)

def rowTriple (row : List Nat) : Triple := (row.getD 0 0, row.getD 1 0, row.getD 2 0)

/-- slicing one yielded record by the name tables (`scals[:, v]`, `props[v]`) -/
def recItem (dppS dpsS : List (Name × Nat × Nat)) (r : TrkRec) : Item :=
  ⟨r.rows.map rowTriple,
   dppS.map (fun s => (s.1, r.rows.map (fun row => pySlice (row.drop 3) s.2.1 s.2.2))),
   dpsS.map (fun s => (s.1, pySlice r.props s.2.1 s.2.2))⟩

/-- `TrkFile.load` before the affine is applied -/
def trkLoadItems (h : TrkCounts) (words : List Nat) : Except Err (List Item) :=
  match nameSlices h.ns h.scalarFields scalarsName with
  | .error e => .error e
  | .ok dppS =>
      match nameSlices h.np h.propFields propertiesName with
      | .error e => .error e
      | .ok dpsS =>
          match (trkRead h.ns h.np h.nStreams 0 words).err with
          | some e => .error e
          | none => .ok ((trkRead h.ns h.np h.nStreams 0 words).items.map (fun x => recItem dppS dpsS x.1))

/-! ## Affines over `Rat` -/

abbrev V3 := Rat × Rat × Rat

structure Aff where
  a00 : Rat
  a01 : Rat
  a02 : Rat
  a10 : Rat
  a11 : Rat
  a12 : Rat
  a20 : Rat
  a21 : Rat
  a22 : Rat
  t0 : Rat
  t1 : Rat
  t2 : Rat
  deriving Repr, DecidableEq, Inhabited

def Aff.apply (A : Aff) (p : V3) : V3 :=
  (A.a00 * p.1 + A.a01 * p.2.1 + A.a02 * p.2.2 + A.t0,
   A.a10 * p.1 + A.a11 * p.2.1 + A.a12 * p.2.2 + A.t1,
   A.a20 * p.1 + A.a21 * p.2.1 + A.a22 * p.2.2 + A.t2)

/-- `np.dot(A, B)` for 4×4 affines: first `B`, then `A` -/
def Aff.comp (A B : Aff) : Aff :=
  { a00 := A.a00 * B.a00 + A.a01 * B.a10 + A.a02 * B.a20
    a01 := A.a00 * B.a01 + A.a01 * B.a11 + A.a02 * B.a21
    a02 := A.a00 * B.a02 + A.a01 * B.a12 + A.a02 * B.a22
    a10 := A.a10 * B.a00 + A.a11 * B.a10 + A.a12 * B.a20
    a11 := A.a10 * B.a01 + A.a11 * B.a11 + A.a12 * B.a21
    a12 := A.a10 * B.a02 + A.a11 * B.a12 + A.a12 * B.a22
    a20 := A.a20 * B.a00 + A.a21 * B.a10 + A.a22 * B.a20
    a21 := A.a20 * B.a01 + A.a21 * B.a11 + A.a22 * B.a21
    a22 := A.a20 * B.a02 + A.a21 * B.a12 + A.a22 * B.a22
    t0 := A.a00 * B.t0 + A.a01 * B.t1 + A.a02 * B.t2 + A.t0
    t1 := A.a10 * B.t0 + A.a11 * B.t1 + A.a12 * B.t2 + A.t1
    t2 := A.a20 * B.t0 + A.a21 * B.t1 + A.a22 * B.t2 + A.t2 }

def Aff.det (A : Aff) : Rat :=
  A.a00 * (A.a11 * A.a22 - A.a12 * A.a21) - A.a01 * (A.a10 * A.a22 - A.a12 * A.a20) +
  A.a02 * (A.a10 * A.a21 - A.a11 * A.a20)

/-- exact inverse (adjugate / determinant); stands for `numpy.linalg.inv`.  Meaningful for `det ≠ 0`
    (NumPy raises LinAlgError for an exactly singular matrix). -/
def Aff.inv (A : Aff) : Aff :=
  let d := A.det
  let b00 := (A.a11 * A.a22 - A.a12 * A.a21) / d
  let b01 := (A.a02 * A.a21 - A.a01 * A.a22) / d
  let b02 := (A.a01 * A.a12 - A.a02 * A.a11) / d
  let b10 := (A.a12 * A.a20 - A.a10 * A.a22) / d
  let b11 := (A.a00 * A.a22 - A.a02 * A.a20) / d
  let b12 := (A.a02 * A.a10 - A.a00 * A.a12) / d
  let b20 := (A.a10 * A.a21 - A.a11 * A.a20) / d
  let b21 := (A.a01 * A.a20 - A.a00 * A.a21) / d
  let b22 := (A.a00 * A.a11 - A.a01 * A.a10) / d
  { a00 := b00, a01 := b01, a02 := b02, a10 := b10, a11 := b11, a12 := b12, a20 := b20, a21 := b21, a22 := b22
    t0 := -(b00 * A.t0 + b01 * A.t1 + b02 * A.t2)
    t1 := -(b10 * A.t0 + b11 * A.t1 + b12 * A.t2)
    t2 := -(b20 * A.t0 + b21 * A.t1 + b22 * A.t2) }

/-! ## Orientations (orientations.py:94-128, 171-224, 251-342) -/

/-- one row per axis: (output axis, flip ∈ {1,-1}) -/
abbrev Ornt := List (Nat × Int)

/-- `axcodes2ornt(codes)` with the default labels (('L','R'),('P','A'),('I','S')); the TRK reader
    upper-cases the header's voxel order first -/
def axcodeOrnt (c : Char) : Option (Nat × Int) :=
  match c.toUpper with
  | 'L' => some (0, -1) | 'R' => some (0, 1)
  | 'P' => some (1, -1) | 'A' => some (1, 1)
  | 'I' => some (2, -1) | 'S' => some (2, 1)
  | _ => none

def axcodesToOrnt (codes : List Char) : Except Err Ornt :=
  codes.mapM (fun c => match axcodeOrnt c with | some o => .ok o | none => .error .value)

/-- `ornt2axcodes` with the default labels, for rows that name an axis 0..2 with flip ±1 -/
def orntToAxcodes (o : Ornt) : List Char :=
  o.map (fun r => match r.1, decide (r.2 = 1) with
    | 0, true => 'R' | 0, false => 'L'
    | 1, true => 'A' | 1, false => 'P'
    | 2, true => 'S' | _, _ => 'I')

/-- `ornt_transform(start_ornt, end_ornt)`; the result array starts as `np.empty_like` (modelled
    as rows `(0, 0)`; every row is overwritten when both arguments are permutations) -/
def orntTransform (start end_ : Ornt) : Except Err Ornt :=
  if start.length ≠ end_.length then .error .value
  else
    end_.zipIdx.foldlM (fun (res : Ornt) (e : (Nat × Int) × Nat) =>
      match start.findIdx? (fun s => s.1 == e.1.1) with
      | some si => .ok (res.set si (e.2, if (start.getD si (0, 0)).2 == e.1.2 then 1 else -1))
      | none => .error .value) (start.map (fun _ => (0, 0)))

def unitRow (j : Nat) (f : Rat) : Rat × Rat × Rat :=
  match j with
  | 0 => (f, 0, 0) | 1 => (0, f, 0) | 2 => (0, 0, f) | _ => (0, 0, 0)

/-- `inv_ornt_aff(ornt, shape)` for three axes: row `i` is `flip_i · e_{axis_i}`, translation
    `flip_i·c_i − c_i` with `c_i = −(shape_i − 1)/2` -/
def invOrntAff (o : Ornt) (dims : Int × Int × Int) : Aff :=
  let r0 := o.getD 0 (0, 0)
  let r1 := o.getD 1 (0, 0)
  let r2 := o.getD 2 (0, 0)
  let c (d : Int) : Rat := -(((d : Rat) - 1) / 2)
  let tr (f : Int) (d : Int) : Rat := (f : Rat) * c d - c d
  let u0 := unitRow r0.1 r0.2
  let u1 := unitRow r1.1 r1.2
  let u2 := unitRow r2.1 r2.2
  { a00 := u0.1, a01 := u0.2.1, a02 := u0.2.2, a10 := u1.1, a11 := u1.2.1, a12 := u1.2.2
    a20 := u2.1, a21 := u2.2.1, a22 := u2.2.2
    t0 := tr r0.2 dims.1, t1 := tr r1.2 dims.2.1, t2 := tr r2.2 dims.2.2 }

/-- the 48 orientations of three axes: a permutation of the output axes with a flip each -/
def allOrnts : List Ornt :=
  ([[0, 1, 2], [0, 2, 1], [1, 0, 2], [1, 2, 0], [2, 0, 1], [2, 1, 0]] : List (List Nat)).flatMap (fun p =>
    ([[1, 1, 1], [1, 1, -1], [1, -1, 1], [1, -1, -1], [-1, 1, 1], [-1, 1, -1], [-1, -1, 1], [-1, -1, -1]] :
      List (List Int)).map (fun f => p.zip f))

/-- the geometry fields of a TRK header -/
structure TrkGeom where
  vs : V3                       -- voxel_sizes
  dims : Int × Int × Int        -- dimensions
  order : List Char             -- voxel_order
  v2r : Aff                     -- voxel_to_rasmm
  deriving Repr, Inhabited

def scaleInv (vs : V3) : Aff :=
  { a00 := 1 / vs.1, a01 := 0, a02 := 0, a10 := 0, a11 := 1 / vs.2.1, a12 := 0, a20 := 0, a21 := 0, a22 := 1 / vs.2.2
    t0 := 0, t1 := 0, t2 := 0 }

def shiftHalf : Aff :=
  { a00 := 1, a01 := 0, a02 := 0, a10 := 0, a11 := 1, a12 := 0, a20 := 0, a21 := 0, a22 := 1
    t0 := -(1 / 2), t1 := -(1 / 2), t2 := -(1 / 2) }

/-- `get_affine_trackvis_to_rasmm(header)` (trk.py:60-115).  `affOrnt` = `io_orientation(vox_to_ras)`
    (external). -/
def trackvisToRas (g : TrkGeom) (affOrnt : Ornt) : Except Err Aff := do
  let headerOrnt ← axcodesToOrnt g.order
  let affineOrnt ← axcodesToOrnt (orntToAxcodes affOrnt)
  let o ← orntTransform headerOrnt affineOrnt
  let M := invOrntAff o g.dims
  pure (g.v2r.comp (M.comp (shiftHalf.comp (scaleInv g.vs))))

/-- `get_affine_rasmm_to_trackvis(header)` = `np.linalg.inv(...)` -/
def rasToTrackvis (g : TrkGeom) (affOrnt : Ornt) : Except Err Aff := (trackvisToRas g affOrnt).map Aff.inv

/-- stand-in for `io_orientation` on matrices whose 3×3 part has exactly one non-zero entry in
    every column and every row (signed permutation × zooms): (row of the entry, its sign) -/
def ioOrientSP (A : Aff) : Option Ornt :=
  let col (x y z : Rat) : Option (Nat × Int) :=
    if x ≠ 0 ∧ y = 0 ∧ z = 0 then some (0, if x < 0 then -1 else 1)
    else if x = 0 ∧ y ≠ 0 ∧ z = 0 then some (1, if y < 0 then -1 else 1)
    else if x = 0 ∧ y = 0 ∧ z ≠ 0 then some (2, if z < 0 then -1 else 1)
    else none
  match col A.a00 A.a10 A.a20, col A.a01 A.a11 A.a21, col A.a02 A.a12 A.a22 with
  | some c0, some c1, some c2 =>
      if c0.1 ≠ c1.1 ∧ c0.1 ≠ c2.1 ∧ c1.1 ≠ c2.1 then some [c0, c1, c2] else none
  | _, _, _ => none

/-! ## float32 ⇄ Rat (exact) -/

def pow2 (e : Int) : Rat := if e ≥ 0 then ((2 ^ e.toNat : Nat) : Rat) else 1 / ((2 ^ (-e).toNat : Nat) : Rat)

/-- value of a finite float32 bit pattern -/
def f32ToRat (w : Nat) : Option Rat :=
  let e := (w >>> 23) &&& 0xFF
  let m := w &&& 0x7FFFFF
  let s : Rat := if w &&& 0x80000000 != 0 then -1 else 1
  if e == 255 then none
  else if e == 0 then some (s * (m : Rat) * pow2 (-149))
  else some (s * ((m + 0x800000 : Nat) : Rat) * pow2 ((e : Int) - 150))

/-- the float32 whose value is exactly `x`, if there is one (`+0` for 0) -/
def f32OfRat (x : Rat) : Option Nat :=
  if x = 0 then some 0
  else
    let sign : Nat := if x < 0 then 0x80000000 else 0
    let a : Rat := if x < 0 then -x else x
    let e0 : Int := (a.num.toNat.log2 : Int) - (a.den.log2 : Int)
    let e : Int := if a < pow2 e0 then e0 - 1 else e0
    if e > 127 then none
    else if e ≥ -126 then
      let m := a * pow2 (23 - e)
      if m.den = 1 then some (sign + ((e + 127).toNat <<< 23) + (m.num.toNat - 0x800000)) else none
    else
      let m := a * pow2 149
      if m.den = 1 then some (sign + m.num.toNat) else none

def tripleToV3 (t : Triple) : Option V3 := do
  let x ← f32ToRat t.1
  let y ← f32ToRat t.2.1
  let z ← f32ToRat t.2.2
  pure (x, y, z)

def v3ToTriple (p : V3) : Option Triple := do
  let x ← f32OfRat p.1
  let y ← f32OfRat p.2.1
  let z ← f32OfRat p.2.2
  pure (x, y, z)

/-- `apply_affine(A, pts)` on float32 data, defined where every result is exactly representable -/
def applyAffBits (A : Aff) (t : Triple) : Option Triple := do
  let p ← tripleToV3 t
  v3ToTriple (A.apply p)

/-! ## LazyTractogram with a pending affine (tractogram.py:708-725 `.streamlines`, 753-770 `.data`)

  A lazily loaded TRK tractogram keeps the reader's raw (trackvis-space) items and the pending
  affine `_affine_to_apply`.  Both the `.streamlines` property and (after the fix "LazyTractogram.data
  applies the pending affine to the items it yields") the item iteration used by `save` apply it.
  (`np.allclose(affine, eye)` only skips a multiplication by the identity.) -/

def lazyStreamlines (A : Aff) (raw : List Item) : Option (List (List Triple)) :=
  raw.mapM (fun it => it.pts.mapM (applyAffBits A))

def lazyItems (A : Aff) (raw : List Item) : Option (List Item) :=
  raw.mapM (fun it => (it.pts.mapM (applyAffBits A)).map (fun p => { it with pts := p }))

/-- the ORIGINAL `LazyTractogram.data`: `return self._data()` — the pending affine is ignored -/
def lazyItemsOrig (_A : Aff) (raw : List Item) : Option (List Item) := some raw

/-! ## A TCK file at byte level (tck.py:185-238 `save`, 275-287 `_write_header`, 396 + 432 reader)

  `out` is the header text up to and excluding the `file` entry (magic, count, datatype, extra
  fields — any bytes).  `save` writes `out`, then `\nfile: . <N>\nEND\n`, then the data triples as
  little-endian float32.  The reader takes `N = int(hdr['file'].split()[1])`, seeks to byte `N` and
  decodes whatever is there in 12-byte groups.  (`tckAnnounced` reads the digits that follow the
  `file: . ` text; the line-oriented header parser itself is `tckHeaderOffset` in Model/C16_Ext §4.) -/

def encWord (w : Nat) : List Nat := [w % 256, w / 256 % 256, w / 65536 % 256, w / 16777216 % 256]
def decWord (a b c d : Nat) : Nat := a + 256 * b + 65536 * c + 16777216 * d
def encTriple (t : Triple) : List Nat := encWord t.1 ++ encWord t.2.1 ++ encWord t.2.2
def encTriples (l : List Triple) : List Nat := (l.map encTriple).flatten

/-- `np.frombuffer(buff, '<f4').reshape(-1, 3)` of everything from the data offset on: the whole
    triples and the number of left-over bytes -/
def decTriples : List Nat → List Triple × Nat
  | a0 :: a1 :: a2 :: a3 :: b0 :: b1 :: b2 :: b3 :: c0 :: c1 :: c2 :: c3 :: rest =>
      let r := decTriples rest
      ((decWord a0 a1 a2 a3, decWord b0 b1 b2 b3, decWord c0 c1 c2 c3) :: r.1, r.2)
  | l => ([], l.length)

def tckFilePrefix : List Nat := [10, 102, 105, 108, 101, 58, 32, 46, 32]   -- b'\nfile: . '
def tckFileSuffix : List Nat := [10, 69, 78, 68, 10]                       -- b'\nEND\n'

/-- the bytes `TckFile.save` leaves in the file for header text `out` and streamlines `sls` -/
def tckWriteFile (out : List Nat) (sls : List (List Triple)) : List Nat :=
  out ++ tckFilePrefix ++ decRepr (tckHdrOffset out.length) ++ tckFileSuffix ++ encTriples (tckData sls)

/-- the data offset the header announces: `int()` of the digits after `file: . ` -/
def tckAnnounced (lenOut : Nat) (bytes : List Nat) : Option Nat :=
  parseDec ((bytes.drop (lenOut + tckFilePrefix.length)).takeWhile isDigit)

/-- `TckFile._read(fileobj, header)` on the bytes of a file whose header announces `announced` -/
def tckReadFile (c announced : Nat) (bytes : List Nat) : GenRun (List Triple) :=
  let r := decTriples (bytes.drop announced)
  tckRead c r.2 announced r.1

/-! ## Eager versus lazy loading (tck.py:139-158, trk.py:356-397, array_sequence.py, tractogram.py)

  EAGER: the reader generator is consumed into `ArraySequence`s — all rows concatenated in one
  buffer plus the length of every streamline; column slices (`scalars[:, slice_]`) and the affine
  (`apply_affine(affine, streamlines._data)`) act on the concatenated buffer; streamline `i` is cut
  out again by the lengths.  Per-streamline properties become one 2-D array (`np.asarray`).
  LAZY: nothing is stored; `.streamlines` applies the affine to every yielded item, and
  `data_per_point[k]` / `data_per_streamline[k]` are one generator per key `k` of the FIRST item,
  each running the reader again and picking `item.data_for_points[k]`. -/

structure ArrSeq (α : Type) where
  data : List α
  lengths : List Nat

/-- `ArraySequence(iterable)` -/
def ArrSeq.ofLists {α} (l : List (List α)) : ArrSeq α := ⟨l.flatten, l.map List.length⟩

def splitLens {α} : List Nat → List α → List (List α)
  | [], _ => []
  | n :: ns, d => d.take n :: splitLens ns (d.drop n)

/-- `[seq[i] for i in range(len(seq))]` -/
def ArrSeq.toLists {α} (a : ArrSeq α) : List (List α) := splitLens a.lengths a.data

/-- a row-wise operation on the common buffer (`_data[:, slice]`) -/
def ArrSeq.mapRows {α β} (f : α → β) (a : ArrSeq α) : ArrSeq β := ⟨a.data.map f, a.lengths⟩

/-- a row-wise operation that is defined only where the result is representable (`apply_affine`) -/
def ArrSeq.mapRowsM {α β} (f : α → Option β) (a : ArrSeq α) : Option (ArrSeq β) :=
  (a.data.mapM f).map (fun d => ⟨d, a.lengths⟩)

/-- a tractogram as the user sees it: streamlines, and name ↦ one entry per streamline -/
structure Tracto where
  streamlines : List (List Triple)
  dpp : List (Name × List (List (List Nat)))
  dps : List (Name × List (List Nat))
  deriving Repr, DecidableEq

/-- eager `TckFile.load`: `Tractogram(ArraySequence(cls._read(...)))`, identity affine -/
def tckEager (run : GenRun (List Triple)) : Except Err (List (List Triple)) :=
  match run.err with
  | some e => .error e
  | none => .ok (ArrSeq.ofLists (run.items.map (·.1))).toLists

/-- lazy `TckFile.load`: the streamlines generator, run to its end -/
def tckLazy (run : GenRun (List Triple)) : Except Err (List (List Triple)) :=
  match run.err with
  | some e => .error e
  | none => .ok (run.items.map (·.1))

/-- eager `TrkFile.load` for the records `recs` the reader yields, name-table slices `dppS`/`dpsS`
    and the trackvis→RAS+mm affine `A` -/
def trkEager (A : Aff) (dppS dpsS : List (Name × Nat × Nat)) (recs : List TrkRec) : Option Tracto :=
  let pts := ArrSeq.ofLists (recs.map (fun r => r.rows.map rowTriple))
  let scal := ArrSeq.ofLists (recs.map (fun r => r.rows.map (fun row => row.drop 3)))
  let props := recs.map (·.props)
  (pts.mapRowsM (applyAffBits A)).map (fun p =>
    ⟨p.toLists,
     dppS.map (fun s => (s.1, (scal.mapRows (fun row => pySlice row s.2.1 s.2.2)).toLists)),
     dpsS.map (fun s => (s.1, props.map (fun pr => pySlice pr s.2.1 s.2.2)))⟩)

/-- lazy `TrkFile.load` seen through `.streamlines`, `.data_per_point`, `.data_per_streamline` -/
def trkLazy (A : Aff) (dppS dpsS : List (Name × Nat × Nat)) (recs : List TrkRec) : Option Tracto :=
  let items : List Item := recs.map (recItem dppS dpsS)
  let keysP : List Name := match items with | [] => [] | it :: _ => it.dpp.map (fun d => d.1)
  let keysS : List Name := match items with | [] => [] | it :: _ => it.dps.map (fun d => d.1)
  (items.mapM (fun (it : Item) => it.pts.mapM (applyAffBits A))).map (fun sl =>
    ⟨sl,
     keysP.map (fun k => (k, items.map (fun (it : Item) => (it.dpp.lookup k).getD []))),
     keysS.map (fun k => (k, items.map (fun (it : Item) => (it.dps.lookup k).getD [])))⟩)

end Nb.C16
