/-! Model/C16 — executable model (core Lean only; imports only NibabelModel.Basic.* / other Model files). -/
namespace Nb.C16

end Nb.C16
