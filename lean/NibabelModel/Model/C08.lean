/-! Model/C08 — executable model (core Lean only; imports only NibabelModel.Basic.* / other Model files). -/
namespace Nb.C08

end Nb.C08
