import NibabelModel.Model.C06
import NibabelModel.Model.C16
/-! Model/C08 — executable model for C08 "a truncated file is never read back as different data"
    (core Lean only).

    Readers are functions `Src → Except Err Data`.  A `Src` is what an opened (possibly truncated,
    possibly compressed) file looks like to the Python reader: the bytes that can be obtained and what
    happens at their end (`strict = false`: short read / clean EOF, as for a plain file and for
    `indexed_gzip` before the gzip trailer; `strict = true`: any read reaching beyond the end raises, as
    Python's `gzip`/`bz2`/`pyzstd` do on a stream lacking its end marker).

    Byte values are `Nat` (`< 256` where it matters); the binary header codec is our own small
    little-endian codec — the real header layouts are the subject of C10; what C08 models is which bytes
    a reader requires to be present and which length checks it makes:

    * volume files   `nibabel/loadsave.py:100-121` (`load`), `filebasedimages.py:425-476`
                     (`path_maybe_image`/`_sniff_meta_for`), `wrapstruct.py:159-161` (size check),
                     `nifti1.py:727-797` (`Nifti1Extensions.from_fileobj`), `nifti1.py:861-881`
                     (`Nifti1Header.from_fileobj`), `volumeutils.py:441-479` (`array_from_file`),
                     `freesurfer/mghformat.py:157-175` (`MGHHeader.from_fileobj`)
    * TRK            `streamlines/trk.py:567-642` (`_read_header`), `trk.py:644-738` (`_read`)
    * TCK            `streamlines/tck.py:310-396` (`_read_header`), `tck.py:398-480` (`_read`)
    * XML formats    (GIFTI) only through the expat contract. -/
namespace Nb.C08

abbrev Bytes := List Nat

inductive Err where
  | trunc   -- a reader's own length check failed / the stream raised at its truncated end
  | bad     -- malformed content (bad magic, bad size field …)
  deriving DecidableEq, Repr

/-! ## Sources -/

structure Src where
  bytes : Bytes
  strict : Bool
  deriving Repr

def Src.plain (b : Bytes) : Src := ⟨b, false⟩

/-- `f.seek(pos); f.read(n)` — at most `n` bytes; a strict source raises when the request reaches
    beyond the available bytes (a forward seek in a decompressor reads and raises the same way). -/
def Src.read (s : Src) (pos n : Nat) : Except Err Bytes :=
  if s.strict && decide (s.bytes.length < pos + n) then .error .trunc
  else .ok ((s.bytes.drop pos).take n)

/-- `f.seek(pos); f.read()` / reading until EOF is seen -/
def Src.readAll (s : Src) (pos : Nat) : Except Err Bytes :=
  if s.strict then .error .trunc else .ok (s.bytes.drop pos)

/-! ## Byte codec -/

/-- `w` little-endian bytes of `v` -/
def leN : Nat → Nat → Bytes
  | 0, _ => []
  | w + 1, v => (v % 256) :: leN w (v / 256)

/-- little-endian value of a byte list (missing high bytes count as zero, which is exactly the
    zero-padded buffer of `readinto`) -/
def deLE : Bytes → Nat
  | [] => 0
  | b :: r => b + 256 * deLE r

/-- field of width `w` at `off` in a zero-padded view of `b` -/
def rdLE (b : Bytes) (off w : Nat) : Nat := deLE ((b.drop off).take w)

def padTo (n : Nat) (l : Bytes) : Bytes := l ++ List.replicate (n - l.length) 0

/-- big-endian reading of the same zero-padded field -/
def rdBE (b : Bytes) (off w : Nat) : Nat := deLE (padTo w ((b.drop off).take w)).reverse

/-! ## Volume files (NIfTI-1/2 single and pair, Analyze/SPM, MGH) -/

structure VolFmt where
  /-- size of the binary header block; `WrapStruct.__init__` rejects any other length -/
  hdrSize : Nat
  /-- `load` needs this many sniffed bytes of the header file to recognise the class (0: no sniff) -/
  sniffLen : Nat
  /-- NIfTI: the header is followed by a 4-byte extender and extension records -/
  exts : Bool
  /-- data offset fixed by the format (MGH: 284); `none`: the header's `vox_offset` field -/
  fixedOff : Option Nat
  /-- size of the optional block read after the data in the same file (MGH footer), else 0 -/
  footer : Nat
  deriving Repr, DecidableEq

/-- our header codec: data length and data offset as two 8-byte little-endian fields, then filler -/
structure Img where
  fill : Bytes                    -- rest of the header block (opaque)
  extender : Bytes                -- 4 bytes (NIfTI); first byte ≠ 0 iff extensions follow
  exts : List (Nat × Bytes)       -- (ecode, payload); esize = 8 + payload.length
  pad : Bytes                     -- bytes between the header part and the data (MGH: up to 284)
  data : Bytes                    -- raw voxel bytes
  footer : Bytes                  -- optional trailing metadata (MGH)
  deriving Repr

def encExt (e : Nat × Bytes) : Bytes := leN 4 (8 + e.2.length) ++ leN 4 e.1 ++ e.2

def extBytes (img : Img) : Bytes := (img.exts.map encExt).flatten

/-- everything between the header block and the data in a single file -/
def midBytes (fmt : VolFmt) (img : Img) : Bytes :=
  (if fmt.exts then img.extender ++ extBytes img else []) ++ img.pad

def hdrBlock (img : Img) (voxOff : Nat) : Bytes :=
  leN 8 img.data.length ++ leN 8 voxOff ++ img.fill

/-- offset of the data in a single file -/
def singleOff (fmt : VolFmt) (img : Img) : Nat := 16 + img.fill.length + (midBytes fmt img).length

/-- single-file writer: header ‖ extender ‖ extensions ‖ pad ‖ data ‖ footer -/
def writeSingle (fmt : VolFmt) (img : Img) : Bytes :=
  hdrBlock img (singleOff fmt img) ++ midBytes fmt img ++ img.data ++ img.footer

/-- header file of a pair: header (vox_offset 0) ‖ extender ‖ extensions -/
def writeHdrFile (fmt : VolFmt) (img : Img) : Bytes :=
  hdrBlock img 0 ++ (if fmt.exts then img.extender ++ extBytes img else [])

/-- image file of a pair -/
def writeImgFile (img : Img) : Bytes := img.data

/-- a pair whose image file holds the data at a non-zero `vox_offset` (`hdr.set_data_offset(o)`;
    `analyze.py` `to_file_map`: the `.img` file is zero-filled up to the offset): the header stores
    `pad.length`, the image file is `pad ‖ data`.  With `pad = []` these are `writeHdrFile`/`writeImgFile`. -/
def writeHdrFileAt (fmt : VolFmt) (img : Img) : Bytes :=
  hdrBlock img img.pad.length ++ (if fmt.exts then img.extender ++ extBytes img else [])

def writeImgFileAt (img : Img) : Bytes := img.pad ++ img.data

/-- `_sniff_meta_for` + `path_maybe_image`: read `max(sniffLen, 1024)` bytes of the header file; a
    compression error or fewer than `sniffLen` bytes ⇒ the class is not recognised ⇒ `ImageFileError` -/
def sniffOk (fmt : VolFmt) (s : Src) : Bool :=
  if fmt.sniffLen = 0 then true
  else match s.read 0 (max fmt.sniffLen 1024) with
    | .error _ => false
    | .ok b => decide (fmt.sniffLen ≤ b.length)

/-- `Nifti1Extensions.from_fileobj(fileobj, size, byteswap)`, reading at `pos`; `size < 0` = to the end.
    Extension contents do not influence the voxel data, so only success/failure is returned.
    `fuel`: every round consumes at least 8 available bytes. -/
def readExts (s : Src) : Nat → Nat → Int → Except Err Unit
  | 0, _, _ => .error .bad
  | fuel + 1, pos, size =>
    if 16 ≤ size ∨ size < 0 then
      match s.read pos 8 with
      | .error e => .error e
      | .ok d =>
        if d.length = 0 ∧ size < 0 then .ok ()
        else if d.length ≠ 8 then .error .trunc          -- 'failed to read extension header'
        else
          let esize := rdLE d 0 4
          if esize = 0 then .ok ()                       -- zero size: padding follows (fix 5e72d9d1)
          else if 2 ^ 31 ≤ esize ∨ esize < 8 then .error .bad
          else match s.read (pos + 8) (esize - 8) with
            | .error e => .error e
            | .ok v =>
              if v.length ≠ esize - 8 then .error .trunc -- 'failed to read extension content'
              else readExts s fuel (pos + esize) (size - esize)
    else .ok ()

/-- `array_from_file`, read path: exactly `n` bytes at `off` or "Expected n bytes, got m" -/
def dataRead (s : Src) (off n : Nat) : Except Err Bytes :=
  if n = 0 then .ok []
  else match s.read off n with
    | .error e => .error e
    | .ok b => if b.length ≠ n then .error .trunc else .ok b

/-- `array_from_file`, `np.memmap` path: numpy refuses (`ValueError`) when the file is shorter than
    `off + n` or the map would be empty, and the code falls back to the read path.  `mmap` is only
    attempted on uncompressed file objects (`useMmap` already includes that test). -/
def dataMmap (s : Src) (off n : Nat) : Except Err Bytes :=
  if 0 < n ∧ off + n ≤ s.bytes.length then .ok ((s.bytes.drop off).take n)
  else dataRead s off n

def readData (useMmap : Bool) (s : Src) (off n : Nat) : Except Err Bytes :=
  if useMmap then dataMmap s off n else dataRead s off n

/-- header phase shared by single files and pairs: sniff, complete header block, extender,
    extensions (`single = true`: up to vox_offset; pair: to the end of the header file), footer.
    Returns (data length, data offset). -/
def readHeader (fmt : VolFmt) (single : Bool) (s : Src) : Except Err (Nat × Nat) :=
  if ¬ sniffOk fmt s then .error .bad                            -- 'Cannot work out file type'
  else match s.read 0 fmt.hdrSize with
    | .error e => .error e
    | .ok hb =>
      if hb.length ≠ fmt.hdrSize then .error .trunc              -- 'Binary block is wrong size'
      else
        let n := rdLE hb 0 8
        let off := fmt.fixedOff.getD (rdLE hb 8 8)
        let extPhase : Except Err Unit :=
          if fmt.exts then
            match s.read fmt.hdrSize 4 with
            | .error e => .error e
            | .ok st =>
              if st.length < 4 ∨ st.head? = some 0 then .ok ()
              else readExts s (s.bytes.length + 1) (fmt.hdrSize + 4)
                     (if single then (off : Int) - (fmt.hdrSize + 4 : Nat) else -1)
          else .ok ()
        match extPhase with
        | .error e => .error e
        | .ok () =>
          if fmt.footer = 0 then .ok (n, off)
          else match s.read (off + n) fmt.footer with             -- MGH: seek behind the data, read footer
            | .error e => .error e
            | .ok _ => .ok (n, off)                               -- short footer is zero-padded

/-- load a single-file volume and read its data -/
def readSingle (fmt : VolFmt) (useMmap : Bool) (s : Src) : Except Err Bytes :=
  match readHeader fmt true s with
  | .error e => .error e
  | .ok (n, off) => readData useMmap s off n

/-- load a header/image pair and read its data -/
def readPair (fmt : VolFmt) (useMmap : Bool) (hs is : Src) : Except Err Bytes :=
  match readHeader fmt false hs with
  | .error e => .error e
  | .ok (n, off) => readData useMmap is off n

/-- `fileslice.read_segments` with a single segment (`fileslice.py:662-671`): seek, read, and
    "Whoops, not enough data in file" unless exactly `n` bytes came back -/
def segRead (s : Src) (off n : Nat) : Except Err Bytes :=
  match s.read off n with
  | .error e => .error e
  | .ok b => if b.length ≠ n then .error .trunc else .ok b

/-- a partial read through the array proxy (`img.dataobj[..., -1]` of the Fortran-ordered data: the
    bytes from `a` to the end of the data, one contiguous segment) -/
def readTailSingle (fmt : VolFmt) (s : Src) (a : Nat) : Except Err Bytes :=
  match readHeader fmt true s with
  | .error e => .error e
  | .ok (n, off) => segRead s (off + a) (n - a)

def readTailPair (fmt : VolFmt) (hs is : Src) (a : Nat) : Except Err Bytes :=
  match readHeader fmt false hs with
  | .error e => .error e
  | .ok (n, off) => segRead is (off + a) (n - a)

/-- the loop of `read_segments` (`fileslice.py:672-676`): seek + read every segment into one buffer -/
def readSegsLoop (s : Src) : List (Nat × Nat) → Except Err Bytes
  | [] => .ok []
  | (o, l) :: r =>
    match s.read o l with
    | .error e => .error e
    | .ok b =>
      match readSegsLoop s r with
      | .error e => .error e
      | .ok bs => .ok (b ++ bs)

/-- `read_segments(fileobj, segments, n_bytes)`: all three branches (no / one / several segments)
    deliver the concatenation of what the reads returned and raise unless that is exactly `n_bytes`
    long ("Whoops, not enough data in file" / "Oh dear, n_bytes does not look right"). -/
def readSegments (s : Src) (segs : List (Nat × Nat)) (nBytes : Nat) : Except Err Bytes :=
  match readSegsLoop s segs with
  | .error e => .error e
  | .ok b => if b.length ≠ nBytes then .error .trunc else .ok b

/-- the segments of the C06 model as (offset, length) pairs; a negative offset cannot be sought -/
def natSegs : List C06.Segment → Option (List (Nat × Nat))
  | [] => some []
  | sg :: r =>
    if sg.offset < 0 then none
    else match natSegs r with
      | none => none
      | some t => some ((sg.offset.toNat, sg.length) :: t)

def segsTotal (segs : List (Nat × Nat)) : Nat := (segs.map (·.2)).sum

/-- `SKIP_THRESH` of `fileslice.py:13` -/
def skipThresh : Nat := 256

/-- the raw bytes `fileslice` fetches for `dataobj[idx]` of an array of `shape` × `isz` bytes stored in
    Fortran order at `off` (`ArrayProxy._get_unscaled` → `fileslice` → `calc_slicedefs` with the default
    threshold heuristic → `read_segments`); what happens to the buffer afterwards (reshape, post-slicing)
    is a function of these bytes only. -/
def readSliceAt (s : Src) (idx : List C06.IdxItem) (shape : List Nat) (isz off : Nat) : Except Err Bytes :=
  match C06.calcSlicedefs (C06.thresholdHeuristic skipThresh) idx shape isz off .F with
  | .error _ => .error .bad
  | .ok d =>
    match natSegs d.segments with
    | none => .error .bad
    | some segs => readSegments s segs (segsTotal segs)

/-- the same bytes taken from a complete file -/
def sliceBytes (file : Bytes) (segs : List (Nat × Nat)) : Bytes :=
  segs.flatMap (fun (o, l) => (file.drop o).take l)

def readSliceSingle (fmt : VolFmt) (s : Src) (idx : List C06.IdxItem) (shape : List Nat) (isz : Nat) :
    Except Err Bytes :=
  match readHeader fmt true s with
  | .error e => .error e
  | .ok (_, off) => readSliceAt s idx shape isz off

def readSlicePair (fmt : VolFmt) (hs is : Src) (idx : List C06.IdxItem) (shape : List Nat) (isz : Nat) :
    Except Err Bytes :=
  match readHeader fmt false hs with
  | .error e => .error e
  | .ok (_, off) => readSliceAt is idx shape isz off

/-- `loadsave.load` (`loadsave.py:100-106`): a file of size 0 on disk is refused before any reader runs -/
def load {α : Type} (diskLen : Nat) (r : Except Err α) : Except Err α :=
  if diskLen = 0 then .error .bad else r

/-- `array_from_file` tries `np.memmap` only when asked to and the file object is not a compressed one
    (`volumeutils.py:446`, `_is_compressed_fobj`) -/
def effMmap (mmap compressed : Bool) : Bool := mmap && !compressed

/-! ## Per-read end-of-stream behaviour

    `Src` fixes ONE behaviour for the whole life of the file object (`strict`).  A real decompressor decides
    per call: `GzipFile.read(n)` spanning the truncation point may hand out the short rest once and raise
    on the next call.  The `…G` readers below are the volume readers with the file access abstracted to a
    request function `rd pos n` (`seek(pos); read(n)`); `ReadsOf bytes rd` lets EVERY request independently
    either deliver exactly the available part of `bytes` or raise (at any time, even when enough data are
    there).  `Lemmas/C08_PerRead`: with `rd := s.read` they are the readers above, and for any `rd` with
    `ReadsOf bytes rd` the result is the result on the lax source `⟨bytes, false⟩` or an error.
    (The decision is a function of the request `(pos, n)`; the readers never repeat a request.) -/

def ReadsOf (bytes : Bytes) (rd : Nat → Nat → Except Err Bytes) : Prop :=
  ∀ pos n, rd pos n = .ok ((bytes.drop pos).take n) ∨ ∃ e, rd pos n = .error e

def sniffOkG (fmt : VolFmt) (rd : Nat → Nat → Except Err Bytes) : Bool :=
  if fmt.sniffLen = 0 then true
  else match rd 0 (max fmt.sniffLen 1024) with
    | .error _ => false
    | .ok b => decide (fmt.sniffLen ≤ b.length)

def readExtsG (rd : Nat → Nat → Except Err Bytes) : Nat → Nat → Int → Except Err Unit
  | 0, _, _ => .error .bad
  | fuel + 1, pos, size =>
    if 16 ≤ size ∨ size < 0 then
      match rd pos 8 with
      | .error e => .error e
      | .ok d =>
        if d.length = 0 ∧ size < 0 then .ok ()
        else if d.length ≠ 8 then .error .trunc
        else
          let esize := rdLE d 0 4
          if esize = 0 then .ok ()
          else if 2 ^ 31 ≤ esize ∨ esize < 8 then .error .bad
          else match rd (pos + 8) (esize - 8) with
            | .error e => .error e
            | .ok v =>
              if v.length ≠ esize - 8 then .error .trunc
              else readExtsG rd fuel (pos + esize) (size - esize)
    else .ok ()

def dataReadG (rd : Nat → Nat → Except Err Bytes) (off n : Nat) : Except Err Bytes :=
  if n = 0 then .ok []
  else match rd off n with
    | .error e => .error e
    | .ok b => if b.length ≠ n then .error .trunc else .ok b

def readDataG (useMmap : Bool) (bytes : Bytes) (rd : Nat → Nat → Except Err Bytes) (off n : Nat) :
    Except Err Bytes :=
  if useMmap then
    (if 0 < n ∧ off + n ≤ bytes.length then .ok ((bytes.drop off).take n) else dataReadG rd off n)
  else dataReadG rd off n

def readHeaderG (fmt : VolFmt) (single : Bool) (bytes : Bytes) (rd : Nat → Nat → Except Err Bytes) :
    Except Err (Nat × Nat) :=
  if ¬ sniffOkG fmt rd then .error .bad
  else match rd 0 fmt.hdrSize with
    | .error e => .error e
    | .ok hb =>
      if hb.length ≠ fmt.hdrSize then .error .trunc
      else
        let n := rdLE hb 0 8
        let off := fmt.fixedOff.getD (rdLE hb 8 8)
        let extPhase : Except Err Unit :=
          if fmt.exts then
            match rd fmt.hdrSize 4 with
            | .error e => .error e
            | .ok st =>
              if st.length < 4 ∨ st.head? = some 0 then .ok ()
              else readExtsG rd (bytes.length + 1) (fmt.hdrSize + 4)
                     (if single then (off : Int) - (fmt.hdrSize + 4 : Nat) else -1)
          else .ok ()
        match extPhase with
        | .error e => .error e
        | .ok () =>
          if fmt.footer = 0 then .ok (n, off)
          else match rd (off + n) fmt.footer with
            | .error e => .error e
            | .ok _ => .ok (n, off)

def readSingleG (fmt : VolFmt) (useMmap : Bool) (bytes : Bytes) (rd : Nat → Nat → Except Err Bytes) :
    Except Err Bytes :=
  match readHeaderG fmt true bytes rd with
  | .error e => .error e
  | .ok (n, off) => readDataG useMmap bytes rd off n

def readPairG (fmt : VolFmt) (useMmap : Bool) (hbytes : Bytes) (hrd : Nat → Nat → Except Err Bytes)
    (ibytes : Bytes) (ird : Nat → Nat → Except Err Bytes) : Except Err Bytes :=
  match readHeaderG fmt false hbytes hrd with
  | .error e => .error e
  | .ok (n, off) => readDataG useMmap ibytes ird off n

def readSegsLoopG (rd : Nat → Nat → Except Err Bytes) : List (Nat × Nat) → Except Err Bytes
  | [] => .ok []
  | (o, l) :: r =>
    match rd o l with
    | .error e => .error e
    | .ok b =>
      match readSegsLoopG rd r with
      | .error e => .error e
      | .ok bs => .ok (b ++ bs)

def readSegmentsG (rd : Nat → Nat → Except Err Bytes) (segs : List (Nat × Nat)) (nBytes : Nat) :
    Except Err Bytes :=
  match readSegsLoopG rd segs with
  | .error e => .error e
  | .ok b => if b.length ≠ nBytes then .error .trunc else .ok b

/-! ## TRK -/

def trkHdrSize : Nat := 1000
def trkOffNsc : Nat := 36
def trkOffNpr : Nat := 238
def trkOffCount : Nat := 988
def trkOffVersion : Nat := 992
def trkOffHdrSize : Nat := 996

/-- one streamline record: number of points, point rows (`npts*(3+nsc)*4` bytes), properties (`npr*4`) -/
structure TrkRec where
  npts : Nat
  pts : Bytes
  props : Bytes
  deriving Repr, DecidableEq

structure Trk where
  nsc : Nat
  npr : Nat
  fillA : Bytes    -- 36 bytes  (id_string, dim, voxel_size, origin)
  fillB : Bytes    -- 200 bytes (scalar names … )
  fillC : Bytes    -- 748 bytes (property names, vox_to_ras, … )
  recs : List TrkRec
  deriving Repr

def encRec (r : TrkRec) : Bytes := leN 4 r.npts ++ r.pts ++ r.props

def trkHeader (t : Trk) (count : Nat) : Bytes :=
  t.fillA ++ leN 2 t.nsc ++ t.fillB ++ leN 2 t.npr ++ t.fillC ++ leN 4 count ++ leN 4 2 ++ leN 4 trkHdrSize

def trkBody (l : List TrkRec) : Bytes := (l.map encRec).flatten

/-- `TrkFile.save`: the header stores the true number of streamlines -/
def trkWrite (t : Trk) : Bytes := trkHeader t t.recs.length ++ trkBody t.recs

/-- the loop of `TrkFile._read` (`trk.py:691-733`).  `psz` bytes per point row, `prsz` bytes of
    properties, `cnt` the header count (0 = unknown, read to EOF), `check` = the count check added by
    fix 5204b8c7. -/
def trkLoop (s : Src) (rd : Bytes → Nat) (psz prsz cnt : Nat) (check : Bool) :
    Nat → Nat → Nat → List (Bytes × Bytes) → Except Err (List (Bytes × Bytes))
  | 0, _, _, _ => .error .bad
  | fuel + 1, pos, count, acc =>
    let finish : Except Err (List (Bytes × Bytes)) :=
      if check ∧ count < cnt then .error .trunc else .ok acc.reverse
    if cnt ≠ 0 ∧ cnt ≤ count then finish
    else match s.read pos 4 with
      | .error e => .error e
      | .ok h =>
        if h.length = 0 then finish                                 -- EOF
        else if h.length < 4 then .error .trunc                     -- struct.error
        else
          let npts := rd h
          if 2 ^ 31 ≤ npts then .error .bad                         -- negative int32
          else match s.read (pos + 4) (npts * psz) with
            | .error e => .error e
            | .ok p =>
              if p.length < npts * psz then .error .trunc           -- buffer too small
              else match s.read (pos + 4 + npts * psz) prsz with
                | .error e => .error e
                | .ok q =>
                  if q.length < prsz then .error .trunc
                  else trkLoop s rd psz prsz cnt check fuel (pos + 4 + npts * psz + prsz) (count + 1)
                         ((p, q) :: acc)

/-- `TrkFile._read_header` + `_read`: `readinto` of a 1000-byte zeroed buffer (the number of bytes
    obtained is not checked), `hdr_size` native or swapped, version, then the records starting at
    `f.tell()`. -/
def trkReadGen (check : Bool) (s : Src) : Except Err (List (Bytes × Bytes)) :=
  match s.read 0 trkHdrSize with
  | .error e => .error e
  | .ok hb =>
    let le := rdLE hb trkOffHdrSize 4 = trkHdrSize
    let be := rdBE hb trkOffHdrSize 4 = trkHdrSize
    if ¬ le ∧ ¬ be then .error .bad                                  -- 'Invalid hdr_size'
    else
      let f : Nat → Nat → Nat := fun off w => if le then rdLE hb off w else rdBE hb off w
      let version := f trkOffVersion 4
      if version ≠ 1 ∧ version ≠ 2 ∧ version ≠ 3 then .error .bad
      else
        let nsc := f trkOffNsc 2
        let npr := f trkOffNpr 2
        let cnt := f trkOffCount 4
        if 2 ^ 15 ≤ nsc ∨ 2 ^ 15 ≤ npr ∨ 2 ^ 31 ≤ cnt then .error .bad   -- negative values
        else
          let rd : Bytes → Nat := fun h => if le then rdLE h 0 4 else rdBE h 0 4
          trkLoop s rd ((3 + nsc) * 4) (npr * 4) cnt check (s.bytes.length + 1) hb.length 0 []

/-- the reader as it is now -/
def trkRead : Src → Except Err (List (Bytes × Bytes)) := trkReadGen true
/-- the pinned reader (before fix 5204b8c7): no count check -/
def trkReadOrig : Src → Except Err (List (Bytes × Bytes)) := trkReadGen false

def trkData (t : Trk) : List (Bytes × Bytes) := t.recs.map (fun r => (r.pts, r.props))

/-! ## TCK -/

def tckMagic : Bytes := [109, 114, 116, 114, 105, 120, 32, 116, 114, 97, 99, 107, 115]  -- "mrtrix tracks"
def nl : Nat := 10
def bEND : Bytes := [69, 78, 68]
def bFilePrefix : Bytes := [102, 105, 108, 101, 58]    -- "file:"

def isWs (b : Nat) : Bool := b = 32 ∨ b = 9 ∨ b = 10 ∨ b = 13 ∨ b = 11 ∨ b = 12

/-- `bytes.strip()` -/
def strip (l : Bytes) : Bytes := ((l.dropWhile isWs).reverse.dropWhile isWs).reverse

/-- decimal digits of `n` (ASCII), as `f'{n}'` — the C16 model's `str(n)` -/
def decDigits (n : Nat) : Bytes := C16.decRepr n

/-- `int(str)` on ASCII decimal digits; `none` if a non-digit occurs or the string is empty (C16 model) -/
def parseDec (l : Bytes) : Option Nat := C16.parseDec l

/-- one line of a binary file iteration: up to and including the first `\n`, and the rest -/
def takeLine : Bytes → Bytes × Bytes
  | [] => ([], [])
  | b :: r => if b = nl then ([b], r) else let (l, r') := takeLine r; (b :: l, r')

/-- value of a `file:` line: `. <offset>`; `none` if ill-formed -/
def parseFileLine (v : Bytes) : Option Nat :=
  match strip v with
  | 46 :: rest => parseDec (strip rest)      -- '.'
  | _ => none

/-- the header loop of `TckFile._read_header` (`tck.py:331-356`) over the text after the magic line:
    returns the `file:` offset (if such a line was seen) when a line stripping to `END` is found.
    (Other keys are collected by the real code but do not influence where the data are read.) -/
def tckScan : Nat → Bytes → Option Nat → Except Err (Option Nat)
  | 0, _, _ => .error .bad
  | fuel + 1, rest, fileOff =>
    if rest = [] then .error .bad                                   -- 'Missing END in the header.'
    else
      let (line, rest') := takeLine rest
      let ln := strip line
      if ln = bEND then .ok fileOff
      else if ln.take 5 = bFilePrefix then
        match parseFileLine (ln.drop 5) with
        | some o => tckScan fuel rest' (some o)
        | none => .error .bad
      else tckScan fuel rest' fileOff

/-- classification of a float32 little-endian value given as 4 bytes -/
def f32Exp (v : Bytes) : Nat := (v.getD 3 0 % 128) * 2 + v.getD 2 0 / 128
def f32Man (v : Bytes) : Nat := (v.getD 2 0 % 128) * 65536 + v.getD 1 0 * 256 + v.getD 0 0
def f32IsNaN (v : Bytes) : Bool := f32Exp v = 255 ∧ f32Man v ≠ 0
def f32IsInf (v : Bytes) : Bool := f32Exp v = 255 ∧ f32Man v = 0

/-- a triple is 12 bytes -/
def tripleAll (p : Bytes → Bool) (t : Bytes) : Bool :=
  p (t.take 4) && p ((t.drop 4).take 4) && p ((t.drop 8).take 4)

/-- cut a byte list of length `12*j` into triples -/
def triples : Nat → Bytes → List Bytes
  | 0, _ => []
  | j + 1, b => b.take 12 :: triples j (b.drop 12)

/-- the delimiter loop of `TckFile._read` (`tck.py:446-466`): `cur` = points since the last NaN
    triple (reversed), `acc` = streamlines found (reversed); returns (streamlines, leftover). -/
def tckSplit : List Bytes → List Bytes → List (List Bytes) → List (List Bytes) × List Bytes
  | [], cur, acc => (acc.reverse, cur.reverse)
  | t :: r, cur, acc =>
    if tripleAll f32IsNaN t then
      tckSplit r [] (if cur = [] then acc else cur.reverse :: acc)
    else tckSplit r (t :: cur) acc

/-- the data part: all bytes from `off` to EOF, as float32 triples, split at NaN triples; the leftover
    must be exactly one all-inf triple (`tck.py:468-473`). -/
def tckData (s : Src) (off : Nat) : Except Err (List (List Bytes)) :=
  match s.readAll off with
  | .error e => .error e
  | .ok b =>
    if b.length % 4 ≠ 0 then .error .trunc                   -- np.frombuffer: not a multiple of 4
    else if (b.length / 4) % 3 ≠ 0 then .error .trunc        -- reshape((-1, 3))
    else
      let (sl, left) := tckSplit (triples (b.length / 12) b) [] []
      match left with
      | [t] => if tripleAll f32IsInf t then .ok sl else .error .trunc
      | _ => .error .trunc

/-- `TckFile._read_header` + `_read` -/
def tckRead (s : Src) : Except Err (List (List Bytes)) :=
  match s.read 0 13 with
  | .error e => .error e
  | .ok m =>
    if m ≠ tckMagic then .error .bad
    else
      -- text lines are read through the buffered reader: a strict source raises if END is not
      -- inside the available bytes, a plain one reports 'Missing END' — an error in both cases
      match tckScan (s.bytes.length + 1) (s.bytes.drop 14) none with
      | .error e => .error e
      | .ok none => .error .bad      -- written files always carry a `file:` line
      | .ok (some off) => tckData s off

/-! ### TCK: the chunked loop of `_read` (`tck.py:425-466`) -/

/-- what is done with the leftover once EOF was seen (`tck.py:468-473`) -/
def tckFinish (r : List (List Bytes) × List Bytes) : Except Err (List (List Bytes)) :=
  match r.2 with
  | [t] => if tripleAll f32IsInf t then .ok r.1 else .error .trunc
  | _ => .error .trunc

/-- `while not eof:` — read `B` bytes (`buffer_size`, a positive multiple of 12) at `pos`; fewer than `B`
    bytes ⇒ `eof`; `np.frombuffer` / `reshape((-1, 3))` of the chunk; delimiters of the chunk are shifted by
    the length of `left` (the leftover, which holds no delimiter), streamlines between delimiters are
    appended to `done`; the rest is the new leftover.  `left`, `done` in file order. -/
def tckChunkLoop (s : Src) (B : Nat) : Nat → Nat → List Bytes → List (List Bytes) →
    Except Err (List (List Bytes))
  | 0, _, _, _ => .error .bad
  | fuel + 1, pos, left, done =>
    match s.read pos B with
    | .error e => .error e
    | .ok b =>
      if b.length % 4 ≠ 0 then .error .trunc                   -- np.frombuffer: not a multiple of 4
      else if (b.length / 4) % 3 ≠ 0 then .error .trunc        -- reshape((-1, 3))
      else
        let r := tckSplit (triples (b.length / 12) b) left.reverse done.reverse
        if b.length ≠ B then tckFinish r                       -- eof = n_read != buffer_size
        else tckChunkLoop s B fuel (pos + B) r.2 r.1

/-- the data part as `_read` really fetches it: in chunks of `B` bytes from `off` -/
def tckDataChunked (B : Nat) (s : Src) (off : Nat) : Except Err (List (List Bytes)) :=
  tckChunkLoop s B (s.bytes.length + 2) off [] []

/-- `TckFile._read_header` + `_read` with buffer size `B` -/
def tckReadB (B : Nat) (s : Src) : Except Err (List (List Bytes)) :=
  match s.read 0 13 with
  | .error e => .error e
  | .ok m =>
    if m ≠ tckMagic then .error .bad
    else
      match tckScan (s.bytes.length + 1) (s.bytes.drop 14) none with
      | .error e => .error e
      | .ok none => .error .bad
      | .ok (some off) => tckDataChunked B s off

structure Tck where
  lines : List Bytes             -- header lines between the magic line and the `file:` line (no `\n` inside)
  streams : List (List Bytes)    -- streamlines: lists of 12-byte triples
  deriving Repr

def nanTriple : Bytes := [0, 0, 192, 127, 0, 0, 192, 127, 0, 0, 192, 127]
def infTriple : Bytes := [0, 0, 128, 127, 0, 0, 128, 127, 0, 0, 128, 127]

def tckHeaderPre (t : Tck) : Bytes :=
  tckMagic ++ [nl] ++ (t.lines.map (· ++ [nl])).flatten ++ bFilePrefix ++ [32, 46, 32]

/-- the two offset lines of `TckFile._write_header` (`tck.py:275-283`): `n0` = length of everything
    before the offset digits plus `\nEND\n` -/
def tckOffset (n0 : Nat) : Nat :=
  let h := n0
  h + (decDigits (h + (decDigits h).length)).length

def tckHeader (t : Tck) : Bytes :=
  let pre := tckHeaderPre t
  pre ++ decDigits (tckOffset (pre.length + 5)) ++ [nl] ++ bEND ++ [nl]

def tckBody (l : List (List Bytes)) : Bytes :=
  (l.map (fun st => st.flatten ++ nanTriple)).flatten ++ infTriple

def tckWrite (t : Tck) : Bytes := tckHeader t ++ tckBody t.streams

/-! ## XML formats (GIFTI): expat contract only -/

/-- "a strict prefix of a document lacking the root end tag raises": the parser is fed everything up
    to EOF; `rootEnd` = number of bytes up to and including the root end tag. -/
def xmlRead (rootEnd : Nat) (s : Src) : Except Err Bytes :=
  match s.readAll 0 with
  | .error e => .error e
  | .ok b => if b.length < rootEnd then .error .trunc else .ok (b.take rootEnd)

/-! ### XML: the driver around expat (`xmlutils.py:83-109` `XmlParser.parse` → `parser.ParseFile(fptr)`)

    `ParseFile` (pyexpat) reads the file in blocks, hands every block to expat with `final = False`, and — when
    a read returns nothing — makes one last call `Parse(b'', final = True)`.  expat itself is abstract: -/

/-- whether expat accepts the call `Parse(chunk, final)` after having been fed `acc` -/
structure Expat where
  accepts : Bytes → Bytes → Bool → Bool

/-- THE ASSUMPTION about expat: told that the document is finished (`final`) while it has seen fewer than
    `rootEnd` bytes — i.e. the root end tag is missing — it raises.  Nothing is assumed about non-final
    calls (expat happily accepts any prefix of a well-formed document then). -/
def Expat.Contract (E : Expat) (rootEnd : Nat) : Prop :=
  ∀ acc chunk, (acc ++ chunk).length < rootEnd → E.accepts acc chunk true = false

/-- the block loop; `final`: whether the closing `Parse(b'', True)` is made (`ParseFile`: yes) -/
def xmlFeedLoop (E : Expat) (s : Src) (bs : Nat) (final : Bool) : Nat → Nat → Bytes → Except Err Bytes
  | 0, _, _ => .error .bad
  | fuel + 1, pos, acc =>
    match s.read pos bs with
    | .error e => .error e
    | .ok b =>
      if b = [] then
        if final then (if E.accepts acc [] true then .ok acc else .error .trunc) else .ok acc
      else if E.accepts acc b false then xmlFeedLoop E s bs final fuel (pos + b.length) (acc ++ b)
      else .error .bad

/-- `parser.ParseFile(fptr)` with block size `bs` -/
def xmlParseFile (E : Expat) (bs : Nat) (s : Src) : Except Err Bytes :=
  xmlFeedLoop E s bs true (s.bytes.length + 2) 0 []

/-- the variant of seeded change C08_6: blocks fed by hand, the closing `Parse(b'', True)` forgotten -/
def xmlParseNoFinal (E : Expat) (bs : Nat) (s : Src) : Except Err Bytes :=
  xmlFeedLoop E s bs false (s.bytes.length + 2) 0 []

/-- the most permissive expat the contract allows: complains only at the final call -/
def lazyExpat (rootEnd : Nat) : Expat :=
  ⟨fun acc chunk final => !final || decide (rootEnd ≤ (acc ++ chunk).length)⟩

/-- CIFTI-2 (`cifti2/cifti2.py` `Cifti2Image.from_file_map`, `cifti2/parse_cifti2.py`): a NIfTI-2 single
    file whose first extension (ecode 32) holds the XML header; the extension content — complete whenever
    the NIfTI extension reader accepted it — is handed to expat (contract as in `xmlRead`: it must
    contain the root end tag, `xmlLen` bytes), the matrix is the NIfTI data. -/
def ciftiRead (fmt : VolFmt) (useMmap : Bool) (xmlLen : Nat) (s : Src) : Except Err Bytes :=
  match readSingle fmt useMmap s with
  | .error e => .error e
  | .ok d =>
    match s.read (fmt.hdrSize + 4 + 8) xmlLen with
    | .error e => .error e
    | .ok x =>
      match xmlRead xmlLen (Src.plain x) with
      | .error e => .error e
      | .ok _ => .ok d

/-! ## Codec (DESIGN §3): what opening a possibly truncated compressed file yields -/

structure Codec where
  compress : Bytes → Bytes
  /-- the source a reader sees after `Opener(path)` on these on-disk bytes -/
  decompress : Bytes → Src
  /-- round trip: the complete stream reads back as the plaintext with a clean EOF -/
  roundtrip : ∀ x, decompress (compress x) = Src.plain x
  /-- prefix contract: a strict prefix of a compressed stream yields a prefix of the plaintext, followed
      by EOF or by an error -/
  prefix_contract : ∀ x k, k < (compress x).length →
    ∃ m st, m ≤ x.length ∧ decompress ((compress x).take k) = ⟨x.take m, st⟩

end Nb.C08
