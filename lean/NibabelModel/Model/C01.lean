/-! Model/C01 — executable model (core Lean only; imports only NibabelModel.Basic.* / other Model files). -/
namespace Nb.C01

end Nb.C01
