/-
  Model/C01 — executable model of the scaling-free voxel write/read path of the volume formats
  (NIfTI-1/2 single + pair, Analyze, SPM99/SPM2 Analyze, MGH/MGZ).  Core Lean only.

  Conventions
  * a byte is a `Nat` (< 256 when produced by the model); a file is a `List Nat`;
  * an element ("voxel") is the list of its `k` components, each a raw bit pattern `< 256^cw`
    (`cw` = component width in bytes): integers and floats have `k = 1`, complex `k = 2`
    (real, imag), RGB `k = 3`, RGBA `k = 4` with `cw = 1`.  Floats are *bit patterns*, so NaN payloads,
    signed zeros and infinities are ordinary values of the model.  On-disk byte order acts on each
    component separately (as NumPy's dtype byte order does);
  * a logical array is a function from multi-indices to elements together with a shape; whatever the
    memory layout of the NumPy input (C/F/strided/negative strides), NumPy's *logical* indexing is the
    trusted interface.

  Python source modelled (pinned tree after the `fix:` commits):
    arraywriters.py:95-151   ArrayWriter.scaling_needed
    arraywriters.py:287-311  SlopeArrayWriter.scaling_needed (also used by SlopeInterArrayWriter)
    volumeutils.py:603-604   array_to_file direct-cast path (null scaling + can_cast) and the in-range
                             int->int "clip" path / the float-out path with slope 1, inter 0
    volumeutils.py:718-783   _write_data: squeeze, transpose, loop over slabs, `tobytes()`
    volumeutils.py:391-479   array_from_file (non-mmap branch; the mmap branch is NumPy)
    analyze.py:990-1066      AnalyzeImage.to_file_map: header, seek_tell(write0=True), data
    freesurfer/mghformat.py:295-334,537-578  MGH shape rules, header(284) ‖ data ‖ footer
    openers.py:186-197       Opener._get_opener_argnames (codec by suffix)
  External (parameters / trusted): NumPy element casts between different float widths, the
  compression codecs (decompress ∘ compress = id), NumPy's `can_cast` table (re-validated
  exhaustively against NumPy by the `sn` correspondence stream on every run).
-/
namespace Nb.C01

/-! ### byte codec -/

inductive Endian where
  | little | big
  deriving Repr, DecidableEq, Inhabited

/-- little-endian bytes of `v` in width `w` (truncating, like a C cast) -/
def encLE : Nat → Nat → List Nat
  | 0, _ => []
  | w + 1, v => (v % 256) :: encLE w (v / 256)

def decLE : List Nat → Nat
  | [] => 0
  | b :: bs => b + 256 * decLE bs

def enc (e : Endian) (w v : Nat) : List Nat :=
  match e with
  | .little => encLE w v
  | .big => (encLE w v).reverse

def dec (e : Endian) (bs : List Nat) : Nat :=
  match e with
  | .little => decLE bs
  | .big => decLE bs.reverse

/-- two's-complement bit pattern of the integer `v` in `w` bytes -/
def toBits (w : Nat) (v : Int) : Nat := (v % ((256 ^ w : Nat) : Int)).toNat

/-- integer value of a `w`-byte pattern -/
def ofBits (signed : Bool) (w : Nat) (u : Nat) : Int :=
  if signed && decide (256 ^ w ≤ 2 * u) then (u : Int) - ((256 ^ w : Nat) : Int) else (u : Int)

/-- `np.iinfo(dtype).min` / `.max` -/
def intMin (signed : Bool) (w : Nat) : Int :=
  if signed then -(((256 ^ w / 2 : Nat)) : Int) else 0

def intMax (signed : Bool) (w : Nat) : Int :=
  if signed then ((256 ^ w / 2 : Nat) : Int) - 1 else ((256 ^ w : Nat) : Int) - 1

def InRange (signed : Bool) (w : Nat) (v : Int) : Prop := intMin signed w ≤ v ∧ v ≤ intMax signed w

instance (s : Bool) (w : Nat) (v : Int) : Decidable (InRange s w v) := by
  unfold InRange; exact inferInstance

/-- an element: `k` components of `cw` bytes each -/
abbrev Elem := List Nat

def encElem (e : Endian) (cw : Nat) (x : Elem) : List Nat := x.flatMap (enc e cw)

/-- split a list into `n` consecutive chunks of `w` items -/
def chunks {α} (w : Nat) : Nat → List α → List (List α)
  | 0, _ => []
  | n + 1, l => l.take w :: chunks w n (l.drop w)

def decElem (e : Endian) (cw k : Nat) (bs : List Nat) : Elem := (chunks cw k bs).map (dec e)

/-! ### dtypes and `scaling_needed` -/

inductive DKind where
  | uint | sint | float | complex | void
  deriving Repr, DecidableEq, Inhabited

/-- a NumPy dtype as far as the writer looks at it: kind, component width, number of components.
    `void` stands for the structured RGB (`k = 3`) / RGBA (`k = 4`) dtypes. -/
structure DType where
  kind : DKind
  cw : Nat
  k : Nat
  deriving Repr, DecidableEq, Inhabited

def DType.itemsize (t : DType) : Nat := t.cw * t.k

def DType.isInt (t : DType) : Bool := t.kind == .uint || t.kind == .sint
def DType.signed (t : DType) : Bool := t.kind == .sint

/-- the dtype names of the line protocol -/
def dtypeOfName : String → Option DType
  | "u1" => some ⟨.uint, 1, 1⟩ | "u2" => some ⟨.uint, 2, 1⟩
  | "u4" => some ⟨.uint, 4, 1⟩ | "u8" => some ⟨.uint, 8, 1⟩
  | "i1" => some ⟨.sint, 1, 1⟩ | "i2" => some ⟨.sint, 2, 1⟩
  | "i4" => some ⟨.sint, 4, 1⟩ | "i8" => some ⟨.sint, 8, 1⟩
  | "f2" => some ⟨.float, 2, 1⟩ | "f4" => some ⟨.float, 4, 1⟩
  | "f8" => some ⟨.float, 8, 1⟩ | "f16" => some ⟨.float, 16, 1⟩
  | "c8" => some ⟨.complex, 4, 2⟩ | "c16" => some ⟨.complex, 8, 2⟩
  | "c32" => some ⟨.complex, 16, 2⟩
  | "rgb" => some ⟨.void, 1, 3⟩ | "rgba" => some ⟨.void, 1, 4⟩
  | _ => none

/-- `np.can_cast(a, b)` (casting='safe') on the dtypes above.  integer -> integer is the part the
    theorems rely on; the rest is NumPy's table, re-validated exhaustively on every run.
    `f16`/`c32` are x86 `longdouble` (64-bit mantissa). -/
def canCast (a b : DType) : Bool :=
  match a.kind, b.kind with
  | .uint, .uint => a.cw ≤ b.cw
  | .uint, .sint => a.cw < b.cw
  | .sint, .sint => a.cw ≤ b.cw
  | .sint, .uint => false
  | .uint, .float => a.cw < b.cw || (a.cw == 8 && b.cw == 8)
  | .sint, .float => a.cw < b.cw || (a.cw == 8 && b.cw == 8)
  | .uint, .complex => a.cw < b.cw || (a.cw == 8 && b.cw == 8)
  | .sint, .complex => a.cw < b.cw || (a.cw == 8 && b.cw == 8)
  | .float, .float => a.cw ≤ b.cw
  | .float, .complex => a.cw ≤ b.cw
  | .complex, .complex => a.cw ≤ b.cw
  | .float, _ => false
  | .complex, _ => false
  | .void, _ => a == b
  | _, .void => false

/-- what `finite_range()` reports (arraywriters.py `finite_range`, volumeutils.finite_range):
    exact integers for integer input; for float input only the three cases the decision looks at. -/
inductive Range where
  | ints (mn mx : Int)
  | floatZero      -- (mn, mx) == (0, 0): at least one finite value and all finite values are ±0
  | floatNone      -- (inf, -inf): no finite value
  | floatOther
  deriving Repr, DecidableEq, Inhabited

inductive Err where
  | writer       -- WriterError
  | short        -- OSError: fewer bytes than expected
  | headerData   -- HeaderDataError
  | value        -- ValueError
  deriving Repr, DecidableEq, Inhabited

/-- `ArrayWriter.scaling_needed` (arraywriters.py:95-151) -/
def scalingNeededBase (a o : DType) (size : Nat) (r : Range) : Except Err Bool :=
  if a.kind = .void ∨ o.kind = .void then
    (if a = o then .ok false else .error .writer)
  else if canCast a o then .ok false
  else if o.kind = .complex then .ok false
  else if a.kind = .complex then .error .writer
  else if o.kind = .float then .ok false
  else if size = 0 then .ok false
  else match r with
    | .floatZero => .ok false
    | .ints mn mx =>
        if mn = 0 ∧ mx = 0 then .ok false
        else if a.kind = .float then .ok true
        else .ok (!(decide (intMin o.signed o.cw ≤ mn) && decide (mx ≤ intMax o.signed o.cw)))
    | _ => if a.kind = .float then .ok true else .ok true

/-- `SlopeArrayWriter.scaling_needed` (arraywriters.py:287-311) -/
def scalingNeededSlope (a o : DType) (size : Nat) (r : Range) : Except Err Bool :=
  match scalingNeededBase a o size r with
  | .error e => .error e
  | .ok false => .ok false
  | .ok true => .ok (r != .floatNone)

/-- min / max of a non-empty list of integers -/
def listMin : List Int → Int
  | [] => 0
  | [x] => x
  | x :: xs => min x (listMin xs)

def listMax : List Int → Int
  | [] => 0
  | [x] => x
  | x :: xs => max x (listMax xs)

/-- `finite_range` of an integer array -/
def intRange (vals : List Int) : Range := .ints (listMin vals) (listMax vals)

/-- the int -> int decision on concrete values, as the writer takes it -/
def scalingNeededInt (aSigned : Bool) (aw : Nat) (oSigned : Bool) (ow : Nat) (vals : List Int) : Except Err Bool :=
  scalingNeededBase ⟨if aSigned then .sint else .uint, aw, 1⟩ ⟨if oSigned then .sint else .uint, ow, 1⟩
    vals.length (intRange vals)

/-! ### index enumeration -/

/-- all multi-indices of `shape`, first axis fastest (Fortran order) -/
def enumF : List Nat → List (List Nat)
  | [] => [[]]
  | n :: rest => (enumF rest).flatMap (fun tl => (List.range n).map (fun i => i :: tl))

/-- all multi-indices of `shape`, last axis fastest (C order) -/
def enumC : List Nat → List (List Nat)
  | [] => [[]]
  | n :: rest => (List.range n).flatMap (fun i => (enumC rest).map (fun tl => i :: tl))

/-- flat Fortran-order position of a multi-index -/
def ravelF : List Nat → List Nat → Nat
  | n :: rest, i :: tl => i + n * ravelF rest tl
  | _, _ => 0

/-- flat C-order position of a multi-index -/
def ravelC : List Nat → List Nat → Nat
  | _ :: rest, i :: tl => i * rest.prod + ravelC rest tl
  | _, _ => 0

/-- `np.squeeze`: drop the length-1 axes -/
def squeeze (shape : List Nat) : List Nat := shape.filter (· ≠ 1)

/-- index into the original array of an index into the squeezed view -/
def unsqueezeIdx : List Nat → List Nat → List Nat
  | [], _ => []
  | n :: rest, idx =>
      if n = 1 then 0 :: unsqueezeIdx rest idx
      else match idx with
        | i :: tl => i :: unsqueezeIdx rest tl
        | [] => 0 :: unsqueezeIdx rest []

/-! ### writing -/

/-- `s = init ++ [last]` -/
def splitLast : List Nat → Option (List Nat × Nat)
  | [] => none
  | [x] => some ([], x)
  | x :: y :: ys => (splitLast (y :: ys)).map (fun p => (x :: p.1, p.2))

/-- the slabs `_write_data` loops over (volumeutils.py:758-763, order 'F'): after `np.squeeze`, a
    0-D or 1-D array is one row (`atleast_2d`); otherwise `data.T` is iterated over its first axis (= the
    LAST axis of the squeezed array) and each slab is serialised with `tobytes()` (C order of the
    transposed slab = first axis of the squeezed array fastest). Indices are into the squeezed array. -/
def slabs (s : List Nat) : List (List (List Nat)) :=
  if s.length < 2 then [enumF s]
  else match splitLast s with
    | some (init, last) => (List.range last).map (fun j => (enumF init).map (fun i => i ++ [j]))
    | none => [enumF s]

/-- `_write_data` on the direct-cast path: bytes written for logical array `A` of shape `shape`;
    every element is already in on-disk representation (`A i` = components as bit patterns). -/
def writeData (e : Endian) (cw : Nat) (shape : List Nat) (A : List Nat → Elem) : List Nat :=
  (slabs (squeeze shape)).flatMap (fun slab =>
    slab.flatMap (fun i => encElem e cw (A (unsqueezeIdx shape i))))

/-- `seek_tell(fileobj, offset, write0=True)` after `pos` bytes were written: zero fill (by the seek
    of a plain file followed by a write, or by explicit zeros on a compressed stream).  For an EMPTY
    data block a plain file is not extended by the seek alone; nothing is read back in that case. -/
def padTo (offset : Nat) (l : List Nat) : List Nat := l ++ List.replicate (offset - l.length) 0

/-- data file of every Analyze-family image (analyze.py:1037-1046): what was written before the data
    in the same file (`h` = header ‖ extender ‖ extensions for single-file NIfTI, empty for the `.img`
    of a pair), zero fill up to the data offset, then the data.  Precondition of the real code (checked
    by the header classes before anything is written): `h.length ≤ offset`. -/
def writeFile (h : List Nat) (offset : Nat) (e : Endian) (cw : Nat) (shape : List Nat)
    (A : List Nat → Elem) : List Nat :=
  padTo offset h ++ writeData e cw shape A

/-! ### reading -/

/-- `array_from_file(shape, dtype, infile, offset, order='F')`, non-mmap branch
    (volumeutils.py:455-479, after `fix: array_from_file returns an empty array of the requested
    shape`).  Returns the shape of the returned array and its elements in Fortran order.  A rank-0
    shape still hands back an empty 1-D array (rank 0 is outside the property: 1-7 dims). -/
def readData (file : List Nat) (offset : Nat) (e : Endian) (cw k : Nat) (shape : List Nat) :
    Except Err (List Nat × List Elem) :=
  if shape = [] then .ok ([0], [])
  else
    let n := shape.prod
    let nbytes := n * (cw * k)
    if nbytes = 0 then .ok (shape, [])          -- np.zeros(shape, in_dtype, order=order)
    else
      let got := (file.drop offset).take nbytes
      if got.length ≠ nbytes then .error .short
      else .ok (shape, (chunks (cw * k) n got).map (decElem e cw k))

/-- the ORIGINAL (pinned) logic: `if n_bytes == 0: return np.array([], in_dtype)` -/
def readDataOrig (file : List Nat) (offset : Nat) (e : Endian) (cw k : Nat) (shape : List Nat) :
    Except Err (List Nat × List Elem) :=
  if shape = [] then .ok ([0], [])
  else
    let n := shape.prod
    let nbytes := n * (cw * k)
    if nbytes = 0 then .ok ([0], [])
    else
      let got := (file.drop offset).take nbytes
      if got.length ≠ nbytes then .error .short
      else .ok (shape, (chunks (cw * k) n got).map (decElem e cw k))

/-- element at multi-index `i` of the array `np.ndarray(shape, dtype, buffer, order='F')` -/
def loadedAt (shape : List Nat) (els : List Elem) (i : List Nat) : Elem :=
  els.getD (ravelF shape i) []

/-- `loadedAt` on an `Array` (O(1) lookup; used by the driver for arrays of > 10^5 elements) -/
def loadedAtA (shape : List Nat) (els : Array Elem) (i : List Nat) : Elem :=
  els.getD (ravelF shape i) []

/-! ### MGH (freesurfer/mghformat.py) -/

/-- `MGHImage.__init__`: data of rank < 3 is reshaped to rank 3 by appending length-1 axes -/
def mghImageShape (shape : List Nat) : List Nat :=
  shape ++ List.replicate (3 - shape.length) 1

/-- `MGHHeader.set_data_shape` then `get_data_shape` (mghformat.py:295-316): `dims` always holds 4
    numbers; a 4th number equal to 1 is dropped when the shape is asked for. -/
def mghHeaderShape (shape : List Nat) : Except Err (List Nat) :=
  if shape.length > 4 then .error .value
  else
    let dims := shape ++ List.replicate (4 - shape.length) 1
    if dims.getD 3 0 = 1 then .ok (dims.take 3) else .ok dims

def mghDataOffset : Nat := 284

/-- `MGHImage.to_file_map` (mghformat.py:537-578): header (284 bytes, `hdr.length ≤ 284`), data at
    284 (always big-endian), footer directly after the data.  `imgShape` is the image's shape. -/
def mghWrite (hdr ftr : List Nat) (cw : Nat) (imgShape : List Nat) (A : List Nat → Elem) :
    Except Err (List Nat) :=
  match mghHeaderShape imgShape with
  | .error e => .error e
  | .ok hs =>
      if imgShape ≠ hs then .error .headerData     -- "Data should be shape ..."
      else .ok (padTo mghDataOffset hdr ++ writeData .big cw imgShape A ++ ftr)

/-- `MGHHeader.get_footer_offset` -/
def mghFooterOffset (cw k : Nat) (shape : List Nat) : Nat := mghDataOffset + (cw * k) * shape.prod

/-! ### specification predicates used by the theorems -/

/-- an element fits `k` components of `cw` bytes -/
def ElemOK (cw k : Nat) (x : Elem) : Prop := x.length = k ∧ ∀ c ∈ x, c < 256 ^ cw

instance (cw k : Nat) (x : Elem) : Decidable (ElemOK cw k x) := by
  unfold ElemOK; exact inferInstance

/-- `i` is a valid multi-index of an array of shape `shape` -/
def InBounds : List Nat → List Nat → Prop
  | [], [] => True
  | n :: rest, i :: tl => i < n ∧ InBounds rest tl
  | _, _ => False

instance : ∀ (s i : List Nat), Decidable (InBounds s i)
  | [], [] => isTrue trivial
  | n :: rest, i :: tl =>
      have := instDecidableInBounds rest tl
      by unfold InBounds; exact inferInstance
  | [], _ :: _ => isFalse (by simp [InBounds])
  | _ :: _, [] => isFalse (by simp [InBounds])

/-- the integer kind of a signedness flag -/
def intKind (signed : Bool) : DKind := if signed then .sint else .uint

/-! ### Opener: codec by file-name suffix (openers.py:186-197) -/

inductive Codec where
  | raw | gz | bz2 | zst
  deriving Repr, DecidableEq, Inhabited

def codecOfName : String → Option Codec
  | "raw" => some .raw | "gz" => some .gz | "bz2" => some .bz2 | "zst" => some .zst | _ => none

def Codec.name : Codec → String
  | .raw => "raw" | .gz => "gz" | .bz2 => "bz2" | .zst => "zst"

/-- index of the last occurrence of `c` (position from the front), if any -/
def rfind (c : Char) (s : List Char) : Option Nat :=
  match s with
  | [] => none
  | x :: xs => match rfind c xs with
    | some i => some (i + 1)
    | none => if x = c then some 0 else none

/-- last path component (`p[p.rfind('/') + 1:]`) -/
def baseName (p : List Char) : List Char :=
  match rfind '/' p with
  | some i => p.drop (i + 1)
  | none => p

/-- `os.path.splitext(p)[1]` (posixpath / genericpath._splitext): extension starts at the last dot
    of the last path component, unless that component has only dots before it. -/
def splitExt (p : List Char) : List Char :=
  let base := baseName p
  match rfind '.' base with
  | none => []
  | some d => if (base.take d).all (· = '.') then [] else base.drop d

def lowerAscii (s : List Char) : List Char := s.map Char.toLower

/-- the codec table from the generated `(extension, codec name)` pairs -/
def codecTableOf (raw : List (String × String)) : List (String × Codec) :=
  raw.filterMap (fun kv => (codecOfName kv.2).map (fun c => (kv.1, c)))

/-- lookup of an extension in `compress_ext_map` (lower-cased on both sides when `compress_ext_icase`),
    default = plain `open` -/
def codecOfExt (table : List (String × Codec)) (icase : Bool) (ext : List Char) : Codec :=
  let hit :=
    if icase then table.find? (fun kv => lowerAscii kv.1.toList = lowerAscii ext)
    else table.find? (fun kv => kv.1.toList = ext)
  match hit with
  | some kv => kv.2
  | none => .raw

/-- `Opener._get_opener_argnames(fileish)`: the choice takes the file name only -/
def codecFor (table : List (String × Codec)) (icase : Bool) (name : List Char) : Codec :=
  codecOfExt table icase (splitExt name)

inductive Mode where
  | rb | wb
  deriving Repr, DecidableEq, Inhabited

/-- `Opener.__init__(fileish, mode)`: the opener function comes from `_get_opener_argnames(fileish)`,
    the mode is only passed on to it -/
def openerInit (table : List (String × Codec)) (icase : Bool) (mode : Mode) (name : List Char) :
    Codec × Mode :=
  (codecFor table icase name, mode)

/-! ### the `dtype=` argument of `to_file_map` / `to_filename` / `to_bytes` / `to_stream` / `save` -/

/-- byte-order character of the dtype object handed to `dtype=` (`'='`/`'|'`, `'<'`, `'>'`) -/
inductive OrderSpell where
  | native | little | big
  deriving Repr, DecidableEq, Inhabited

/-- the part of an Analyze-family header the writer consults: its byte order (fixed at construction /
    load) and the data-type CODE (which names a dtype without a byte order) -/
structure Hdr where
  endian : Endian
  dtype : DType
  deriving Repr, DecidableEq, Inhabited

/-- `hdr.set_data_dtype(dt)` (analyze.py:556-583): `_data_type_codes` is keyed by the dtype in BOTH
    byte orders and yields the code; the byte order of `dt` is dropped, the header's order stays -/
def Hdr.setDType (h : Hdr) (t : DType) (_spell : OrderSpell) : Hdr := { h with dtype := t }

/-- `hdr.get_data_dtype()` (analyze.py:545-554): `dtype_of_code.newbyteorder(self.endianness)` -/
def Hdr.getDType (h : Hdr) : DType × Endian := (h.dtype, h.endian)

/-- the dtype bookkeeping of `AnalyzeImage.to_file_map(file_map, dtype=ovr)` (analyze.py:1009-1015 and
    the `finally` block 1058-1066): returns (on-disk dtype and byte order the ArrayWriter is given,
    the header as it is WRITTEN, the image's header after the call). -/
def saveDType (h : Hdr) (ovr : Option (DType × OrderSpell)) : (DType × Endian) × Hdr × Hdr :=
  let saved := h.dtype                               -- data_dtype = hdr.get_data_dtype()
  let hw := match ovr with
    | some (t, sp) => h.setDType t sp                -- if dtype is not None: hdr.set_data_dtype(dtype)
    | none => h
  let out := hw.getDType                             -- out_dtype = hdr.get_data_dtype()
  (out, hw, hw.setDType saved .native)               -- finally: hdr.set_data_dtype(data_dtype)

/-- the seeded variant `out_dtype = np.dtype(dtype)`: the override's own (native unless spelled
    otherwise) byte order reaches the writer -/
def saveDTypeNativeMutant (native : Endian) (h : Hdr) (ovr : Option (DType × OrderSpell)) :
    (DType × Endian) × Hdr × Hdr :=
  match ovr with
  | none => saveDType h none
  | some (t, sp) =>
      let e := match sp with | .native => native | .little => .little | .big => .big
      ((t, e), h.setDType t sp, h)

/-- a save through `to_file_map(dtype=ovr)`: the data file -/
def writeFileDT (hb : List Nat) (offset : Nat) (h : Hdr) (ovr : Option (DType × OrderSpell))
    (shape : List Nat) (A : List Nat → Elem) : List Nat :=
  let p := saveDType h ovr
  writeFile hb offset p.1.2 p.1.1.cw shape A

/-- loading that file: the reader takes dtype and byte order from the WRITTEN header -/
def readFileDT (file : List Nat) (offset : Nat) (h : Hdr) (ovr : Option (DType × OrderSpell))
    (shape : List Nat) : Except Err (List Nat × List Elem) :=
  let hw := (saveDType h ovr).2.1
  readData file offset hw.endian hw.dtype.cw hw.dtype.k shape

/-! ### a loaded image saved over its own file -/

/-- `img = load(f); img.to_filename(f)` (analyze.py:1001-1005 / mghformat.py:548-551): the voxel data of
    a loaded image are a window onto the file (np.memmap) or are read when asked for; `copyFirst` says
    whether they are materialised BEFORE `get_prepare_fileobj('wb')` truncates the file (the real code:
    always - `np.asanyarray(self.dataobj)` reads a non-mmap proxy eagerly, an `np.memmap` is copied with
    `np.array`).  The decision never looks at file NAMES. -/
def resave (hb : List Nat) (offset : Nat) (e : Endian) (cw k : Nat) (shape : List Nat)
    (A : List Nat → Elem) (copyFirst : Bool) : Except Err (List Nat) :=
  let f1 := writeFile hb offset e cw shape A
  let src := if copyFirst then f1 else []            -- open(name, 'wb') truncates
  match readData src offset e cw k shape with
  | .error er => .error er
  | .ok (sh, els) => .ok (writeFile hb offset e cw sh (loadedAt sh els))

def mghResave (hdr ftr : List Nat) (cw k : Nat) (imgShape : List Nat) (A : List Nat → Elem)
    (copyFirst : Bool) : Except Err (List Nat) :=
  match mghWrite hdr ftr cw imgShape A with
  | .error er => .error er
  | .ok f1 =>
    let src := if copyFirst then f1 else []
    match readData src mghDataOffset .big cw k imgShape with
    | .error er => .error er
    | .ok (sh, els) => mghWrite hdr ftr cw sh (loadedAt sh els)

/-! ### shape fields of the Analyze-family headers (analyze.py:585-634, nifti1.py:952-1068, nifti2.py:147-200) -/

/-- which `get/set_data_shape` a header class has -/
inductive ShapeRule where
  | analyze    -- AnalyzeHeader, SPM99, SPM2: int16 `dim`
  | nifti1     -- Nifti1Header / Nifti1PairHeader: int16 `dim` + the two FreeSurfer conventions
  | nifti2     -- Nifti2Header: int64 `dim`, no conventions
  deriving Repr, DecidableEq, Inhabited

/-- what the header stores: `dim[1 .. ndim]` and `glmin` -/
structure ShapeFields where
  dims : List Int
  glmin : Nat
  deriving Repr, DecidableEq, Inhabited

/-- `AnalyzeHeader.set_data_shape`: `dim[1:ndims+1] = shape` must fit (7 slots, every value within the
    integer type of `dim`) -/
def storeDims (dimMax : Nat) (dims : List Int) (glmin : Nat) : Except Err ShapeFields :=
  if dims.length ≤ 7 ∧ dims.all (fun d => decide (d ≤ (dimMax : Int))) then .ok ⟨dims, glmin⟩
  else .error .headerData

def natsToInts (l : List Nat) : List Int := l.map Int.ofNat

/-- `set_data_shape(shape)` on a fresh header (`glmin = 0`) -/
def setShape (r : ShapeRule) (dimMax glminMax : Nat) (shape : List Nat) : Except Err ShapeFields :=
  match r with
  | .nifti1 =>
      if shape.take 3 = [163842, 1, 1] then                      -- ico7 convention
        storeDims dimMax (natsToInts ([27307, 1, 6] ++ shape.drop 3)) 0
      else if 3 ≤ shape.length ∧ (shape.drop 1).take 2 = [1, 1] ∧ dimMax < shape.headD 0 then
        if glminMax < shape.headD 0 then .error .headerData      -- "does not fit in glmax datatype"
        else storeDims dimMax ((-1 : Int) :: 1 :: 1 :: natsToInts (shape.drop 3)) (shape.headD 0)
      else storeDims dimMax (natsToInts shape) 0
  | _ => storeDims dimMax (natsToInts shape) 0

/-- `get_data_shape()` (rank ≥ 1) -/
def getShape (r : ShapeRule) (f : ShapeFields) : Except Err (List Int) :=
  match r with
  | .nifti1 =>
      if f.dims.take 3 = [-1, 1, 1] then
        if f.glmin = 0 then .error .headerData else .ok ((f.glmin : Int) :: 1 :: 1 :: f.dims.drop 3)
      else if f.dims.take 3 = [27307, 1, 6] then .ok (163842 :: 1 :: 1 :: f.dims.drop 3)
      else .ok f.dims
  | _ => .ok f.dims

/-! ### a REUSED header: `klass(data, affine, header)` with the header of another image
    (spatialimages.py:476-525 `SpatialImage.__init__` → `header_class.from_header(header)` → `update_header()`;
    `update_header` runs again at the start of every `to_file_map`, analyze.py:1008 / mghformat.py:552) -/

/-- `set_data_shape(shape)` on a header in ANY prior state `f0` (analyze.py:608-634, nifti1.py:1032-1068):
    `dim` is rewritten completely (`dims[:] = 1; dims[0] = ndims; dims[1:ndims+1] = shape`); `glmin` is
    written only by the long-vector convention, otherwise whatever an earlier call left there stays.
    `setShape` (above) is this function on the fresh header `⟨[], 0⟩` (Lemmas `setShape_eq_on`). -/
def setShapeOn (r : ShapeRule) (dimMax glminMax : Nat) (f0 : ShapeFields) (shape : List Nat) :
    Except Err ShapeFields :=
  match r with
  | .nifti1 =>
      if shape.take 3 = [163842, 1, 1] then
        storeDims dimMax (natsToInts ([27307, 1, 6] ++ shape.drop 3)) f0.glmin
      else if 3 ≤ shape.length ∧ (shape.drop 1).take 2 = [1, 1] ∧ dimMax < shape.headD 0 then
        if glminMax < shape.headD 0 then .error .headerData
        else storeDims dimMax ((-1 : Int) :: 1 :: 1 :: natsToInts (shape.drop 3)) (shape.headD 0)
      else storeDims dimMax (natsToInts shape) f0.glmin
  | _ => storeDims dimMax (natsToInts shape) f0.glmin

/-- `get_data_shape()` including the fresh header: `dim[0] == 0` reports `(0,)` (analyze.py:601-603) -/
def hdrGetShape (r : ShapeRule) (f : ShapeFields) : Except Err (List Int) :=
  if f.dims = [] then .ok [0] else getShape r f

/-- the shape part of `SpatialImage.update_header` (spatialimages.py:546-552):
    `if hdr.get_data_shape() != shape: hdr.set_data_shape(shape)` — ANY difference rewrites the header -/
def updateHeaderShape (r : ShapeRule) (dimMax glminMax : Nat) (f0 : ShapeFields) (shape : List Nat) :
    Except Err ShapeFields :=
  match hdrGetShape r f0 with
  | .error e => .error e
  | .ok hs => if hs = natsToInts shape then .ok f0 else setShapeOn r dimMax glminMax f0 shape

/-- the seeded "tolerant" variant: the header is left alone when its shape is the data shape followed only
    by length-1 axes (`hdr_shape[:n] == shape and all(s == 1 for s in hdr_shape[n:])`) -/
def updateHeaderShapeTolerant (r : ShapeRule) (dimMax glminMax : Nat) (f0 : ShapeFields) (shape : List Nat) :
    Except Err ShapeFields :=
  match hdrGetShape r f0 with
  | .error e => .error e
  | .ok hs =>
      if hs.take shape.length = natsToInts shape ∧ (hs.drop shape.length).all (· == 1) then .ok f0
      else setShapeOn r dimMax glminMax f0 shape

/-- what C01 tracks of an Analyze-family header object: byte order, data-type code, shape fields -/
structure HdrState where
  endian : Endian
  dtype : DType
  fields : ShapeFields
  deriving Repr, DecidableEq, Inhabited

/-- `AnalyzeHeader.from_header(donor)` (analyze.py:352-409; Nifti1Header.from_header adds extensions only):
    * `type(donor) == klass` → `donor.copy()`: byte order, dtype code and every field kept;
    * otherwise a FRESH header of the target class in NATIVE byte order; an Analyze-type donor hands its raw
      fields over through `as_analyze_map()` (so `glmin` is copied when both classes have the field — `dim`
      too, but it is rewritten next); then `set_data_dtype(donor.get_data_dtype())`,
      `set_data_shape(donor.get_data_shape())` (which may refuse: HeaderDataError).
      A donor dtype the target class has no code for is refused first (HeaderDataError, analyze.py:393-401):
      `supports` is the target's `_data_type_codes` membership (regenerated table `Gen.dtypeCodes`).
    `donorShape` is `donor.get_data_shape()` by the DONOR's rule; `glminMax = 0` says the target class has no
    `glmin` field. -/
def fromHeader (same : Bool) (native : Endian) (r : ShapeRule) (dimMax glminMax : Nat) (supports : DType → Bool)
    (donorHasGlmin : Bool) (donor : HdrState) (donorShape : List Nat) : Except Err HdrState :=
  if same then .ok donor
  else if !supports donor.dtype then .error .headerData     -- analyze.py:393-401 "does not support it"
  else
    let g := if donorHasGlmin ∧ glminMax ≠ 0 then donor.fields.glmin else 0
    match setShapeOn r dimMax glminMax ⟨[], g⟩ donorShape with
    | .error e => .error e
    | .ok f => .ok ⟨native, donor.dtype, f⟩

/-! MGH header state = the four numbers of `dims` (mghformat.py:295-316) -/

/-- `MGHHeader()` : `dims = [1, 1, 1, 1]` -/
def mghFreshDims : List Nat := [1, 1, 1, 1]

/-- `MGHHeader.set_data_shape` -/
def mghSetDims (shape : List Nat) : Except Err (List Nat) :=
  if shape.length > 4 then .error .value else .ok (shape ++ List.replicate (4 - shape.length) 1)

/-- `MGHHeader.get_data_shape` -/
def mghGetShape (dims : List Nat) : List Nat := if dims.getD 3 0 = 1 then dims.take 3 else dims

/-- `update_header` of an MGH image whose header holds `dims0` -/
def mghUpdate (dims0 : List Nat) (shape : List Nat) : Except Err (List Nat) :=
  if mghGetShape dims0 = shape then .ok dims0 else mghSetDims shape

/-- `MGHImage.to_file_map` with a header that arrives holding `dims0` (fresh, or copied from an MGH donor) -/
def mghWriteOn (dims0 : List Nat) (hdr ftr : List Nat) (cw : Nat) (imgShape : List Nat) (A : List Nat → Elem) :
    Except Err (List Nat × List Nat) :=
  match mghUpdate dims0 imgShape with
  | .error e => .error e
  | .ok dims =>
      if imgShape ≠ mghGetShape dims then .error .headerData
      else .ok (dims, padTo mghDataOffset hdr ++ writeData .big cw imgShape A ++ ftr)

/-! ### views of memory maps (volumeutils.py:392-407 `maps_file`, after `fix: copy data viewed from a memory map
    before opening the save target for writing` and `fix: maps_file follows memoryview and array-interface owners
    to the memory map`; used by analyze.py:1004-1007 and mghformat.py:548-551) -/

/-- one link of the chain of OWNERS of an array's memory, as far as `maps_file` looks at it.  The chain is
    `arr, next(arr), next(next(arr)), …` with `next(x) = x.obj` for a memoryview and `getattr(x, 'base', None)` for
    anything else, up to (not including) the final `None`. -/
inductive BaseNode where
  | memmap     -- an `np.memmap` instance
  | ndarray    -- any other `np.ndarray` (base class or another subclass)
  | mmapBuf    -- an `mmap.mmap` object
  | memview    -- a `memoryview` (np.frombuffer(mmap) puts one between the array and the mmap)
  | other      -- anything else (bytes, bytearray, the array-interface holder of as_strided, …)
  deriving Repr, DecidableEq, Inhabited

/-- `maps_file(arr)`:
    `while arr is not None: if isinstance(arr, (np.memmap, mmap.mmap)): return True;`
    `arr = arr.obj if isinstance(arr, memoryview) else getattr(arr, 'base', None)`; `return False` -/
def mapsFile : List BaseNode → Bool
  | [] => false
  | .memmap :: _ => true
  | .mmapBuf :: _ => true
  | .ndarray :: rest => mapsFile rest
  | .memview :: rest => mapsFile rest
  | .other :: rest => mapsFile rest

/-- the guard before both fixes: `isinstance(data, np.memmap)` on the array itself only -/
def mapsFileOrig : List BaseNode → Bool
  | .memmap :: _ => true
  | _ => false

/-- the guard between the two fixes (ae98171b): the `.base` chain was followed through `np.ndarray`s only and
    ended with `isinstance(arr, mmap.mmap)` -/
def mapsFileArraysOnly : List BaseNode → Bool
  | [] => false
  | .memmap :: _ => true
  | .ndarray :: rest => mapsFileArraysOnly rest
  | .mmapBuf :: _ => true
  | .memview :: _ => false
  | .other :: _ => false

/-- some owner in the chain is a memory map (an `np.memmap` or the `mmap.mmap` buffer itself): the array still
    reads from the mapped file -/
def ReachesMap (chain : List BaseNode) : Prop :=
  ∃ x ∈ chain, x = BaseNode.memmap ∨ x = BaseNode.mmapBuf

/-- the narrower notion the ae98171b guard implemented: a map reached through plain arrays only -/
def ReachesMapThroughArrays (chain : List BaseNode) : Prop :=
  ∃ pre x post, chain = pre ++ x :: post ∧ (∀ n ∈ pre, n = BaseNode.ndarray) ∧ (x = .memmap ∨ x = .mmapBuf)

/-- `load(f)`, wrap the loaded data in any chain of views, `klass(view, affine, header).to_filename(f)`:
    `mapped` says whether the data are a window onto `f`; they are copied before the target is opened for
    writing iff the guard answers True (data held in memory need no copy) -/
def resaveVia (guard : List BaseNode → Bool) (hb : List Nat) (offset : Nat) (e : Endian) (cw k : Nat)
    (shape : List Nat) (A : List Nat → Elem) (mapped : Bool) (chain : List BaseNode) : Except Err (List Nat) :=
  resave hb offset e cw k shape A (!mapped || guard chain)

/-! ### the `dtype=` argument again, with byte orders that are NOT identified by construction
    (analyze.py:545-583 get/set_data_dtype, :1009-1015 and :1058-1066 to_file_map, :929-975 from_file_map) -/

/-- a NumPy dtype OBJECT: what it describes and its own byte order (`'='`/`'|'` resolved to the machine's) -/
structure NpDType where
  t : DType
  order : Endian
  deriving Repr, DecidableEq, Inhabited

/-- `_data_type_codes` of a header class: (dtype, code); keyed by the dtype in BOTH byte orders -/
abbrev CodeTable := List (DType × Nat)

def codeOf (tb : CodeTable) (t : DType) : Option Nat := (tb.find? (fun p => p.1 == t)).map (·.2)
def dtypeOfCode (tb : CodeTable) (c : Nat) : Option DType := (tb.find? (fun p => p.2 == c)).map (·.1)

/-- the table of a class from regenerated (dtype name, code) pairs; names the model does not know are dropped
    (`code_tables_generated` shows none is) -/
def codeTableOfNames (l : List (String × Nat)) : CodeTable :=
  l.filterMap (fun nc => (dtypeOfName nc.1).map (fun t => (t, nc.2)))

/-- every dtype of the table is found again under its code (no two dtypes share a code) -/
def CodeTable.okB (tb : CodeTable) : Bool := tb.all (fun p => dtypeOfCode tb p.2 == some p.1 && codeOf tb p.1 == some p.2)

/-- the in-memory header: byte order of the struct (fixed at construction / load) and the `datatype` CODE -/
structure HdrC where
  endian : Endian
  code : Nat
  deriving Repr, DecidableEq, Inhabited

/-- what is on disk: the same two facts, as the reader finds them (the byte order of a header is recognised from
    its `sizeof_hdr` field, the dtype from the code) -/
structure WrittenHdr where
  endian : Endian
  code : Nat
  deriving Repr, DecidableEq, Inhabited

/-- `hdr.set_data_dtype(d)`: the code of `d`'s type; `d`'s own byte order is dropped; unknown → HeaderDataError -/
def HdrC.setDType (tb : CodeTable) (h : HdrC) (d : NpDType) : Except Err HdrC :=
  match codeOf tb d.t with
  | some c => .ok { h with code := c }
  | none => .error .headerData

/-- `hdr.get_data_dtype()`: `dtype_of_code.newbyteorder(self.endianness)` -/
def HdrC.getDType (tb : CodeTable) (h : HdrC) : Except Err NpDType :=
  match dtypeOfCode tb h.code with
  | some t => .ok ⟨t, h.endian⟩
  | none => .error .headerData

/-- which dtype object `to_file_map` hands to the ArrayWriter -/
inductive OrderPolicy where
  | header      -- the real code: `out_dtype = hdr.get_data_dtype()` after `hdr.set_data_dtype(dtype)`
  | override    -- the seeded variant: `out_dtype = np.dtype(dtype)` (the override's own byte order)
  deriving Repr, DecidableEq, Inhabited

/-- `AnalyzeImage.to_file_map(file_map, dtype=ovr)`: (dtype object given to the writer, header as written,
    the image's header afterwards) -/
def saveDT (tb : CodeTable) (pol : OrderPolicy) (h : HdrC) (ovr : Option NpDType) :
    Except Err (NpDType × WrittenHdr × HdrC) :=
  let saved := h.code
  match (match ovr with | some d => h.setDType tb d | none => .ok h) with
  | .error e => .error e
  | .ok hw =>
    match hw.getDType tb with
    | .error e => .error e
    | .ok out =>
      let wdt := match pol, ovr with
        | .override, some d => d
        | _, _ => out
      .ok (wdt, ⟨hw.endian, hw.code⟩, { hw with code := saved })

/-- the data file a save writes: the writer encodes with ITS dtype object's byte order and width -/
def writeFileC (tb : CodeTable) (pol : OrderPolicy) (hb : List Nat) (offset : Nat) (h : HdrC) (ovr : Option NpDType)
    (shape : List Nat) (A : List Nat → Elem) : Except Err (List Nat × WrittenHdr) :=
  match saveDT tb pol h ovr with
  | .error e => .error e
  | .ok (wdt, wh, _) => .ok (writeFile hb offset wdt.order wdt.t.cw shape A, wh)

/-- `from_file_map`: the reader knows ONLY what is on disk: the written header's byte order and code -/
def readFileC (tb : CodeTable) (file : List Nat) (offset : Nat) (wh : WrittenHdr) (shape : List Nat) :
    Except Err (List Nat × List Elem) :=
  match dtypeOfCode tb wh.code with
  | none => .error .headerData
  | some t => readData file offset wh.endian t.cw t.k shape

end Nb.C01
