import NibabelModel.Model.C03
import NibabelModel.Lemmas.C03
import NibabelModel.Lemmas.C03_Minc
/-! Lemmas/C03_Parrec — the PAR/REC fast-path guard as written in the source (core Lean only). -/
namespace Nb.C03
open Nb Nb.C06

/-- all first differences are 1  ⇔  the vector counts up by one from its first entry -/
theorem npDiff_all_one : ∀ (rest : List Nat) (a : Nat),
    (npDiff (a :: rest)).any (· != 1) = false ↔ a :: rest = List.range' a (rest.length + 1)
  | [], a => by simp [npDiff, List.range']
  | b :: rest, a => by
      have ih := npDiff_all_one rest b
      simp only [npDiff, List.any_cons, Bool.or_eq_false_iff, ih, List.length_cons]
      rw [List.range'_succ (n := rest.length + 1)]
      simp only [List.cons.injEq, true_and]
      constructor
      · rintro ⟨h1, h2⟩
        have : b = a + 1 := by
          have : ((b : Int) - (a : Int) != 1) = false := h1
          simp at this; omega
        subst this; exact h2
      · intro h
        have hb : b = a + 1 := by
          rw [List.range'_succ] at h; exact (List.cons.inj h).1
        subst hb
        refine ⟨by simp; omega, h⟩

theorem parrecFallback_false_iff (indices : List Nat) :
    parrecFallback indices = false ↔ indices ≠ [] ∧ indices = List.range indices.length := by
  cases indices with
  | nil => simp [parrecFallback]
  | cons a rest =>
      simp only [parrecFallback, List.head?_cons, Bool.or_eq_false_iff, npDiff_all_one, List.length_cons,
        ne_eq, reduceCtorEq, not_false_eq_true, true_and, List.range_eq_range']
      constructor
      · rintro ⟨h1, h2⟩
        have : a = 0 := by simpa using h1
        subst this; exact h2
      · intro h
        have : a = 0 := by
          rw [List.range'_succ] at h; exact (List.cons.inj h).1
        subst this; exact ⟨by simp, h⟩

/-- reading REC element `q` for logical element `q` (what `fileslice` on the REC file does) is
    right for every element exactly when the index list is `[0, 1, …]` -/
theorem direct_read_iff (S : Nat) (hS : 0 < S) (indices : List Nat) :
    (∀ q, q < S * indices.length → recElem S indices q = q) ↔ indices = List.range indices.length := by
  constructor
  · intro h
    apply List.ext_getElem (by simp)
    intro i h1 h2
    have hq : S * i < S * indices.length := Nat.mul_lt_mul_of_pos_left h1 hS
    have := h (S * i) hq
    simp only [recElem, Nat.mul_mod_right, Nat.zero_add, Nat.mul_div_cancel_left _ hS,
      List.getD_eq_getElem?_getD, List.getElem?_eq_getElem h1, Option.getD_some] at this
    have := Nat.eq_of_mul_eq_mul_left hS this
    simp [this]
  · intro h q hq
    rw [h]; rw [h] at hq
    simp only [List.length_range] at hq ⊢
    exact recElem_range S _ q hq

/-! the NumPy vocabulary of the generated expression, on vectors of naturals -/

theorem Np.diff_ofNat : ∀ l : List Nat, Np.diff (l.map Int.ofNat) = npDiff l
  | [] => rfl
  | [_] => rfl
  | a :: b :: rest => by
      have ih := Np.diff_ofNat (b :: rest)
      simp only [List.map_cons] at ih
      simp only [List.map_cons, Np.diff, npDiff, ih]
      rfl

theorem Np.item_zero_ofNat (a : Nat) (rest : List Nat) : Np.item ((a :: rest).map Int.ofNat) 0 = (a : Int) := by
  simp [Np.item]

end Nb.C03
