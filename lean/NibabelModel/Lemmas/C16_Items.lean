import NibabelModel.Model.C16
import NibabelModel.Lemmas.C16_Trk
import NibabelModel.Lemmas.C16_Table
/-! Lemmas/C16_Items — glue between the item level (`trkSaveItems` / `trkLoadItems`) and the record,
    name-table and column lemmas (core Lean only). -/
namespace Nb.C16

/-! ### generic list facts -/

theorem mapM_ok_of_forall {α β ε} (f : α → Except ε β) (g : α → β) (l : List α)
    (h : ∀ x ∈ l, f x = .ok (g x)) : l.mapM f = .ok (l.map g) := by
  induction l with
  | nil => rfl
  | cons a as ih =>
    rw [List.mapM_cons, h a (by simp), ih (fun x hx => h x (by simp [hx]))]
    rfl

theorem zipIdx_map_eq_range {α β} (l : List α) (F : α → Nat → β) (dflt : α) :
    l.zipIdx.map (fun x => F x.1 x.2) = (List.range l.length).map (fun i => F (l.getD i dflt) i) := by
  apply List.ext_getElem
  · simp
  · intro i h1 h2
    simp at h1
    simp [h1]

theorem range_map_getD {α} (l : List α) (dflt : α) : (List.range l.length).map (fun i => l.getD i dflt) = l := by
  apply List.ext_getElem
  · simp
  · intro i h1 h2
    simp at h1
    simp [h1]

theorem lookup_of_mem_nodup {β} (d : List (Name × β)) (hnd : (d.map (·.1)).Nodup) (e : Name × β) (he : e ∈ d) :
    d.lookup e.1 = some e.2 := by
  induction d with
  | nil => cases he
  | cons x xs ih =>
    obtain ⟨xk, xv⟩ := x
    simp only [List.map_cons, List.nodup_cons] at hnd
    rcases List.mem_cons.mp he with h | h
    · subst h; simp [List.lookup]
    · have hne : e.1 ≠ xk := by
        intro heq
        exact hnd.1 (by rw [← heq]; exact List.mem_map_of_mem h)
      have hb : (e.1 == xk) = false := by simpa using hne
      simp only [List.lookup, hb]
      exact ih hnd.2 h

theorem lookupKeys_self {β} (d : List (Name × β)) (hnd : (d.map (·.1)).Nodup) :
    lookupKeys (d.map (·.1)) d = .ok (d.map (·.2)) := by
  unfold lookupKeys
  rw [List.mapM_map]
  apply mapM_ok_of_forall
  intro e he
  simp only [Function.comp]
  rw [lookup_of_mem_nodup d hnd e he]

/-! ### per-point data against its schema -/

/-- `dpp` (name ↦ one row per point) matches the schema `cols` (name, width) position by position,
    for a streamline of `n` points -/
def DppMatches (n : Nat) : List (Name × List (List Nat)) → List (Name × Nat) → Prop
  | [], [] => True
  | d :: ds, c :: cs => d.1 = c.1 ∧ d.2.length = n ∧ (∀ row ∈ d.2, row.length = c.2) ∧ DppMatches n ds cs
  | [], _ :: _ => False
  | _ :: _, [] => False

/-- the scalar part of point row `i`: the rows `i` of every name, concatenated in key order -/
def flatAt (dpp : List (Name × List (List Nat))) (i : Nat) : List Nat :=
  ((dpp.map (·.2)).map (fun c => c.getD i [])).flatten

theorem DppMatches.names {n : Nat} : ∀ {d : List (Name × List (List Nat))} {p : List (Name × Nat)},
    DppMatches n d p → d.map (·.1) = p.map (·.1)
  | [], [], _ => rfl
  | _ :: _, _ :: _, h => by
      simp only [DppMatches] at h
      simp [h.1, DppMatches.names h.2.2.2]
  | [], _ :: _, h => by simp [DppMatches] at h
  | _ :: _, [], h => by simp [DppMatches] at h

theorem DppMatches.lens {n : Nat} : ∀ {d : List (Name × List (List Nat))} {p : List (Name × Nat)},
    DppMatches n d p → ∀ e ∈ d, e.2.length = n
  | [], [], _ => by simp
  | _ :: _, _ :: _, h => by
      simp only [DppMatches] at h
      intro e he
      rcases List.mem_cons.mp he with he | he
      · subst he; exact h.2.1
      · exact DppMatches.lens h.2.2.2 e he
  | [], _ :: _, h => by simp [DppMatches] at h
  | _ :: _, [], h => by simp [DppMatches] at h

theorem getD_row_length {vals : List (List Nat)} {k i : Nat} (hw : ∀ row ∈ vals, row.length = k)
    (hi : i < vals.length) : (vals.getD i []).length = k := by
  have : vals.getD i [] = vals[i] := by simp [hi]
  rw [this]
  exact hw _ (List.getElem_mem hi)

theorem DppMatches.head {n : Nat} (hn : 0 < n) : ∀ {d : List (Name × List (List Nat))} {p : List (Name × Nat)},
    DppMatches n d p → d.map (fun e => (e.1, (e.2.headD []).length)) = p
  | [], [], _ => rfl
  | d :: _, c :: _, h => by
      simp only [DppMatches] at h
      have hl : (d.2.headD []).length = c.2 := by
        cases hv : d.2 with
        | nil => rw [hv] at h; simp at h; omega
        | cons r rs => simp; exact h.2.2.1 r (by rw [hv]; simp)
      simp only [List.map_cons, DppMatches.head hn h.2.2.2, hl, h.1]
  | [], _ :: _, h => by simp [DppMatches] at h
  | _ :: _, [], h => by simp [DppMatches] at h

theorem DppMatches.flatAt_length {n i : Nat} (hi : i < n) : ∀ {d : List (Name × List (List Nat))} {p : List (Name × Nat)},
    DppMatches n d p → (flatAt d i).length = colsTotal p
  | [], [], _ => rfl
  | d :: ds, c :: cs, h => by
      simp only [DppMatches] at h
      have ih := DppMatches.flatAt_length hi h.2.2.2
      have hl := getD_row_length h.2.2.1 (by rw [h.2.1]; exact hi)
      simp only [flatAt, colsTotal, List.map_cons, List.flatten_cons, List.length_append, List.sum_cons] at ih ⊢
      rw [ih, hl]
  | [], _ :: _, h => by simp [DppMatches] at h
  | _ :: _, [], h => by simp [DppMatches] at h

/-- Transposition: cutting every point row at the cumulative slices of the schema and collecting
    the pieces per name gives the per-name row lists back. -/
theorem slices_transpose (n : Nat) : ∀ (d : List (Name × List (List Nat))) (p : List (Name × Nat))
    (pres : Nat → List Nat) (off : Nat), (∀ i, i < n → (pres i).length = off) → DppMatches n d p →
    (cumSlices p off).map (fun s => (s.1, (List.range n).map
        (fun i => pySlice (pres i ++ flatAt d i) s.2.1 s.2.2))) = d
  | [], [], _, _, _, _ => rfl
  | (dn, vals) :: ds, (cn, k) :: cs, pres, off, hpre, h => by
      simp only [DppMatches] at h
      obtain ⟨hname, hlen, hw, hrest⟩ := h
      have ih := slices_transpose n ds cs (fun i => pres i ++ vals.getD i []) (off + k)
        (by intro i hi
            rw [List.length_append, hpre i hi, getD_row_length hw (by rw [hlen]; exact hi)])
        hrest
      simp only [cumSlices, List.map_cons]
      have hhead : (List.range n).map (fun i => pySlice (pres i ++ flatAt ((dn, vals) :: ds) i) off (off + k)) = vals := by
        have : ∀ i ∈ List.range n, pySlice (pres i ++ flatAt ((dn, vals) :: ds) i) off (off + k) = vals.getD i [] := by
          intro i hi
          have hi' : i < n := by simpa using hi
          have hk := getD_row_length hw (by rw [hlen]; exact hi')
          unfold pySlice
          simp only [flatAt, List.map_cons, List.flatten_cons]
          rw [drop_append_len _ _ off (hpre i hi')]
          have : off + k - off = k := by omega
          rw [this, take_append_len _ _ k hk]
        rw [List.map_congr_left this]
        rw [← hlen]
        exact range_map_getD vals []
      have htail : (cumSlices cs (off + k)).map (fun s => (s.1, (List.range n).map
            (fun i => pySlice (pres i ++ flatAt ((dn, vals) :: ds) i) s.2.1 s.2.2))) = ds := by
        refine Eq.trans ?_ ih
        apply List.map_congr_left
        intro s _
        congr 1
        apply List.map_congr_left
        intro i _
        simp only [flatAt, List.map_cons, List.flatten_cons, List.append_assoc]
      rw [hhead, htail, hname]
  | [], _ :: _, _, _, _, h => by simp [DppMatches] at h
  | _ :: _, [], _, _, _, h => by simp [DppMatches] at h

/-! ### one item -/

/-- an item the TRK writer accepts for the schemas `pcols` (per-point names with their numbers of
    columns) and `scols` (per-streamline names with their numbers of values): at least one point,
    fewer than 2^31, one row of the right width per point under every per-point name -/
def Item.WF (pcols scols : List (Name × Nat)) (it : Item) : Prop :=
  0 < it.pts.length ∧ it.pts.length < 2147483648 ∧ DppMatches it.pts.length it.dpp pcols ∧
  it.dps.map (fun d => (d.1, d.2.length)) = scols

def itemRowsOf (it : Item) : List (List Nat) :=
  (List.range it.pts.length).map (fun i => tripleWords (it.pts.getD i (0, 0, 0)) ++ flatAt it.dpp i)

def itemRecOf (it : Item) : TrkRec := ⟨itemRowsOf it, (it.dps.map (·.2)).flatten⟩

theorem itemRows_eq {pcols scols : List (Name × Nat)} {it : Item} (hw : it.WF pcols scols)
    (hnd : (pcols.map (·.1)).Nodup) : itemRows (pcols.map (·.1)) it = .ok (itemRowsOf it) := by
  obtain ⟨_, _, hm, _⟩ := hw
  have hany : it.dpp.any (fun d => d.2.length != it.pts.length) = false := by
    rw [List.any_eq_false]
    intro d hd
    simp [hm.lens d hd]
  have hnames := hm.names
  unfold itemRows
  rw [hany, ← hnames, lookupKeys_self it.dpp (by rw [hnames]; exact hnd)]
  simp only [Bool.false_eq_true, if_false]
  rw [zipIdx_map_eq_range it.pts (fun p i => tripleWords p ++ ((it.dpp.map (·.2)).map (fun c => c.getD i [])).flatten) (0, 0, 0)]
  rfl

theorem itemProps_eq {pcols scols : List (Name × Nat)} {it : Item} (hw : it.WF pcols scols)
    (hnd : (scols.map (·.1)).Nodup) : itemProps (scols.map (·.1)) it = .ok (it.dps.map (·.2)).flatten := by
  obtain ⟨_, _, _, hs⟩ := hw
  have hnames : scols.map (·.1) = it.dps.map (·.1) := by rw [← hs]; simp
  unfold itemProps
  rw [hnames, lookupKeys_self it.dps (by rw [← hnames]; exact hnd)]

theorem itemRec_eq {pcols scols : List (Name × Nat)} {it : Item} (hw : it.WF pcols scols)
    (hp : (pcols.map (·.1)).Nodup) (hs : (scols.map (·.1)).Nodup) :
    itemRec (pcols.map (·.1)) (scols.map (·.1)) it = .ok (itemRecOf it) := by
  unfold itemRec
  rw [itemRows_eq hw hp, itemProps_eq hw hs]
  rfl

theorem tripleWords_length (t : Triple) : (tripleWords t).length = 3 := rfl

theorem itemRecOf_rows_length (it : Item) : (itemRecOf it).rows.length = it.pts.length := by
  simp [itemRecOf, itemRowsOf]

theorem itemRecOf_WF {pcols scols : List (Name × Nat)} {it : Item} (hw : it.WF pcols scols) :
    (itemRecOf it).WF (colsTotal pcols) (colsTotal scols) := by
  obtain ⟨_, hlt, hm, hs⟩ := hw
  refine ⟨?_, ?_, ?_⟩
  · intro row hrow
    simp only [itemRecOf, itemRowsOf, List.mem_map, List.mem_range] at hrow
    obtain ⟨i, hi, rfl⟩ := hrow
    rw [List.length_append, tripleWords_length, hm.flatAt_length hi]
  · simp only [itemRecOf]
    rw [← hs]
    simp only [colsTotal, List.length_flatten, List.map_map]
    rfl
  · rw [itemRecOf_rows_length]; exact hlt

theorem rowTriple_tripleWords (t : Triple) (rest : List Nat) : rowTriple (tripleWords t ++ rest) = t := by
  obtain ⟨a, b, c⟩ := t
  simp [rowTriple, tripleWords]

theorem recItem_itemRecOf {pcols scols : List (Name × Nat)} {it : Item} (hw : it.WF pcols scols) :
    recItem (cumSlices pcols 0) (cumSlices scols 0) (itemRecOf it) = it := by
  obtain ⟨_, _, hm, hs⟩ := hw
  have hpts : (itemRecOf it).rows.map rowTriple = it.pts := by
    simp only [itemRecOf, itemRowsOf, List.map_map]
    have : (rowTriple ∘ fun i => tripleWords (it.pts.getD i (0, 0, 0)) ++ flatAt it.dpp i) =
        fun i => it.pts.getD i (0, 0, 0) := by
      funext i; simp [rowTriple_tripleWords]
    rw [this]
    exact range_map_getD it.pts (0, 0, 0)
  have hdpp : (cumSlices pcols 0).map (fun s => (s.1, (itemRecOf it).rows.map
      (fun row => pySlice (row.drop 3) s.2.1 s.2.2))) = it.dpp := by
    have ht := slices_transpose it.pts.length it.dpp pcols (fun _ => []) 0 (by intros; rfl) hm
    refine Eq.trans ?_ ht
    apply List.map_congr_left
    intro s _
    congr 1
    simp only [itemRecOf, itemRowsOf, List.map_map]
    apply List.map_congr_left
    intro i _
    simp only [Function.comp, List.nil_append]
    rw [drop_append_len _ _ 3 (tripleWords_length _)]
  have hdps : (cumSlices scols 0).map (fun s => (s.1, pySlice (itemRecOf it).props s.2.1 s.2.2)) = it.dps := by
    have := slices_recover it.dps []
    rw [← hs]
    simpa [itemRecOf] using this
  unfold recItem
  rw [hpts, hdpp, hdps]

/-! ### the header counts `save` computes after the loop -/

theorem sum_row_scalars (ns : Nat) (rows : List (List Nat)) (h : ∀ row ∈ rows, row.length = 3 + ns) :
    (rows.map (fun row => row.length - 3)).sum = rows.length * ns := by
  induction rows with
  | nil => simp
  | cons r rs ih =>
    have hr := h r (by simp)
    have := ih (fun x hx => h x (by simp [hx]))
    simp only [List.map_cons, List.sum_cons, List.length_cons, this, hr, Nat.succ_mul]
    omega

theorem sum_scalars (ns np : Nat) (recs : List TrkRec) (h : ∀ r ∈ recs, r.WF ns np) :
    (recs.map (fun r => (r.rows.map (fun row => row.length - 3)).sum)).sum =
      (recs.map (·.rows.length)).sum * ns := by
  induction recs with
  | nil => simp
  | cons r rs ih =>
    have hr := sum_row_scalars ns r.rows (h r (by simp)).1
    have := ih (fun x hx => h x (by simp [hx]))
    simp only [List.map_cons, List.sum_cons, this, hr, Nat.add_mul]

theorem sum_props (ns np : Nat) (recs : List TrkRec) (h : ∀ r ∈ recs, r.WF ns np) :
    (recs.map (·.props.length)).sum = recs.length * np := by
  induction recs with
  | nil => simp
  | cons r rs ih =>
    have hr := (h r (by simp)).2.1
    have := ih (fun x hx => h x (by simp [hx]))
    simp only [List.map_cons, List.sum_cons, List.length_cons, this, hr, Nat.succ_mul]
    omega

theorem trkHeaderCounts_eq (ns np : Nat) (recs : List TrkRec) (h : ∀ r ∈ recs, r.WF ns np)
    (hpts : 0 < (recs.map (·.rows.length)).sum) (hn : 0 < recs.length) (sf pf : List (List Nat)) :
    trkHeaderCounts recs.length recs sf pf = .ok ⟨recs.length, ns, np, sf, pf⟩ := by
  unfold trkHeaderCounts
  simp only [sum_scalars ns np recs h, sum_props ns np recs h]
  have h1 : ((recs.map (·.rows.length)).sum == 0) = false := by simp; omega
  have h2 : ((recs.map (·.rows.length)).sum * ns % (recs.map (·.rows.length)).sum != 0) = false := by
    simp [Nat.mul_mod_right]
  have h3 : (recs.length * np % recs.length != 0) = false := by simp [Nat.mul_mod_right]
  simp only [h1, h2, h3, Bool.false_eq_true, if_false]
  rw [Nat.mul_div_cancel_left ns hpts, Nat.mul_div_cancel_left np hn]

end Nb.C16
