/-
  Lemmas/C18_Gen — `SeriesAxis.get_element / __getitem__ / __add__` as TRANSLATED from the current source by
  harness/py2lean_c18.py on every run (`Generated/C18Funcs.lean`) compute exactly what the hand-written model
  (`Model/C18.lean`) computes, for all inputs.  Every `series_*` theorem of Props/C18 is about the model; these
  equalities carry them over to the translated source: an edit of the three methods that changes what they
  compute breaks a proof below at the next run.  Core Lean only.
-/
import NibabelModel.Generated.C18Funcs
import NibabelModel.Model.C18
import NibabelModel.Lemmas.PyVal
import NibabelModel.Lemmas.PySlice
set_option linter.unusedSimpArgs false
namespace Nb.C18
open Nb.Py Nb.Py.V

/-- the model's errors as Python exceptions -/
def pyErr : Err → Nb.Py.Err
  | .indexError => .indexError
  | .valueError => .valueError

/-- a model result as a result of the translated code -/
def asPy {α} (enc : α → V) : Except Err α → M V
  | .ok a => .ok (enc a)
  | .error e => .error (pyErr e)

/-- a SeriesAxis as the list of its constructor arguments (the unit as its index in the unit table: the
    translated code only compares units for equality and passes them on) -/
def encSeries (a : Series) : V := V.ofList [.int a.start, .int a.step, .int (a.size : Int), .int (a.unit : Int)]

theorem gen_getElement_eq (a : Series) (i : Int) :
    Gen.C18F.getElementW (.int a.start) (.int a.step) (.int (a.size : Int)) (.int (a.unit : Int)) (.int i) =
      asPy V.int (seriesGetElement a i) := by
  unfold Gen.C18F.getElementW Gen.C18F.getElement seriesGetElement
  by_cases h0 : i < 0
  · by_cases h1 : (a.size : Int) + i ≥ a.size ∨ (a.size : Int) + i < 0
    · rcases h1 with h1 | h1 <;> simp [h0, h1, asPy, pyErr, V.lt, V.ge, V.add, V.mul, truthy] <;> omega
    · have h2 : ¬ ((a.size : Int) ≤ (a.size : Int) + i) := by omega
      have h3 : ¬ ((a.size : Int) + i < 0) := by omega
      simp [h0, h1, h2, h3, asPy, V.lt, V.ge, V.add, V.mul, truthy]
  · by_cases h1 : i ≥ a.size ∨ i < 0
    · rcases h1 with h1 | h1 <;> simp [h0, h1, asPy, pyErr, V.lt, V.ge, V.add, V.mul, truthy] <;> omega
    · have h2 : ¬ ((a.size : Int) ≤ i) := by omega
      simp [h0, h1, h2, asPy, V.lt, V.ge, V.add, V.mul, truthy]


/-- `axis[slice]`: the translated `__getitem__` computes the model's `seriesGetSlice` (all slices, step 0 incl.) -/
theorem gen_getitem_slice_eq (a : Series) (s : PySlice) :
    Gen.C18F.getitemW (.int a.start) (.int a.step) (.int (a.size : Int)) (.int (a.unit : Int)) (V.ofPySlice s) =
      asPy encSeries (seriesGetSlice a s) := by
  unfold Gen.C18F.getitemW Gen.C18F.getitem seriesGetSlice
  have hs : V.isSlice (V.ofPySlice s) = true := rfl
  simp only [hs, sliceIndices_ofPySlice]
  by_cases h0 : s.stepVal = 0
  · simp [h0, asPy, pyErr, truthy]
  · have hst : (s.indices a.size).2.2 ≠ 0 := h0
    simp [h0, asPy, truthy, V.unpack3, V.pyRange, hst, Nb.rangeInts_length, V.add, V.mul, encSeries]

/-- `axis[int]` -/
theorem gen_getitem_int_eq (a : Series) (i : Int) :
    Gen.C18F.getitemW (.int a.start) (.int a.step) (.int (a.size : Int)) (.int (a.unit : Int)) (.int i) =
      asPy V.int (seriesGetElement a i) := by
  rw [← gen_getElement_eq]
  unfold Gen.C18F.getitemW Gen.C18F.getitem
  have h1 : V.isSlice (.int i) = false := rfl
  have h2 : V.isIntegral (.int i) = true := rfl
  simp [h1, h2, truthy]

/-- `axis[x]` for anything that is neither a slice nor an int (index arrays, masks, None, tuples, strings) -/
theorem gen_getitem_other (a : Series) (x : V) (h1 : V.isSlice x = false) (h2 : V.isIntegral x = false) :
    Gen.C18F.getitemW (.int a.start) (.int a.step) (.int (a.size : Int)) (.int (a.unit : Int)) x =
      .error .indexError := by
  unfold Gen.C18F.getitemW Gen.C18F.getitem
  simp [h1, h2, truthy]

/-- `a + b` -/
theorem gen_add_eq (a b : Series) :
    Gen.C18F.addW (.int a.start) (.int a.step) (.int (a.size : Int)) (.int (a.unit : Int))
        (.int b.start) (.int b.step) (.int (b.size : Int)) (.int (b.unit : Int)) =
      asPy encSeries (seriesAdd a b) := by
  unfold Gen.C18F.addW Gen.C18F.add seriesAdd
  by_cases h1 : b.step = a.step
  · by_cases h2 : b.unit = a.unit
    · simp [h1, h2, asPy, encSeries, V.add]
    · have : ¬ ((b.unit : Int) = (a.unit : Int)) := by omega
      simp [h1, h2, this, asPy, pyErr]
  · simp [h1, asPy, pyErr]

end Nb.C18
