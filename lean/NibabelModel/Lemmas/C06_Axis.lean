import NibabelModel.Lemmas.C06_Defs
namespace Nb.C06
open Nb Nb.PySlice

attribute [local simp] rangeInts_length rangeInts_zero

theorem fillSlicer_eq (s : PySlice) (n : Nat) : fillSlicer s n =
  if s.stepVal < 0 then
    (if (s.indices n).1 < 0 then ⟨0, some 0, s.stepVal⟩
     else if (s.indices n).2.1 < 0 then ⟨(s.indices n).1, none, s.stepVal⟩
     else ⟨(s.indices n).1, some (s.indices n).2.1, s.stepVal⟩)
  else ⟨(s.indices n).1, some (s.indices n).2.1, s.stepVal⟩ := rfl

theorem fillSlicer_step (s : PySlice) (n : Nat) : (fillSlicer s n).step = s.stepVal := by
  rw [fillSlicer_eq]; split <;> (try split) <;> (try split) <;> rfl

/-- the four shapes a filled slicer can take -/
theorem fillSlicer_cases (s : PySlice) (n : Nat) (hv : s.Valid) :
    (0 < s.stepVal ∧ 0 ≤ (s.indices n).1 ∧ (s.indices n).1 ≤ n ∧ 0 ≤ (s.indices n).2.1 ∧
        (s.indices n).2.1 ≤ n ∧ fillSlicer s n = ⟨(s.indices n).1, some (s.indices n).2.1, s.stepVal⟩) ∨
    (s.stepVal < 0 ∧ (s.indices n).1 = -1 ∧ -1 ≤ (s.indices n).2.1 ∧
        fillSlicer s n = ⟨0, some 0, s.stepVal⟩) ∨
    (s.stepVal < 0 ∧ 0 ≤ (s.indices n).1 ∧ (s.indices n).1 ≤ (n : Int) - 1 ∧ (s.indices n).2.1 = -1 ∧
        fillSlicer s n = ⟨(s.indices n).1, none, s.stepVal⟩) ∨
    (s.stepVal < 0 ∧ 0 ≤ (s.indices n).1 ∧ (s.indices n).1 ≤ (n : Int) - 1 ∧ 0 ≤ (s.indices n).2.1 ∧
        (s.indices n).2.1 ≤ (n : Int) - 1 ∧
        fillSlicer s n = ⟨(s.indices n).1, some (s.indices n).2.1, s.stepVal⟩) := by
  have he := fillSlicer_eq s n
  rcases Int.lt_or_gt_of_ne hv with hc | hc
  · have hb := indices_bounds_neg s n hc
    rw [if_pos hc] at he
    by_cases h1 : (s.indices n).1 < 0
    · rw [if_pos h1] at he; right; left; exact ⟨hc, by omega, by omega, he⟩
    · rw [if_neg h1] at he
      by_cases h2 : (s.indices n).2.1 < 0
      · rw [if_pos h2] at he; right; right; left; exact ⟨hc, by omega, by omega, by omega, he⟩
      · rw [if_neg h2] at he; right; right; right
        exact ⟨hc, by omega, by omega, by omega, by omega, he⟩
  · have hb := indices_bounds_pos s n hc
    rw [if_neg (show ¬ s.stepVal < 0 by omega)] at he
    left; exact ⟨hc, by omega, by omega, by omega, by omega, he⟩

theorem indices_mk (a b c : Int) (n : Nat) :
    (⟨some a, some b, some c⟩ : PySlice).indices n = (adjust1 n c a, adjust1 n c b, c) := rfl

theorem indices_mk_none (a c : Int) (n : Nat) :
    (⟨some a, none, some c⟩ : PySlice).indices n
      = (adjust1 n c a, if c < 0 then -1 else (n : Int), c) := rfl

theorem adjust1_id_pos {n : Nat} {c v : Int} (hc : 0 < c) (h0 : 0 ≤ v) (h1 : v ≤ n) :
    adjust1 n c v = v := by
  unfold adjust1; split <;> (try split) <;> (try split) <;> omega

theorem adjust1_id_neg {n : Nat} {c v : Int} (hc : c < 0) (h0 : 0 ≤ v) (h1 : v ≤ (n : Int) - 1) :
    adjust1 n c v = v := by
  unfold adjust1; split <;> (try split) <;> (try split) <;> omega

theorem sel_eq (s : PySlice) (n : Nat) :
    s.sel n = (rangeInts (s.indices n).1 s.stepVal (s.len n)).map Int.toNat := rfl

theorem len_eq (s : PySlice) (n : Nat) :
    s.len n = rangeLen (s.indices n).1 (s.indices n).2.1 s.stepVal := rfl

/-- `range(start, stop, step)` of the filled slicer enumerates the Python slice -/
theorem fillSlicer_range (s : PySlice) (n : Nat) (hv : s.Valid) :
    (fillSlicer s n).range = rangeInts (s.indices n).1 s.stepVal (s.len n) := by
  rw [len_eq]
  rcases fillSlicer_cases s n hv with ⟨hc, _, _, _, _, he⟩ | ⟨hc, ha, hb, he⟩ | ⟨hc, _, _, hb, he⟩ |
      ⟨hc, _, _, _, _, he⟩ <;> rw [he] <;> simp only [Filled.range, Option.getD_some, Option.getD_none]
  · rw [rangeLen_self, rangeLen_eq_zero_neg hc (by omega)]; rfl
  · rw [hb]

theorem fillSlicer_range_toNat (s : PySlice) (n : Nat) (hv : s.Valid) :
    (fillSlicer s n).range.map Int.toNat = s.sel n := by
  rw [fillSlicer_range s n hv, sel_eq]

theorem toPy_stepVal (f : Filled) : f.toPy.stepVal = f.step := rfl

/-- **A1** -/
theorem fillSlicer_sel' (s : PySlice) (n : Nat) (hv : s.Valid) :
    (fillSlicer s n).toPy.sel n = s.sel n := by
  rcases fillSlicer_cases s n hv with ⟨hc, h1, h2, h3, h4, he⟩ | ⟨hc, ha, hb, he⟩ | ⟨hc, h1, h2, hb, he⟩ |
      ⟨hc, h1, h2, h3, h4, he⟩ <;> rw [he]
  · have : (⟨some (s.indices n).1, some (s.indices n).2.1, some s.stepVal⟩ : PySlice).indices n
        = ((s.indices n).1, (s.indices n).2.1, s.stepVal) := by
      rw [indices_mk, adjust1_id_pos hc h1 h2, adjust1_id_pos hc h3 h4]
    simp only [Filled.toPy, sel, this]; rfl
  · -- nothing selected on either side
    have e1 : s.sel n = [] := by
      rw [sel_eq, len_eq, rangeLen_eq_zero_neg hc (by omega)]; rfl
    have e2 : (⟨some 0, some 0, some s.stepVal⟩ : PySlice).sel n = [] := by
      rw [sel_eq, len_eq, indices_mk]
      simp only [rangeLen_self]; rfl
    simp only [Filled.toPy, e1, e2]
  · have : (⟨some (s.indices n).1, none, some s.stepVal⟩ : PySlice).indices n
        = ((s.indices n).1, (s.indices n).2.1, s.stepVal) := by
      rw [indices_mk_none, adjust1_id_neg hc h1 h2, hb, if_pos hc]
    simp only [Filled.toPy, sel, this]; rfl
  · have : (⟨some (s.indices n).1, some (s.indices n).2.1, some s.stepVal⟩ : PySlice).indices n
        = ((s.indices n).1, (s.indices n).2.1, s.stepVal) := by
      rw [indices_mk, adjust1_id_neg hc h1 h2, adjust1_id_neg hc h3 h4]
    simp only [Filled.toPy, sel, this]; rfl

/-! ### `_full_slicer_len` -/

theorem ceil_aux (G C : Nat) (hG : 0 < G) (hC : 0 < C) :
    (G + C - 1) / C = (((G : Int) - 1) / (C : Int) + 1).toNat := by
  have h3 : ((G : Int) - 1) / (C : Int) = (((G - 1) / C : Nat) : Int) := by
    rw [Int.natCast_ediv]; congr 1; omega
  have h2 : G + C - 1 = (G - 1) + C := by omega
  rw [h3]
  calc (G + C - 1) / C = (G - 1 + C) / C := by rw [h2]
    _ = (G - 1) / C + 1 := Nat.add_div_right _ hC
    _ = _ := by generalize (G - 1) / C = q; omega

/-- `_full_slicer_len` computes `len(range(start, stop, step))` (stop `None` read as −1) -/
theorem fullSlicerLen_eq_rangeLen (f : Filled) (hs : f.step ≠ 0) :
    fullSlicerLen f = rangeLen f.start (f.stop.getD (-1)) f.step := by
  unfold fullSlicerLen rangeLen
  simp only []
  generalize f.stop.getD (-1) = b
  generalize f.start = a at *
  generalize f.step = c at *
  rcases Int.lt_or_gt_of_ne hs with hc | hc
  · by_cases hg : b - a ≥ 0
    · rw [if_pos (show (c > 0 ∧ b - a ≤ 0) ∨ (c < 0 ∧ b - a ≥ 0) from Or.inr ⟨hc, hg⟩),
        if_pos hc, if_neg (show ¬ b < a by omega)]
    · rw [if_neg (show ¬ ((c > 0 ∧ b - a ≤ 0) ∨ (c < 0 ∧ b - a ≥ 0)) by omega),
        if_pos hc, if_pos (show b < a by omega)]
      have e1 : a - b - 1 = (((b - a).natAbs : Nat) : Int) - 1 := by omega
      have e2 : -c = ((c.natAbs : Nat) : Int) := by omega
      rw [e1, e2]
      exact ceil_aux _ _ (by omega) (by omega)
  · by_cases hg : b - a ≤ 0
    · rw [if_pos (show (c > 0 ∧ b - a ≤ 0) ∨ (c < 0 ∧ b - a ≥ 0) from Or.inl ⟨hc, hg⟩),
        if_neg (show ¬ c < 0 by omega), if_neg (show ¬ a < b by omega)]
    · rw [if_neg (show ¬ ((c > 0 ∧ b - a ≤ 0) ∨ (c < 0 ∧ b - a ≥ 0)) by omega),
        if_neg (show ¬ c < 0 by omega), if_pos (show a < b by omega)]
      have e1 : b - a - 1 = (((b - a).natAbs : Nat) : Int) - 1 := by omega
      have e2 : c = ((c.natAbs : Nat) : Int) := by omega
      rw [e1]
      conv => rhs; rw [e2]
      exact ceil_aux _ _ (by omega) (by omega)

theorem fillSlicer_rangeLen (s : PySlice) (n : Nat) (hv : s.Valid) :
    rangeLen (fillSlicer s n).start ((fillSlicer s n).stop.getD (-1)) (fillSlicer s n).step
      = s.len n := by
  have h := congrArg List.length (fillSlicer_range s n hv)
  simpa [Filled.range] using h

/-- **A2** -/
theorem fullSlicerLen_fill' (s : PySlice) (n : Nat) (hv : s.Valid) :
    fullSlicerLen (fillSlicer s n) = (s.sel n).length := by
  rw [fullSlicerLen_eq_rangeLen _ (by rw [fillSlicer_step]; exact hv), fillSlicer_rangeLen s n hv,
    sel_length]

theorem pySliceNone_valid : pySliceNone.Valid := by decide

theorem slice2len_spec' (s : PySlice) (n : Nat) (hv : s.Valid) :
    slice2len s n = (s.sel n).length := by
  unfold slice2len
  split
  · rename_i h; subst h; rw [pySliceNone, sel_none]; simp
  · exact fullSlicerLen_fill' s n hv

theorem pred_div (G C : Nat) (hG : 0 < G) (hC : 0 < C) :
    (((G - 1) / C : Nat) : Int) = if G % C = 0 then ((G / C : Nat) : Int) - 1 else ((G / C : Nat) : Int) := by
  have hdm := Nat.div_add_mod G C
  have hml := Nat.mod_lt G hC
  generalize G / C = q at *
  generalize G % C = r at *
  split
  · rename_i hr
    subst hr
    have hq : 0 < q := by
      rcases Nat.eq_zero_or_pos q with h | h
      · subst h; simp at hdm; omega
      · exact h
    have e : G - 1 = C * (q - 1) + (C - 1) := by
      have := Nat.mul_sub_one C q
      have : C ≤ C * q := Nat.le_mul_of_pos_right C hq
      omega
    rw [e, Nat.mul_add_div hC, Nat.div_eq_of_lt (by omega)]
    omega
  · rename_i hr
    have e : G - 1 = C * q + (r - 1) := by omega
    rw [e, Nat.mul_add_div hC, Nat.div_eq_of_lt (by omega)]
    omega

/-! ### `_positive_slice` -/

theorem mul_neg_mono {c : Int} (hc : c < 0) (x y : Int) : x ≤ y ↔ y * c ≤ x * c := by
  constructor
  · intro h; exact Int.mul_le_mul_of_nonpos_right h (by omega)
  · intro h
    by_cases h' : y < x
    · have := Int.mul_lt_mul_of_neg_right h' hc
      omega
    · omega

theorem mul_pos_mono {c : Int} (hc : 0 < c) (x y : Int) : x ≤ y ↔ x * c ≤ y * c :=
  (Int.mul_le_mul_right hc).symm

/-- closed form of `_positive_slice` on a negative-step filled slicer with `L` selected elements -/
theorem positiveSlice_neg (f : Filled) (hc : f.step < 0) :
    positiveSlice f =
      if rangeLen f.start (f.stop.getD (-1)) f.step = 0 then ⟨f.start, some f.start, -f.step⟩
      else ⟨f.start + ((rangeLen f.start (f.stop.getD (-1)) f.step : Nat) - 1 : Int) * f.step,
            some (f.start + 1), -f.step⟩ := by
  unfold positiveSlice rangeLen
  simp only []
  generalize f.stop.getD (-1) = b
  generalize f.start = a at *
  generalize f.step = c at *
  rw [if_neg (show ¬ c > 0 by omega), if_pos hc]
  by_cases hg : b - a ≥ 0
  · rw [if_pos hg, if_neg (show ¬ b < a by omega), if_pos rfl]
  · rw [if_neg hg, if_pos (show b < a by omega)]
    have e1 : a - b - 1 = (((b - a).natAbs : Nat) : Int) - 1 := by omega
    have e2 : -c = ((c.natAbs : Nat) : Int) := by omega
    have hG : 0 < (b - a).natAbs := by omega
    have hC : 0 < c.natAbs := by omega
    have h3 : (((b - a).natAbs : Nat) : Int) - 1 = (((b - a).natAbs - 1 : Nat) : Int) := by omega
    rw [e1, e2, h3, ← Int.natCast_ediv, pred_div _ _ hG hC]
    have hdm := Nat.div_add_mod (b - a).natAbs c.natAbs
    generalize (b - a).natAbs / c.natAbs = Q at *
    generalize (b - a).natAbs % c.natAbs = R at *
    have hQ : R = 0 → 0 < Q := by
      intro h; subst h
      rcases Nat.eq_zero_or_pos Q with h | h
      · subst h; simp at hdm; omega
      · exact h
    by_cases hR : R = 0
    · have := hQ hR
      simp only [hR, if_true]
      rw [if_neg (by omega)]
      have e : (((Q : Int) - 1 + 1).toNat : Int) - 1 = (Q : Int) - 1 := by omega
      rw [e]
    · simp only [hR, if_false]
      rw [if_neg (by omega)]
      have e : (((Q : Int) + 1).toNat : Int) - 1 = (Q : Int) := by omega
      rw [e]

theorem sel_eq_nil_of_len (s : PySlice) (n : Nat) (h : s.len n = 0) : s.sel n = [] := by
  rw [sel_eq, h]; rfl

/-- explicit result of `_positive_slice ∘ fill_slicer` for a negative step -/
theorem positiveSlice_fill_cases (s : PySlice) (n : Nat) (hv : s.Valid) (hneg : s.stepVal < 0) :
    (s.len n = 0 ∧ ∃ x : Int, 0 ≤ x ∧ x ≤ n ∧
        positiveSlice (fillSlicer s n) = ⟨x, some x, -s.stepVal⟩) ∨
    (0 < s.len n ∧ 0 ≤ (s.indices n).1 + ((s.len n : Int) - 1) * s.stepVal ∧
        0 ≤ (s.indices n).1 ∧ (s.indices n).1 ≤ (n : Int) - 1 ∧
        positiveSlice (fillSlicer s n) =
          ⟨(s.indices n).1 + ((s.len n : Int) - 1) * s.stepVal, some ((s.indices n).1 + 1),
            -s.stepVal⟩) := by
  have hp := positiveSlice_neg (fillSlicer s n) (by rw [fillSlicer_step]; exact hneg)
  rw [fillSlicer_rangeLen s n hv, fillSlicer_step] at hp
  by_cases hL : s.len n = 0
  · left
    rw [if_pos hL] at hp
    refine ⟨hL, (fillSlicer s n).start, ?_, ?_, hp⟩ <;>
      rcases fillSlicer_cases s n hv with ⟨hc, _, _, _, _, he⟩ | ⟨hc, ha, hb, he⟩ | ⟨hc, _, _, hb, he⟩ |
        ⟨hc, _, _, _, _, he⟩ <;> rw [he] <;> simp only [] <;> omega
  · right
    rw [if_neg hL] at hp
    have hk := rangeInts_mem_bounds s n hv (s.len n - 1) (by omega)
    have hcast : ((s.len n - 1 : Nat) : Int) = (s.len n : Int) - 1 := by omega
    rw [hcast] at hk
    have hstart : (fillSlicer s n).start = (s.indices n).1 ∧ 0 ≤ (s.indices n).1 ∧
        (s.indices n).1 ≤ (n : Int) - 1 := by
      rcases fillSlicer_cases s n hv with ⟨hc, _, _, _, _, he⟩ | ⟨hc, ha, hb, he⟩ | ⟨hc, _, _, hb, he⟩ |
        ⟨hc, _, _, _, _, he⟩
      · omega
      · exfalso; apply hL; rw [len_eq]; exact rangeLen_eq_zero_neg hc (by omega)
      · rw [he]; exact ⟨rfl, by omega, by omega⟩
      · rw [he]; exact ⟨rfl, by omega, by omega⟩
    rw [hstart.1] at hp
    exact ⟨by omega, hk.1, hstart.2.1, hstart.2.2, hp⟩

/-- **A3** -/
theorem positiveSlice_sel' (s : PySlice) (n : Nat) (hv : s.Valid) (hneg : s.stepVal < 0) :
    0 < (positiveSlice (fillSlicer s n)).step ∧
    (positiveSlice (fillSlicer s n)).stop.isSome ∧
    (positiveSlice (fillSlicer s n)).toPy.sel n = (s.sel n).reverse := by
  rcases positiveSlice_fill_cases s n hv hneg with ⟨hL, x, hx0, hx1, he⟩ | ⟨hL, h0, ha0, ha1, he⟩ <;> rw [he]
  · refine ⟨by simp only []; omega, rfl, ?_⟩
    rw [sel_eq_nil_of_len s n hL]
    apply sel_eq_nil_of_len
    rw [len_eq]; simp only [Filled.toPy, indices_mk, rangeLen_self]
  · refine ⟨by simp only []; omega, rfl, ?_⟩
    have hC : 0 < -s.stepVal := by omega
    have hle : (s.indices n).1 + ((s.len n : Int) - 1) * s.stepVal ≤ (s.indices n).1 := by
      have := (mul_neg_mono hneg 0 ((s.len n : Int) - 1)).mp (by omega)
      omega
    simp only [Filled.toPy, sel, indices_mk]
    rw [adjust1_id_pos hC h0 (by omega), adjust1_id_pos hC (by omega) (by omega)]
    have hlen : rangeLen ((s.indices n).1 + ((s.len n : Int) - 1) * s.stepVal) ((s.indices n).1 + 1)
        (-s.stepVal) = s.len n := by
      apply nat_eq_of_lt_iff
      intro k
      rw [lt_rangeLen_pos hC]
      have hm := mul_neg_mono hneg (k : Int) ((s.len n : Int) - 1)
      have e : (k : Int) * -s.stepVal = -((k : Int) * s.stepVal) := by rw [Int.mul_neg]
      omega
    rw [hlen, ← List.map_reverse]
    congr 1
    have := rangeInts_reverse (s.indices n).1 s.stepVal (s.len n)
    exact this.symm

theorem selNat_full (n : Nat) : ReadItem.full.selNat n = List.range n := by
  show (fillSlicer pySliceNone n).range.map Int.toNat = _
  rw [fillSlicer_range_toNat _ _ pySliceNone_valid, pySliceNone, sel_none]

theorem selNat_slice (a b c : Int) (n : Nat) (hc : c ≠ 0) :
    (ReadItem.slice a b c).selNat n = (⟨some a, some b, some c⟩ : PySlice).sel n := by
  show (fillSlicer ⟨some a, some b, some c⟩ n).range.map Int.toNat = _
  exact fillSlicer_range_toNat _ _ hc

theorem sel_pairwise_pos (s : PySlice) (n : Nat) (hc : 0 < s.stepVal) :
    (s.sel n).Pairwise (· < ·) := by
  rw [List.pairwise_iff_getElem]
  intro i j hi hj hij
  rw [sel_getElem, sel_getElem]
  have hv : s.Valid := by unfold Valid; omega
  have bi := rangeInts_mem_bounds s n hv i (by rw [← sel_length]; exact hi)
  have bj := rangeInts_mem_bounds s n hv j (by rw [← sel_length]; exact hj)
  have : (i : Int) * s.stepVal < (j : Int) * s.stepVal :=
    Int.mul_lt_mul_of_pos_right (by omega) hc
  omega

theorem indices_stepOnly (c : Int) (m : Nat) :
    (⟨none, none, some c⟩ : PySlice).indices m
      = (if c < 0 then (m : Int) - 1 else 0, if c < 0 then -1 else (m : Int), c) := rfl

theorem apply_nil {α} (s : PySlice) : s.apply ([] : List α) = [] := by
  unfold apply
  rw [List.filterMap_eq_nil_iff]
  intro i _; simp

/-- `R[::c]` for a contiguous ascending `R = [x, x+1, …, x+m-1]` -/
theorem apply_step_contig (x : Int) (m : Nat) (hx : 0 ≤ x) (c : Int) (hc : c ≠ 0) :
    (⟨none, none, some c⟩ : PySlice).apply ((rangeInts x 1 m).map Int.toNat)
      = (rangeInts (x + ((⟨none, none, some c⟩ : PySlice).indices m).1) c
          ((⟨none, none, some c⟩ : PySlice).len m)).map Int.toNat := by
  have hv : (⟨none, none, some c⟩ : PySlice).Valid := hc
  unfold apply
  apply filterMap_of_map_eq_some
  simp only [List.length_map, rangeInts_length]
  rw [sel_eq]
  apply List.ext_getElem (by simp)
  intro k h1 h2
  have hk : k < (⟨none, none, some c⟩ : PySlice).len m := by simpa using h1
  have hb := rangeInts_mem_bounds _ m hv k hk
  have hst : (⟨none, none, some c⟩ : PySlice).stepVal = c := rfl
  rw [hst] at hb
  simp only [List.getElem_map, rangeInts_getElem, hst]
  generalize ((⟨none, none, some c⟩ : PySlice).indices m).1 = t0 at *
  have hlt : (t0 + (k : Int) * c).toNat < m := by omega
  rw [List.getElem?_map, List.getElem?_eq_getElem (by simpa using hlt)]
  simp only [Option.map_some, rangeInts_getElem, Option.some.injEq]
  omega

theorem sel_unit (x y : Int) (n : Nat) (hx0 : 0 ≤ x) (hx1 : x ≤ n) (hy0 : 0 ≤ y) (hy1 : y ≤ n) :
    (⟨some x, some y, some 1⟩ : PySlice).sel n = (rangeInts x 1 (y - x).toNat).map Int.toNat := by
  simp only [sel, indices_mk]
  rw [adjust1_id_pos (by omega) hx0 hx1, adjust1_id_pos (by omega) hy0 hy1, rangeLen_one]

/-- contiguous read of a positive-step slice, then `[::step]` -/
theorem contig_pos (s : PySlice) (n : Nat) (hc : 0 < s.stepVal) :
    (⟨none, none, some s.stepVal⟩ : PySlice).apply
        ((⟨some (s.indices n).1, some (s.indices n).2.1, some 1⟩ : PySlice).sel n) = s.sel n := by
  have hb := indices_bounds_pos s n hc
  rw [sel_unit _ _ _ hb.1 hb.2.1 hb.2.2.1 hb.2.2.2, apply_step_contig _ _ hb.1 _ (by omega), sel_eq]
  congr 1
  rw [len_eq, len_eq, indices_stepOnly]
  simp only [show ¬ s.stepVal < 0 by omega, if_false]
  apply rangeInts_congr
  · apply nat_eq_of_lt_iff
    intro k
    show k < rangeLen 0 _ s.stepVal ↔ _
    rw [lt_rangeLen_pos hc, lt_rangeLen_pos hc]
    have : 0 ≤ (k : Int) * s.stepVal := Int.mul_nonneg (by omega) (by omega)
    omega
  · intro k _; omega

/-- contiguous read of the positive version of a negative-step slice, then `[::step]` -/
theorem contig_neg (s : PySlice) (n : Nat) (hv : s.Valid) (hc : s.stepVal < 0) :
    (⟨none, none, some s.stepVal⟩ : PySlice).apply
        ((⟨some (positiveSlice (fillSlicer s n)).start,
           some ((positiveSlice (fillSlicer s n)).stop.getD 0), some 1⟩ : PySlice).sel n) = s.sel n := by
  rcases positiveSlice_fill_cases s n hv hc with ⟨hL, x, hx0, hx1, he⟩ | ⟨hL, h0, ha0, ha1, he⟩ <;> rw [he]
  · simp only [Option.getD_some]
    rw [sel_unit _ _ _ hx0 hx1 hx0 hx1, sel_eq_nil_of_len s n hL]
    simp only [Int.sub_self, Int.toNat_zero, rangeInts_zero, List.map_nil]
    exact apply_nil _
  · simp only [Option.getD_some]
    have hle : (s.indices n).1 + ((s.len n : Int) - 1) * s.stepVal ≤ (s.indices n).1 := by
      have := (mul_neg_mono hc 0 ((s.len n : Int) - 1)).mp (by omega)
      omega
    rw [sel_unit _ _ _ h0 (by omega) (by omega) (by omega), apply_step_contig _ _ h0 _ (by omega), sel_eq]
    congr 1
    rw [len_eq (⟨none, none, some s.stepVal⟩ : PySlice), indices_stepOnly]
    simp only [hc, if_true]
    apply rangeInts_congr
    · apply nat_eq_of_lt_iff
      intro k
      show k < rangeLen _ (-1) s.stepVal ↔ _
      rw [lt_rangeLen_neg hc]
      have hm := mul_neg_mono hc (k : Int) ((s.len n : Int) - 1)
      omega
    · intro k _; omega

/-! ### `optimize_slicer` -/

theorem optimizeSlicer_slice_cases (h : Heuristic) (s : PySlice) (n : Nat) (allFull slowest : Bool)
    (stride : Nat) (r : ReadItem) (p : PostItem)
    (hok : optimizeSlicer h (.slice s) n allFull slowest stride = .ok (r, p)) :
    (s = pySliceNone ∧ r = .full ∧ p = .slice pySliceNone) ∨
    (fillSlicer s n = ⟨0, some (n : Int), 1⟩ ∧ r = .full ∧ p = .slice pySliceNone) ∨
    (fillSlicer s n = ⟨(n : Int) - 1, none, -1⟩ ∧ r = .full ∧ p = .slice ⟨none, none, some (-1)⟩) ∨
    (r = .full ∧ p = .slice (fillSlicer s n).toPy) ∨
    (0 < (fillSlicer s n).step ∧ r = readOfFilled (fillSlicer s n) ∧ p = .slice pySliceNone) ∨
    (¬ 0 < (fillSlicer s n).step ∧ r = readOfFilled (positiveSlice (fillSlicer s n)) ∧
        p = .slice ⟨none, none, some (-1)⟩) ∨
    (¬ (fillSlicer s n).step < 0 ∧ r = .slice (fillSlicer s n).start ((fillSlicer s n).stop.getD 0) 1 ∧
        p = .slice ⟨none, none, some (fillSlicer s n).step⟩) ∨
    ((fillSlicer s n).step < 0 ∧
        r = .slice (positiveSlice (fillSlicer s n)).start ((positiveSlice (fillSlicer s n)).stop.getD 0) 1 ∧
        p = .slice ⟨none, none, some (fillSlicer s n).step⟩) := by
  unfold optimizeSlicer at hok
  simp only [] at hok
  generalize fillSlicer s n = f at *
  generalize h (HArg.slice f) n stride = a0 at *
  split at hok
  · grind
  · split at hok
    · grind
    · split at hok
      · grind
      · split at hok
        · split at hok <;> grind
        · grind

end Nb.C06
