import NibabelModel.Lemmas.C02_Bound
/-! Lemmas/C02_Write — range of everything `array_to_file` / `save` writes (no wrap-around). -/
namespace Nb.C02

theorem mapM_ok_forall₂ {α β ε : Type} (f : α → Except ε β) :
    ∀ (l : List α) (r : List β), l.mapM f = .ok r → List.Forall₂ (fun v q => f v = .ok q) l r := by
  intro l
  induction l with
  | nil => intro r h; simp [pure, Except.pure] at h; subst h; exact .nil
  | cons a l ih =>
    intro r h
    rw [List.mapM_cons] at h
    cases hfa : f a with
    | error e => rw [hfa] at h; cases h
    | ok b =>
      rw [hfa] at h
      cases hl : l.mapM f with
      | error e => rw [hl] at h; cases h
      | ok bs =>
        rw [hl] at h
        simp [bind, Except.bind, pure, Except.pure] at h
        subst h
        exact .cons hfa (ih bs hl)

theorem forall₂_mem {α β : Type} {R : α → β → Prop} {l : List α} {r : List β} (h : List.Forall₂ R l r) :
    ∀ q ∈ r, ∃ v ∈ l, R v q := by
  induction h with
  | nil => intro q hq; cases hq
  | cons hab _ ih =>
    intro q hq
    rcases List.mem_cons.mp hq with rfl | hq
    · exact ⟨_, List.mem_cons_self, hab⟩
    · obtain ⟨v, hv, hf⟩ := ih q hq
      exact ⟨v, List.mem_cons_of_mem _ hv, hf⟩

theorem mapM_ok_mem {α β ε : Type} (f : α → Except ε β) {l : List α} {r : List β} (h : l.mapM f = .ok r) :
    ∀ q ∈ r, ∃ v ∈ l, f v = .ok q :=
  forall₂_mem (mapM_ok_forall₂ f l r h)

theorem sharedRange_contract (p : Nat) (o : OutT) (h1 : o.omin ≤ 0) (h2 : 0 ≤ o.omax) :
    o.omin ≤ (sharedRange p o).1 ∧ (sharedRange p o).1 ≤ 0 ∧ 0 ≤ (sharedRange p o).2 ∧
      (sharedRange p o).2 ≤ o.omax := by
  unfold sharedRange
  exact ⟨ceilExact_ge p _, ceilExact_nonpos p h1, floorExact_nonneg p h2, floorExact_le p _⟩

theorem ExtI.clip_mem (x : ExtI) {lo hi : Int} (h : lo ≤ hi) : lo ≤ x.clip lo hi ∧ x.clip lo hi ≤ hi := by
  cases x with
  | ninf => simp only [ExtI.clip]; omega
  | fin i => simp only [ExtI.clip]; exact clipI_mem h
  | pinf => simp only [ExtI.clip]; omega

theorem nanFillCheck_mem {p : Nat} {s b : Rat} {nf bmn bmx f : Int} (hb : bmn ≤ bmx)
    (h : nanFillCheck p s b nf bmn bmx = .ok f) : bmn ≤ f ∧ f ≤ bmx := by
  unfold nanFillCheck at h
  split at h
  · rename_i hin; injection h with h; subst h; exact hin
  · simp only at h
    split at h
    · injection h with h; subst h; exact clipI_mem hb
    · cases h

theorem scaleVal_mem {s b : Rat} {lo hi bmn bmx : Int} {nf : Option Int} {v : Val} {q : Int}
    (hlo : bmn ≤ lo ∧ lo ≤ bmx) (hhi : bmn ≤ hi ∧ hi ≤ bmx)
    (hnf : ∀ f, nf = some f → bmn ≤ f ∧ f ≤ bmx)
    (h : scaleVal s b lo hi nf v = .ok q) : bmn ≤ q ∧ q ≤ bmx := by
  cases v with
  | fin r => simp only [scaleVal] at h; injection h with h; subst h; unfold clipI; omega
  | pinf => simp only [scaleVal] at h; injection h with h; subst h; split <;> omega
  | ninf => simp only [scaleVal] at h; injection h with h; subst h; split <;> omega
  | nan =>
    cases nf with
    | none => simp only [scaleVal] at h; cases h
    | some f => simp only [scaleVal] at h; injection h with h; subst h; exact hnf _ rfl

/-- everything the scaled path writes lies in the shared range -/
theorem scaledWrite_mem {p : Nat} {s b : Rat} {dtMn dtMx : Option Rat} {bm : Int × Int} {n2z : Bool}
    {data : List Val} {raws : List Int} (hbm : bm.1 ≤ bm.2)
    (h : scaledWrite p s b dtMn dtMx bm n2z data = .ok raws) : ∀ q ∈ raws, bm.1 ≤ q ∧ q ≤ bm.2 := by
  unfold scaledWrite at h
  simp only [postBounds] at h
  cases n2z with
  | false =>
    simp only [Bool.false_eq_true, if_false, bind, Except.bind, pure, Except.pure] at h
    intro q hq
    obtain ⟨v, _, hf⟩ := mapM_ok_mem _ h q hq
    exact scaleVal_mem (ExtI.clip_mem _ hbm) (ExtI.clip_mem _ hbm) (by intro f hf; cases hf) hf
  | true =>
    simp only [if_true, bind, Except.bind, Except.map] at h
    cases hc : nanFillCheck p s b (rint ((0 - b) / s)) bm.1 bm.2 with
    | error e => rw [hc] at h; cases h
    | ok f =>
      rw [hc] at h
      simp only at h
      intro q hq
      obtain ⟨v, _, hf⟩ := mapM_ok_mem _ h q hq
      exact scaleVal_mem (ExtI.clip_mem _ hbm) (ExtI.clip_mem _ hbm)
        (by intro f' hf'; injection hf' with hf'; subst hf'; exact nanFillCheck_mem hbm hc) hf

/-- the data really are values of the input dtype -/
def DataInType (i : InT) (data : List Val) : Prop :=
  match i with
  | .flt _ => True
  | .int imin imax => imin ≤ 0 ∧ 0 ≤ imax ∧ ∀ v ∈ data, ∃ r : Rat, v = .fin r ∧ imin ≤ r.floor ∧ r.floor ≤ imax

theorem arrayToFile_mem {i : InT} {o : OutT} {s b : Rat} {mn mx : Option Rat} {n2z : Bool}
    {data : List Val} {raws : List Int} (ho1 : o.omin ≤ 0) (ho2 : 0 ≤ o.omax) (hd : DataInType i data)
    (hint : ∀ a c, i = .int a c → mn = none ∧ mx = none)
    (h : arrayToFile i o s b mn mx n2z data = .ok raws) : ∀ q ∈ raws, o.omin ≤ q ∧ q ≤ o.omax := by
  unfold arrayToFile at h
  by_cases hs : s = 0
  · rw [if_pos hs] at h; cases h
  rw [if_neg hs] at h
  by_cases hz : writeZeros mn mx = true
  · rw [if_pos hz] at h
    injection h with h; subst h
    intro q hq; simp only [List.mem_map] at hq; obtain ⟨_, _, rfl⟩ := hq; exact ⟨ho1, ho2⟩
  rw [if_neg hz] at h
  have scaled : ∀ {dtMn dtMx : Option Rat} {nz : Bool},
      scaledWrite (workingPrec i) s b dtMn dtMx (sharedRange (workingPrec i) o) nz data = .ok raws →
      ∀ q ∈ raws, o.omin ≤ q ∧ q ≤ o.omax := by
    intro dtMn dtMx nz hw q hq
    have c := sharedRange_contract (workingPrec i) o ho1 ho2
    have := scaledWrite_mem (by omega) hw q hq
    omega
  cases i with
  | flt prec => exact scaled h
  | int imin imax =>
    obtain ⟨hmn, hmx⟩ := hint imin imax rfl
    subst hmn hmx
    obtain ⟨hi1, hi2, hdat⟩ := hd
    simp only at h
    by_cases hnull : b = 0 ∧ s = 1
    · rw [if_pos hnull] at h
      unfold intNullWrite at h
      by_cases hcc : canCast (.int imin imax) o = true
      · rw [if_pos hcc] at h
        simp only [canCast, Bool.and_eq_true, decide_eq_true_eq] at hcc
        intro q hq
        obtain ⟨v, hv, hf⟩ := mapM_ok_mem _ h q hq
        obtain ⟨r, rfl, h1, h2⟩ := hdat v hv
        simp only at hf; injection hf with hf; subst hf
        omega
      · rw [if_neg hcc] at h
        intro q hq
        obtain ⟨v, hv, hf⟩ := mapM_ok_mem _ h q hq
        obtain ⟨r, rfl, h1, h2⟩ := hdat v hv
        simp only [Option.map_none, Option.getD_none] at hf; injection hf with hf; subst hf
        unfold clipI; omega
    · rw [if_neg hnull] at h
      exact scaled h

/-- NO WRAP-AROUND, whole save: every integer written by any class lies inside the on-disk type range -/
theorem save_mem {c : Cls} {rnd : Rat → Rat} {p32 : Nat} {i : InT} {o : OutT} {data : List Val}
    {s b : Rat} {raws : List Int} (ho1 : o.omin ≤ 0) (ho2 : 0 ≤ o.omax) (hd : DataInType i data)
    (h : save c rnd p32 i o data = .ok (s, b, raws)) : ∀ q ∈ raws, o.omin ≤ q ∧ q ≤ o.omax := by
  have hwr : ∀ w a c', i = InT.int a c' → (writingRange w i data).1 = none ∧ (writingRange w i data).2 = none := by
    intro w a c' hi; subst hi; cases w <;> simp [writingRange]
  have hnone : ∀ a c', i = InT.int a c' → (none : Option Rat) = none ∧ (none : Option Rat) = none :=
    fun _ _ _ => ⟨rfl, rfl⟩
  cases c with
  | mgh =>
    simp only [save, bind, Except.bind] at h
    cases ha : arrayToFile i o 1 0 none none true data with
    | error e => rw [ha] at h; cases h
    | ok r =>
      rw [ha] at h; injection h with h; injection h with _ h; injection h with _ h; subst h
      exact arrayToFile_mem ho1 ho2 hd hnone ha
  | nifti | spm | analyze =>
    simp only [save, bind, Except.bind] at h
    split at h
    · cases h
    · rename_i sb hsb
      obtain ⟨s', b'⟩ := sb
      simp only at h
      split at h
      · cases h
      · split at h
        · cases h
        · rename_i r ha
          injection h with h; injection h with _ h; injection h with _ h; subst h
          refine arrayToFile_mem ho1 ho2 hd ?_ ha
          intro a c' hi
          exact hwr _ a c' hi

end Nb.C02
