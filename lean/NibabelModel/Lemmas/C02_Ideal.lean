import NibabelModel.Lemmas.C02
/-! Lemmas/C02_Ideal — the ideal (unrounded) writer maps the finite range into the target integer range. -/
namespace Nb.C02

/-- `SlopeInterArrayWriter._range_scale` with `rnd = id` and no NaN re-fit: every `v ∈ [inMin, inMax]` is the image
    of some `x* ∈ [sh.1, sh.2]` under `x ↦ s*·x + b*` -/
theorem ideal_inter {o : OutT} {sh : Int × Int} {inMin inMax s b : Rat} (hsh : sh.1 < sh.2)
    (hne : inMin < inMax)
    (h : rangeScaleInter id o sh false inMin inMax = .ok (s, b)) :
    s ≠ 0 ∧ ∀ v, inMin ≤ v → v ≤ inMax → ∃ xs : Rat, (sh.1 : Rat) ≤ xs ∧ xs ≤ (sh.2 : Rat) ∧ v = s * xs + b := by
  have hR : (0 : Rat) < (sh.2 : Rat) - (sh.1 : Rat) := by
    have : (sh.1 : Rat) < (sh.2 : Rat) := by exact_mod_cast hsh
    linarith
  have hD : (0 : Rat) < inMax - inMin := by linarith
  have hs0 : (inMax - inMin) / ((sh.2 : Rat) - (sh.1 : Rat)) ≠ 0 := ne_of_gt (div_pos hD hR)
  unfold rangeScaleInter at h
  rw [if_neg (ne_of_gt hne)] at h
  simp only [id] at h
  by_cases hflip : sh.1 = 0 ∧ rabs inMax < rabs inMin
  · rw [if_pos hflip] at h
    simp only [Bool.and_false, Bool.not_false, if_true] at h
    have hs' : -((inMax - inMin) / ((sh.2 : Rat) - (sh.1 : Rat))) ≠ 0 := neg_ne_zero.mpr hs0
    rw [if_neg hs'] at h
    injection h with h; injection h with hs hb
    have h1 : (sh.1 : Rat) = 0 := by exact_mod_cast hflip.1
    subst hs hb
    refine ⟨hs', fun v hv1 hv2 => ⟨(inMax - v) * ((sh.2 : Rat) - sh.1) / (inMax - inMin), ?_, ?_, ?_⟩⟩
    · rw [h1]; apply div_nonneg _ (le_of_lt hD); apply mul_nonneg <;> linarith
    · rw [div_le_iff₀ hD]
      have : (inMax - v) * ((sh.2 : Rat) - sh.1) ≤ (inMax - inMin) * ((sh.2 : Rat) - sh.1) :=
        mul_le_mul_of_nonneg_right (by linarith) (le_of_lt hR)
      rw [h1] at this ⊢; linarith
    · have hR2 : (sh.2 : Rat) ≠ 0 := by rw [h1] at hR; simpa using ne_of_gt hR
      have hD2 := ne_of_gt hD
      simp only [h1, sub_zero, zero_mul, add_zero]
      field_simp; ring
  · rw [if_neg hflip] at h
    simp only [Bool.and_false, Bool.not_false, if_true] at h
    rw [if_neg hs0] at h
    injection h with h; injection h with hs hb
    subst hs hb
    refine ⟨hs0, fun v hv1 hv2 => ⟨(sh.1 : Rat) + (v - inMin) * ((sh.2 : Rat) - sh.1) / (inMax - inMin), ?_, ?_, ?_⟩⟩
    · have : 0 ≤ (v - inMin) * ((sh.2 : Rat) - sh.1) / (inMax - inMin) :=
        div_nonneg (mul_nonneg (by linarith) (le_of_lt hR)) (le_of_lt hD)
      linarith
    · have : (v - inMin) * ((sh.2 : Rat) - sh.1) / (inMax - inMin) ≤ (sh.2 : Rat) - sh.1 := by
        rw [div_le_iff₀ hD]
        have := mul_le_mul_of_nonneg_right (show v - inMin ≤ inMax - inMin by linarith) (le_of_lt hR)
        linarith
      linarith
    · field_simp; ring

/-- constant data: slope 1, intercept the value; the value maps to raw 0 -/
theorem ideal_inter_const {o : OutT} {sh : Int × Int} {c : Rat} (nf : Bool) :
    rangeScaleInter id o sh nf c c = .ok (1, c) := by
  unfold rangeScaleInter; simp

/-- `SlopeArrayWriter._range_scale` (slope only): every `v ∈ [inMin, inMax]` is `s*·x*` with `x*` in the TYPE range -/
theorem ideal_slope {o : OutT} {inMin inMax s : Rat} (ho1 : o.omin ≤ 0) (ho2 : 0 < o.omax)
    (hu : o.omin ≠ 0 → o.omin < 0) (hmm : inMin ≤ inMax) (hnz : ¬ (inMin = 0 ∧ inMax = 0))
    (h : rangeScaleSlope o inMin inMax = .ok s) :
    s ≠ 0 ∧ ∀ v, inMin ≤ v → v ≤ inMax → ∃ xs : Rat, (o.omin : Rat) ≤ xs ∧ xs ≤ (o.omax : Rat) ∧ v = s * xs + 0 := by
  have hmaxq : (0 : Rat) < (o.omax : Rat) := by exact_mod_cast ho2
  unfold rangeScaleSlope at h
  by_cases hU : o.isU = true
  · have hmin0 : o.omin = 0 := by simpa [OutT.isU] using hU
    have hminq : (o.omin : Rat) = 0 := by exact_mod_cast hmin0
    rw [if_pos hU] at h
    by_cases hmix : inMin < 0 ∧ 0 < inMax
    · rw [if_pos hmix] at h; cases h
    · rw [if_neg hmix] at h
      by_cases hneg : inMax ≤ 0
      · rw [if_pos hneg] at h; injection h with hs; subst hs
        have hmn : inMin < 0 := by
          rcases lt_or_eq_of_le (le_trans hmm hneg) with h' | h'
          · exact h'
          · exact absurd ⟨h', le_antisymm hneg (by rw [← h']; exact hmm)⟩ hnz
        have hs0 : inMin / (o.omax : Rat) ≠ 0 := ne_of_lt (div_neg_of_neg_of_pos hmn hmaxq)
        refine ⟨hs0, fun v hv1 hv2 => ⟨v * o.omax / inMin, ?_, ?_, ?_⟩⟩
        · rw [hminq]; apply div_nonneg_of_nonpos _ (le_of_lt hmn)
          exact mul_nonpos_of_nonpos_of_nonneg (by linarith) (le_of_lt hmaxq)
        · rw [div_le_iff_of_neg hmn]
          have := mul_le_mul_of_nonneg_right hv1 (le_of_lt hmaxq)
          linarith
        · have := ne_of_lt hmn
          rw [add_zero]; field_simp
      · rw [if_neg hneg] at h; injection h with hs; subst hs
        have hmx : 0 < inMax := not_le.mp hneg
        have hmn : 0 ≤ inMin := by
          by_contra hc; exact hmix ⟨not_le.mp hc, hmx⟩
        have hs0 : inMax / (o.omax : Rat) ≠ 0 := ne_of_gt (div_pos hmx hmaxq)
        refine ⟨hs0, fun v hv1 hv2 => ⟨v * o.omax / inMax, ?_, ?_, ?_⟩⟩
        · rw [hminq]; exact div_nonneg (mul_nonneg (by linarith) (le_of_lt hmaxq)) (le_of_lt hmx)
        · rw [div_le_iff₀ hmx]
          have := mul_le_mul_of_nonneg_right hv2 (le_of_lt hmaxq)
          linarith
        · have := ne_of_gt hmx
          rw [add_zero]; field_simp
  · rw [if_neg hU] at h
    injection h with hs
    have hmin0 : o.omin ≠ 0 := by simpa [OutT.isU] using hU
    have hminq : (o.omin : Rat) < 0 := by exact_mod_cast hu hmin0
    -- s = max (inMax/omax) (inMin/omin) > 0 and dominates both quotients
    have hA : inMax / (o.omax : Rat) ≤ s := by rw [← hs]; exact le_max_left _ _
    have hB : inMin / (o.omin : Rat) ≤ s := by rw [← hs]; exact le_max_right _ _
    have hspos : 0 < s := by
      rcases lt_trichotomy inMax 0 with hlt | heq | hgt
      · have : inMin < 0 := by linarith
        have : 0 < inMin / (o.omin : Rat) := div_pos_of_neg_of_neg this hminq
        linarith
      · have : inMin < 0 := by
          rcases lt_or_eq_of_le hmm with h' | h'
          · linarith
          · exact absurd ⟨by rw [h', heq], heq⟩ hnz
        have : 0 < inMin / (o.omin : Rat) := div_pos_of_neg_of_neg this hminq
        linarith
      · have : 0 < inMax / (o.omax : Rat) := div_pos hgt hmaxq
        linarith
    refine ⟨ne_of_gt hspos, fun v hv1 hv2 => ⟨v / s, ?_, ?_, ?_⟩⟩
    · rw [le_div_iff₀ hspos]
      have h1 : s * (o.omin : Rat) ≤ inMin := (div_le_iff_of_neg hminq).mp hB
      linarith
    · rw [div_le_iff₀ hspos]
      have h1 : inMax ≤ s * (o.omax : Rat) := by
        have := (div_le_iff₀ hmaxq).mp hA
        linarith
      linarith
    · have := ne_of_gt hspos
      rw [add_zero]; field_simp

end Nb.C02
