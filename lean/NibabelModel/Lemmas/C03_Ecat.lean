import NibabelModel.Model.C03
import NibabelModel.Lemmas.PySlice
import NibabelModel.Lemmas.C03
import NibabelModel.Lemmas.C06_Axis
/-! Lemmas/C03_Ecat — the ECAT frame-assembly loop equals NumPy indexing of the stacked array. -/
namespace Nb.C03
open Nb Nb.C06

/-- number of real (axis-consuming) items -/
def realCount (items : List Item) : Nat := (items.filter (fun it => it != Item.newaxis)).length

@[simp] theorem realCount_nil : realCount [] = 0 := rfl
@[simp] theorem realCount_newaxis (r : List Item) : realCount (.newaxis :: r) = realCount r := by
  simp [realCount]
@[simp] theorem realCount_int (i : Int) (r : List Item) : realCount (.int i :: r) = realCount r + 1 := by
  simp [realCount]
@[simp] theorem realCount_slice (s : PySlice) (r : List Item) : realCount (.slice s :: r) = realCount r + 1 := by
  simp [realCount]
theorem realCount_append (a b : List Item) : realCount (a ++ b) = realCount a + realCount b := by
  simp [realCount]
theorem realCount_replicate (k : Nat) : realCount (List.replicate k (Item.slice pySliceNone)) = k := by
  induction k with
  | zero => rfl
  | succ k ih => simp [List.replicate_succ, ih]

theorem canonItem_real {n : Nat} {c : Bool} {it : IdxItem} {r : Item} (hn : it ≠ .newaxis)
    (h : canonItem n c it = .ok r) : ∀ rest, realCount (r :: rest) = realCount rest + 1 := by
  intro rest
  cases it with
  | int i =>
      simp only [canonItem] at h
      split at h
      · split at h <;> simp at h; subst h; simp
      · split at h <;> simp at h; subst h; simp
  | slice s =>
      simp only [canonItem] at h
      split at h
      · simp at h; subst h; simp
      · split at h <;> simp at h <;> subst h <;> simp
  | newaxis => exact absurd rfl hn
  | ellipsis => simp [canonItem] at h

/-- `canonical_slicers` returns exactly one real item per axis -/
theorem canonLoop_realCount (c : Bool) : ∀ (idx : List IdxItem) (shape : List Nat) (items : List Item),
    canonLoop c idx shape = .ok items → realCount items = shape.length
  | [], shape, items, h => by
      simp only [canonLoop, Except.ok.injEq] at h
      subst h
      induction shape with
      | nil => rfl
      | cons n ns ih => simp [ih]
  | .newaxis :: rest, shape, items, h => by
      simp only [canonLoop, bind, Except.bind] at h
      cases hr : canonLoop c rest shape with
      | error e => simp [hr] at h
      | ok r =>
          simp only [hr, pure, Except.pure, Except.ok.injEq] at h
          subst h
          simpa using canonLoop_realCount c rest shape r hr
  | .ellipsis :: rest, shape, items, h => by
      simp only [canonLoop] at h
      split at h
      · simp at h
      · simp only [bind, Except.bind] at h
        cases hr : canonLoop c rest (shape.drop (shape.length - (rest.filter (fun x => !isNewaxis x)).length)) with
        | error e => simp [hr] at h
        | ok r =>
            simp only [hr, pure, Except.pure, Except.ok.injEq] at h
            subst h
            rw [realCount_append, realCount_replicate, canonLoop_realCount c rest _ r hr, List.length_drop]
            omega
  | .int i :: rest, [], items, h => by simp [canonLoop] at h
  | .slice s :: rest, [], items, h => by simp [canonLoop] at h
  | .int i :: rest, n :: shape, items, h => by
      simp only [canonLoop, bind, Except.bind] at h
      cases hc : canonItem n c (.int i) with
      | error e => simp [hc] at h
      | ok ci =>
          simp only [hc] at h
          cases hr : canonLoop c rest shape with
          | error e => simp [hr] at h
          | ok r =>
              simp only [hr, pure, Except.pure, Except.ok.injEq] at h
              subst h
              rw [canonItem_real (by simp) hc, canonLoop_realCount c rest shape r hr]; rfl
  | .slice s :: rest, n :: shape, items, h => by
      simp only [canonLoop, bind, Except.bind] at h
      cases hc : canonItem n c (.slice s) with
      | error e => simp [hc] at h
      | ok ci =>
          simp only [hc] at h
          cases hr : canonLoop c rest shape with
          | error e => simp [hr] at h
          | ok r =>
              simp only [hr, pure, Except.pure, Except.ok.injEq] at h
              subst h
              rw [canonItem_real (by simp) hc, canonLoop_realCount c rest shape r hr]; rfl

/-- `splitReal k` finds the `k`-th real item -/
theorem splitReal_spec : ∀ (k : Nat) (items : List Item), k < realCount items →
    ∃ pre it post, splitReal k items = some (pre, it, post) ∧ items = pre ++ it :: post ∧
      realCount pre = k ∧ it ≠ Item.newaxis
  | _, [], h => by simp at h
  | k, .newaxis :: rest, h => by
      obtain ⟨pre, it, post, h1, h2, h3, h4⟩ := splitReal_spec k rest (by simpa using h)
      exact ⟨.newaxis :: pre, it, post, by simp [splitReal, h1], by simp [h2], by simpa using h3, h4⟩
  | 0, .int i :: rest, _ => ⟨[], .int i, rest, rfl, rfl, rfl, by simp⟩
  | 0, .slice s :: rest, _ => ⟨[], .slice s, rest, rfl, rfl, rfl, by simp⟩
  | k + 1, .int i :: rest, h => by
      obtain ⟨pre, it, post, h1, h2, h3, h4⟩ := splitReal_spec k rest (by simp at h; omega)
      exact ⟨.int i :: pre, it, post, by simp [splitReal, h1], by simp [h2], by simp [h3], h4⟩
  | k + 1, .slice s :: rest, h => by
      obtain ⟨pre, it, post, h1, h2, h3, h4⟩ := splitReal_spec k rest (by simp at h; omega)
      exact ⟨.slice s :: pre, it, post, by simp [splitReal, h1], by simp [h2], by simp [h3], h4⟩

/-- items without real items are all newaxis -/
theorem all_newaxis_of_realCount_zero : ∀ (post : List Item), realCount post = 0 →
    post = List.replicate post.length Item.newaxis
  | [], _ => rfl
  | .newaxis :: r, h => by
      have := all_newaxis_of_realCount_zero r (by simpa using h)
      simp [List.replicate_succ, ← this]
  | .int i :: r, h => by simp at h
  | .slice s :: r, h => by simp at h

/-! ### `itemsSels` over a split item list -/

theorem itemsSels_newaxes : ∀ (k : Nat) (shape : List Nat),
    itemsSels (List.replicate k Item.newaxis) shape = .ok (List.replicate k Sel.new)
  | 0, shape => by cases shape <;> rfl
  | k + 1, shape => by
      simp [List.replicate_succ, itemsSels, itemsSels_newaxes k shape, bind, Except.bind, pure, Except.pure]

/-- `itemsSels` distributes over a split of the items at an axis boundary -/
theorem itemsSels_append : ∀ (pre : List Item) (ns : List Nat) (rest : List Item) (ms : List Nat),
    realCount pre = ns.length →
    itemsSels (pre ++ rest) (ns ++ ms) =
      (itemsSels pre ns).bind (fun a => (itemsSels rest ms).bind (fun b => .ok (a ++ b)))
  | [], [], rest, ms, _ => by
      simp only [List.nil_append, itemsSels, Except.bind]
      cases itemsSels rest ms <;> rfl
  | [], _ :: _, _, _, h => by simp at h
  | .newaxis :: pre, ns, rest, ms, h => by
      have ih := itemsSels_append pre ns rest ms (by simpa using h)
      simp only [List.cons_append, itemsSels, bind, Except.bind, ih]
      cases itemsSels pre ns with
      | error e => rfl
      | ok a => cases itemsSels rest ms <;> rfl
  | .int i :: pre, [], _, _, h => by simp at h
  | .slice s :: pre, [], _, _, h => by simp at h
  | .int i :: pre, n :: ns, rest, ms, h => by
      have ih := itemsSels_append pre ns rest ms (by simpa using h)
      simp only [List.cons_append, itemsSels, bind, Except.bind, ih]
      cases itemSel n (.int i) with
      | error e => rfl
      | ok s0 =>
          cases itemsSels pre ns with
          | error e => rfl
          | ok a => cases itemsSels rest ms <;> rfl
  | .slice s :: pre, n :: ns, rest, ms, h => by
      have ih := itemsSels_append pre ns rest ms (by simpa using h)
      simp only [List.cons_append, itemsSels, bind, Except.bind, ih]
      cases itemSel n (.slice s) with
      | error e => rfl
      | ok s0 =>
          cases itemsSels pre ns with
          | error e => rfl
          | ok a => cases itemsSels rest ms <;> rfl

/-! ### shapes, gathers -/

theorem outShape_append (a b : List Sel) : outShape (a ++ b) = outShape a ++ outShape b := by
  induction a with
  | nil => rfl
  | cons s r ih => cases s <;> simp [outShape, ih]

theorem outShape_news (k : Nat) : outShape (List.replicate k Sel.new) = List.replicate k 1 := by
  induction k with
  | zero => rfl
  | succ k ih => simp [List.replicate_succ, outShape, ih]

theorem realSels_append (a b : List Sel) : realSels (a ++ b) = realSels a ++ realSels b := by
  simp [realSels]

theorem realSels_news (k : Nat) : realSels (List.replicate k Sel.new) = [] := by
  induction k with
  | zero => rfl
  | succ k ih =>
      simp only [realSels, List.replicate_succ] at ih ⊢
      rw [List.filter_cons_of_neg (by simp)]
      exact ih

theorem prod_ones (k : Nat) : (List.replicate k 1).prod = 1 := by
  induction k with
  | zero => rfl
  | succ k ih => simp [List.replicate_succ, ih]

/-- the slowest axis is the outer loop of the F-order gather -/
theorem gatherF_snoc : ∀ (Ls : List (List Nat)) (ns : List Nat) (l : List Nat) (T : Nat),
    Ls.length = ns.length →
    gatherF (Ls ++ [l]) (ns ++ [T]) = l.flatMap (fun i => (gatherF Ls ns).map (· + ns.prod * i))
  | [], [], l, T, _ => by
      simp [gatherF]
  | [], _ :: _, _, _, h => by simp at h
  | _ :: _, [], _, _, h => by simp at h
  | l0 :: Ls, n :: ns, l, T, h => by
      simp only [List.cons_append, gatherF, gatherF_snoc Ls ns l T (by simpa using h), List.prod_cons,
        List.flatMap_assoc, List.flatMap_map, List.map_flatMap, List.map_map]
      congr 1; funext i; congr 1; funext r; congr 1; funext j
      simp only [Function.comp_def, Nat.mul_add, Nat.mul_assoc, Nat.add_assoc]

/-! ### `predict_shape`, `slice2outax`, sizes -/

theorem nonIntCount_cons_newaxis (r : List Item) : nonIntCount (.newaxis :: r) = nonIntCount r + 1 := by
  simp [nonIntCount, itemIsInt]
theorem nonIntCount_cons_int (i : Int) (r : List Item) : nonIntCount (.int i :: r) = nonIntCount r := by
  simp [nonIntCount, itemIsInt]
theorem nonIntCount_cons_slice (s : PySlice) (r : List Item) : nonIntCount (.slice s :: r) = nonIntCount r + 1 := by
  simp [nonIntCount, itemIsInt]

theorem length_flatMap_map {α β γ} (xs : List α) (l : List β) (f : α → β → γ) :
    (xs.flatMap (fun r => l.map (f r))).length = l.length * xs.length := by
  induction xs with
  | nil => simp
  | cons x xs ih => simp [List.flatMap_cons, ih, Nat.mul_succ, Nat.add_comm]

/-- what `itemsSels` returns, item by item (inversion) -/
theorem itemsSels_cons_newaxis {rest : List Item} {shape : List Nat} {sels : List Sel}
    (h : itemsSels (.newaxis :: rest) shape = .ok sels) :
    ∃ r, itemsSels rest shape = .ok r ∧ sels = Sel.new :: r := by
  simp only [itemsSels, bind, Except.bind] at h
  cases hr : itemsSels rest shape with
  | error e => simp [hr] at h
  | ok r => simp only [hr, pure, Except.pure, Except.ok.injEq] at h; exact ⟨r, rfl, h.symm⟩

theorem itemsSels_cons_int {i : Int} {rest : List Item} {n : Nat} {shape : List Nat} {sels : List Sel}
    (h : itemsSels (.int i :: rest) (n :: shape) = .ok sels) :
    ∃ k r, pyIntIndex n i = some k ∧ itemsSels rest shape = .ok r ∧ sels = Sel.one k :: r := by
  simp only [itemsSels, itemSel, bind, Except.bind] at h
  cases hk : pyIntIndex n i with
  | none => simp [hk] at h
  | some k =>
      simp only [hk] at h
      cases hr : itemsSels rest shape with
      | error e => simp [hr] at h
      | ok r => simp only [hr, pure, Except.pure, Except.ok.injEq] at h; exact ⟨k, r, rfl, rfl, h.symm⟩

theorem itemsSels_cons_slice {s : PySlice} {rest : List Item} {n : Nat} {shape : List Nat} {sels : List Sel}
    (h : itemsSels (.slice s :: rest) (n :: shape) = .ok sels) :
    ∃ r, itemsSels rest shape = .ok r ∧ sels = Sel.many (s.sel n) :: r := by
  simp only [itemsSels, itemSel, bind, Except.bind] at h
  cases hr : itemsSels rest shape with
  | error e => simp [hr] at h
  | ok r => simp only [hr, pure, Except.pure, Except.ok.injEq] at h; exact ⟨r, rfl, h.symm⟩

/-- `predict_shape` is the NumPy result shape (uses C06's `slice2len = len(range(n)[s])`) -/
theorem predictShape_eq : ∀ (items : List Item) (shape : List Nat) (sels : List Sel),
    itemsSels items shape = .ok sels → (∀ s, Item.slice s ∈ items → s.Valid) →
    predictShape items shape = .ok (outShape sels)
  | [], shape, sels, h, _ => by
      cases shape <;> simp only [itemsSels, Except.ok.injEq] at h <;> subst h <;> rfl
  | .newaxis :: rest, shape, sels, h, hv => by
      obtain ⟨r, hr, rfl⟩ := itemsSels_cons_newaxis h
      simp [predictShape, predictShape_eq rest shape r hr (fun s hs => hv s (by simp [hs])), outShape,
        bind, Except.bind, pure, Except.pure]
  | .int i :: rest, [], sels, h, _ => by simp [itemsSels] at h
  | .slice s :: rest, [], sels, h, _ => by simp [itemsSels] at h
  | .int i :: rest, n :: shape, sels, h, hv => by
      obtain ⟨k, r, _, hr, rfl⟩ := itemsSels_cons_int h
      simp [predictShape, predictShape_eq rest shape r hr (fun s hs => hv s (by simp [hs])), outShape]
  | .slice s :: rest, n :: shape, sels, h, hv => by
      obtain ⟨r, hr, rfl⟩ := itemsSels_cons_slice h
      have hs : s.Valid := hv s (by simp)
      simp [predictShape, hs, predictShape_eq rest shape r hr (fun s hs => hv s (by simp [hs])), outShape,
        slice2len_spec' s n hs, bind, Except.bind, pure, Except.pure]

/-- `slice2outax`: the number of output axes before an item = number of non-int items before it -/
theorem outShape_length : ∀ (items : List Item) (shape : List Nat) (sels : List Sel),
    itemsSels items shape = .ok sels → (outShape sels).length = nonIntCount items
  | [], shape, sels, h => by
      cases shape <;> simp only [itemsSels, Except.ok.injEq] at h <;> subst h <;> rfl
  | .newaxis :: rest, shape, sels, h => by
      obtain ⟨r, hr, rfl⟩ := itemsSels_cons_newaxis h
      simp [outShape, outShape_length rest shape r hr, nonIntCount_cons_newaxis]
  | .int i :: rest, [], sels, h => by simp [itemsSels] at h
  | .slice s :: rest, [], sels, h => by simp [itemsSels] at h
  | .int i :: rest, n :: shape, sels, h => by
      obtain ⟨k, r, _, hr, rfl⟩ := itemsSels_cons_int h
      simp [outShape, outShape_length rest shape r hr, nonIntCount_cons_int]
  | .slice s :: rest, n :: shape, sels, h => by
      obtain ⟨r, hr, rfl⟩ := itemsSels_cons_slice h
      simp [outShape, outShape_length rest shape r hr, nonIntCount_cons_slice]

/-- the gather has as many elements as the result shape says; one list per axis -/
theorem gather_size : ∀ (items : List Item) (shape : List Nat) (sels : List Sel),
    itemsSels items shape = .ok sels → realCount items = shape.length →
    (gatherF (realSels sels) shape).length = (outShape sels).prod ∧ (realSels sels).length = shape.length
  | [], [], sels, h, _ => by
      simp only [itemsSels, Except.ok.injEq] at h; subst h; simp [realSels, gatherF, outShape]
  | [], _ :: _, _, _, hc => by simp at hc
  | .newaxis :: rest, shape, sels, h, hc => by
      obtain ⟨r, hr, rfl⟩ := itemsSels_cons_newaxis h
      have ih := gather_size rest shape r hr (by simpa using hc)
      have : realSels (Sel.new :: r) = realSels r := by
        simp only [realSels]; rw [List.filter_cons_of_neg (by simp)]
      rw [this]; simpa [outShape] using ih
  | .int i :: rest, [], sels, h, _ => by simp [itemsSels] at h
  | .slice s :: rest, [], sels, h, _ => by simp [itemsSels] at h
  | .int i :: rest, n :: shape, sels, h, hc => by
      obtain ⟨k, r, _, hr, rfl⟩ := itemsSels_cons_int h
      have ih := gather_size rest shape r hr (by simpa using hc)
      have : realSels (Sel.one k :: r) = [k] :: realSels r := by
        simp only [realSels]; rw [List.filter_cons_of_pos (by simp)]; rfl
      rw [this]
      refine ⟨?_, by simp [ih.2]⟩
      simp only [gatherF, outShape]
      rw [length_flatMap_map (gatherF (realSels r) shape) [k] (fun r i => i + n * r)]
      simp [ih.1]
  | .slice s :: rest, n :: shape, sels, h, hc => by
      obtain ⟨r, hr, rfl⟩ := itemsSels_cons_slice h
      have ih := gather_size rest shape r hr (by simpa using hc)
      have : realSels (Sel.many (s.sel n) :: r) = s.sel n :: realSels r := by
        simp only [realSels]; rw [List.filter_cons_of_pos (by simp)]; rfl
      rw [this]
      refine ⟨?_, by simp [ih.2]⟩
      simp only [gatherF, outShape, List.prod_cons]
      rw [length_flatMap_map (gatherF (realSels r) shape) (s.sel n) (fun r i => i + n * r), ih.1]

/-! ### the assembly loop -/

/-- one `out_data[..., j, ...] = sub` when the frame axis is the last axis of length > 1 -/
theorem setAxis_block (A : List Nat) (m c j : Nat) (D : List Nat) (buf : List (Option Nat)) (hj : j < m) :
    setAxis (A ++ m :: List.replicate c 1) A.length j ⟨A ++ List.replicate c 1, D⟩ buf =
      .ok ((List.range buf.length).map (fun p =>
        if (p / A.prod) % m = j then D[p % A.prod + A.prod * (p / A.prod / m)]? else buf.getD p none)) := by
  unfold setAxis
  have h1 : ¬ (A.length ≥ (A ++ m :: List.replicate c 1).length) := by simp
  have h2 : (A ++ m :: List.replicate c 1).getD A.length 0 = m := by simp
  have h3 : (A ++ m :: List.replicate c 1).take A.length = A := by simp
  have h4 : (A ++ m :: List.replicate c 1).eraseIdx A.length = A ++ List.replicate c 1 := by
    rw [List.eraseIdx_append_of_length_le (Nat.le_refl _)]; simp
  simp only [h1, if_false, h2, h3, h4, ne_eq, not_true_eq_false, show ¬ (j ≥ m) by omega]

/-- closed form of the buffer after writing the frames `frames` to positions `t, t+1, …` -/
def fill (L m V : Nat) (G : List Nat) (t : Nat) (frames : List Nat) (buf : List (Option Nat)) :
    List (Option Nat) :=
  (List.range (L * m)).map (fun p =>
    if t ≤ p / L ∧ p / L < t + frames.length then some (G.getD (p % L) 0 + V * frames.getD (p / L - t) 0)
    else buf.getD p none)

theorem fill_nil (L m V : Nat) (G : List Nat) (t : Nat) (buf : List (Option Nat)) (hb : buf.length = L * m) :
    fill L m V G t [] buf = buf := by
  apply List.ext_getElem (by simp [fill, hb])
  intro p h1 h2
  simp only [fill, List.getElem_map, List.getElem_range, List.length_nil, Nat.add_zero]
  rw [if_neg (by omega)]
  simp [List.getD_eq_getElem?_getD, h2]

theorem ecatLoop_fill (A : List Nat) (m c V : Nat) (G : List Nat) (hG : G.length = A.prod)
    (sub : Nat → Except Err (NdArr Nat))
    (hsub : ∀ i, sub i = .ok ⟨A ++ List.replicate c 1, G.map (· + V * i)⟩) :
    ∀ (frames : List Nat) (t : Nat) (buf : List (Option Nat)), buf.length = A.prod * m →
      t + frames.length ≤ m →
      ecatLoop sub (A ++ m :: List.replicate c 1) A.length (fun o _ => o) t frames buf =
        .ok (fill A.prod m V G t frames buf)
  | [], t, buf, hb, _ => by rw [fill_nil _ _ _ _ _ _ hb]; rfl
  | i :: rest, t, buf, hb, ht => by
      simp only [List.length_cons] at ht
      simp only [ecatLoop, hsub, bind, Except.bind, setAxis_block A m c t _ buf (by omega)]
      rw [ecatLoop_fill A m c V G hG sub hsub rest (t + 1) _ (by simp [hb]) (by omega)]
      congr 1
      simp only [fill]
      apply List.map_congr_left
      intro p hp
      have hpN : p < A.prod * m := by simpa using hp
      have hL : 0 < A.prod := by
        rcases Nat.eq_zero_or_pos A.prod with h0 | h0
        · rw [h0] at hpN; omega
        · exact h0
      have hj : p / A.prod < m := (Nat.div_lt_iff_lt_mul hL).mpr (by rw [Nat.mul_comm]; exact hpN)
      have hmod : p % A.prod < A.prod := Nat.mod_lt _ hL
      simp only [List.length_cons]
      by_cases hc1 : t + 1 ≤ p / A.prod ∧ p / A.prod < t + 1 + rest.length
      · rw [if_pos hc1, if_pos (by omega)]
        have : p / A.prod - t = (p / A.prod - (t + 1)) + 1 := by omega
        rw [this, List.getD_cons_succ]
      · rw [if_neg hc1]
        have hgd : (List.map (fun p => if p / A.prod % m = t then
              (List.map (fun x => x + V * i) G)[p % A.prod + A.prod * (p / A.prod / m)]?
            else buf.getD p none) (List.range buf.length)).getD p none =
            (if p / A.prod % m = t then
              (List.map (fun x => x + V * i) G)[p % A.prod + A.prod * (p / A.prod / m)]?
            else buf.getD p none) := by
          rw [List.getD_eq_getElem?_getD, List.getElem?_map, List.getElem?_range (by omega)]
          rfl
        rw [hgd, Nat.mod_eq_of_lt hj, Nat.div_eq_of_lt hj, Nat.mul_zero, Nat.add_zero]
        by_cases hjt : p / A.prod = t
        · rw [if_pos hjt, if_pos (by omega), hjt, Nat.sub_self, List.getD_cons_zero]
          rw [List.getElem?_map, List.getElem?_eq_getElem (by omega)]
          simp [List.getD_eq_getElem?_getD, List.getElem?_eq_getElem (show p % A.prod < G.length by omega)]
        · rw [if_neg hjt, if_neg (by omega)]

/-- concatenated blocks, element by element -/
theorem flatMap_blocks (V : Nat) (G : List Nat) : ∀ (frames : List Nat),
    frames.flatMap (fun i => G.map (· + V * i)) =
      (List.range (G.length * frames.length)).map (fun p =>
        G.getD (p % G.length) 0 + V * frames.getD (p / G.length) 0)
  | [] => by simp
  | i :: rest => by
      rw [List.flatMap_cons, flatMap_blocks V G rest, List.length_cons, Nat.mul_succ, Nat.add_comm,
        List.range_add, List.map_append, List.map_map]
      congr 1
      · apply List.ext_getElem (by simp)
        intro p h1 h2
        have hp : p < G.length := by simpa using h1
        simp [Nat.mod_eq_of_lt hp, Nat.div_eq_of_lt hp, List.getD_eq_getElem?_getD, hp]
      · apply List.map_congr_left
        intro p hp
        have hL : 0 < G.length := by
          rcases Nat.eq_zero_or_pos G.length with h0 | h0
          · simp [h0] at hp
          · exact h0
        simp only [Function.comp_def]
        rw [Nat.add_mod_left, Nat.add_div_left _ hL, List.getD_cons_succ]

/-! ### where canonical items come from -/

/-- every canonical item is a filled-in `slice(None)`, a `None`, or `canonItem` of an index item -/
theorem canonLoop_mem (c : Bool) : ∀ (idx : List IdxItem) (shape : List Nat) (items : List Item),
    canonLoop c idx shape = .ok items →
    ∀ it ∈ items, it = Item.slice pySliceNone ∨ it = Item.newaxis ∨
      ∃ n src, src ∈ idx ∧ canonItem n c src = .ok it
  | [], shape, items, h => by
      simp only [canonLoop, Except.ok.injEq] at h
      subst h
      intro it hit
      simp only [List.mem_map] at hit
      obtain ⟨_, _, rfl⟩ := hit
      exact Or.inl rfl
  | .newaxis :: rest, shape, items, h => by
      simp only [canonLoop, bind, Except.bind] at h
      cases hr : canonLoop c rest shape with
      | error e => simp [hr] at h
      | ok r =>
          simp only [hr, pure, Except.pure, Except.ok.injEq] at h
          subst h
          intro it hit
          rcases List.mem_cons.mp hit with rfl | hit
          · exact Or.inr (Or.inl rfl)
          · rcases canonLoop_mem c rest shape r hr it hit with h1 | h1 | ⟨n, src, hs, hcs⟩
            · exact Or.inl h1
            · exact Or.inr (Or.inl h1)
            · exact Or.inr (Or.inr ⟨n, src, by simp [hs], hcs⟩)
  | .ellipsis :: rest, shape, items, h => by
      simp only [canonLoop] at h
      split at h
      · simp at h
      · simp only [bind, Except.bind] at h
        cases hr : canonLoop c rest (shape.drop (shape.length - (rest.filter (fun x => !isNewaxis x)).length)) with
        | error e => simp [hr] at h
        | ok r =>
            simp only [hr, pure, Except.pure, Except.ok.injEq] at h
            subst h
            intro it hit
            rcases List.mem_append.mp hit with hit | hit
            · exact Or.inl (List.eq_of_mem_replicate hit)
            · rcases canonLoop_mem c rest _ r hr it hit with h1 | h1 | ⟨n, src, hs, hcs⟩
              · exact Or.inl h1
              · exact Or.inr (Or.inl h1)
              · exact Or.inr (Or.inr ⟨n, src, by simp [hs], hcs⟩)
  | .int i :: rest, [], items, h => by simp [canonLoop] at h
  | .slice s :: rest, [], items, h => by simp [canonLoop] at h
  | .int i :: rest, n :: shape, items, h => by
      simp only [canonLoop, bind, Except.bind] at h
      cases hc : canonItem n c (.int i) with
      | error e => simp [hc] at h
      | ok ci =>
          simp only [hc] at h
          cases hr : canonLoop c rest shape with
          | error e => simp [hr] at h
          | ok r =>
              simp only [hr, pure, Except.pure, Except.ok.injEq] at h
              subst h
              intro it hit
              rcases List.mem_cons.mp hit with rfl | hit
              · exact Or.inr (Or.inr ⟨n, .int i, by simp, hc⟩)
              · rcases canonLoop_mem c rest shape r hr it hit with h1 | h1 | ⟨n', src, hs, hcs⟩
                · exact Or.inl h1
                · exact Or.inr (Or.inl h1)
                · exact Or.inr (Or.inr ⟨n', src, by simp [hs], hcs⟩)
  | .slice s :: rest, n :: shape, items, h => by
      simp only [canonLoop, bind, Except.bind] at h
      cases hc : canonItem n c (.slice s) with
      | error e => simp [hc] at h
      | ok ci =>
          simp only [hc] at h
          cases hr : canonLoop c rest shape with
          | error e => simp [hr] at h
          | ok r =>
              simp only [hr, pure, Except.pure, Except.ok.injEq] at h
              subst h
              intro it hit
              rcases List.mem_cons.mp hit with rfl | hit
              · exact Or.inr (Or.inr ⟨n, .slice s, by simp, hc⟩)
              · rcases canonLoop_mem c rest shape r hr it hit with h1 | h1 | ⟨n', src, hs, hcs⟩
                · exact Or.inl h1
                · exact Or.inr (Or.inl h1)
                · exact Or.inr (Or.inr ⟨n', src, by simp [hs], hcs⟩)

/-- checked canonical ints are non-negative -/
theorem canonItem_int_nonneg {n : Nat} {src : IdxItem} {i : Int} (h : canonItem n true src = .ok (.int i)) :
    0 ≤ i := by
  cases src with
  | int j =>
      simp only [canonItem] at h
      split at h
      · split at h
        · simp at h
        · rename_i h1 h2
          simp only [Except.ok.injEq, Item.int.injEq] at h
          simp at h2
          omega
      · split at h
        · simp at h
        · simp only [Except.ok.injEq, Item.int.injEq] at h; omega
  | slice s =>
      simp only [canonItem] at h
      split at h
      · simp at h
      · split at h <;> simp at h
  | newaxis => simp [canonItem] at h
  | ellipsis => simp [canonItem] at h

/-- canonical slices are the given slices or `slice(None)` -/
theorem canonItem_slice {n : Nat} {c : Bool} {src : IdxItem} {s : PySlice} (h : canonItem n c src = .ok (.slice s)) :
    s = pySliceNone ∨ src = .slice s := by
  cases src with
  | int j =>
      simp only [canonItem] at h
      split at h <;> split at h <;> simp at h
  | slice s' =>
      simp only [canonItem] at h
      split at h
      · simp only [Except.ok.injEq, Item.slice.injEq] at h; rename_i h0; right; rw [← h, h0]
      · split at h
        · simp only [Except.ok.injEq, Item.slice.injEq] at h; exact Or.inl h.symm
        · simp only [Except.ok.injEq, Item.slice.injEq] at h; right; rw [h]
  | newaxis => simp [canonItem] at h
  | ellipsis => simp [canonItem] at h

theorem canonical_int_nonneg {idx : List IdxItem} {shape : List Nat} {items : List Item}
    (hc : canonicalSlicers idx shape = .ok items) (i : Int) (hi : Item.int i ∈ items) : 0 ≤ i := by
  rcases canonLoop_mem true idx shape items hc _ hi with h | h | ⟨n, src, _, hcs⟩
  · simp at h
  · simp at h
  · exact canonItem_int_nonneg hcs

theorem canonical_slice_valid {idx : List IdxItem} {shape : List Nat} {items : List Item}
    (hc : canonicalSlicers idx shape = .ok items) (hv : ∀ s, IdxItem.slice s ∈ idx → s.Valid)
    (s : PySlice) (hs : Item.slice s ∈ items) : s.Valid := by
  rcases canonLoop_mem true idx shape items hc _ hs with h | h | ⟨n, src, hsrc, hcs⟩
  · simp only [Item.slice.injEq] at h; rw [h]; decide
  · simp at h
  · rcases canonItem_slice hcs with h | h
    · rw [h]; decide
    · subst h; exact hv s hsrc

end Nb.C03
