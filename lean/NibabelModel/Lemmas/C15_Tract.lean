import NibabelModel.Lemmas.C15_Build
/-! Lemmas/C15_Tract — tractogram operations over the sequence heap: storage invariant and frame
    (which live sequences an operation can change). -/
namespace Nb.C15
open Nb

/-- `σ'` comes from `σ` by operations that keep `Inv`, never remove a live sequence and leave the
    contents of every old sequence outside `S` as they were -/
structure Keeps (S : Nat → Prop) (σ σ' : State) : Prop where
  inv : Inv σ'
  len : σ.seqs.length ≤ σ'.seqs.length
  keep : ∀ u, u < σ.seqs.length → ¬ S u → σ'.contents u = σ.contents u

/-- no sequence -/
abbrev nobody : Nat → Prop := fun _ => False

theorem Keeps.refl {σ : State} (h : Inv σ) (S : Nat → Prop) : Keeps S σ σ := ⟨h, Nat.le_refl _, fun _ _ _ => rfl⟩

theorem Keeps.trans {S : Nat → Prop} {σ σ' σ'' : State} (a : Keeps S σ σ') (b : Keeps S σ' σ'') : Keeps S σ σ'' :=
  ⟨b.inv, Nat.le_trans a.len b.len, fun u hu hs => by
    rw [b.keep u (Nat.lt_of_lt_of_le hu a.len) hs, a.keep u hu hs]⟩

/-- only the OLD sequences in `S` matter -/
theorem Keeps.weaken {S S' : Nat → Prop} {σ σ' : State} (a : Keeps S σ σ')
    (hs : ∀ x, S x → x < σ.seqs.length → S' x) : Keeps S' σ σ' :=
  ⟨a.inv, a.len, fun u hu hn => a.keep u hu (fun hm => hn (hs u hm hu))⟩

theorem newSeq_eq (σ : State) (bb : Nat) : newSeq σ bb =
    (σ.alloc { rows := [], cap := 0, dt := 0 }).1.addSeq
      { buf := σ.heap.length, ranges := [], isView := false, bufBytes := bb } := rfl

theorem newSeq_length (σ : State) (bb : Nat) : (newSeq σ bb).seqs.length = σ.seqs.length + 1 := by
  rw [newSeq_eq, addSeq_length, alloc_seqs]

theorem newSeq_keeps {σ : State} (h : Inv σ) (bb : Nat) : Keeps nobody σ (newSeq σ bb) := by
  refine ⟨inv_new h bb, by rw [newSeq_length]; omega, ?_⟩
  intro u hu _
  rw [newSeq_eq, contents_addSeq_old _ _ (by rw [alloc_seqs]; exact hu), contents_alloc h _ hu]

theorem newSeq_contents (σ : State) (bb : Nat) : (newSeq σ bb).contents σ.seqs.length = [] := by
  have := contents_addSeq_new (σ.alloc { rows := [], cap := 0, dt := 0 }).1
    { buf := σ.heap.length, ranges := [], isView := false, bufBytes := bb }
  rw [alloc_seqs] at this
  rw [newSeq_eq]; exact this

theorem viewCtor_length (σ : State) (t bb : Nat) : (viewCtor σ t bb).seqs.length = σ.seqs.length + 1 :=
  addSeq_length _ _

theorem getView_length (σ : State) (t : Nat) (pos : List Nat) : (getView σ t pos).seqs.length = σ.seqs.length + 1 :=
  addSeq_length _ _

theorem viewCtor_keeps {σ : State} (h : Inv σ) {t : Nat} (ht : t < σ.seqs.length) (bb : Nat) :
    Keeps nobody σ (viewCtor σ t bb) :=
  ⟨inv_viewCtor h ht bb, by rw [viewCtor_length]; omega, fun _ hu _ => viewCtor_contents_old σ t bb hu⟩

theorem getView_keeps {σ : State} (h : Inv σ) {t : Nat} (ht : t < σ.seqs.length) (pos : List Nat) :
    Keeps nobody σ (getView σ t pos) :=
  ⟨inv_getView h ht pos, by rw [getView_length]; omega, fun _ hu _ => getView_contents_old σ t pos hu⟩

theorem extendSeq_keeps {σ : State} (h : Inv σ) {t u : Nat} (ht : t < σ.seqs.length) (hu : u < σ.seqs.length)
    (w : Nat) : Keeps (· = t) σ (extendSeq σ t u w) := by
  obtain ⟨a1, a2, _, a4⟩ := extendSeq_spec h ht hu w
  exact ⟨a1, by omega, fun x hx hn => a4 x hn hx⟩

/-- `ArraySequence(value)`: one more live sequence showing what `value` shows; no old sequence changes -/
theorem seqFrom_spec {σ : State} (h : Inv σ) {src : Nat} (hs : src < σ.seqs.length) (asList : Bool) (w : Nat) :
    Keeps nobody σ (seqFrom σ src asList w) ∧ (seqFrom σ src asList w).seqs.length = σ.seqs.length + 1 ∧
    (seqFrom σ src asList w).contents σ.seqs.length = σ.contents src := by
  unfold seqFrom
  cases asList
  · simp only [Bool.false_eq_true, if_false]
    exact ⟨viewCtor_keeps h hs _, viewCtor_length _ _ _, viewCtor_contents_new σ src _⟩
  · simp only [if_true]
    have k1 := newSeq_keeps h defaultBufBytes
    have hl := newSeq_length σ defaultBufBytes
    obtain ⟨a1, a2, a3, a4⟩ := extendSeq_spec k1.inv (t := σ.seqs.length) (u := src) (by omega) (by omega) w
    refine ⟨⟨a1, by omega, ?_⟩, by omega, ?_⟩
    · intro u hu _
      rw [a4 u (by omega) (by omega)]
      exact k1.keep u hu (fun hf => hf)
    · rw [a3, newSeq_contents, k1.keep src hs (fun hf => hf)]
      simp

/-- values a dict holds after `store[k] = v` -/
theorem dictSet_values (d : List (Nat × Nat)) (k v : Nat) :
    ∀ x ∈ (dictSet d k v).map (·.2), x = v ∨ x ∈ d.map (·.2) := by
  induction d with
  | nil => intro x hx; simp [dictSet] at hx; exact Or.inl hx
  | cons kv rest ih =>
    intro x hx
    obtain ⟨k', v'⟩ := kv
    simp only [dictSet] at hx
    split at hx
    · simp only [List.map_cons, List.mem_cons] at hx ⊢
      rcases hx with hx | hx
      · exact Or.inl hx
      · exact Or.inr (Or.inr hx)
    · simp only [List.map_cons, List.mem_cons] at hx ⊢
      rcases hx with hx | hx
      · exact Or.inr (Or.inl hx)
      · rcases ih x hx with h | h
        · exact Or.inl h
        · exact Or.inr (Or.inr h)

theorem dictGet_mem {d : List (Nat × Nat)} {k v : Nat} (h : dictGet d k = some v) : v ∈ d.map (·.2) := by
  unfold dictGet at h
  cases hf : d.find? (·.1 = k) with
  | none => rw [hf] at h; cases h
  | some kv =>
    rw [hf] at h
    simp only [Option.map_some, Option.some.injEq] at h
    have := List.mem_of_find?_eq_some hf
    exact List.mem_map.mpr ⟨kv, this, h⟩

/-- all the values of `d` are live sequences of `σ`, the ones below `n` are in `S` -/
def DictOK (σ : State) (d : List (Nat × Nat)) : Prop := ∀ x ∈ d.map (·.2), x < σ.seqs.length

theorem dppSet_spec {σ σ1 : State} (h : Inv σ) {d d1 : List (Nat × Nat)} {nRows k src : Nat} (hs : src < σ.seqs.length)
    {asList : Bool} {w : Nat} (hd : DictOK σ d) (n0 : Nat) (hn0 : n0 ≤ σ.seqs.length)
    (hfresh : ∀ x ∈ d.map (·.2), x < n0 → False)
    (hr : dppSet σ d nRows k src asList w = some (σ1, d1)) :
    Keeps nobody σ σ1 ∧ DictOK σ1 d1 ∧ (∀ x ∈ d1.map (·.2), x < n0 → False) := by
  unfold dppSet at hr
  simp only at hr
  split at hr
  · cases hr
    obtain ⟨k1, k2, _⟩ := seqFrom_spec h hs asList w
    refine ⟨k1, ?_, ?_⟩
    · intro x hx
      rcases dictSet_values d k _ x hx with hx | hx
      · omega
      · have := hd x hx; omega
    · intro x hx hlt
      rcases dictSet_values d k _ x hx with hx | hx
      · omega
      · exact hfresh x hx hlt
  · cases hr

theorem mkDpp_spec (nRows : Nat) (asList : Bool) (w : Nat) (n0 : Nat) :
    ∀ (l : List (Nat × Nat)) {σ σ1 : State} {d d1 : List (Nat × Nat)}, Inv σ → DictOK σ d → n0 ≤ σ.seqs.length →
    (∀ x ∈ d.map (·.2), x < n0 → False) → (∀ kf ∈ l, kf.2 < n0) →
    mkDpp nRows asList w σ d l = some (σ1, d1) →
    Keeps nobody σ σ1 ∧ DictOK σ1 d1 ∧ (∀ x ∈ d1.map (·.2), x < n0 → False) := by
  intro l
  induction l with
  | nil =>
    intro σ σ1 d d1 h hd _ hf _ hr
    simp only [mkDpp, Option.some.injEq, Prod.mk.injEq] at hr
    obtain ⟨rfl, rfl⟩ := hr
    exact ⟨Keeps.refl h _, hd, hf⟩
  | cons kf rest ih =>
    intro σ σ1 d d1 h hd hn hf hl hr
    obtain ⟨k, f⟩ := kf
    simp only [mkDpp] at hr
    split at hr
    · rename_i σ2 d2 hset
      have hfl : f < n0 := hl (k, f) (by simp)
      obtain ⟨a, b, c⟩ := dppSet_spec h (by omega) hd n0 hn hf hset
      obtain ⟨a', b', c'⟩ := ih a.inv b (Nat.le_trans hn a.len) c (fun kf hkf => hl kf (by simp [hkf])) hr
      exact ⟨a.trans a', b', c'⟩
    · cases hr

/-- tractogram state invariant: `Inv` of the heap; every sequence a tractogram holds is live -/
structure TInv (τ : TState) : Prop where
  inv : Inv τ.st
  live : ∀ t ∈ τ.tracts, ∀ m ∈ t.members, m < τ.st.seqs.length

theorem tinv_init : TInv TState.init := ⟨inv_init, by simp [TState.init]⟩

theorem tractAt_mem {τ : TState} {T : Nat} (h : T < τ.tracts.length) : τ.tractAt T ∈ τ.tracts := by
  simp [TState.tractAt, List.getD, h]

theorem tractAt_set_self (σ : State) (ts : List Tract) (t : Tract) {T : Nat} (hT : T < ts.length) :
    (⟨σ, ts.set T t⟩ : TState).tractAt T = t := by
  simp [TState.tractAt, List.getD, hT]

theorem TInv.of_keeps {τ : TState} {σ' : State} {S : Nat → Prop} (h : TInv τ) (k : Keeps S τ.st σ') :
    TInv ⟨σ', τ.tracts⟩ :=
  ⟨k.inv, fun t ht m hm => Nat.lt_of_lt_of_le (h.live t ht m hm) k.len⟩

theorem tinv_add {τ : TState} {σ' : State} {S : Nat → Prop} (h : TInv τ) (k : Keeps S τ.st σ') (t : Tract)
    (ht : ∀ m ∈ t.members, m < σ'.seqs.length) : TInv ⟨σ', τ.tracts ++ [t]⟩ := by
  refine ⟨k.inv, ?_⟩
  intro t' ht' m hm
  simp only [List.mem_append, List.mem_singleton] at ht'
  rcases ht' with ht' | ht'
  · exact Nat.lt_of_lt_of_le (h.live t' ht' m hm) k.len
  · subst ht'; exact ht m hm

theorem tinv_set {τ : TState} {σ' : State} {S : Nat → Prop} (h : TInv τ) (k : Keeps S τ.st σ') (T : Nat) (t : Tract)
    (ht : ∀ m ∈ t.members, m < σ'.seqs.length) : TInv ⟨σ', τ.tracts.set T t⟩ := by
  refine ⟨k.inv, ?_⟩
  intro t' ht' m hm
  rcases List.mem_or_eq_of_mem_set ht' with ht' | ht'
  · exact Nat.lt_of_lt_of_le (h.live t' ht' m hm) k.len
  · subst ht'; exact ht m hm

theorem tadd_core {τ : TState} (h : TInv τ) {σ1 σ2 : State} {d : List (Nat × Nat)} {n : Nat}
    (k1 : Keeps nobody τ.st σ1) (l1 : σ1.seqs.length = τ.st.seqs.length + 1)
    (a : Keeps nobody σ1 σ2) (b : DictOK σ2 d) (c : ∀ x ∈ d.map (·.2), x < τ.st.seqs.length → False) :
    let τ' : TState := ⟨σ2, τ.tracts ++ [⟨τ.st.seqs.length, d, n⟩]⟩
    TInv τ' ∧ Keeps nobody τ.st τ'.st ∧ τ'.tracts.length = τ.tracts.length + 1 ∧
    (∀ T, T < τ.tracts.length → τ'.tractAt T = τ.tractAt T) ∧
    (∀ m ∈ (τ'.tractAt τ.tracts.length).members, τ.st.seqs.length ≤ m) := by
  intro τ'
  have hk := k1.trans a
  refine ⟨tinv_add h hk _ ?_, hk, by simp [τ'], ?_, ?_⟩
  · intro m hm'
    simp only [Tract.members, List.mem_cons] at hm'
    rcases hm' with hm' | hm'
    · subst hm'; have := a.len; omega
    · exact b m hm'
  · intro T hT
    simp [τ', TState.tractAt, List.getD, List.getElem?_append_left hT]
  · intro m hm'
    simp only [τ', TState.tractAt, List.getD, List.getElem?_append_right (Nat.le_refl _), Nat.sub_self,
      List.getElem?_cons_zero, Option.getD_some, Tract.members, List.mem_cons] at hm'
    rcases hm' with hm' | hm'
    · omega
    · exact Nat.le_of_not_lt (fun hlt => c m hm' hlt)

/-- `Tractogram(seqs[src] | None, data_per_point=…)`: no live sequence changes; the new tractogram holds
    only NEW sequences -/
theorem tnew_spec {τ τ' : TState} (h : TInv τ) {src : Option Nat} {dpp : List (Nat × Nat)} {asList : Bool} {w : Nat}
    (hsrc : ∀ s, src = some s → s < τ.st.seqs.length) (hdpp : ∀ kf ∈ dpp, kf.2 < τ.st.seqs.length)
    (hr : tnew τ src dpp asList w = some τ') :
    TInv τ' ∧ Keeps nobody τ.st τ'.st ∧ τ'.tracts.length = τ.tracts.length + 1 ∧
    (∀ T, T < τ.tracts.length → τ'.tractAt T = τ.tractAt T) ∧
    (∀ m ∈ (τ'.tractAt τ.tracts.length).members, τ.st.seqs.length ≤ m) := by
  cases src with
  | none =>
    simp only [tnew] at hr
    split at hr
    · rename_i σ2 d hm
      cases hr
      have k1 := newSeq_keeps h.inv defaultBufBytes
      obtain ⟨a, b, c⟩ := mkDpp_spec _ asList w τ.st.seqs.length dpp k1.inv (d := []) (by intro x hx; simp at hx)
        (by rw [newSeq_length]; omega) (by intro x hx; simp at hx) hdpp hm
      exact tadd_core h k1 (newSeq_length _ _) a b c
    · cases hr
  | some s =>
    simp only [tnew] at hr
    obtain ⟨a, b, _⟩ := seqFrom_spec h.inv (hsrc s rfl) asList w
    split at hr
    · rename_i σ2 d hm
      cases hr
      obtain ⟨a', b', c'⟩ := mkDpp_spec _ asList w τ.st.seqs.length dpp a.inv (d := []) (by intro x hx; simp at hx)
        (by omega) (by intro x hx; simp at hx) hdpp hm
      exact tadd_core h a b a' b' c'
    · cases hr

theorem idxAll_lt {σ : State} {idx : TIdx} (n0 : Nat) : ∀ (l : List (Nat × Nat)) {views : List (Nat × Nat × List Nat)},
    (∀ kf ∈ l, kf.2 < n0) → idxAll σ idx l = .ok views → ∀ v ∈ views, v.2.1 < n0 := by
  intro l
  induction l with
  | nil => intro views _ hr; simp only [idxAll, Except.ok.injEq] at hr; subst hr; simp
  | cons kf rest ih =>
    intro views hl hr
    obtain ⟨k, f⟩ := kf
    simp only [idxAll] at hr
    split at hr
    · cases hr
    · split at hr
      · cases hr
      · rename_i p _ r hrest
        cases hr
        intro v hv
        simp only [List.mem_cons] at hv
        rcases hv with hv | hv
        · subst hv; exact hl (k, f) (by simp)
        · exact ih (fun kf hkf => hl kf (by simp [hkf])) hrest v hv

theorem mkDppViews_spec (nRows : Nat) (n0 : Nat) :
    ∀ (l : List (Nat × Nat × List Nat)) {σ σ1 : State} {d d1 : List (Nat × Nat)}, Inv σ → DictOK σ d →
    n0 ≤ σ.seqs.length → (∀ x ∈ d.map (·.2), x < n0 → False) → (∀ v ∈ l, v.2.1 < n0) →
    mkDppViews nRows σ d l = some (σ1, d1) →
    Keeps nobody σ σ1 ∧ DictOK σ1 d1 ∧ (∀ x ∈ d1.map (·.2), x < n0 → False) := by
  intro l
  induction l with
  | nil =>
    intro σ σ1 d d1 h hd _ hf _ hr
    simp only [mkDppViews, Option.some.injEq, Prod.mk.injEq] at hr
    obtain ⟨rfl, rfl⟩ := hr
    exact ⟨Keeps.refl h _, hd, hf⟩
  | cons v rest ih =>
    intro σ σ1 d d1 h hd hn hf hl hr
    obtain ⟨k, f, pos⟩ := v
    simp only [mkDppViews] at hr
    split at hr
    · have hfl : f < n0 := hl (k, f, pos) (by simp)
      have a := getView_keeps h (t := f) (by omega) pos
      have hlen := getView_length σ f pos
      have b : DictOK (getView σ f pos) (dictSet d k σ.seqs.length) := by
        intro x hx
        rcases dictSet_values d k _ x hx with hx | hx
        · omega
        · have := hd x hx; omega
      have c : ∀ x ∈ (dictSet d k σ.seqs.length).map (·.2), x < n0 → False := by
        intro x hx hlt
        rcases dictSet_values d k _ x hx with hx | hx
        · omega
        · exact hf x hx hlt
      obtain ⟨a', b', c'⟩ := ih a.inv b (by omega) c (fun v hv => hl v (by simp [hv])) hr
      exact ⟨a.trans a', b', c'⟩
    · cases hr

/-- `T[idx]`: no live sequence changes; the derived tractogram holds only NEW sequences -/
theorem tget_spec {τ τ' : TState} (h : TInv τ) {T : Nat} (hT : T < τ.tracts.length) {idx : TIdx}
    (hr : tget τ T idx = .ok τ') :
    TInv τ' ∧ Keeps nobody τ.st τ'.st ∧ τ'.tracts.length = τ.tracts.length + 1 ∧
    (∀ X, X < τ.tracts.length → τ'.tractAt X = τ.tractAt X) ∧
    (∀ m ∈ (τ'.tractAt τ.tracts.length).members, τ.st.seqs.length ≤ m) := by
  have hmem := h.live _ (tractAt_mem hT)
  have hsl : (τ.tractAt T).sl < τ.st.seqs.length := hmem _ (by simp [Tract.members])
  have hdl : ∀ kf ∈ (τ.tractAt T).dpp, kf.2 < τ.st.seqs.length := fun kf hkf =>
    hmem _ (by simp only [Tract.members, List.mem_cons, List.mem_map]; exact Or.inr ⟨kf, hkf, rfl⟩)
  unfold tget at hr
  simp only at hr
  split at hr
  · cases hr
  · rename_i p _
    split at hr
    · cases hr
    · rename_i views hviews
      split at hr
      · rename_i σ2 d hm
        cases hr
        have k1 := getView_keeps h.inv hsl p
        have l1 := getView_length τ.st (τ.tractAt T).sl p
        obtain ⟨a, b, c⟩ := mkDppViews_spec _ τ.st.seqs.length views k1.inv (d := []) (by intro x hx; simp at hx)
          (by omega) (by intro x hx; simp at hx) (idxAll_lt _ _ hdl hviews) hm
        exact tadd_core h k1 l1 a b c
      · cases hr

/-- `T.data_per_point[k] = seqs[src]`: no live sequence changes (the stored sequence is a new one) -/
theorem tset_spec {τ τ' : TState} (h : TInv τ) {T k src : Nat} (hT : T < τ.tracts.length)
    (hs : src < τ.st.seqs.length) {asList : Bool} {w : Nat} (hr : tset τ T k src asList w = some τ') :
    TInv τ' ∧ Keeps nobody τ.st τ'.st ∧ τ'.tracts.length = τ.tracts.length ∧
    (∀ X, X ≠ T → τ'.tractAt X = τ.tractAt X) := by
  have hmem := h.live _ (tractAt_mem hT)
  unfold tset at hr
  simp only at hr
  split at hr
  · rename_i σ1 d hset
    cases hr
    have hd : DictOK τ.st (τ.tractAt T).dpp := fun x hx => hmem x (by simp only [Tract.members, List.mem_cons]; exact Or.inr hx)
    obtain ⟨a, b, _⟩ := dppSet_spec h.inv hs hd 0 (Nat.zero_le _) (fun _ _ hlt => absurd hlt (Nat.not_lt_zero _)) hset
    refine ⟨tinv_set h a _ _ ?_, a, by simp, ?_⟩
    · intro m hm
      simp only [Tract.members, List.mem_cons] at hm
      rcases hm with hm | hm
      · subst hm; exact Nat.lt_of_lt_of_le (hmem _ (by simp [Tract.members])) a.len
      · exact b m hm
    · intro X hX
      simp only [TState.tractAt, List.getD, List.getElem?_set]
      rw [if_neg (fun h => hX h.symm)]
  · cases hr

/-- the loop of `PerArrayDict.extend`: only the receiver's own per-point sequences can change; what it
    takes over are NEW sequences (views of the donor's) -/
theorem dppExtend_spec (nRows w N : Nat) (S : Nat → Prop) :
    ∀ (l : List (Nat × Nat)) {σ : State} {d : List (Nat × Nat)}, Inv σ → DictOK σ d → N ≤ σ.seqs.length →
    (∀ x ∈ d.map (·.2), S x ∨ N ≤ x) → (∀ kf ∈ l, kf.2 < σ.seqs.length) →
    Keeps (fun x => S x ∨ N ≤ x) σ (dppExtend nRows w σ d l).1 ∧ DictOK (dppExtend nRows w σ d l).1 (dppExtend nRows w σ d l).2.1 ∧
    (∀ x ∈ (dppExtend nRows w σ d l).2.1.map (·.2), S x ∨ N ≤ x) := by
  intro l
  induction l with
  | nil => intro σ d h hd _ hS _; exact ⟨Keeps.refl h _, hd, hS⟩
  | cons kf rest ih =>
    intro σ d h hd hN hS hl
    obtain ⟨k, f⟩ := kf
    have hf : f < σ.seqs.length := hl (k, f) (by simp)
    simp only [dppExtend]
    split
    · split
      · rename_i σ1 d1 hset
        obtain ⟨a, b, _⟩ := dppSet_spec h hf hd 0 (Nat.zero_le _) (fun _ _ hlt => absurd hlt (Nat.not_lt_zero _)) hset
        have hS1 : ∀ x ∈ d1.map (·.2), S x ∨ N ≤ x := by
          unfold dppSet at hset
          simp only at hset
          split at hset
          · cases hset
            intro x hx
            rcases dictSet_values d k _ x hx with hx | hx
            · right; omega
            · exact hS x hx
          · cases hset
        obtain ⟨a', b', c'⟩ := ih a.inv b (Nat.le_trans hN a.len) hS1
          (fun kf hkf => Nat.lt_of_lt_of_le (hl kf (by simp [hkf])) a.len)
        exact ⟨(a.weaken (fun _ hx _ => absurd hx (fun hf => hf))).trans a', b', c'⟩
      · exact ⟨Keeps.refl h _, hd, hS⟩
    · rename_i mine hget
      have hmine := dictGet_mem hget
      have hml : mine < σ.seqs.length := hd mine hmine
      have a := extendSeq_keeps h hml hf w
      have b : DictOK (extendSeq σ mine f w) d := fun x hx => Nat.lt_of_lt_of_le (hd x hx) a.len
      obtain ⟨a', b', c'⟩ := ih a.inv b (Nat.le_trans hN a.len) hS
        (fun kf hkf => Nat.lt_of_lt_of_le (hl kf (by simp [hkf])) a.len)
      exact ⟨(a.weaken (fun x hx _ => by subst hx; exact hS _ hmine)).trans a', b', c'⟩

/-- `T.extend(U)` / `T += U` (also when it raises part-way): `TInv` is kept and ONLY the sequences `T` itself
    holds can change — every other live sequence, in particular every sequence of the donor `U` and of
    the tractogram `T` was derived from, keeps its contents; what `T` holds afterwards is what it held
    before plus NEW sequences -/
theorem textend_spec {τ : TState} (h : TInv τ) {T U : Nat} (hT : T < τ.tracts.length) (hU : U < τ.tracts.length)
    (w : Nat) :
    TInv (textend τ T U w).1 ∧
    Keeps (fun x => x ∈ (τ.tractAt T).members) τ.st (textend τ T U w).1.st ∧
    (textend τ T U w).1.tracts.length = τ.tracts.length ∧
    (∀ X, X ≠ T → (textend τ T U w).1.tractAt X = τ.tractAt X) ∧
    (∀ m ∈ ((textend τ T U w).1.tractAt T).members, m ∈ (τ.tractAt T).members ∨ τ.st.seqs.length ≤ m) := by
  have hmT := h.live _ (tractAt_mem hT)
  have hmU := h.live _ (tractAt_mem hU)
  have hsl : (τ.tractAt T).sl < τ.st.seqs.length := hmT _ (by simp [Tract.members])
  have hul : (τ.tractAt U).sl < τ.st.seqs.length := hmU _ (by simp [Tract.members])
  have k1 := extendSeq_keeps h.inv hsl hul w
  have k1' : Keeps (fun x => x ∈ (τ.tractAt T).members) τ.st (extendSeq τ.st (τ.tractAt T).sl (τ.tractAt U).sl w) :=
    k1.weaken (fun x hx _ => by subst hx; simp [Tract.members])
  have hsame : ∀ m ∈ (τ.tractAt T).members, m ∈ (τ.tractAt T).members ∨ τ.st.seqs.length ≤ m := fun m hm => Or.inl hm
  unfold textend
  simp only
  split
  · refine ⟨TInv.of_keeps h k1, k1', rfl, fun _ _ => rfl, hsame⟩
  · have hd : DictOK (extendSeq τ.st (τ.tractAt T).sl (τ.tractAt U).sl w) (τ.tractAt T).dpp := fun x hx =>
      Nat.lt_of_lt_of_le (hmT x (by simp only [Tract.members, List.mem_cons]; exact Or.inr hx)) k1.len
    have hlU : ∀ kf ∈ (τ.tractAt U).dpp, kf.2 < (extendSeq τ.st (τ.tractAt T).sl (τ.tractAt U).sl w).seqs.length :=
      fun kf hkf => Nat.lt_of_lt_of_le
        (hmU _ (by simp only [Tract.members, List.mem_cons, List.mem_map]; exact Or.inr ⟨kf, hkf, rfl⟩)) k1.len
    obtain ⟨a, b, c⟩ := dppExtend_spec ((τ.tractAt T).nRows + (τ.tractAt U).nRows) w τ.st.seqs.length
      (fun x => x ∈ (τ.tractAt T).members) (τ.tractAt U).dpp k1.inv hd k1.len
      (fun x hx => Or.inl (by simp only [Tract.members, List.mem_cons]; exact Or.inr hx)) hlU
    have hk : Keeps (fun x => x ∈ (τ.tractAt T).members) τ.st
        (dppExtend ((τ.tractAt T).nRows + (τ.tractAt U).nRows) w
          (extendSeq τ.st (τ.tractAt T).sl (τ.tractAt U).sl w) (τ.tractAt T).dpp (τ.tractAt U).dpp).1 :=
      k1'.trans (a.weaken (fun x hx hlt => by
        rcases hx with hx | hx
        · exact hx
        · have := k1.len
          obtain ⟨_, a2, _, _⟩ := extendSeq_spec h.inv hsl hul w
          omega))
    refine ⟨tinv_set h hk _ _ ?_, hk, by simp, ?_, ?_⟩
    · intro m hm
      simp only [Tract.members, List.mem_cons] at hm
      rcases hm with hm | hm
      · subst hm; exact Nat.lt_of_lt_of_le hsl hk.len
      · exact b m hm
    · intro X hX
      simp only [TState.tractAt, List.getD, List.getElem?_set]
      rw [if_neg (fun h => hX h.symm)]
    · intro m hm
      dsimp only at hm
      rw [tractAt_set_self _ _ _ hT] at hm
      simp only [Tract.members, List.mem_cons] at hm
      rcases hm with hm | hm
      · subst hm; left; simp [Tract.members]
      · exact c m hm
end Nb.C15
