import NibabelModel.Model.C04
/-! Lemmas/C04 — helper lemmas for Props/C04 (core Lean only: the ring/field identities are closed by
    `grind`'s commutative-ring solver, no Mathlib needed). -/
namespace Nb.C04.L
open Lean.Grind Nb.C04

/-! ### generic field algebra -/
section field
variable {α : Type} [Field α]

theorem quat2mat_orthogonal (q : Quat α) (h : q.norm2 ≠ 0) :
    (quat2mat q).mul (quat2mat q).transpose = M33.one := by
  simp only [Quat.norm2] at h
  simp only [quat2mat, Quat.norm2, M33.mul, M33.transpose, M33.one, M33.mk.injEq]
  refine ⟨?_, ?_, ?_, ?_, ?_, ?_, ?_, ?_, ?_⟩ <;> grind

theorem quat2mat_orthogonal' (q : Quat α) (h : q.norm2 ≠ 0) :
    (quat2mat q).transpose.mul (quat2mat q) = M33.one := by
  simp only [Quat.norm2] at h
  simp only [quat2mat, Quat.norm2, M33.mul, M33.transpose, M33.one, M33.mk.injEq]
  refine ⟨?_, ?_, ?_, ?_, ?_, ?_, ?_, ?_, ?_⟩ <;> grind

theorem quat2mat_det (q : Quat α) (h : q.norm2 ≠ 0) : (quat2mat q).det = 1 := by
  simp only [Quat.norm2] at h
  simp only [quat2mat, Quat.norm2, M33.det]
  grind

theorem quat2mat_neg (q : Quat α) : quat2mat q.neg = quat2mat q := by
  simp only [quat2mat, Quat.norm2, Quat.neg, M33.mk.injEq]
  refine ⟨?_, ?_, ?_, ?_, ?_, ?_, ?_, ?_, ?_⟩ <;> grind

/-- scaling a quaternion by `c` with `c² = 1` does not change the rotation -/
theorem quat2mat_smul (q : Quat α) (c : α) (hc : c * c = 1) :
    quat2mat ⟨c * q.w, c * q.x, c * q.y, c * q.z⟩ = quat2mat q := by
  have hn : (c * q.w) * (c * q.w) + (c * q.x) * (c * q.x) + (c * q.y) * (c * q.y) + (c * q.z) * (c * q.z)
      = q.w * q.w + q.x * q.x + q.y * q.y + q.z * q.z := by grind
  simp only [quat2mat, Quat.norm2, M33.mk.injEq, hn]
  refine ⟨?_, ?_, ?_, ?_, ?_, ?_, ?_, ?_, ?_⟩ <;> grind

/-! matrices with orthonormal columns -/

theorem colNorm2_scaleCols (R : M33 α) (d : V3 α) (hR : R.transpose.mul R = M33.one) :
    (R.scaleCols d).colNorm2 = ⟨d.x * d.x, d.y * d.y, d.z * d.z⟩ := by
  simp only [M33.mul, M33.transpose, M33.one, M33.mk.injEq] at hR
  simp only [M33.colNorm2, M33.scaleCols, V3.mk.injEq]
  refine ⟨?_, ?_, ?_⟩ <;> grind

theorem divCols_scaleCols (R : M33 α) (z : V3 α) (s : α) (hx : z.x ≠ 0) (hy : z.y ≠ 0) (hz : z.z ≠ 0) :
    (R.scaleCols ⟨z.x, z.y, s * z.z⟩).divCols z = R.scaleCols ⟨1, 1, s⟩ := by
  simp only [M33.scaleCols, M33.divCols, M33.mk.injEq]
  refine ⟨?_, ?_, ?_, ?_, ?_, ?_, ?_, ?_, ?_⟩ <;> grind

theorem det_scaleCols_last (R : M33 α) (s : α) : (R.scaleCols ⟨1, 1, s⟩).det = s * R.det := by
  simp only [M33.scaleCols, M33.det]; grind

theorem scaleCols_one (R : M33 α) : R.scaleCols ⟨1, 1, 1⟩ = R := by
  cases R; simp only [M33.scaleCols, M33.mk.injEq]
  refine ⟨?_, ?_, ?_, ?_, ?_, ?_, ?_, ?_, ?_⟩ <;> grind

theorem negLastCol_scaleCols_neg (R : M33 α) : (R.scaleCols ⟨1, 1, -1⟩).negLastCol = R := by
  cases R; simp only [M33.scaleCols, M33.negLastCol, M33.mk.injEq]
  refine ⟨?_, ?_, ?_, ?_, ?_, ?_, ?_, ?_, ?_⟩ <;> grind

variable [IsCharP α 0]

theorem K_identity (q : Quat α) (h : q.norm2 = 1) :
    kMatrix (quat2mat q) =
      ⟨(4 * q.x * q.x - 1) / 3,
       4 * q.y * q.x / 3, (4 * q.y * q.y - 1) / 3,
       4 * q.z * q.x / 3, 4 * q.z * q.y / 3, (4 * q.z * q.z - 1) / 3,
       4 * q.w * q.x / 3, 4 * q.w * q.y / 3, 4 * q.w * q.z / 3, (4 * q.w * q.w - 1) / 3⟩ := by
  simp only [Quat.norm2] at h
  simp only [kMatrix, quat2mat, Quat.norm2, K4.mk.injEq]
  refine ⟨?_, ?_, ?_, ?_, ?_, ?_, ?_, ?_, ?_, ?_⟩ <;> grind

theorem K_eigen (q : Quat α) (h : q.norm2 = 1) :
    (kMatrix (quat2mat q)).mulVec q.toV4 = q.toV4 := by
  rw [K_identity q h]
  simp only [Quat.norm2] at h
  simp only [K4.mulVec, Quat.toV4, V4.mk.injEq]
  refine ⟨?_, ?_, ?_, ?_⟩ <;> grind

theorem K_orthogonal_complement (q : Quat α) (h : q.norm2 = 1) (v : V4 α)
    (hv : q.x * v.v0 + q.y * v.v1 + q.z * v.v2 + q.w * v.v3 = 0) :
    (kMatrix (quat2mat q)).mulVec v = ⟨-v.v0 / 3, -v.v1 / 3, -v.v2 / 3, -v.v3 / 3⟩ := by
  rw [K_identity q h]
  simp only [K4.mulVec, V4.mk.injEq]
  refine ⟨?_, ?_, ?_, ?_⟩ <;> grind

theorem K_top_eigenvector (q : Quat α) (h : q.norm2 = 1) (v : V4 α)
    (hv : (kMatrix (quat2mat q)).mulVec v = v) :
    v = ⟨(q.x * v.v0 + q.y * v.v1 + q.z * v.v2 + q.w * v.v3) * q.x,
         (q.x * v.v0 + q.y * v.v1 + q.z * v.v2 + q.w * v.v3) * q.y,
         (q.x * v.v0 + q.y * v.v1 + q.z * v.v2 + q.w * v.v3) * q.z,
         (q.x * v.v0 + q.y * v.v1 + q.z * v.v2 + q.w * v.v3) * q.w⟩ := by
  rw [K_identity q h] at hv
  simp only [K4.mulVec] at hv
  have h0 : _ = v.v0 := congrArg V4.v0 hv
  have h1 : _ = v.v1 := congrArg V4.v1 hv
  have h2 : _ = v.v2 := congrArg V4.v2 hv
  have h3 : _ = v.v3 := congrArg V4.v3 hv
  cases v with
  | mk a b c d =>
    simp only [V4.mk.injEq]
    simp only at h0 h1 h2 h3
    refine ⟨?_, ?_, ?_, ?_⟩ <;> grind

/-- for a unit eigenvector `v = c·q` the factor satisfies `c² = 1` -/
theorem K_top_eigenvector_factor (q : Quat α) (h : q.norm2 = 1) (v : V4 α)
    (hv : (kMatrix (quat2mat q)).mulVec v = v)
    (hu : v.v0 * v.v0 + v.v1 * v.v1 + v.v2 * v.v2 + v.v3 * v.v3 = 1) :
    (q.x * v.v0 + q.y * v.v1 + q.z * v.v2 + q.w * v.v3)
      * (q.x * v.v0 + q.y * v.v1 + q.z * v.v2 + q.w * v.v3) = 1 := by
  have hv' := K_top_eigenvector q h v hv
  simp only [Quat.norm2] at h
  cases v with
  | mk a b c d =>
    simp only [V4.mk.injEq] at hv'
    simp only at hu
    grind

end field

/-! ### `Rat`: decisions, contracts of the external routines, flows -/

theorem v3_map_id (f : Rat → Rat) (hf : ∀ x, f x = x) (v : V3 Rat) : v.map f = v := by
  cases v; simp only [V3.map, hf]

theorem m33_map_id (f : Rat → Rat) (hf : ∀ x, f x = x) (m : M33 Rat) : m.map f = m := by
  cases m; simp only [M33.map, hf]

theorem aff_map_id (f : Rat → Rat) (hf : ∀ x, f x = x) (a : Aff Rat) : a.map f = a := by
  cases a; simp only [Aff.map, v3_map_id f hf, m33_map_id f hf]

theorem absR_nonneg_eq {x : Rat} (h : 0 ≤ x) : absR x = x := by
  unfold absR; grind

theorem absR_nonneg (x : Rat) : 0 ≤ absR x := by
  unfold absR; grind

/-- contract of `eigh` used by `mat2quat` on a rotation matrix: the returned vector is a unit
    eigenvector for the eigenvalue 1 (the largest eigenvalue of `K` of a rotation) -/
def EigContract (topEig : K4 Rat → V4 Rat) (q : Quat Rat) : Prop :=
  let v := topEig (kMatrix (quat2mat q))
  (kMatrix (quat2mat q)).mulVec v = v ∧ v.v0 * v.v0 + v.v1 * v.v1 + v.v2 * v.v2 + v.v3 * v.v3 = 1

/-- `mat2quat (quat2mat q)` is a unit quaternion with `w ≥ 0`, the same `w²`, and the same rotation —
    also when `q.w = 0` (rotation by 180 degrees) -/
theorem mat2quat_spec (topEig : K4 Rat → V4 Rat) (q : Quat Rat) (h : q.norm2 = 1)
    (he : EigContract topEig q) :
    let p := mat2quat topEig (quat2mat q)
    quat2mat p = quat2mat q ∧ p.norm2 = 1 ∧ 0 ≤ p.w ∧ p.w * p.w = q.w * q.w := by
  obtain ⟨hv, hu⟩ := he
  have hc := K_top_eigenvector_factor q h _ hv hu
  have hv' := K_top_eigenvector q h _ hv
  simp only [mat2quat]
  generalize topEig (kMatrix (quat2mat q)) = v at hv hu hc hv'
  generalize hcdef : q.x * v.v0 + q.y * v.v1 + q.z * v.v2 + q.w * v.v3 = c at hc hv'
  subst hv'
  simp only [V4.toQuat]
  simp only [Quat.norm2] at h
  by_cases hw : c * q.w < 0
  · simp only [hw, if_true, Quat.neg]
    have e : (⟨-(c * q.w), -(c * q.x), -(c * q.y), -(c * q.z)⟩ : Quat Rat)
        = ⟨(-c) * q.w, (-c) * q.x, (-c) * q.y, (-c) * q.z⟩ := by
      simp only [Quat.mk.injEq]; refine ⟨?_, ?_, ?_, ?_⟩ <;> grind
    rw [e]
    refine ⟨quat2mat_smul q (-c) (by grind), ?_, ?_, ?_⟩
    · simp only [Quat.norm2]; grind
    · grind
    · grind
  · simp only [hw, if_false]
    refine ⟨quat2mat_smul q c hc, ?_, ?_, ?_⟩
    · simp only [Quat.norm2]; grind
    · grind
    · grind

/-- `fillpositive` gives back a stored unit quaternion with `w ≥ 0` from its (b, c, d), provided `w`
    is either exactly 0 or not below the threshold (`w² ≥ |thr|`) -/
theorem fillpositive_unit (sqrt : Rat → Rat) (hsqrt : ∀ x, 0 ≤ x → sqrt (x * x) = x) (thr : Rat)
    (p : Quat Rat) (hp : p.norm2 = 1) (hw : 0 ≤ p.w) (hthr : p.w = 0 ∨ absR thr ≤ p.w * p.w) :
    fillpositive sqrt thr ⟨p.x, p.y, p.z⟩ = .ok p := by
  simp only [Quat.norm2] at hp
  have hw2 : 1 - (p.x * p.x + p.y * p.y + p.z * p.z) = p.w * p.w := by grind
  have hnn : (0 : Rat) ≤ p.w * p.w := by
    have := Rat.mul_nonneg hw hw; exact this
  simp only [fillpositive, hw2, absR_nonneg_eq hnn]
  by_cases hlt : p.w * p.w < absR thr
  · simp only [hlt, if_true]
    have : p.w = 0 := by grind
    cases p; simp only at this; subst this; rfl
  · simp only [hlt, if_false]
    have : ¬ (p.w * p.w < 0) := by grind
    simp only [this, if_false, hsqrt p.w hw]

/-- contracts of the external routines used by `set_qform` / `get_qform` in exact arithmetic -/
structure ExactExt (E : Ext) : Prop where
  rnd : ∀ x, E.rnd x = x
  sqrt : ∀ x, 0 ≤ x → E.sqrt (x * x) = x
  polar : ∀ R : M33 Rat, R.mul R.transpose = M33.one → E.polar R = R

/-- the numeric core of `set_qform` on `R(q)·diag(z₁, z₂, s·z₃)`, `s = ±1`: qfac is `s`, the zooms are
    `z`, the quaternion is `mat2quat (R(q))` -/
theorem qformParams_rot (E : Ext) (hE : ExactExt E) (q : Quat Rat) (hq : q.norm2 = 1)
    (he : EigContract E.topEig q) (z : V3 Rat) (hx : 0 < z.x) (hy : 0 < z.y) (hz : 0 < z.z) (s : Rat) (hs : s = 1 ∨ s = -1) :
    qformParams E ((quat2mat q).scaleCols ⟨z.x, z.y, s * z.z⟩) =
      (s, z, ⟨(mat2quat E.topEig (quat2mat q)).x, (mat2quat E.topEig (quat2mat q)).y,
              (mat2quat E.topEig (quat2mat q)).z⟩) := by
  have hn : q.norm2 ≠ 0 := by rw [hq]; decide
  have hcol := colNorm2_scaleCols (quat2mat q) ⟨z.x, z.y, s * z.z⟩ (quat2mat_orthogonal' q hn)
  have hss : s * z.z * (s * z.z) = z.z * z.z := by rcases hs with h | h <;> subst h <;> grind
  have hzooms : ((quat2mat q).scaleCols ⟨z.x, z.y, s * z.z⟩).colNorm2.map E.sqrt = z := by
    rw [hcol]
    simp only [V3.map, hss, hE.sqrt z.x (by grind), hE.sqrt z.y (by grind), hE.sqrt z.z (by grind)]
  have hdiv := divCols_scaleCols (quat2mat q) z s (by grind) (by grind) (by grind)
  have hdet : ((quat2mat q).scaleCols ⟨1, 1, s⟩).det = s := by
    rw [det_scaleCols_last, quat2mat_det q hn]; grind
  have hpol := hE.polar (quat2mat q) (quat2mat_orthogonal q hn)
  have hnorm : (mat2quat E.topEig (quat2mat q)).normalize E.sqrt = mat2quat E.topEig (quat2mat q) := by
    obtain ⟨_, hpn, _, _⟩ := mat2quat_spec E.topEig q hq he
    generalize mat2quat E.topEig (quat2mat q) = p at hpn
    have h1 : E.sqrt p.norm2 = 1 := by
      rw [hpn]; have := hE.sqrt 1 (by decide); simpa using this
    cases p
    simp only [Quat.normalize, h1, Quat.mk.injEq]
    refine ⟨?_, ?_, ?_, ?_⟩ <;> grind
  unfold qformParams
  simp only [hzooms, hdiv, hdet]
  rcases hs with h | h <;> subst h
  · have : (1 : Rat) > 0 := by decide
    simp only [this, if_true, scaleCols_one, hpol, hnorm]
  · have : ¬ ((-1 : Rat) > 0) := by decide
    simp only [this, if_false, negLastCol_scaleCols_neg, hpol, hnorm]

/-- rotation + zoom (+ reflection) written with `set_qform` is what `get_qform` returns, in exact
    arithmetic, for every unit quaternion whose `w` is 0 (180 degrees) or not below the threshold -/
theorem qform_roundtrip (E : Ext) (hE : ExactExt E) (f : NFmt) (hf : f.floatEps ≤ 1)
    (q : Quat Rat) (hq : q.norm2 = 1) (he : EigContract E.topEig q)
    (hthr : q.w = 0 ∨ absR f.quatThr ≤ q.w * q.w)
    (z : V3 Rat) (hx : 0 < z.x) (hy : 0 < z.y) (hz : 0 < z.z) (s : Rat) (hs : s = 1 ∨ s = -1)
    (t : V3 Rat) (h : NHdr) (code : Nat) :
    (h.setQform E (some ⟨(quat2mat q).scaleCols ⟨z.x, z.y, s * z.z⟩, t⟩) code).getQform E f
      = .ok ⟨(quat2mat q).scaleCols ⟨z.x, z.y, s * z.z⟩, t⟩ := by
  obtain ⟨hrot, hpn, hpw, hpw2⟩ := mat2quat_spec E.topEig q hq he
  have hparams := qformParams_rot E hE q hq he z hx hy hz s hs
  generalize mat2quat E.topEig (quat2mat q) = p at hrot hpn hpw hpw2 hparams
  have hthr' : p.w = 0 ∨ absR f.quatThr ≤ p.w * p.w := by
    rcases hthr with h0 | h1
    · left
      have : p.w * p.w = 0 := by rw [hpw2, h0]; grind
      grind
    · right; rw [hpw2]; exact h1
  have hfill := fillpositive_unit E.sqrt hE.sqrt f.quatThr p hpn hpw hthr'
  have hng : ¬ (p.norm2 < f.floatEps) := by rw [hpn]; grind
  have hpix : ¬ (z.x < 0 ∨ z.y < 0 ∨ z.z < 0) := by grind
  have hqf : ¬ (s ≠ 1 ∧ s ≠ -1) := by grind
  have hvox : (quat2mat q).scaleCols ⟨z.x, z.y, z.z * s⟩ = (quat2mat q).scaleCols ⟨z.x, z.y, s * z.z⟩ := by
    have : z.z * s = s * z.z := by grind
    rw [this]
  simp only [NHdr.setQform, NHdr.putQform, hparams, NHdr.getQform, v3_map_id E.rnd hE.rnd, hE.rnd, hfill, quat2matG, hng,
    if_false, hpix, hqf, hrot, hvox]

theorem qform_qfac (E : Ext) (hE : ExactExt E) (q : Quat Rat) (hq : q.norm2 = 1)
    (he : EigContract E.topEig q)
    (z : V3 Rat) (hx : 0 < z.x) (hy : 0 < z.y) (hz : 0 < z.z) (s : Rat) (hs : s = 1 ∨ s = -1)
    (t : V3 Rat) (h : NHdr) (code : Nat) :
    (h.setQform E (some ⟨(quat2mat q).scaleCols ⟨z.x, z.y, s * z.z⟩, t⟩) code).qfac = s := by
  have hparams := qformParams_rot E hE q hq he z hx hy hz s hs
  simp only [NHdr.setQform, NHdr.putQform, hparams, hE.rnd]

/-! ### MGH, SPM, fallback -/

theorem mgh_roundtrip {α : Type} [Field α] (a : Aff α) (shape δ : V3 α)
    (hx : δ.x ≠ 0) (hy : δ.y ≠ 0) (hz : δ.z ≠ 0) :
    mghGetAffine id (mghAffine2Header id a shape δ) shape = a := by
  cases a with
  | mk m t =>
    cases m; cases t
    simp only [mghGetAffine, mghAffine2Header, M33.map, V3.map, M33.transpose, M33.divCols, M33.scaleCols,
      M33.mulVec, Aff.apply, V3.add, V3.sub, id, Aff.mk.injEq, M33.mk.injEq, V3.mk.injEq]
    refine ⟨⟨?_, ?_, ?_, ?_, ?_, ?_, ?_, ?_, ?_⟩, ?_, ?_, ?_⟩ <;> grind

theorem mgh_roundtrip_rnd (E : Ext) (hr : ∀ x, E.rnd x = x) (a : Aff Rat) (shape δ : V3 Rat)
    (hx : δ.x ≠ 0) (hy : δ.y ≠ 0) (hz : δ.z ≠ 0) :
    mghGetAffine E.rnd (mghAffine2Header E.rnd a shape δ) shape = a := by
  have : E.rnd = id := funext hr
  rw [this]; exact mgh_roundtrip a shape δ hx hy hz

theorem mgh_image_roundtrip (E : Ext) (hr : ∀ x, E.rnd x = x) (dims : V3 Rat) (a : Aff Rat) (hdr : Option MHdr)
    (hδ : (E.sqrt a.m.colNorm2.x ≠ 0) ∧ (E.sqrt a.m.colNorm2.y ≠ 0) ∧ (E.sqrt a.m.colNorm2.z ≠ 0))
    (hfar : ¬ E.allclose a ((match hdr with | none => defaultMHdr dims | some h => { h with dims := dims }).getAffine E)) :
    (mghRoundtrip E dims a hdr).1 = a := by
  have hd : ∀ h0 : MHdr, h0.dims = dims → ¬ E.allclose a (h0.getAffine E) →
      ((h0.updateHeader E a).updateHeader E a).getAffine E = a := by
    intro h0 hdims hf
    have h1 : (h0.updateHeader E a).getAffine E = a := by
      unfold MHdr.updateHeader
      rw [if_neg hf]
      simp only [MHdr.getAffine, hdims]
      exact mgh_roundtrip_rnd E hr a dims (a.m.colNorm2.map E.sqrt) hδ.1 hδ.2.1 hδ.2.2
    have h1d : (h0.updateHeader E a).dims = dims := by
      simp only [MHdr.updateHeader]; split <;> simp only [hdims]
    generalize h0.updateHeader E a = g at h1 h1d
    simp only [MHdr.updateHeader]
    split
    · exact h1
    · simp only [MHdr.getAffine, h1d]
      exact mgh_roundtrip_rnd E hr a dims (a.m.colNorm2.map E.sqrt) hδ.1 hδ.2.1 hδ.2.2
  cases hdr with
  | none => exact hd (defaultMHdr dims) rfl hfar
  | some h => exact hd { h with dims := dims } rfl hfar

theorem spm_shift_inverse {α : Type} [CommRing α] (a : Aff α) :
    (a.mulShift from111).mulShift to111 = a ∧ (a.mulShift to111).mulShift from111 = a ∧ a.flipX.flipX = a := by
  cases a with
  | mk m t =>
    cases m; cases t
    simp only [Aff.mulShift, from111, to111, M33.mulVec, V3.add, Aff.flipX, Aff.mk.injEq, M33.mk.injEq,
      V3.mk.injEq, true_and]
    refine ⟨⟨?_, ?_, ?_⟩, ⟨?_, ?_, ?_⟩, ⟨?_, ?_, ?_⟩, ?_⟩ <;> grind

theorem spm_mat_roundtrip {α : Type} [CommRing α] (a hdrAff : Aff α) (xFlip : Bool) :
    spmReadMat xFlip .both (spmWriteMat xFlip a) hdrAff = a ∧
    spmReadMat xFlip .mOnly (spmWriteMat xFlip a) hdrAff = a := by
  cases a with
  | mk m t =>
    cases m; cases t
    cases xFlip <;>
    · simp only [spmReadMat, spmWriteMat, Aff.mulShift, from111, to111, M33.mulVec, V3.add, Aff.flipX,
        Aff.mk.injEq, M33.mk.injEq, V3.mk.injEq, Bool.false_eq_true, if_false, if_true]
      refine ⟨⟨?_, ?_, ?_, ?_⟩, ?_⟩ <;> grind

/-- writer with `default_x_flip = fw`, reader with `fr`: the 'mat' variable never sees either flag; the 'M'
    variable comes back unchanged when the two agree and with its first row negated when they differ -/
theorem spm_mat_roundtrip_flips {α : Type} [CommRing α] (a hdrAff : Aff α) (fw fr : Bool) :
    spmReadMat fr .both (spmWriteMat fw a) hdrAff = a ∧
    spmReadMat fr .matOnly (spmWriteMat fw a) hdrAff = a ∧
    spmReadMat fr .mat3d (spmWriteMat fw a) hdrAff = a ∧
    spmReadMat fr .mOnly (spmWriteMat fw a) hdrAff = (if fw = fr then a else a.flipX) ∧
    spmReadMat fr .none (spmWriteMat fw a) hdrAff = hdrAff := by
  cases a with
  | mk m t =>
    cases m; cases t
    cases fw <;> cases fr <;>
    · simp only [spmReadMat, spmWriteMat, Aff.mulShift, from111, to111, M33.mulVec, V3.add, Aff.flipX,
        Aff.mk.injEq, M33.mk.injEq, V3.mk.injEq, Bool.false_eq_true, if_false, if_true, Bool.true_eq_false,
        and_true, true_and]
      refine ⟨?_, ?_, ?_, ?_⟩ <;> (try refine ⟨?_, ?_, ?_⟩) <;> (try refine ⟨⟨?_, ?_, ?_⟩, ?_, ?_, ?_⟩) <;> grind

theorem spm_image_roundtrip (E : Ext) (fl : Flips) (shape : List Nat) (a : Aff Rat) (hdr : Option AHdr)
    (mode : MatMode) (hm : mode ≠ .none) (hf : mode = .mOnly → fl.save = fl.load) :
    (analyzeRoundtrip E .spm fl shape a hdr mode).affine = a := by
  have h := fun x => spm_mat_roundtrip_flips a x fl.save fl.load
  cases mode with
  | none => exact absurd rfl hm
  | both => simp only [analyzeRoundtrip, analyzeRoundtripFrom]; exact (h _).1
  | matOnly => simp only [analyzeRoundtrip, analyzeRoundtripFrom]; exact (h _).2.1
  | mat3d => simp only [analyzeRoundtrip, analyzeRoundtripFrom]; exact (h _).2.2.1
  | mOnly => simp only [analyzeRoundtrip, analyzeRoundtripFrom]; rw [(h _).2.2.2.1, if_pos (hf rfl)]

theorem spm_image_roundtrip_M_mismatch (E : Ext) (fl : Flips) (shape : List Nat) (a : Aff Rat) (hdr : Option AHdr)
    (hne : fl.save ≠ fl.load) :
    (analyzeRoundtrip E .spm fl shape a hdr .mOnly).affine = a.flipX := by
  simp only [analyzeRoundtrip, analyzeRoundtripFrom]
  rw [(spm_mat_roundtrip_flips a _ fl.save fl.load).2.2.2.1, if_neg hne]

theorem fallback_affine_centre {α : Type} [Field α] (shape zooms : V3 α) (flip : Bool) :
    (shapeZoomAffine3 shape zooms flip).apply ⟨(shape.x - 1) / 2, (shape.y - 1) / 2, (shape.z - 1) / 2⟩
      = ⟨0, 0, 0⟩ := by
  cases flip <;>
  · simp only [shapeZoomAffine3, Aff.apply, M33.mulVec, M33.diag, V3.add, V3.hmul, V3.neg, V3.mk.injEq,
      Bool.false_eq_true, if_false, if_true]
    refine ⟨?_, ?_, ?_⟩ <;> grind

theorem fallback_affine (n1 n2 n3 : Nat) (rest : List Nat) (z : V3 Rat) (flip : Bool) :
    shapeZoomAffine (n1 :: n2 :: n3 :: rest) z flip =
      ⟨⟨(if flip then -z.x else z.x), 0, 0, 0, z.y, 0, 0, 0, z.z⟩,
       ⟨-(if flip then -z.x else z.x) * (((n1 : Rat) - 1) / 2), -z.y * (((n2 : Rat) - 1) / 2),
        -z.z * (((n3 : Rat) - 1) / 2)⟩⟩ := by
  cases flip <;>
  · simp only [shapeZoomAffine, shapeZoomAffine3, natsToV3, List.length_cons, M33.diag, V3.hmul, V3.neg,
      Aff.mk.injEq, M33.mk.injEq, V3.mk.injEq, Bool.false_eq_true, if_false, if_true]
    refine ⟨?_, ?_, ?_, ?_⟩ <;> grind

/-! ### NIfTI save / load flow -/

/-- the header carries the image affine in its sform with code 2 and has qform code 0 -/
def Good (E : Ext) (a : Aff Rat) (h : NHdr) : Prop :=
  h.sformCode = 2 ∧ h.srow = a.map E.rnd ∧ h.qformCode = 0

theorem good_affine2header (E : Ext) (a : Aff Rat) (h : NHdr) : Good E a (h.affine2header E a) :=
  ⟨rfl, rfl, rfl⟩

theorem updateHeader_good (E : Ext) (f : NFmt) (a : Aff Rat) (h : NHdr) (hg : Good E a h) :
    ∃ h', h.updateHeader E f a = .ok h' ∧ Good E a h' := by
  have hb : h.bestAffine E f = .ok h.getSform := by
    simp only [NHdr.bestAffine, hg.1]; rfl
  simp only [NHdr.updateHeader, hb]
  split
  · exact ⟨h, rfl, hg⟩
  · exact ⟨_, rfl, good_affine2header E a h⟩

theorem good_observed (E : Ext) (f : NFmt) (a : Aff Rat) (h : NHdr) (hg : Good E a h) :
    h.bestAffine E f = .ok (a.map E.rnd) ∧ h.sformCoded = (some (a.map E.rnd), 2) ∧
    h.qformCoded E f = .ok (none, 0) := by
  obtain ⟨h1, h2, h3⟩ := hg
  refine ⟨?_, ?_, ?_⟩
  · simp only [NHdr.bestAffine, h1, NHdr.getSform, h2]; rfl
  · simp only [NHdr.sformCoded, h1, NHdr.getSform, h2]; rfl
  · simp only [NHdr.qformCoded, h3, if_true]

/-- the loader's code check leaves such a header alone as long as code 2 ('aligned') is in the table -/
theorem good_checkFix (E : Ext) (f : NFmt) (h2 : f.validCodes.contains 2 = true) (a : Aff Rat) (h : NHdr)
    (hg : Good E a h) : Good E a (h.checkFix f) := by
  obtain ⟨g1, g2, g3⟩ := hg
  refine ⟨?_, g2, ?_⟩
  · simp only [NHdr.checkFix, g1, h2, if_true]
  · simp only [NHdr.checkFix, g3]; split <;> rfl

theorem fixCode_idem (l : List Nat) (c : Nat) :
    (if l.contains (if l.contains c then c else 0) then (if l.contains c then c else 0) else 0)
      = (if l.contains c then c else 0) := by
  by_cases h : l.contains c = true
  · simp only [h, if_true]
  · simp only [h, Bool.false_eq_true, if_false]; split <;> rfl

theorem checkFix_idem (f : NFmt) (h : NHdr) : (h.checkFix f).checkFix f = h.checkFix f := by
  by_cases hs : f.validCodes.contains h.sformCode = true <;> by_cases hq : f.validCodes.contains h.qformCode = true <;>
    simp only [NHdr.checkFix, hs, hq, if_true, if_false, Bool.false_eq_true, ite_self]

theorem roundtrip_of_saved_good (E : Ext) (f : NFmt) (h2 : f.validCodes.contains 2 = true) (shape : List Nat)
    (a : Aff Rat) (hdr : Option NHdr)
    (h : NHdr) (hs : niftiSavedHeader E f shape a hdr = .ok h) (hg : Good E a h) :
    niftiRoundtrip E f shape a hdr = .ok ⟨a.map E.rnd, (some (a.map E.rnd), 2), (none, 0)⟩ := by
  obtain ⟨o1, o2, o3⟩ := good_observed E f a _ (good_checkFix E f h2 a h hg)
  simp only [niftiRoundtrip, hs, bind, Except.bind, o1, o2, o3, pure, Except.pure]

theorem nifti_roundtrip_no_header (E : Ext) (f : NFmt) (h2 : f.validCodes.contains 2 = true) (shape : List Nat)
    (a : Aff Rat) :
    niftiRoundtrip E f shape a none = .ok ⟨a.map E.rnd, (some (a.map E.rnd), 2), (none, 0)⟩ := by
  have hb : (defaultNHdr shape).bestAffine E f = .ok (defaultNHdr shape).baseAffine := by
    simp only [NHdr.bestAffine, defaultNHdr]; rfl
  have h1 : ∃ h1, (defaultNHdr shape).updateHeader E f a = .ok h1 := by
    simp only [NHdr.updateHeader, hb]; split <;> exact ⟨_, rfl⟩
  obtain ⟨h1, e1⟩ := h1
  obtain ⟨h3, e3, g3⟩ := updateHeader_good E f a _ (good_affine2header E a h1)
  refine roundtrip_of_saved_good E f h2 shape a none h3 ?_ g3
  simp only [niftiSavedHeader, e1, bind, Except.bind, Option.isNone_none, if_true, e3]

theorem nifti_roundtrip_header_not_close (E : Ext) (f : NFmt) (h2 : f.validCodes.contains 2 = true)
    (shape : List Nat) (a : Aff Rat) (h : NHdr)
    (b : Aff Rat) (hb : (({ h with shape := shape } : NHdr).checkFix f).bestAffine E f = .ok b)
    (hfar : E.allclose a b = false) :
    niftiRoundtrip E f shape a (some h) = .ok ⟨a.map E.rnd, (some (a.map E.rnd), 2), (none, 0)⟩ := by
  have e1 : (({ h with shape := shape } : NHdr).checkFix f).updateHeader E f a
      = .ok ((({ h with shape := shape } : NHdr).checkFix f).affine2header E a) := by
    simp only [NHdr.updateHeader, hb, hfar, Bool.false_eq_true, if_false]
  obtain ⟨h3, e3, g3⟩ := updateHeader_good E f a _ (good_affine2header E a (({ h with shape := shape } : NHdr).checkFix f))
  refine roundtrip_of_saved_good E f h2 shape a (some h) h3 ?_ g3
  simp only [niftiSavedHeader, e1, bind, Except.bind, Option.isNone_some, Bool.false_eq_true, if_false, e3]

theorem nifti_roundtrip_header_close (E : Ext) (f : NFmt) (shape : List Nat) (a : Aff Rat)
    (h : NHdr) (b : Aff Rat) (hb : (({ h with shape := shape } : NHdr).checkFix f).bestAffine E f = .ok b)
    (hclose : E.allclose a b = true) :
    niftiSavedHeader E f shape a (some h) = .ok (({ h with shape := shape } : NHdr).checkFix f) ∧
    (∀ o, niftiRoundtrip E f shape a (some h) = .ok o →
      o.affine = b ∧ o.sform.2 = (({ h with shape := shape } : NHdr).checkFix f).sformCode) := by
  have e1 : (({ h with shape := shape } : NHdr).checkFix f).updateHeader E f a
      = .ok (({ h with shape := shape } : NHdr).checkFix f) := by
    simp only [NHdr.updateHeader, hb, hclose, if_true]
  have hs : niftiSavedHeader E f shape a (some h) = .ok (({ h with shape := shape } : NHdr).checkFix f) := by
    simp only [niftiSavedHeader, e1, bind, Except.bind, Option.isNone_some, Bool.false_eq_true, if_false]
  refine ⟨hs, ?_⟩
  intro o ho
  simp only [niftiRoundtrip, hs, bind, Except.bind, checkFix_idem, hb] at ho
  cases hq : (({ h with shape := shape } : NHdr).checkFix f).qformCoded E f with
  | error e => simp only [hq] at ho; cases ho
  | ok q =>
    simp only [hq, pure, Except.pure, Except.ok.injEq] at ho
    rw [← ho]
    refine ⟨rfl, ?_⟩
    simp only [NHdr.sformCoded]
    split
    · rename_i h0; exact h0.symm
    · rfl

/-! ### Analyze -/

/-- Analyze and SPM-without-`.mat`: when the constructor rewrites the header (affine not `allclose` to the header's
    own affine under the flag in force at construction) the saved zooms are the rounded column norms — whatever
    the flag is at save time — and the loaded affine is the loading header's fallback of those zooms. -/
theorem analyze_roundtrip_zooms (E : Ext) (k : AKind) (fl : Flips) (n1 n2 n3 : Nat) (rest : List Nat) (a : Aff Rat)
    (hdr : Option AHdr) (mode : MatMode) (hk : k = .analyze ∨ mode = .none)
    (hfar : ¬ E.allclose a ((match hdr with
        | none => defaultAHdr (n1 :: n2 :: n3 :: rest)
        | some h => { h with shape := n1 :: n2 :: n3 :: rest }).bestAffine k fl.init)) :
    analyzeRoundtrip E k fl (n1 :: n2 :: n3 :: rest) a hdr mode
      = ⟨(⟨n1 :: n2 :: n3 :: rest, (a.m.colNorm2.map E.sqrt).map E.rnd,
            (match hdr with | none => ⟨0, 0, 0⟩ | some h => h.origin)⟩ : AHdr).bestAffine k fl.load,
         (a.m.colNorm2.map E.sqrt).map E.rnd⟩ := by
  have key : ∀ h0 : AHdr, h0.shape = n1 :: n2 :: n3 :: rest → ¬ E.allclose a (h0.bestAffine k fl.init) →
      (h0.updateHeader E k fl.init a).updateHeader E k fl.save a
        = ⟨n1 :: n2 :: n3 :: rest, (a.m.colNorm2.map E.sqrt).map E.rnd, h0.origin⟩ := by
    intro h0 hsh hf
    have p1 : ∀ g : AHdr, g.shape = n1 :: n2 :: n3 :: rest →
        g.affine2header E a = ⟨n1 :: n2 :: n3 :: rest, (a.m.colNorm2.map E.sqrt).map E.rnd, g.origin⟩ := by
      intro g hg
      cases g with
      | mk gs gp go =>
        simp only at hg
        simp only [AHdr.affine2header, hg, List.length_cons]
        have c0 : 0 < rest.length + 1 + 1 + 1 := by omega
        have c1 : 1 < rest.length + 1 + 1 + 1 := by omega
        have c2 : 2 < rest.length + 1 + 1 + 1 := by omega
        simp only [c0, c1, c2, if_true]
    have e1 : h0.updateHeader E k fl.init a = h0.affine2header E a := by
      unfold AHdr.updateHeader; rw [if_neg hf]
    rw [e1, p1 h0 hsh]
    simp only [AHdr.updateHeader]
    split
    · rfl
    · exact p1 _ rfl
  have fin : ∀ h0 : AHdr, h0.shape = n1 :: n2 :: n3 :: rest → ¬ E.allclose a (h0.bestAffine k fl.init) →
      analyzeRoundtripFrom E k fl a h0 mode
      = ⟨(⟨n1 :: n2 :: n3 :: rest, (a.m.colNorm2.map E.sqrt).map E.rnd, h0.origin⟩ : AHdr).bestAffine k fl.load,
         (a.m.colNorm2.map E.sqrt).map E.rnd⟩ := by
    intro h0 hsh hf
    have k1 := key h0 hsh hf
    simp only [analyzeRoundtripFrom, k1]
    rcases hk with hk | hk
    · subst hk; rfl
    · subst hk; cases k <;> rfl
  cases hdr with
  | none => exact fin (defaultAHdr (n1 :: n2 :: n3 :: rest)) rfl hfar
  | some h => exact fin { h with shape := n1 :: n2 :: n3 :: rest } rfl hfar

end Nb.C04.L
