import NibabelModel.Lemmas.C06_Optimize
/-! Lemmas/C06_Segments — `slicers2segments` reads exactly the selected sub-array (stage B). -/
namespace Nb.C06
open Nb Nb.PySlice
attribute [local simp] rangeInts_length rangeInts_zero

theorem flatMap_congr' {α β} {l : List α} {f g : α → List β} (h : ∀ a ∈ l, f a = g a) :
    l.flatMap f = l.flatMap g := by
  induction l with
  | nil => rfl
  | cons a l ih =>
    rw [List.flatMap_cons, List.flatMap_cons, h a (by simp), ih (fun b hb => h b (by simp [hb]))]

/-! ### addresses of segments -/

theorem addrs_shift (o d : Int) (len : Nat) :
    (⟨o + d, len⟩ : Segment).addrs = (⟨o, len⟩ : Segment).addrs.map (· + d) := by
  unfold Segment.addrs
  apply List.ext_getElem (by simp)
  intro k h1 h2
  simp only [List.getElem_map, rangeInts_getElem]
  omega

theorem flatMap_addrs_shift (segs : List Segment) (d : Int) :
    (segs.map (fun s => ({ s with offset := s.offset + d } : Segment))).flatMap Segment.addrs
      = (segs.flatMap Segment.addrs).map (· + d) := by
  rw [List.flatMap_map, List.map_flatMap]
  apply flatMap_congr'
  intro s _
  exact addrs_shift s.offset d s.length

theorem rangeInts_unit_append (x : Int) (m k : Nat) :
    rangeInts x 1 (m + k) = rangeInts x 1 m ++ rangeInts (x + m) 1 k := by
  apply List.ext_getElem (by simp)
  intro i h1 h2
  rw [List.getElem_append]
  split
  · simp only [rangeInts_getElem]
  · rename_i h
    simp only [rangeInts_length] at h
    simp only [rangeInts_getElem, rangeInts_length]
    omega

/-- a run of `L` consecutive blocks of `S` bytes is one block of `S*L` bytes -/
theorem blocks_merge (x : Int) (S : Nat) : ∀ L : Nat,
    rangeInts x 1 (S * L) = (List.range L).flatMap (fun (k : Nat) => rangeInts (x + (S : Int) * (k : Int)) 1 S)
  | 0 => by simp
  | L + 1 => by
      rw [List.range_succ, List.flatMap_append, List.flatMap_singleton, ← blocks_merge x S L,
        Nat.mul_succ, rangeInts_unit_append]
      congr 2

/-! ### one axis of `slicers2segments` -/

theorem canon_toPy_valid {n : Nat} {r : ReadItem} (hc : r.Canon n) (hni : r.isInt = false) :
    r.toPy.Valid := by
  cases r with
  | int i => simp [ReadItem.isInt] at hni
  | full => exact pySliceNone_valid
  | slice a b c => show c ≠ 0; have := hc.1; omega
  | newaxis => exact absurd hc (by simp [ReadItem.Canon])

theorem selNat_eq_sel {n : Nat} {r : ReadItem} (hc : r.Canon n) (hni : r.isInt = false) :
    r.selNat n = r.toPy.sel n := by
  have hv := canon_toPy_valid hc hni
  cases r with
  | int i => simp [ReadItem.isInt] at hni
  | full => exact fillSlicer_range_toNat _ _ hv
  | slice a b c => exact fillSlicer_range_toNat _ _ hv
  | newaxis => exact absurd hc (by simp [ReadItem.Canon])

/-- the integers `range(start, stop, step)` of a valid filled slicer are non-negative -/
theorem fill_range_nonneg (s : PySlice) (n : Nat) (hv : s.Valid) :
    ∀ x ∈ (fillSlicer s n).range, 0 ≤ x ∧ x < n := by
  rw [fillSlicer_range s n hv]
  intro x hx
  obtain ⟨k, hk, rfl⟩ := List.getElem_of_mem hx
  rw [rangeInts_getElem]
  exact rangeInts_mem_bounds s n hv k (by simpa using hk)

/-- effect of one loop iteration on the addresses read: each selected position `i` contributes a
    copy of everything read so far, shifted by `stride * i` -/
theorem segStep_addrs (r : ReadItem) (n stride : Nat) (allFull : Bool) (segs : List Segment)
    (hc : r.Canon n) (hinv : allFull = true → ∃ o, segs = [⟨o, stride⟩]) :
    (segStep r n stride allFull segs).flatMap Segment.addrs
      = (r.selNat n).flatMap (fun (i : Nat) =>
          (segs.flatMap Segment.addrs).map (· + (stride : Int) * (i : Int))) := by
  cases hr : r.isInt with
  | true =>
    cases r with
    | int i =>
      obtain ⟨hi0, hi1⟩ : 0 ≤ i ∧ i < n := hc
      simp only [segStep, ReadItem.selNat, List.flatMap_singleton]
      rw [flatMap_addrs_shift]
      congr 2
      funext x
      rw [Int.toNat_of_nonneg hi0]
    | _ => simp [ReadItem.isInt] at hr
  | false =>
    have hv := canon_toPy_valid hc hr
    have hsel : r.selNat n = (fillSlicer r.toPy n).range.map Int.toNat := by
      cases r with
      | int i => simp [ReadItem.isInt] at hr
      | full => rfl
      | slice a b c => rfl
      | newaxis => exact absurd hc (by simp [ReadItem.Canon])
    have hstep : segStep r n stride allFull segs =
        if allFull = true ∧ (fillSlicer r.toPy n).step = 1 then
          segs.map (fun s => ⟨s.offset + stride * (fillSlicer r.toPy n).start,
            s.length * fullSlicerLen (fillSlicer r.toPy n)⟩)
        else (fillSlicer r.toPy n).range.flatMap
          (fun i => segs.map (fun s => { s with offset := s.offset + stride * i })) := by
      cases r with
      | int i => simp [ReadItem.isInt] at hr
      | full => rfl
      | slice a b c => rfl
      | newaxis => exact absurd hc (by simp [ReadItem.Canon])
    rw [hstep, hsel, List.flatMap_map]
    have hnn := fill_range_nonneg r.toPy n hv
    split
    · rename_i hm
      obtain ⟨o, rfl⟩ := hinv hm.1
      have hL := fullSlicerLen_eq_rangeLen (fillSlicer r.toPy n) (by rw [hm.2]; decide)
      have hrange : (fillSlicer r.toPy n).range = rangeInts (fillSlicer r.toPy n).start 1
          (rangeLen (fillSlicer r.toPy n).start ((fillSlicer r.toPy n).stop.getD (-1)) 1) := by
        unfold Filled.range; rw [hm.2]
      rw [hm.2] at hL
      simp only [List.map_cons, List.map_nil, List.flatMap_cons, List.flatMap_nil, List.append_nil]
      rw [hrange] at hnn ⊢
      rw [hL]
      generalize rangeLen (fillSlicer r.toPy n).start ((fillSlicer r.toPy n).stop.getD (-1)) 1 = L at *
      generalize (fillSlicer r.toPy n).start = a at *
      unfold Segment.addrs
      simp only []
      rw [blocks_merge]
      rw [show rangeInts a 1 L = (List.range L).map (fun (k : Nat) => a + (k : Int) * 1) from rfl,
        List.flatMap_map]
      apply flatMap_congr'
      intro k hk
      have hk' : k < L := List.mem_range.mp hk
      have := hnn (a + (k : Int) * 1) (by
        have : a + (k : Int) * 1 = (rangeInts a 1 L)[k]'(by simpa using hk') := by
          rw [rangeInts_getElem]
        rw [this]; exact List.getElem_mem _)
      apply List.ext_getElem (by simp)
      intro j h1 h2
      simp only [List.getElem_map, rangeInts_getElem]
      rw [Int.toNat_of_nonneg this.1]
      simp only [Int.mul_one, Int.mul_add]
      omega
    · rw [List.flatMap_assoc]
      apply flatMap_congr'
      intro x hx
      have := hnn x hx
      rw [flatMap_addrs_shift, Int.toNat_of_nonneg this.1]

/-! ### the whole loop -/

theorem selNat_nil_of_isEmptyFor {n : Nat} {r : ReadItem} (hc : r.Canon n)
    (he : r.isEmptyFor n = true) : r.selNat n = [] := by
  have hni : r.isInt = false := by
    cases r <;> first | rfl | simp [ReadItem.isEmptyFor] at he
  have hv := canon_toPy_valid hc hni
  have h0 : fullSlicerLen (fillSlicer r.toPy n) = 0 := by
    cases r with
    | int i => simp [ReadItem.isInt] at hni
    | full => simpa [ReadItem.isEmptyFor] using he
    | slice a b c => simpa [ReadItem.isEmptyFor] using he
    | newaxis => exact absurd hc (by simp [ReadItem.Canon])
  rw [selNat_eq_sel hc hni]
  rw [fullSlicerLen_fill' _ _ hv] at h0
  exact List.length_eq_zero_iff.mp h0

theorem fill_of_isFullFor {n : Nat} {r : ReadItem} (hf : r.isFullFor n = true) :
    r.isInt = false ∧ fillSlicer r.toPy n = ⟨0, some (n : Int), 1⟩ := by
  cases r with
  | int i => simp [ReadItem.isFullFor] at hf
  | full => exact ⟨rfl, by simpa [ReadItem.isFullFor] using hf⟩
  | slice a b c => exact ⟨rfl, by simpa [ReadItem.isFullFor] using hf⟩
  | newaxis => simp [ReadItem.isFullFor] at hf

/-- while everything so far is full there is one segment, as long as the current stride -/
theorem segStep_inv (r : ReadItem) (n stride : Nat) (allFull : Bool) (segs : List Segment)
    (hinv : allFull = true → ∃ o, segs = [⟨o, stride⟩])
    (h : (allFull && r.isFullFor n) = true) :
    ∃ o, segStep r n stride allFull segs = [⟨o, stride * n⟩] := by
  rw [Bool.and_eq_true] at h
  obtain ⟨o, rfl⟩ := hinv h.1
  obtain ⟨hni, hf⟩ := fill_of_isFullFor h.2
  have hstep : segStep r n stride allFull [⟨o, stride⟩] =
      if allFull = true ∧ (fillSlicer r.toPy n).step = 1 then
        [(⟨o, stride⟩ : Segment)].map (fun s => ⟨s.offset + stride * (fillSlicer r.toPy n).start,
          s.length * fullSlicerLen (fillSlicer r.toPy n)⟩)
      else (fillSlicer r.toPy n).range.flatMap
        (fun i => [(⟨o, stride⟩ : Segment)].map (fun s => { s with offset := s.offset + stride * i })) := by
    cases r with
    | int i => simp [ReadItem.isInt] at hni
    | full => rfl
    | slice a b c => rfl
    | newaxis => simp [ReadItem.isFullFor] at h
  rw [hstep, hf, if_pos ⟨h.1, rfl⟩]
  have : fullSlicerLen ⟨0, some (n : Int), 1⟩ = n := by
    rw [fullSlicerLen_eq_rangeLen _ (by show (1 : Int) ≠ 0; decide)]
    simp only [Option.getD_some, rangeLen_one]
    omega
  rw [this]
  exact ⟨_, rfl⟩

theorem segLoop_cover (rs : List ReadItem) (shape : List Nat) (stride : Nat) (allFull : Bool)
    (segs : List Segment) (hc : ReadCanon rs shape)
    (hinv : allFull = true → ∃ o, segs = [⟨o, stride⟩]) :
    (segLoop rs shape stride allFull segs).flatMap Segment.addrs
      = (gatherF (readLists rs shape) shape).flatMap (fun (q : Nat) =>
          (segs.flatMap Segment.addrs).map (· + (stride : Int) * (q : Int))) := by
  fun_induction segLoop rs shape stride allFull segs with
  | case1 stride allFull shape segs =>
    simp [readLists, gatherF]
  | case2 rest shape stride allFull segs ih =>
    simp only [readLists]
    exact ih hc hinv
  | case3 stride allFull r rest segs hr =>
    simp [readLists, gatherF]
  | case4 r rest n shape stride allFull segs hr he =>
    have hcr : r.Canon n ∧ ReadCanon rest shape := by
      cases r <;> first | exact hc | exact absurd rfl hr
    have hl : readLists (r :: rest) (n :: shape) = r.selNat n :: readLists rest shape := by
      cases r <;> first | rfl | exact absurd rfl hr
    rw [hl, gatherF, selNat_nil_of_isEmptyFor hcr.1 he]
    simp
  | case5 r rest n shape stride allFull segs hr he ih =>
    have hcr : r.Canon n ∧ ReadCanon rest shape := by
      cases r <;> first | exact hc | exact absurd rfl hr
    have hl : readLists (r :: rest) (n :: shape) = r.selNat n :: readLists rest shape := by
      cases r <;> first | rfl | exact absurd rfl hr
    rw [ih hcr.2 (segStep_inv r n stride allFull segs hinv), hl, gatherF,
      segStep_addrs r n stride allFull segs hcr.1 hinv, List.flatMap_assoc]
    apply flatMap_congr'
    intro q _
    rw [List.map_flatMap, List.flatMap_map]
    apply flatMap_congr'
    intro i _
    rw [List.map_map]
    apply List.map_congr_left
    intro x _
    simp only [Function.comp, Int.natCast_mul, Int.natCast_add, Int.mul_add]
    rw [Int.mul_assoc]
    omega

/-- **B1** at lemma level -/
theorem segments_cover' (rs : List ReadItem) (shape : List Nat) (off isz : Nat)
    (hc : ReadCanon rs shape) :
    (slicers2segments rs shape off isz).flatMap Segment.addrs
      = (gatherF (readLists rs shape) shape).flatMap
          (fun (q : Nat) => rangeInts ((off : Int) + (isz : Int) * (q : Int)) 1 isz) := by
  unfold slicers2segments
  rw [segLoop_cover rs shape isz true _ hc (fun _ => ⟨_, rfl⟩)]
  apply flatMap_congr'
  intro q _
  simp only [List.flatMap_cons, List.flatMap_nil, List.append_nil]
  exact (addrs_shift (off : Int) _ isz).symm

/-! ### bounds and sizes of the gather -/

/-- per-axis position lists aligned with a shape, every position inside its axis -/
def ListsIn : List (List Nat) → List Nat → Prop
  | [], [] => True
  | l :: ls, n :: ns => (∀ i ∈ l, i < n) ∧ ListsIn ls ns
  | _, _ => False

theorem selNat_lt {n : Nat} {r : ReadItem} (hc : r.Canon n) : ∀ i ∈ r.selNat n, i < n := by
  cases hr : r.isInt with
  | true =>
    cases r with
    | int i =>
      obtain ⟨hi0, hi1⟩ : 0 ≤ i ∧ i < n := hc
      intro j hj
      simp only [ReadItem.selNat, List.mem_singleton] at hj
      omega
    | _ => simp [ReadItem.isInt] at hr
  | false =>
    rw [selNat_eq_sel hc hr]
    exact sel_lt _ _ (canon_toPy_valid hc hr)

theorem readLists_in : ∀ (rs : List ReadItem) (shape : List Nat), ReadCanon rs shape →
    ListsIn (readLists rs shape) shape
  | [], [], _ => trivial
  | [], _ :: _, h => h.elim
  | .newaxis :: rest, shape, h => by
      simp only [readLists]; exact readLists_in rest shape h
  | .int _ :: _, [], h => h.elim
  | .full :: _, [], h => h.elim
  | .slice _ _ _ :: _, [], h => h.elim
  | .int i :: rest, n :: shape, h => ⟨selNat_lt h.1, readLists_in rest shape h.2⟩
  | .full :: rest, n :: shape, h => ⟨selNat_lt h.1, readLists_in rest shape h.2⟩
  | .slice a b c :: rest, n :: shape, h => ⟨selNat_lt h.1, readLists_in rest shape h.2⟩

theorem gatherF_lt : ∀ (Ls : List (List Nat)) (ns : List Nat), ListsIn Ls ns →
    ∀ q ∈ gatherF Ls ns, q < ns.prod
  | [], [], _ => by simp [gatherF]
  | [], _ :: _, h => h.elim
  | _ :: _, [], h => h.elim
  | l :: ls, n :: ns, h => by
      intro q hq
      simp only [gatherF, List.mem_flatMap, List.mem_map] at hq
      obtain ⟨r, hr, i, hi, rfl⟩ := hq
      have h1 := h.1 i hi
      have h2 := gatherF_lt ls ns h.2 r hr
      rw [List.prod_cons]
      have : n * (r + 1) ≤ n * ns.prod := Nat.mul_le_mul_left n h2
      rw [Nat.mul_succ] at this
      omega

theorem length_flatMap_const {α β} (f : α → List β) (m : Nat) :
    ∀ xs : List α, (∀ x ∈ xs, (f x).length = m) → (xs.flatMap f).length = m * xs.length
  | [], _ => by simp
  | x :: xs, h => by
      rw [List.flatMap_cons, List.length_append, h x (by simp),
        length_flatMap_const f m xs (fun y hy => h y (by simp [hy])), List.length_cons, Nat.mul_succ]
      omega

theorem gatherF_length : ∀ (Ls : List (List Nat)) (ns : List Nat), ListsIn Ls ns →
    (gatherF Ls ns).length = (Ls.map List.length).prod
  | [], [], _ => by simp [gatherF]
  | [], _ :: _, h => h.elim
  | _ :: _, [], h => h.elim
  | l :: ls, n :: ns, h => by
      rw [gatherF, length_flatMap_const _ l.length _ (by intro x _; simp), gatherF_length ls ns h.2]
      simp

theorem readShape_prod : ∀ (rs : List ReadItem) (shape : List Nat), ReadCanon rs shape →
    (readShape rs shape).prod = ((readLists rs shape).map List.length).prod
  | [], [], _ => rfl
  | [], _ :: _, h => h.elim
  | .newaxis :: rest, shape, h => by
      rw [readShape_newaxis]
      simp only [readLists, List.prod_cons, Nat.one_mul]; exact readShape_prod rest shape h
  | .int _ :: _, [], h => h.elim
  | .full :: _, [], h => h.elim
  | .slice _ _ _ :: _, [], h => h.elim
  | .int i :: rest, n :: shape, h => by
      rw [readShape_int]
      simp only [readLists, List.map_cons, List.prod_cons, ReadItem.selNat,
        List.length_singleton, Nat.one_mul]
      exact readShape_prod rest shape h.2
  | .full :: rest, n :: shape, h => by
      rw [readShape_full]
      simp only [readLists, List.map_cons, List.prod_cons]
      rw [readShape_prod rest shape h.2, selNat_eq_sel h.1 rfl, slice2len_spec' _ _ pySliceNone_valid]
      rfl
  | .slice a b c :: rest, n :: shape, h => by
      rw [readShape_slice]
      simp only [readLists, List.map_cons, List.prod_cons]
      rw [readShape_prod rest shape h.2, selNat_eq_sel h.1 rfl]
      have := slice2len_spec' _ n (canon_toPy_valid h.1 rfl)
      rw [← this]
      rfl

/-! ### B2: extent and total length -/

theorem mem_rangeInts (a c : Int) (L k : Nat) (hk : k < L) : a + (k : Int) * c ∈ rangeInts a c L := by
  unfold rangeInts
  exact List.mem_map.mpr ⟨k, List.mem_range.mpr hk, rfl⟩

theorem sum_length_flatMap_addrs (segs : List Segment) :
    (segs.flatMap Segment.addrs).length = (segs.map (·.length)).sum := by
  rw [List.length_flatMap]
  congr 1
  apply List.map_congr_left
  intro s _
  simp [Segment.addrs]

theorem segments_total_length' (rs : List ReadItem) (shape : List Nat) (off isz : Nat)
    (hc : ReadCanon rs shape) :
    ((slicers2segments rs shape off isz).map (·.length)).sum = isz * (readShape rs shape).prod := by
  rw [← sum_length_flatMap_addrs, segments_cover' rs shape off isz hc,
    length_flatMap_const _ isz _ (by intro x _; simp),
    gatherF_length _ _ (readLists_in rs shape hc), readShape_prod rs shape hc]

theorem segments_in_extent' (rs : List ReadItem) (shape : List Nat) (off isz : Nat)
    (hc : ReadCanon rs shape) :
    ∀ s ∈ slicers2segments rs shape off isz, s.length ≠ 0 →
      (off : Int) ≤ s.offset ∧ s.offset + s.length ≤ (off : Int) + (isz : Int) * (shape.prod : Nat) := by
  intro s hs hlen
  have hcov := segments_cover' rs shape off isz hc
  have hmem : ∀ x ∈ s.addrs, (off : Int) ≤ x ∧ x < (off : Int) + (isz : Int) * (shape.prod : Nat) := by
    intro x hx
    have hx' : x ∈ (slicers2segments rs shape off isz).flatMap Segment.addrs :=
      List.mem_flatMap.mpr ⟨s, hs, hx⟩
    rw [hcov] at hx'
    obtain ⟨q, hq, hxq⟩ := List.mem_flatMap.mp hx'
    have hlt := gatherF_lt _ _ (readLists_in rs shape hc) q hq
    obtain ⟨j, hj, rfl⟩ := List.getElem_of_mem hxq
    rw [rangeInts_getElem]
    have hj' : j < isz := by simpa using hj
    have h1 : (isz : Int) * ((q : Int) + 1) ≤ (isz : Int) * (shape.prod : Nat) :=
      Int.mul_le_mul_of_nonneg_left (by omega) (by omega)
    have h2 : 0 ≤ (isz : Int) * (q : Int) := Int.mul_nonneg (by omega) (by omega)
    rw [Int.mul_add] at h1
    omega
  have hfirst : s.offset ∈ s.addrs := by
    have := mem_rangeInts s.offset 1 s.length 0 (by omega)
    simpa [Segment.addrs] using this
  have hlast : s.offset + ((s.length - 1 : Nat) : Int) ∈ s.addrs := by
    have := mem_rangeInts s.offset 1 s.length (s.length - 1) (by omega)
    simpa [Segment.addrs] using this
  have a := hmem _ hfirst
  have b := hmem _ hlast
  have : ((s.length - 1 : Nat) : Int) = (s.length : Int) - 1 := by omega
  omega

/-! ### segment lengths are positive when the item size is -/

theorem segLoop_len_pos (rs : List ReadItem) (shape : List Nat) (stride : Nat) (allFull : Bool)
    (segs : List Segment) (hpos : ∀ s ∈ segs, 0 < s.length) :
    ∀ s ∈ segLoop rs shape stride allFull segs, 0 < s.length := by
  fun_induction segLoop rs shape stride allFull segs with
  | case1 => exact hpos
  | case2 rest shape stride allFull segs ih => exact ih hpos
  | case3 => exact hpos
  | case4 => intro s hs; simp at hs
  | case5 r rest n shape stride allFull segs hr he ih =>
    apply ih
    intro s hs
    cases r with
    | newaxis => exact absurd rfl hr
    | int i =>
      simp only [segStep, List.mem_map] at hs
      obtain ⟨t, ht, rfl⟩ := hs
      exact hpos t ht
    | full =>
      have he' : fullSlicerLen (fillSlicer ReadItem.full.toPy n) ≠ 0 := by
        simpa [ReadItem.isEmptyFor] using he
      simp only [segStep] at hs
      split at hs
      · simp only [List.mem_map] at hs
        obtain ⟨t, ht, rfl⟩ := hs
        exact Nat.mul_pos (hpos t ht) (by omega)
      · simp only [List.mem_flatMap, List.mem_map] at hs
        obtain ⟨_, _, t, ht, rfl⟩ := hs
        exact hpos t ht
    | slice a b c =>
      have he' : fullSlicerLen (fillSlicer (ReadItem.slice a b c).toPy n) ≠ 0 := by
        simpa [ReadItem.isEmptyFor] using he
      simp only [segStep] at hs
      split at hs
      · simp only [List.mem_map] at hs
        obtain ⟨t, ht, rfl⟩ := hs
        exact Nat.mul_pos (hpos t ht) (by omega)
      · simp only [List.mem_flatMap, List.mem_map] at hs
        obtain ⟨_, _, t, ht, rfl⟩ := hs
        exact hpos t ht

theorem segments_len_pos (rs : List ReadItem) (shape : List Nat) (off isz : Nat) (hisz : 0 < isz) :
    ∀ s ∈ slicers2segments rs shape off isz, 0 < s.length := by
  apply segLoop_len_pos
  intro s hs
  simp only [List.mem_singleton] at hs
  subst hs; exact hisz

/-- with a positive item size and a long enough file every segment is readable -/
theorem segments_readable (rs : List ReadItem) (shape : List Nat) (off isz flen : Nat)
    (hc : ReadCanon rs shape) (hisz : 0 < isz) (hlen : off + isz * shape.prod ≤ flen) :
    segmentsReadable flen (slicers2segments rs shape off isz) = true := by
  unfold segmentsReadable
  rw [List.all_eq_true]
  intro s hs
  have hp := segments_len_pos rs shape off isz hisz s hs
  have he := segments_in_extent' rs shape off isz hc s hs (by omega)
  have : ((off + isz * shape.prod : Nat) : Int) ≤ (flen : Int) := by omega
  simp only [Int.natCast_add, Int.natCast_mul] at this
  simp only [Bool.and_eq_true, decide_eq_true_eq]
  omega

end Nb.C06
