import NibabelModel.Lemmas.C08
/-! Lemmas/C08_Trk — the TRK reader on prefixes. -/
namespace Nb.C08

/-- reading at an offset inside the part after `pre` -/
theorem read_at (pre X : Bytes) (st : Bool) (pos d n : Nat) (hp : pos = pre.length + d) :
    (⟨pre ++ X, st⟩ : Src).read pos n =
      if st && decide (X.length < d + n) then .error .trunc else .ok ((X.drop d).take n) := by
  subst hp
  unfold Src.read
  have e1 : (pre ++ X).drop (pre.length + d) = X.drop d := by
    rw [← List.drop_drop, List.drop_left]
  have e2 : decide ((pre ++ X).length < pre.length + d + n) = decide (X.length < d + n) := by
    apply decide_eq_decide.mpr; simp only [List.length_append]; omega
  simp only [e1, e2]

theorem rdLE_mid (A F B : Bytes) : rdLE (A ++ F ++ B) A.length F.length = deLE F := by
  unfold rdLE
  rw [List.append_assoc, List.drop_left, List.take_left]

theorem rdLE_mid' (A F B : Bytes) (off w : Nat) (ho : off = A.length) (hw : w = F.length) :
    rdLE (A ++ F ++ B) off w = deLE F := by
  subst ho hw; exact rdLE_mid A F B

def rd4 : Bytes → Nat := fun h => rdLE h 0 4

theorem rd4_leN (n : Nat) (h : n < 2 ^ 31) : rd4 (leN 4 n) = n := by
  unfold rd4 rdLE
  have : ((leN 4 n).drop 0).take 4 = leN 4 n := by
    simp [List.take_of_length_le, leN_length]
  rw [this, deLE_leN]
  have : (2 : Nat) ^ 31 < 256 ^ 4 := by decide
  omega

structure RecWF (nsc npr : Nat) (r : TrkRec) : Prop where
  npts : r.npts < 2 ^ 31
  pts : r.pts.length = r.npts * ((3 + nsc) * 4)
  props : r.props.length = npr * 4

theorem encRec_length (r : TrkRec) : (encRec r).length = 4 + r.pts.length + r.props.length := by
  simp [encRec, leN_length]; omega

/-- **the record loop on a strict prefix of the records**: if the bytes after `pre` are the first `j`
    bytes of the encoding of `recs` (`j` < total) and the header count still expects all of `recs`,
    the loop of the repaired reader raises — whatever the fuel, the EOF behaviour of the source, and the
    streamlines already collected. -/
theorem trkLoop_prefix (nsc npr : Nat) (st : Bool) (cnt : Nat) :
    ∀ (recs : List TrkRec), (∀ r ∈ recs, RecWF nsc npr r) →
    ∀ (pre : Bytes) (j : Nat), j < (trkBody recs).length →
    ∀ (count fuel : Nat), count + recs.length = cnt → ∀ acc,
    ∃ e, trkLoop ⟨pre ++ (trkBody recs).take j, st⟩ rd4 ((3 + nsc) * 4) (npr * 4) cnt true
      fuel pre.length count acc = .error e := by
  intro recs
  induction recs with
  | nil => intro _ pre j hj; simp [trkBody] at hj
  | cons r rest ih =>
    intro hwf pre j hj count fuel hc acc
    have hr := hwf r (by simp)
    have hcount : count < cnt := by simp at hc; omega
    cases fuel with
    | zero => exact ⟨_, rfl⟩
    | succ fuel =>
      have hbody : trkBody (r :: rest) = encRec r ++ trkBody rest := by simp [trkBody]
      have henc : encRec r = leN 4 r.npts ++ r.pts ++ r.props := rfl
      have hel := encRec_length r
      unfold trkLoop
      rw [if_neg (by omega)]
      -- abbreviations
      generalize hX : (trkBody (r :: rest)).take j = X
      have hXl : X.length = j := by
        rw [← hX, List.length_take]; omega
      rw [read_at pre X st pre.length 0 4 (by omega)]
      by_cases h4 : j < 4
      · -- the 4-byte point count is cut
        cases st
        · simp only [Bool.false_and, Bool.false_eq_true, if_false, List.drop_zero]
          by_cases h0 : j = 0
          · have : X.take 4 = [] := by
              apply List.eq_nil_of_length_eq_zero; simp [hXl, h0]
            simp only [this, List.length_nil, if_true]
            rw [if_pos ⟨trivial, hcount⟩]; exact ⟨_, rfl⟩
          · have hl : (X.take 4).length = j := by simp [hXl]; omega
            rw [if_neg (by omega), if_pos (by omega)]; exact ⟨_, rfl⟩
        · simp only [Bool.true_and]
          rw [if_pos (by simp; omega)]; exact ⟨_, rfl⟩
      · -- the count is complete
        have hX4 : (X.drop 0).take 4 = leN 4 r.npts := by
          rw [← hX, hbody, henc, List.drop_zero, List.take_take]
          have : min 4 j = 4 := by omega
          rw [this, List.append_assoc, List.append_assoc, List.take_left' (leN_length 4 _)]
        rw [if_neg (by simp; omega)]
        simp only [hX4, leN_length]
        rw [if_neg (by decide), if_neg (by decide), rd4_leN _ hr.npts, if_neg (by have := hr.npts; omega)]
        rw [read_at pre X st (pre.length + 4) 4 _ rfl]
        by_cases ha : j < 4 + r.pts.length
        · -- the point rows are cut
          cases st
          · simp only [Bool.false_and, Bool.false_eq_true, if_false]
            rw [if_pos]; exact ⟨_, rfl⟩
            simp only [List.length_take, List.length_drop, hXl, ← hr.pts]; omega
          · simp only [Bool.true_and]
            rw [if_pos (by simp [hXl, ← hr.pts]; omega)]; exact ⟨_, rfl⟩
        · rw [if_neg (by simp [hXl, ← hr.pts]; omega)]
          have hXa : (X.drop 4).take (r.npts * ((3 + nsc) * 4)) = r.pts := by
            rw [← hr.pts, ← hX, hbody, henc, List.drop_take]
            have e1 : leN 4 r.npts ++ r.pts ++ r.props ++ trkBody rest =
                leN 4 r.npts ++ (r.pts ++ (r.props ++ trkBody rest)) := by simp [List.append_assoc]
            rw [e1, List.drop_left' (leN_length 4 _), List.take_take]
            have : min r.pts.length (j - 4) = r.pts.length := by omega
            rw [this, List.take_left]
          simp only [hXa]
          rw [if_neg (by rw [hr.pts]; omega)]
          rw [read_at pre X st (pre.length + 4 + r.npts * ((3 + nsc) * 4)) (4 + r.pts.length) _
            (by rw [hr.pts]; omega)]
          by_cases hb : j < 4 + r.pts.length + r.props.length
          · -- the properties are cut
            cases st
            · simp only [Bool.false_and, Bool.false_eq_true, if_false]
              rw [if_pos]; exact ⟨_, rfl⟩
              simp only [List.length_take, List.length_drop, hXl, ← hr.props]; omega
            · simp only [Bool.true_and]
              rw [if_pos (by simp [hXl, ← hr.props]; omega)]; exact ⟨_, rfl⟩
          · -- the record is complete: go on with the rest
            rw [if_neg (by simp [hXl, ← hr.props]; omega)]
            have hXb : (X.drop (4 + r.pts.length)).take (npr * 4) = r.props := by
              rw [← hr.props, ← hX, hbody, henc, List.drop_take]
              have e1 : leN 4 r.npts ++ r.pts ++ r.props ++ trkBody rest =
                  (leN 4 r.npts ++ r.pts) ++ (r.props ++ trkBody rest) := by simp [List.append_assoc]
              rw [e1, List.drop_left' (by simp [leN_length]), List.take_take]
              have : min r.props.length (j - (4 + r.pts.length)) = r.props.length := by omega
              rw [this, List.take_left]
            simp only [hXb]
            rw [if_neg (by rw [hr.props]; omega)]
            -- re-associate the source: pre' = pre ++ encRec r
            have hsrc : pre ++ X = (pre ++ encRec r) ++ (trkBody rest).take (j - (encRec r).length) := by
              rw [← hX, hbody, List.take_append, List.take_of_length_le (by omega), List.append_assoc]
            have hpos : pre.length + 4 + r.npts * ((3 + nsc) * 4) + npr * 4 = (pre ++ encRec r).length := by
              rw [List.length_append, hel, hr.pts, hr.props]; omega
            rw [hsrc, hpos]
            apply ih (fun r' hr' => hwf r' (by simp [hr'])) (pre ++ encRec r) (j - (encRec r).length)
            · rw [hbody, List.length_append] at hj; omega
            · simp at hc ⊢; omega

/-! ### the header -/

structure Trk.WF (t : Trk) : Prop where
  fa : t.fillA.length = 36
  fb : t.fillB.length = 200
  fc : t.fillC.length = 748
  nsc : t.nsc < 2 ^ 15
  npr : t.npr < 2 ^ 15
  cnt : t.recs.length < 2 ^ 31
  recs : ∀ r ∈ t.recs, RecWF t.nsc t.npr r

/-- the first 996 bytes of the header (everything before `hdr_size`) -/
def trkP (t : Trk) (c : Nat) : Bytes :=
  t.fillA ++ leN 2 t.nsc ++ t.fillB ++ leN 2 t.npr ++ t.fillC ++ leN 4 c ++ leN 4 2

theorem trkHeader_eq (t : Trk) (c : Nat) : trkHeader t c = trkP t c ++ [232, 3, 0, 0] := by
  simp [trkHeader, trkP, trkHdrSize, leN]

theorem trkP_length (t : Trk) (wf : t.WF) (c : Nat) : (trkP t c).length = 996 := by
  simp [trkP, leN_length, wf.fa, wf.fb, wf.fc]

theorem rdLE_right (A B : Bytes) (off w : Nat) (ho : off = A.length) :
    rdLE (A ++ B) off w = deLE (B.take w) := by
  subst ho; unfold rdLE; rw [List.drop_left]

theorem trkP_fields (t : Trk) (wf : t.WF) (c : Nat) (hc : c < 2 ^ 31) (X : Bytes) :
    rdLE (trkP t c ++ X) trkOffNsc 2 = t.nsc ∧ rdLE (trkP t c ++ X) trkOffNpr 2 = t.npr ∧
    rdLE (trkP t c ++ X) trkOffCount 4 = c ∧ rdLE (trkP t c ++ X) trkOffVersion 4 = 2 := by
  have h16 : (2 : Nat) ^ 15 < 256 ^ 2 := by decide
  have h32 : (2 : Nat) ^ 31 < 256 ^ 4 := by decide
  refine ⟨?_, ?_, ?_, ?_⟩
  · have : trkP t c ++ X = t.fillA ++ leN 2 t.nsc ++
        (t.fillB ++ leN 2 t.npr ++ t.fillC ++ leN 4 c ++ leN 4 2 ++ X) := by
      simp [trkP, List.append_assoc]
    rw [this, rdLE_mid' _ _ _ _ _ (by simp [trkOffNsc, wf.fa]) (by simp [leN_length]), deLE_leN]
    have := wf.nsc; omega
  · have : trkP t c ++ X = (t.fillA ++ leN 2 t.nsc ++ t.fillB) ++ leN 2 t.npr ++
        (t.fillC ++ leN 4 c ++ leN 4 2 ++ X) := by
      simp [trkP, List.append_assoc]
    rw [this, rdLE_mid' _ _ _ _ _ (by simp [trkOffNpr, wf.fa, wf.fb, leN_length]) (by simp [leN_length]),
      deLE_leN]
    have := wf.npr; omega
  · have : trkP t c ++ X = (t.fillA ++ leN 2 t.nsc ++ t.fillB ++ leN 2 t.npr ++ t.fillC) ++ leN 4 c ++
        (leN 4 2 ++ X) := by
      simp [trkP, List.append_assoc]
    rw [this, rdLE_mid' _ _ _ _ _ (by simp [trkOffCount, wf.fa, wf.fb, wf.fc, leN_length])
      (by simp [leN_length]), deLE_leN]
    omega
  · have : trkP t c ++ X = (t.fillA ++ leN 2 t.nsc ++ t.fillB ++ leN 2 t.npr ++ t.fillC ++ leN 4 c) ++
        leN 4 2 ++ X := by
      simp [trkP, List.append_assoc]
    rw [this, rdLE_mid' _ _ _ _ _ (by simp [trkOffVersion, wf.fa, wf.fb, wf.fc, leN_length])
      (by simp [leN_length]), deLE_leN]
    decide

theorem trkWrite_eq (t : Trk) :
    trkWrite t = trkP t t.recs.length ++ [232, 3, 0, 0] ++ trkBody t.recs := by
  rw [trkWrite, trkHeader_eq]

/-- header bytes obtained from a prefix of at least 998 bytes: everything before `hdr_size`, then
    2–4 bytes of `hdr_size` (the missing ones are zero anyway) -/
theorem trk_hb_long (t : Trk) (wf : t.WF) (m : Nat) (hm : 998 ≤ m) :
    ∃ X, ((trkWrite t).take m).take trkHdrSize = trkP t t.recs.length ++ X ∧
      (X = [232, 3] ∨ X = [232, 3, 0] ∨ X = [232, 3, 0, 0]) ∧ X.length = min m 1000 - 996 := by
  have hP := trkP_length t wf t.recs.length
  rw [List.take_take, trkWrite_eq, List.append_assoc, List.take_append, List.take_append, hP,
    List.take_of_length_le (by rw [hP]; simp [trkHdrSize]; omega)]
  have hcases : min trkHdrSize m - 996 = 2 ∨ min trkHdrSize m - 996 = 3 ∨ min trkHdrSize m - 996 = 4 := by
    simp only [trkHdrSize]; omega
  have hz : min trkHdrSize m - 996 - [232, 3, 0, 0].length = 0 := by
    simp only [trkHdrSize, List.length_cons, List.length_nil]; omega
  refine ⟨[232, 3, 0, 0].take (min trkHdrSize m - 996), ?_, ?_, ?_⟩
  · rw [hz]; simp
  · rcases hcases with h | h | h <;> rw [h] <;> simp
  · simp only [List.length_take, trkHdrSize, List.length_cons, List.length_nil]; omega

/-- **every strict prefix of a TRK file announcing n ≥ 1 streamlines raises** -/
theorem trkRead_prefix (t : Trk) (wf : t.WF) (h1 : 1 ≤ t.recs.length) (m : Nat) (st : Bool)
    (hm : m < (trkWrite t).length) : ∃ e, trkRead ⟨(trkWrite t).take m, st⟩ = .error e := by
  have hP := trkP_length t wf t.recs.length
  have hlen : (trkWrite t).length = 1000 + (trkBody t.recs).length := by
    rw [trkWrite_eq]; simp [hP]; omega
  unfold trkRead trkReadGen
  split
  · exact ⟨_, rfl⟩
  · rename_i hb hrd
    have hhb := read_ok hrd
    simp only [List.drop_zero] at hhb
    by_cases h998 : 998 ≤ m
    · -- the header parses: all fields as written
      obtain ⟨X, hX, hXc, hXl⟩ := trk_hb_long t wf m h998
      rw [hX] at hhb
      obtain ⟨f1, f2, f3, f4⟩ := trkP_fields t wf t.recs.length wf.cnt X
      have hle : rdLE hb trkOffHdrSize 4 = trkHdrSize := by
        rw [hhb, rdLE_right _ _ _ _ (by simp [trkOffHdrSize, hP])]
        rcases hXc with h | h | h <;> rw [h] <;> decide
      rw [hhb] at hle
      simp only [hhb, hle, not_true_eq_false, false_and, if_false, if_true, f1, f2, f3, f4]
      rw [if_neg (by decide), if_neg (by have := wf.nsc; have := wf.npr; have := wf.cnt; omega)]
      have hrd4 : (fun h => rdLE h 0 4) = rd4 := rfl
      rw [hrd4]
      by_cases h1000 : 1000 ≤ m
      · -- cut inside the records
        have hsrc : (trkWrite t).take m =
            (trkP t t.recs.length ++ [232, 3, 0, 0]) ++ (trkBody t.recs).take (m - 1000) := by
          rw [trkWrite_eq, List.take_append, List.take_of_length_le (by simp [hP]; omega)]
          simp [hP]
        have hpos : (trkP t t.recs.length ++ X).length = (trkP t t.recs.length ++ [232, 3, 0, 0]).length := by
          simp only [List.length_append, hXl, List.length_cons, List.length_nil]; omega
        rw [hpos, hsrc]
        exact trkLoop_prefix t.nsc t.npr st t.recs.length t.recs wf.recs _ (m - 1000) (by omega) 0 _
          (by simp) []
      · -- 998 or 999 bytes: the header parses, the records start at EOF
        have hst : st = false := by
          cases st
          · rfl
          · have : (⟨(trkWrite t).take m, true⟩ : Src).read 0 trkHdrSize = .error .trunc := by
              unfold Src.read
              rw [if_pos]
              simp only [Bool.true_and, decide_eq_true_eq, List.length_take, trkHdrSize]; omega
            rw [this] at hrd; cases hrd
        subst hst
        have hpos : (trkP t t.recs.length ++ X).length = m := by
          simp only [List.length_append, hXl, hP]; omega
        rw [hpos]
        have hbl : ((trkWrite t).take m).length = m := by
          rw [List.length_take]; omega
        rw [hbl]
        unfold trkLoop
        rw [if_neg (by omega)]
        simp only [Src.read, Bool.false_and, Bool.false_eq_true, if_false]
        have : (((trkWrite t).take m).drop m).take 4 = [] := by
          rw [List.drop_of_length_le (by omega)]; rfl
        simp only [this, List.length_nil, if_true]
        rw [if_pos ⟨trivial, by omega⟩]; exact ⟨_, rfl⟩
    · -- fewer than 998 bytes: `hdr_size` is neither 1000 nor byte-swapped 1000
      have hm' : m ≤ 997 := by omega
      have hfield : (hb.drop 996).take 4 = [] ∨ (hb.drop 996).take 4 = [232] := by
        rw [hhb, List.take_take]
        have : min trkHdrSize m = m := by simp [trkHdrSize]; omega
        rw [this, trkWrite_eq, List.append_assoc, List.take_append, hP]
        by_cases h997 : m = 997
        · right; subst h997
          rw [List.take_of_length_le (l := trkP t t.recs.length) (by omega), List.drop_left' hP]
          simp
        · left
          apply List.eq_nil_of_length_eq_zero
          simp only [List.length_take, List.length_drop, List.length_append, hP]; omega
      have : ¬ (rdLE hb trkOffHdrSize 4 = trkHdrSize) ∧ ¬ (rdBE hb trkOffHdrSize 4 = trkHdrSize) := by
        unfold rdLE rdBE trkOffHdrSize
        rcases hfield with h | h <;> rw [h] <;> decide
      rw [if_pos this]; exact ⟨_, rfl⟩

end Nb.C08
