import NibabelModel.Model.C16
import NibabelModel.Lemmas.C16_Digits
/-! Lemmas/C16_Names — `encode_value_in_name` / `decode_value_from_name` (core Lean only). -/
namespace Nb.C16

theorem dropWhile_replicate_zero (n : Nat) (l : List Nat) :
    (List.replicate n 0 ++ l).dropWhile (· == 0) = l.dropWhile (· == 0) := by
  induction n with
  | zero => simp
  | succ k ih => simp [List.replicate_succ, ih]

theorem rstripNul_append_zeros (x : List Nat) (n : Nat) :
    rstripNul (x ++ List.replicate n 0) = rstripNul x := by
  unfold rstripNul
  rw [List.reverse_append, List.reverse_replicate, dropWhile_replicate_zero]

theorem rstripNul_snoc (y : List Nat) (c : Nat) (hc : c ≠ 0) : rstripNul (y ++ [c]) = y ++ [c] := by
  unfold rstripNul
  rw [List.reverse_append]
  simp [hc]

theorem rstripNul_nil : rstripNul [] = [] := rfl

/-- a non-empty list whose last element is not NUL is unchanged by `rstrip('\x00')` -/
theorem rstripNul_of_last (x : List Nat) (hne : x ≠ []) (hl : x.getLast hne ≠ 0) : rstripNul x = x := by
  have := List.dropLast_concat_getLast hne
  rw [← this]
  exact rstripNul_snoc _ _ hl

theorem splitNul_nulfree (x : List Nat) (h : ∀ c ∈ x, c ≠ 0) : splitNul x = [x] := by
  induction x with
  | nil => rfl
  | cons c cs ih =>
    have hc : c ≠ 0 := h c (by simp)
    have := ih (fun d hd => h d (by simp [hd]))
    simp [splitNul, this, hc]

theorem splitNul_one_nul (x y : List Nat) (hx : ∀ c ∈ x, c ≠ 0) (hy : ∀ c ∈ y, c ≠ 0) :
    splitNul (x ++ 0 :: y) = [x, y] := by
  induction x with
  | nil => simp [splitNul, splitNul_nulfree y hy]
  | cons c cs ih =>
    have hc : c ≠ 0 := hx c (by simp)
    have := ih (fun d hd => hx d (by simp [hd]))
    simp [splitNul, this, hc]

theorem getLast_ne_zero_of_all (x : List Nat) (hne : x ≠ []) (h : ∀ c ∈ x, c ≠ 0) : x.getLast hne ≠ 0 :=
  h _ (List.getLast_mem hne)

end Nb.C16
