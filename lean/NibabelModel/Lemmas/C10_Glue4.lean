import NibabelModel.Lemmas.C10_Glue3
/-! Lemmas/C10_Glue4 — `writeCF` after `readCF` and `readCF` after `writeCF`. -/
namespace Nb.C10

theorem writtenSlots_nodup : writtenSlots.Nodup := by decide

theorem slot_n {L : Layout} {n : String} {k : Nat} {f : Field} (hk : slotCount L n k = true)
    (hf : findFs L.fields n = some f) : f.n = k := by
  simpa [slotCount, hf] using hk

theorem present_of_find {L : Layout} {n : String} {f : Field} (hf : findFs L.fields n = some f) :
    present L n = true := by simp [present, hf]

theorem list_len1 {α} [Inhabited α] (l : List α) (d : α) (h : l.length = 1) : [l.getD 0 d] = l := by
  match l, h with
  | [a], _ => rfl

theorem list_split4 (l : List Nat) (h : 4 ≤ l.length) :
    l.getD 0 0 :: ((l.drop 1).take 3 ++ l.drop 4) = l := by
  match l, h with
  | a :: b :: c :: d :: t, _ => simp

/-! ### writing back what was read changes nothing -/

theorem newRaw_readCF (c : ClsSpec) (L : Layout) (hc : Compat c L) (vals : List (List Nat))
    (hv : valsOk L.fields vals = true) (n : String) (hn : n ∈ writtenSlots) (f : Field)
    (hf : findFs L.fields n = some f) : newRaw L vals (readCF L vals) n = getRaw L vals n := by
  have hp := present_of_find hf
  have hlt := getRaw_mem_lt L vals n hv
  have int1 : (getRaw L vals n).length = 1 →
      [ofInt (fieldW L n) ((getInts L vals n).getD 0 0)] = getRaw L vals n := by
    intro hl
    match hr : getRaw L vals n, hl with
    | [v], _ =>
      simp only [getInts, hr, List.map_cons, List.map_nil, List.getD_cons_zero]
      rw [ofInt_toInt _ _ (hlt v (by simp [hr]))]
  simp only [writtenSlots, List.mem_cons, List.not_mem_nil, or_false] at hn
  rcases hn with rfl | rfl | rfl | rfl | rfl | rfl | rfl | rfl
  · have hl := getRaw_length L vals _ 1 hv hc.n_sz; rw [hp] at hl
    simpa [newRaw, readCF] using int1 hl
  · have hl := getRaw_length L vals _ 1 hv hc.n_bp; rw [hp] at hl
    simpa [newRaw, readCF] using int1 hl
  · have hl := getRaw_length L vals _ 8 hv hc.n_pix; rw [hp] at hl
    simpa [newRaw, readCF] using list_split4 _ (by simp at hl; omega)
  · have hl := getRaw_length L vals _ 1 hv hc.n_vox; rw [hp] at hl
    simpa [newRaw, readCF] using list_len1 _ 0 (by simpa using hl)
  · have hl := getRaw_length L vals _ 1 hv hc.n_qf; rw [hp] at hl
    simpa [newRaw, readCF] using int1 hl
  · have hl := getRaw_length L vals _ 1 hv hc.n_sf; rw [hp] at hl
    simpa [newRaw, readCF] using int1 hl
  · simp only [newRaw, readCF, getInts, List.map_map]
    simp only [String.reduceEq, if_false, if_true]
    conv => rhs; rw [← List.map_id (getRaw L vals "eol_check")]
    apply List.map_congr_left
    intro v hv'
    simp [ofInt_toInt _ _ (hlt v hv')]
  · have hl := getRaw_length L vals _ 1 hv hc.n_ver; rw [hp] at hl
    simpa [newRaw, readCF] using int1 hl

theorem writeCF_readCF (c : ClsSpec) (L : Layout) (hc : Compat c L) (vals : List (List Nat))
    (hv : valsOk L.fields vals = true) : writeCF L vals (readCF L vals) = vals :=
  setSlots_id L vals writtenSlots _ (fun n hn f hf => newRaw_readCF c L hc vals hv n hn f hf)

/-! ### what is written is a legal record -/

theorem newRaw_fits (c : ClsSpec) (L : Layout) (hc : Compat c L) (vals : List (List Nat))
    (hv : valsOk L.fields vals = true) (h : CF) (hh : CFFits L h) (n : String) (hn : n ∈ writtenSlots)
    (f : Field) (hf : findFs L.fields n = some f) : fitsField f (newRaw L vals h n) := by
  have hp := present_of_find hf
  have hw := fieldW_of_find hf
  have int1 : ∀ x : Int, f.n = 1 → fitsField f [ofInt (fieldW L n) x] := by
    intro x h1
    refine ⟨by simp [h1], ?_⟩
    intro y hy
    simp only [List.mem_singleton] at hy
    rw [hy, ← hw]; exact ofInt_lt _ _
  simp only [writtenSlots, List.mem_cons, List.not_mem_nil, or_false] at hn
  rcases hn with rfl | rfl | rfl | rfl | rfl | rfl | rfl | rfl
  · simpa [newRaw] using int1 h.sizeofHdr (slot_n hc.n_sz hf)
  · simpa [newRaw] using int1 h.bitpix (slot_n hc.n_bp hf)
  · have hl := getRaw_length L vals _ 8 hv hc.n_pix; rw [hp] at hl
    have hpl : h.pixdim.length = 3 := by rw [hh.pixl]; simp [pixLen, hp]
    simp only [newRaw, String.reduceEq, if_false, if_true]
    refine ⟨?_, ?_⟩
    · simp only [List.length_cons, List.length_append, List.length_drop, hl, hpl, slot_n hc.n_pix hf]
      simp
    · intro y hy
      rw [← hw]
      simp only [List.mem_cons, List.mem_append] at hy
      rcases hy with (rfl | hy) | hy
      · exact hh.qfac
      · exact hh.pix y hy
      · exact getRaw_mem_lt L vals _ hv y (List.mem_of_mem_drop hy)
  · simp only [newRaw, String.reduceEq, if_false, if_true]
    refine ⟨by simp [slot_n hc.n_vox hf], ?_⟩
    intro y hy
    simp only [List.mem_singleton] at hy
    rw [hy, ← hw]; exact hh.vox
  · simpa [newRaw] using int1 h.qform (slot_n hc.n_qf hf)
  · simpa [newRaw] using int1 h.sform (slot_n hc.n_sf hf)
  · simp only [newRaw, String.reduceEq, if_false, if_true]
    refine ⟨?_, ?_⟩
    · rw [List.length_map, hh.eoll, slot_n hc.n_eol hf]; simp [eolLen, hp]
    · intro y hy
      obtain ⟨x, _, rfl⟩ := List.mem_map.mp hy
      rw [← hw]; exact ofInt_lt _ _
  · simpa [newRaw] using int1 h.version (slot_n hc.n_ver hf)

theorem valsOk_writeCF (c : ClsSpec) (L : Layout) (hc : Compat c L) (vals : List (List Nat))
    (hv : valsOk L.fields vals = true) (h : CF) (hh : CFFits L h) :
    valsOk L.fields (writeCF L vals h) = true :=
  valsOk_setSlots L vals writtenSlots _ hv (fun n hn f hf => newRaw_fits c L hc vals hv h hh n hn f hf)

/-! ### reading after writing -/

theorem getRaw_writeCF (L : Layout) (vals : List (List Nat)) (hv : valsOk L.fields vals = true) (h : CF)
    (n : String) (hn : n ∈ writtenSlots) :
    getRaw L (writeCF L vals h) n = if present L n then newRaw L vals h n else [] := by
  unfold present
  cases hf : findFs L.fields n with
  | none => simp [getRaw, getRawFs_absent _ _ _ hf]
  | some f =>
    simp only [Option.isSome_some, if_true]
    exact getRaw_setSlots_in L vals writtenSlots _ n writtenSlots_nodup hn (valsOk_length hv) f hf

theorem getRaw_writeCF_ro (L : Layout) (vals : List (List Nat)) (h : CF) (n : String)
    (hn : n ∉ writtenSlots) : getRaw L (writeCF L vals h) n = getRaw L vals n :=
  getRaw_setSlots_notin L vals writtenSlots _ n hn

/-- a slot whose stored components are those already in the header keeps its items -/
theorem getRaw_writeCF_same (c : ClsSpec) (L : Layout) (hc : Compat c L) (vals : List (List Nat))
    (hv : valsOk L.fields vals = true) (h : CF) (n : String)
    (hs : n ∈ writtenSlots → slotView n h = slotView n (readCF L vals)) :
    getRaw L (writeCF L vals h) n = getRaw L vals n := by
  by_cases hn : n ∈ writtenSlots
  · rw [getRaw_writeCF L vals hv h n hn]
    unfold present
    cases hf : findFs L.fields n with
    | none => simp [getRaw, getRawFs_absent _ _ _ hf]
    | some f =>
      simp only [Option.isSome_some, if_true]
      rw [newRaw_congr L vals _ _ n (hs hn)]
      exact newRaw_readCF c L hc vals hv n hn f hf
  · exact getRaw_writeCF_ro L vals h n hn

end Nb.C10
