import NibabelModel.Model.C16
import NibabelModel.Lemmas.C16_Items
/-! Lemmas/C16_Lazy — the concatenated `ArraySequence` buffer cut by lengths equals per-item work (core Lean only). -/
namespace Nb.C16

theorem splitLens_flatten {α} (l : List (List α)) : splitLens (l.map List.length) l.flatten = l := by
  induction l with
  | nil => rfl
  | cons x xs ih =>
    simp only [List.map_cons, List.flatten_cons, splitLens]
    rw [take_append_len x _ _ rfl, drop_append_len x _ _ rfl, ih]

theorem ofLists_toLists {α} (l : List (List α)) : (ArrSeq.ofLists l).toLists = l :=
  splitLens_flatten l

theorem ofLists_mapRows_toLists {α β} (f : α → β) (l : List (List α)) :
    ((ArrSeq.ofLists l).mapRows f).toLists = l.map (fun x => x.map f) := by
  have := splitLens_flatten (l.map (fun x => x.map f))
  simp only [ArrSeq.toLists, ArrSeq.mapRows, ArrSeq.ofLists]
  rw [List.map_flatten]
  simpa [List.map_map, Function.comp_def] using this

theorem mapM_some_length {α β} (g : α → Option β) : ∀ (x : List α) (y : List β), x.mapM g = some y → y.length = x.length
  | [], y, h => by simp at h; subst h; rfl
  | a :: as, y, h => by
      rw [List.mapM_cons] at h
      cases ha : g a with
      | none => simp [ha] at h
      | some b =>
        cases has : as.mapM g with
        | none => simp [ha, has] at h
        | some bs =>
          simp [ha, has] at h
          subst h
          simp [mapM_some_length g as bs has]

theorem ofLists_mapRowsM_toLists {α β} (g : α → Option β) (l : List (List α)) :
    ((ArrSeq.ofLists l).mapRowsM g).map ArrSeq.toLists = l.mapM (fun x => x.mapM g) := by
  simp only [ArrSeq.mapRowsM, ArrSeq.ofLists, Option.map_map]
  induction l with
  | nil => rfl
  | cons x xs ih =>
    simp only [List.flatten_cons, List.map_cons, List.mapM_append, List.mapM_cons]
    cases hx : x.mapM g with
    | none => simp
    | some y =>
      have hlen : y.length = x.length := mapM_some_length g x y hx
      cases hxs : xs.flatten.mapM g with
      | none =>
        rw [hxs] at ih
        simp at ih
        simp [← ih]
      | some ys =>
        rw [hxs] at ih
        simp only [Option.map_some, Function.comp] at ih
        simp only [Option.bind_eq_bind, Option.bind_some, Option.pure_def, Option.map_some, Function.comp,
          ArrSeq.toLists, splitLens, ← ih]
        rw [← hlen, take_append_len y _ _ rfl, drop_append_len y _ _ rfl]

theorem lookup_map_of_mem {β} (g : Name × Nat × Nat → β) (S : List (Name × Nat × Nat))
    (hnd : (S.map (·.1)).Nodup) (s : Name × Nat × Nat) (hs : s ∈ S) :
    (S.map (fun s => (s.1, g s))).lookup s.1 = some (g s) := by
  have := lookup_of_mem_nodup (S.map (fun s => (s.1, g s))) (by simpa [List.map_map, Function.comp_def] using hnd)
    (s.1, g s) (List.mem_map_of_mem (f := fun s => (s.1, g s)) hs)
  simpa using this

/-! ### the name-table slices have distinct names (Python dict keys) -/

theorem dictSet_nodup {β} (d : List (Name × β)) (k : Name) (v : β) (h : (d.map (·.1)).Nodup) :
    ((dictSet d k v).map (·.1)).Nodup := by
  unfold dictSet
  split
  · have key : ∀ (f : Name × β → Name × β), (∀ e, (f e).1 = e.1) → (d.map f).map (·.1) = d.map (·.1) := by
      intro f hf
      rw [List.map_map]
      apply List.map_congr_left
      intro e _
      exact hf e
    rw [key]
    · exact h
    · intro e
      split
      · rename_i hek
        exact (by simpa using hek : e.1 = k).symm
      · rfl
  · rename_i hany
    rw [List.map_append, List.nodup_append]
    refine ⟨h, by simp, ?_⟩
    intro a ha b hb
    simp at hb; subst hb
    intro hab; subst hab
    apply hany
    rw [List.any_eq_true]
    obtain ⟨e, he, hea⟩ := List.mem_map.mp ha
    exact ⟨e, he, by simp [hea]⟩

theorem nameSlicesLoop_nodup : ∀ (fields : List (List Nat)) (cpt : Nat) (acc : List (Name × Nat × Nat))
    (res : List (Name × Nat × Nat) × Nat), nameSlicesLoop fields cpt acc = .ok res →
    (acc.map (·.1)).Nodup → (res.1.map (·.1)).Nodup
  | [], cpt, acc, res, h, hn => by
      simp only [nameSlicesLoop] at h
      injection h with h; subst h; exact hn
  | f :: fs, cpt, acc, res, h, hn => by
      simp only [nameSlicesLoop] at h
      split at h
      · cases h
      · split at h
        · exact nameSlicesLoop_nodup fs _ _ res h hn
        · exact nameSlicesLoop_nodup fs _ _ res h (dictSet_nodup _ _ _ hn)

theorem nameSlices_nodup (nb : Nat) (fields : List (List Nat)) (dflt : Name) (S : List (Name × Nat × Nat))
    (h : nameSlices nb fields dflt = .ok S) : (S.map (·.1)).Nodup := by
  unfold nameSlices at h
  split at h
  · injection h with h; subst h; simp
  · split at h
    · cases h
    · rename_i acc cpt hloop
      have hn := nameSlicesLoop_nodup fields 0 [] (acc, cpt) hloop (by simp)
      injection h with h; subst h
      split
      · exact dictSet_nodup _ _ _ hn
      · exact hn

end Nb.C16
