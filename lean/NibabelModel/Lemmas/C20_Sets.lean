import NibabelModel.Lemmas.C20_Lax
import NibabelModel.Lemmas.C20_Trunc
/-! Lemmas/C20_Sets — on the initially sorted list the set numbers identify the label keys. -/
namespace Nb.C20

theorem lexLe_of_append : ∀ (a b x y : List Int), a.length = b.length →
    lexLe (a ++ x) (b ++ y) = true → lexLe a b = true
  | [], _, _, _, _, _ => by simp [lexLe]
  | _ :: _, [], _, _, h, _ => by simp at h
  | p :: a, q :: b, x, y, h, hl => by
      have ih := lexLe_of_append a b x y (by simpa using h)
      simp only [List.cons_append, lexLe] at hl ⊢
      grind

/-- relation between two (set number, key) entries, the first occurring earlier -/
def SetRel (p q : Nat × List Int) : Prop := p.1 ≤ q.1 ∧ (p.1 = q.1 ↔ p.2 = q.2)

theorem setNosAux_spec (L : Nat) : ∀ (rest : List (List Int)) (cur : Nat) (prev : List Int),
    prev.length = L → (∀ k ∈ rest, k.length = L) → (∀ k ∈ rest, lexLe prev k = true) →
    rest.Pairwise (fun a b => lexLe a b = true) →
    (∀ p ∈ (setNosAux cur prev rest).zip rest, cur ≤ p.1 ∧ (p.1 = cur ↔ p.2 = prev)) ∧
    ((setNosAux cur prev rest).zip rest).Pairwise SetRel
  | [], _, _, _, _, _, _ => by simp [setNosAux]
  | k :: rest, cur, prev, hL, hlen, hle, hs => by
      rw [List.pairwise_cons] at hs
      have hk : k.length = L := hlen k (by simp)
      have ih := setNosAux_spec L rest (if k = prev then cur else cur + 1) k hk
        (fun x hx => hlen x (by simp [hx])) hs.1 hs.2
      simp only [setNosAux, List.zip_cons_cons, List.mem_cons, List.pairwise_cons]
      refine ⟨?_, ?_, ih.2⟩
      · rintro p (rfl | hp)
        · by_cases h : k = prev <;> simp [h]
        · have := ih.1 p hp
          by_cases h : k = prev
          · simp only [h, if_true] at this ⊢
            exact this
          · simp only [h, if_false] at this
            refine ⟨by omega, ?_⟩
            constructor
            · intro e; omega
            · intro e
              exfalso
              -- prev ≤ k ≤ p.2 = prev
              have h1 : lexLe prev k = true := hle k (by simp)
              have h2 : lexLe k p.2 = true := hs.1 p.2 (List.of_mem_zip hp).2
              rw [e] at h2
              exact h (lexLe_antisymm _ _ (by omega) h2 h1)
      · intro p hp
        have := ih.1 p hp
        unfold SetRel
        simp only
        refine ⟨this.1, ?_⟩
        constructor
        · intro e; exact (this.2.1 e.symm).symm
        · intro e; exact (this.2.2 e.symm).symm

/-- on a sorted key list (keys of one length) set numbers are non-decreasing and two positions share
    a set number iff they share the key -/
theorem setNos_spec (L : Nat) : ∀ (ks : List (List Int)), (∀ k ∈ ks, k.length = L) →
    ks.Pairwise (fun a b => lexLe a b = true) → ((setNos ks).zip ks).Pairwise SetRel
  | [], _, _ => by simp [setNos]
  | k :: rest, hlen, hs => by
      rw [List.pairwise_cons] at hs
      have ih := setNosAux_spec L rest 0 k (hlen k (by simp)) (fun x hx => hlen x (by simp [hx])) hs.1 hs.2
      simp only [setNos, List.zip_cons_cons, List.pairwise_cons]
      refine ⟨?_, ih.2⟩
      intro p hp
      have := ih.1 p hp
      unfold SetRel
      simp only
      refine ⟨this.1, ?_⟩
      constructor
      · intro e; exact (this.2.1 e.symm).symm
      · intro e; exact (this.2.2 e.symm).symm

theorem setNos_length : ∀ ks : List (List Int), (setNos ks).length = ks.length
  | [] => rfl
  | k :: rest => by
      have aux : ∀ (rest : List (List Int)) cur prev, (setNosAux cur prev rest).length = rest.length := by
        intro rest
        induction rest with
        | nil => intros; rfl
        | cons a t ih => intro cur prev; simp [setNosAux, ih]
      simp [setNos, aux]

end Nb.C20

namespace Nb.C20

theorem labelKey_length (c : Cfg) (a b : Rec) : (labelKey c a).length = (labelKey c b).length := by
  unfold labelKey
  simp only [List.length_append]
  split <;> split <;> (try split) <;> simp

theorem strictKey_eq_iff (c : Cfg) (a b : Rec) :
    strictKey c a = strictKey c b ↔ labelKey c a = labelKey c b ∧ a.slice = b.slice := by
  unfold strictKey
  constructor
  · intro h
    have := List.append_inj h (labelKey_length c a b)
    exact ⟨this.1, by simpa using this.2⟩
  · rintro ⟨h1, h2⟩; rw [h1, h2]

/-- a list sorted by the strict key is sorted by the label key -/
theorem labelKeys_sorted (c : Cfg) {sorted : List Rec}
    (h : sorted.Pairwise (fun a b => strictLe c a b = true)) :
    (sorted.map (labelKey c)).Pairwise (fun a b => lexLe a b = true) := by
  rw [List.pairwise_map]
  exact h.imp (fun {a b} hab => lexLe_of_append _ _ _ _ (labelKey_length c a b) hab)

theorem pairwise_all {α : Type} {R : α → α → Prop} (hs : ∀ a b, R a b → R b a) (hr : ∀ a, R a a) :
    ∀ {l : List α}, l.Pairwise R → ∀ a ∈ l, ∀ b ∈ l, R a b
  | [], _, a, ha, _, _ => by cases ha
  | x :: l, h, a, ha, b, hb => by
      rw [List.pairwise_cons] at h
      rcases List.mem_cons.1 ha with rfl | ha' <;> rcases List.mem_cons.1 hb with rfl | hb'
      · exact hr _
      · exact h.1 b hb'
      · exact hs _ _ (h.1 a ha')
      · exact pairwise_all hs hr h.2 a ha' b hb'

/-- sorted records paired with their set numbers -/
def withSets (c : Cfg) (sorted : List Rec) : List (Nat × Rec) :=
  (setNos (sorted.map (labelKey c))).zip sorted

theorem withSets_map_snd (c : Cfg) (sorted : List Rec) : (withSets c sorted).map (·.2) = sorted := by
  unfold withSets
  rw [List.map_snd_zip]
  simp [setNos_length]

theorem withSets_length (c : Cfg) (sorted : List Rec) : (withSets c sorted).length = sorted.length := by
  have := congrArg List.length (withSets_map_snd c sorted)
  simpa using this

/-- set numbers are non-decreasing and identify label keys -/
theorem withSets_rel (c : Cfg) {sorted : List Rec}
    (h : sorted.Pairwise (fun a b => strictLe c a b = true)) :
    (withSets c sorted).Pairwise
      (fun p q => p.1 ≤ q.1 ∧ (p.1 = q.1 ↔ labelKey c p.2 = labelKey c q.2)) := by
  have L : ∃ L, ∀ k ∈ sorted.map (labelKey c), k.length = L := by
    cases sorted with
    | nil => exact ⟨0, by simp⟩
    | cons a t =>
      refine ⟨(labelKey c a).length, ?_⟩
      intro k hk
      obtain ⟨r, _, rfl⟩ := List.mem_map.1 hk
      exact labelKey_length c r a
  obtain ⟨L, hL⟩ := L
  have := setNos_spec L _ hL (labelKeys_sorted c h)
  rw [List.zip_map_right, List.pairwise_map] at this
  exact this

theorem withSets_set_eq_iff (c : Cfg) {sorted : List Rec}
    (h : sorted.Pairwise (fun a b => strictLe c a b = true)) :
    ∀ p ∈ withSets c sorted, ∀ q ∈ withSets c sorted,
      (p.1 = q.1 ↔ labelKey c p.2 = labelKey c q.2) := by
  have := (withSets_rel c h).imp (fun {a b} hab => hab.2)
  exact pairwise_all (fun a b hab => ⟨fun e => (hab.1 e.symm).symm, fun e => (hab.2 e.symm).symm⟩)
    (fun a => ⟨fun _ => rfl, fun _ => rfl⟩) this

/-- slice numbers tagged with set numbers, as `annotate` builds them -/
theorem tagged_eq (c : Cfg) (sorted : List Rec) :
    (setNos (sorted.map (labelKey c))).zip (sorted.map (·.slice)) =
      (withSets c sorted).map (fun p => (p.1, p.2.slice)) := by
  unfold withSets
  rw [List.zip_map_right]; rfl

/-- with distinct strict keys no (set number, slice number) pair occurs twice -/
theorem tagged_nodup (c : Cfg) {sorted : List Rec}
    (h : sorted.Pairwise (fun a b => strictLe c a b = true)) (hk : keysNodup c sorted) :
    ((withSets c sorted).map (fun p => (p.1, p.2.slice))).Nodup := by
  unfold List.Nodup
  rw [List.pairwise_map]
  have hk' : (withSets c sorted).Pairwise (fun p q => strictKey c p.2 ≠ strictKey c q.2) := by
    have : ((withSets c sorted).map (·.2)).Pairwise (fun a b => strictKey c a ≠ strictKey c b) := by
      rw [withSets_map_snd]; exact hk
    exact (List.pairwise_map (f := fun p : Nat × Rec => p.2)
      (R := fun a b => strictKey c a ≠ strictKey c b)).1 this
  refine ((withSets_rel c h).and hk').imp ?_
  rintro p q ⟨⟨_, hiff⟩, hne⟩ he
  simp only [Prod.mk.injEq] at he
  exact hne ((strictKey_eq_iff c p.2 q.2).2 ⟨hiff.1 he.1, he.2⟩)

end Nb.C20
