import NibabelModel.Lemmas.C02_Misc
/-! Lemmas/C02_Tfm — `AnalyzeImage.to_file_map(dtype=...)`: header bookkeeping, the `dtype=` save argument, save histories -/
namespace Nb.C02

theorem makeWriter_caps (c : Cls) : makeWriter c.caps = .ok c.writer := by
  cases c <;> rfl

/-- the `try:` block never touches the header's data type, and touches slope / intercept only where the class has
    the field -/
theorem tfmBody_hdr (c : Cls) (rnd : Rat → Rat) (p32 : Nat) (i : InT) (o : OutT) (h1 : Hdr) (sl it : Option Rat)
    (data : List Val) :
    (tfmBody c rnd p32 i o h1 sl it data).2.dtype = h1.dtype ∧
    (c.caps.hasSlope = false → (tfmBody c rnd p32 i o h1 sl it data).2.slope = h1.slope) ∧
    (c.caps.hasInter = false → (tfmBody c rnd p32 i o h1 sl it data).2.inter = h1.inter) := by
  unfold tfmBody
  simp only
  split
  · split
    · exact ⟨rfl, fun _ => rfl, fun _ => rfl⟩
    · split
      · exact ⟨rfl, fun _ => rfl, fun _ => rfl⟩
      · split
        · exact ⟨rfl, fun _ => rfl, fun _ => rfl⟩
        · split <;> (refine ⟨rfl, fun hk => ?_, fun hk => ?_⟩ <;> simp [hk])
  · split <;> exact ⟨rfl, fun _ => rfl, fun _ => rfl⟩

theorem toFileMap_restores {c : Cls} {rnd : Rat → Rat} {p32 : Nat} {i : InT} {h : Hdr} {arg : Option DT}
    {data : List Val} {res : Except Err (Rat × Rat × List Int)} {h' : Hdr}
    (e : toFileMap c rnd p32 i h arg data = some (res, h')) : h' = h := by
  unfold toFileMap at e
  split at e
  · cases e
  · rename_i o ho
    simp only at e
    injection e with e
    injection e with _ e
    subst e
    obtain ⟨_, hs, hi⟩ := tfmBody_hdr c rnd p32 i o { h with dtype := .int o }
      (if c.caps.hasSlope then h.slope else none) (if c.caps.hasInter then h.inter else none) data
    cases h with
    | mk d s t =>
      cases c <;> simp only [Cls.caps, Hdr.mk.injEq, true_and, if_true] at hs hi ⊢ <;> simp_all

/-- the result of the `try:` block does not depend on the header it starts from -/
theorem tfmBody_res_indep (c : Cls) (rnd : Rat → Rat) (p32 : Nat) (i : InT) (o : OutT) (h1 h1' : Hdr)
    (sl it : Option Rat) (data : List Val) :
    (tfmBody c rnd p32 i o h1 sl it data).1 = (tfmBody c rnd p32 i o h1' sl it data).1 := by
  unfold tfmBody
  simp only
  split
  · split
    · rfl
    · split
      · rfl
      · split
        · rfl
        · split <;> rfl
  · split <;> rfl

/-- with NaN slope / intercept in the header (the state of every freshly made or loaded image) the `try:` block is
    exactly `save` -/
theorem tfmBody_eq_save {c : Cls} (hc : c ≠ .mgh) (rnd : Rat → Rat) (p32 : Nat) (i : InT) (o : OutT) (h1 : Hdr)
    (data : List Val) : (tfmBody c rnd p32 i o h1 none none data).1 = save c rnd p32 i o data := by
  unfold tfmBody save
  cases c with
  | mgh => exact absurd rfl hc
  | nifti | spm | analyze =>
    simp only [Option.isNone_none, Bool.and_self, if_true, bind, Except.bind, makeWriter, Cls.caps, Cls.writer,
      Bool.not_true, Bool.not_false, Bool.and_false, Bool.and_true, Bool.false_eq_true, if_false]
    cases writerScale _ rnd p32 i o data with
    | error e => rfl
    | ok sb =>
      obtain ⟨s, b⟩ := sb
      simp only
      cases setSlopeInter _ s b with
      | error e => rfl
      | ok u =>
        simp only
        cases arrayToFile i o s b _ _ (needsNan2zero i data) data <;> rfl

/-- the observable result depends on the header only through the on-disk type of the call and the slope / intercept
    fields — never on the data type the header had BEFORE the `dtype=` override -/
theorem toFileMap_res_indep (c : Cls) (rnd : Rat → Rat) (p32 : Nat) (i : InT) (h h' : Hdr) (arg arg' : Option DT)
    (data : List Val) (hs : h.slope = h'.slope) (hi : h.inter = h'.inter)
    (ho : effectiveOut h.dtype arg = effectiveOut h'.dtype arg') :
    (toFileMap c rnd p32 i h arg data).map Prod.fst = (toFileMap c rnd p32 i h' arg' data).map Prod.fst := by
  unfold toFileMap
  rw [← ho, hs, hi]
  cases effectiveOut h.dtype arg with
  | none => rfl
  | some o =>
    simp only [Option.map_some]

theorem toFileMap_eq_save {c : Cls} (hc : c ≠ .mgh) (rnd : Rat → Rat) (p32 : Nat) (i : InT) (h : Hdr)
    (arg : Option DT) (o : OutT) (data : List Val)
    (hs : c.caps.hasSlope = true → h.slope = none) (hi : c.caps.hasInter = true → h.inter = none)
    (ho : effectiveOut h.dtype arg = some o) :
    toFileMap c rnd p32 i h arg data = some (save c rnd p32 i o data, h) := by
  cases hr : toFileMap c rnd p32 i h arg data with
  | none => simp [toFileMap, ho] at hr
  | some rh =>
    obtain ⟨r, h'⟩ := rh
    have hh := toFileMap_restores hr
    subst hh
    congr 2
    simp only [toFileMap, ho, Option.some.injEq, Prod.mk.injEq] at hr
    rw [← hr.1]
    have e1 : (if c.caps.hasSlope = true then h'.slope else none) = none := by
      by_cases k : c.caps.hasSlope = true
      · simp [k, hs k]
      · simp [k]
    have e2 : (if c.caps.hasInter = true then h'.inter else none) = none := by
      by_cases k : c.caps.hasInter = true
      · simp [k, hi k]
      · simp [k]
    rw [e1, e2]
    exact tfmBody_eq_save hc rnd p32 i o _ data

theorem tfmBody_mem {c : Cls} (hc : c ≠ .mgh) {rnd : Rat → Rat} {p32 : Nat} {i : InT} {o : OutT} {h1 : Hdr}
    {sl it : Option Rat} {data : List Val} {s b : Rat} {raws : List Int}
    (ho1 : o.omin ≤ 0) (ho2 : 0 ≤ o.omax) (hd : DataInType i data)
    (e : (tfmBody c rnd p32 i o h1 sl it data).1 = .ok (s, b, raws)) : ∀ q ∈ raws, o.omin ≤ q ∧ q ≤ o.omax := by
  by_cases hn : (sl.isNone && it.isNone) = true
  · simp only [Bool.and_eq_true, Option.isNone_iff_eq_none] at hn
    obtain ⟨rfl, rfl⟩ := hn
    rw [tfmBody_eq_save hc] at e
    exact save_mem ho1 ho2 hd e
  · unfold tfmBody at e
    simp only [hn] at e
    cases ha : arrayToFile i o 1 0 none none (needsNan2zero i data) data with
    | error x => rw [ha] at e; cases e
    | ok r =>
      rw [ha] at e
      simp only [Bool.false_eq_true, if_false] at e
      injection e with e; injection e with _ e; injection e with _ e; subst e
      exact arrayToFile_mem ho1 ho2 hd (fun _ _ _ => ⟨rfl, rfl⟩) ha

theorem toFileMap_mem {c : Cls} (hc : c ≠ .mgh) {rnd : Rat → Rat} {p32 : Nat} {i : InT} {h h' : Hdr}
    {arg : Option DT} {o : OutT} {data : List Val} {s b : Rat} {raws : List Int}
    (ho : effectiveOut h.dtype arg = some o)
    (ho1 : o.omin ≤ 0) (ho2 : 0 ≤ o.omax) (hd : DataInType i data)
    (e : toFileMap c rnd p32 i h arg data = some (.ok (s, b, raws), h')) : ∀ q ∈ raws, o.omin ≤ q ∧ q ≤ o.omax := by
  simp only [toFileMap, ho, Option.some.injEq, Prod.mk.injEq] at e
  exact tfmBody_mem hc ho1 ho2 hd e.1

theorem saveSeq_spec (c : Cls) (rnd : Rat → Rat) (p32 : Nat) (i : InT) (data : List Val) (h : Hdr) :
    ∀ (args : List (Option DT)),
      (saveSeq c rnd p32 i data h args).2 = h ∧
      List.Forall₂ (fun a r => (toFileMap c rnd p32 i h a data).map Prod.fst = r ∧
                               ∀ x, toFileMap c rnd p32 i h a data = some x → x.2 = h)
        args (saveSeq c rnd p32 i data h args).1 := by
  intro args
  induction args with
  | nil => exact ⟨rfl, .nil⟩
  | cons a rest ih =>
    unfold saveSeq
    cases h1 : toFileMap c rnd p32 i h a data with
    | none =>
      simp only
      refine ⟨ih.1, .cons ⟨by rw [h1]; rfl, fun x hx => ?_⟩ ih.2⟩
      rw [h1] at hx; cases hx
    | some rh =>
      obtain ⟨r, h'⟩ := rh
      have hh := toFileMap_restores h1
      subst hh
      simp only
      refine ⟨ih.1, .cons ⟨by rw [h1]; rfl, fun x hx => ?_⟩ ih.2⟩
      rw [h1] at hx; cases hx; rfl

end Nb.C02
