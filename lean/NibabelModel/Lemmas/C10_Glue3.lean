import NibabelModel.Lemmas.C10_Glue2
/-! Lemmas/C10_Glue3 — representability (`CFFits`), class/layout compatibility (`Compat`), and the four
    facts about `readCF`/`writeCF`. -/
namespace Nb.C10

def present (L : Layout) (n : String) : Bool := (findFs L.fields n).isSome

def slotCount (L : Layout) (n : String) (k : Nat) : Bool :=
  match findFs L.fields n with
  | none => true
  | some f => f.n == k

def pixLen (L : Layout) : Nat := if present L "pixdim" then 3 else 0
def eolLen (L : Layout) : Nat := if present L "eol_check" then 4 else 0

/-- every component of the record is storable in its layout field -/
structure CFFits (L : Layout) (h : CF) : Prop where
  sz : intFits (fieldW L "sizeof_hdr") h.sizeofHdr
  bp : intFits (fieldW L "bitpix") h.bitpix
  qfac : h.qfac < 256 ^ fieldW L "pixdim"
  pix : ∀ p ∈ h.pixdim, p < 256 ^ fieldW L "pixdim"
  pixl : h.pixdim.length = pixLen L
  vox : h.voxOffset < 256 ^ fieldW L "vox_offset"
  qf : intFits (fieldW L "qform_code") h.qform
  sf : intFits (fieldW L "sform_code") h.sform
  eol : ∀ x ∈ h.eol, intFits (fieldW L "eol_check") x
  eoll : h.eol.length = eolLen L
  ver : intFits (fieldW L "version") h.version

/-- decidable compatibility of a class with a layout: the layout tiles, every check of the battery finds
    the field it repairs, the checked fields have the expected item counts, and every constant a repair
    writes is representable in its field -/
def compat (c : ClsSpec) (L : Layout) : Bool :=
  L.wf && namesDistinct L &&
  c.checks.all (fun k => match checkSlot k with
                         | some n => present L n
                         | none => true) &&
  slotCount L "sizeof_hdr" 1 && slotCount L "bitpix" 1 && slotCount L "pixdim" 8 &&
  slotCount L "vox_offset" 1 && slotCount L "qform_code" 1 && slotCount L "sform_code" 1 &&
  slotCount L "eol_check" 4 && slotCount L "version" 1 &&
  (!c.checks.contains .sizeofHdr || decide (intFits (fieldW L "sizeof_hdr") c.sizeofHdr)) &&
  (!c.checks.contains .bitpix ||
    c.dtTable.all (fun r => decide (intFits (fieldW L "bitpix") ((8 * r.isz : Nat) : Int)))) &&
  (!(c.checks.contains .pixdims || c.checks.contains .qfac) ||
    decide (c.pixFmt.one < 256 ^ fieldW L "pixdim")) &&
  (!c.checks.contains .offset || decide (c.singleVoxPattern < 256 ^ fieldW L "vox_offset")) &&
  (!c.checks.contains .eol || eolGood.all (fun x => decide (intFits (fieldW L "eol_check") x))) &&
  (!c.checks.contains .version || decide (intFits (fieldW L "version") 1)) &&
  c.pixFmt.ok

structure Compat (c : ClsSpec) (L : Layout) : Prop where
  wf : L.wf = true
  names : namesDistinct L = true
  slots : ∀ k ∈ c.checks, ∀ n, checkSlot k = some n → present L n = true
  n_sz : slotCount L "sizeof_hdr" 1 = true
  n_bp : slotCount L "bitpix" 1 = true
  n_pix : slotCount L "pixdim" 8 = true
  n_vox : slotCount L "vox_offset" 1 = true
  n_qf : slotCount L "qform_code" 1 = true
  n_sf : slotCount L "sform_code" 1 = true
  n_eol : slotCount L "eol_check" 4 = true
  n_ver : slotCount L "version" 1 = true
  c_sz : CheckId.sizeofHdr ∈ c.checks → intFits (fieldW L "sizeof_hdr") c.sizeofHdr
  c_bp : CheckId.bitpix ∈ c.checks → ∀ r ∈ c.dtTable, intFits (fieldW L "bitpix") ((8 * r.isz : Nat) : Int)
  c_pix : CheckId.pixdims ∈ c.checks ∨ CheckId.qfac ∈ c.checks → c.pixFmt.one < 256 ^ fieldW L "pixdim"
  c_vox : CheckId.offset ∈ c.checks → c.singleVoxPattern < 256 ^ fieldW L "vox_offset"
  c_eol : CheckId.eol ∈ c.checks → ∀ x ∈ eolGood, intFits (fieldW L "eol_check") x
  c_ver : CheckId.version ∈ c.checks → intFits (fieldW L "version") 1
  fmt : c.pixFmt.ok = true

theorem compat_spec {c : ClsSpec} {L : Layout} (h : compat c L = true) : Compat c L := by
  simp only [compat, Bool.and_eq_true, Bool.or_eq_true, Bool.not_eq_true', List.all_eq_true,
    decide_eq_true_eq, List.contains_eq_mem, decide_eq_false_iff_not] at h
  obtain ⟨⟨⟨⟨⟨⟨⟨⟨⟨⟨⟨⟨⟨⟨⟨⟨⟨h1, h1'⟩, h2⟩, a1⟩, a2⟩, a3⟩, a4⟩, a5⟩, a6⟩, a7⟩, a8⟩, b1⟩, b2⟩, b3⟩, b4⟩, b5⟩, b6⟩, b7⟩ := h
  refine ⟨h1, h1', ?_, a1, a2, a3, a4, a5, a6, a7, a8, ?_, ?_, ?_, ?_, ?_, ?_, b7⟩
  · intro k hk n hn
    have := h2 k hk
    simpa [hn] using this
  · intro hk; rcases b1 with hb | hb; exact absurd hk hb; exact hb
  · intro hk; rcases b2 with hb | hb; exact absurd hk hb; exact hb
  · intro hk
    rcases b3 with hb | hb
    · simp only [Bool.or_eq_false_iff, decide_eq_false_iff_not] at hb
      rcases hk with hk | hk
      · exact absurd hk hb.1
      · exact absurd hk hb.2
    · exact hb
  · intro hk; rcases b4 with hb | hb; exact absurd hk hb; exact hb
  · intro hk; rcases b5 with hb | hb; exact absurd hk hb; exact hb
  · intro hk; rcases b6 with hb | hb; exact absurd hk hb; exact hb

/-! ### what is read is representable -/

theorem fieldW_of_find {L : Layout} {n : String} {f : Field} (h : findFs L.fields n = some f) :
    fieldW L n = f.iw := by simp [fieldW, h]

theorem getRaw_mem_lt (L : Layout) (vals : List (List Nat)) (n : String) (hv : valsOk L.fields vals = true) :
    ∀ y ∈ getRaw L vals n, y < 256 ^ fieldW L n := by
  cases hf : findFs L.fields n with
  | none => intro y hy; simp [getRaw, getRawFs_absent _ _ _ hf] at hy
  | some f =>
    rw [fieldW_of_find hf]
    exact (getRawFs_fits _ _ _ f hv hf).2

theorem getRaw_length (L : Layout) (vals : List (List Nat)) (n : String) (k : Nat)
    (hv : valsOk L.fields vals = true) (hk : slotCount L n k = true) :
    (getRaw L vals n).length = if present L n then k else 0 := by
  unfold slotCount at hk
  unfold present
  cases hf : findFs L.fields n with
  | none => simp [getRaw, getRawFs_absent _ _ _ hf]
  | some f =>
    simp only [hf, beq_iff_eq] at hk
    simp [getRaw, (getRawFs_fits _ _ _ f hv hf).1, hk]

theorem intAt_fits (L : Layout) (vals : List (List Nat)) (n : String) (hv : valsOk L.fields vals = true) :
    intFits (fieldW L n) ((getInts L vals n).getD 0 0) := by
  unfold getInts
  have hlt := getRaw_mem_lt L vals n hv
  cases hr : getRaw L vals n with
  | nil => simpa using intFits_zero _
  | cons v r =>
    simp only [List.map_cons, List.getD_cons_zero]
    exact toInt_fits _ _ (hlt v (by simp [hr]))

theorem rawAt_lt (L : Layout) (vals : List (List Nat)) (n : String) (hv : valsOk L.fields vals = true) :
    (getRaw L vals n).getD 0 0 < 256 ^ fieldW L n := by
  have hlt := getRaw_mem_lt L vals n hv
  cases hr : getRaw L vals n with
  | nil => simpa using pow256_pos _
  | cons v r => simpa using hlt v (by simp [hr])

theorem readCF_fits (c : ClsSpec) (L : Layout) (hc : Compat c L) (vals : List (List Nat))
    (hv : valsOk L.fields vals = true) : CFFits L (readCF L vals) := by
  have hpl := getRaw_length L vals "pixdim" 8 hv hc.n_pix
  have hel := getRaw_length L vals "eol_check" 4 hv hc.n_eol
  refine ⟨intAt_fits L vals _ hv, intAt_fits L vals _ hv, rawAt_lt L vals _ hv, ?_, ?_, rawAt_lt L vals _ hv,
    intAt_fits L vals _ hv, intAt_fits L vals _ hv, ?_, ?_, intAt_fits L vals _ hv⟩
  · intro p hp
    exact getRaw_mem_lt L vals _ hv p (List.mem_of_mem_drop (List.mem_of_mem_take hp))
  · show (((getRaw L vals "pixdim").drop 1).take 3).length = pixLen L
    rw [List.length_take, List.length_drop, hpl]; unfold pixLen; split <;> simp
  · intro x hx
    obtain ⟨v, hv', rfl⟩ := List.mem_map.mp hx
    exact toInt_fits _ _ (getRaw_mem_lt L vals _ hv v hv')
  · show ((getRaw L vals "eol_check").map _).length = eolLen L
    rw [List.length_map, hel]; rfl

/-! ### every value a repair produces is representable -/

theorem fixPixdims_mem (F : FloatFmt) (d : List Nat) (X : Nat) (hd : ∀ p ∈ d, p < X) (h1 : F.one < X) :
    (∀ q ∈ fixPixdims F d, q < X) ∧ (fixPixdims F d).length = d.length := by
  have habs : ∀ p, p < X → F.abs p < X := fun p hp => by
    unfold FloatFmt.abs FloatFmt.mag
    exact Nat.lt_of_le_of_lt (Nat.mod_le _ _) hp
  have hz : ∀ q ∈ d.map (fun p => if F.isZero p then F.one else p), q < X := by
    intro q hq
    obtain ⟨p, hp, rfl⟩ := List.mem_map.mp hq
    split
    · exact h1
    · exact hd p hp
  unfold fixPixdims
  by_cases h0 : (!d.any F.le0) = true
  · simp only [h0, if_true]; exact ⟨hd, trivial⟩
  · simp only [h0, if_false]
    by_cases hzz : d.any F.isZero = true <;> by_cases hn : d.any F.isNeg = true <;>
      simp only [hzz, hn, if_true, if_false, Bool.false_eq_true]
    · refine ⟨?_, by simp⟩
      intro q hq
      obtain ⟨p, hp, rfl⟩ := List.mem_map.mp hq
      exact habs p (hz p hp)
    · exact ⟨hz, by simp⟩
    · refine ⟨?_, by simp⟩
      intro q hq
      obtain ⟨p, hp, rfl⟩ := List.mem_map.mp hq
      exact habs p (hd p hp)
    · exact ⟨hd, trivial⟩

theorem present_fieldW_eol {L : Layout} (h : present L "eol_check" = true) : eolLen L = 4 := by
  simp [eolLen, h]

theorem fixOf_fits (c : ClsSpec) (L : Layout) (hc : Compat c L) (k : CheckId) (hk : k ∈ c.checks) (h : CF)
    (hf : CFFits L h) : CFFits L (fixOf c k h) := by
  cases k
  case sizeofHdr =>
    refine { hf with sz := ?_ }
    show intFits _ (if h.sizeofHdr = c.sizeofHdr then h.sizeofHdr else c.sizeofHdr)
    split
    · exact hf.sz
    · exact hc.c_sz hk
  case datatype => exact hf
  case bitpix =>
    refine { hf with bp := ?_ }
    show intFits _ (match dtItemsize c.dtTable h.datatype with
      | none => h.bitpix
      | some n => if ((8 * n : Nat) : Int) = h.bitpix then h.bitpix else ((8 * n : Nat) : Int))
    cases hd : dtItemsize c.dtTable h.datatype with
    | none => exact hf.bp
    | some n =>
      simp only []
      split
      · exact hf.bp
      · unfold dtItemsize dtFind at hd
        cases hfind : List.find? (fun x => x.code == h.datatype) c.dtTable with
        | none => simp [hfind] at hd
        | some r =>
          simp only [hfind, Option.map_some, Option.some.injEq] at hd
          subst hd
          exact hc.c_bp hk r (List.mem_of_find?_eq_some hfind)
  case pixdims =>
    have := fixPixdims_mem c.pixFmt h.pixdim _ hf.pix (hc.c_pix (Or.inl hk))
    exact { hf with pix := this.1, pixl := this.2.trans hf.pixl }
  case qfac =>
    refine { hf with qfac := ?_ }
    show (if h.qfac = c.pixFmt.one ∨ h.qfac = c.pixFmt.negOne then h.qfac else c.pixFmt.one) < _
    split
    · exact hf.qfac
    · exact hc.c_pix (Or.inr hk)
  case magic => exact hf
  case offset =>
    refine { hf with vox := ?_ }
    show (if (c.voxKind.decode h.voxOffset).isZero = true then h.voxOffset
      else if stripNul h.magic = c.singleMagic ∧ (c.voxKind.decode h.voxOffset).ltInt c.singleVoxOffset = true
        then c.singleVoxPattern else h.voxOffset) < _
    split
    · exact hf.vox
    · split
      · exact hc.c_vox hk
      · exact hf.vox
  case qform =>
    refine { hf with qf := ?_ }
    show intFits _ (if h.qform ∈ c.xformCodes then h.qform else 0)
    split
    · exact hf.qf
    · exact intFits_zero _
  case sform =>
    refine { hf with sf := ?_ }
    show intFits _ (if h.sform ∈ c.xformCodes then h.sform else 0)
    split
    · exact hf.sf
    · exact intFits_zero _
  case eol =>
    have hp := hc.slots _ hk "eol_check" rfl
    have : (∀ x ∈ (if h.eol = eolGood then h.eol else eolGood), intFits (fieldW L "eol_check") x) ∧
        (if h.eol = eolGood then h.eol else eolGood).length = eolLen L := by
      split
      · exact ⟨hf.eol, hf.eoll⟩
      · exact ⟨hc.c_eol hk, by rw [present_fieldW_eol hp]; rfl⟩
    exact { hf with eol := this.1, eoll := this.2 }
  case origin => exact hf
  case version =>
    refine { hf with ver := ?_ }
    show intFits _ (if h.version = 1 then h.version else 1)
    split
    · exact hf.ver
    · exact hc.c_ver hk

theorem fixAll_fits (c : ClsSpec) (L : Layout) (hc : Compat c L) (ks : List CheckId)
    (hks : ∀ k ∈ ks, k ∈ c.checks) (h : CF) (hf : CFFits L h) : CFFits L (fixAll c ks h) := by
  induction ks generalizing h with
  | nil => exact hf
  | cons k ks ih =>
    exact ih (fun k' hk' => hks k' (List.mem_cons_of_mem _ hk')) _
      (fixOf_fits c L hc k (hks k (List.mem_cons_self ..)) h hf)

end Nb.C10
