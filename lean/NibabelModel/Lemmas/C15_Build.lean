import NibabelModel.Lemmas.C15
/-! Lemmas/C15_Build — the cached build (`extend`), `concatenate`, copying operators (core Lean only). -/
namespace Nb.C15
open Nb

theorem State.ext' {σ σ' : State} (h1 : σ.heap = σ'.heap) (h2 : σ.seqs = σ'.seqs) : σ = σ' := by
  cases σ; cases σ'; simp_all

theorem setSeq_setSeq (σ : State) (t : Nat) (a b : Seq) : (σ.setSeq t a).setSeq t b = σ.setSeq t b := by
  simp [State.setSeq, List.set_set]

theorem setSeq_setBuf_comm (σ : State) (t : Nat) (s : Seq) (b : Nat) (x : Buf) :
    (σ.setSeq t s).setBuf b x = (σ.setBuf b x).setSeq t s := rfl

theorem setSeq_alloc_comm (σ : State) (t : Nat) (s : Seq) (x : Buf) :
    ((σ.setSeq t s).alloc x).1 = ((σ.alloc x).1).setSeq t s := rfl

theorem setSeq_self {σ : State} {t : Nat} : σ.setSeq t (σ.seqAt t) = σ := by
  refine State.ext' (σ := σ.setSeq t (σ.seqAt t)) (σ' := σ) rfl ?_
  apply List.ext_getElem?
  intro i
  rw [setSeq_get]
  split
  · rename_i h; rw [h.1]; exact (get_seqAt h.2).symm
  · rfl

/-- sequence `t` shown with the ranges the build cache holds for it (`update_seq`) -/
def withRanges (σ : State) (t : Nat) (X : List (Nat × Nat)) : State :=
  σ.setSeq t { σ.seqAt t with ranges := X }

theorem updateSeq_withRanges (σ : State) (t : Nat) (c : Cache) : updateSeq σ t c = withRanges σ t c.ranges := rfl

theorem withRanges_seqAt_self {σ : State} {t : Nat} (ht : t < σ.seqs.length) (X : List (Nat × Nat)) :
    (withRanges σ t X).seqAt t = { σ.seqAt t with ranges := X } := by
  simp only [withRanges, seqAt_setSeq, ht, and_self, if_true]

theorem withRanges_seqAt_other (σ : State) (t : Nat) (X : List (Nat × Nat)) {u : Nat} (hu : u ≠ t) :
    (withRanges σ t X).seqAt u = σ.seqAt u := by
  simp only [withRanges, seqAt_setSeq]; rw [if_neg (by omega)]

theorem withRanges_length (σ : State) (t : Nat) (X : List (Nat × Nat)) :
    (withRanges σ t X).seqs.length = σ.seqs.length := setSeq_length _ _ _

theorem withRanges_seqAt_buf (σ : State) (t : Nat) (X : List (Nat × Nat)) (u : Nat) :
    ((withRanges σ t X).seqAt u).buf = (σ.seqAt u).buf := by
  simp only [withRanges, seqAt_setSeq]
  split
  · rename_i h; rw [h.1]
  · rfl

theorem withRanges_shared (σ : State) (t : Nat) (X : List (Nat × Nat)) :
    (withRanges σ t X).shared t = σ.shared t := by
  simp only [State.shared, withRanges_seqAt_buf, withRanges_length]

theorem withRanges_withRanges {σ : State} {t : Nat} (ht : t < σ.seqs.length) (X Y : List (Nat × Nat)) :
    withRanges (withRanges σ t X) t Y = withRanges σ t Y := by
  unfold withRanges
  rw [setSeq_setSeq, seqAt_setSeq, if_pos ⟨rfl, ht⟩]

theorem withRanges_self {σ : State} {t : Nat} : withRanges σ t (σ.seqAt t).ranges = σ := by
  unfold withRanges
  exact setSeq_self

theorem withRanges_bufAt (σ : State) (t : Nat) (X : List (Nat × Nat)) (b : Nat) :
    (withRanges σ t X).bufAt b = σ.bufAt b := rfl

theorem resizeDataTo_withRanges {σ : State} {t : Nat} (ht : t < σ.seqs.length) (X : List (Nat × Nat))
    (n : Nat) (c : Cache) :
    resizeDataTo (withRanges σ t X) t n c = withRanges (resizeDataTo σ t n c) t X := by
  unfold resizeDataTo
  simp only [withRanges_seqAt_self ht, withRanges_shared, withRanges_bufAt]
  have hmove : ∀ x : Buf,
      ((withRanges σ t X).alloc x).1.setSeq t
        (Seq.mk ((withRanges σ t X).alloc x).2 X (σ.seqAt t).isView (σ.seqAt t).bufBytes) =
      withRanges ((σ.alloc x).1.setSeq t
        (Seq.mk (σ.alloc x).2 (σ.seqAt t).ranges (σ.seqAt t).isView (σ.seqAt t).bufBytes)) t X := by
    intro x
    have ht' : t < (σ.alloc x).1.seqs.length := ht
    unfold withRanges
    rw [setSeq_alloc_comm, setSeq_setSeq, setSeq_setSeq, seqAt_setSeq, if_pos ⟨rfl, ht'⟩]
    rfl
  split
  · exact hmove _
  · split
    · rfl
    · split
      · exact hmove _
      · unfold withRanges
        rw [setSeq_setBuf_comm]
        rfl

theorem appendCore_withRanges {σ : State} {t : Nat} (ht : t < σ.seqs.length) (X : List (Nat × Nat))
    (el : Elem) (c : Cache) :
    appendCore (withRanges σ t X) t el c =
      (withRanges (appendCore σ t el c).1 t X, (appendCore σ t el c).2) := by
  unfold appendCore
  simp only [withRanges_seqAt_buf, withRanges_bufAt]
  have h1 : (if (σ.bufAt (σ.seqAt t).buf).cap < c.next + el.length
        then resizeDataTo (withRanges σ t X) t (c.next + el.length) c else withRanges σ t X) =
      withRanges (if (σ.bufAt (σ.seqAt t).buf).cap < c.next + el.length
        then resizeDataTo σ t (c.next + el.length) c else σ) t X := by
    split
    · exact resizeDataTo_withRanges ht X _ c
    · rfl
  rw [h1]
  simp only [withRanges_seqAt_buf, withRanges_bufAt]
  rfl
/-- state of a cached build: the sequence shown with the cache's ranges satisfies the invariant -/
structure BuildOK (σ : State) (t : Nat) (c : Cache) : Prop where
  inv : Inv (withRanges σ t c.ranges)
  lt : t < σ.seqs.length
  own : (σ.seqAt t).isView = false
  next : c.next = nextOffset c.ranges
  rpb : 0 < c.rpb

/-- the contents a sequence will show once `update_seq` has run -/
def vcontents (σ : State) (t : Nat) (c : Cache) (u : Nat) : List Elem := (withRanges σ t c.ranges).contents u

theorem appendCore_build {σ : State} {t : Nat} {c : Cache} (b : BuildOK σ t c) (el : Elem)
    (hel : 0 < el.length) :
    BuildOK (appendCore σ t el c).1 t (appendCore σ t el c).2 ∧
    (appendCore σ t el c).1.seqs.length = σ.seqs.length ∧
    vcontents (appendCore σ t el c).1 t (appendCore σ t el c).2 t = vcontents σ t c t ++ [el] ∧
    (∀ u, u ≠ t → u < σ.seqs.length →
      vcontents (appendCore σ t el c).1 t (appendCore σ t el c).2 u = vcontents σ t c u) ∧
    (∀ u, u ≠ t → (appendCore σ t el c).1.seqAt u = σ.seqAt u) ∧
    ((appendCore σ t el c).1.seqAt t).bufBytes = (σ.seqAt t).bufBytes ∧
    (appendCore σ t el c).2.rpb = c.rpb := by
  have ht := b.lt
  have hth : t < (withRanges σ t c.ranges).seqs.length := by rw [withRanges_length]; exact ht
  have hown : ((withRanges σ t c.ranges).seqAt t).isView = false := by
    rw [withRanges_seqAt_self ht]; exact b.own
  have hcr : c.ranges = ((withRanges σ t c.ranges).seqAt t).ranges := by rw [withRanges_seqAt_self ht]
  have g := grow_spec b.inv hth hown el hel c b.rpb hcr (by rw [← hcr]; exact b.next)
  simp only [appendCore_withRanges ht, updateSeq_withRanges] at g
  obtain ⟨g1, g2, g3, g4, g5, g6, g7, g8, g9, g10⟩ := g
  have hlen : (appendCore σ t el c).1.seqs.length = σ.seqs.length := by
    rw [withRanges_length, withRanges_length, withRanges_length] at g2; exact g2
  have ht1 : t < (appendCore σ t el c).1.seqs.length := by omega
  rw [withRanges_withRanges ht1] at g1 g3 g4 g5 g6 g7 g8 g9
  refine ⟨⟨g1, ht1, ?_, ?_, ?_⟩, hlen, g6, ?_, ?_, ?_, g10⟩
  · rw [withRanges_seqAt_self ht1] at g3; exact g3
  · rw [withRanges_seqAt_self ht1] at g9; exact g9
  · rw [g10]; exact b.rpb
  · intro u hu hul
    exact g7 u hu (by rw [withRanges_length]; exact hul)
  · intro u hu
    have := g5 u hu
    rw [withRanges_seqAt_other _ _ _ hu, withRanges_seqAt_other _ _ _ hu] at this; exact this
  · rw [withRanges_seqAt_self ht1, withRanges_seqAt_self ht] at g4; exact g4

theorem appendLoop_build {t : Nat} (els : List Elem) : ∀ {σ : State} {c : Cache}, BuildOK σ t c →
    BuildOK (appendLoop σ t c els).1 t (appendLoop σ t c els).2 ∧
    (appendLoop σ t c els).1.seqs.length = σ.seqs.length ∧
    vcontents (appendLoop σ t c els).1 t (appendLoop σ t c els).2 t =
      vcontents σ t c t ++ els.filter (fun e => !e.isEmpty) ∧
    (∀ u, u ≠ t → u < σ.seqs.length →
      vcontents (appendLoop σ t c els).1 t (appendLoop σ t c els).2 u = vcontents σ t c u) ∧
    (∀ u, u ≠ t → (appendLoop σ t c els).1.seqAt u = σ.seqAt u) ∧
    ((appendLoop σ t c els).1.seqAt t).bufBytes = (σ.seqAt t).bufBytes ∧
    (appendLoop σ t c els).2.rpb = c.rpb := by
  induction els with
  | nil =>
    intro σ c b
    refine ⟨b, rfl, ?_, fun _ _ _ => rfl, fun _ _ => rfl, rfl, rfl⟩
    simp [appendLoop]
  | cons e es ih =>
    intro σ c b
    simp only [appendLoop]
    cases he : e.isEmpty
    · simp only [Bool.false_eq_true, if_false, List.filter_cons, he, Bool.not_false, if_true]
      obtain ⟨a1, a2, a3, a4, a5, a6, a7⟩ := appendCore_build b e (isEmpty_false_length he)
      obtain ⟨i1, i2, i3, i4, i5, i6, i7⟩ := ih a1
      refine ⟨i1, by rw [i2, a2], ?_, ?_, ?_, by rw [i6, a6], by rw [i7, a7]⟩
      · rw [i3, a3]; simp
      · intro u hu hul; rw [i4 u hu (by omega), a4 u hu hul]
      · intro u hu; rw [i5 u hu, a5 u hu]
    · simp only [if_true, List.filter_cons, he, Bool.not_true, Bool.false_eq_true, if_false]
      exact ih b
theorem finalize_spec {σ : State} {t : Nat} {c : Cache} (b : BuildOK σ t c) :
    Inv (finalize σ t c) ∧ (finalize σ t c).seqs.length = σ.seqs.length ∧
    (∀ u, u < σ.seqs.length → (finalize σ t c).contents u = vcontents σ t c u) ∧
    (∀ u, u ≠ t → (finalize σ t c).seqAt u = σ.seqAt u) := by
  have ht := b.lt
  have hth : t < (withRanges σ t c.ranges).seqs.length := by rw [withRanges_length]; exact ht
  have hown : ((withRanges σ t c.ranges).seqAt t).isView = false := by
    rw [withRanges_seqAt_self ht]; exact b.own
  obtain ⟨a1, a2, _⟩ := inplace_resize_spec b.inv hth hown
    (nextOffset ((withRanges σ t c.ranges).seqAt t).ranges) (Nat.le_refl _)
  refine ⟨a1, ?_, ?_, ?_⟩
  · show (shrinkData (updateSeq σ t c) t).seqs.length = _
    simp only [shrinkData, setBuf_seqs, updateSeq_withRanges, withRanges_length]
  · intro u hu
    exact a2 u (by rw [withRanges_length]; exact hu)
  · intro u hu
    show (shrinkData (updateSeq σ t c) t).seqAt u = _
    simp only [shrinkData, seqAt_setBuf, updateSeq_withRanges]
    exact withRanges_seqAt_other _ _ _ hu

theorem filter_nonempty_nil_of_isEmpty {els : List Elem} (h : els.isEmpty = true) :
    els.filter (fun e => !e.isEmpty) = [] := by
  cases els with
  | nil => rfl
  | cons a b => simp at h

/-- `extend(list)`: list extend by the non-empty arrays, nothing else changes -/
theorem extendList_spec {σ : State} (h : Inv σ) {t : Nat} (ht : t < σ.seqs.length) (els : List Elem) (w dt : Nat) :
    Inv (extendList σ t els w dt) ∧ (extendList σ t els w dt).seqs.length = σ.seqs.length ∧
    (extendList σ t els w dt).contents t = σ.contents t ++ els.filter (fun e => !e.isEmpty) ∧
    (∀ u, u ≠ t → u < σ.seqs.length → (extendList σ t els w dt).contents u = σ.contents u) := by
  unfold extendList
  cases he : els.isEmpty
  · simp only [Bool.false_eq_true, if_false]
    have h0 := inv_ownData h ht
    have ht0 : t < (ownData σ t).seqs.length := by rw [ownData_length]; exact ht
    have hv0 := ownData_isView (σ := σ) ht
    generalize hσ0 : ownData σ t = σ0 at h0 ht0 hv0
    have hrpb : 0 < (mkCache σ0 t w dt).rpb := by simp only [mkCache]; omega
    obtain ⟨r1, r2, r3, r4, r5, r6, r7, _⟩ := resize_spec h0 ht0 hv0
      ((mkCache σ0 t w dt).next + (els.map List.length).sum) (mkCache σ0 t w dt) hrpb
      (by simp only [mkCache]; omega)
    generalize hσ1 : resizeDataTo σ0 t ((mkCache σ0 t w dt).next + (els.map List.length).sum)
      (mkCache σ0 t w dt) = σ1 at r1 r2 r3 r4 r5 r6 r7
    have ht1 : t < σ1.seqs.length := by omega
    have hvirt : withRanges σ1 t (mkCache σ0 t w dt).ranges = σ1 := by
      have : (mkCache σ0 t w dt).ranges = (σ1.seqAt t).ranges := by rw [r3]; rfl
      rw [this]; exact withRanges_self
    have b1 : BuildOK σ1 t (mkCache σ0 t w dt) :=
      ⟨by rw [hvirt]; exact r1, ht1, r4, rfl, hrpb⟩
    obtain ⟨l1, l2, l3, l4, l5, l6, l7⟩ := appendLoop_build els b1
    obtain ⟨f1, f2, f3, f4⟩ := finalize_spec l1
    have hv1 : ∀ u, vcontents σ1 t (mkCache σ0 t w dt) u = σ1.contents u := by
      intro u; simp only [vcontents, hvirt]
    have hc0 : ∀ u, u < σ.seqs.length → σ1.contents u = σ.contents u := by
      intro u hu
      rw [r7 u (by rw [← hσ0, ownData_length]; exact hu), ← hσ0, ownData_contents h ht hu]
    have hl0 : σ0.seqs.length = σ.seqs.length := by rw [← hσ0, ownData_length]
    refine ⟨f1, by rw [f2, l2, r2, hl0], ?_, ?_⟩
    · rw [f3 t (by omega), l3, hv1, hc0 t ht]
    · intro u hut hu
      rw [f3 u (by omega), l4 u hut (by omega), hv1, hc0 u hu]
  · simp only [if_true, filter_nonempty_nil_of_isEmpty he, List.append_nil]
    exact ⟨h, trivial, trivial, fun _ _ _ => trivial⟩
/-- `extend(generator)` / cached `append`s + `finalize_append` -/
theorem extendGen_spec {σ : State} (h : Inv σ) {t : Nat} (ht : t < σ.seqs.length) (els : List Elem) (w dt : Nat) :
    Inv (extendGen σ t els w dt) ∧ (extendGen σ t els w dt).seqs.length = σ.seqs.length ∧
    (extendGen σ t els w dt).contents t = σ.contents t ++ els.filter (fun e => !e.isEmpty) ∧
    (∀ u, u ≠ t → u < σ.seqs.length → (extendGen σ t els w dt).contents u = σ.contents u) := by
  unfold extendGen
  split
  · rename_i hf
    rw [hf, List.append_nil]
    exact ⟨h, rfl, rfl, fun _ _ _ => rfl⟩
  · rename_i e es hf
    rw [hf]
    have hall : ∀ x ∈ e :: es, (!x.isEmpty) = true := by
      intro x hx; rw [← hf] at hx; exact (List.mem_filter.mp hx).2
    have he : e.isEmpty = false := by simpa using hall e (by simp)
    have hes : es.filter (fun e => !e.isEmpty) = es :=
      List.filter_eq_self.mpr (fun x hx => hall x (by simp [hx]))
    have h0 := inv_ownData h ht
    have ht0 : t < (ownData σ t).seqs.length := by rw [ownData_length]; exact ht
    have hv0 := ownData_isView (σ := σ) ht
    have hl0 : (ownData σ t).seqs.length = σ.seqs.length := ownData_length σ t
    have hc0 : ∀ u, u < σ.seqs.length → (ownData σ t).contents u = σ.contents u :=
      fun u hu => ownData_contents h ht hu
    generalize ownData σ t = σ0 at h0 ht0 hv0 hl0 hc0
    have hrpb : 0 < (mkCache σ0 t w dt).rpb := by simp only [mkCache]; omega
    have hvirt : withRanges σ0 t (mkCache σ0 t w dt).ranges = σ0 := withRanges_self
    have b0 : BuildOK σ0 t (mkCache σ0 t w dt) := ⟨by rw [hvirt]; exact h0, ht0, hv0, rfl, hrpb⟩
    obtain ⟨a1, a2, a3, a4, _, _, _⟩ := appendCore_build b0 e (isEmpty_false_length he)
    obtain ⟨l1, l2, l3, l4, _, _, _⟩ := appendLoop_build es a1
    obtain ⟨f1, f2, f3, _⟩ := finalize_spec l1
    have hv0' : ∀ u, vcontents σ0 t (mkCache σ0 t w dt) u = σ0.contents u := by
      intro u; simp only [vcontents, hvirt]
    refine ⟨f1, by rw [f2, l2, a2, hl0], ?_, ?_⟩
    · rw [f3 t (by omega), l3, a3, hv0', hc0 t ht, hes]; simp
    · intro u hut hu
      rw [f3 u (by omega), l4 u hut (by omega), a4 u hut (by omega), hv0', hc0 u hu]

/-- every array a sequence shows has at least one row -/
theorem contents_nonempty {σ : State} (h : Inv σ) {u : Nat} (hu : u < σ.seqs.length) :
    ∀ e ∈ σ.contents u, e.isEmpty = false := by
  intro e he
  simp only [contents_def, contentsOf, List.mem_map] at he
  obtain ⟨r, hr, rfl⟩ := he
  have h1 := h.inb u _ (get_seqAt hu) r hr
  have h2 := h.pos u _ (get_seqAt hu) r hr
  have := slice_length (σ.bufAt (σ.seqAt u).buf) r.1 r.2 h1
  cases hs : (σ.bufAt (σ.seqAt u).buf).slice r.1 r.2 with
  | nil => rw [hs] at this; simp at this; omega
  | cons a b => rfl

theorem filter_contents {σ : State} (h : Inv σ) {u : Nat} (hu : u < σ.seqs.length) :
    (σ.contents u).filter (fun e => !e.isEmpty) = σ.contents u :=
  List.filter_eq_self.mpr (fun e he => by rw [contents_nonempty h hu e he]; rfl)

/-- `extend(other_sequence)` (also `t = u`, also `u` a view of `t`'s buffer) -/
theorem extendSeq_spec {σ : State} (h : Inv σ) {t u : Nat} (ht : t < σ.seqs.length) (hu : u < σ.seqs.length)
    (w : Nat) :
    Inv (extendSeq σ t u w) ∧ (extendSeq σ t u w).seqs.length = σ.seqs.length ∧
    (extendSeq σ t u w).contents t = σ.contents t ++ σ.contents u ∧
    (∀ x, x ≠ t → x < σ.seqs.length → (extendSeq σ t u w).contents x = σ.contents x) := by
  unfold extendSeq
  have := extendList_spec h ht (σ.contents u) w (σ.bufAt (σ.seqAt u).buf).dt
  rw [filter_contents h hu] at this
  exact this
theorem concatRest_spec {t : Nat} (w : Nat) (us : List Nat) : ∀ {σ : State}, Inv σ → t < σ.seqs.length →
    (∀ u ∈ us, u ≠ t ∧ u < σ.seqs.length) →
    Inv (concatRest σ t w us) ∧ (concatRest σ t w us).seqs.length = σ.seqs.length ∧
    (concatRest σ t w us).contents t = σ.contents t ++ (us.map σ.contents).flatten ∧
    (∀ x, x ≠ t → x < σ.seqs.length → (concatRest σ t w us).contents x = σ.contents x) := by
  induction us with
  | nil =>
    intro σ h _ _
    refine ⟨h, rfl, ?_, fun _ _ _ => rfl⟩
    simp [concatRest]
  | cons u us ih =>
    intro σ h ht hus
    simp only [concatRest]
    have hu := hus u (by simp)
    obtain ⟨e1, e2, e3, e4⟩ := extendSeq_spec h ht hu.2 w
    obtain ⟨i1, i2, i3, i4⟩ := ih e1 (by omega) (fun x hx => by
      have := hus x (by simp [hx]); rw [e2]; exact this)
    refine ⟨i1, by rw [i2, e2], ?_, ?_⟩
    · rw [i3, e3]
      have : us.map (extendSeq σ t u w).contents = us.map σ.contents := by
        apply List.map_congr_left
        intro x hx
        have := hus x (by simp [hx])
        exact e4 x this.1 this.2
      rw [this]; simp
    · intro x hxt hx
      rw [i4 x hxt (by omega), e4 x hxt hx]

/-- `concatenate([t0, us…], axis=0)`: a new sequence with the arrays of all operands, in order;
    no live sequence changes -/
theorem concat_spec {σ : State} (h : Inv σ) {t0 : Nat} (ht0 : t0 < σ.seqs.length) (us : List Nat)
    (hus : ∀ u ∈ us, u < σ.seqs.length) (w : Nat) :
    let σ' := concatRest (copyOp σ t0) σ.seqs.length w us
    Inv σ' ∧ σ'.seqs.length = σ.seqs.length + 1 ∧
    σ'.contents σ.seqs.length = σ.contents t0 ++ (us.map σ.contents).flatten ∧
    (∀ x, x < σ.seqs.length → σ'.contents x = σ.contents x) := by
  intro σ'
  have hc := inv_copyOp h ht0
  have hl : (copyOp σ t0).seqs.length = σ.seqs.length + 1 := by
    rw [copyOp_eq, addSeq_length, alloc_seqs]
  obtain ⟨c1, c2, c3, c4⟩ := concatRest_spec (t := σ.seqs.length) w us hc (by omega)
    (fun u hu => by have := hus u hu; omega)
  refine ⟨c1, by rw [c2, hl], ?_, ?_⟩
  · rw [c3, copyOp_contents_new h ht0]
    congr 2
    apply List.map_congr_left
    intro x hx
    exact copyOp_contents_old h t0 (hus x hx)
  · intro x hx
    rw [c4 x (by omega) (by omega), copyOp_contents_old h t0 hx]
/-- the common shape of the loops of `_op`: fill the ranges `ds` of buffer `db` with elements computed
    from the current state (proof device) -/
def genLoop {α : Type} (g : State → α → Elem) (σ : State) (db : Nat) : List (Nat × Nat) → List α → State
  | d :: ds, a :: as => genLoop g (setRange σ db d (g σ a)) db ds as
  | _, _ => σ

theorem opLoop_eq_genLoop (f : Elem → Elem) (db sb : Nat) (ds : List (Nat × Nat)) :
    ∀ (ss : List (Nat × Nat)) (σ : State),
    opLoop f σ db sb ds ss = genLoop (fun σ s => f ((σ.bufAt sb).slice s.1 s.2)) σ db ds ss := by
  induction ds with
  | nil => intro ss σ; simp [opLoop, genLoop]
  | cons d ds ih =>
    intro ss σ
    cases ss with
    | nil => simp [opLoop, genLoop]
    | cons s ss => simp only [opLoop, genLoop]; exact ih ss _

/-- filling a private buffer (no live sequence on it) at packed ranges from values that do not depend on
    that buffer: the packed ranges then hold exactly those values; nothing else changes -/
theorem genLoop_spec {α : Type} (g : State → α → Elem) (db : Nat)
    (hg : ∀ (σ σ' : State) (a : α), (∀ b, b ≠ db → σ'.bufAt b = σ.bufAt b) → g σ' a = g σ a) :
    ∀ (as : List α) (n : Nat) (σ : State), db < σ.heap.length → Inv σ →
    (∀ (i : Nat) (s : Seq), σ.seqs[i]? = some s → s.buf ≠ db) →
    n + (as.map (fun a => (g σ a).length)).sum ≤ (σ.bufAt db).rows.length →
    Inv (genLoop g σ db (packRanges n (as.map (fun a => (g σ a).length))) as) ∧
    (genLoop g σ db (packRanges n (as.map (fun a => (g σ a).length))) as).seqs = σ.seqs ∧
    (genLoop g σ db (packRanges n (as.map (fun a => (g σ a).length))) as).heap.length = σ.heap.length ∧
    (∀ b, b ≠ db → (genLoop g σ db (packRanges n (as.map (fun a => (g σ a).length))) as).bufAt b = σ.bufAt b) ∧
    ((genLoop g σ db (packRanges n (as.map (fun a => (g σ a).length))) as).bufAt db).rows.length =
      (σ.bufAt db).rows.length ∧
    (∀ o l, o + l ≤ n →
      ((genLoop g σ db (packRanges n (as.map (fun a => (g σ a).length))) as).bufAt db).slice o l =
        (σ.bufAt db).slice o l) ∧
    contentsOf ((genLoop g σ db (packRanges n (as.map (fun a => (g σ a).length))) as).bufAt db)
      (packRanges n (as.map (fun a => (g σ a).length))) = as.map (g σ) := by
  intro as
  induction as with
  | nil =>
    intro n σ _ h _ _
    refine ⟨h, rfl, rfl, fun _ _ => rfl, rfl, fun _ _ _ => rfl, ?_⟩
    simp [packRanges, contentsOf]
  | cons a as ih =>
    intro n σ hdb h hfree hlen
    simp only [List.map_cons, packRanges, genLoop, List.sum_cons] at hlen ⊢
    let σ1 := setRange σ db (n, (g σ a).length) (g σ a)
    have hb1 : σ1.bufAt db = (σ.bufAt db).write n (g σ a) := by
      simp only [σ1, setRange, setBuf_bufAt, hdb, and_self, if_true]
    have hoth1 : ∀ b, b ≠ db → σ1.bufAt b = σ.bufAt b := by
      intro b hb; simp only [σ1, setRange, setBuf_bufAt]; rw [if_neg (by omega)]
    have hlen1 : (σ1.bufAt db).rows.length = (σ.bufAt db).rows.length := by
      rw [hb1, write_rows_length _ _ _ (by omega)]; omega
    have hg1 : ∀ x, g σ1 x = g σ x := fun x => hg σ σ1 x hoth1
    have hmap : as.map (fun a => (g σ1 a).length) = as.map (fun a => (g σ a).length) := by
      apply List.map_congr_left; intro x _; rw [hg1]
    have h1 : Inv σ1 := by
      refine inv_setBuf h db _ ?_ ?_
      · have := h.capOk db hdb
        have hc : ((σ.bufAt db).write n (g σ a)).cap = (σ.bufAt db).cap := rfl
        rw [hc, ← hb1, hlen1]; exact this
      · intro i s hs hb; exact absurd hb (hfree i s hs)
    have := ih (n + (g σ a).length) σ1 (by simp only [σ1, setRange, setBuf_heap_length]; exact hdb) h1
      (fun i s hs => hfree i s hs) (by rw [hmap, hlen1]; omega)
    rw [hmap] at this
    obtain ⟨i1, i2, i3, i4, i5, i6, i7⟩ := this
    refine ⟨i1, i2, by rw [i3]; simp [σ1, setRange, setBuf_heap_length], ?_, by rw [i5, hlen1], ?_, ?_⟩
    · intro b hb; rw [i4 b hb, hoth1 b hb]
    · intro o l hol
      rw [i6 o l (by omega), hb1]
      exact slice_write_below _ _ _ _ _ (by omega) hol
    · simp only [contentsOf, List.map_cons] at i7 ⊢
      congr 1
      · rw [i6 n (g σ a).length (by omega), hb1]
        exact slice_write_same _ _ _ (by omega)
      · rw [i7]; apply List.map_congr_left; intro x _; exact hg1 x
theorem seqAt_of_seqs_eq {σ σ' : State} (h : σ'.seqs = σ.seqs) (u : Nat) : σ'.seqAt u = σ.seqAt u := by
  show List.getD _ u default = List.getD _ u default
  rw [h]

/-- a result sequence filled by `genLoop` in the private compacted copy of `t`, then made live -/
theorem fill_copy_spec {α : Type} {σ : State} (h : Inv σ) {t : Nat} (ht : t < σ.seqs.length)
    (g : State → α → Elem) (as : List α)
    (hg : ∀ (σ1 σ2 : State) (a : α), (∀ b, b ≠ σ.heap.length → σ2.bufAt b = σ1.bufAt b) → g σ2 a = g σ1 a)
    (hlens : as.map (fun a => (g (σ.alloc (copyBuf σ t)).1 a).length) = (σ.seqAt t).ranges.map (·.2)) :
    let σ' := (σ.alloc (copyBuf σ t)).1
    let σ'' := (genLoop g σ' σ.heap.length (copySeq σ t).2.ranges as).addSeq (copySeq σ t).2
    Inv σ'' ∧ σ''.seqs.length = σ.seqs.length + 1 ∧
    σ''.contents σ.seqs.length = as.map (g σ') ∧
    (∀ u, u < σ.seqs.length → σ''.contents u = σ.contents u) ∧
    (∀ b, b < σ.heap.length → σ''.bufAt b = σ.bufAt b) := by
  intro σ' σ''
  have hi' : Inv σ' := inv_alloc h _ (copyBuf_capOk h ht)
  have hdb : σ.heap.length < σ'.heap.length := by simp [σ', alloc_heap_length]
  have hfree : ∀ (i : Nat) (s : Seq), σ'.seqs[i]? = some s → s.buf ≠ σ.heap.length := by
    intro i s hs; have := h.bufLt i s hs; omega
  have hrl : (σ'.bufAt σ.heap.length).rows.length = ((σ.seqAt t).ranges.map (·.2)).sum := by
    simp only [σ', alloc_bufAt, if_true]; exact copyBuf_rows_length h ht
  have hcr : (copySeq σ t).2.ranges = packRanges 0 (as.map (fun a => (g σ' a).length)) := by
    rw [copySeq_snd, hlens]
  obtain ⟨i1, i2, i3, i4, i5, _, i7⟩ := genLoop_spec g σ.heap.length hg as 0 σ' hdb hi' hfree
    (by rw [hlens, hrl]; omega)
  rw [← hcr] at i1 i2 i3 i4 i5 i7
  generalize hL : genLoop g σ' σ.heap.length (copySeq σ t).2.ranges as = L at i1 i2 i3 i4 i5 i7
  have ok0 := copy_ownerOK h ht
  have ok : OwnerOK L σ.heap.length (copySeq σ t).2.ranges := by
    rw [copySeq_snd]
    refine ⟨by rw [i3]; exact hdb, ok0.pos, ?_, ok0.tail, ok0.cells⟩
    rw [i5]; exact ok0.inb
  have hLs : L.seqs.length = σ.seqs.length := by rw [i2]; rfl
  have hsnd : (copySeq σ t).2 = Seq.mk σ.heap.length (copySeq σ t).2.ranges false defaultBufBytes := by
    rw [copySeq_snd]
  have hσ'' : σ'' = L.addSeq (copySeq σ t).2 := by simp only [σ'', hL]
  refine ⟨?_, ?_, ?_, ?_, ?_⟩
  · rw [hσ'']
    rw [hsnd]
    exact inv_addOwner i1 _ _ ok (fun i s hs => by rw [i2] at hs; exact hfree i s hs) _
  · rw [hσ'']
    rw [addSeq_length, hLs]
  · rw [hσ'']
    rw [← hLs, contents_addSeq_new]
    have : (copySeq σ t).2.buf = σ.heap.length := by rw [copySeq_snd]
    rw [this]; exact i7
  · intro u hu
    rw [hσ'']
    rw [contents_addSeq_old _ _ (by omega)]
    have hsu : L.seqAt u = σ.seqAt u := seqAt_of_seqs_eq i2 u
    have hbu := h.bufLt u _ (get_seqAt hu)
    simp only [contents_def, hsu]
    rw [i4 _ (by omega)]
    simp only [σ', alloc_bufAt]; rw [if_neg (by omega)]
  · intro b hb
    rw [hσ'']
    rw [addSeq_bufAt, i4 b (by omega)]
    simp only [σ', alloc_bufAt]; rw [if_neg (by omega)]

/-- `seq op k`, `-seq`, `abs(seq)`: a new sequence with the operation applied to every array;
    no live sequence changes -/
theorem opNew_spec (f : Elem → Elem) (hf : ∀ e, (f e).length = e.length) {σ σ'' : State} (h : Inv σ)
    {t : Nat} (ht : t < σ.seqs.length) (hs : opNew f σ t = some σ'') :
    Inv σ'' ∧ σ''.seqs.length = σ.seqs.length + 1 ∧
    σ''.contents σ.seqs.length = (σ.contents t).map f ∧
    (∀ u, u < σ.seqs.length → σ''.contents u = σ.contents u) := by
  unfold opNew at hs
  simp only at hs
  split at hs
  · cases hs
  · cases hs
    have hsb := h.bufLt t _ (get_seqAt ht)
    have hb' : ((σ.alloc (copyBuf σ t)).1).bufAt (σ.seqAt t).buf = σ.bufAt (σ.seqAt t).buf := by
      rw [alloc_bufAt, if_neg (by omega)]
    have := fill_copy_spec h ht (fun σ1 s => f ((σ1.bufAt (σ.seqAt t).buf).slice s.1 s.2)) (σ.seqAt t).ranges
      (fun σ1 σ2 a hb => by
        show f ((σ2.bufAt (σ.seqAt t).buf).slice a.1 a.2) = f ((σ1.bufAt (σ.seqAt t).buf).slice a.1 a.2)
        rw [hb _ (by omega)])
      (by
        apply List.map_congr_left
        intro r hr
        show (f (((σ.alloc (copyBuf σ t)).1.bufAt (σ.seqAt t).buf).slice r.1 r.2)).length = r.2
        rw [hf, hb', slice_length _ _ _ (h.inb t _ (get_seqAt ht) r hr)])
    obtain ⟨a1, a2, a3, a4, _⟩ := this
    rw [← opLoop_eq_genLoop] at a1 a2 a3 a4
    have hc : (copySeq σ t).2.buf = σ.heap.length := by rw [copySeq_snd]
    rw [copySeq_fst, hc]
    refine ⟨a1, a2, ?_, a4⟩
    rw [a3]
    simp only [hb', contents_def, contentsOf, List.map_map]
    rfl
theorem opLoop2_eq_genLoop (code : Nat) (db sb vb : Nat) (ds : List (Nat × Nat)) :
    ∀ (ss vs : List (Nat × Nat)) (σ : State),
    opLoop2 code σ db sb vb ds ss vs =
      genLoop (fun σ (p : (Nat × Nat) × (Nat × Nat)) =>
        arith2 code ((σ.bufAt sb).slice p.1.1 p.1.2) ((σ.bufAt vb).slice p.2.1 p.2.2)) σ db ds (ss.zip vs) := by
  induction ds with
  | nil => intro ss vs σ; simp [opLoop2, genLoop]
  | cons d ds ih =>
    intro ss vs σ
    cases ss with
    | nil => simp [opLoop2, genLoop]
    | cons s ss =>
      cases vs with
      | nil => simp [opLoop2, genLoop]
      | cons v vs => simp only [opLoop2, genLoop, List.zip_cons_cons]; exact ih ss vs _

theorem arith2_length (code : Nat) (a b : Elem) (h : a.length = b.length) : (arith2 code a b).length = a.length := by
  simp [arith2, List.length_zipWith, h]

theorem zip_lens (A B : Buf) : ∀ (ss vs : List (Nat × Nat)), ss.map (·.2) = vs.map (·.2) →
    endsLe ss A.rows.length → endsLe vs B.rows.length → ∀ (code : Nat),
    (ss.zip vs).map (fun p => (arith2 code (A.slice p.1.1 p.1.2) (B.slice p.2.1 p.2.2)).length) = ss.map (·.2) := by
  intro ss
  induction ss with
  | nil => intro vs _ _ _ _; simp
  | cons s ss ih =>
    intro vs hm ha hb code
    cases vs with
    | nil => simp at hm
    | cons v vs =>
      simp only [List.map_cons, List.cons.injEq] at hm
      simp only [List.zip_cons_cons, List.map_cons]
      have h1 := slice_length A s.1 s.2 (ha s (by simp))
      have h2 := slice_length B v.1 v.2 (hb v (by simp))
      rw [arith2_length _ _ _ (by rw [h1, h2]; exact hm.1), h1]
      rw [ih vs hm.2 (fun r hr => ha r (by simp [hr])) (fun r hr => hb r (by simp [hr])) code]

theorem map_zip_contents (A B : Buf) (F : Elem → Elem → Elem) (ss vs : List (Nat × Nat)) :
    (ss.zip vs).map (fun p => F (A.slice p.1.1 p.1.2) (B.slice p.2.1 p.2.2)) =
      List.zipWith F (contentsOf A ss) (contentsOf B vs) := by
  induction ss generalizing vs with
  | nil => simp [contentsOf]
  | cons s ss ih =>
    cases vs with
    | nil => simp [contentsOf]
    | cons v vs =>
      simp only [List.zip_cons_cons, List.map_cons, contentsOf, List.zipWith_cons_cons]
      congr 1
      exact ih vs

/-- changing only the dtype tag of a buffer changes no contents -/
theorem retag_spec {σ : State} (h : Inv σ) (b d : Nat) :
    Inv (σ.setBuf b { σ.bufAt b with dt := d }) ∧
    (∀ u, (σ.setBuf b { σ.bufAt b with dt := d }).contents u = σ.contents u) ∧
    (σ.setBuf b { σ.bufAt b with dt := d }).seqs = σ.seqs := by
  refine ⟨?_, ?_, rfl⟩
  · by_cases hb : b < σ.heap.length
    · refine inv_setBuf h b _ (h.capOk b hb) ?_
      intro i s hs hsb
      have := h.inb i s hs; rw [hsb] at this; exact this
    · have : σ.setBuf b { σ.bufAt b with dt := d } = σ := by
        refine State.ext' (σ := σ.setBuf b { σ.bufAt b with dt := d }) (σ' := σ) ?_ rfl
        simp only [State.setBuf]
        exact List.set_eq_of_length_le (by omega)
      rw [this]; exact h
  · intro u
    refine contents_congr (σ := σ) (σ' := σ.setBuf b { σ.bufAt b with dt := d }) (u := u) rfl ?_
    intro r _
    simp only [seqAt_setBuf, setBuf_bufAt]
    split
    · rename_i hc; rw [hc.1]; rfl
    · rfl

/-- `seq op other` (other an ArraySequence with the same element lengths): a new sequence holding the
    elementwise results; no live sequence changes; `_check_shape` refusals and the empty case raise -/
theorem opSeq_spec (code : Nat) {σ σ'' : State} (h : Inv σ) {t v : Nat} (ht : t < σ.seqs.length)
    (hv : v < σ.seqs.length) (hs : opSeq code σ t v = .ok σ'') :
    Inv σ'' ∧ σ''.seqs.length = σ.seqs.length + 1 ∧
    σ''.contents σ.seqs.length = List.zipWith (arith2 code) (σ.contents t) (σ.contents v) ∧
    (∀ u, u < σ.seqs.length → σ''.contents u = σ.contents u) := by
  unfold opSeq at hs
  simp only at hs
  split at hs
  · cases hs
  · split at hs
    · cases hs
    · split at hs
      · cases hs
      · rename_i _ _ hm
        have hm' : (σ.seqAt t).ranges.map (·.2) = (σ.seqAt v).ranges.map (·.2) := by
          simpa [lensMatch] using hm
        have hsb := h.bufLt t _ (get_seqAt ht)
        have hvb := h.bufLt v _ (get_seqAt hv)
        have hb1 : ((σ.alloc (copyBuf σ t)).1).bufAt (σ.seqAt t).buf = σ.bufAt (σ.seqAt t).buf := by
          rw [alloc_bufAt, if_neg (by omega)]
        have hb2 : ((σ.alloc (copyBuf σ t)).1).bufAt (σ.seqAt v).buf = σ.bufAt (σ.seqAt v).buf := by
          rw [alloc_bufAt, if_neg (by omega)]
        have := fill_copy_spec h ht
          (fun σ1 (p : (Nat × Nat) × (Nat × Nat)) =>
            arith2 code ((σ1.bufAt (σ.seqAt t).buf).slice p.1.1 p.1.2) ((σ1.bufAt (σ.seqAt v).buf).slice p.2.1 p.2.2))
          ((σ.seqAt t).ranges.zip (σ.seqAt v).ranges)
          (fun σ1 σ2 a hb => by
            show arith2 code ((σ2.bufAt _).slice _ _) ((σ2.bufAt _).slice _ _) =
              arith2 code ((σ1.bufAt _).slice _ _) ((σ1.bufAt _).slice _ _)
            rw [hb _ (by omega), hb _ (by omega)])
          (by
            show ((σ.seqAt t).ranges.zip (σ.seqAt v).ranges).map (fun p =>
              (arith2 code (((σ.alloc (copyBuf σ t)).1.bufAt (σ.seqAt t).buf).slice p.1.1 p.1.2)
                (((σ.alloc (copyBuf σ t)).1.bufAt (σ.seqAt v).buf).slice p.2.1 p.2.2)).length) = _
            rw [hb1, hb2]
            exact zip_lens _ _ _ _ hm' (h.inb t _ (get_seqAt ht)) (h.inb v _ (get_seqAt hv)) code)
        obtain ⟨a1, a2, a3, a4, _⟩ := this
        rw [← opLoop2_eq_genLoop] at a1 a2 a3 a4
        have hc : (copySeq σ t).2.buf = σ.heap.length := by rw [copySeq_snd]
        have ha3 : ((opLoop2 code (σ.alloc (copyBuf σ t)).1 σ.heap.length (σ.seqAt t).buf (σ.seqAt v).buf
            (copySeq σ t).2.ranges (σ.seqAt t).ranges (σ.seqAt v).ranges).addSeq (copySeq σ t).2).contents
            σ.seqs.length = List.zipWith (arith2 code) (σ.contents t) (σ.contents v) := by
          rw [a3]
          show ((σ.seqAt t).ranges.zip (σ.seqAt v).ranges).map (fun p =>
              arith2 code (((σ.alloc (copyBuf σ t)).1.bufAt (σ.seqAt t).buf).slice p.1.1 p.1.2)
                (((σ.alloc (copyBuf σ t)).1.bufAt (σ.seqAt v).buf).slice p.2.1 p.2.2)) = _
          rw [hb1, hb2]
          exact map_zip_contents _ _ _ _ _
        rw [copySeq_fst, hc] at hs
        split at hs
        · cases hs
          have r := retag_spec a1 σ.heap.length boolTag
          refine ⟨r.1, by rw [← a2]; rfl, ?_, ?_⟩
          · rw [← ha3]; exact r.2.1 _
          · intro u hu; rw [← a4 u hu]; exact r.2.1 _
        · cases hs
          exact ⟨a1, a2, ha3, a4⟩
theorem genLoop_frame {α : Type} (g : State → α → Elem) (db : Nat) (ds : List (Nat × Nat)) :
    ∀ (as : List α) (σ : State),
    (genLoop g σ db ds as).seqs = σ.seqs ∧ (genLoop g σ db ds as).heap.length = σ.heap.length ∧
    ∀ b', b' ≠ db → (genLoop g σ db ds as).bufAt b' = σ.bufAt b' := by
  induction ds with
  | nil => intro as σ; exact ⟨rfl, rfl, fun _ _ => rfl⟩
  | cons d ds ih =>
    intro as σ
    cases as with
    | nil => exact ⟨rfl, rfl, fun _ _ => rfl⟩
    | cons a as =>
      simp only [genLoop]
      obtain ⟨a1, a2, a3⟩ := ih as (setRange σ db d (g σ a))
      refine ⟨a1, by rw [a2]; simp [setRange, setBuf_heap_length], ?_⟩
      intro b' hb'
      rw [a3 b' hb']
      simp only [setRange, setBuf_bufAt]
      rw [if_neg (by omega)]

/-- the in-place loop with an ArraySequence operand keeps the invariant -/
theorem opLoop2_inplace_inv (code : Nat) {t v : Nat} (rs : List (Nat × Nat)) :
    ∀ (vs : List (Nat × Nat)) {σ : State}, Inv σ → t < σ.seqs.length → v < σ.seqs.length →
    (∀ r ∈ rs, r ∈ (σ.seqAt t).ranges) → (∀ q ∈ vs, q ∈ (σ.seqAt v).ranges) →
    rs.map (·.2) = vs.map (·.2) →
    Inv (opLoop2 code σ (σ.seqAt t).buf (σ.seqAt t).buf (σ.seqAt v).buf rs rs vs) := by
  induction rs with
  | nil => intro vs σ h _ _ _ _ _; simpa [opLoop2] using h
  | cons r rs ih =>
    intro vs σ h ht hv hr hq hm
    cases vs with
    | nil => simp at hm
    | cons q vs =>
      simp only [List.map_cons, List.cons.injEq] at hm
      simp only [opLoop2]
      have hr0 := hr r (by simp)
      have hq0 := hq q (by simp)
      have h1 := slice_length _ _ _ (h.inb t _ (get_seqAt ht) r hr0)
      have h2 := slice_length _ _ _ (h.inb v _ (get_seqAt hv) q hq0)
      have hl : (arith2 code ((σ.bufAt (σ.seqAt t).buf).slice r.1 r.2)
          ((σ.bufAt (σ.seqAt v).buf).slice q.1 q.2)).length = r.2 := by
        rw [arith2_length _ _ _ (by rw [h1, h2]; exact hm.1), h1]
      have hi := inv_setRange h ht hr0 hl
      exact ih vs (σ := setRange σ (σ.seqAt t).buf r _) hi ht hv
        (fun x hx => hr x (by simp [hx])) (fun x hx => hq x (by simp [hx])) hm.2

/-- `seq op= other` (other an ArraySequence): the invariant is kept, no sequence object changes, and NONE
    of the arrays of a sequence that does not share `seq`'s buffer change.
    FULL STATEMENT (not yet proved): … and ALL the arrays a sequence `u` shares with `seq` take the value
    `a op b` of the sequential list loop `for a, b in zip(S, V): a op= b`, also when `other` shares
    `seq`'s buffer (aliasing operands) or `seq` selects an array twice.  Proved for `other` in another
    buffer and `seq` without repeats: `iopSeq_all_or_none`, `iopSeq_target` (Props/C15.lean).
    Missing: the sequential-read analysis of `opLoop2` when the operands alias. -/
theorem iopSeq_spec_partial (code : Nat) {σ σ'' : State} (h : Inv σ) {t v : Nat} (ht : t < σ.seqs.length)
    (hv : v < σ.seqs.length) (hs : iopSeq code σ t v = .ok σ'') :
    Inv σ'' ∧ σ''.seqs = σ.seqs ∧
    (∀ u, (σ.seqAt u).buf ≠ (σ.seqAt t).buf → σ''.contents u = σ.contents u) := by
  unfold iopSeq at hs
  simp only at hs
  split at hs
  · cases hs
  · split at hs
    · cases hs
    · split at hs
      · cases hs
      · rename_i _ _ hm
        cases hs
        have hm' : (σ.seqAt t).ranges.map (·.2) = (σ.seqAt v).ranges.map (·.2) := by
          simp only [Bool.or_eq_true, Bool.not_eq_true', decide_eq_true_eq, not_or, Bool.not_eq_false,
            lensMatch, beq_iff_eq] at hm
          exact hm.1
        have hf := genLoop_frame (fun σ1 (p : (Nat × Nat) × (Nat × Nat)) =>
          arith2 code ((σ1.bufAt (σ.seqAt t).buf).slice p.1.1 p.1.2) ((σ1.bufAt (σ.seqAt v).buf).slice p.2.1 p.2.2))
          (σ.seqAt t).buf (σ.seqAt t).ranges ((σ.seqAt t).ranges.zip (σ.seqAt v).ranges) σ
        rw [← opLoop2_eq_genLoop] at hf
        refine ⟨opLoop2_inplace_inv code _ _ h ht hv (fun _ hr => hr) (fun _ hq => hq) hm', hf.1, ?_⟩
        intro u hu
        refine contents_congr (u := u) ?_ ?_
        · rw [seqAt_of_seqs_eq hf.1]
        · intro r _
          rw [seqAt_of_seqs_eq hf.1, hf.2.2 _ hu]
/-- the right operand paired with range `q` of the left operand, if `q` is one of the ranges written -/
def partnerOf (rs vs : List (Nat × Nat)) (q : Nat × Nat) : Option (Nat × Nat) :=
  ((rs.zip vs).find? (fun p => p.1 == q)).map (·.2)

theorem partnerOf_cons (r v : Nat × Nat) (rs vs : List (Nat × Nat)) (q : Nat × Nat) :
    partnerOf (r :: rs) (v :: vs) q = if r = q then some v else partnerOf rs vs q := by
  simp only [partnerOf, List.zip_cons_cons, List.find?_cons]
  by_cases h : r = q
  · simp [h]
  · have : (r == q) = false := by simpa using h
    simp [h, this]

theorem partnerOf_none_of_not_mem (rs vs : List (Nat × Nat)) (q : Nat × Nat) (h : q ∉ rs) :
    partnerOf rs vs q = none := by
  induction rs generalizing vs with
  | nil => simp [partnerOf]
  | cons r rs ih =>
    cases vs with
    | nil => simp [partnerOf]
    | cons v vs =>
      rw [partnerOf_cons]
      simp only [List.mem_cons, not_or] at h
      rw [if_neg (fun e => h.1 e.symm)]
      exact ih vs h.2

/-- the in-place loop of `_op` with an ArraySequence operand stored in ANOTHER buffer: a range `q` of the
    left buffer, equal to or disjoint from every range written, becomes `q op partner` exactly when it
    is one of the ranges written -/
theorem opLoop2_slice (code : Nat) (db vb : Nat) (hne : vb ≠ db) (rs : List (Nat × Nat)) :
    ∀ (vs : List (Nat × Nat)) (σ : State), db < σ.heap.length → rs.Nodup →
    rs.map (·.2) = vs.map (·.2) →
    (∀ r ∈ rs, r.1 + r.2 ≤ (σ.bufAt db).rows.length ∧ 0 < r.2) →
    (∀ v ∈ vs, v.1 + v.2 ≤ (σ.bufAt vb).rows.length) →
    ∀ (q : Nat × Nat), q.1 + q.2 ≤ (σ.bufAt db).rows.length → 0 < q.2 → (∀ r ∈ rs, eqOrDisj q r) →
    ((opLoop2 code σ db db vb rs rs vs).bufAt db).slice q.1 q.2 =
      match partnerOf rs vs q with
      | some v => arith2 code ((σ.bufAt db).slice q.1 q.2) ((σ.bufAt vb).slice v.1 v.2)
      | none => (σ.bufAt db).slice q.1 q.2 := by
  induction rs with
  | nil => intro vs σ _ _ _ _ _ q _ _ _; simp [opLoop2, partnerOf]
  | cons r rs ih =>
    intro vs σ hb hnd hm hin hvin q hq hqp hqc
    cases vs with
    | nil => simp at hm
    | cons v vs =>
      simp only [List.map_cons, List.cons.injEq] at hm
      simp only [opLoop2]
      have hrin := hin r (by simp)
      have hvin0 := hvin v (by simp)
      have hnd' := List.nodup_cons.mp hnd
      have hel : (arith2 code ((σ.bufAt db).slice r.1 r.2) ((σ.bufAt vb).slice v.1 v.2)).length = r.2 := by
        have h1 := slice_length (σ.bufAt db) r.1 r.2 hrin.1
        have h2 := slice_length (σ.bufAt vb) v.1 v.2 hvin0
        rw [arith2_length _ _ _ (by rw [h1, h2]; exact hm.1), h1]
      generalize hE : arith2 code ((σ.bufAt db).slice r.1 r.2) ((σ.bufAt vb).slice v.1 v.2) = el at hel
      have hb1 : (setRange σ db r el).bufAt db = (σ.bufAt db).write r.1 el := by
        simp only [setRange, setBuf_bufAt, hb, and_self, if_true]
      have hv1 : (setRange σ db r el).bufAt vb = σ.bufAt vb := by
        simp only [setRange, setBuf_bufAt]; rw [if_neg (by omega)]
      have hlen1 : ((setRange σ db r el).bufAt db).rows.length = (σ.bufAt db).rows.length := by
        rw [hb1, write_rows_length _ _ _ (by omega)]; omega
      have ih' := ih vs (setRange σ db r el) (by simp only [setRange, setBuf_heap_length]; exact hb) hnd'.2 hm.2
        (fun x hx => by rw [hlen1]; exact hin x (by simp [hx]))
        (fun x hx => by rw [hv1]; exact hvin x (by simp [hx]))
        q (by rw [hlen1]; exact hq) hqp (fun x hx => hqc x (by simp [hx]))
      rw [ih', partnerOf_cons, hv1]
      by_cases hqr : r = q
      · subst hqr
        rw [partnerOf_none_of_not_mem rs vs r hnd'.1]
        simp only [if_true]
        rw [hb1]
        have := slice_write_same (σ.bufAt db) r.1 el (by omega)
        rw [hel] at this; rw [this, hE]
      · have hdis : q.1 + q.2 ≤ r.1 ∨ r.1 + r.2 ≤ q.1 := by
          rcases hqc r (by simp) with h | h | h
          · exact absurd h.symm hqr
          · exact Or.inl h
          · exact Or.inr h
        have hsame : ((setRange σ db r el).bufAt db).slice q.1 q.2 = (σ.bufAt db).slice q.1 q.2 := by
          rw [hb1]
          rcases hdis with h | h
          · exact slice_write_below _ _ _ _ _ (by omega) h
          · exact slice_write_above _ _ _ _ _ (by omega) (by omega)
        simp only [hqr, if_false, hsame]
theorem map_partner_zip {β : Type} (F : Nat × Nat → Nat × Nat → β) (G : Nat × Nat → β) :
    ∀ (rs vs : List (Nat × Nat)), rs.Nodup → rs.length = vs.length →
    rs.map (fun q => match partnerOf rs vs q with | some p => F q p | none => G q) = List.zipWith F rs vs := by
  intro rs
  induction rs with
  | nil => intro vs _ _; simp
  | cons r rs ih =>
    intro vs hnd hl
    cases vs with
    | nil => simp at hl
    | cons v vs =>
      have hnd' := List.nodup_cons.mp hnd
      simp only [List.map_cons, List.zipWith_cons_cons, partnerOf_cons, if_true]
      congr 1
      rw [← ih vs hnd'.2 (by simpa using hl)]
      apply List.map_congr_left
      intro q hq
      have : r ≠ q := fun e => hnd'.1 (e ▸ hq)
      rw [if_neg this]

theorem iopSeq_ok_lens (code : Nat) {σ σ'' : State} {t v : Nat} (hs : iopSeq code σ t v = .ok σ'') :
    (σ.seqAt t).ranges.map (·.2) = (σ.seqAt v).ranges.map (·.2) := by
  unfold iopSeq at hs
  simp only at hs
  split at hs
  · cases hs
  · split at hs
    · cases hs
    · split at hs
      · cases hs
      · rename_i _ _ hm
        simp only [Bool.or_eq_true, Bool.not_eq_true', decide_eq_true_eq, not_or, Bool.not_eq_false,
          lensMatch, beq_iff_eq] at hm
        exact hm.1

end Nb.C15
