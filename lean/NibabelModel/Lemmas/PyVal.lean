/-
  Lemmas/PyVal — rewriting lemmas that evaluate the operators of `Basic/PyVal` on constructors, so
  that `simp` turns a function translated by `harness/py2lean.py` (a `do` block in `Except Err`)
  into nested `if … then … else` over integer conditions.  Core Lean only.
-/
import NibabelModel.Basic.PyVal
namespace Nb.Py
namespace V

@[simp] theorem bind_ok {α β} (a : α) (f : α → M β) : (Except.ok a >>= f) = f a := rfl
@[simp] theorem bind_error {α β} (e : Err) (f : α → M β) : ((Except.error e : M α) >>= f) = Except.error e := rfl
@[simp] theorem bind_pure' {α β} (a : α) (f : α → M β) : ((pure a : M α) >>= f) = f a := rfl
@[simp] theorem bind_throw {α β} (e : Err) (f : α → M β) : ((throw e : M α) >>= f) = Except.error e := rfl
@[simp] theorem pure_eq_ok {α} (a : α) : (pure a : M α) = Except.ok a := rfl
@[simp] theorem throw_eq_error {α} (e : Err) : (throw e : M α) = Except.error e := rfl

@[simp] theorem add_int (a b : Int) : add (.int a) (.int b) = .ok (.int (a + b)) := rfl
@[simp] theorem sub_int (a b : Int) : sub (.int a) (.int b) = .ok (.int (a - b)) := rfl
@[simp] theorem mul_int (a b : Int) : mul (.int a) (.int b) = .ok (.int (a * b)) := rfl
@[simp] theorem neg_int (a : Int) : neg (.int a) = .ok (.int (-a)) := rfl
@[simp] theorem abs_int (a : Int) : abs (.int a) = .ok (.int (if a < 0 then -a else a)) := rfl
@[simp] theorem lt_int (a b : Int) : lt (.int a) (.int b) = .ok (.bool (decide (a < b))) := rfl
@[simp] theorem le_int (a b : Int) : le (.int a) (.int b) = .ok (.bool (decide (a ≤ b))) := rfl
@[simp] theorem gt_int (a b : Int) : gt (.int a) (.int b) = .ok (.bool (decide (a > b))) := rfl
@[simp] theorem ge_int (a b : Int) : ge (.int a) (.int b) = .ok (.bool (decide (a ≥ b))) := rfl
@[simp] theorem truediv_int (a b : Int) :
    truediv (.int a) (.int b) = if b = 0 then .error .zeroDivision else .ok (.frac a b) := by
  simp only [truediv]; rfl
@[simp] theorem truthy_bool (b : Bool) : truthy (.bool b) = .ok b := rfl
@[simp] theorem truthy_none : truthy .none = .ok false := rfl
@[simp] theorem truthy_int (i : Int) : truthy (.int i) = .ok (i != 0) := rfl
@[simp] theorem truthy_str (s : String) : truthy (.str s) = .ok (s != "") := rfl
@[simp] theorem truthy_slice (a b c : V) : truthy (.slice a b c) = .ok true := rfl
@[simp] theorem toInt_int (a : Int) : toInt (.int a) = .ok (.int a) := rfl
@[simp] theorem toInt_frac (n d : Int) : toInt (.frac n d) = .ok (.int (Int.tdiv n d)) := rfl
@[simp] theorem toInt_none : toInt .none = .error .typeError := rfl
@[simp] theorem toInt_slice (a b c : V) : toInt (.slice a b c) = .error .typeError := rfl
@[simp] theorem npCeil_frac (n d : Int) : npCeil (.frac n d) = .ok (.int (-(Int.fdiv (-n) d))) := rfl
@[simp] theorem npCeil_int (a : Int) : npCeil (.int a) = .ok (.int a) := rfl
@[simp] theorem attr_start (a b c : V) : attr "start" (.slice a b c) = .ok a := rfl
@[simp] theorem attr_stop (a b c : V) : attr "stop" (.slice a b c) = .ok b := by
  simp [attr]
@[simp] theorem attr_step (a b c : V) : attr "step" (.slice a b c) = .ok c := by
  simp [attr]
@[simp] theorem unpack3_tup3 (a b c : V) : unpack3 (.tup3 a b c) = .ok (a, b, c) := rfl
@[simp] theorem unpack2_tup2 (a b : V) : unpack2 (.tup2 a b) = .ok (a, b) := rfl
@[simp] theorem isNone_none : isNone .none = true := rfl
@[simp] theorem isNone_int (a : Int) : isNone (.int a) = false := rfl
@[simp] theorem isNone_slice (a b c : V) : isNone (.slice a b c) = false := rfl
@[simp] theorem isIntegral_int (a : Int) : isIntegral (.int a) = true := rfl
@[simp] theorem isIntegral_slice (a b c : V) : isIntegral (.slice a b c) = false := rfl
@[simp] theorem isIntegral_none : isIntegral .none = false := rfl
@[simp] theorem pyEq_int (a b : Int) : pyEq (.int a) (.int b) = (a == b) := rfl
@[simp] theorem pyEq_none_none : pyEq .none .none = true := rfl
@[simp] theorem pyEq_none_int (a : Int) : pyEq .none (.int a) = false := rfl
@[simp] theorem pyEq_int_none (a : Int) : pyEq (.int a) .none = false := rfl
@[simp] theorem pyEq_str (a b : String) : pyEq (.str a) (.str b) = (a == b) := rfl
@[simp] theorem pyEq_none_str (a : String) : pyEq .none (.str a) = false := rfl
@[simp] theorem pyEq_str_none (a : String) : pyEq (.str a) .none = false := rfl
@[simp] theorem pyEq_slice (a b c a' b' c' : V) :
    pyEq (.slice a b c) (.slice a' b' c') = (pyEq a a' && pyEq b b' && pyEq c c') := rfl
@[simp] theorem pyEq_int_slice (i : Int) (a b c : V) : pyEq (.int i) (.slice a b c) = false := rfl
@[simp] theorem pyEq_int_frac (a n d : Int) : pyEq (.int a) (.frac n d) = decide (a * d = n) := rfl
@[simp] theorem pyEq_frac_int (a n d : Int) : pyEq (.frac n d) (.int a) = decide (a * d = n) := rfl
@[simp] theorem ofOptInt_none : ofOptInt Option.none = .none := rfl
@[simp] theorem ofOptInt_some (i : Int) : ofOptInt (some i) = .int i := rfl

@[simp] theorem toPySlice_ofPySlice (s : PySlice) : toPySlice? (ofPySlice s) = some s := by
  cases s with | mk a b c => cases a <;> cases b <;> cases c <;> rfl

/-- `slicer.indices(n)` on a slice object of ints/None and a natural length -/
theorem sliceIndices_ofPySlice (s : PySlice) (n : Nat) :
    sliceIndices (ofPySlice s) (.int (n : Int)) =
      if s.stepVal = 0 then .error .valueError
      else .ok (.tup3 (.int (s.indices n).1) (.int (s.indices n).2.1) (.int (s.indices n).2.2)) := by
  unfold sliceIndices
  simp only [toPySlice_ofPySlice]
  have : ¬ ((n : Int) < 0) := by omega
  simp [this]

/-! ### lists -/

@[simp] theorem truthy_nil : truthy .nil = .ok false := rfl
@[simp] theorem truthy_cons (a b : V) : truthy (.cons a b) = .ok true := rfl
@[simp] theorem isNone_nil : isNone .nil = false := rfl
@[simp] theorem isNone_cons (a b : V) : isNone (.cons a b) = false := rfl
@[simp] theorem isNone_bool (b : Bool) : isNone (.bool b) = false := rfl
@[simp] theorem isNone_str (s : String) : isNone (.str s) = false := rfl
@[simp] theorem isIntegral_str (s : String) : isIntegral (.str s) = false := rfl

@[simp] theorem ofList_nil : ofList [] = .nil := rfl
@[simp] theorem ofList_cons (x : V) (xs : List V) : ofList (x :: xs) = .cons x (ofList xs) := rfl

@[simp] theorem asList_ofList (l : List V) : asList (ofList l) = .ok (ofList l) := by
  cases l <;> rfl

@[simp] theorem len_ofList (l : List V) : len (ofList l) = .ok (.int (l.length : Nat)) := by
  induction l with
  | nil => rfl
  | cons x xs ih => simp [len, ih]

@[simp] theorem append_ofList (l : List V) (v : V) : append (ofList l) v = .ok (ofList (l ++ [v])) := by
  induction l with
  | nil => rfl
  | cons x xs ih => simp [append, ih]

theorem getNat_ofList (l : List V) (k : Nat) :
    getNat (ofList l) k = match l[k]? with | some v => .ok v | Option.none => .error .indexError := by
  induction l generalizing k with
  | nil => cases k <;> rfl
  | cons x xs ih => cases k with
    | zero => rfl
    | succ k => simp [getNat, ih]

@[simp] theorem getItem_nil (i : V) : getItem .nil i = getItemSeq .nil i := rfl
@[simp] theorem getItem_cons (a b i : V) : getItem (.cons a b) i = getItemSeq (.cons a b) i := rfl
@[simp] theorem setItem_nil (i v : V) : setItem .nil i v = setItemSeq .nil i v := rfl
@[simp] theorem setItem_cons (a b i v : V) : setItem (.cons a b) i v = setItemSeq (.cons a b) i v := rfl
theorem getItem_ofList (l : List V) (i : V) : getItem (ofList l) i = getItemSeq (ofList l) i := by
  cases l <;> rfl

theorem getItem_ofList_nat (l : List V) (k : Nat) :
    getItem (ofList l) (.int (k : Int)) =
      match l[k]? with | some v => .ok v | Option.none => .error .indexError := by
  rw [getItem_ofList]
  unfold getItemSeq
  simp [getNat_ofList]
  

@[simp] theorem extend_ofList (l m : List V) : extend (ofList l) (ofList m) = .ok (ofList (l ++ m)) := by
  induction l with
  | nil => simp [extend]
  | cons x xs ih => simp [extend, ih]

theorem replicateV_eq (a : V) (n : Nat) : replicateV a n = ofList (List.replicate n a) := by
  induction n with
  | zero => rfl
  | succ k ih => simp [replicateV, ih, List.replicate_succ]

theorem mul_single_int (a : V) (n : Int) :
    mul (.cons a .nil) (.int n) = .ok (ofList (List.replicate n.toNat a)) := by
  simp [mul, replicateV_eq]

theorem dropNat_ofList (l : List V) (k : Nat) : dropNat (ofList l) k = ofList (l.drop k) := by
  induction l generalizing k with
  | nil => cases k <;> rfl
  | cons x xs ih => cases k with
    | zero => rfl
    | succ k => simp [dropNat, ih]

theorem dropFrom_ofList (l : List V) (k : Nat) :
    dropFrom (ofList l) (.int (k : Int)) = .ok (ofList (l.drop k)) := by
  unfold dropFrom
  simp [dropNat_ofList]

theorem contains_ofList (l : List V) (v : V) : contains (ofList l) v = .ok (l.any (fun a => pyEq a v)) := by
  induction l with
  | nil => rfl
  | cons x xs ih =>
    simp only [ofList_cons, contains, List.any_cons]
    by_cases h : pyEq x v = true
    · simp [h]
    · simp [h, ih]

/-- `enumerate` of a list, as a list of pairs, counting from `i` -/
def enumL : List V → Int → List V
  | [], _ => []
  | x :: xs, i => V.tup2 (.int i) x :: enumL xs (i + 1)

theorem enumAux_ofList (l : List V) (i : Int) : enumAux (ofList l) i = .ok (ofList (enumL l i)) := by
  induction l generalizing i with
  | nil => rfl
  | cons x xs ih => simp [enumAux, ih, enumL]

theorem enumerate_ofList (l : List V) : enumerate (ofList l) = .ok (ofList (enumL l 0)) := by
  simp [enumerate, enumAux_ofList]


end V
end Nb.Py
