import NibabelModel.Model.C06
/-! Lemmas/C06_NpSpec — an INDEPENDENT specification of NumPy basic indexing `A[idx]`, written
    directly from the NumPy rules and sharing nothing with `canonical_slicers` / `canonItem`
    (definitions only, core Lean, so that the driver can run it against real NumPy).

    NumPy rules modelled (numpy/_core/src/multiarray/mapping.c, `prepare_index` / `get_view_from_index`):
    * an index tuple may contain at most one `Ellipsis` ("an index can only have a single ellipsis");
    * every int and slice consumes one axis; more of them than `ndim` is "too many indices";
    * the `Ellipsis` stands for `ndim − #(ints and slices)` full slices; when there is none, the
      missing trailing axes are taken in full (an implicit trailing `Ellipsis`);
    * an int `i` on an axis of length `n` must satisfy `−n ≤ i < n` (else `IndexError`), negative
      values count from the end, the axis is dropped;
    * a slice selects `range(n)[slice]`; `None` inserts a new axis of length 1. -/
namespace Nb.C06
open Nb

/-- ints and slices: the items that consume an axis -/
def isReal : IdxItem → Bool
  | .int _ => true
  | .slice _ => true
  | _ => false

def nReal (idx : List IdxItem) : Nat := (idx.filter isReal).length
def nEllipsis (idx : List IdxItem) : Nat := (idx.filter isEllipsis).length

/-- replace every `Ellipsis` by `fill` full slices -/
def expandEllipsis (fill : Nat) : List IdxItem → List IdxItem
  | [] => []
  | .ellipsis :: rest => List.replicate fill (IdxItem.slice ⟨none, none, none⟩) ++ expandEllipsis fill rest
  | .int i :: rest => .int i :: expandEllipsis fill rest
  | .slice s :: rest => .slice s :: expandEllipsis fill rest
  | .newaxis :: rest => .newaxis :: expandEllipsis fill rest

/-- per-axis selections of an ellipsis-free index tuple that consumes every axis of `shape` -/
def specSels : List IdxItem → List Nat → Except Err (List Sel)
  | [], [] => .ok []
  | [], _ :: _ => .error .index
  | .newaxis :: rest, shape => do
      let r ← specSels rest shape
      pure (Sel.new :: r)
  | .ellipsis :: _, _ => .error .value
  | .int _ :: _, [] => .error .index
  | .slice _ :: _, [] => .error .index
  | .int i :: rest, n :: shape =>
      match pyIntIndex n i with
      | some k => do
          let r ← specSels rest shape
          pure (Sel.one k :: r)
      | none => .error .index
  | .slice s :: rest, n :: shape => do
      let r ← specSels rest shape
      pure (Sel.many (s.sel n) :: r)

/-- NumPy basic indexing `A[idx]` for an array of shape `shape`: the selection along every axis
    (in index order), or the error NumPy raises (`.value` = two ellipses, `.index` = too many
    indices / integer out of bounds; both are `IndexError` in NumPy). -/
def npSpec (idx : List IdxItem) (shape : List Nat) : Except Err (List Sel) :=
  if nEllipsis idx > 1 then .error .value
  else if nReal idx > shape.length then .error .index
  else
    let idx' := if nEllipsis idx = 0 then idx ++ [IdxItem.ellipsis] else idx
    specSels (expandEllipsis (shape.length - nReal idx) idx') shape

/-- shape of `A[idx]` and, for every output element (enumerated in memory order `o`), the number of
    the stored element of `A` it is — `A` of shape `shape` stored in order `o` -/
def npSpecResult (o : Order) (shape : List Nat) (sels : List Sel) : List Nat × List Nat :=
  (outShape sels, gatherF (realSels (orient o sels)) (orient o shape))

def npSpecIndex (idx : List IdxItem) (shape : List Nat) (o : Order) : Except Err (List Nat × List Nat) :=
  (npSpec idx shape).map (npSpecResult o shape)

end Nb.C06
