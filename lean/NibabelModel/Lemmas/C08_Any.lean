import NibabelModel.Model.C08_Any
import NibabelModel.Lemmas.C08_TckChunk
import NibabelModel.Lemmas.C08_TckHdr
import NibabelModel.Lemmas.C08_PerRead
import NibabelModel.Lemmas.C08_Trk
/-! Lemmas/C08_Any — the TCK chunk loop against any short-reading file object, the complete TCK body,
    TRK under per-read behaviour, and the header-refusal decision. -/
namespace Nb.C08

/-! ### TCK: any chunking -/

theorem tckChunkLoopG_inst (s : Src) (B : Nat) : ∀ fuel pos left done,
    tckChunkLoopG s.read B fuel pos left done = tckChunkLoop s B fuel pos left done := by
  intro fuel
  induction fuel with
  | zero => intro pos left done; rfl
  | succ fuel ih =>
    intro pos left done
    simp only [tckChunkLoopG, tckChunkLoop, ih]
    cases s.read pos B <;> rfl

theorem take_take_drop (bytes : Bytes) (pos j : Nat) :
    (bytes.take (pos + ((bytes.drop pos).take j).length)).drop pos = (bytes.drop pos).take j := by
  rw [List.drop_take]
  have : pos + ((bytes.drop pos).take j).length - pos = ((bytes.drop pos).take j).length := by omega
  rw [this, List.length_take]
  by_cases h : j ≤ (bytes.drop pos).length
  · rw [Nat.min_eq_left h]
  · rw [Nat.min_eq_right (by omega), List.take_of_length_le (Nat.le_refl _), List.take_of_length_le (by omega)]

/-- the chunk loop against ANY short-reading file object: it raises, or it returns what the whole-buffer
    computation returns on the first `L` bytes of the file for some `L ≥ pos` (the bytes it consumed) -/
theorem chunkLoopG_short (B : Nat) (hB0 : 0 < B) (hB : B % 12 = 0) (bytes : Bytes)
    (rd : Nat → Nat → Except Err Bytes) (h : ShortReadsOf bytes rd) :
    ∀ fuel pos left done, (bytes.drop pos).length + 1 ≤ fuel →
      (∃ e, tckChunkLoopG rd B fuel pos left done = .error e) ∨
      ∃ L, pos ≤ L ∧ tckChunkLoopG rd B fuel pos left done = tckWholeFrom ((bytes.take L).drop pos) left done := by
  intro fuel
  induction fuel with
  | zero => intro pos left done hf; omega
  | succ fuel ih =>
    intro pos left done hf
    simp only [tckChunkLoopG]
    rcases h pos B with ⟨j, hj, h1⟩ | ⟨e, h1⟩
    · rw [h1]
      simp only
      by_cases hfull : ((bytes.drop pos).take j).length = B
      · -- a full chunk: j = B and B bytes are available
        have hjB : j = B := by rw [List.length_take] at hfull; omega
        subst hjB
        have havail : j ≤ (bytes.drop pos).length := by rw [List.length_take] at hfull; omega
        rw [hfull]
        rw [if_neg (by omega), if_neg (by omega), if_neg (by simp)]
        have hf' : (bytes.drop (pos + j)).length + 1 ≤ fuel := by
          simp only [List.length_drop] at hf havail ⊢; omega
        rcases ih (pos + j) _ _ hf' with he | ⟨L, hL, hr⟩
        · left; exact he
        · right
          refine ⟨L, by omega, ?_⟩
          rw [hr]
          have hd : j ≤ ((bytes.take L).drop pos).length := by
            simp only [List.length_drop, List.length_take] at havail ⊢; omega
          rw [tckWholeFrom_step j hB ((bytes.take L).drop pos) hd left done, List.drop_drop]
          have : ((bytes.take L).drop pos).take j = (bytes.drop pos).take j := by
            rw [List.drop_take, List.take_take]; congr 1; omega
          rw [this]
      · -- a short chunk: end of file as far as `_read` is concerned
        right
        refine ⟨pos + ((bytes.drop pos).take j).length, by omega, ?_⟩
        rw [take_take_drop]
        unfold tckWholeFrom
        split
        · rfl
        · split
          · rfl
          · rfl
    · left; rw [h1]; exact ⟨e, rfl⟩

theorem tckWholeFrom_nil (d : Bytes) : tckWholeFrom d [] [] = tckData ⟨d, false⟩ 0 := by
  simp only [tckWholeFrom, tckData, Src.readAll, Bool.false_eq_true, if_false, List.drop_zero,
    List.reverse_nil, tckFinish]

theorem tckData_drop (b : Bytes) (off : Nat) : tckData ⟨b, false⟩ off = tckData ⟨b.drop off, false⟩ 0 := by
  simp only [tckData, Src.readAll, Bool.false_eq_true, if_false, List.drop_zero]

/-- `_read` (the data part) against any short-reading file object: raises, or returns what the whole-buffer
    model returns on some prefix `bytes.take L` -/
theorem tckDataG_short (B : Nat) (hB0 : 0 < B) (hB : B % 12 = 0) (bytes : Bytes)
    (rd : Nat → Nat → Except Err Bytes) (h : ShortReadsOf bytes rd) (off : Nat) :
    (∃ e, tckChunkLoopG rd B (bytes.length + 2) off [] [] = .error e) ∨
    ∃ L, off ≤ L ∧ tckChunkLoopG rd B (bytes.length + 2) off [] [] = tckData ⟨bytes.take L, false⟩ off := by
  rcases chunkLoopG_short B hB0 hB bytes rd h (bytes.length + 2) off [] []
    (by simp only [List.length_drop]; omega) with he | ⟨L, hL, hr⟩
  · left; exact he
  · right; exact ⟨L, hL, by rw [hr, tckWholeFrom_nil, tckData_drop (bytes.take L) off]⟩

/-- **any chunking of a written TCK file.**  -/
theorem tckReadBG_any (B : Nat) (hB0 : 0 < B) (hB : B % 12 = 0) (t : Tck) (hlines : ∀ l ∈ t.lines, GoodLine l)
    (hl : StreamsWF t.streams) (m : Nat) (rd : Nat → Nat → Except Err Bytes)
    (h : ShortReadsOf ((tckWrite t).take m) rd) (hdrErr : Option Err) :
    (∃ e, tckReadBG B ((tckWrite t).take m) rd hdrErr = .error e) ∨
    ((tckWrite t).length ≤ m ∧
      tckReadBG B ((tckWrite t).take m) rd hdrErr = tckData (Src.plain (tckWrite t)) (tckHeader t).length) := by
  unfold tckReadBG
  split
  · left; exact ⟨_, rfl⟩
  · split
    · left; exact ⟨_, rfl⟩
    · split
      · left; exact ⟨_, rfl⟩
      · have hscan := scanOk_all t hlines (min m (tckWrite t).length)
        have hbl : ((tckWrite t).take m).length = min m (tckWrite t).length := List.length_take
        have hbe : (tckWrite t).take m = (tckWrite t).take (min m (tckWrite t).length) := by
          by_cases hm : m ≤ (tckWrite t).length
          · rw [Nat.min_eq_left hm]
          · rw [Nat.min_eq_right (by omega), List.take_of_length_le (by omega), List.take_of_length_le (Nat.le_refl _)]
        unfold ScanOk at hscan
        rw [hbl]
        rw [← hbe] at hscan
        split
        · left; exact ⟨_, rfl⟩
        · left; exact ⟨_, rfl⟩
        · rename_i off hoff
          rw [hoff] at hscan
          simp only at hscan
          subst hscan
          rw [← hbl]
          rcases tckDataG_short B hB0 hB _ rd h (tckHeader t).length with he | ⟨L, hL, hr⟩
          · left; exact he
          · rw [hr, List.take_take]
            by_cases hc : (tckWrite t).length ≤ min L m
            · right
              refine ⟨by omega, ?_⟩
              rw [List.take_of_length_le hc]; rfl
            · left
              have hlt : min L m < (tckWrite t).length := by omega
              by_cases hh : (tckHeader t).length ≤ min L m
              · have hsrc : (tckWrite t).take (min L m) =
                    tckHeader t ++ (tckBody t.streams).take (min L m - (tckHeader t).length) := by
                  rw [tckWrite, List.take_append, List.take_of_length_le hh]
                rw [hsrc]
                apply tckData_prefix _ hl
                rw [tckWrite, List.length_append] at hlt; omega
              · have : ((tckWrite t).take (min L m)).drop (tckHeader t).length = [] := by
                  apply List.drop_of_length_le; rw [List.length_take]; omega
                unfold tckData Src.readAll
                simp only [Bool.false_eq_true, if_false, this]
                exact ⟨_, rfl⟩

/-! ### the complete TCK body reads back -/

/-- no point of any streamline is an all-NaN triple (it would be taken for a delimiter) -/
def NoNaN (l : List (List Bytes)) : Prop := ∀ s ∈ l, ∀ t ∈ s, tripleAll f32IsNaN t = false

theorem tckSplit_stream (s : List Bytes) (hs : ∀ t ∈ s, tripleAll f32IsNaN t = false) (rest : List Bytes) :
    ∀ cur acc, tckSplit (s ++ nanTriple :: rest) cur acc =
      tckSplit rest [] (if s.reverse ++ cur = [] then acc else (s.reverse ++ cur).reverse :: acc) := by
  induction s with
  | nil =>
    intro cur acc
    have : tripleAll f32IsNaN nanTriple = true := by decide
    simp only [List.nil_append, tckSplit, this, if_true, List.reverse_nil]
    by_cases hc : cur = [] <;> simp [hc]
  | cons t r ih =>
    intro cur acc
    have ht : tripleAll f32IsNaN t = false := hs t (by simp)
    simp only [List.cons_append, tckSplit, ht, Bool.false_eq_true, if_false]
    rw [ih (fun x hx => hs x (by simp [hx]))]
    simp only [List.reverse_cons, List.append_assoc, List.singleton_append]

theorem tckSplit_all (l : List (List Bytes)) (hn : NoNaN l) : ∀ acc,
    tckSplit (tckTriples l ++ [infTriple]) [] acc = (acc.reverse ++ l.filter (· ≠ []), [infTriple]) := by
  induction l with
  | nil =>
    intro acc
    have : tripleAll f32IsNaN infTriple = false := by decide
    simp [tckTriples, tckSplit, this]
  | cons s r ih =>
    intro acc
    have hs : ∀ t ∈ s, tripleAll f32IsNaN t = false := hn s (by simp)
    have hr : NoNaN r := fun x hx => hn x (by simp [hx])
    have e : tckTriples (s :: r) ++ [infTriple] = s ++ nanTriple :: (tckTriples r ++ [infTriple]) := by
      simp [tckTriples, List.flatMap_cons]
    rw [e, tckSplit_stream s hs, ih hr]
    by_cases h0 : s = []
    · subst h0; simp
    · simp [h0]

/-- the data part of a complete written file: exactly the non-empty streamlines written -/
theorem tckData_complete (l : List (List Bytes)) (hl : StreamsWF l) (hn : NoNaN l) (pre : Bytes) :
    tckData (Src.plain (pre ++ tckBody l)) pre.length = .ok (l.filter (· ≠ [])) := by
  have hwf := tckTriples_wf l hl
  have hT : ∀ t ∈ tckTriples l ++ [infTriple], t.length = 12 := by
    intro t ht
    simp only [List.mem_append, List.mem_singleton] at ht
    rcases ht with h | h
    · exact (hwf t h).1
    · subst h; rfl
  have hblen : (tckBody l).length = 12 * (tckTriples l ++ [infTriple]).length := by
    rw [tckBody_eq]
    generalize (tckTriples l ++ [infTriple]) = T at hT
    induction T with
    | nil => rfl
    | cons t T ih =>
      rw [List.flatten_cons, List.length_append, hT t (by simp), ih (fun x hx => hT x (by simp [hx]))]
      simp; omega
  unfold tckData Src.readAll Src.plain
  simp only [Bool.false_eq_true, if_false, List.drop_left]
  rw [hblen]
  rw [if_neg (by omega), if_neg (by omega)]
  have hdiv : 12 * (tckTriples l ++ [infTriple]).length / 12 = (tckTriples l ++ [infTriple]).length := by omega
  rw [hdiv]
  have htr : triples (tckTriples l ++ [infTriple]).length (tckBody l) = tckTriples l ++ [infTriple] := by
    have := triples_flatten _ hT (tckTriples l ++ [infTriple]).length (Nat.le_refl _)
    rw [← tckBody_eq, ← hblen, List.take_of_length_le (Nat.le_refl _), List.take_of_length_le (Nat.le_refl _)] at this
    exact this
  rw [htr, tckSplit_all l hn]
  have : tripleAll f32IsInf infTriple = true := by decide
  simp [this]

/-! ### TRK: per-read behaviour -/

theorem trkLoopG_inst (s : Src) (rd : Bytes → Nat) (psz prsz cnt : Nat) (check : Bool) : ∀ fuel pos count acc,
    trkLoopG s.read rd psz prsz cnt check fuel pos count acc = trkLoop s rd psz prsz cnt check fuel pos count acc := by
  intro fuel
  induction fuel with
  | zero => intro pos count acc; rfl
  | succ fuel ih =>
    intro pos count acc
    simp only [trkLoopG, trkLoop, ih]
    rfl

theorem trkReadGenG_inst (check : Bool) (s : Src) : trkReadGenG check s.bytes s.read = trkReadGen check s := by
  simp only [trkReadGenG, trkReadGen, trkLoopG_inst]
  rfl

variable {bytes : Bytes} {rdf : Nat → Nat → Except Err Bytes}

theorem trkLoopG_mono (h : ReadsOf bytes rdf) (rd : Bytes → Nat) (psz prsz cnt : Nat) (check : Bool) :
    ∀ fuel pos count acc,
      OrErr (trkLoopG rdf rd psz prsz cnt check fuel pos count acc)
        (trkLoopG (laxRd bytes) rd psz prsz cnt check fuel pos count acc) := by
  intro fuel
  induction fuel with
  | zero => intro pos count acc; exact OrErr.rfl' _
  | succ fuel ih =>
    intro pos count acc
    simp only [trkLoopG]
    split
    · exact OrErr.rfl' _
    · rcases h pos 4 with h1 | ⟨e, h1⟩
      · rw [h1, laxRd_eq]
        simp only
        split
        · exact OrErr.rfl' _
        · split
          · exact OrErr.rfl' _
          · split
            · exact OrErr.rfl' _
            · rcases h (pos + 4) (rd ((bytes.drop pos).take 4) * psz) with h2 | ⟨e, h2⟩
              · rw [h2, laxRd_eq]
                simp only
                split
                · exact OrErr.rfl' _
                · rcases h (pos + 4 + rd ((bytes.drop pos).take 4) * psz) prsz with h3 | ⟨e, h3⟩
                  · rw [h3, laxRd_eq]
                    simp only
                    split
                    · exact OrErr.rfl' _
                    · exact ih _ _ _
                  · rw [h3]; exact OrErr.err _ _
              · rw [h2]; exact OrErr.err _ _
      · rw [h1]; exact OrErr.err _ _

theorem trkReadGenG_mono (h : ReadsOf bytes rdf) (check : Bool) :
    OrErr (trkReadGenG check bytes rdf) (trkReadGenG check bytes (laxRd bytes)) := by
  unfold trkReadGenG
  rcases h 0 trkHdrSize with h1 | ⟨e, h1⟩
  · rw [h1, laxRd_eq]
    simp only
    repeat (first | exact OrErr.rfl' _ | exact trkLoopG_mono h _ _ _ _ _ _ _ _ _ | split)
  · rw [h1]; exact OrErr.err _ _

theorem trkReadGenG_lax (check : Bool) (bytes : Bytes) :
    trkReadGenG check bytes (laxRd bytes) = trkReadGen check ⟨bytes, false⟩ :=
  trkReadGenG_inst check ⟨bytes, false⟩

/-! ### which loader refuses which short header -/

theorem short_header_refused (fmt : VolFmt) (single : Bool) (s : Src) (h : s.bytes.length < fmt.hdrSize) :
    ∃ e, readHeader fmt single s = .error e := by
  unfold readHeader
  split
  · exact ⟨_, rfl⟩
  · split
    · exact ⟨_, rfl⟩
    · rename_i hb hrd
      have := read_ok hrd
      have hl : hb.length ≠ fmt.hdrSize := by
        rw [this, List.length_take, List.length_drop]; omega
      rw [if_pos hl]; exact ⟨_, rfl⟩

theorem short_sniff_refused (fmt : VolFmt) (single : Bool) (s : Src) (h : s.bytes.length < fmt.sniffLen) :
    readHeader fmt single s = .error .bad := by
  unfold readHeader
  have : sniffOk fmt s = false := by
    unfold sniffOk
    rw [if_neg (by omega)]
    split
    · rfl
    · rename_i b hrd
      have := read_ok hrd
      simp only [decide_eq_false_iff_not, Nat.not_le]
      rw [this, List.length_take, List.length_drop]; omega
  simp [this]

theorem load_refines_class_loader (fmt : VolFmt) (single : Bool) (s : Src) :
    readHeader fmt single s = readHeader fmt.noSniff single s ∨ readHeader fmt single s = .error .bad := by
  by_cases hs : sniffOk fmt s = true
  · left
    have h0 : sniffOk fmt.noSniff s = true := by simp [sniffOk, VolFmt.noSniff]
    have h0' : sniffOk ⟨fmt.hdrSize, 0, fmt.exts, fmt.fixedOff, fmt.footer⟩ s = true := h0
    unfold readHeader
    simp only [hs, h0', VolFmt.noSniff]
    rfl
  · right
    unfold readHeader
    simp [hs]

theorem plain_header_decision (fmt : VolFmt) (hx : fmt.exts = false) (single : Bool) (b : Bytes) :
    (∃ e, readHeader fmt single (Src.plain b) = .error e) ↔ hdrRefuses fmt b.length = true := by
  constructor
  · intro ⟨e, he⟩
    by_cases hr : hdrRefuses fmt b.length = true
    · exact hr
    · exfalso
      simp only [hdrRefuses, Bool.or_eq_true, decide_eq_true_eq, not_or, Nat.not_lt] at hr
      unfold readHeader at he
      have hsn : sniffOk fmt (Src.plain b) = true := by
        unfold sniffOk
        split
        · rfl
        · rw [read_plain]
          simp only [decide_eq_true_eq, List.drop_zero, List.length_take]; omega
      simp only [hsn, not_true_eq_false, if_false, read_plain, List.drop_zero, List.length_take, hx,
        Bool.false_eq_true] at he
      rw [if_neg (by omega)] at he
      split at he <;> cases he
  · intro hr
    simp only [hdrRefuses, Bool.or_eq_true, decide_eq_true_eq] at hr
    rcases hr with h | h
    · exact short_header_refused fmt single _ h
    · exact ⟨_, short_sniff_refused fmt single _ h⟩

/-- a schedule of short reads / raises is a short-reading file object -/
theorem schedRd_short (bytes : Bytes) (off B : Nat) (sched : List (Option Nat)) :
    ShortReadsOf bytes (schedRd bytes off B sched) := by
  intro pos n
  unfold schedRd
  split
  · left; exact ⟨n, Nat.le_refl _, rfl⟩
  · split
    · right; exact ⟨.trunc, rfl⟩
    · rename_i c _; left; exact ⟨min n c, Nat.min_le_left _ _, rfl⟩
    · left; exact ⟨n, Nat.le_refl _, rfl⟩

theorem laxRd_readsOf (bytes : Bytes) : ReadsOf bytes (laxRd bytes) :=
  fun pos n => Or.inl (laxRd_eq bytes pos n)

end Nb.C08
