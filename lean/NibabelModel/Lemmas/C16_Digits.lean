import NibabelModel.Model.C16
/-! Lemmas/C16_Digits — decimal digit count / representation facts (core Lean only). -/
namespace Nb.C16

theorem decDigits_pos (n : Nat) : 0 < decDigits n := by
  unfold decDigits; split <;> omega

theorem lt_pow_decDigits (n : Nat) : n < 10 ^ decDigits n := by
  induction n using Nat.strongRecOn with
  | _ n ih =>
    unfold decDigits
    split
    · simpa using (by omega : n < 10)
    · have h := ih (n / 10) (by omega)
      rw [Nat.pow_succ]; omega

/-- a number with more than one digit is at least `10^(digits-1)` -/
theorem pow_le_of_decDigits (n d : Nat) (h : decDigits n = d + 1) (hd : 0 < d) : 10 ^ d ≤ n := by
  induction n using Nat.strongRecOn generalizing d with
  | _ n ih =>
    unfold decDigits at h
    split at h
    · omega
    · have h1 : decDigits (n / 10) = d := by omega
      cases d with
      | zero => omega
      | succ d' =>
        cases d' with
        | zero => simp; omega
        | succ d'' =>
          have := ih (n / 10) (by omega) (d'' + 1) h1 (by omega)
          rw [Nat.pow_succ]; omega

theorem decDigits_le_of_lt_pow (n d : Nat) (hd : 0 < d) (h : n < 10 ^ d) : decDigits n ≤ d := by
  induction n using Nat.strongRecOn generalizing d with
  | _ n ih =>
    unfold decDigits
    split
    · omega
    · cases d with
      | zero => omega
      | succ d' =>
        cases d' with
        | zero => simp at h; omega
        | succ d'' =>
          have : n / 10 < 10 ^ (d'' + 1) := by
            rw [Nat.pow_succ] at h; omega
          have := ih (n / 10) (by omega) (d'' + 1) (by omega) this
          omega

theorem decDigits_mono {a b : Nat} (h : a ≤ b) : decDigits a ≤ decDigits b := by
  have hb := lt_pow_decDigits b
  exact decDigits_le_of_lt_pow a (decDigits b) (decDigits_pos b) (by omega)

theorem decDigits_eq_of_bounds (n d : Nat) (hlo : 10 ^ d ≤ n) (hhi : n < 10 ^ (d + 1)) : decDigits n = d + 1 := by
  have h1 := decDigits_le_of_lt_pow n (d + 1) (by omega) hhi
  have h2 := lt_pow_decDigits n
  have h3 : d < decDigits n := by
    apply Nat.lt_of_not_le
    intro hle
    have : 10 ^ decDigits n ≤ 10 ^ d := Nat.pow_le_pow_right (by omega) hle
    omega
  omega

theorem lt_ten_pow (d : Nat) : d < 10 ^ d := by
  induction d with
  | zero => simp
  | succ k ih => rw [Nat.pow_succ]; omega

/-- The fixed point behind `TckFile._write_header`: with `h` the length of everything but the
    number, `N = h + digits(h + digits h)` satisfies `digits N = digits(h + digits h)`, i.e.
    `N = h + digits N`. -/
theorem offset_digits_fixpoint (h : Nat) :
    decDigits (h + decDigits (h + decDigits h)) = decDigits (h + decDigits h) := by
  have hd := lt_pow_decDigits h
  have hdpos := decDigits_pos h
  have hdd := lt_ten_pow (decDigits h)
  -- m = h + d has d or d+1 digits
  have hm_lo : decDigits h ≤ decDigits (h + decDigits h) := decDigits_mono (by omega)
  have hm_hi : decDigits (h + decDigits h) ≤ decDigits h + 1 := by
    apply decDigits_le_of_lt_pow _ _ (by omega)
    rw [Nat.pow_succ]; omega
  rcases Nat.lt_or_ge (decDigits h) (decDigits (h + decDigits h)) with hlt | hge
  · -- d' = d + 1
    have hd' : decDigits (h + decDigits h) = decDigits h + 1 := by omega
    have hlo := pow_le_of_decDigits (h + decDigits h) (decDigits h) hd' hdpos
    rw [hd']
    apply decDigits_eq_of_bounds
    · omega
    · rw [Nat.pow_succ]; omega
  · have hd' : decDigits (h + decDigits h) = decDigits h := by omega
    rw [hd', hd']

/-! ### `str(n)` and `int(str(n))` -/

theorem decRepr_length (n : Nat) : (decRepr n).length = decDigits n := by
  induction n using Nat.strongRecOn with
  | _ n ih =>
    unfold decRepr decDigits
    split
    · simp
    · simp [ih (n / 10) (by omega)]

theorem decRepr_ne_nil (n : Nat) : decRepr n ≠ [] := by
  intro h
  have := decRepr_length n
  rw [h] at this
  have := decDigits_pos n
  simp at *
  omega

theorem decRepr_all_digit (n : Nat) : ∀ c ∈ decRepr n, isDigit c = true := by
  induction n using Nat.strongRecOn with
  | _ n ih =>
    unfold decRepr
    split
    · intro c hc
      simp at hc
      subst hc
      simp [isDigit]; omega
    · intro c hc
      simp at hc
      rcases hc with hc | hc
      · exact ih (n / 10) (by omega) c hc
      · subst hc
        simp [isDigit]; omega

theorem isDigit_ne_zero {c : Nat} (h : isDigit c = true) : c ≠ 0 := by
  simp [isDigit] at h; omega

def digitsVal (s : List Nat) : Nat := s.foldl (fun acc c => acc * 10 + (c - 48)) 0

theorem digitsVal_decRepr (n : Nat) : digitsVal (decRepr n) = n := by
  induction n using Nat.strongRecOn with
  | _ n ih =>
    unfold decRepr
    split
    · simp [digitsVal]
    · have := ih (n / 10) (by omega)
      unfold digitsVal at *
      rw [List.foldl_append]
      simp [this]
      omega

theorem parseDec_decRepr (n : Nat) : parseDec (decRepr n) = some n := by
  unfold parseDec
  have h1 : (decRepr n).isEmpty = false := by
    cases h : decRepr n with
    | nil => exact absurd h (decRepr_ne_nil n)
    | cons _ _ => rfl
  have h2 : (decRepr n).all isDigit = true := by
    rw [List.all_eq_true]; exact decRepr_all_digit n
  simp only [h1, h2]
  have := digitsVal_decRepr n
  unfold digitsVal at this
  simp [this]

end Nb.C16
