import NibabelModel.Lemmas.C12_Names
/-! Lemmas/C12_Routes — MGH `.mgz`, Opener codec choice, case-insensitivity of the extension test. -/
namespace Nb.C12

/-! ### codec choice -/
theorem openerCodec_icase (keys : List (Str × Nat)) (fn : Str) :
    openerCodec keys true fn = codecOfExt keys (splitext fn).2 := by
  simp [openerCodec, codecOfExt]

theorem codecOfExt_congr (keys : List (Str × Nat)) {a b : Str} (h : lower a = lower b) :
    codecOfExt keys a = codecOfExt keys b := by
  simp [codecOfExt, h]

theorem codecOfExt_nil_of (keys : List (Str × Nat)) (h : ∀ k ∈ keys, k.1 ≠ []) : codecOfExt keys [] = 0 := by
  have : keys.find? (fun k => lower k.1 == lower []) = none := by
    rw [List.find?_eq_none]; intro k hk
    simp only [beq_iff_eq, lower, List.map_nil, List.map_eq_nil_iff]; exact h k hk
  simp [codecOfExt, this]

/-- a file `<x><ext><sfx>` with a non-empty compression suffix is opened with the suffix's codec,
    whatever the case of the suffix and whatever precedes it -/
theorem openerCodec_suffix (keys : List (Str × Nat)) (x d z' z : Str) (hd : dotted d = true)
    (hz : dotted z = true) (hzl : lower z' = lower z) :
    openerCodec keys true (x ++ d ++ z') = codecOfExt keys z := by
  have hdz : dotted z' = true := dotted_of_lower_eq hzl hz
  rw [openerCodec_icase, splitext_dotted (x ++ d) z' hdz, goodStem_append_dotted x d hd]
  exact codecOfExt_congr keys hzl

/-- without a compression suffix the codec is that of the extension itself or none -/
theorem openerCodec_nosuffix (keys : List (Str × Nat)) (x d' d : Str) (hd : dotted d = true)
    (hl : lower d' = lower d) :
    openerCodec keys true (x ++ d') = codecOfExt keys d ∨ openerCodec keys true (x ++ d') = codecOfExt keys [] := by
  have hd' := dotted_of_lower_eq hl hd
  rw [openerCodec_icase]
  rcases splitext_dotted_snd x d' hd' with h | h
  · left; rw [h]; exact codecOfExt_congr keys hl
  · right; rw [h]

/-! ### `lower` commutes with everything `splitext_addext` does -/
theorem iendsWith_lower (n s : Str) : iendsWith (lower n) s = iendsWith n s := by
  simp [iendsWith, lower_lower]

theorem cutEnd_lower (n : Str) (k : Nat) : cutEnd (lower n) k = ((cutEnd n k).1.map lowerC, (cutEnd n k).2.map lowerC) := by
  unfold cutEnd
  split
  · simp [lower]
  · simp [lower, List.map_take, List.map_drop]

theorem splitLast_lower (r : Str) :
    splitLast DOT (lower r) = (splitLast DOT r).map (fun p => (lower p.1, lower p.2)) := by
  induction r with
  | nil => rfl
  | cons x xs ih =>
    simp only [lower, List.map_cons] at ih ⊢
    simp only [splitLast, ih]
    cases h : splitLast DOT xs with
    | some p => simp
    | none =>
      simp only [Option.map_none, lowerC_eq_dot]
      split <;> simp

theorem all_dot_lower (r : Str) : (lower r).all (· = DOT) = r.all (· = DOT) := by
  induction r with
  | nil => rfl
  | cons x xs ih =>
    simp only [lower, List.map_cons, List.all_cons] at ih ⊢
    rw [ih]; congr 1
    simp [lowerC_eq_dot]

theorem splitextAddext_lower (n : Str) (S : List Str) :
    splitextAddext (lower n) S false
      = (lower (splitextAddext n S false).1, lower (splitextAddext n S false).2.1,
         lower (splitextAddext n S false).2.2) := by
  have hf : S.find? (iendsWith (lower n)) = S.find? (iendsWith n) := by
    congr 1; funext s; exact iendsWith_lower n s
  unfold splitextAddext
  simp only [endsFn, Bool.false_eq_true, if_false, hf]
  cases S.find? (iendsWith n) with
  | none =>
    simp only [splitLast_lower, all_dot_lower]
    cases splitLast DOT n with
    | none => simp [lower]
    | some p => simp only [Option.map_some]; split <;> simp [lower]
  | some s =>
    simp only [cutEnd_lower]
    have h1 : List.map lowerC (cutEnd n s.length).1 = lower (cutEnd n s.length).1 := rfl
    rw [h1]
    simp only [splitLast_lower, all_dot_lower]
    cases splitLast DOT (cutEnd n s.length).1 with
    | none => simp [lower]
    | some p => simp only [Option.map_some]; split <;> simp [lower]

/-- the extension test of `path_maybe_image` does not depend on the case of the name -/
theorem extOK_lower (r : ClassRow) (n : Str) : extOK r (lower n) = extOK r n := by
  simp [extOK, splitextAddext_lower, lower_lower]

theorem loadClass_lower (table : List ClassRow) (sniffOK : Str → Bool) (n : Str) :
    loadClass table sniffOK (lower n) = loadClass table sniffOK n := by
  simp [loadClass, extOK_lower]

end Nb.C12
