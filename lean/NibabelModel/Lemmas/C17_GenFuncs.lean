import NibabelModel.Generated.C17Funcs
import NibabelModel.Lemmas.PyVal
import NibabelModel.Model.C17
import NibabelModel.Model.C17_Gen
/-! Lemmas/C17_GenFuncs — the container methods of `GiftiImage` TRANSLATED from the working tree on every run
    (Generated/C17Funcs.lean, harness/py2lean_c17.py) compute the container model of Model/C17.
    A data array object is the tuple `(id, intent)`; `intent_codes.code[·]` is the callable parameter `ic`. -/
namespace Nb.C17.GenF
open Nb.Py Nb.Py.V Nb.Gen.C17F

theorem intent_of_enc (d : DA) : getItem (encDA d) (.int 1) = .ok (.int d.intent) := by
  simp [encDA, getItem, getItemSeq, len, asList, getNat]

theorem numDA_eq (l : List DA) : numDA (encL l) = .ok (.int (l.length : Nat)) := by
  simp [numDA, encL]

theorem get_loop (ic : V → M V) (c : Nat) (sd it0 : V) : ∀ (l : List DA) (acc : List DA) (x0 r0 : V),
    ∃ x1, get_arrays_from_intent_loop1 ic (encL l) ⟨sd, it0, .int c, encL acc, x0, r0⟩ =
      .ok (.next ⟨sd, it0, .int c, encL (acc ++ getArraysFromIntent l c), x1, r0⟩)
  | [], acc, x0, r0 => ⟨x0, by simp [encL, get_arrays_from_intent_loop1, getArraysFromIntent]⟩
  | d :: rest, acc, x0, r0 => by
    by_cases h : d.intent = c
    · obtain ⟨x1, ih⟩ := get_loop ic c sd it0 rest (acc ++ [d]) (encDA d) r0
      refine ⟨x1, ?_⟩
      simp only [encL, List.map_cons, ofList_cons, get_arrays_from_intent_loop1, get_arrays_from_intent_body1,
        intent_of_enc, bind_ok, pyEq_int, h, beq_self_eq_true, if_true, append_ofList, pure_eq_ok]
      have : List.map encDA acc ++ [encDA d] = List.map encDA (acc ++ [d]) := by simp
      rw [this]
      simpa [encL, getArraysFromIntent, List.filter_cons, h] using ih
    · obtain ⟨x1, ih⟩ := get_loop ic c sd it0 rest acc (encDA d) r0
      refine ⟨x1, ?_⟩
      have hne : ((d.intent : Int) == (c : Int)) = false := by
        have : (d.intent : Int) ≠ c := by omega
        simpa using this
      simp only [encL, List.map_cons, ofList_cons, get_arrays_from_intent_loop1, get_arrays_from_intent_body1,
        intent_of_enc, bind_ok, pyEq_int, hne, pure_eq_ok]
      simpa [encL, getArraysFromIntent, List.filter_cons, h] using ih

/-- **the translated `get_arrays_from_intent` is the model's filter** (and a failing lookup propagates) -/
theorem get_arrays_from_intent_eq (ic : V → M V) (l : List DA) (a : V) :
    (∀ c : Nat, ic a = .ok (.int c) → get_arrays_from_intent ic (encL l) a = .ok (encL (getArraysFromIntent l c))) ∧
    (∀ e, ic a = .error e → get_arrays_from_intent ic (encL l) a = .error e) := by
  constructor
  · intro c hc
    obtain ⟨x1, h⟩ := get_loop ic c (encL l) a l [] .none .none
    unfold get_arrays_from_intent
    have hn : (V.nil : V) = encL [] := rfl
    simp only [hc, bind_ok, encL, asList_ofList]
    simp only [encL] at h hn
    rw [hn, h]
    simp
  · intro e he
    unfold get_arrays_from_intent
    simp [he]

theorem rm_loop (ic : V → M V) (c : Nat) (sd it0 : V) : ∀ (l : List DA) (acc : List DA) (x0 : V),
    ∃ x1, remove_gifti_data_array_by_intent_loop1 ic (encL l) ⟨sd, it0, .int c, encL acc, x0⟩ =
      .ok (.next ⟨sd, it0, .int c, encL (acc ++ removeByIntent l c), x1⟩)
  | [], acc, x0 => ⟨x0, by simp [encL, remove_gifti_data_array_by_intent_loop1, removeByIntent]⟩
  | d :: rest, acc, x0 => by
    by_cases h : d.intent = c
    · obtain ⟨x1, ih⟩ := rm_loop ic c sd it0 rest acc (encDA d)
      refine ⟨x1, ?_⟩
      simp only [encL, List.map_cons, ofList_cons, remove_gifti_data_array_by_intent_loop1,
        remove_gifti_data_array_by_intent_body1, intent_of_enc, bind_ok, pyEq_int, h, beq_self_eq_true, pure_eq_ok]
      simpa [encL, removeByIntent, List.filter_cons, h] using ih
    · obtain ⟨x1, ih⟩ := rm_loop ic c sd it0 rest (acc ++ [d]) (encDA d)
      refine ⟨x1, ?_⟩
      have hne : ((d.intent : Int) == (c : Int)) = false := by
        have : (d.intent : Int) ≠ c := by omega
        simpa using this
      simp only [encL, List.map_cons, ofList_cons, remove_gifti_data_array_by_intent_loop1,
        remove_gifti_data_array_by_intent_body1, intent_of_enc, bind_ok, pyEq_int, hne, append_ofList, pure_eq_ok]
      have : List.map encDA acc ++ [encDA d] = List.map encDA (acc ++ [d]) := by simp
      rw [this]
      simpa [encL, removeByIntent, List.filter_cons, h] using ih

/-- **the translated `remove_gifti_data_array_by_intent` leaves `self.darrays` = the model's `removeByIntent`** -/
theorem remove_by_intent_eq (ic : V → M V) (l : List DA) (a : V) :
    (∀ c : Nat, ic a = .ok (.int c) →
      remove_gifti_data_array_by_intent ic (encL l) a = .ok (encL (removeByIntent l c))) ∧
    (∀ e, ic a = .error e → remove_gifti_data_array_by_intent ic (encL l) a = .error e) := by
  constructor
  · intro c hc
    obtain ⟨x1, h⟩ := rm_loop ic c (encL l) a l [] .none
    unfold remove_gifti_data_array_by_intent
    have hn : (V.nil : V) = encL [] := rfl
    simp only [hc, bind_ok, encL, asList_ofList]
    simp only [encL] at h hn
    rw [hn, h]
    simp
  · intro e he
    unfold remove_gifti_data_array_by_intent
    simp [he]

/-- the Recoder lookup handed to the translated methods is the model's `resolveIntent` -/
theorem icOf_enc (K : Codes) (a : IntentArg) :
    icOf K (encArg a) = match resolveIntent K a with
      | Option.some c => .ok (.int c)
      | Option.none => .error .indexError := by
  cases a with
  | code n =>
    simp only [encArg, icOf, Int.toNat_natCast]
    rw [if_pos (by omega)]
    cases resolveIntent K (.code n) <;> rfl
  | name s =>
    simp only [encArg, icOf, String.toList_ofList]
    cases resolveIntent K (.name s) <;> rfl

end Nb.C17.GenF
