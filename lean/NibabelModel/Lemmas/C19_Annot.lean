import NibabelModel.Lemmas.C19
/-! Lemmas/C19_Annot — annotation files: the argsort/searchsorted back-mapping, the colour-table entry
    loop, label mapping and the file-level round trip (core Lean only).

    Proof-engineering note: the readers are nested `match`es over codec calls; reducing such a `match`
    definitionally makes the kernel evaluate `rdI32 (encI32 …)` on symbolic input (deep recursion on the
    2^31 literals).  Every reader is therefore first unfolded in a "steps" lemma stated over variables
    (`rdEntries_step`, `readAnnot_steps`, `writeAnnot_steps`) and then instantiated by rewriting. -/
namespace Nb.C19
open Nb.Gen.C19

/-! ### argsort / searchsorted back-mapping -/

/-- in a list of (value, row) pairs strictly increasing in the value, `searchsorted` of a value that is
    present finds its position, so indexing the row column there returns its row -/
theorem search_sorted_pairs (ps : List (Int × Nat)) (v : Int) (i : Nat)
    (hs : ps.Pairwise (fun p q => p.1 < q.1)) (hm : (v, i) ∈ ps) :
    (ps.map (·.2))[searchsortedLeft (ps.map (·.1)) v]? = some i := by
  induction ps with
  | nil => cases hm
  | cons p t ih =>
    rw [List.pairwise_cons] at hs
    rcases List.mem_cons.1 hm with e | hmt
    · subst e
      simp [searchsortedLeft]
    · have hlt : p.1 < v := hs.1 (v, i) hmt
      have := ih hs.2 hmt
      simp only [searchsortedLeft, List.map_cons, List.takeWhile_cons, decide_eq_true_eq, hlt, if_true,
        List.length_cons, List.getElem?_cons_succ] at this ⊢
      exact this

theorem sortedPairs_perm (vals : List Int) : (sortedPairs vals).Perm vals.zipIdx :=
  List.mergeSort_perm _ _

theorem sortedPairs_strict (vals : List Int) (hd : vals.Nodup) :
    (sortedPairs vals).Pairwise (fun p q => p.1 < q.1) := by
  have hle : (sortedPairs vals).Pairwise (fun p q => decide (p.1 ≤ q.1) = true) :=
    List.pairwise_mergeSort (le := fun (p q : Int × Nat) => decide (p.1 ≤ q.1))
      (by intro a b c h1 h2; simp only [decide_eq_true_eq] at *; omega)
      (by intro a b; simp only [Bool.or_eq_true, decide_eq_true_eq]; omega) _
  have hnd : ((sortedPairs vals).map (·.1)).Nodup := by
    have hp := (sortedPairs_perm vals).map (·.1)
    rw [List.zipIdx_map_fst] at hp
    exact hp.nodup_iff.2 hd
  rw [List.nodup_iff_pairwise_ne, List.pairwise_map] at hnd
  refine (hle.and hnd).imp ?_
  intro a b h
  have h1 : a.1 ≤ b.1 := by simpa using h.1
  have h2 : a.1 ≠ b.1 := h.2
  omega

/-- **the `argsort` + `searchsorted` back-mapping of `read_annot` inverts the forward map** for pairwise
    distinct annotation values: a non-zero annotation value of row `i` is mapped back to `i` -/
theorem backMap_inverse (avals : List Int) (hd : avals.Nodup) (i : Nat) (hi : i < avals.length)
    (hnz : avals[i] ≠ 0) : backMap avals avals[i] = .ok (i : Int) := by
  have hm : (avals[i], i) ∈ sortedPairs avals := by
    rw [(sortedPairs_perm avals).mem_iff, List.mem_zipIdx_iff_getElem?]
    simp [hi]
  have := search_sorted_pairs _ _ _ (sortedPairs_strict avals hd) hm
  simp only [backMap, hnz, if_false, this]

theorem backMap_zero (avals : List Int) : backMap avals 0 = .ok (-1) := by
  simp [backMap]

/-! ### annotation file pieces -/

theorem rdU32_encU32_mod (u : Nat) (r : Bytes) : rdU32 (encU32 u ++ r) = .ok (u % 4294967296, r) := by
  simp only [encU32, rdU32, decU32, List.cons_append, List.nil_append]
  congr 2
  omega

theorem rdI32_enc_any (v : Int) (r : Bytes) : rdI32 (encI32 v ++ r) = .ok (wrap32 v, r) := by
  simp only [rdI32, encI32, rdU32_enc _ _ (toU32_lt v), wrap32]

theorem wrap32_id (v : Int) (h1 : -2147483648 ≤ v) (h2 : v < 2147483648) : wrap32 v = v :=
  ofU32_toU32 v h1 h2

theorem rdBytes_append (s r : Bytes) : rdBytes s.length (s ++ r) = .ok (s, r) := by
  simp [rdBytes]

theorem stripNul_snoc (s : Bytes) : stripNul (s ++ [0]) = stripNul s := by
  simp [stripNul, List.reverse_append]

theorem rdString_write (s r : Bytes) (h : s.length + 1 < 2147483648) :
    rdString (writeString s ++ r) = .ok (s ++ [0], r) := by
  have e : (s.length : Int) + 1 = ((s.length + 1 : Nat) : Int) := by omega
  have hn : ¬ (((s.length + 1 : Nat) : Int) < 0) := by omega
  have hb := rdBytes_append (s ++ [0]) r
  simp only [List.length_append, List.length_cons, List.length_nil] at hb
  simp only [rdString, writeString, List.append_assoc, e, rdI32_enc _ _ (by omega : (-2147483648 : Int) ≤ ((s.length + 1 : Nat) : Int)) (by omega), hn, if_false, Int.toNat_natCast]
  simpa using hb

theorem rdVtx_enc (cl : List Int) (i : Nat) (r : Bytes) (h : ∀ c ∈ cl, -2147483648 ≤ c ∧ c < 2147483648) :
    rdVtx cl.length (encVtx i cl ++ r) = .ok (cl, r) := by
  induction cl generalizing i with
  | nil => rfl
  | cons c cs ih =>
    have hc := h c (List.mem_cons_self ..)
    have hcs : ∀ y ∈ cs, -2147483648 ≤ y ∧ y < 2147483648 := fun y hy => h y (List.mem_cons_of_mem _ hy)
    simp only [List.length_cons, rdVtx, encVtx, List.append_assoc, rdI32_enc_any, rdI32_enc _ _ hc.1 hc.2,
      ih (i + 1) hcs]

theorem foldl_max_le (ls : List Int) (init b : Int) (hi : init ≤ b) (h : ∀ l ∈ ls, l ≤ b) :
    ls.foldl max init ≤ b := by
  induction ls generalizing init with
  | nil => simpa using hi
  | cons a t ih =>
    simp only [List.foldl_cons]
    apply ih
    · have := h a (List.mem_cons_self ..); omega
    · exact fun l hl => h l (List.mem_cons_of_mem _ hl)

def zeroA (c : Row) : Row := ⟨c.r, c.g, c.b, c.t, 0⟩

/-- rows whose R, G, B are bytes and whose T fits int32 -/
def RowOk (c : Row) : Prop :=
  0 ≤ c.r ∧ c.r < 256 ∧ 0 ≤ c.g ∧ c.g < 256 ∧ 0 ≤ c.b ∧ c.b < 256 ∧ -2147483648 ≤ c.t ∧ c.t < 2147483648

instance (c : Row) : Decidable (RowOk c) := by unfold RowOk; infer_instance

/-- one iteration of the entry loop, stated over variables (keeps the kernel from evaluating codecs) -/
theorem rdEntries_step (k : Nat) (bs : Bytes) (ctab : List Row) (idx : Int) (r0 nm r1 : Bytes) (r g b t : Int)
    (q1 q2 q3 r2 : Bytes) (ctab' ctabF : List Row) (nms : List Bytes)
    (h1 : rdI32 bs = .ok (idx, r0)) (h2 : rdString r0 = .ok (nm, r1)) (h3 : rdI32 r1 = .ok (r, q1))
    (h4 : rdI32 q1 = .ok (g, q2)) (h5 : rdI32 q2 = .ok (b, q3)) (h6 : rdI32 q3 = .ok (t, r2))
    (h7 : setRow ctab idx r g b t = .ok ctab') (h8 : rdEntries k r2 ctab' = .ok (ctabF, nms)) :
    rdEntries (k + 1) bs ctab = .ok (ctabF, stripNul nm :: nms) := by
  simp only [rdEntries, h1, h2, h3, h4, h5, h6, h7, h8]

theorem entries_roundtrip (cs : List Row) (nms : List Bytes) (i : Nat) (pre post : List Row) (tail : Bytes)
    (hl : nms.length = cs.length) (hpre : pre.length = i) (hpost : post.length = cs.length)
    (hrow : ∀ c ∈ cs, RowOk c) (hnm : ∀ s ∈ nms, stripNul s = s ∧ s.length + 1 < 2147483648)
    (hi : i + cs.length < 2147483648) :
    ∃ ents, encEntries i cs nms = .ok ents ∧
      rdEntries cs.length (ents ++ tail) (pre ++ post) = .ok (pre ++ cs.map zeroA, nms) := by
  induction cs generalizing nms i pre post with
  | nil =>
    have : nms = [] := by simpa using hl
    have hp : post = [] := by simpa using hpost
    subst this hp
    exact ⟨[], by simp [encEntries], by simp [rdEntries]⟩
  | cons c cs ih =>
    match nms, post, hl, hpost with
    | nm :: nms', p :: post', hl, hpost =>
      have hc := hrow c (List.mem_cons_self ..)
      have hcs : ∀ y ∈ cs, RowOk y := fun y hy => hrow y (List.mem_cons_of_mem _ hy)
      have hn := hnm nm (List.mem_cons_self ..)
      have hns : ∀ s ∈ nms', stripNul s = s ∧ s.length + 1 < 2147483648 := fun y hy => hnm y (List.mem_cons_of_mem _ hy)
      simp only [List.length_cons] at hl hpost hi
      obtain ⟨ents, he, hr⟩ := ih nms' (i + 1) (pre ++ [zeroA c]) post' (by omega) (by simp [hpre]) (by omega) hcs hns (by omega)
      unfold RowOk at hc
      have hin : (inI32 c.r && inI32 c.g && inI32 c.b && inI32 c.t) = true := by
        simp only [inI32, Bool.and_eq_true, decide_eq_true_eq]; omega
      refine ⟨encI32 (i : Int) ++ (writeString nm ++ (encI32 c.r ++ (encI32 c.g ++ (encI32 c.b ++ (encI32 c.t ++ ents))))),
        by simp only [encEntries, hin, if_true, he], ?_⟩
      have hset : setRow (pre ++ p :: post') (i : Int) c.r c.g c.b c.t = .ok (pre ++ zeroA c :: post') := by
        subst hpre
        have h1 : ¬ ((pre.length : Int) < 0) := by omega
        simp only [setRow, h1, if_false, List.length_append, List.length_cons, Int.toNat_natCast, zeroA]
        simp
        omega
      have hi1 : (-2147483648 : Int) ≤ (i : Int) := by omega
      have hi2 : (i : Int) < 2147483648 := by omega
      have e : pre ++ zeroA c :: post' = (pre ++ [zeroA c]) ++ post' := by simp
      rw [e] at hset
      have := rdEntries_step cs.length _ (pre ++ p :: post') (i : Int) _ (nm ++ [0]) _ c.r c.g c.b c.t _ _ _ _ _ _ _
        (rdI32_enc (i : Int) _ hi1 hi2) (rdString_write nm _ hn.2)
        (rdI32_enc c.r _ (Int.le_trans (by decide) hc.1) (Int.lt_trans hc.2.1 (by decide)))
        (rdI32_enc c.g _ (Int.le_trans (by decide) hc.2.2.1) (Int.lt_trans hc.2.2.2.1 (by decide)))
        (rdI32_enc c.b _ (Int.le_trans (by decide) hc.2.2.2.2.1) (Int.lt_trans hc.2.2.2.2.2.1 (by decide)))
        (rdI32_enc c.t _ hc.2.2.2.2.2.2.1 hc.2.2.2.2.2.2.2) hset hr
      rw [stripNul_snoc, hn.1] at this
      simp only [List.length_cons, List.append_assoc, List.map_cons, List.cons_append, List.nil_append] at this ⊢
      exact this

/-! ### labels -/

/-- the annotation values `_pack_rgb` gives the rows of a table -/
def packs (ctab : List Row) : List Int := ctab.map fun c => packRgb c.r c.g c.b

/-- `hstack((ctab[:, :4], _pack_rgb(ctab[:, :3])))` -/
def withPacked (ctab : List Row) : List Row := ctab.map fun c => { c with a := packRgb c.r c.g c.b }

/-- a label `write_annot` accepts: `-1` (any table, the empty one included since the fix cb244bc8) or a row number -/
def LabDom (avals : List Int) (l : Int) : Prop :=
  l = -1 ∨ (0 ≤ l ∧ l < avals.length)

instance (avals : List Int) (l : Int) : Decidable (LabDom avals l) := by unfold LabDom; infer_instance

/-- what the `.annot` format can give back for label `l`: a row whose annotation value is 0 is
    indistinguishable from "unlabeled" -/
def limitLabel (avals : List Int) (l : Int) : Int :=
  if 0 ≤ l ∧ avals[l.toNat]? = some 0 then -1 else l

theorem label_roundtrip (avals : List Int) (hd : avals.Nodup) (hr : ∀ a ∈ avals, 0 ≤ a ∧ a < 16777216)
    (l : Int) (hl : LabDom avals l) :
    ∃ c, clutLabelFixed avals l = .ok c ∧ (-2147483648 ≤ c ∧ c < 2147483648) ∧
      backMap avals c = .ok (limitLabel avals l) := by
  rcases hl with rfl | ⟨h0, hn⟩
  · have hlim : limitLabel avals (-1) = -1 := by simp [limitLabel]
    refine ⟨0, ?_, by omega, by rw [hlim]; exact backMap_zero avals⟩
    simp only [clutLabelFixed, if_true]
  · have hlt : l.toNat < avals.length := by omega
    have hrr := hr _ (List.getElem_mem hlt)
    have h1 : ¬ (l < 0) := by omega
    have h2 : l ≠ -1 := by omega
    have hcl : clutLabelFixed avals l = .ok avals[l.toNat] := by
      simp only [clutLabelFixed, indexPy, h1, if_false, List.getElem?_eq_getElem hlt, h2]
    refine ⟨avals[l.toNat], hcl, by omega, ?_⟩
    by_cases hz : avals[l.toNat] = 0
    · have hlim : limitLabel avals l = -1 := by
        simp [limitLabel, h0, List.getElem?_eq_getElem hlt, hz]
      rw [hlim, hz]; exact backMap_zero avals
    · have hlim : limitLabel avals l = l := by
        simp [limitLabel, List.getElem?_eq_getElem hlt, hz]
      have := backMap_inverse avals hd l.toNat hlt hz
      rw [this, hlim]
      congr 1
      omega

theorem labels_roundtrip (avals : List Int) (hd : avals.Nodup) (hr : ∀ a ∈ avals, 0 ≤ a ∧ a < 16777216)
    (labels : List Int) (h : ∀ l ∈ labels, LabDom avals l) :
    ∃ cl, clutLabelsFixed avals labels = .ok cl ∧ cl.length = labels.length ∧
      (∀ c ∈ cl, -2147483648 ≤ c ∧ c < 2147483648) ∧
      backMaps avals cl = .ok (labels.map (limitLabel avals)) := by
  induction labels with
  | nil => exact ⟨[], rfl, rfl, by simp, rfl⟩
  | cons l ls ih =>
    obtain ⟨c, h1, h2, h3⟩ := label_roundtrip avals hd hr l (h l (List.mem_cons_self ..))
    obtain ⟨cs, g1, g2, g3, g4⟩ := ih (fun x hx => h x (List.mem_cons_of_mem _ hx))
    refine ⟨c :: cs, by simp only [clutLabelsFixed, h1, g1], by simp [g2], ?_,
      by simp only [backMaps, h3, g4, List.map_cons]⟩
    intro x hx
    rcases List.mem_cons.1 hx with rfl | hx
    · exact h2
    · exact g3 x hx

theorem labelsMax_le (labels : List Int) (n : Int) (hn : 0 ≤ n) (h : ∀ l ∈ labels, l < n) :
    labelsMax labels + 1 ≤ n := by
  have := foldl_max_le labels (-1) (n - 1) (by omega) (fun l hl => by have := h l hl; omega)
  unfold labelsMax; omega

theorem packs_range (ctab : List Row) (h : ∀ c ∈ ctab, RowOk c) : ∀ a ∈ packs ctab, 0 ≤ a ∧ a < 16777216 := by
  intro a ha
  simp only [packs, List.mem_map] at ha
  obtain ⟨c, hc, rfl⟩ := ha
  have := h c hc
  unfold RowOk at this
  unfold packRgb
  omega

theorem final_ctab (ctab : List Row) (h : ∀ c ∈ ctab, RowOk c) :
    (ctab.map zeroA).map (fun c => { c with a := wrap32 (packRgb c.r c.g c.b) }) = withPacked ctab := by
  simp only [withPacked, List.map_map]
  apply List.map_congr_left
  intro c hc
  have := h c hc
  unfold RowOk at this
  have hw : wrap32 (packRgb c.r c.g c.b) = packRgb c.r c.g c.b := by
    apply wrap32_id <;> (unfold packRgb; omega)
  simp [zeroA, hw]

theorem withPacked_avals (ctab : List Row) : (withPacked ctab).map (·.a) = packs ctab := by
  simp [withPacked, packs, List.map_map]

theorem withPacked_rowOk (ctab : List Row) (h : ∀ c ∈ ctab, RowOk c) : ∀ c ∈ withPacked ctab, RowOk c := by
  intro c hc
  simp only [withPacked, List.mem_map] at hc
  obtain ⟨c0, h0, rfl⟩ := hc
  exact h c0 h0

theorem withPacked_zeroA (ctab : List Row) : (withPacked ctab).map zeroA = ctab.map zeroA := by
  simp [withPacked, List.map_map, zeroA]

/-- `read_annot` over variables (keeps the kernel from evaluating the codecs) -/
theorem readAnnot_steps (bs : Bytes) (vnum : Int) (r0 : Bytes) (vals : List Int) (r1 r2 r3 : Bytes)
    (maxIndex : Int) (r4 s r5 : Bytes) (nRead : Int) (r6 : Bytes) (ctab0 : List Row) (names : List Bytes)
    (labels : List Int)
    (h1 : rdI32 bs = .ok (vnum, r0)) (hv : ¬ vnum < 0) (h2 : rdVtx vnum.toNat r0 = .ok (vals, r1))
    (h3 : rdI32 r1 = .ok (1, r2)) (h4 : rdI32 r2 = .ok (-2, r3)) (h5 : rdI32 r3 = .ok (maxIndex, r4))
    (hm : ¬ maxIndex < 0) (h6 : rdString r4 = .ok (s, r5)) (h7 : rdI32 r5 = .ok (nRead, r6))
    (h8 : rdEntries nRead.toNat r6 (List.replicate maxIndex.toNat ⟨0, 0, 0, 0, 0⟩) = .ok (ctab0, names))
    (h9 : backMaps ((ctab0.map fun c => { c with a := wrap32 (packRgb c.r c.g c.b) }).map (·.a)) vals = .ok labels) :
    readAnnot false bs
      = .ok ⟨labels, ctab0.map fun c => { c with a := wrap32 (packRgb c.r c.g c.b) }, names⟩ := by
  simp only [readAnnot, h1, hv, if_false, h2, h3, h4, h5, hm, h6, h7, h8, h9,
    show ¬ ((1 : Int) = 0) from by decide, show ¬ ((-2 : Int) > 0) from by decide,
    show ¬ (-(-2 : Int) ≠ 2) from by decide, Bool.false_eq_true]

theorem writeAnnot_steps (labels : List Int) (ctab : List Row) (has5 : Bool) (names : List Bytes) (fill : Bool)
    (ctab' : List Row) (cl : List Int) (ents : Bytes)
    (h1 : fillCtab fill has5 ctab = .ok ctab') (h2 : clutLabelsFixed (ctab'.map (·.a)) labels = .ok cl)
    (h3 : encEntries 0 ctab' names = .ok ents) :
    writeAnnot labels ctab has5 names fill
      = .ok (encI32 labels.length ++ (encVtx 0 cl ++ (encI32 1 ++ (encI32 (-2) ++
          (encI32 (max (labelsMax labels + 1) ctab'.length) ++ (writeString noFile ++
          (encI32 ctab'.length ++ ents))))))) := by
  simp only [writeAnnot, writeAnnotWith, h1, h2, h3]

/-- the annotations `write_annot` accepts without warning: one name per row, byte-valued colours,
    pairwise distinct annotation values, labels in {-1} ∪ [0, n) -/
structure AnnotDom (labels : List Int) (ctab : List Row) (has5 : Bool) (names : List Bytes) (fill : Bool) :
    Prop where
  names_len : names.length = ctab.length
  rows : ∀ c ∈ ctab, RowOk c
  given : fill = false → has5 = true ∧ ∀ c ∈ ctab, c.a = packRgb c.r c.g c.b
  distinct : (packs ctab).Nodup
  labs_ok : ∀ l ∈ labels, LabDom (packs ctab) l
  names_ok : ∀ s ∈ names, stripNul s = s ∧ s.length + 1 < 2147483648
  nlabels : labels.length < 2147483648
  nrows : ctab.length < 2147483648

theorem fillCtab_ok (labels : List Int) (ctab : List Row) (has5 : Bool) (names : List Bytes) (fill : Bool)
    (ok : AnnotDom labels ctab has5 names fill) : fillCtab fill has5 ctab = .ok (withPacked ctab) := by
  cases fill with
  | true => rfl
  | false =>
    obtain ⟨h5, hg⟩ := ok.given rfl
    have : withPacked ctab = ctab := by
      unfold withPacked
      conv => rhs; rw [← List.map_id ctab]
      apply List.map_congr_left
      intro c hc
      have := hg c hc
      cases c
      simp_all
    simp [fillCtab, h5, this]

theorem annot_general_aux (labels : List Int) (ctab : List Row) (has5 : Bool) (names : List Bytes) (fill : Bool)
    (ok : AnnotDom labels ctab has5 names fill) :
    ∃ file, writeAnnot labels ctab has5 names fill = .ok file ∧
      readAnnot false file = .ok ⟨labels.map (limitLabel (packs ctab)), withPacked ctab, names⟩ := by
  have hrow := withPacked_rowOk ctab ok.rows
  have hlen : (withPacked ctab).length = ctab.length := by simp [withPacked]
  obtain ⟨cl, c1, c2, c3, c4⟩ := labels_roundtrip (packs ctab) ok.distinct (packs_range ctab ok.rows) labels ok.labs_ok
  obtain ⟨ents, e1, e2⟩ := entries_roundtrip (withPacked ctab) names 0 []
    (List.replicate ctab.length ⟨0, 0, 0, 0, 0⟩) [] (by rw [hlen]; exact ok.names_len) rfl (by simp [hlen]) hrow ok.names_ok
    (by have := ok.nrows; omega)
  have hw := writeAnnot_steps labels ctab has5 names fill (withPacked ctab) cl ents
    (fillCtab_ok labels ctab has5 names fill ok) (by rw [withPacked_avals]; exact c1) e1
  refine ⟨_, hw, ?_⟩
  have hmax : max (labelsMax labels + 1) ((withPacked ctab).length : Int) = (ctab.length : Int) := by
    have : labelsMax labels + 1 ≤ (ctab.length : Int) := by
      apply labelsMax_le _ _ (by omega)
      intro l hl
      have hp : (packs ctab).length = ctab.length := by simp [packs]
      rcases ok.labs_ok l hl with ⟨rfl, _⟩ | ⟨_, h⟩
      · omega
      · omega
    rw [hlen]; omega
  rw [hmax, hlen]
  have hnl := ok.nlabels
  have hnr := ok.nrows
  have hnoFile : noFile.length + 1 < 2147483648 := by decide
  simp only [List.nil_append, List.append_nil, withPacked_zeroA] at e2
  rw [hlen] at e2
  have hvt := rdVtx_enc cl 0 (encI32 1 ++ (encI32 (-2) ++ (encI32 (ctab.length : Int) ++ (writeString noFile ++ (encI32 (ctab.length : Int) ++ ents))))) c3
  rw [c2] at hvt
  have := readAnnot_steps _ (labels.length : Int) _ cl _ _ _ (ctab.length : Int) _ (noFile ++ [0]) _
    (ctab.length : Int) _ (ctab.map zeroA) names (labels.map (limitLabel (packs ctab)))
    (rdI32_enc _ _ (by omega) (by omega)) (by omega)
    (by first | exact hvt | (simp only [Int.toNat_natCast]; exact hvt))
    (rdI32_enc 1 _ (by decide) (by decide)) (rdI32_enc (-2) _ (by decide) (by decide))
    (rdI32_enc _ _ (by omega) (by omega)) (by omega)
    (rdString_write noFile _ hnoFile)
    (rdI32_enc _ _ (by omega) (by omega))
    (by first | exact e2 | (simp only [Int.toNat_natCast]; exact e2))
    (by rw [final_ctab ctab ok.rows, withPacked_avals]; exact c4)
  rw [final_ctab ctab ok.rows] at this
  exact this

/-! ### fill_ctab ignores the 5th column; the recolour history -/

theorem fill_eq_of_zeroA (c1 c2 : List Row) (h : c1.map zeroA = c2.map zeroA) :
    c1.map (fun c => { c with a := packRgb c.r c.g c.b }) = c2.map (fun c => { c with a := packRgb c.r c.g c.b }) := by
  have key : ∀ c : Row, ({ c with a := packRgb c.r c.g c.b } : Row)
      = (fun z : Row => { z with a := packRgb z.r z.g z.b }) (zeroA c) := by intro c; rfl
  have e : ∀ l : List Row, l.map (fun c => { c with a := packRgb c.r c.g c.b })
      = (l.map zeroA).map (fun z : Row => { z with a := packRgb z.r z.g z.b }) := by
    intro l; rw [List.map_map]; apply List.map_congr_left; intro c _; exact key c
  rw [e c1, e c2, h]

/-- with `fill_ctab=True` the file depends on the first four columns only -/
theorem writeAnnot_fill_congr (labels : List Int) (c1 c2 : List Row) (h51 h52 : Bool) (names : List Bytes)
    (h : c1.map zeroA = c2.map zeroA) :
    writeAnnot labels c1 h51 names true = writeAnnot labels c2 h52 names true := by
  simp only [writeAnnot, writeAnnotWith, fillCtab, if_true, fill_eq_of_zeroA c1 c2 h]

theorem recolour_length (ctab : List Row) (rgb : List (Int × Int × Int)) : (recolour ctab rgb).length = ctab.length := by
  induction ctab generalizing rgb with
  | nil => cases rgb <;> rfl
  | cons c cs ih => cases rgb with
    | nil => rfl
    | cons p ps => simp [recolour, ih]

theorem packs_recolour (ctab : List Row) (rgb : List (Int × Int × Int)) (h : rgb.length = ctab.length) :
    packs (recolour ctab rgb) = rgb.map fun p => packRgb p.1 p.2.1 p.2.2 := by
  induction ctab generalizing rgb with
  | nil => cases rgb with
    | nil => rfl
    | cons p ps => simp at h
  | cons c cs ih => cases rgb with
    | nil => simp at h
    | cons p ps =>
      simp only [List.length_cons, Nat.add_right_cancel_iff] at h
      simp only [recolour, packs, List.map_cons, List.cons.injEq, true_and]
      exact ih ps h

theorem recolour_rowOk (ctab : List Row) (rgb : List (Int × Int × Int)) (hc : ∀ c ∈ ctab, RowOk c)
    (hr : ∀ p ∈ rgb, 0 ≤ p.1 ∧ p.1 < 256 ∧ 0 ≤ p.2.1 ∧ p.2.1 < 256 ∧ 0 ≤ p.2.2 ∧ p.2.2 < 256) :
    ∀ c ∈ recolour ctab rgb, RowOk c := by
  induction ctab generalizing rgb with
  | nil => cases rgb <;> simp [recolour]
  | cons c cs ih => cases rgb with
    | nil => simpa [recolour] using hc
    | cons p ps =>
      intro x hx
      simp only [recolour, List.mem_cons] at hx
      rcases hx with rfl | hx
      · have h1 := hc c (List.mem_cons_self ..)
        have h2 := hr p (List.mem_cons_self ..)
        unfold RowOk at h1 ⊢
        simp only
        omega
      · exact ih ps (fun c hc' => hc c (List.mem_cons_of_mem _ hc')) (fun p hp => hr p (List.mem_cons_of_mem _ hp)) x hx

theorem limitLabel_dom (av av2 : List Int) (hlen : av2.length = av.length) (l : Int) (h : LabDom av l) :
    LabDom av2 (limitLabel av l) := by
  unfold limitLabel
  rcases h with rfl | ⟨h0, hn⟩
  · left
    simp
  · split
    · left; rfl
    · right; omega

/-- **Two-step history**: write, read, recolour `ctab[:, :3]` (5th column now STALE), write again with
    `fill_ctab=True`, read -/
theorem annot_recolour_chain_aux (labels : List Int) (ctab : List Row) (has5 : Bool) (names : List Bytes) (fill : Bool)
    (ok : AnnotDom labels ctab has5 names fill) (rgb : List (Int × Int × Int))
    (hlen : rgb.length = ctab.length)
    (hr : ∀ p ∈ rgb, 0 ≤ p.1 ∧ p.1 < 256 ∧ 0 ≤ p.2.1 ∧ p.2.1 < 256 ∧ 0 ≤ p.2.2 ∧ p.2.2 < 256)
    (hd : (rgb.map fun p => packRgb p.1 p.2.1 p.2.2).Nodup) :
    ∃ f2, annotChain labels ctab has5 names fill rgb true = .ok
      (⟨labels.map (limitLabel (packs ctab)), withPacked ctab, names⟩, f2,
       ⟨(labels.map (limitLabel (packs ctab))).map (limitLabel (packs (recolour (withPacked ctab) rgb))),
         withPacked (recolour (withPacked ctab) rgb), names⟩) := by
  obtain ⟨f1, w1, r1⟩ := annot_general_aux labels ctab has5 names fill ok
  have hwl : (withPacked ctab).length = ctab.length := by simp [withPacked]
  have hp2 := packs_recolour (withPacked ctab) rgb (by rw [hwl]; exact hlen)
  have ok2 : AnnotDom (labels.map (limitLabel (packs ctab))) (recolour (withPacked ctab) rgb) true names true := by
    refine ⟨?_, ?_, ?_, ?_, ?_, ok.names_ok, ?_, ?_⟩
    · rw [recolour_length, hwl]; exact ok.names_len
    · exact recolour_rowOk _ _ (withPacked_rowOk ctab ok.rows) hr
    · intro h; cases h
    · rw [hp2]; exact hd
    · intro l hl
      obtain ⟨l0, hl0, rfl⟩ := List.mem_map.1 hl
      apply limitLabel_dom _ _ _ _ (ok.labs_ok l0 hl0)
      rw [hp2]; simp [packs, hlen]
    · simpa using ok.nlabels
    · rw [recolour_length, hwl]; exact ok.nrows
  obtain ⟨f2, w2, r2⟩ := annot_general_aux _ _ true names true ok2
  refine ⟨f2, ?_⟩
  simp only [annotChain, w1, r1, w2, r2]

end Nb.C19
