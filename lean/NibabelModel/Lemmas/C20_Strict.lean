import NibabelModel.Lemmas.C20_Vol
/-! Lemmas/C20_Strict — the strict sort order as a function of the SORTED RECORD LIST (positions
    dropped), and its invariance under permutations of key-distinct record lists. -/
namespace Nb.C20

/-- pairwise distinct strict sort keys (decidable).  V4 diffusion files, which carry no
    'gradient orientation number', violate it: all directions of one b value share every key — this
    is why `_strict_sort_order` has a second stage numbering such volumes by occurrence, and why the
    result for such files DOES depend on the record order (fixture DTIv40.PAR). -/
def keysNodup (c : Cfg) (recs : List Rec) : Prop :=
  recs.Pairwise (fun a b => strictKey c a ≠ strictKey c b)

instance (c : Cfg) (recs : List Rec) : Decidable (keysNodup c recs) := by
  unfold keysNodup; infer_instance

theorem eq_of_key_eq {c : Cfg} : ∀ {recs : List Rec}, keysNodup c recs → ∀ {a b}, a ∈ recs → b ∈ recs →
    strictKey c a = strictKey c b → a = b
  | [], _, _, _, ha, _, _ => by cases ha
  | x :: l, hk, a, b, ha, hb, he => by
      unfold keysNodup at hk
      rw [List.pairwise_cons] at hk
      rcases List.mem_cons.1 ha with rfl | ha' <;> rcases List.mem_cons.1 hb with rfl | hb'
      · rfl
      · exact absurd he (hk.1 b hb')
      · exact absurd he.symm (hk.1 a ha')
      · exact eq_of_key_eq (recs := l) hk.2 ha' hb' he

theorem strictKey_length (c : Cfg) (a b : Rec) : (strictKey c a).length = (strictKey c b).length := by
  unfold strictKey labelKey
  simp only [List.length_append]
  split <;> split <;> (try split) <;> simp

theorem strictLe_trans (c : Cfg) (a b d : Rec) : strictLe c a b = true → strictLe c b d = true →
    strictLe c a d = true := lexLe_trans _ _ _

theorem strictLe_total (c : Cfg) (a b : Rec) : (strictLe c a b || strictLe c b a) = true :=
  lexLe_total _ _

/-- first stage: on key-distinct records the sorted record list does not depend on the file order -/
theorem sorted_perm_eq (c : Cfg) {r₁ r₂ : List Rec} (hp : r₁.Perm r₂) (hk : keysNodup c r₁) :
    stableSort (strictLe c) r₁ = stableSort (strictLe c) r₂ := by
  apply stableSort_eq_of_perm (strictLe_trans c) (strictLe_total c) hp
  intro a b ha hb hab hba
  exact eq_of_key_eq hk ha hb (lexLe_antisymm _ _ (strictKey_length c a b) hab hba)

theorem indexedFrom_map_snd {α : Type} : ∀ (i : Nat) (l : List α), (indexedFrom i l).map (·.2) = l
  | _, [] => rfl
  | i, a :: l => by simp [indexedFrom, indexedFrom_map_snd (i + 1) l]

theorem indexedFrom_map_fst {α : Type} : ∀ (i : Nat) (l : List α),
    (indexedFrom i l).map (·.1) = (List.range' i l.length)
  | _, [] => rfl
  | i, a :: l => by simp [indexedFrom, indexedFrom_map_fst (i + 1) l, List.range'_succ]

/-- the position tag of an entry of `indexed l` is the position of its record -/
theorem indexedFrom_getElem {α : Type} : ∀ (i : Nat) (l : List α) (p : Nat × α), p ∈ indexedFrom i l →
    i ≤ p.1 ∧ l[p.1 - i]? = some p.2
  | _, [], p, h => by cases h
  | i, a :: l, p, h => by
      simp only [indexedFrom, List.mem_cons] at h
      rcases h with rfl | h
      · simp
      · obtain ⟨h1, h2⟩ := indexedFrom_getElem (i + 1) l p h
        refine ⟨by omega, ?_⟩
        have : p.1 - i = (p.1 - (i + 1)) + 1 := by omega
        rw [this, List.getElem?_cons_succ]; exact h2

/-- second stage on bare records -/
def strictRecs (c : Cfg) (sorted : List Rec) : Except Err (List Rec) :=
  match annotate c sorted with
  | .error e => .error e
  | .ok ann => .ok ((stableSort (fun a b : Ann × Rec => annLe a.1 b.1) (ann.zip sorted)).map (·.2))

/-- the records of the strict order are the second stage applied to the sorted record list -/
theorem strictOrder_recs (c : Cfg) (recs : List Rec) :
    (strictOrder c recs).map (fun l => l.map (·.2)) = strictRecs c (stableSort (strictLe c) recs) := by
  have h1 : (stableSort (fun a b : Nat × Rec => strictLe c a.2 b.2) (indexed recs)).map (·.2) =
      stableSort (strictLe c) recs := by
    rw [map_stableSort (s := strictLe c) (f := fun p : Nat × Rec => p.2) (fun _ _ => rfl)]
    unfold indexed; rw [indexedFrom_map_snd]
  unfold strictOrder strictRecs
  rw [← h1]
  dsimp only
  generalize stableSort (fun a b : Nat × Rec => strictLe c a.2 b.2) (indexed recs) = s1
  cases h : annotate c (s1.map (·.2)) with
  | error e => rfl
  | ok ann =>
    show Except.ok _ = Except.ok _
    congr 1
    have hz : ann.zip (s1.map (·.2)) = (ann.zip s1).map (fun x : Ann × Nat × Rec => (x.1, x.2.2)) := by
      rw [List.zip_map_right]; rfl
    rw [hz, ← map_stableSort (r := fun a b : Ann × Nat × Rec => annLe a.1 b.1)
      (f := fun x : Ann × Nat × Rec => (x.1, x.2.2)) (fun _ _ => rfl)]
    simp [List.map_map]

theorem strictOrder_recs_perm (c : Cfg) {r₁ r₂ : List Rec} (hp : r₁.Perm r₂) (hk : keysNodup c r₁) :
    (strictOrder c r₁).map (fun l => l.map (·.2)) = (strictOrder c r₂).map (fun l => l.map (·.2)) := by
  rw [strictOrder_recs, strictOrder_recs, sorted_perm_eq c hp hk]

end Nb.C20
