import NibabelModel.Lemmas.C20_Strict
/-! Lemmas/C20_Load — every sort order is made of genuine (position, record) pairs of the file; the
    trimmed order on bare records. -/
namespace Nb.C20

instance {ε α : Type} [DecidableEq ε] [DecidableEq α] : DecidableEq (Except ε α) := fun a b =>
  match a, b with
  | .ok x, .ok y => if h : x = y then isTrue (by rw [h]) else isFalse (fun e => by cases e; exact h rfl)
  | .error x, .error y => if h : x = y then isTrue (by rw [h]) else isFalse (fun e => by cases e; exact h rfl)
  | .ok _, .error _ => isFalse (fun e => by cases e)
  | .error _, .ok _ => isFalse (fun e => by cases e)

/-- `p` is a record of the file together with its true position -/
def AtPos (recs : List Rec) (p : Nat × Rec) : Prop := recs[p.1]? = some p.2

theorem atPos_of_mem_indexed {recs : List Rec} {p : Nat × Rec} (h : p ∈ indexed recs) : AtPos recs p := by
  have := indexedFrom_getElem 0 recs p h
  simpa [AtPos] using this.2

theorem mem_of_mem_sort_zip {κ : Type} {le : κ × Nat × Rec → κ × Nat × Rec → Bool} {keys : List κ}
    {l : List (Nat × Rec)} {p : Nat × Rec}
    (h : p ∈ (stableSort le (keys.zip l)).map (·.2)) : p ∈ l := by
  obtain ⟨x, hx, rfl⟩ := List.mem_map.1 h
  have := mem_stableSort.1 hx
  exact (List.of_mem_zip (a := x.1) (b := x.2) this).2

theorem strictOrder_atPos {c : Cfg} {recs : List Rec} {o : List (Nat × Rec)}
    (h : strictOrder c recs = .ok o) : ∀ p ∈ o, AtPos recs p := by
  unfold strictOrder at h
  dsimp only at h
  cases ha : annotate c ((stableSort (fun a b : Nat × Rec => strictLe c a.2 b.2) (indexed recs)).map (·.2)) with
  | error e => rw [ha] at h; cases h
  | ok ann =>
    rw [ha] at h
    injection h with h
    subst h
    intro p hp
    exact atPos_of_mem_indexed (mem_stableSort.1 (mem_of_mem_sort_zip hp))

theorem strictOrderOrig_atPos {c : Cfg} {recs : List Rec} {o : List (Nat × Rec)}
    (h : strictOrderOrig c recs = .ok o) : ∀ p ∈ o, AtPos recs p := by
  unfold strictOrderOrig at h
  dsimp only at h
  cases ha : volsFullGlobal ((stableSort (fun a b : Nat × Rec => strictLe c a.2 b.2) (indexed recs)).map
      (·.2.slice)) c.maxSlices with
  | error e => rw [ha] at h; cases h
  | ok keys =>
    rw [ha] at h
    injection h with h
    subst h
    intro p hp
    exact atPos_of_mem_indexed (mem_stableSort.1 (mem_of_mem_sort_zip hp))

theorem laxOrder_atPos {c : Cfg} {recs : List Rec} {o : List (Nat × Rec)}
    (h : laxOrder c recs = .ok o) : ∀ p ∈ o, AtPos recs p := by
  unfold laxOrder at h
  cases ha : laxKeys c recs with
  | error e => rw [ha] at h; cases h
  | ok keys =>
    rw [ha] at h
    injection h with h
    subst h
    intro p hp
    exact atPos_of_mem_indexed (mem_of_mem_sort_zip hp)

/-- `get_sorted_slice_indices` returns true positions, whatever the sort -/
theorem sortedSlices_atPos {c : Cfg} {strict orig : Bool} {recs : List Rec} {kept : List (Nat × Rec)}
    (h : sortedSlices c strict orig recs = .ok kept) : ∀ p ∈ kept, AtPos recs p := by
  unfold sortedSlices at h
  cases ho : sortOrder c strict orig recs with
  | error e => rw [ho] at h; cases h
  | ok o =>
    rw [ho] at h
    cases hn : nVols c recs with
    | error e => rw [hn] at h; cases h
    | ok nv =>
      rw [hn] at h
      injection h with h
      subst h
      intro p hp
      have hp' := List.mem_of_mem_take hp
      unfold sortOrder at ho
      by_cases hs : strict = true
      · by_cases hg : orig = true
        · simp only [hs, hg, if_true] at ho; exact strictOrderOrig_atPos ho p hp'
        · simp only [hs, hg, if_true] at ho; exact strictOrder_atPos ho p hp'
      · simp only [hs] at ho; exact laxOrder_atPos ho p hp'

/-- the direct-read fast path is sound: index lists 0,1,…,k-1 made of true positions select the
    first k records of the file -/
theorem take_eq_of_sequential {recs : List Rec} {kept : List (Nat × Rec)}
    (hpos : ∀ p ∈ kept, AtPos recs p) (hseq : kept.map (·.1) = List.range kept.length) :
    recs.take kept.length = kept.map (·.2) := by
  apply List.ext_getElem?
  intro i
  rw [List.getElem?_take]
  by_cases hi : i < kept.length
  · have h1 : (kept.map (·.1))[i]? = some i := by rw [hseq]; simp [hi]
    have h2 : kept[i].1 = i := by simpa [hi] using h1
    have h3 := hpos kept[i] (List.getElem_mem hi)
    unfold AtPos at h3
    rw [h2] at h3
    simp [hi, h3]
  · simp [hi]

theorem partialSlabs_eq {recs : List Rec} {kept : List (Nat × Rec)} (hpos : ∀ p ∈ kept, AtPos recs p) :
    partialSlabs recs kept = kept.map (·.2.payload) := by
  unfold partialSlabs isSequential
  split
  · rename_i h
    rw [take_eq_of_sequential hpos (by simpa using h), List.map_map]; rfl
  · rfl

/-- records kept by the strict order, positions dropped -/
def assembled (c : Cfg) (recs : List Rec) : Except Err (List Rec) :=
  (sortedSlices c true false recs).map (fun l => l.map (·.2))

theorem assembled_eq (c : Cfg) (recs : List Rec) :
    assembled c recs =
      match (strictOrder c recs).map (fun l => l.map (·.2)), nVols c recs with
      | .ok o, .ok nv => .ok (o.take (nUsedOf (nSlices recs) nv))
      | .error e, _ => .error e
      | .ok _, .error e => .error e := by
  unfold assembled sortedSlices sortOrder
  simp only [if_true, Bool.false_eq_true, if_false]
  cases strictOrder c recs with
  | error e => rfl
  | ok o =>
    cases nVols c recs with
    | error e => rfl
    | ok nv =>
      show Except.ok _ = Except.ok _
      simp only [List.map_take]

end Nb.C20
