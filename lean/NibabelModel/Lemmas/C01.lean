import NibabelModel.Model.C01
/-! Lemmas/C01 — helper lemmas for the C01 theorems (core Lean only). -/
namespace Nb.C01

/-! ### byte codec -/

theorem encLE_length (w v : Nat) : (encLE w v).length = w := by
  induction w generalizing v with
  | zero => rfl
  | succ w ih => simp [encLE, ih]

theorem decLE_encLE (w v : Nat) : decLE (encLE w v) = v % 256 ^ w := by
  induction w generalizing v with
  | zero => simp [encLE, decLE, Nat.mod_one]
  | succ w ih =>
      simp only [encLE, decLE, ih]
      rw [Nat.pow_succ', Nat.mod_mul]

theorem enc_length (e : Endian) (w v : Nat) : (enc e w v).length = w := by
  cases e <;> simp [enc, encLE_length]

theorem dec_enc_mod (e : Endian) (w v : Nat) : dec e (enc e w v) = v % 256 ^ w := by
  cases e <;> simp [enc, dec, decLE_encLE]

/-! ### lists -/

theorem length_flatMap_const {α β} (l : List α) (f : α → List β) (c : Nat)
    (h : ∀ a ∈ l, (f a).length = c) : (l.flatMap f).length = l.length * c := by
  induction l with
  | nil => simp
  | cons a l ih =>
      have h1 := h a (by simp)
      have h2 := ih (fun b hb => h b (by simp [hb]))
      simp only [List.flatMap_cons, List.length_append, List.length_cons, h1, h2, Nat.succ_mul]
      omega

theorem flatMap_flatMap_eq_flatten {α β} (L : List (List α)) (F : α → List β) :
    L.flatMap (fun slab => slab.flatMap F) = L.flatten.flatMap F := by
  induction L with
  | nil => simp
  | cons a L ih => simp [List.flatMap_cons, List.flatMap_append, ih]

theorem chunks_flatMap {α β} (f : β → List α) (w : Nat) (xs : List β) (tail : List α)
    (hf : ∀ x ∈ xs, (f x).length = w) :
    chunks w xs.length (xs.flatMap f ++ tail) = xs.map f := by
  induction xs with
  | nil => simp [chunks]
  | cons x xs ih =>
      have hx : (f x).length = w := hf x (by simp)
      have ih' := ih (fun y hy => hf y (by simp [hy]))
      simp only [List.length_cons, chunks, List.flatMap_cons, List.append_assoc, List.map_cons]
      rw [List.take_left' hx, List.drop_left' hx, ih']

/-! ### index enumeration -/

theorem enumF_length (shape : List Nat) : (enumF shape).length = shape.prod := by
  induction shape with
  | nil => rfl
  | cons n rest ih =>
      simp only [enumF, List.prod_cons]
      rw [length_flatMap_const _ _ n (by intro a _; simp), ih, Nat.mul_comm]

theorem flatMap_singleton_map {α β} (l : List α) (f : α → β) : l.flatMap (fun a => [f a]) = l.map f := by
  induction l with
  | nil => rfl
  | cons a l ih => simp [List.flatMap_cons, ih]

theorem enumF_snoc (s : List Nat) (n : Nat) :
    enumF (s ++ [n]) = (List.range n).flatMap (fun j => (enumF s).map (fun i => i ++ [j])) := by
  induction s with
  | nil =>
      simp only [List.nil_append, enumF, List.flatMap_cons, List.flatMap_nil, List.append_nil, List.map_cons,
        List.map_nil]
      exact (flatMap_singleton_map _ _).symm
  | cons m s ih =>
      simp only [List.cons_append, enumF, ih, List.flatMap_assoc, List.flatMap_map, List.map_flatMap,
        List.map_map]
      rfl

theorem splitLast_spec : ∀ (s init : List Nat) (last : Nat), splitLast s = some (init, last) → s = init ++ [last]
  | [], _, _, h => by simp [splitLast] at h
  | [x], init, last, h => by
      simp [splitLast] at h
      obtain ⟨h1, h2⟩ := h
      subst h1; subst h2; rfl
  | x :: y :: ys, init, last, h => by
      simp only [splitLast, Option.map_eq_some_iff] at h
      obtain ⟨p, hp, heq⟩ := h
      have := splitLast_spec (y :: ys) p.1 p.2 (by simpa using hp)
      simp only [Prod.mk.injEq] at heq
      obtain ⟨h1, h2⟩ := heq
      subst h1; subst h2
      rw [this]; rfl

theorem slabs_flatten (s : List Nat) : (slabs s).flatten = enumF s := by
  unfold slabs
  split
  · simp
  · split
    · next init last h =>
        have hs := splitLast_spec s init last h
        subst hs
        rw [enumF_snoc]
        simp [List.flatMap]
    · simp

theorem enumF_squeeze (shape : List Nat) :
    (enumF (squeeze shape)).map (unsqueezeIdx shape) = enumF shape := by
  induction shape with
  | nil => simp [squeeze, enumF, unsqueezeIdx]
  | cons n rest ih =>
      by_cases hn : n = 1
      · subst hn
        have : squeeze (1 :: rest) = squeeze rest := by simp [squeeze]
        rw [this]
        have h2 : (fun idx => unsqueezeIdx (1 :: rest) idx) = (fun idx => 0 :: unsqueezeIdx rest idx) := by
          funext idx; simp [unsqueezeIdx]
        show List.map (fun idx => unsqueezeIdx (1 :: rest) idx) _ = _
        rw [h2]
        have h3 : List.map (fun idx => 0 :: unsqueezeIdx rest idx) (enumF (squeeze rest))
            = List.map (fun t => 0 :: t) (List.map (unsqueezeIdx rest) (enumF (squeeze rest))) := by
          rw [List.map_map]; rfl
        rw [h3, ih]
        simp only [enumF, List.range_one, List.map_cons, List.map_nil]
        exact (flatMap_singleton_map _ _).symm
      · have : squeeze (n :: rest) = n :: squeeze rest := by simp [squeeze, hn]
        rw [this]
        simp only [enumF, List.map_flatMap, List.map_map]
        rw [← ih, List.flatMap_map]
        congr 1
        funext tl
        apply List.map_congr_left
        intro i _
        simp [unsqueezeIdx, hn]

/-- `_write_data` writes the Fortran-order concatenation of the element encodings -/
theorem writeData_eq (e : Endian) (cw : Nat) (shape : List Nat) (A : List Nat → Elem) :
    writeData e cw shape A = (enumF shape).flatMap (fun i => encElem e cw (A i)) := by
  unfold writeData
  rw [flatMap_flatMap_eq_flatten, slabs_flatten, ← enumF_squeeze shape, List.flatMap_map]

theorem flatMap_const_getElem? {α β} (f : α → List β) (n a : Nat) (ha : a < n) :
    ∀ (l : List α) (r : Nat) (x : α), (∀ y ∈ l, (f y).length = n) → l[r]? = some x →
      (l.flatMap f)[a + n * r]? = (f x)[a]?
  | [], r, x, _, hx => by simp at hx
  | y :: ys, 0, x, hf, hx => by
      have : y = x := by simpa using hx
      subst this
      have hy := hf y (by simp)
      simp only [List.flatMap_cons, Nat.mul_zero, Nat.add_zero]
      rw [List.getElem?_append_left (by omega)]
  | y :: ys, r + 1, x, hf, hx => by
      have hy := hf y (by simp)
      have hx' : ys[r]? = some x := by simpa using hx
      have ih := flatMap_const_getElem? f n a ha ys r x (fun z hz => hf z (by simp [hz])) hx'
      simp only [List.flatMap_cons]
      rw [List.getElem?_append_right (by rw [hy, Nat.mul_succ]; omega)]
      rw [← ih]
      congr 1
      rw [hy, Nat.mul_succ]; omega

/-- position `ravelF shape i` of the Fortran-order enumeration is the index `i` itself -/
theorem enumF_getElem?_ravelF : ∀ (shape i : List Nat), InBounds shape i →
    (enumF shape)[ravelF shape i]? = some i
  | [], [], _ => by simp [enumF, ravelF]
  | n :: rest, i :: tl, h => by
      obtain ⟨hi, htl⟩ := h
      have ih := enumF_getElem?_ravelF rest tl htl
      simp only [enumF, ravelF]
      rw [flatMap_const_getElem? (fun tl => (List.range n).map (fun i => i :: tl)) n i hi (enumF rest)
        (ravelF rest tl) tl (by intro y _; simp) ih]
      simp [hi]
  | [], _ :: _, h => by simp [InBounds] at h
  | _ :: _, [], h => by simp [InBounds] at h

/-! ### elements -/

theorem encElem_length (e : Endian) (cw k : Nat) (x : Elem) (hx : x.length = k) :
    (encElem e cw x).length = cw * k := by
  unfold encElem
  rw [length_flatMap_const _ _ cw (by intro a _; exact enc_length e cw a), hx, Nat.mul_comm]

theorem decElem_encElem_tail (e : Endian) (cw k : Nat) (x : Elem) (tail : List Nat) (hx : ElemOK cw k x) :
    decElem e cw k (encElem e cw x ++ tail) = x := by
  obtain ⟨hl, hc⟩ := hx
  unfold decElem encElem
  subst hl
  rw [chunks_flatMap (enc e cw) cw x tail (by intro a _; exact enc_length e cw a), List.map_map]
  conv => rhs; rw [← List.map_id x]
  apply List.map_congr_left
  intro c hcm
  simp only [Function.comp, id]
  rw [dec_enc_mod, Nat.mod_eq_of_lt (hc c hcm)]

/-! ### file layout -/

theorem padTo_length (offset : Nat) (h : List Nat) (hh : h.length ≤ offset) :
    (padTo offset h).length = offset := by
  simp [padTo]; omega

theorem writeData_length (e : Endian) (cw k : Nat) (shape : List Nat) (A : List Nat → Elem)
    (hA : ∀ i ∈ enumF shape, ElemOK cw k (A i)) :
    (writeData e cw shape A).length = shape.prod * (cw * k) := by
  rw [writeData_eq, length_flatMap_const _ _ (cw * k), enumF_length]
  intro i hi
  exact encElem_length e cw k (A i) (hA i hi).1

/-- reading back a data block that sits at `offset`, whatever precedes and follows it -/
theorem readData_block (pre tail : List Nat) (offset : Nat) (e : Endian) (cw k : Nat) (shape : List Nat)
    (A : List Nat → Elem) (hpre : pre.length = offset) (hrank : shape ≠ []) (hcw : 0 < cw) (hk : 0 < k)
    (hA : ∀ i ∈ enumF shape, ElemOK cw k (A i)) :
    readData (pre ++ writeData e cw shape A ++ tail) offset e cw k shape
      = .ok (shape, (enumF shape).map A) := by
  have hlen := writeData_length e cw k shape A hA
  unfold readData
  rw [if_neg hrank]
  have hck : 0 < cw * k := Nat.mul_pos hcw hk
  by_cases h0 : shape.prod * (cw * k) = 0
  · have hp : shape.prod = 0 := by
      rcases Nat.mul_eq_zero.mp h0 with h | h
      · exact h
      · omega
    have : enumF shape = [] := by
      apply List.eq_nil_of_length_eq_zero
      rw [enumF_length, hp]
    simp [h0, this]
  · simp only [h0, if_false]
    rw [List.append_assoc, List.drop_left' hpre, List.take_left' hlen]
    simp only [hlen, ne_eq, not_true_eq_false, if_false]
    rw [writeData_eq]
    congr 1
    congr 1
    have hch := chunks_flatMap (fun i => encElem e cw (A i)) (cw * k) (enumF shape) []
      (by intro i hi; exact encElem_length e cw k (A i) (hA i hi).1)
    rw [List.append_nil, enumF_length] at hch
    rw [hch, List.map_map]
    apply List.map_congr_left
    intro i hi
    have := decElem_encElem_tail e cw k (A i) [] (hA i hi)
    simpa using this

theorem readData_short (file : List Nat) (offset : Nat) (e : Endian) (cw k : Nat) (shape : List Nat)
    (hrank : shape ≠ []) (hn : shape.prod * (cw * k) ≠ 0)
    (hshort : file.length < offset + shape.prod * (cw * k)) :
    readData file offset e cw k shape = .error .short := by
  have hlen : ((file.drop offset).take (shape.prod * (cw * k))).length ≠ shape.prod * (cw * k) := by
    simp only [List.length_take, List.length_drop]; omega
  unfold readData
  rw [if_neg hrank]
  simp only [hn, if_false]
  rw [if_pos hlen]

/-! ### integer casts -/

theorem listMin_le : ∀ (vals : List Int) (v : Int), v ∈ vals → listMin vals ≤ v
  | [], _, h => by simp at h
  | [x], v, h => by
      have : v = x := by simpa using h
      subst this; simp [listMin]
  | x :: y :: ys, v, h => by
      simp only [listMin]
      rcases List.mem_cons.mp h with h | h
      · subst h; exact Int.min_le_left _ _
      · exact Int.le_trans (Int.min_le_right _ _) (listMin_le (y :: ys) v h)

theorem le_listMax : ∀ (vals : List Int) (v : Int), v ∈ vals → v ≤ listMax vals
  | [], _, h => by simp at h
  | [x], v, h => by
      have : v = x := by simpa using h
      subst this; simp [listMax]
  | x :: y :: ys, v, h => by
      simp only [listMax]
      rcases List.mem_cons.mp h with h | h
      · subst h; exact Int.le_max_left _ _
      · exact Int.le_trans (le_listMax (y :: ys) v h) (Int.le_max_right _ _)

theorem pow256_pos (w : Nat) : 0 < 256 ^ w := Nat.pow_pos (by decide)

/-- `np.can_cast` between integer dtypes implies range inclusion -/
theorem canCast_int_range (aS oS : Bool) (aw ow : Nat) (v : Int)
    (hc : canCast ⟨intKind aS, aw, 1⟩ ⟨intKind oS, ow, 1⟩ = true) (hv : InRange aS aw v) :
    InRange oS ow v := by
  have hpa := pow256_pos aw
  have hpo := pow256_pos ow
  cases aS <;> cases oS <;> simp [canCast, intKind] at hc <;>
    simp only [InRange, intMin, intMax, if_true, if_false, Bool.false_eq_true] at hv ⊢
  · have := Nat.pow_le_pow_right (n := 256) (by decide) hc
    generalize 256 ^ aw = Pa at *
    generalize 256 ^ ow = Po at *
    omega
  · have h1 : 256 ^ (aw + 1) ≤ 256 ^ ow := Nat.pow_le_pow_right (by decide) hc
    rw [Nat.pow_succ] at h1
    generalize 256 ^ aw = Pa at *
    generalize 256 ^ ow = Po at *
    omega
  · have := Nat.pow_le_pow_right (n := 256) (by decide) hc
    generalize 256 ^ aw = Pa at *
    generalize 256 ^ ow = Po at *
    omega

/-- two's-complement encode/decode is exact on the dtype's range -/
theorem ofBits_toBits (s : Bool) (w : Nat) (hw : 0 < w) (v : Int) (hv : InRange s w v) :
    toBits w v < 256 ^ w ∧ ofBits s w (toBits w v) = v := by
  obtain ⟨w', rfl⟩ : ∃ w', w = w' + 1 := ⟨w - 1, by omega⟩
  have hP := pow256_pos w'
  unfold toBits ofBits
  simp only [InRange, intMin, intMax] at hv
  rw [Nat.pow_succ] at hv ⊢
  generalize 256 ^ w' = P at *
  by_cases h0 : 0 ≤ v
  · have hlt : v < ((P * 256 : Nat) : Int) := by
      cases s <;> simp at hv <;> omega
    rw [Int.emod_eq_of_lt h0 hlt]
    cases s
    · simp; omega
    · simp only [Bool.true_and, if_true] at hv ⊢
      have : ¬ (P * 256 ≤ 2 * v.toNat) := by omega
      simp [this]; omega
  · have hs : s = true := by
      cases s
      · simp at hv; omega
      · rfl
    subst hs
    simp only [if_true] at hv
    have h1 : 0 ≤ v + ((P * 256 : Nat) : Int) := by omega
    have h2 : v + ((P * 256 : Nat) : Int) < ((P * 256 : Nat) : Int) := by omega
    have hmod : v % ((P * 256 : Nat) : Int) = v + ((P * 256 : Nat) : Int) := by
      rw [← Int.add_emod_right v, Int.emod_eq_of_lt h1 h2]
    rw [hmod]
    simp; omega

theorem scalingNeededInt_false (aS oS : Bool) (aw ow : Nat) (vals : List Int)
    (h : scalingNeededInt aS aw oS ow vals = .ok false) :
    canCast ⟨intKind aS, aw, 1⟩ ⟨intKind oS, ow, 1⟩ = true ∨ vals = [] ∨
      (listMin vals = 0 ∧ listMax vals = 0) ∨
      (intMin oS ow ≤ listMin vals ∧ listMax vals ≤ intMax oS ow) := by
  unfold scalingNeededInt scalingNeededBase intRange at h
  by_cases hc : canCast ⟨intKind aS, aw, 1⟩ ⟨intKind oS, ow, 1⟩ = true
  · exact Or.inl hc
  · right
    by_cases hsz : vals.length = 0
    · exact Or.inl (List.eq_nil_of_length_eq_zero hsz)
    · right
      by_cases hz : listMin vals = 0 ∧ listMax vals = 0
      · exact Or.inl hz
      · right
        have e1 : (DKind.uint == DKind.sint) = false := rfl
        cases aS <;> cases oS <;> simp only [intKind, if_true, if_false, Bool.false_eq_true] at hc <;>
          simp [hc, hsz, hz, DType.signed, e1] at h <;> exact h

/-- the driver's `Array`-backed lookup is the model's `loadedAt` -/
theorem loadedAtA_eq (shape : List Nat) (els : List Elem) (i : List Nat) :
    loadedAtA shape els.toArray i = loadedAt shape els i := by
  simp [loadedAtA, loadedAt]

/-! ### re-saving loaded data -/

theorem mem_enumF_inBounds : ∀ (shape i : List Nat), i ∈ enumF shape → InBounds shape i
  | [], i, h => by
      simp [enumF] at h; subst h; trivial
  | n :: rest, i, h => by
      simp only [enumF, List.mem_flatMap, List.mem_map, List.mem_range] at h
      obtain ⟨tl, htl, j, hj, rfl⟩ := h
      exact ⟨hj, mem_enumF_inBounds rest tl htl⟩

theorem loadedAt_map (shape : List Nat) (A : List Nat → Elem) (i : List Nat) (hi : InBounds shape i) :
    loadedAt shape ((enumF shape).map A) i = A i := by
  unfold loadedAt
  rw [List.getD_eq_getElem?_getD, List.getElem?_map, enumF_getElem?_ravelF shape i hi]
  rfl

theorem flatMap_congr' {α β} (l : List α) (f g : α → List β) (h : ∀ a ∈ l, f a = g a) :
    l.flatMap f = l.flatMap g := by
  induction l with
  | nil => rfl
  | cons a l ih =>
      simp only [List.flatMap_cons]
      rw [h a (by simp), ih (fun b hb => h b (by simp [hb]))]

theorem writeData_congr (e : Endian) (cw : Nat) (shape : List Nat) (A B : List Nat → Elem)
    (h : ∀ i ∈ enumF shape, A i = B i) : writeData e cw shape A = writeData e cw shape B := by
  rw [writeData_eq, writeData_eq]
  exact flatMap_congr' _ _ _ (fun i hi => by rw [h i hi])

theorem writeData_loaded (e : Endian) (cw : Nat) (shape : List Nat) (A : List Nat → Elem) :
    writeData e cw shape (loadedAt shape ((enumF shape).map A)) = writeData e cw shape A :=
  writeData_congr e cw shape _ _ (fun i hi => loadedAt_map shape A i (mem_enumF_inBounds shape i hi))

/-! ### shape fields -/

theorem storeDims_ok (dimMax : Nat) (dims : List Int) (g : Nat) (f : ShapeFields)
    (h : storeDims dimMax dims g = .ok f) : f = ⟨dims, g⟩ := by
  unfold storeDims at h
  split at h
  · cases h; rfl
  · cases h

theorem natsToInts_take (l : List Nat) (n : Nat) : (natsToInts l).take n = natsToInts (l.take n) := by
  simp [natsToInts, List.map_take]

theorem natsToInts_drop (l : List Nat) (n : Nat) : (natsToInts l).drop n = natsToInts (l.drop n) := by
  simp [natsToInts, List.map_drop]

theorem natsToInts_inj (a b : List Nat) (h : natsToInts a = natsToInts b) : a = b := by
  unfold natsToInts at h
  induction a generalizing b with
  | nil => cases b with
    | nil => rfl
    | cons y ys => simp at h
  | cons x xs ih => cases b with
    | nil => simp at h
    | cons y ys =>
      simp only [List.map_cons, List.cons.injEq] at h
      rw [Int.ofNat_inj.mp h.1, ih ys h.2]

/-! ### file names -/

theorem rfind_lt (c : Char) : ∀ (s : List Char) (i : Nat), rfind c s = some i → i < s.length
  | [], i, h => by simp [rfind] at h
  | x :: xs, i, h => by
      simp only [rfind] at h
      split at h
      · next j hj =>
        have := rfind_lt c xs j hj
        simp at h; subst h; simp; omega
      · split at h
        · simp at h; subst h; simp
        · simp at h

theorem rfind_append_some (c : Char) (a b : List Char) (i : Nat) (h : rfind c b = some i) :
    rfind c (a ++ b) = some (a.length + i) := by
  induction a with
  | nil => simpa using h
  | cons x a ih => simp only [List.cons_append, rfind, ih, List.length_cons]; congr 1; omega

theorem rfind_append_none (c : Char) (a b : List Char) (h : rfind c b = none) :
    rfind c (a ++ b) = rfind c a := by
  induction a with
  | nil => simp [h, rfind]
  | cons x a ih => simp only [List.cons_append, rfind, ih]

theorem baseName_append (root t : List Char) (ht : rfind '/' t = none) :
    baseName (root ++ t) = baseName root ++ t := by
  unfold baseName
  rw [rfind_append_none '/' root t ht]
  split
  · next i hi =>
    have := rfind_lt '/' root i hi
    rw [List.drop_append_of_le_length (by omega)]
  · rfl

/-- the extension of `root ++ t` is decided by `t` alone when `t` holds a dot, no slash, and the last
    path component of `root` has a character other than a dot -/
theorem splitExt_append (root t : List Char) (d : Nat) (hroot : ∃ c ∈ baseName root, c ≠ '.')
    (hslash : rfind '/' t = none) (hd : rfind '.' t = some d) :
    splitExt (root ++ t) = t.drop d := by
  unfold splitExt
  simp only []
  rw [baseName_append root t hslash, rfind_append_some '.' (baseName root) t d hd]
  simp only []
  have hall : ((baseName root ++ t).take ((baseName root).length + d)).all (fun x => decide (x = '.')) = false := by
    obtain ⟨c, hc, hne⟩ := hroot
    rw [List.all_eq_false]
    refine ⟨c, ?_, by simpa using hne⟩
    rw [List.take_append]
    apply List.mem_append_left
    rw [List.take_of_length_le (by omega)]
    exact hc
  rw [hall]
  simp [List.drop_append]

end Nb.C01
