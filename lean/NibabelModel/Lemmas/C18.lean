import NibabelModel.Model.C18
import NibabelModel.Lemmas.PySlice
/-! Lemmas/C18 — helper lemmas for the C18 property theorems (core Lean only). -/
deriving instance DecidableEq for Except

namespace Nb.C18
open Nb

/-! ## generic list facts -/

theorem filterMap_eq_map_of_some {α β} (f : α → Option β) (g : α → β) :
    ∀ (l : List α), (∀ x ∈ l, f x = some (g x)) → l.filterMap f = l.map g := by
  intro l
  induction l with
  | nil => intro _; rfl
  | cons x xs ih =>
    intro h
    have hx := h x (by simp)
    have := ih (fun y hy => h y (by simp [hy]))
    simp [hx, this]

theorem filterMap_range_eq_map {β} (n : Nat) (f : Nat → Option β) (g : Nat → β)
    (h : ∀ k, k < n → f k = some (g k)) : (List.range n).filterMap f = (List.range n).map g :=
  filterMap_eq_map_of_some f g _ (fun k hk => h k (List.mem_range.mp hk))

theorem rangeInts_length (a c : Int) (n : Nat) : (rangeInts a c n).length = n := by
  simp [rangeInts]

theorem rangeInts_getElem? (a c : Int) (n k : Nat) (hk : k < n) :
    (rangeInts a c n)[k]? = some (a + (k : Int) * c) := by
  simp [rangeInts, hk]

/-! ## gather -/

theorem gather_map_some {α} (l : List α) (ps : List Nat) (h : ∀ p ∈ ps, p < l.length) :
    (gather l ps).map some = ps.map (fun p => l[p]?) := by
  induction ps with
  | nil => rfl
  | cons p ps ih =>
    have hp : p < l.length := h p (by simp)
    have ih' := ih (fun q hq => h q (by simp [hq]))
    simp only [gather] at ih' ⊢
    simp [List.getElem?_eq_getElem hp, ih']

theorem gather_length {α} (l : List α) (ps : List Nat) (h : ∀ p ∈ ps, p < l.length) :
    (gather l ps).length = ps.length := by
  have := congrArg List.length (gather_map_some l ps h)
  simpa using this

theorem gather_getElem? {α} (l : List α) (ps : List Nat) (h : ∀ p ∈ ps, p < l.length)
    (k : Nat) (hk : k < ps.length) : (gather l ps)[k]? = l[ps[k]]? := by
  have := congrArg (fun (x : List (Option α)) => x[k]?) (gather_map_some l ps h)
  simp only [List.getElem?_map, List.getElem?_eq_getElem hk, Option.map_some] at this
  have hk' : k < (gather l ps).length := by rw [gather_length l ps h]; exact hk
  rw [List.getElem?_eq_getElem hk'] at this ⊢
  simpa using this

theorem gather_map {α β} (f : α → β) (l : List α) (ps : List Nat) :
    gather (l.map f) ps = (gather l ps).map f := by
  induction ps with
  | nil => rfl
  | cons p ps ih =>
    simp only [gather, List.filterMap_cons, List.getElem?_map] at ih ⊢
    cases h : l[p]? <;> simp [ih]

theorem gather_zip {α β} (a : List α) (b : List β) (hl : a.length = b.length) (ps : List Nat) :
    gather (a.zip b) ps = (gather a ps).zip (gather b ps) := by
  induction ps with
  | nil => rfl
  | cons p ps ih =>
    simp only [gather, List.filterMap_cons] at ih ⊢
    by_cases hp : p < a.length
    · have hpb : p < b.length := by omega
      have hz : p < (a.zip b).length := by simp [List.length_zip]; omega
      simp [List.getElem?_eq_getElem hp, List.getElem?_eq_getElem hpb, List.getElem?_eq_getElem hz, ih]
    · have hpb : ¬ p < b.length := by omega
      have hz : ¬ p < (a.zip b).length := by simp [List.length_zip]; omega
      simp [List.getElem?_eq_none (Nat.le_of_not_lt hp), List.getElem?_eq_none (Nat.le_of_not_lt hpb),
        List.getElem?_eq_none (Nat.le_of_not_lt hz), ih]

theorem gather_zip3 {α β γ} (a : List α) (b : List β) (c : List γ) (h1 : b.length = a.length)
    (h2 : c.length = a.length) (ps : List Nat) :
    gather (zip3 a b c) ps = zip3 (gather a ps) (gather b ps) (gather c ps) := by
  unfold zip3
  rw [gather_zip a (b.zip c) (by simp [List.length_zip]; omega), gather_zip b c (by omega)]

/-! ## positions are in range -/

theorem maskPosFrom_lt (m : List Bool) : ∀ k, ∀ p ∈ maskPosFrom k m, p < k + m.length := by
  induction m with
  | nil => intro k p hp; simp [maskPosFrom] at hp
  | cons b bs ih =>
    intro k p hp
    simp only [maskPosFrom] at hp
    split at hp
    · rcases List.mem_cons.mp hp with h | h
      · subst h; simp
      · have := ih (k + 1) p h; simp; omega
    · have := ih (k + 1) p hp; simp; omega

theorem pyIntIndex_lt {n : Nat} {i : Int} {k : Nat} (h : pyIntIndex n i = some k) : k < n := by
  unfold pyIntIndex at h
  split at h
  · injection h with h; omega
  · split at h
    · injection h with h; omega
    · cases h

theorem arrPos_lt (n : Nat) : ∀ (l : List Int) (ps : List Nat), arrPos n l = .ok ps → ∀ p ∈ ps, p < n := by
  intro l
  induction l with
  | nil => intro ps h p hp; simp [arrPos] at h; subst h; simp at hp
  | cons i is ih =>
    intro ps h p hp
    simp only [arrPos] at h
    split at h
    · rename_i k r hk hr
      injection h with h; subst h
      rcases List.mem_cons.mp hp with h | h
      · subst h; exact pyIntIndex_lt hk
      · exact ih r hr p h
    · cases h

theorem arrPos_length (n : Nat) : ∀ (l : List Int) (ps : List Nat), arrPos n l = .ok ps → ps.length = l.length := by
  intro l
  induction l with
  | nil => intro ps h; simp [arrPos] at h; subst h; rfl
  | cons i is ih =>
    intro ps h
    simp only [arrPos] at h
    split at h
    · rename_i k r hk hr
      injection h with h; subst h
      simp [ih r hr]
    · cases h

theorem positions_lt' (n : Nat) (idx : Index) (ps : List Nat) (h : positions n idx = .ok ps) :
    ∀ p ∈ ps, p < n := by
  cases idx with
  | int i => simp [positions] at h
  | slice s =>
    simp only [positions] at h
    split at h
    · cases h
    · rename_i hs
      injection h with h; subst h
      exact PySlice.sel_lt s n hs
  | arr l => exact arrPos_lt n l ps h
  | mask m =>
    simp only [positions] at h
    split at h
    · rename_i hm
      injection h with h; subst h
      intro p hp
      have := maskPosFrom_lt m 0 p hp
      rcases hm with hm | hm
      · omega
      · have : m = [] := by simpa using hm
        subst this; simp [maskPosFrom] at hp
    · cases h

/-! ## BrainModelAxis constructor -/

theorem gather_subset {α} (l : List α) (ps : List Nat) : ∀ x ∈ gather l ps, x ∈ l := by
  intro x hx
  simp only [gather, List.mem_filterMap] at hx
  obtain ⟨p, _, hp⟩ := hx
  exact List.mem_of_getElem? hp

theorem dictHas_prune (name : List Nat) (nv : Dict) (x : Nat) (hx : x ∈ name) :
    dictHas (pruneNv name nv) x = dictHas nv x := by
  unfold dictHas pruneNv
  rw [Bool.eq_iff_iff]
  simp only [List.any_eq_true, List.mem_filter]
  constructor
  · rintro ⟨p, ⟨hp, _⟩, hpx⟩; exact ⟨p, hp, hpx⟩
  · rintro ⟨p, hp, hpx⟩
    have : p.1 = x := by simpa using hpx
    exact ⟨p, ⟨hp, by simp [this, hx]⟩, hpx⟩

theorem surfFlags_prune (name : List Nat) (nv : Dict) :
    surfFlags (pruneNv name nv) name = surfFlags nv name := by
  unfold surfFlags
  apply List.map_congr_left
  intro x hx
  exact dictHas_prune name nv x hx

theorem pruneNv_keys (name : List Nat) (nv : Dict) : ∀ p ∈ pruneNv name nv, p.1 ∈ name := by
  intro p hp
  simp only [pruneNv, List.mem_filter] at hp
  simpa using hp.2

/-- what the constructor establishes -/
structure BM.Valid (a : BM) : Prop where
  ne : a.name ≠ []
  lvox : a.voxel.length = a.name.length
  lvert : a.vertex.length = a.name.length
  keys : ∀ p ∈ a.nvertices, p.1 ∈ a.name
  vertOk : vertBad (surfFlags a.nvertices a.name) a.vertex = false
  voxOk : voxBad (surfFlags a.nvertices a.name) a.voxel = false
  vol : (surfFlags a.nvertices a.name).all id = false → a.affine.isSome ∧ a.shape.isSome
  volNone : (surfFlags a.nvertices a.name).all id = true → a.affine = none ∧ a.shape = none

theorem bmMk_ok (name : List Nat) (voxel : List Vox) (vertex : List Int) (aff : Option Nat)
    (shp : Option Shape) (nv : Dict) (hne : name ≠ []) (h1 : voxel.length = name.length)
    (h2 : vertex.length = name.length)
    (h3 : vertBad (surfFlags nv name) vertex = false) (h4 : voxBad (surfFlags nv name) voxel = false)
    (h5 : (surfFlags nv name).all id = false → aff.isSome ∧ shp.isSome) :
    bmMk name voxel vertex aff shp nv = .ok ⟨name, voxel, vertex,
      if (surfFlags nv name).all id then none else aff,
      if (surfFlags nv name).all id then none else shp, pruneNv name nv⟩ := by
  unfold bmMk
  have hne' : name.isEmpty = false := by cases name <;> simp_all
  simp only [surfFlags_prune, hne', h1, h2, h3, h4]
  cases hall : (surfFlags nv name).all id
  · obtain ⟨ha, hs⟩ := h5 hall
    cases aff <;> cases shp <;> simp_all
  · simp

theorem bmMk_valid (name : List Nat) (voxel : List Vox) (vertex : List Int) (aff : Option Nat)
    (shp : Option Shape) (nv : Dict) (r : BM) (h : bmMk name voxel vertex aff shp nv = .ok r) :
    r.Valid := by
  unfold bmMk at h
  simp only [surfFlags_prune] at h
  split at h; · cases h
  split at h; · cases h
  split at h; · cases h
  split at h; · cases h
  split at h; · cases h
  rename_i h0 h1 h2 h3 h4
  injection h with h; subst h
  have hne : name ≠ [] := by intro hh; subst hh; simp at h0
  refine ⟨hne, by simp only; omega, by simp only; omega, pruneNv_keys name nv, ?_, ?_, ?_, ?_⟩
  · simpa [surfFlags_prune] using h3
  · simpa [surfFlags_prune] using h4
  · intro hall
    simp only [surfFlags_prune] at hall
    simp only [hall]
    cases aff <;> cases shp <;> simp_all
  · intro hall
    simp only [surfFlags_prune] at hall
    simp [hall]


theorem npTake_ok {α} (l : List α) (idx : Index) (ps : List Nat) (h : positions l.length idx = .ok ps) :
    npTake l idx = .ok (gather l ps) := by simp [npTake, h, Except.map]

theorem npTake_error {α} (l : List α) (idx : Index) (e : Err) (h : positions l.length idx = .error e) :
    npTake l idx = .error e := by simp [npTake, h, Except.map]

theorem any_gather_false {α} (l : List α) (ps : List Nat) (q : α → Bool) (h : l.any q = false) :
    (gather l ps).any q = false := by
  rw [List.any_eq_false] at h ⊢
  intro x hx
  exact h x (gather_subset l ps x hx)

theorem elements_prune (n : List Nat) (v : List Vox) (w : List Int) (nv : Dict) :
    (zip3 n v w).map (bmElem (pruneNv n nv)) = (zip3 n v w).map (bmElem nv) := by
  apply List.map_congr_left
  intro e he
  have : e.1 ∈ n := by
    unfold zip3 at he
    exact (List.of_mem_zip (a := e.1) (b := e.2) he).1
  simp only [bmElem, dictHas_prune n nv e.1 this]

/-! ## iter_structures runs -/

/-- the brain-model names a run list stands for -/
def expandRuns (rs : List Run) : List Nat := rs.flatMap (fun r => List.replicate (r.stop - r.start) r.name)

/-- `rs` tiles `[s, e)`: consecutive, non-empty half-open intervals -/
def Tiles : Nat → List Run → Nat → Prop
  | s, [], e => s = e
  | s, r :: rs, e => r.start = s ∧ r.start < r.stop ∧ Tiles r.stop rs e

/-- adjacent runs carry different names (runs are maximal) -/
def Maximal : List Run → Prop
  | [] => True
  | [_] => True
  | r :: r' :: rs => r.name ≠ r'.name ∧ Maximal (r' :: rs)

theorem runsGo_expand : ∀ (xs : List Nat) (s i c : Nat), i ≤ c →
    expandRuns (runsGo s i c xs) = List.replicate (c - i) s ++ xs := by
  intro xs
  induction xs with
  | nil => intro s i c _; simp [runsGo, expandRuns]
  | cons x xs ih =>
    intro s i c hic
    simp only [runsGo]
    split
    · rename_i hne
      have := ih x c (c + 1) (by omega)
      simp only [expandRuns, List.flatMap_cons] at this ⊢
      rw [this]
      have : c + 1 - c = 1 := by omega
      simp [this]
    · rename_i heq
      have heq : s = x := by simpa using heq
      subst heq
      have := ih s i (c + 1) (by omega)
      rw [this]
      have : c + 1 - i = (c - i) + 1 := by omega
      rw [this, List.replicate_succ', List.append_assoc]; rfl

theorem runsGo_tiles : ∀ (xs : List Nat) (s i c : Nat), i < c →
    Tiles i (runsGo s i c xs) (c + xs.length) := by
  intro xs
  induction xs with
  | nil => intro s i c h; simp [runsGo, Tiles, h]
  | cons x xs ih =>
    intro s i c hic
    simp only [runsGo]
    split
    · have := ih x c (c + 1) (by omega)
      refine ⟨rfl, hic, ?_⟩
      simpa [Nat.add_assoc, Nat.add_comm 1] using this
    · have := ih s i (c + 1) (by omega)
      simpa [Nat.add_assoc, Nat.add_comm 1] using this

theorem runsGo_head : ∀ (xs : List Nat) (s i c : Nat), ∃ r rs, runsGo s i c xs = r :: rs ∧ r.name = s := by
  intro xs
  induction xs with
  | nil => intro s i c; exact ⟨_, _, rfl, rfl⟩
  | cons x xs ih =>
    intro s i c
    simp only [runsGo]
    split
    · exact ⟨_, _, rfl, rfl⟩
    · exact ih s i (c + 1)

theorem runsGo_maximal : ∀ (xs : List Nat) (s i c : Nat), Maximal (runsGo s i c xs) := by
  intro xs
  induction xs with
  | nil => intro s i c; simp [runsGo, Maximal]
  | cons x xs ih =>
    intro s i c
    simp only [runsGo]
    split
    · rename_i hne
      obtain ⟨r, rs, hr, hn⟩ := runsGo_head xs x c (c + 1)
      have := ih x c (c + 1)
      rw [hr] at this ⊢
      exact ⟨by simpa [hn] using hne, this⟩
    · exact ih s i (c + 1)

/-! ## int index -/

theorem npGet_some {α} (l : List α) (i : Int) (k : Nat) (h : pyIntIndex l.length i = some k) :
    ∃ hk : k < l.length, npGet l i = .ok l[k] := by
  have hk := pyIntIndex_lt h
  exact ⟨hk, by simp [npGet, h, List.getElem?_eq_getElem hk]⟩

theorem npGet_none {α} (l : List α) (i : Int) (h : pyIntIndex l.length i = none) :
    npGet l i = .error .indexError := by simp [npGet, h]

theorem npGet_zip {α β : Type} (a : List α) (b : List β) (hl : b.length = a.length) (i : Int) :
    npGet (a.zip b) i = (do let x ← npGet a i; let y ← npGet b i; pure (x, y)) := by
  have hz : (a.zip b).length = a.length := by simp [List.length_zip]; omega
  cases h : pyIntIndex a.length i with
  | none =>
    rw [npGet_none _ _ (by rw [hz]; exact h), npGet_none _ _ h]; rfl
  | some k =>
    obtain ⟨h1, e1⟩ := npGet_some (a.zip b) i k (by rw [hz]; exact h)
    obtain ⟨h2, e2⟩ := npGet_some a i k h
    obtain ⟨h3, e3⟩ := npGet_some b i k (by rw [hl]; exact h)
    rw [e1, e2, e3]
    simp [bind, Except.bind, pure, Except.pure]

theorem npGet_map {α β} (f : α → β) (l : List α) (i : Int) :
    npGet (l.map f) i = (npGet l i).map f := by
  cases h : pyIntIndex l.length i with
  | none => rw [npGet_none _ _ (by simpa using h), npGet_none _ _ h]; rfl
  | some k =>
    obtain ⟨h1, e1⟩ := npGet_some (l.map f) i k (by simpa using h)
    obtain ⟨h2, e2⟩ := npGet_some l i k h
    rw [e1, e2]; simp [Except.map]

theorem npGet_zip3 {α β γ : Type} (a : List α) (b : List β) (c : List γ) (h1 : b.length = a.length)
    (h2 : c.length = a.length) (i : Int) :
    npGet (zip3 a b c) i = (do let x ← npGet a i; let y ← npGet b i; let z ← npGet c i; pure (x, y, z)) := by
  unfold zip3
  rw [npGet_zip a (b.zip c) (by simp [List.length_zip]; omega), npGet_zip b c (by omega)]
  cases npGet a i <;> cases npGet b i <;> cases npGet c i <;> rfl

theorem zip3_append {α β γ} (a a' : List α) (b b' : List β) (c c' : List γ)
    (h1 : b.length = a.length) (h2 : c.length = a.length) :
    zip3 (a ++ a') (b ++ b') (c ++ c') = zip3 a b c ++ zip3 a' b' c' := by
  unfold zip3
  rw [List.zip_append (by omega), List.zip_append (by simp [List.length_zip]; omega)]

/-! ## nvertices merge -/

theorem dictSet_has (d : Dict) (k v x : Nat) :
    dictHas (dictSet d k v) x = (dictHas d x || (k == x)) := by
  unfold dictSet
  split
  · rename_i hk
    have hmap : dictHas (d.map (fun p => if (p.1 == k) = true then (k, v) else p)) x = dictHas d x := by
      unfold dictHas
      rw [List.any_map]
      congr 1
      funext p
      simp only [Function.comp]
      split
      · rename_i hp
        have : p.1 = k := by simpa using hp
        simp [this]
      · rfl
    rw [hmap]
    by_cases hx : k = x
    · subst hx; simp [hk]
    · have : (k == x) = false := by simp [hx]
      simp [this]
  · unfold dictHas
    simp [List.any_append]

theorem mergeNv_has : ∀ (e d m : Dict), mergeNv d e = .ok m →
    ∀ x, dictHas m x = (dictHas d x || dictHas e x) := by
  intro e
  induction e with
  | nil =>
    intro d m h x
    simp only [mergeNv] at h
    injection h with h; subst h
    simp [dictHas]
  | cons p ps ih =>
    intro d m h x
    obtain ⟨k, v⟩ := p
    simp only [mergeNv] at h
    have key : ∀ m, mergeNv (dictSet d k v) ps = .ok m →
        dictHas m x = (dictHas d x || dictHas ((k, v) :: ps) x) := by
      intro m hm
      rw [ih _ _ hm x, dictSet_has]
      simp only [dictHas, List.any_cons, Bool.or_assoc]
    split at h
    · split at h
      · cases h
      · exact key m h
    · exact key m h

theorem bmMk_fields (name : List Nat) (voxel : List Vox) (vertex : List Int) (aff : Option Nat)
    (shp : Option Shape) (nv : Dict) (r : BM) (h : bmMk name voxel vertex aff shp nv = .ok r) :
    r.name = name ∧ r.voxel = voxel ∧ r.vertex = vertex ∧ r.nvertices = pruneNv name nv := by
  unfold bmMk at h
  simp only [surfFlags_prune] at h
  split at h; · cases h
  split at h; · cases h
  split at h; · cases h
  split at h; · cases h
  split at h; · cases h
  injection h with h; subst h
  exact ⟨rfl, rfl, rfl, rfl⟩

theorem mem_zip3_fst {α β γ} (a : List α) (b : List β) (c : List γ) (e : α × β × γ) (he : e ∈ zip3 a b c) :
    e.1 ∈ a := by
  unfold zip3 at he
  exact (List.of_mem_zip (a := e.1) (b := e.2) he).1

/-! ## to_mapping -/

/-! sliceOf facts -/
theorem sliceOf_length {α} (l : List α) (s e : Nat) (h : e ≤ l.length) : (sliceOf l s e).length = e - s := by
  simp [sliceOf]; omega

theorem sliceOf_map {α β} (f : α → β) (l : List α) (s e : Nat) :
    sliceOf (l.map f) s e = (sliceOf l s e).map f := by
  simp [sliceOf, List.map_take, List.map_drop]

theorem sliceOf_zip {α β} (a : List α) (b : List β) (s e : Nat) :
    sliceOf (a.zip b) s e = (sliceOf a s e).zip (sliceOf b s e) := by
  simp only [sliceOf, List.zip, List.take_zipWith, List.drop_zipWith]

theorem sliceOf_subset {α} (l : List α) (s e : Nat) : ∀ x ∈ sliceOf l s e, x ∈ l := by
  intro x hx
  exact List.mem_of_mem_drop (List.mem_of_mem_take hx)

theorem any_sliceOf_false {α} (l : List α) (s e : Nat) (q : α → Bool) (h : l.any q = false) :
    (sliceOf l s e).any q = false := by
  rw [List.any_eq_false] at h ⊢
  intro x hx
  exact h x (sliceOf_subset l s e x hx)

theorem Tiles_bounds : ∀ (rs : List Run) (s e : Nat), Tiles s rs e →
    s ≤ e ∧ ∀ r ∈ rs, s ≤ r.start ∧ r.start < r.stop ∧ r.stop ≤ e := by
  intro rs
  induction rs with
  | nil => intro s e h; simp only [Tiles] at h; subst h; simp
  | cons r rs ih =>
    intro s e h
    obtain ⟨h1, h2, h3⟩ := h
    obtain ⟨i1, i2⟩ := ih _ _ h3
    refine ⟨by omega, ?_⟩
    intro q hq
    rcases List.mem_cons.mp hq with hq | hq
    · subst hq; omega
    · have := i2 q hq; omega

/-- the `Cifti2BrainModel` that `to_mapping` builds for one run -/
def mkRec (a : BM) (r : Run) : BMRec :=
  { offset := r.start, count := r.stop - r.start, surf := dictHas a.nvertices r.name, name := r.name,
    nvert := if dictHas a.nvertices r.name then dictGet a.nvertices r.name else none,
    vox := if dictHas a.nvertices r.name then [] else sliceOf a.voxel r.start r.stop,
    vert := if dictHas a.nvertices r.name then sliceOf a.vertex r.start r.stop else [] }

theorem bmSub_ok (a : BM) (hv : a.Valid) (s e : Nat) (h1 : s < e) (h2 : e ≤ a.name.length) :
    ∃ sub, bmSub a s e = .ok sub ∧ sub.size = e - s ∧ sub.voxel = sliceOf a.voxel s e ∧
      sub.vertex = sliceOf a.vertex s e := by
  have l1 := sliceOf_length a.name s e h2
  have l2 := sliceOf_length a.voxel s e (by rw [hv.lvox]; exact h2)
  have l3 := sliceOf_length a.vertex s e (by rw [hv.lvert]; exact h2)
  have hne : sliceOf a.name s e ≠ [] := by
    intro hh; rw [hh] at l1; simp at l1; omega
  have hflags : surfFlags a.nvertices (sliceOf a.name s e) = sliceOf (surfFlags a.nvertices a.name) s e := by
    simp only [surfFlags, sliceOf_map]
  have hvert : vertBad (surfFlags a.nvertices (sliceOf a.name s e)) (sliceOf a.vertex s e) = false := by
    rw [hflags]; unfold vertBad; rw [← sliceOf_zip]; exact any_sliceOf_false _ _ _ _ hv.vertOk
  have hvox : voxBad (surfFlags a.nvertices (sliceOf a.name s e)) (sliceOf a.voxel s e) = false := by
    rw [hflags]; unfold voxBad; rw [← sliceOf_zip]; exact any_sliceOf_false _ _ _ _ hv.voxOk
  have hvol : (surfFlags a.nvertices (sliceOf a.name s e)).all id = false →
      a.affine.isSome ∧ a.shape.isSome := by
    intro hall
    apply hv.vol
    rw [hflags] at hall
    rw [List.all_eq_false] at hall ⊢
    obtain ⟨x, hx, hxf⟩ := hall
    exact ⟨x, sliceOf_subset _ _ _ x hx, hxf⟩
  have hok := bmMk_ok (sliceOf a.name s e) (sliceOf a.voxel s e) (sliceOf a.vertex s e) a.affine a.shape
    a.nvertices hne (by omega) (by omega) hvert hvox hvol
  exact ⟨_, hok, by simpa [BM.size] using l1, rfl, rfl⟩

theorem recsOf_spec (a : BM) (hv : a.Valid) : ∀ (rs : List Run),
    (∀ r ∈ rs, r.start < r.stop ∧ r.stop ≤ a.name.length) → recsOf a rs = .ok (rs.map (mkRec a)) := by
  intro rs
  induction rs with
  | nil => intro _; rfl
  | cons r rs ih =>
    intro h
    obtain ⟨h1, h2⟩ := h r (by simp)
    obtain ⟨sub, e1, e2, e3, e4⟩ := bmSub_ok a hv r.start r.stop h1 h2
    have := ih (fun q hq => h q (by simp [hq]))
    simp only [recsOf, e1, this, bind, Except.bind, pure, Except.pure, List.map_cons, mkRec, e2, e3, e4]

/-! ## from_index_mapping -/

def vertPiece (a : BM) (r : Run) : List Int :=
  if dictHas a.nvertices r.name then sliceOf a.vertex r.start r.stop
  else List.replicate (r.stop - r.start) (-1)

def voxPiece (a : BM) (r : Run) : List Vox :=
  if dictHas a.nvertices r.name then List.replicate (r.stop - r.start) (-1, -1, -1)
  else sliceOf a.voxel r.start r.stop

def nvAfter (a : BM) (d : Dict) : List Run → Dict
  | [] => d
  | r :: rs =>
    nvAfter a (if dictHas a.nvertices r.name then dictSet d r.name ((dictGet a.nvertices r.name).getD 0) else d) rs

theorem setSlice_prefix {α} (pv vals : List α) (m c : Nat) (d : α) (hc : vals.length = c) (hm : c ≤ m) :
    setSlice (pv ++ List.replicate m d) pv.length c vals = .ok (pv ++ vals ++ List.replicate (m - c) d) := by
  unfold setSlice
  have h1 : vals.length = c ∧ pv.length + c ≤ (pv ++ List.replicate m d).length := by
    simp; omega
  simp only [h1, and_self, if_true]
  congr 2
  · simp
  · rw [List.drop_append]
    simp

theorem expandRuns_cons (r : Run) (rs : List Run) :
    expandRuns (r :: rs) = List.replicate (r.stop - r.start) r.name ++ expandRuns rs := by
  simp [expandRuns]

theorem fromLoop_spec (a : BM) (hv : a.Valid) : ∀ (rs : List Run) (s : Nat), Tiles s rs a.name.length →
    ∀ (st : FromState) (pv : List Int) (px : List Vox),
      st.vertex = pv ++ List.replicate (a.name.length - s) (-1) → pv.length = s →
      st.voxel = px ++ List.replicate (a.name.length - s) (-1, -1, -1) → px.length = s →
      ∃ st', fromLoop st (rs.map (mkRec a)) = .ok st' ∧ st'.name = st.name ++ expandRuns rs ∧
        st'.vertex = pv ++ rs.flatMap (vertPiece a) ∧ st'.voxel = px ++ rs.flatMap (voxPiece a) ∧
        st'.nv = nvAfter a st.nv rs := by
  intro rs
  induction rs with
  | nil =>
    intro s hT st pv px h1 h2 h3 h4
    simp only [Tiles] at hT
    subst hT
    refine ⟨st, rfl, by simp [expandRuns], ?_, ?_, rfl⟩
    · simpa using h1
    · simpa using h3
  | cons r rs ih =>
    intro s hT st pv px h1 h2 h3 h4
    obtain ⟨t1, t2, t3⟩ := hT
    have hb := (Tiles_bounds rs r.stop _ t3).1
    subst t1
    have hc : r.stop - r.start ≤ a.name.length - r.start := by omega
    have hrest : a.name.length - r.start - (r.stop - r.start) = a.name.length - r.stop := by omega
    simp only [List.map_cons, fromLoop, bind, Except.bind]
    by_cases hs : dictHas a.nvertices r.name = true
    · have hlen : (sliceOf a.vertex r.start r.stop).length = r.stop - r.start :=
        sliceOf_length _ _ _ (by rw [hv.lvert]; exact hb)
      have hset := setSlice_prefix pv (sliceOf a.vertex r.start r.stop) (a.name.length - r.start)
        (r.stop - r.start) (-1) hlen hc
      rw [h2, hrest] at hset
      simp only [fromStep, mkRec, hs, if_true, h1, hset, bind, Except.bind, pure, Except.pure]
      have hvox : st.voxel = (px ++ List.replicate (r.stop - r.start) (-1, -1, -1)) ++
          List.replicate (a.name.length - r.stop) (-1, -1, -1) := by
        rw [h3, List.append_assoc, List.replicate_append_replicate]; congr 2; omega
      obtain ⟨st', e1, e2, e3, e4, e5⟩ := ih r.stop t3
        { st with vertex := pv ++ sliceOf a.vertex r.start r.stop ++ List.replicate (a.name.length - r.stop) (-1),
                  name := st.name ++ List.replicate (r.stop - r.start) r.name,
                  nv := dictSet st.nv r.name ((dictGet a.nvertices r.name).getD 0) }
        (pv ++ sliceOf a.vertex r.start r.stop) (px ++ List.replicate (r.stop - r.start) (-1, -1, -1))
        rfl (by simp [hlen, h2]; omega) hvox (by simp [h4]; omega)
      refine ⟨st', e1, ?_, ?_, ?_, ?_⟩
      · rw [e2, expandRuns_cons, List.append_assoc]
      · rw [e3, List.flatMap_cons, vertPiece, if_pos hs, List.append_assoc]
      · rw [e4, List.flatMap_cons, voxPiece, if_pos hs, List.append_assoc]
      · rw [e5]; simp only [nvAfter, hs, if_true]
    · have hs' : dictHas a.nvertices r.name = false := by simpa using hs
      have hlen : (sliceOf a.voxel r.start r.stop).length = r.stop - r.start :=
        sliceOf_length _ _ _ (by rw [hv.lvox]; exact hb)
      have hset := setSlice_prefix px (sliceOf a.voxel r.start r.stop) (a.name.length - r.start)
        (r.stop - r.start) (-1, -1, -1) hlen hc
      rw [h4, hrest] at hset
      simp only [fromStep, mkRec, hs', Bool.false_eq_true, if_false, h3, hset, bind, Except.bind, pure, Except.pure]
      have hvert : st.vertex = (pv ++ List.replicate (r.stop - r.start) (-1)) ++
          List.replicate (a.name.length - r.stop) (-1) := by
        rw [h1, List.append_assoc, List.replicate_append_replicate]; congr 2; omega
      obtain ⟨st', e1, e2, e3, e4, e5⟩ := ih r.stop t3
        { st with voxel := px ++ sliceOf a.voxel r.start r.stop ++ List.replicate (a.name.length - r.stop) (-1, -1, -1),
                  name := st.name ++ List.replicate (r.stop - r.start) r.name }
        (pv ++ List.replicate (r.stop - r.start) (-1)) (px ++ sliceOf a.voxel r.start r.stop)
        hvert (by simp [h2]; omega) rfl (by simp [hlen, h4]; omega)
      refine ⟨st', e1, ?_, ?_, ?_, ?_⟩
      · rw [e2, expandRuns_cons, List.append_assoc]
      · rw [e3, List.flatMap_cons, vertPiece, if_neg hs, List.append_assoc]
      · rw [e4, List.flatMap_cons, voxPiece, if_neg hs, List.append_assoc]
      · rw [e5]; simp only [nvAfter, hs']; rfl

theorem drop_eq_slice_append {α} (l : List α) (s e : Nat) (h : s ≤ e) :
    l.drop s = sliceOf l s e ++ l.drop e := by
  unfold sliceOf
  have : l.drop e = (l.drop s).drop (e - s) := by rw [List.drop_drop]; congr 1; omega
  rw [this, List.take_append_drop]

/-- every run of a tiling whose expansion is the tail of `names` covers a constant stretch -/
theorem run_slices_const (names : List Nat) : ∀ (rs : List Run) (s : Nat), Tiles s rs names.length →
    expandRuns rs = names.drop s →
    ∀ r ∈ rs, sliceOf names r.start r.stop = List.replicate (r.stop - r.start) r.name := by
  intro rs
  induction rs with
  | nil => intro s _ _ r hr; simp at hr
  | cons q rs ih =>
    intro s hT hE r hr
    obtain ⟨t1, t2, t3⟩ := hT
    subst t1
    rw [expandRuns_cons] at hE
    have hhead : sliceOf names q.start q.stop = List.replicate (q.stop - q.start) q.name := by
      unfold sliceOf
      rw [← hE, List.take_left' (by simp)]
    have htail : expandRuns rs = names.drop q.stop := by
      have h1 := drop_eq_slice_append names q.start q.stop (by omega)
      rw [hhead, ← hE] at h1
      exact (List.append_cancel_left h1)
    rcases List.mem_cons.mp hr with h | h
    · subst h; exact hhead
    · exact ih q.stop t3 htail r h

theorem zip3_replicate_surf (nv : Dict) (nm : Nat) (hF : dictHas nv nm = true) :
    ∀ (w : List Int) (v : List Vox), v.length = w.length →
    (zip3 (List.replicate w.length nm) v w).map (bmElem nv) = w.map (BMElem.surf nm) := by
  intro w
  induction w with
  | nil => intro v _; simp [zip3]
  | cons x xs ih =>
    intro v hv
    cases v with
    | nil => simp at hv
    | cons y ys =>
      have := ih ys (by simpa using hv)
      simp only [zip3] at this ⊢
      simp [List.replicate_succ, bmElem, hF, this]

theorem zip3_replicate_vox (nv : Dict) (nm : Nat) (hF : dictHas nv nm = false) :
    ∀ (v : List Vox) (w : List Int), w.length = v.length →
    (zip3 (List.replicate v.length nm) v w).map (bmElem nv) = v.map (BMElem.vox nm) := by
  intro v
  induction v with
  | nil => intro w _; simp [zip3]
  | cons x xs ih =>
    intro w hw
    cases w with
    | nil => simp at hw
    | cons y ys =>
      have := ih ys (by simpa using hw)
      simp only [zip3] at this ⊢
      simp [List.replicate_succ, bmElem, hF, this]

theorem piece_lengths (a : BM) (hv : a.Valid) (r : Run) (h : r.stop ≤ a.name.length) :
    (vertPiece a r).length = r.stop - r.start ∧ (voxPiece a r).length = r.stop - r.start := by
  unfold vertPiece voxPiece
  have l2 := sliceOf_length a.voxel r.start r.stop (by rw [hv.lvox]; exact h)
  have l3 := sliceOf_length a.vertex r.start r.stop (by rw [hv.lvert]; exact h)
  split <;> simp [l2, l3]

/-- per run: the masked pieces describe the same elements as the original slices -/
theorem piece_elements (a : BM) (hv : a.Valid) (r : Run) (h : r.stop ≤ a.name.length) :
    (zip3 (List.replicate (r.stop - r.start) r.name) (voxPiece a r) (vertPiece a r)).map (bmElem a.nvertices)
    = (zip3 (List.replicate (r.stop - r.start) r.name) (sliceOf a.voxel r.start r.stop)
        (sliceOf a.vertex r.start r.stop)).map (bmElem a.nvertices) := by
  have l2 := sliceOf_length a.voxel r.start r.stop (by rw [hv.lvox]; exact h)
  have l3 := sliceOf_length a.vertex r.start r.stop (by rw [hv.lvert]; exact h)
  unfold vertPiece voxPiece
  by_cases hF : dictHas a.nvertices r.name = true
  · simp only [hF, if_true]
    have e1 := zip3_replicate_surf a.nvertices r.name hF (sliceOf a.vertex r.start r.stop)
      (List.replicate (r.stop - r.start) (-1, -1, -1)) (by simp [l3])
    have e2 := zip3_replicate_surf a.nvertices r.name hF (sliceOf a.vertex r.start r.stop)
      (sliceOf a.voxel r.start r.stop) (by rw [l2, l3])
    rw [l3] at e1 e2
    rw [e1, e2]
  · have hF' : dictHas a.nvertices r.name = false := by simpa using hF
    simp only [hF', Bool.false_eq_true, if_false]
    have e1 := zip3_replicate_vox a.nvertices r.name hF' (sliceOf a.voxel r.start r.stop)
      (List.replicate (r.stop - r.start) (-1)) (by simp [l2])
    have e2 := zip3_replicate_vox a.nvertices r.name hF' (sliceOf a.voxel r.start r.stop)
      (sliceOf a.vertex r.start r.stop) (by rw [l2, l3])
    rw [l2] at e1 e2
    rw [e1, e2]

theorem pieces_elements (a : BM) (hv : a.Valid) : ∀ (rs : List Run) (s : Nat), Tiles s rs a.name.length →
    expandRuns rs = a.name.drop s →
    (zip3 (a.name.drop s) (rs.flatMap (voxPiece a)) (rs.flatMap (vertPiece a))).map (bmElem a.nvertices)
    = (zip3 (a.name.drop s) (a.voxel.drop s) (a.vertex.drop s)).map (bmElem a.nvertices) := by
  intro rs
  induction rs with
  | nil =>
    intro s hT _
    simp only [Tiles] at hT
    subst hT
    simp [zip3]
  | cons r rs ih =>
    intro s hT hE
    have hconst := run_slices_const a.name (r :: rs) s hT hE r (by simp)
    obtain ⟨t1, t2, t3⟩ := hT
    subst t1
    have hb := (Tiles_bounds rs r.stop _ t3).1
    have htail : expandRuns rs = a.name.drop r.stop := by
      rw [expandRuns_cons] at hE
      have h1 := drop_eq_slice_append a.name r.start r.stop (by omega)
      rw [hconst, ← hE] at h1
      exact (List.append_cancel_left h1)
    obtain ⟨pl1, pl2⟩ := piece_lengths a hv r hb
    have l2 := sliceOf_length a.voxel r.start r.stop (by rw [hv.lvox]; exact hb)
    have l3 := sliceOf_length a.vertex r.start r.stop (by rw [hv.lvert]; exact hb)
    rw [drop_eq_slice_append a.name r.start r.stop (by omega), hconst,
      drop_eq_slice_append a.voxel r.start r.stop (by omega),
      drop_eq_slice_append a.vertex r.start r.stop (by omega), List.flatMap_cons, List.flatMap_cons,
      zip3_append _ _ _ _ _ _ (by simp [pl2]) (by simp [pl1]),
      zip3_append _ _ _ _ _ _ (by simp [l2]) (by simp [l3]), List.map_append, List.map_append,
      piece_elements a hv r hb, ih r.stop t3 htail]

theorem vertBad_append (f1 f2 : List Bool) (w1 w2 : List Int) (h : f1.length = w1.length) :
    vertBad (f1 ++ f2) (w1 ++ w2) = (vertBad f1 w1 || vertBad f2 w2) := by
  unfold vertBad; rw [List.zip_append h, List.any_append]

theorem voxBad_append (f1 f2 : List Bool) (w1 w2 : List Vox) (h : f1.length = w1.length) :
    voxBad (f1 ++ f2) (w1 ++ w2) = (voxBad f1 w1 || voxBad f2 w2) := by
  unfold voxBad; rw [List.zip_append h, List.any_append]

theorem vertBad_replicate_false (c : Nat) (w : List Int) : vertBad (List.replicate c false) w = false := by
  unfold vertBad
  rw [List.any_eq_false]
  intro p hp
  have := (List.of_mem_zip (a := p.1) (b := p.2) hp).1
  have : p.1 = false := (List.mem_replicate.mp this).2
  simp [this]

theorem voxBad_replicate_true (c : Nat) (w : List Vox) : voxBad (List.replicate c true) w = false := by
  unfold voxBad
  rw [List.any_eq_false]
  intro p hp
  have := (List.of_mem_zip (a := p.1) (b := p.2) hp).1
  have : p.1 = true := (List.mem_replicate.mp this).2
  simp [this]

theorem surfFlags_replicate (nv : Dict) (c nm : Nat) :
    surfFlags nv (List.replicate c nm) = List.replicate c (dictHas nv nm) := by
  simp [surfFlags]

theorem surfFlags_append (nv : Dict) (a b : List Nat) :
    surfFlags nv (a ++ b) = surfFlags nv a ++ surfFlags nv b := by simp [surfFlags]

theorem slice_checks (a : BM) (hv : a.Valid) (s e : Nat) :
    vertBad (surfFlags a.nvertices (sliceOf a.name s e)) (sliceOf a.vertex s e) = false ∧
    voxBad (surfFlags a.nvertices (sliceOf a.name s e)) (sliceOf a.voxel s e) = false := by
  have hflags : surfFlags a.nvertices (sliceOf a.name s e) = sliceOf (surfFlags a.nvertices a.name) s e := by
    simp only [surfFlags, sliceOf_map]
  constructor
  · rw [hflags]; unfold vertBad; rw [← sliceOf_zip]; exact any_sliceOf_false _ _ _ _ hv.vertOk
  · rw [hflags]; unfold voxBad; rw [← sliceOf_zip]; exact any_sliceOf_false _ _ _ _ hv.voxOk

theorem pieces_checks (a : BM) (hv : a.Valid) : ∀ (rs : List Run) (s : Nat), Tiles s rs a.name.length →
    expandRuns rs = a.name.drop s →
    vertBad (surfFlags a.nvertices (a.name.drop s)) (rs.flatMap (vertPiece a)) = false ∧
    voxBad (surfFlags a.nvertices (a.name.drop s)) (rs.flatMap (voxPiece a)) = false ∧
    (rs.flatMap (vertPiece a)).length = a.name.length - s ∧
    (rs.flatMap (voxPiece a)).length = a.name.length - s := by
  intro rs
  induction rs with
  | nil =>
    intro s hT _
    simp only [Tiles] at hT
    subst hT
    simp [vertBad, voxBad, surfFlags]
  | cons r rs ih =>
    intro s hT hE
    have hconst := run_slices_const a.name (r :: rs) s hT hE r (by simp)
    obtain ⟨t1, t2, t3⟩ := hT
    subst t1
    have hb := (Tiles_bounds rs r.stop _ t3).1
    have htail : expandRuns rs = a.name.drop r.stop := by
      rw [expandRuns_cons] at hE
      have h1 := drop_eq_slice_append a.name r.start r.stop (by omega)
      rw [hconst, ← hE] at h1
      exact (List.append_cancel_left h1)
    obtain ⟨pl1, pl2⟩ := piece_lengths a hv r hb
    obtain ⟨i1, i2, i3, i4⟩ := ih r.stop t3 htail
    obtain ⟨c1, c2⟩ := slice_checks a hv r.start r.stop
    rw [hconst, surfFlags_replicate] at c1 c2
    rw [drop_eq_slice_append a.name r.start r.stop (by omega), hconst, List.flatMap_cons, List.flatMap_cons,
      surfFlags_append, surfFlags_replicate,
      vertBad_append _ _ _ _ (by simp [pl1]), voxBad_append _ _ _ _ (by simp [pl2]), i1, i2]
    refine ⟨?_, ?_, by simp [pl1, i3]; omega, by simp [pl2, i4]; omega⟩
    · unfold vertPiece
      by_cases hF : dictHas a.nvertices r.name = true
      · simp only [hF, if_true, Bool.or_false]; rw [hF] at c1; exact c1
      · have hF' : dictHas a.nvertices r.name = false := by simpa using hF
        simp only [hF', Bool.false_eq_true, if_false, Bool.or_false]
        exact vertBad_replicate_false _ _
    · unfold voxPiece
      by_cases hF : dictHas a.nvertices r.name = true
      · simp only [hF, if_true, Bool.or_false]
        exact voxBad_replicate_true _ _
      · have hF' : dictHas a.nvertices r.name = false := by simpa using hF
        simp only [hF', Bool.false_eq_true, if_false, Bool.or_false]; rw [hF'] at c2; exact c2

theorem dictHas_iff (d : Dict) (x : Nat) : dictHas d x = true ↔ ∃ p ∈ d, p.1 = x := by
  simp [dictHas]

theorem dictGet_of_has (d : Dict) (x : Nat) (h : dictHas d x = true) : ∃ v, dictGet d x = some v := by
  unfold dictGet
  cases hf : d.find? (fun p => p.1 == x) with
  | some p => exact ⟨p.2, rfl⟩
  | none =>
    rw [List.find?_eq_none] at hf
    obtain ⟨p, hp, hpx⟩ := (dictHas_iff d x).mp h
    exact absurd (by simpa using hpx) (hf p hp)

theorem dictGet_of_not_has (d : Dict) (x : Nat) (h : dictHas d x = false) : dictGet d x = none := by
  unfold dictGet
  have : d.find? (fun p => p.1 == x) = none := by
    rw [List.find?_eq_none]
    intro p hp hpx
    have : dictHas d x = true := (dictHas_iff d x).mpr ⟨p, hp, by simpa using hpx⟩
    rw [h] at this; cases this
  rw [this]; rfl

theorem dictGet_set (d : Dict) (k v x : Nat) :
    dictGet (dictSet d k v) x = if k = x then some v else dictGet d x := by
  unfold dictSet
  split
  · rename_i hk
    unfold dictGet
    induction d with
    | nil => simp [dictHas] at hk
    | cons p ps ih =>
      by_cases hp : p.1 = k
      · by_cases hx : k = x
        · simp [hp, hx]
        · have : ¬ p.1 = x := by omega
          simp only [List.map_cons, hp, BEq.rfl, if_true, List.find?_cons]
          have hkx : (k == x) = false := by simp [hx]
          have hpx : (p.1 == x) = false := by simp [this]
          simp only [hkx, hx, if_false]
          by_cases hk' : dictHas ps k = true
          · have := ih hk'; simp only [hx, if_false] at this; exact this
          · have hk'' : dictHas ps k = false := by simpa using hk'
            have hnone : ∀ q ∈ ps, ¬ q.1 = k := by
              intro q hq hqk
              have : dictHas ps k = true := (dictHas_iff ps k).mpr ⟨q, hq, hqk⟩
              rw [hk''] at this; cases this
            have : ps.map (fun p => if (p.1 == k) = true then (k, v) else p) = ps := by
              conv => rhs; rw [← List.map_id ps]
              apply List.map_congr_left
              intro q hq
              have := hnone q hq
              simp [this]
            rw [this]
      · have hk' : dictHas ps k = true := by
          simp only [dictHas, List.any_cons] at hk ⊢
          have : (p.1 == k) = false := by simp [hp]
          simpa [this] using hk
        have hpk : (p.1 == k) = false := by simp [hp]
        simp only [List.map_cons, hpk, Bool.false_eq_true, if_false, List.find?_cons]
        by_cases hpx : p.1 = x
        · have : ¬ k = x := by omega
          simp [hpx, this]
        · have : (p.1 == x) = false := by simp [hpx]
          simp only [this]
          exact ih hk'
  · rename_i hk
    have hk' : dictHas d k = false := by simpa using hk
    unfold dictGet
    rw [List.find?_append]
    by_cases hx : k = x
    · subst hx
      have : d.find? (fun p => p.1 == k) = none := by
        rw [List.find?_eq_none]
        intro p hp hpx
        have : dictHas d k = true := (dictHas_iff d k).mpr ⟨p, hp, by simpa using hpx⟩
        rw [hk'] at this; cases this
      simp [this]
    · have hkx : (k == x) = false := by simp [hx]
      simp [hkx, hx]

def runHit (a : BM) (x : Nat) (rs : List Run) : Bool :=
  rs.any (fun r => r.name == x && dictHas a.nvertices r.name)

theorem nvAfter_has (a : BM) (x : Nat) : ∀ (rs : List Run) (d : Dict),
    dictHas (nvAfter a d rs) x = (dictHas d x || runHit a x rs) := by
  intro rs
  induction rs with
  | nil => intro d; simp [nvAfter, runHit]
  | cons r rs ih =>
    intro d
    simp only [nvAfter, runHit, List.any_cons] at ih ⊢
    rw [ih]
    by_cases hF : dictHas a.nvertices r.name = true
    · simp only [hF, if_true, dictSet_has, Bool.and_true, Bool.or_assoc]
    · have hF' : dictHas a.nvertices r.name = false := by simpa using hF
      simp [hF']

theorem nvAfter_get (a : BM) (x : Nat) : ∀ (rs : List Run) (d : Dict),
    dictGet (nvAfter a d rs) x =
      if runHit a x rs then some ((dictGet a.nvertices x).getD 0) else dictGet d x := by
  intro rs
  induction rs with
  | nil => intro d; simp [nvAfter, runHit]
  | cons r rs ih =>
    intro d
    simp only [nvAfter]
    rw [ih]
    by_cases hrest : runHit a x rs = true
    · have : runHit a x (r :: rs) = true := by simp only [runHit, List.any_cons] at hrest ⊢; simp [hrest]
      simp [hrest, this]
    · have hrest' : runHit a x rs = false := by simpa using hrest
      simp only [hrest', Bool.false_eq_true, if_false]
      by_cases hF : dictHas a.nvertices r.name = true
      · simp only [hF, if_true, dictGet_set]
        by_cases hx : r.name = x
        · subst hx
          have : runHit a r.name (r :: rs) = true := by simp [runHit, hF]
          simp [this]
        · have : runHit a x (r :: rs) = false := by
            simp only [runHit, List.any_cons] at hrest' ⊢
            have : (r.name == x) = false := by simp [hx]
            simp [this, hrest']
          simp [this, hx]
      · have hF' : dictHas a.nvertices r.name = false := by simpa using hF
        have : runHit a x (r :: rs) = false := by
          simp only [runHit, List.any_cons] at hrest' ⊢
          simp [hF', hrest']
        simp [hF', this]

theorem mem_expandRuns (rs : List Run) (x : Nat) (h : x ∈ expandRuns rs) : ∃ r ∈ rs, r.name = x := by
  simp only [expandRuns, List.mem_flatMap, List.mem_replicate] at h
  obtain ⟨r, hr, _, hx⟩ := h
  exact ⟨r, hr, hx.symm⟩

/-- after the whole loop the rebuilt `nvertices` has exactly the keys and values of the original -/
theorem nvFinal_spec (a : BM) (hv : a.Valid) (rs : List Run) (hE : expandRuns rs = a.name) (x : Nat) :
    dictHas (nvAfter a [] rs) x = dictHas a.nvertices x ∧
    dictGet (nvAfter a [] rs) x = dictGet a.nvertices x := by
  have hhit : runHit a x rs = dictHas a.nvertices x := by
    rw [Bool.eq_iff_iff]
    constructor
    · intro h
      simp only [runHit, List.any_eq_true, Bool.and_eq_true, beq_iff_eq] at h
      obtain ⟨r, _, hx, hF⟩ := h
      rw [← hx]; exact hF
    · intro h
      obtain ⟨p, hp, hpx⟩ := (dictHas_iff _ _).mp h
      have hmem : x ∈ a.name := by rw [← hpx]; exact hv.keys p hp
      rw [← hE] at hmem
      obtain ⟨r, hr, hrx⟩ := mem_expandRuns rs x hmem
      simp only [runHit, List.any_eq_true, Bool.and_eq_true, beq_iff_eq]
      exact ⟨r, hr, hrx, by rw [hrx]; exact h⟩
  constructor
  · rw [nvAfter_has, hhit]; simp [dictHas]
  · rw [nvAfter_get, hhit]
    cases h : dictHas a.nvertices x
    · rw [dictGet_of_not_has _ _ h]; simp [dictGet]
    · obtain ⟨v, hv'⟩ := dictGet_of_has _ _ h
      simp [hv']

theorem dictGet_prune (name : List Nat) (d : Dict) (x : Nat) :
    dictGet (pruneNv name d) x = if x ∈ name then dictGet d x else none := by
  unfold dictGet pruneNv
  induction d with
  | nil => simp
  | cons p ps ih =>
    by_cases hp : p.1 = x
    · by_cases hx : x ∈ name
      · have : name.contains p.1 = true := by simp [hp, hx]
        simp [hp, hx]
      · have : name.contains p.1 = false := by simp [hp, hx]
        simp only [List.filter_cons, this, Bool.false_eq_true, if_false, hx]
        simpa [hx] using ih
    · have hpx : (p.1 == x) = false := by simp [hp]
      by_cases hc : name.contains p.1 = true
      · simp only [List.filter_cons, hc, if_true, List.find?_cons, hpx]; exact ih
      · simp only [List.filter_cons, hc, List.find?_cons, hpx]; exact ih

theorem sum_counts (a : BM) : ∀ (rs : List Run) (s e : Nat), Tiles s rs e →
    ((rs.map (mkRec a)).map (·.count)).sum = e - s := by
  intro rs
  induction rs with
  | nil => intro s e h; simp only [Tiles] at h; subst h; simp
  | cons r rs ih =>
    intro s e h
    obtain ⟨t1, t2, t3⟩ := h
    have := ih _ _ t3
    have hb := (Tiles_bounds rs _ _ t3).1
    simp only [List.map_cons, List.sum_cons, this, mkRec]
    omega

theorem runs_ok_of_ne (names : List Nat) (h : names ≠ []) : ∃ rs, runs names = .ok rs := by
  cases names with
  | nil => exact absurd rfl h
  | cons x xs => exact ⟨_, rfl⟩

end Nb.C18
