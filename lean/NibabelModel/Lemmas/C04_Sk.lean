import NibabelModel.Model.C04
/-! Lemmas/C04_Sk — the meaning of the `update_header` skeleton, for any header class -/
namespace Nb.C04
namespace L

theorem evalUpdate_tk {H : Type} (ops : HdrOps H) (ac : Aff Rat → Aff Rat → Bool) (a : Option (Aff Rat)) (h : H) :
    evalUpdate ops ac a tkUpdateHeader h =
      (match a with
       | none => some (.ok (ops.norm h))
       | some x =>
         match ops.best (ops.norm h) with
         | .error e => some (.error e)
         | .ok b => if ac x b then some (.ok (ops.norm h)) else some (.ok (ops.a2h (ops.norm h) x))) := by
  unfold HdrOps.norm
  cases a with
  | none => by_cases hs : ops.shapeDiffers h = true <;> simp [tkUpdateHeader, tkUpdateTail, evalUpdate, hs]
  | some x =>
    by_cases hs : ops.shapeDiffers h = true
    · simp only [tkUpdateHeader, tkUpdateTail, evalUpdate, hs, if_true, Option.isNone_some, Bool.false_eq_true, if_false]
      cases hb : ops.best (ops.setShape h) with
      | error e => rfl
      | ok b => by_cases hc : ac x b = true <;> simp [hc]
    · simp only [tkUpdateHeader, tkUpdateTail, evalUpdate, hs, if_false, Option.isNone_some, Bool.false_eq_true]
      cases hb : ops.best h with
      | error e => rfl
      | ok b => by_cases hc : ac x b = true <;> simp [hc]

end L
end Nb.C04
