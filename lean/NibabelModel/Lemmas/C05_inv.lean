import NibabelModel.Lemmas.C05
/-! Lemmas/C05_inv — `inv_ornt_aff` of the inverse orientation is the inverse affine (48 cases,
    image shape symbolic). -/
namespace Nb.C05
open Nb

theorem inv_ornt_aff_inverse' (t : Ornt) (ht : t ∈ allOrnts3) (n0 n1 n2 : Nat) (nr : List Nat) :
    ∃ M N, invOrntAff t (n0 :: n1 :: n2 :: nr) = some M ∧
      invOrntAff (orntInverse t) (applyOrntShape (n0 :: n1 :: n2 :: nr) t) = some N ∧
      M.comp N = idAff ∧ N.comp M = idAff ∧
      applyOrntShape (applyOrntShape (n0 :: n1 :: n2 :: nr) t) (orntInverse t) = n0 :: n1 :: n2 :: nr := by
  obtain ⟨a0, a1, a2, f0, f1, f2, rfl, hp, hf0, hf1, hf2⟩ := mem_allOrnts3_elim ht
  obtain ⟨h0, h1, h2, h3, h4, h5⟩ := argsort_perms3
  simp only [perms3, List.mem_cons, List.cons.injEq, and_true, List.not_mem_nil, or_false] at hp
  rcases hp with ⟨rfl, rfl, rfl⟩ | ⟨rfl, rfl, rfl⟩ | ⟨rfl, rfl, rfl⟩ | ⟨rfl, rfl, rfl⟩ | ⟨rfl, rfl, rfl⟩ |
    ⟨rfl, rfl, rfl⟩ <;> rcases hf0 with rfl | rfl <;> rcases hf1 with rfl | rfl <;> rcases hf2 with rfl | rfl <;>
  · refine ⟨_, _, rfl, rfl, ?_, ?_, ?_⟩ <;>
    simp [orntInverse, applyOrntShape, h0, h1, h2, h3, h4, h5, Aff.comp, Row.comp, scaleShift, unitRow,
      flipTrans, idAff, List.range, List.range.loop, List.idxOf, List.findIdx, List.findIdx.go] <;> omega
end Nb.C05
