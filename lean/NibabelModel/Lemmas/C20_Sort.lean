import NibabelModel.Model.C20
/-! Lemmas/C20_Sort — the stable insertion sort of Model/C20: permutation, sortedness, commutation
    with maps, uniqueness on key-distinct inputs; order properties of `lexLe`. Core Lean only. -/
namespace Nb.C20

/-! ### lexLe is a total preorder, antisymmetric on lists of equal length -/

theorem lexLe_refl : ∀ a : List Int, lexLe a a = true
  | [] => rfl
  | x :: xs => by
      have := lexLe_refl xs
      simp [lexLe, this]

theorem lexLe_total : ∀ a b : List Int, (lexLe a b || lexLe b a) = true
  | [], _ => by simp [lexLe]
  | _ :: _, [] => by simp [lexLe]
  | x :: xs, y :: ys => by
      have := lexLe_total xs ys
      simp only [lexLe]
      by_cases h1 : x < y
      · simp [h1]
      · by_cases h2 : y < x
        · simp [h2]
        · simpa [h1, h2] using this

theorem lexLe_trans : ∀ a b c : List Int, lexLe a b = true → lexLe b c = true → lexLe a c = true
  | [], _, _ => by simp [lexLe]
  | _ :: _, [], _ => by simp [lexLe]
  | _ :: _, _ :: _, [] => by simp [lexLe]
  | x :: xs, y :: ys, z :: zs => by
      have ih := lexLe_trans xs ys zs
      simp only [lexLe]
      grind

theorem lexLe_antisymm : ∀ a b : List Int, a.length = b.length → lexLe a b = true → lexLe b a = true → a = b
  | [], [], _ => by simp
  | [], _ :: _, h => by simp at h
  | _ :: _, [], h => by simp at h
  | x :: xs, y :: ys, h => by
      have ih := lexLe_antisymm xs ys (by simpa using h)
      simp only [lexLe]
      grind

/-! ### insertion sort -/

variable {α : Type} {β : Type}

theorem insertSorted_perm (le : α → α → Bool) (a : α) : ∀ l, (insertSorted le a l).Perm (a :: l)
  | [] => .refl _
  | b :: l => by
      simp only [insertSorted]
      split
      · exact .refl _
      · exact ((insertSorted_perm le a l).cons b).trans (.swap a b l)

theorem stableSort_perm (le : α → α → Bool) : ∀ l, (stableSort le l).Perm l
  | [] => .refl _
  | a :: l => (insertSorted_perm le a _).trans ((stableSort_perm le l).cons a)

theorem mem_insertSorted {le : α → α → Bool} {a x : α} {l : List α} :
    x ∈ insertSorted le a l ↔ x = a ∨ x ∈ l := by
  rw [(insertSorted_perm le a l).mem_iff]; simp

theorem mem_stableSort {le : α → α → Bool} {x : α} {l : List α} : x ∈ stableSort le l ↔ x ∈ l :=
  (stableSort_perm le l).mem_iff

theorem length_stableSort (le : α → α → Bool) (l : List α) : (stableSort le l).length = l.length :=
  (stableSort_perm le l).length_eq

theorem pairwise_insertSorted {le : α → α → Bool}
    (trans : ∀ a b c, le a b = true → le b c = true → le a c = true)
    (total : ∀ a b, (le a b || le b a) = true) (a : α) :
    ∀ l, l.Pairwise (fun x y => le x y = true) → (insertSorted le a l).Pairwise (fun x y => le x y = true)
  | [], _ => by simp [insertSorted]
  | b :: l, h => by
      simp only [insertSorted]
      rw [List.pairwise_cons] at h
      by_cases hab : le a b = true
      · simp only [hab, if_true]
        refine List.pairwise_cons.2 ⟨?_, List.pairwise_cons.2 h⟩
        intro x hx
        rcases List.mem_cons.1 hx with rfl | hx
        · exact hab
        · exact trans _ _ _ hab (h.1 x hx)
      · simp only [hab]
        have hba : le b a = true := by
          have := total a b
          simp only [Bool.or_eq_true] at this
          rcases this with h | h
          · exact absurd h hab
          · exact h
        refine List.pairwise_cons.2 ⟨?_, pairwise_insertSorted trans total a l h.2⟩
        intro x hx
        rcases mem_insertSorted.1 hx with rfl | hx
        · exact hba
        · exact h.1 x hx

theorem pairwise_stableSort {le : α → α → Bool}
    (trans : ∀ a b c, le a b = true → le b c = true → le a c = true)
    (total : ∀ a b, (le a b || le b a) = true) :
    ∀ l, (stableSort le l).Pairwise (fun x y => le x y = true)
  | [] => List.Pairwise.nil
  | a :: l => pairwise_insertSorted trans total a _ (pairwise_stableSort trans total l)

theorem map_insertSorted {r : α → α → Bool} {s : β → β → Bool} {f : α → β}
    (h : ∀ a b, r a b = s (f a) (f b)) (a : α) :
    ∀ l, (insertSorted r a l).map f = insertSorted s (f a) (l.map f)
  | [] => rfl
  | b :: l => by
      simp only [insertSorted, List.map_cons, h a b]
      split
      · rfl
      · simp [map_insertSorted h a l]

/-- sorting commutes with a map through which the order factors -/
theorem map_stableSort {r : α → α → Bool} {s : β → β → Bool} {f : α → β}
    (h : ∀ a b, r a b = s (f a) (f b)) :
    ∀ l, (stableSort r l).map f = stableSort s (l.map f)
  | [] => rfl
  | a :: l => by
      simp only [stableSort, List.map_cons, map_insertSorted h, map_stableSort h l]

/-- a sorted list is left unchanged -/
theorem insertSorted_of_le {le : α → α → Bool} {a : α} :
    ∀ {l : List α}, (∀ x ∈ l, le a x = true) → insertSorted le a l = a :: l
  | [], _ => rfl
  | b :: l, h => by simp [insertSorted, h b (by simp)]

theorem stableSort_of_pairwise {le : α → α → Bool} :
    ∀ {l : List α}, l.Pairwise (fun x y => le x y = true) → stableSort le l = l
  | [], _ => rfl
  | a :: l, h => by
      rw [List.pairwise_cons] at h
      simp only [stableSort, stableSort_of_pairwise h.2]
      exact insertSorted_of_le h.1

/-- two sorted permutations of each other are equal when the order is antisymmetric on them -/
theorem stableSort_eq_of_perm {le : α → α → Bool}
    (trans : ∀ a b c, le a b = true → le b c = true → le a c = true)
    (total : ∀ a b, (le a b || le b a) = true) {l₁ l₂ : List α} (hp : l₁.Perm l₂)
    (anti : ∀ a b, a ∈ l₁ → b ∈ l₁ → le a b = true → le b a = true → a = b) :
    stableSort le l₁ = stableSort le l₂ := by
  refine List.Perm.eq_of_pairwise (le := fun x y => le x y = true) ?_ (pairwise_stableSort trans total l₁)
    (pairwise_stableSort trans total l₂) ((stableSort_perm le l₁).trans (hp.trans (stableSort_perm le l₂).symm))
  intro a b ha hb hab hba
  exact anti a b (mem_stableSort.1 ha) (hp.mem_iff.2 (mem_stableSort.1 hb)) hab hba

end Nb.C20
