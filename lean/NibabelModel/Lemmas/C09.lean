import NibabelModel.Model.C09
/-! Lemmas/C09 — invariant of load/modify/save histories and its preservation by every op (core Lean only). -/
namespace Nb.C09

theorem FS.set_same (fs : FS) (q : Path) (v : Option File) : (fs.set q v) q = v := by
  simp [FS.set]

theorem FS.set_other (fs : FS) {p q : Path} (v : Option File) (h : p ≠ q) : (fs.set q v) p = fs p := by
  simp [FS.set, h]

theorem FS.set_set (fs : FS) (q : Path) (a b : Option File) : (fs.set q a).set q b = fs.set q b := by
  funext p
  by_cases h : p = q <;> simp [FS.set, h]

/-- no file is left truncated (every 'wb' open was followed by a complete write) -/
def FSwf (fs : FS) : Prop := ∀ p, fs p ≠ some .truncated

/-- the live image is usable: its proxy still resolves — the source file is intact, has the layout the proxy
    was built with, and holds the data the image had when it was loaded; a cache that owns its memory holds
    the same data -/
def ImgOk (fs : FS) (im : Img) : Prop :=
  readLayout fs im.src im.srcDt im.srcScaled = some im.data ∧ (∀ d, im.cache = .owned d → d = im.data)

/-- well-formed state -/
def WF (s : St) : Prop := FSwf s.fs ∧ ∀ im, s.img = some im → ImgOk s.fs im

/-- image content written by a (possibly class converting) save of `im` onto `q` -/
def savedContent (im : Img) (q : Path) : Content :=
  { data := im.data, aff := im.aff, dt := (outHeader im q).1, scaled := outScaled im q, tag := (outHeader im q).2 }

/-- THE GUARD (open finding): a save onto the live image's own source path must keep the on-disk layout
    (dtype and scaling) the proxy was built with -/
def layoutKept (im : Img) (q : Path) : Bool :=
  q != im.src || ((outHeader im q).1 == im.srcDt && outScaled im q == im.srcScaled)

def allowed (s : St) : Op → Bool
  | .save q => match s.img with
      | some im => layoutKept im q
      | none => true
  | _ => true

/-! ### reading through the proxy -/

theorem readLayout_set_other (fs : FS) {p q : Path} (v : Option File) (dt : DT) (sc : Bool) (h : p ≠ q) :
    readLayout (fs.set q v) p dt sc = readLayout fs p dt sc := by
  simp [readLayout, FS.set_other fs v h]

theorem readLayout_set_intact (fs : FS) (q : Path) (c : Content) :
    readLayout (fs.set q (some (.intact c))) q c.dt c.scaled = some c.data := by
  simp [readLayout, FS.set_same]

theorem readLayout_set_truncated (fs : FS) (q : Path) (dt : DT) (sc : Bool) :
    readLayout (fs.set q (some .truncated)) q dt sc = none := by
  simp [readLayout, FS.set_same]

theorem materialise_ok {fs : FS} {im : Img} (h : ImgOk fs im) :
    materialise fs im = some (if im.mapped then .ref im.src im.srcDt im.srcScaled else .copy im.data) := by
  unfold materialise
  rw [h.1]
  by_cases hm : im.mapped = true <;> simp [hm]

theorem deref_materialised {fs : FS} {im : Img} (h : ImgOk fs im) :
    deref fs (if im.mapped then Mat.ref im.src im.srcDt im.srcScaled else Mat.copy im.data) = some im.data := by
  by_cases hm : im.mapped = true
  · simp [hm, deref, h.1]
  · simp [hm, deref]

theorem materialise_deref {fs : FS} {im : Img} (h : ImgOk fs im) :
    (materialise fs im).bind (deref fs) = some im.data := by
  rw [materialise_ok h]
  simp only [Option.bind_some]
  exact deref_materialised h

/-! ### `to_file_map` — current logic -/

theorem writeTo_cur {fs : FS} {im : Img} (h : ImgOk fs im) (q : Path) :
    writeTo false fs im q = (.saved (savedContent im q), fs.set q (some (.intact (savedContent im q)))) := by
  unfold writeTo
  rw [materialise_ok h]
  by_cases hm : im.mapped = true
  · simp [hm, deref, h.1, FS.set_set, savedContent]
  · simp [hm, deref, FS.set_set, savedContent]

/-- original logic: identical to the current one unless the target is the mapped source itself -/
theorem writeTo_orig_off_source {fs : FS} {im : Img} (h : ImgOk fs im) {q : Path} (hq : q ≠ im.src) :
    writeTo true fs im q = writeTo false fs im q := by
  rw [writeTo_cur h]
  unfold writeTo
  rw [materialise_ok h]
  have hne : im.src ≠ q := fun e => hq e.symm
  by_cases hm : im.mapped = true
  · simp [hm, deref, readLayout_set_other fs _ _ _ hne, h.1, FS.set_set, savedContent]
  · simp [hm, deref, FS.set_set, savedContent]

/-- original logic: saving a memory-mapped image onto its own source reads through the truncated file -/
theorem writeTo_orig_self {fs : FS} {im : Img} (h : ImgOk fs im) (hm : im.mapped = true) :
    (writeTo true fs im im.src).1 = .bad := by
  unfold writeTo
  rw [materialise_ok h]
  simp [hm, deref, readLayout_set_truncated]

/-! ### preservation of the invariant -/

theorem FSwf_set_intact {fs : FS} (h : FSwf fs) (q : Path) (c : Content) : FSwf (fs.set q (some (.intact c))) := by
  intro p
  by_cases e : p = q
  · subst e; simp [FS.set_same]
  · rw [FS.set_other fs _ e]; exact h p

theorem ImgOk_after_save {fs : FS} {im : Img} (h : ImgOk fs im) {q : Path} (hk : layoutKept im q = true)
    (im' : Img) (hsrc : im'.src = im.src) (hdt : im'.srcDt = im.srcDt) (hsc : im'.srcScaled = im.srcScaled)
    (hd : im'.data = im.data) (hc : im'.cache = im.cache) :
    ImgOk (fs.set q (some (.intact (savedContent im q)))) im' := by
  refine ⟨?_, ?_⟩
  · rw [hsrc, hdt, hsc, hd]
    by_cases e : im.src = q
    · -- self-save: the guard says the layout written is the layout the proxy expects
      have hk' : ((outHeader im q).1 == im.srcDt && outScaled im q == im.srcScaled) = true := by
        simp only [layoutKept] at hk
        cases hq : (q != im.src)
        · simpa [hq] using hk
        · exfalso; simp at hq; exact hq e.symm
      simp only [Bool.and_eq_true, beq_iff_eq] at hk'
      have := readLayout_set_intact fs q (savedContent im q)
      rw [e]
      simpa [savedContent, hk'.1, hk'.2] using this
    · rw [readLayout_set_other fs _ _ _ e]; exact h.1
  · intro d hd'; rw [hc] at hd'; rw [hd]; exact h.2 d hd'

theorem getFdata_ok {fs : FS} {im : Img} (h : ImgOk fs im) :
    ∃ ca, getFdata fs im = some (im.data, { im with cache := ca }) ∧ ImgOk fs { im with cache := ca } := by
  unfold getFdata
  cases hc : im.cache with
  | owned d =>
      refine ⟨.owned d, ?_, ?_⟩
      · have : d = im.data := h.2 d hc
        subst this
        simp only [Option.some.injEq, Prod.mk.injEq, true_and]
        cases im; simp_all
      · exact ⟨h.1, fun d' hd' => by simp at hd'; subst hd'; exact h.2 _ hc⟩
  | alias =>
      refine ⟨.alias, ?_, ?_⟩
      · simp only [h.1, Option.map_some, Option.some.injEq, Prod.mk.injEq, true_and]
        cases im; simp_all
      · exact ⟨h.1, fun d' hd' => by simp at hd'⟩
  | none =>
      simp only [materialise_ok h, deref_materialised h]
      have own : ImgOk fs { im with cache := .owned im.data } :=
        ⟨h.1, fun d' hd' => by simp at hd'; exact hd'.symm⟩
      have ali : ImgOk fs { im with cache := .alias } := ⟨h.1, fun d' hd' => by simp at hd'⟩
      cases hm : im.mapped <;> cases hf : (im.srcDt == DT.f64)
      · exact ⟨.owned im.data, by simp, own⟩
      · exact ⟨.owned im.data, by simp, own⟩
      · exact ⟨.owned im.data, by simp, own⟩
      · exact ⟨.alias, by simp, ali⟩

theorem load_ok {fs : FS} {p : Path} {mm : Bool} {im : Img} (h : load fs p mm = some im) : ImgOk fs im := by
  unfold load at h
  split at h
  · rename_i c hc
    simp only [Option.some.injEq] at h
    subst h
    exact ⟨by simp [readLayout, hc], fun d hd => by simp at hd⟩
  · simp at h

/-! ### one step of a history -/

/-- "the image object stays usable": the probe (`get_fdata()`, then `np.asanyarray(img.dataobj)`) succeeds and
    yields the data the image was loaded with -/
def Usable (s : St) : Prop := probe s = some (s.img.map fun im => (im.data, im.data))

theorem usable_of_WF {s : St} (h : WF s) : Usable s := by
  unfold Usable probe
  cases hi : s.img with
  | none => rfl
  | some im =>
      have hok := h.2 im hi
      obtain ⟨ca, hg, _⟩ := getFdata_ok hok
      simp [hg, materialise_deref hok]

/-- what one op must have done: it did not crash; a save wrote exactly the image state (data and affine the image
    has at that step, header dtype/tag by the conversion rules) to its target and to nothing else, and left the
    image's own state alone; every other op leaves the file system untouched -/
def StepSpec (s : St) (op : Op) (r : Out × St) : Prop :=
  r.1 ≠ .bad ∧
  (match op, s.img with
   | .save q, some im =>
       r.1 = .saved (savedContent im q) ∧ r.2.fs q = some (.intact (savedContent im q)) ∧
       (∀ p, p ≠ q → r.2.fs p = s.fs p) ∧
       ∃ im', r.2.img = some im' ∧ im'.data = im.data ∧ im'.aff = im.aff ∧ im'.dt = im.dt ∧ im'.tag = im.tag ∧
         im'.src = im.src
   | _, _ => r.2.fs = s.fs)

theorem save_cur {fs : FS} {im : Img} (h : ImgOk fs im) (q : Path) :
    save false fs im q = (.saved (savedContent im q), fs.set q (some (.intact (savedContent im q))),
      if q.cls = im.cls then { im with fname := some q, hdrAff := im.aff } else im) := by
  unfold save
  rw [writeTo_cur h]

theorem step_load_aux (fs : FS) (img : Option Img) (p : Path) (mm : Bool) (hfs : FSwf fs)
    (himg : ∀ im, img = some im → ImgOk fs im) :
    StepSpec ⟨fs, img⟩ (.load p mm) (step false ⟨fs, img⟩ (.load p mm)) ∧
      WF (step false ⟨fs, img⟩ (.load p mm)).2 := by
  simp only [step]
  cases hl : load fs p mm with
  | none => exact ⟨⟨by simp, by cases img <;> rfl⟩, hfs, himg⟩
  | some im =>
      refine ⟨⟨by simp, by cases img <;> rfl⟩, hfs, ?_⟩
      intro im' h'
      simp only [Option.some.injEq] at h'
      subst h'
      exact load_ok hl

theorem step_safe_aux (s : St) (op : Op) (hw : WF s) (ha : allowed s op = true) :
    StepSpec s op (step false s op) ∧ WF (step false s op).2 := by
  obtain ⟨fs, img⟩ := s
  obtain ⟨hfs, himg⟩ := hw
  simp only at hfs himg
  cases img with
  | none =>
      cases op with
      | load p mm => exact step_load_aux fs none p mm hfs himg
      | fdata => exact ⟨⟨by simp [step, withImg], rfl⟩, hfs, himg⟩
      | uncache => exact ⟨⟨by simp [step, withImg], rfl⟩, hfs, himg⟩
      | edit k => exact ⟨⟨by simp [step, withImg], rfl⟩, hfs, himg⟩
      | setAff k => exact ⟨⟨by simp [step, withImg], rfl⟩, hfs, himg⟩
      | hdrEdit k => exact ⟨⟨by simp [step, withImg], rfl⟩, hfs, himg⟩
      | setDt dt => exact ⟨⟨by simp [step, withImg], rfl⟩, hfs, himg⟩
      | save q => exact ⟨⟨by simp [step, withImg], rfl⟩, hfs, himg⟩
      | toBytes => exact ⟨⟨by simp [step, withImg], rfl⟩, hfs, himg⟩
  | some im =>
      have hok : ImgOk fs im := himg im rfl
      have wf1 : ∀ im1 : Img, ImgOk fs im1 → WF ⟨fs, some im1⟩ := fun im1 h1 =>
        ⟨hfs, fun im' h' => by simp only [Option.some.injEq] at h'; subst h'; exact h1⟩
      cases op with
      | load p mm => exact step_load_aux fs (some im) p mm hfs himg
      | fdata =>
          obtain ⟨ca, hg, hok'⟩ := getFdata_ok hok
          simp only [step, withImg, hg]
          exact ⟨⟨by simp, rfl⟩, wf1 _ hok'⟩
      | uncache =>
          simp only [step, withImg]
          exact ⟨⟨by simp, rfl⟩, wf1 _ ⟨hok.1, fun d hd => by simp at hd⟩⟩
      | edit k =>
          simp only [step, withImg]
          exact ⟨⟨by simp, rfl⟩, wf1 _ hok⟩
      | setAff k =>
          simp only [step, withImg]
          by_cases hc : im.cls = .mgh
          · simp only [hc, if_true]; exact ⟨⟨by simp, rfl⟩, wf1 _ hok⟩
          · simp only [hc, if_false]; exact ⟨⟨by simp, rfl⟩, wf1 _ hok⟩
      | hdrEdit k =>
          simp only [step, withImg]
          exact ⟨⟨by simp, rfl⟩, wf1 _ hok⟩
      | setDt dt =>
          simp only [step, withImg]
          by_cases hc : im.cls = .mgh ∧ mghOk dt = false
          · simp only [hc, and_self, if_true]
            exact ⟨⟨by simp, rfl⟩, wf1 _ hok⟩
          · simp only [hc, if_false]
            exact ⟨⟨by simp, rfl⟩, wf1 _ hok⟩
      | toBytes =>
          simp only [step, withImg]
          unfold toBytes
          by_cases hc : im.cls = .pair
          · simp only [hc, if_true]
            exact ⟨⟨by simp, rfl⟩, wf1 _ hok⟩
          · simp only [hc, if_false, materialise_deref hok]
            exact ⟨⟨by simp, rfl⟩, wf1 _ hok⟩
      | save q =>
          have hk : layoutKept im q = true := by simpa [allowed] using ha
          simp only [step, withImg, save_cur hok]
          refine ⟨⟨by simp, rfl, FS.set_same _ _ _, fun p hp => FS.set_other _ _ hp, ?_⟩,
                  FSwf_set_intact hfs q _, ?_⟩
          · by_cases hc : q.cls = im.cls
            · exact ⟨{ im with fname := some q, hdrAff := im.aff }, by simp only [hc, if_true], rfl, rfl, rfl, rfl, rfl⟩
            · exact ⟨im, by simp only [hc, if_false], rfl, rfl, rfl, rfl, rfl⟩
          · intro im' h'
            simp only [Option.some.injEq] at h'
            subst h'
            by_cases hc : q.cls = im.cls
            · simp only [hc, if_true]
              exact ImgOk_after_save hok hk _ rfl rfl rfl rfl rfl
            · simp only [hc, if_false]
              exact ImgOk_after_save hok hk _ rfl rfl rfl rfl rfl

/-! ### whole histories -/

/-- every op of the history is allowed in the state it is applied to (decidable, executable) -/
def allowedRun : St → List Op → Bool
  | _, [] => true
  | s, op :: rest => allowed s op && allowedRun (step false s op).2 rest

/-- the property along a history: every step meets its spec, the image is usable after every step (and at the
    end) -/
def Safe : St → List Op → Prop
  | s, [] => Usable s
  | s, op :: rest => StepSpec s op (step false s op) ∧ Usable (step false s op).2 ∧ Safe (step false s op).2 rest

theorem safe_of_WF : ∀ (ops : List Op) (s : St), WF s → allowedRun s ops = true → Safe s ops
  | [], s, hw, _ => usable_of_WF hw
  | op :: rest, s, hw, ha => by
      simp only [allowedRun, Bool.and_eq_true] at ha
      obtain ⟨hspec, hw'⟩ := step_safe_aux s op hw ha.1
      exact ⟨hspec, usable_of_WF hw', safe_of_WF rest _ hw' ha.2⟩

theorem run_ok : ∀ (ops : List Op) (s : St), WF s → allowedRun s ops = true →
    (∀ o ∈ (run false s ops).1, o ≠ .bad) ∧ (run false s ops).1.length = ops.length ∧
      ∃ f, (run false s ops).2 = some f ∧ WF f
  | [], s, hw, _ => ⟨by simp [run], by simp [run], s, rfl, hw⟩
  | op :: rest, s, hw, ha => by
      simp only [allowedRun, Bool.and_eq_true] at ha
      obtain ⟨hspec, hw'⟩ := step_safe_aux s op hw ha.1
      obtain ⟨h1, h2, f, h3, h4⟩ := run_ok rest _ hw' ha.2
      have hne : (step false s op).1 ≠ .bad := hspec.1
      have hrun : run false s (op :: rest) =
          ((step false s op).1 :: (run false (step false s op).2 rest).1, (run false (step false s op).2 rest).2) := by
        rw [run]
        generalize step false s op = r at hne
        obtain ⟨o, s'⟩ := r
        cases o <;> first | rfl | exact absurd rfl hne
      rw [hrun]
      refine ⟨?_, by simp [h2], f, h3, h4⟩
      intro o ho
      simp only [List.mem_cons] at ho
      rcases ho with rfl | ho
      · exact hne
      · exact h1 o ho

end Nb.C09
