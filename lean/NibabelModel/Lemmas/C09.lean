import NibabelModel.Model.C09
/-! Lemmas/C09 — invariant of load/modify/save histories and its preservation by every op (core Lean only). -/
namespace Nb.C09

theorem FS.set_same (fs : FS) (q : Path) (v : Option File) : (fs.set q v) q = v := by
  simp [FS.set]

theorem FS.set_other (fs : FS) {p q : Path} (v : Option File) (h : p ≠ q) : (fs.set q v) p = fs p := by
  simp [FS.set, h]

theorem FS.set_set (fs : FS) (q : Path) (a b : Option File) : (fs.set q a).set q b = fs.set q b := by
  funext p
  by_cases h : p = q <;> simp [FS.set, h]

/-- no file is left truncated (every 'wb' open was followed by a complete write) -/
def FSwf (fs : FS) : Prop := ∀ p, fs p ≠ some .truncated

/-- the data object still reads a file (proxy, or a view of the source memmap) -/
def Arr.backed : Arr → Bool
  | .owned _ _ => false
  | _ => true

def Img.backed (im : Img) : Bool := im.arr.backed

/-- the live image is usable: its data object still resolves — for a proxy / a view of the source memmap the source
    file is intact, has the layout the proxy was built with, and holds the data the image had when it was loaded; an
    array that owns its memory holds those data; a cache that owns its memory holds the same data; a cache that
    aliases the memmap exists only for a file-backed image -/
def ImgOk (fs : FS) (im : Img) : Prop :=
  (im.backed = true → readLayout fs im.src im.srcDt im.srcBe im.srcScaled = some im.data) ∧
  (∀ d fl, im.arr = .owned d fl → d = im.data) ∧
  (∀ d w, im.cache = .owned d w → d = im.data) ∧
  (∀ w, im.cache = .alias w → im.backed = true)

/-- well-formed state -/
def WF (s : St) : Prop := FSwf s.fs ∧ ∀ im, s.img = some im → ImgOk s.fs im

/-- image content written by a (possibly class converting) save of `im` onto `q` -/
def savedContent (im : Img) (q : Path) : Content :=
  { cls := outCls im.cls q.ext, data := im.data, aff := im.aff, dt := (outHeader im q).1, be := (outHeader im q).2.2.1,
    scaled := outScaled im q, tag := (outHeader im q).2.1, xf := outXF im q }

/-- THE GUARD (open finding): a save onto the live image's own source path must keep the on-disk layout
    (dtype and scaling) the proxy was built with -/
def layoutKept (im : Img) (q : Path) : Bool :=
  !im.backed || q != im.src || ((outHeader im q).1 == im.srcDt && (outHeader im q).2.2.1 == im.srcBe && outScaled im q == im.srcScaled)

def allowed (s : St) : Op → Bool
  | .save q => match s.img with
      | some im => layoutKept im q
      | none => true
  | _ => true

/-! ### reading through the proxy -/

theorem readLayout_set_other (fs : FS) {p q : Path} (v : Option File) (dt : DT) (be sc : Bool) (h : p ≠ q) :
    readLayout (fs.set q v) p dt be sc = readLayout fs p dt be sc := by
  simp [readLayout, FS.set_other fs v h]

theorem readLayout_set_intact (fs : FS) (q : Path) (c : Content) :
    readLayout (fs.set q (some (.intact c))) q c.dt c.be c.scaled = some c.data := by
  simp [readLayout, FS.set_same]

theorem readLayout_set_truncated (fs : FS) (q : Path) (dt : DT) (be sc : Bool) :
    readLayout (fs.set q (some .truncated)) q dt be sc = none := by
  simp [readLayout, FS.set_same]

/-- what `np.asanyarray(img.dataobj)` is for a usable image -/
def Img.matOf (im : Img) : Mat :=
  match im.arr with
  | .owned d _ => .copy d
  | .view vk => .ref im.src im.srcDt im.srcBe im.srcScaled vk
  | .proxy => if im.mapped then .ref im.src im.srcDt im.srcBe im.srcScaled .inst else .copy im.data

/-- the array handed out reads the source file: a memmap or a view of one -/
def Img.fileMapped (im : Img) : Bool :=
  match im.arr with
  | .owned _ _ => false
  | .view _ => true
  | .proxy => im.mapped

theorem materialise_ok {fs : FS} {im : Img} (h : ImgOk fs im) : materialise fs im = some im.matOf := by
  unfold materialise Img.matOf
  cases ha : im.arr with
  | owned d fl => rfl
  | view v => rfl
  | proxy =>
      have hb : im.backed = true := by simp [Img.backed, Arr.backed, ha]
      simp only [h.1 hb]
      by_cases hm : im.mapped = true <;> simp [hm]

theorem deref_materialised {fs : FS} {im : Img} (h : ImgOk fs im) : deref fs im.matOf = some im.data := by
  unfold Img.matOf
  cases ha : im.arr with
  | owned d fl => simp [deref, h.2.1 d fl ha]
  | view v =>
      have hb : im.backed = true := by simp [Img.backed, Arr.backed, ha]
      simp [deref, h.1 hb]
  | proxy =>
      have hb : im.backed = true := by simp [Img.backed, Arr.backed, ha]
      by_cases hm : im.mapped = true
      · simp [hm, deref, h.1 hb]
      · simp [hm, deref]

theorem materialise_deref {fs : FS} {im : Img} (h : ImgOk fs im) :
    (materialise fs im).bind (deref fs) = some im.data := by
  rw [materialise_ok h]
  simp only [Option.bind_some]
  exact deref_materialised h

/-- the shape of `matOf`: a copy of the image data, or a reference to the source with the proxy's layout -/
theorem matOf_cases (im : Img) (fs : FS) (h : ImgOk fs im) :
    (im.matOf = .copy im.data ∧ im.fileMapped = false) ∨
    (∃ vk, im.matOf = .ref im.src im.srcDt im.srcBe im.srcScaled vk ∧ im.fileMapped = true ∧ im.backed = true ∧
      (im.arr = .proxy → vk = .inst) ∧ (∀ i, im.arr = .view i → vk = i)) := by
  unfold Img.matOf Img.fileMapped Img.backed Arr.backed
  cases ha : im.arr with
  | owned d fl => left; simp [h.2.1 d fl ha]
  | view v => right; exact ⟨v, rfl, rfl, rfl, fun h => by simp at h, fun i hi => by simp at hi; exact hi⟩
  | proxy =>
      by_cases hm : im.mapped = true
      · right; exact ⟨.inst, by simp [hm], hm, rfl, fun _ => rfl, fun i hi => by simp at hi⟩
      · left; simp [hm]

/-! ### `update_header` -/

theorem affine2header_best {c : Cls} (hc : c ≠ .spm2) (a : Nat) (x : XF) : (affine2header c a x).best = a := by
  cases c <;> first | exact absurd rfl hc | simp [affine2header, XF.best]

/-- the decision rule of `update_header`, for ANY reflexive closeness predicate (`np.allclose`): afterwards the
    header's best affine is close to the image affine -/
theorem reconcile_best_close (close : Nat → Nat → Bool) (hrefl : ∀ a, close a a = true) {c : Cls} (hc : c ≠ .spm2)
    (a : Nat) (x : XF) : close a (reconcile close c a x).best = true := by
  unfold reconcile
  rw [if_neg hc]
  by_cases h : close a x.best = true
  · rw [if_pos h]; exact h
  · rw [if_neg h, affine2header_best hc]; exact hrefl a

theorem closeId_iff (a b : Nat) : closeId a b = true ↔ a = b := by simp [closeId]

/-- the affine a fresh load of the written file decodes IS the image affine (ids: `allclose` = identity) -/
theorem outAff_eq (im : Img) (q : Path) : outAff im q = im.aff := by
  unfold outAff
  by_cases hc : outCls im.cls q.ext = .spm2
  · rw [if_pos hc]
  · rw [if_neg hc]
    have := reconcile_best_close closeId (fun a => by simp [closeId]) hc im.aff (outHeader im q).2.2.2
    exact ((closeId_iff _ _).1 this).symm

/-! ### `to_file_map` under the three guards -/

theorem writeTo_cur {fs : FS} {im : Img} (h : ImgOk fs im) (q : Path) :
    writeTo .owners fs im q = (.saved (savedContent im q), fs.set q (some (.intact (savedContent im q)))) := by
  unfold writeTo
  rw [materialise_ok h]
  have hd := deref_materialised h
  rcases matOf_cases im fs h with ⟨hm, _⟩ | ⟨vk0, hm, _, _, _⟩
  · simp [hm, deref, FS.set_set, savedContent, outAff_eq]
  · rw [hm] at hd
    simp only [deref] at hd
    simp [hm, Guard.copies, deref, hd, FS.set_set, savedContent, outAff_eq]

/-- any guard: identical to the current logic unless the array is file-backed, NOT copied by the guard, and the
    target is the mapped source itself -/
theorem writeTo_guard_eq {fs : FS} {im : Img} (h : ImgOk fs im) (g : Guard) {q : Path}
    (hg : im.fileMapped = false ∨ q ≠ im.src ∨
      ∃ vk, im.matOf = .ref im.src im.srcDt im.srcBe im.srcScaled vk ∧ g.copies vk = true) :
    writeTo g fs im q = writeTo .owners fs im q := by
  rw [writeTo_cur h]
  unfold writeTo
  rw [materialise_ok h]
  have hd := deref_materialised h
  rcases matOf_cases im fs h with ⟨hm, hf⟩ | ⟨vk0, hm, hf, _, _⟩
  · simp [hm, deref, FS.set_set, savedContent, outAff_eq]
  · rw [hm] at hd
    simp only [deref] at hd
    cases hc : g.copies vk0
    · -- not copied: the array is read after the target was truncated — fine iff the target is another file
      have hq : q ≠ im.src := by
        rcases hg with hg | hg | ⟨i, hi, hgi⟩
        · rw [hf] at hg; exact absurd hg (by simp)
        · exact hg
        · rw [hm] at hi
          simp only [Mat.ref.injEq, true_and] at hi
          rw [← hi, hc] at hgi
          exact absurd hgi (by simp)
      have hne : im.src ≠ q := fun e => hq e.symm
      simp [hm, hc, deref, readLayout_set_other fs _ _ _ _ hne, hd, FS.set_set, savedContent, outAff_eq]
    · simp [hm, hc, deref, hd, FS.set_set, savedContent, outAff_eq]

/-- a file-backed array that the guard does not copy, saved onto the file it maps, is read through the truncated
    file -/
theorem writeTo_guard_self {fs : FS} {im : Img} (h : ImgOk fs im) (g : Guard) (vk : VKind)
    (hm : im.matOf = .ref im.src im.srcDt im.srcBe im.srcScaled vk) (hg : g.copies vk = false) :
    (writeTo g fs im im.src).1 = .bad := by
  unfold writeTo
  rw [materialise_ok h]
  simp [hm, hg, deref, readLayout_set_truncated]

/-- original logic: identical to the current one unless the target is the mapped source itself -/
theorem writeTo_orig_off_source {fs : FS} {im : Img} (h : ImgOk fs im) {q : Path} (hq : q ≠ im.src) :
    writeTo .none fs im q = writeTo .owners fs im q :=
  writeTo_guard_eq h .none (Or.inr (Or.inl hq))

/-- original logic: saving a memory-mapped image onto its own source reads through the truncated file -/
theorem writeTo_orig_self {fs : FS} {im : Img} (h : ImgOk fs im) (hm : im.fileMapped = true) :
    (writeTo .none fs im im.src).1 = .bad := by
  rcases matOf_cases im fs h with ⟨_, hf⟩ | ⟨vk0, hmat, _, _, _⟩
  · rw [hm] at hf; exact absurd hf (by simp)
  · exact writeTo_guard_self h .none vk0 hmat rfl

/-! ### preservation of the invariant -/

theorem FSwf_set_intact {fs : FS} (h : FSwf fs) (q : Path) (c : Content) : FSwf (fs.set q (some (.intact c))) := by
  intro p
  by_cases e : p = q
  · subst e; simp [FS.set_same]
  · rw [FS.set_other fs _ e]; exact h p

theorem ImgOk_after_save {fs : FS} {im : Img} (h : ImgOk fs im) {q : Path} (hk : layoutKept im q = true)
    (im' : Img) (harr : im'.arr = im.arr) (hsrc : im'.src = im.src) (hdt : im'.srcDt = im.srcDt)
    (hbe : im'.srcBe = im.srcBe) (hsc : im'.srcScaled = im.srcScaled) (hd : im'.data = im.data)
    (hc : im'.cache = im.cache) :
    ImgOk (fs.set q (some (.intact (savedContent im q)))) im' := by
  have hback : im'.backed = im.backed := by simp [Img.backed, harr]
  refine ⟨?_, ?_, ?_, ?_⟩
  · intro hb
    rw [hback] at hb
    rw [hsrc, hdt, hbe, hsc, hd]
    by_cases e : im.src = q
    · -- self-save: the guard says the layout written is the layout the proxy expects
      have hk' : ((outHeader im q).1 == im.srcDt && (outHeader im q).2.2.1 == im.srcBe &&
          outScaled im q == im.srcScaled) = true := by
        simp only [layoutKept, hb, Bool.not_true, Bool.false_or] at hk
        cases hq : (q != im.src)
        · simpa [hq] using hk
        · exfalso; simp at hq; exact hq e.symm
      simp only [Bool.and_eq_true, beq_iff_eq] at hk'
      have := readLayout_set_intact fs q (savedContent im q)
      rw [e]
      simpa [savedContent, hk'.1.1, hk'.1.2, hk'.2] using this
    · rw [readLayout_set_other fs _ _ _ _ e]; exact h.1 hb
  · intro d fl hd'; rw [harr] at hd'; rw [hd]; exact h.2.1 d fl hd'
  · intro d w hd'; rw [hc] at hd'; rw [hd]; exact h.2.2.1 d w hd'
  · intro w hw; rw [hc] at hw; rw [hback]; exact h.2.2.2 w hw

/-- changing only the cache of a usable image to one that is consistent keeps it usable -/
theorem ImgOk_cache {fs : FS} {im : Img} (h : ImgOk fs im) (ca : Cache) (h1 : ∀ d w, ca = .owned d w → d = im.data)
    (h2 : ∀ w, ca = .alias w → im.backed = true) : ImgOk fs { im with cache := ca } :=
  ⟨h.1, h.2.1, h1, h2⟩

/-- a fresh conversion through the data object (`np.asanyarray(dataobj, dtype)`) -/
theorem getFdata_fresh {fs : FS} {im : Img} (h : ImgOk fs im) (w : Bool) :
    ∃ ca, (match materialise fs im with
      | none => none
      | some m =>
        match deref fs m with
        | none => none
        | some d =>
          let aliasing := (match m with | .ref _ _ _ _ _ => true | .copy _ => false) && !im.srcBe &&
                            im.srcDt == (if w then DT.f32 else DT.f64)
          some (d, { im with cache := if aliasing then .alias w else .owned d w })) =
        some (im.data, { im with cache := ca }) ∧ ImgOk fs { im with cache := ca } ∧
        (∀ w', ca = .alias w' → w' = w ∧ im.fileMapped = true) := by
  simp only [materialise_ok h, deref_materialised h]
  have own : ImgOk fs { im with cache := .owned im.data w } :=
    ImgOk_cache h _ (fun d' w' hd' => by simp at hd'; exact hd'.1.symm) (fun w' hw' => by simp at hw')
  rcases matOf_cases im fs h with ⟨hm, _⟩ | ⟨vk0, hm, hf, hb, _⟩
  · exact ⟨.owned im.data w, by simp [hm], own, fun w' hw' => by simp at hw'⟩
  · have ali : ImgOk fs { im with cache := .alias w } :=
      ImgOk_cache h _ (fun d' w' hd' => by simp at hd') (fun _ _ => hb)
    generalize hbb : (!im.srcBe && im.srcDt == (if w then DT.f32 else DT.f64)) = b
    cases b
    · exact ⟨.owned im.data w, by simp [hm, hbb], own, fun w' hw' => by simp at hw'⟩
    · exact ⟨.alias w, by simp [hm, hbb], ali, fun w' hw' => by simp at hw'; exact ⟨hw'.symm, hf⟩⟩

theorem getFdata_ok {fs : FS} {im : Img} (h : ImgOk fs im) (w : Bool) :
    ∃ ca, getFdata fs im w = some (im.data, { im with cache := ca }) ∧ ImgOk fs { im with cache := ca } := by
  unfold getFdata
  cases hc : im.cache with
  | owned d w' =>
      by_cases hw : w' = w
      · refine ⟨.owned d w', ?_, ?_⟩
        · have : d = im.data := h.2.2.1 d w' hc
          subst this
          simp only [hw, if_true, Option.some.injEq, Prod.mk.injEq, true_and]
          cases im; simp_all
        · exact ImgOk_cache h _ (fun d' w'' hd' => by simp at hd'; obtain ⟨h1, _⟩ := hd'; subst h1; exact h.2.2.1 _ _ hc)
            (fun w'' hw'' => by simp at hw'')
      · simp only [hw, if_false]
        obtain ⟨ca, h1, h2, _⟩ := getFdata_fresh h w
        exact ⟨ca, h1, h2⟩
  | alias w' =>
      have hb : im.backed = true := h.2.2.2 w' hc
      by_cases hw : w' = w
      · refine ⟨.alias w', ?_, ?_⟩
        · simp only [hw, if_true, h.1 hb, Option.map_some, Option.some.injEq, Prod.mk.injEq, true_and]
          cases im; simp_all
        · exact ImgOk_cache h _ (fun d' w'' hd' => by simp at hd') (fun _ _ => hb)
      · simp only [hw, if_false]
        obtain ⟨ca, h1, h2, _⟩ := getFdata_fresh h w
        exact ⟨ca, h1, h2⟩
  | none =>
      obtain ⟨ca, h1, h2, _⟩ := getFdata_fresh h w
      exact ⟨ca, h1, h2⟩

theorem load_ok {fs : FS} {p : Path} {mm : Bool} {im : Img} (h : load fs p mm = some im) : ImgOk fs im := by
  unfold load at h
  split at h
  · rename_i c hc
    simp only [Option.some.injEq] at h
    subst h
    exact ⟨fun _ => by simp [readLayout, hc], fun d fl hd => by simp at hd, fun d w hd => by simp at hd,
      fun w hw => by simp at hw⟩
  · simp at h

/-! ### the re-wrap op -/

theorem rewrapped_ok {fs : FS} {im : Img} (h : ImgOk fs im) (a : Arr)
    (h1 : ∀ d fl, a = .owned d fl → d = im.data) (h2 : a.backed = true → im.backed = true) :
    ImgOk fs (rewrapped im a) := by
  refine ⟨?_, h1, fun d w hd => ?_, fun w hw => ?_⟩
  · intro hb
    exact h.1 (h2 hb)
  · exact absurd hd (by simp [rewrapped])
  · exact absurd hw (by simp [rewrapped])

/-- re-wrapping a usable image never fails and yields a usable image with the same data, affine, header dtype,
    tag, class and source -/
theorem wrapArr_ok {fs : FS} {im : Img} (h : ImgOk fs im) (k : Wrap) :
    ∃ a, wrapArr fs im k = some (rewrapped im a) ∧ ImgOk fs (rewrapped im a) := by
  have own : ImgOk fs (rewrapped im (.owned im.data im.arrFloat)) :=
    rewrapped_ok h _ (fun d fl e => by simp at e; exact e.1.symm) (fun e => by simp [Arr.backed] at e)
  have generic : ∀ k' : Wrap, k' ≠ .proxy → k' ≠ .fdata →
      ∃ a, (if k' = .rawMap ∧ im.arr = .proxy ∧ im.src.compressed = false ∧ im.srcScaled = false then
          some (rewrapped im (.view .hidden))
        else
        match materialise fs im with
        | none => none
        | some (.copy d) => some (rewrapped im (.owned d im.arrFloat))
        | some (.ref p dt be sc vk) =>
            if k' = .copy then (readLayout fs p dt be sc).map (fun d => rewrapped im (.owned d im.arrFloat))
            else if k' = .mapInst then some (rewrapped im (.view vk))
            else if k' = .plainView then some (rewrapped im (.view (if vk = .hidden then .hidden else .plain)))
            else some (rewrapped im (.view .hidden))) = some (rewrapped im a) ∧
        ImgOk fs (rewrapped im a) := by
    intro k' _ _
    by_cases hraw : k' = .rawMap ∧ im.arr = .proxy ∧ im.src.compressed = false ∧ im.srcScaled = false
    · rw [if_pos hraw]
      have hb : im.backed = true := by simp [Img.backed, Arr.backed, hraw.2.1]
      exact ⟨.view .hidden, rfl, rewrapped_ok h _ (fun d fl e => by simp at e) (fun _ => hb)⟩
    · rw [if_neg hraw, materialise_ok h]
      have hd := deref_materialised h
      rcases matOf_cases im fs h with ⟨hm, _⟩ | ⟨vk0, hm, hf, hb, _⟩
      · exact ⟨.owned im.data im.arrFloat, by simp [hm], own⟩
      · rw [hm] at hd
        simp only [deref] at hd
        have vw : ∀ v, ImgOk fs (rewrapped im (.view v)) := fun v =>
          rewrapped_ok h _ (fun d fl e => by simp at e) (fun _ => hb)
        by_cases hk : k' = .copy
        · exact ⟨.owned im.data im.arrFloat, by simp [hm, hk, hd], own⟩
        · by_cases hk2 : k' = .mapInst
          · exact ⟨.view vk0, by simp [hm, hk2], vw _⟩
          · by_cases hk3 : k' = .plainView
            · exact ⟨.view (if vk0 = .hidden then .hidden else .plain), by simp [hm, hk3], vw _⟩
            · exact ⟨.view .hidden, by simp [hm, hk, hk2, hk3], vw _⟩
  cases k with
  | proxy =>
      exact ⟨im.arr, rfl, rewrapped_ok h _ (fun d fl e => h.2.1 d fl e) (fun e => e)⟩
  | fdata =>
      unfold wrapArr
      obtain ⟨ca, hg, hok'⟩ := getFdata_ok h false
      rw [hg]
      simp only
      have ownf : ImgOk fs (rewrapped im (.owned im.data true)) :=
        rewrapped_ok h _ (fun d fl e => by simp at e; exact e.1.symm) (fun e => by simp [Arr.backed] at e)
      cases hca : ca with
      | alias w =>
          cases w
          · exact ⟨_, rfl, rewrapped_ok h _ (fun d fl e => by simp at e)
              (fun _ => by have := hok'.2.2.2 false (by simp [hca]); simpa [Img.backed] using this)⟩
          · exact ⟨.owned im.data true, rfl, ownf⟩
      | owned d w => exact ⟨.owned im.data true, rfl, ownf⟩
      | none => exact ⟨.owned im.data true, rfl, ownf⟩
  | plainView => exact generic .plainView (by simp) (by simp)
  | mapInst => exact generic .mapInst (by simp) (by simp)
  | copy => exact generic .copy (by simp) (by simp)
  | hiddenView => exact generic .hiddenView (by simp) (by simp)
  | rawMap => exact generic .rawMap (by simp) (by simp)

theorem wrapImg_of_wrapArr {fs : FS} {im im' : Img} {k : Wrap} (h1 : wrapArr fs im k = some im') (h2 : ImgOk fs im') :
    wrapImg fs im k = some im' := by
  unfold wrapImg
  rw [h1]
  simp only [materialise_deref h2]

theorem wrapImg_ok {fs : FS} {im : Img} (h : ImgOk fs im) (k : Wrap) :
    ∃ a, wrapImg fs im k = some (rewrapped im a) ∧ ImgOk fs (rewrapped im a) := by
  obtain ⟨a, h1, h2⟩ := wrapArr_ok h k
  exact ⟨a, wrapImg_of_wrapArr h1 h2, h2⟩

/-! ### one step of a history -/

/-- "the image object stays usable": the probe (`get_fdata()`, then `np.asanyarray(img.dataobj)`) succeeds and
    yields the data the image was loaded with -/
def Usable (s : St) : Prop := probe s = some (s.img.map fun im => (im.data, im.data))

theorem usable_of_WF {s : St} (h : WF s) : Usable s := by
  unfold Usable probe
  cases hi : s.img with
  | none => rfl
  | some im =>
      have hok := h.2 im hi
      obtain ⟨ca, hg, _⟩ := getFdata_ok hok false
      simp [hg, materialise_deref hok]

/-- what one op must have done: it did not crash; a save wrote exactly the image state (data and affine the image
    has at that step, header dtype/tag by the conversion rules) to its target and to nothing else, and left the
    image's own state alone; every other op leaves the file system untouched -/
def StepSpec (s : St) (op : Op) (r : Out × St) : Prop :=
  r.1 ≠ .bad ∧
  (match op, s.img with
   | .save q, some im =>
       r.1 = .saved (savedContent im q) ∧ r.2.fs q = some (.intact (savedContent im q)) ∧
       (∀ p, p ≠ q → r.2.fs p = s.fs p) ∧
       ∃ im', r.2.img = some im' ∧ im'.data = im.data ∧ im'.aff = im.aff ∧ im'.dt = im.dt ∧ im'.tag = im.tag ∧
         im'.src = im.src
   | _, _ => r.2.fs = s.fs)

theorem save_cur {fs : FS} {im : Img} (h : ImgOk fs im) (q : Path) :
    save .owners fs im q = (.saved (savedContent im q), fs.set q (some (.intact (savedContent im q))),
      if outCls im.cls q.ext = im.cls then { im with fname := some q, xf := outXF im q } else im) := by
  unfold save
  rw [writeTo_cur h]

theorem step_load_aux (fs : FS) (img : Option Img) (p : Path) (mm : Bool) (hfs : FSwf fs)
    (himg : ∀ im, img = some im → ImgOk fs im) :
    StepSpec ⟨fs, img⟩ (.load p mm) (step .owners ⟨fs, img⟩ (.load p mm)) ∧
      WF (step .owners ⟨fs, img⟩ (.load p mm)).2 := by
  simp only [step]
  cases hl : load fs p mm with
  | none => exact ⟨⟨by simp, by cases img <;> rfl⟩, hfs, himg⟩
  | some im =>
      refine ⟨⟨by simp, by cases img <;> rfl⟩, hfs, ?_⟩
      intro im' h'
      simp only [Option.some.injEq] at h'
      subst h'
      exact load_ok hl

theorem step_safe_aux (s : St) (op : Op) (hw : WF s) (ha : allowed s op = true) :
    StepSpec s op (step .owners s op) ∧ WF (step .owners s op).2 := by
  obtain ⟨fs, img⟩ := s
  obtain ⟨hfs, himg⟩ := hw
  simp only at hfs himg
  cases img with
  | none =>
      cases op with
      | load p mm => exact step_load_aux fs none p mm hfs himg
      | fdata w => exact ⟨⟨by simp [step, withImg], rfl⟩, hfs, himg⟩
      | uncache => exact ⟨⟨by simp [step, withImg], rfl⟩, hfs, himg⟩
      | edit k => exact ⟨⟨by simp [step, withImg], rfl⟩, hfs, himg⟩
      | setAff k => exact ⟨⟨by simp [step, withImg], rfl⟩, hfs, himg⟩
      | hdrEdit k => exact ⟨⟨by simp [step, withImg], rfl⟩, hfs, himg⟩
      | setDt dt => exact ⟨⟨by simp [step, withImg], rfl⟩, hfs, himg⟩
      | save q => exact ⟨⟨by simp [step, withImg], rfl⟩, hfs, himg⟩
      | toBytes => exact ⟨⟨by simp [step, withImg], rfl⟩, hfs, himg⟩
      | wrap k => exact ⟨⟨by simp [step, withImg], rfl⟩, hfs, himg⟩
  | some im =>
      have hok : ImgOk fs im := himg im rfl
      have wf1 : ∀ im1 : Img, ImgOk fs im1 → WF ⟨fs, some im1⟩ := fun im1 h1 =>
        ⟨hfs, fun im' h' => by simp only [Option.some.injEq] at h'; subst h'; exact h1⟩
      cases op with
      | load p mm => exact step_load_aux fs (some im) p mm hfs himg
      | fdata w =>
          obtain ⟨ca, hg, hok'⟩ := getFdata_ok hok w
          simp only [step, withImg, hg]
          exact ⟨⟨by simp, rfl⟩, wf1 _ hok'⟩
      | uncache =>
          simp only [step, withImg]
          exact ⟨⟨by simp, rfl⟩, wf1 _ (ImgOk_cache hok _ (fun d w hd => by simp at hd) (fun w hw => by simp at hw))⟩
      | edit k =>
          simp only [step, withImg]
          exact ⟨⟨by simp, rfl⟩, wf1 _ hok⟩
      | setAff k =>
          simp only [step, withImg]
          cases hc : im.cls.isNifti
          · exact ⟨⟨by simp, rfl⟩, wf1 _ hok⟩
          · exact ⟨⟨by simp, rfl⟩, wf1 _ hok⟩
      | hdrEdit k =>
          simp only [step, withImg]
          exact ⟨⟨by simp, rfl⟩, wf1 _ hok⟩
      | setDt dt =>
          simp only [step, withImg]
          by_cases hc : im.cls = .mgh ∧ mghOk dt = false
          · simp only [hc, and_self, if_true]
            exact ⟨⟨by simp, rfl⟩, wf1 _ hok⟩
          · simp only [hc, if_false]
            exact ⟨⟨by simp, rfl⟩, wf1 _ hok⟩
      | toBytes =>
          simp only [step, withImg]
          unfold toBytes
          cases hc : im.cls.hasToBytes
          · simp only [if_true]
            exact ⟨⟨by simp, rfl⟩, wf1 _ hok⟩
          · simp only [Bool.true_eq_false, if_false, materialise_deref hok]
            exact ⟨⟨by simp, rfl⟩, wf1 _ hok⟩
      | wrap k =>
          obtain ⟨a, hwr, hok'⟩ := wrapImg_ok hok k
          simp only [step, withImg, hwr]
          exact ⟨⟨by simp, rfl⟩, wf1 _ hok'⟩
      | save q =>
          have hk : layoutKept im q = true := by simpa [allowed] using ha
          simp only [step, withImg, save_cur hok]
          refine ⟨⟨by simp, rfl, FS.set_same _ _ _, fun p hp => FS.set_other _ _ hp, ?_⟩,
                  FSwf_set_intact hfs q _, ?_⟩
          · by_cases hc : outCls im.cls q.ext = im.cls
            · exact ⟨{ im with fname := some q, xf := outXF im q }, by simp only [hc, if_true], rfl, rfl, rfl, rfl, rfl⟩
            · exact ⟨im, by simp only [hc, if_false], rfl, rfl, rfl, rfl, rfl⟩
          · intro im' h'
            simp only [Option.some.injEq] at h'
            subst h'
            by_cases hc : outCls im.cls q.ext = im.cls
            · simp only [hc, if_true]
              exact ImgOk_after_save hok hk _ rfl rfl rfl rfl rfl rfl rfl
            · simp only [hc, if_false]
              exact ImgOk_after_save hok hk _ rfl rfl rfl rfl rfl rfl rfl

/-! ### whole histories -/

/-- every op of the history is allowed in the state it is applied to (decidable, executable) -/
def allowedRun : St → List Op → Bool
  | _, [] => true
  | s, op :: rest => allowed s op && allowedRun (step .owners s op).2 rest

/-- the property along a history: every step meets its spec, the image is usable after every step (and at the
    end) -/
def Safe : St → List Op → Prop
  | s, [] => Usable s
  | s, op :: rest => StepSpec s op (step .owners s op) ∧ Usable (step .owners s op).2 ∧ Safe (step .owners s op).2 rest

theorem safe_of_WF : ∀ (ops : List Op) (s : St), WF s → allowedRun s ops = true → Safe s ops
  | [], s, hw, _ => usable_of_WF hw
  | op :: rest, s, hw, ha => by
      simp only [allowedRun, Bool.and_eq_true] at ha
      obtain ⟨hspec, hw'⟩ := step_safe_aux s op hw ha.1
      exact ⟨hspec, usable_of_WF hw', safe_of_WF rest _ hw' ha.2⟩

theorem run_ok : ∀ (ops : List Op) (s : St), WF s → allowedRun s ops = true →
    (∀ o ∈ (run .owners s ops).1, o ≠ .bad) ∧ (run .owners s ops).1.length = ops.length ∧
      ∃ f, (run .owners s ops).2 = some f ∧ WF f
  | [], s, hw, _ => ⟨by simp [run], by simp [run], s, rfl, hw⟩
  | op :: rest, s, hw, ha => by
      simp only [allowedRun, Bool.and_eq_true] at ha
      obtain ⟨hspec, hw'⟩ := step_safe_aux s op hw ha.1
      obtain ⟨h1, h2, f, h3, h4⟩ := run_ok rest _ hw' ha.2
      have hne : (step .owners s op).1 ≠ .bad := hspec.1
      have hrun : run .owners s (op :: rest) =
          ((step .owners s op).1 :: (run .owners (step .owners s op).2 rest).1, (run .owners (step .owners s op).2 rest).2) := by
        rw [run]
        generalize step .owners s op = r at hne
        obtain ⟨o, s'⟩ := r
        cases o <;> first | rfl | exact absurd rfl hne
      rw [hrun]
      refine ⟨?_, by simp [h2], f, h3, h4⟩
      intro o ho
      simp only [List.mem_cons] at ho
      rcases ho with rfl | ho
      · exact hne
      · exact h1 o ho

end Nb.C09
