import NibabelModel.Model.C10
/-! Lemmas/C10_Checks — the `_chk_*` repairs are commuting idempotent updates of disjoint fields. -/
namespace Nb.C10

/-! ### battery bookkeeping -/

def fixAll (c : ClsSpec) (ks : List CheckId) (h : CF) : CF := ks.foldl (fun h k => fixOf c k h) h

theorem runFix_aux (c : ClsSpec) (ks : List CheckId) (h : CF) (acc : List Report) :
    ks.foldl (fun a k => (fixOf c k a.1, a.2 ++ [reportOf c k a.1])) (h, acc)
      = ((runFix c ks h).1, acc ++ (runFix c ks h).2) := by
  induction ks generalizing h acc with
  | nil => simp [runFix]
  | cons k ks ih =>
    simp only [runFix, List.foldl_cons, List.nil_append]
    rw [ih, ih (fixOf c k h) [reportOf c k h]]
    simp [runFix]

theorem runFix_cons (c : ClsSpec) (k : CheckId) (ks : List CheckId) (h : CF) :
    runFix c (k :: ks) h = ((runFix c ks (fixOf c k h)).1, reportOf c k h :: (runFix c ks (fixOf c k h)).2) := by
  show (k :: ks).foldl _ (h, []) = _
  simp only [List.foldl_cons, List.nil_append]
  rw [runFix_aux]
  simp

theorem runFix_nil (c : ClsSpec) (h : CF) : runFix c [] h = (h, []) := rfl

theorem runFix_fst (c : ClsSpec) (ks : List CheckId) (h : CF) : (runFix c ks h).1 = fixAll c ks h := by
  induction ks generalizing h with
  | nil => rfl
  | cons k ks ih => rw [runFix_cons]; exact ih _

/-! ### frames -/

theorem fixOf_comm (c : ClsSpec) (k1 k2 : CheckId) (h : CF) :
    fixOf c k1 (fixOf c k2 h) = fixOf c k2 (fixOf c k1 h) := by
  cases k1 <;> cases k2 <;> rfl

theorem reportOf_fixOf_other (c : ClsSpec) (k1 k2 : CheckId) (hne : k1 ≠ k2) (h : CF) :
    reportOf c k1 (fixOf c k2 h) = reportOf c k1 h := by
  cases k1 <;> cases k2 <;> first | rfl | exact absurd rfl hne

theorem fixOf_fixAll_comm (c : ClsSpec) (k : CheckId) (ks : List CheckId) (h : CF) :
    fixOf c k (fixAll c ks h) = fixAll c ks (fixOf c k h) := by
  induction ks generalizing h with
  | nil => rfl
  | cons k' ks ih =>
    show fixOf c k (fixAll c ks (fixOf c k' h)) = fixAll c ks (fixOf c k' (fixOf c k h))
    rw [ih, fixOf_comm]

/-! ### float classes -/

theorem FloatFmt.ok_half {F : FloatFmt} (h : F.ok = true) : 0 < F.half := by
  simp [FloatFmt.ok] at h; exact h.1

theorem FloatFmt.ok_one {F : FloatFmt} (h : F.ok = true) : F.le0 F.one = false := by
  simp [FloatFmt.ok] at h; simpa using h.2

theorem FloatFmt.mag_mag (F : FloatFmt) (p : Nat) : F.mag (F.mag p) = F.mag p := by
  simp [FloatFmt.mag]

theorem FloatFmt.isZero_abs (F : FloatFmt) (p : Nat) : F.isZero (F.abs p) = F.isZero p := by
  simp [FloatFmt.isZero, FloatFmt.abs, FloatFmt.mag_mag]

theorem FloatFmt.isNeg_abs (F : FloatFmt) (hF : 0 < F.half) (p : Nat) : F.isNeg (F.abs p) = false := by
  have : ¬ F.half ≤ p % F.half := by
    have := Nat.mod_lt p hF; omega
  simp [FloatFmt.isNeg, FloatFmt.abs, FloatFmt.mag, FloatFmt.signSet, this]

theorem FloatFmt.le0_abs (F : FloatFmt) (hF : 0 < F.half) (p : Nat) (hz : F.isZero p = false) :
    F.le0 (F.abs p) = false := by
  simp [FloatFmt.le0, FloatFmt.isZero_abs, hz, FloatFmt.isNeg_abs F hF]

theorem fixPixdims_clean (F : FloatFmt) (hF : F.ok = true) (d : List Nat) :
    ∀ p ∈ fixPixdims F d, F.le0 p = false := by
  have hh := FloatFmt.ok_half hF
  have h1 := FloatFmt.ok_one hF
  have h1z : F.isZero F.one = false := by
    simp only [FloatFmt.le0, Bool.or_eq_false_iff] at h1; exact h1.1
  intro p hp
  unfold fixPixdims at hp
  by_cases hany : d.any F.le0 = true
  · simp only [hany, Bool.not_true, Bool.false_eq_true, if_false] at hp
    by_cases hn : d.any F.isNeg = true
    · -- everything is abs'ed after the zeros were replaced
      simp only [hn, if_true] at hp
      obtain ⟨q, hq, rfl⟩ := List.mem_map.mp hp
      apply FloatFmt.le0_abs F hh
      by_cases hz : d.any F.isZero = true
      · simp only [hz, if_true] at hq
        obtain ⟨r, _, rfl⟩ := List.mem_map.mp hq
        by_cases hr : F.isZero r = true
        · simp [hr, h1z]
        · simp [hr]
      · simp only [hz] at hq
        have := List.any_eq_false.mp (by simpa using hz) q (by simpa using hq)
        simpa using this
    · -- no negative entry: zeros replaced by one, the rest were positive / NaN
      simp only [hn] at hp
      have hnn : ∀ q ∈ d, F.isNeg q = false := by
        intro q hq
        have := List.any_eq_false.mp (by simpa using hn) q hq
        simpa using this
      by_cases hz : d.any F.isZero = true
      · simp only [hz, if_true] at hp
        obtain ⟨r, hr, rfl⟩ := List.mem_map.mp hp
        by_cases hrz : F.isZero r = true
        · simp [hrz, h1]
        · simp [hrz, FloatFmt.le0, hnn r hr]
      · -- impossible: some entry is <= 0 but none is zero and none negative
        exfalso
        obtain ⟨q, hq, hq0⟩ := List.any_eq_true.mp hany
        have hz' := List.any_eq_false.mp (by simpa using hz) q hq
        simp [FloatFmt.le0, hnn q hq] at hq0
        simp [hq0] at hz'
  · simp only [hany, Bool.not_false, if_true] at hp
    have := List.any_eq_false.mp (by simpa using hany) p hp
    simpa using this

theorem fixPixdims_any (F : FloatFmt) (hF : F.ok = true) (d : List Nat) :
    (fixPixdims F d).any F.le0 = false := by
  apply List.any_eq_false.mpr
  intro p hp
  simp [fixPixdims_clean F hF d p hp]

theorem fixPixdims_noop (F : FloatFmt) (d : List Nat) (h : d.any F.le0 = false) : fixPixdims F d = d := by
  unfold fixPixdims; simp [h]

theorem fixPixdims_idem (F : FloatFmt) (hF : F.ok = true) (d : List Nat) :
    fixPixdims F (fixPixdims F d) = fixPixdims F d := by
  exact fixPixdims_noop F _ (fixPixdims_any F hF d)

/-! ### per-check facts -/

theorem fixOf_idem (c : ClsSpec) (hF : c.pixFmt.ok = true) (k : CheckId) (h : CF) :
    fixOf c k (fixOf c k h) = fixOf c k h := by
  cases h with
  | mk sz dt bp qf pd mg vo q s eol org dim ver =>
  cases k
  case sizeofHdr =>
    simp only [fixOf]; congr 1; split <;> simp_all
  case datatype => rfl
  case bitpix =>
    simp only [fixOf]; congr 1
    cases dtItemsize c.dtTable dt with
    | none => rfl
    | some n => simp only []; split <;> simp_all
  case pixdims =>
    simp only [fixOf]; congr 1; exact fixPixdims_idem _ hF _
  case qfac =>
    simp only [fixOf]; congr 1; split <;> simp_all
  case magic => rfl
  case offset =>
    simp only [fixOf]; congr 1
    by_cases h1 : (c.voxKind.decode vo).isZero = true
    · simp [h1]
    · by_cases h2 : stripNul mg = c.singleMagic ∧ (c.voxKind.decode vo).ltInt c.singleVoxOffset = true
      · simp only [h1, h2]; simp
      · simp [h1, h2]
  case qform =>
    simp only [fixOf]; congr 1; split <;> simp_all
  case sform =>
    simp only [fixOf]; congr 1; split <;> simp_all
  case eol =>
    simp only [fixOf]; congr 1; split <;> simp_all
  case origin => rfl
  case version =>
    simp only [fixOf]; congr 1; split <;> simp_all

theorem fixOf_noop (c : ClsSpec) (k : CheckId) (h : CF) (hr : (reportOf c k h).level = 0) :
    fixOf c k h = h := by
  cases h with
  | mk sz dt bp qf pd mg vo q s eol org dim ver =>
  cases k
  case sizeofHdr =>
    simp only [reportOf] at hr; simp only [fixOf]; congr 1; split at hr <;> simp_all [Report.clean]
  case datatype => rfl
  case bitpix =>
    simp only [reportOf] at hr; simp only [fixOf]; congr 1
    cases hd : dtItemsize c.dtTable dt with
    | none => rfl
    | some n => simp only [hd] at hr ⊢; split at hr <;> simp_all [Report.clean]
  case pixdims =>
    simp only [reportOf] at hr; simp only [fixOf]; congr 1
    apply fixPixdims_noop
    by_cases ha : pd.any c.pixFmt.le0 = true
    · simp only [ha, Bool.not_true, Bool.false_eq_true, if_false] at hr
      split at hr
      · split at hr <;> simp at hr
      · simp at hr
    · simpa using ha
  case qfac =>
    simp only [reportOf] at hr; simp only [fixOf]; congr 1; split at hr <;> simp_all [Report.clean]
  case magic => rfl
  case offset =>
    simp only [reportOf] at hr; simp only [fixOf]; congr 1
    by_cases h1 : (c.voxKind.decode vo).isZero = true
    · simp [h1]
    · by_cases h2 : stripNul mg = c.singleMagic ∧ (c.voxKind.decode vo).ltInt c.singleVoxOffset = true
      · simp [h1, h2] at hr
      · simp [h1, h2]
  case qform =>
    simp only [reportOf] at hr; simp only [fixOf]; congr 1; split at hr <;> simp_all [Report.clean]
  case sform =>
    simp only [reportOf] at hr; simp only [fixOf]; congr 1; split at hr <;> simp_all [Report.clean]
  case eol =>
    simp only [reportOf] at hr; simp only [fixOf]; congr 1
    split at hr
    · simp_all
    · split at hr <;> simp at hr
  case origin => rfl
  case version =>
    simp only [reportOf] at hr; simp only [fixOf]; congr 1; split at hr <;> simp_all [Report.clean]

/-- what a class must satisfy for "repaired problems do not come back": the float format is sane and
    code 0 (the value `_chk_xform_code` writes) is itself a valid xform code -/
def ClsSpec.ok (c : ClsSpec) : Bool :=
  c.pixFmt.ok && (c.xformCodes.contains 0 || !(c.checks.contains .qform || c.checks.contains .sform)) &&
  (c.voxKind.decode c.singleVoxPattern).eqInt c.singleVoxOffset

/-- after its own repair a fixable check is silent -/
theorem reportOf_fixOf_clean (c : ClsSpec) (hF : c.pixFmt.ok = true) (k : CheckId)
    (hx : k = .qform ∨ k = .sform → (0 : Int) ∈ c.xformCodes) (hk : unfixable k = false) (h : CF) : (reportOf c k (fixOf c k h)).level = 0 := by
  cases h with
  | mk sz dt bp qf pd mg vo q s eol org dim ver =>
  cases k
  case sizeofHdr => simp only [fixOf, reportOf]; split <;> simp_all [Report.clean]
  case datatype => simp [unfixable] at hk
  case bitpix => simp [unfixable] at hk
  case pixdims =>
    simp only [fixOf, reportOf]
    simp [fixPixdims_any _ hF, Report.clean]
  case qfac => simp only [fixOf, reportOf]; split <;> simp_all [Report.clean]
  case magic => simp [unfixable] at hk
  case offset => simp [unfixable] at hk
  case qform =>
    have := hx (Or.inl rfl)
    simp only [fixOf, reportOf]; split <;> simp_all [Report.clean]
  case sform =>
    have := hx (Or.inr rfl)
    simp only [fixOf, reportOf]; split <;> simp_all [Report.clean]
  case eol => simp only [fixOf, reportOf]; split <;> simp_all [Report.clean]
  case origin => simp [unfixable] at hk
  case version => simp only [fixOf, reportOf]; split <;> simp_all [Report.clean]

/-! ### the battery -/

theorem fixAll_idem (c : ClsSpec) (hF : c.pixFmt.ok = true) (ks : List CheckId) (h : CF) :
    fixAll c ks (fixAll c ks h) = fixAll c ks h := by
  induction ks generalizing h with
  | nil => rfl
  | cons k ks ih =>
    show fixAll c ks (fixOf c k (fixAll c ks (fixOf c k h))) = fixAll c ks (fixOf c k h)
    rw [fixOf_fixAll_comm, fixOf_idem c hF, ih]

theorem fixAll_noop (c : ClsSpec) (ks : List CheckId) (h : CF)
    (hr : ∀ r ∈ (runFix c ks h).2, r.level = 0) : fixAll c ks h = h := by
  induction ks generalizing h with
  | nil => rfl
  | cons k ks ih =>
    rw [runFix_cons] at hr
    have h0 : fixOf c k h = h := fixOf_noop c k h (hr _ (List.mem_cons_self ..))
    show fixAll c ks (fixOf c k h) = h
    rw [h0]
    apply ih
    intro r hrm
    apply hr
    rw [h0]
    exact List.mem_cons_of_mem _ hrm

theorem runOnly_fixOf (c : ClsSpec) (k : CheckId) (ks : List CheckId) (hk : k ∉ ks) (h : CF) :
    runOnly c ks (fixOf c k h) = runOnly c ks h := by
  unfold runOnly
  apply List.map_congr_left
  intro k' hk'
  exact reportOf_fixOf_other c k' k (fun e => hk (e ▸ hk')) h

theorem runFix_snd (c : ClsSpec) (ks : List CheckId) (hnd : ks.Nodup) (h : CF) :
    (runFix c ks h).2 = runOnly c ks h := by
  induction ks generalizing h with
  | nil => rfl
  | cons k ks ih =>
    have hnd' := List.nodup_cons.mp hnd
    rw [runFix_cons]
    show reportOf c k h :: (runFix c ks (fixOf c k h)).2 = reportOf c k h :: runOnly c ks h
    rw [ih hnd'.2, runOnly_fixOf c k ks hnd'.1]

theorem fixAll_mem (c : ClsSpec) (k : CheckId) (ks : List CheckId) (hk : k ∈ ks) (h : CF) :
    ∃ h', fixAll c ks h = fixOf c k h' := by
  induction ks generalizing h with
  | nil => cases hk
  | cons k' ks ih =>
    rcases List.mem_cons.mp hk with rfl | hk
    · exact ⟨fixAll c ks h, (fixOf_fixAll_comm c k ks h).symm⟩
    · exact ih hk (fixOf c k' h)

/-- the repair only ever leaves `vox_offset` as it was or sets the single-file minimum, and never
    touches `magic` -/
theorem fixAll_vox (c : ClsSpec) (ks : List CheckId) (h : CF) :
    (fixAll c ks h).magic = h.magic ∧
    ((fixAll c ks h).voxOffset = h.voxOffset ∨ (fixAll c ks h).voxOffset = c.singleVoxPattern) := by
  induction ks generalizing h with
  | nil => exact ⟨rfl, Or.inl rfl⟩
  | cons k ks ih =>
    have hk : (fixOf c k h).magic = h.magic ∧
        ((fixOf c k h).voxOffset = h.voxOffset ∨ (fixOf c k h).voxOffset = c.singleVoxPattern) := by
      cases k <;> simp only [fixOf, true_and, true_or]
      -- offset
      split
      · exact Or.inl rfl
      · split
        · exact Or.inr rfl
        · exact Or.inl rfl
    have := ih (fixOf c k h)
    show (fixAll c ks (fixOf c k h)).magic = h.magic ∧ _
    refine ⟨this.1.trans hk.1, ?_⟩
    show (fixAll c ks (fixOf c k h)).voxOffset = h.voxOffset ∨ (fixAll c ks (fixOf c k h)).voxOffset = _
    rcases this.2 with h1 | h1
    · rcases hk.2 with h2 | h2
      · exact Or.inl (h1.trans h2)
      · exact Or.inr (h1.trans h2)
    · exact Or.inr h1

end Nb.C10
