import NibabelModel.Lemmas.C08_Tck
import NibabelModel.Lemmas.C16_Digits
/-! Lemmas/C08_TckHdr — the text-header line scan of `TckFile._read_header` on prefixes of a written
    header: it cannot produce an offset other than the true header length. -/
namespace Nb.C08

/-! ### lines -/

theorem takeLine_no_nl (p : Bytes) (h : nl ∉ p) : takeLine p = (p, []) := by
  induction p with
  | nil => rfl
  | cons a p ih =>
    simp only [List.mem_cons, not_or] at h
    simp only [takeLine]
    rw [if_neg (fun e => h.1 e.symm), ih h.2]

theorem takeLine_append (l r : Bytes) (h : nl ∉ l) : takeLine (l ++ nl :: r) = (l ++ [nl], r) := by
  induction l with
  | nil => simp [takeLine]
  | cons a l ih =>
    simp only [List.mem_cons, not_or] at h
    simp only [List.cons_append, takeLine]
    rw [if_neg (fun e => h.1 e.symm), ih h.2]

theorem take_line_short (l R : Bytes) (j : Nat) (hj : j ≤ l.length) :
    (l ++ nl :: R).take j = l.take j := by
  rw [List.take_append_of_le_length hj]

theorem take_line_long (l R : Bytes) (j : Nat) (hj : l.length < j) :
    (l ++ nl :: R).take j = l ++ nl :: R.take (j - l.length - 1) := by
  rw [List.take_append, List.take_of_length_le (by omega)]
  obtain ⟨i, hi⟩ : ∃ i, j - l.length = i + 1 := ⟨j - l.length - 1, by omega⟩
  rw [hi, List.take_succ_cons]
  congr 3

theorem tckScan_nil (fuel : Nat) (fo : Option Nat) : ∃ e, tckScan fuel [] fo = .error e := by
  cases fuel <;> exact ⟨_, rfl⟩

/-- a header line the scan passes over: no newline inside, and neither the line nor any of its
    prefixes is read as the `END` marker -/
def GoodLine (l : Bytes) : Prop := nl ∉ l ∧ ∀ i, strip ((l ++ [nl]).take i) ≠ bEND

/-- one round of the scan over a good line followed by a newline: a result can only come from the
    text behind the complete line -/
theorem tckScan_step (l R : Bytes) (hl : GoodLine l) (fuel j : Nat) (fo : Option Nat) (r : Option Nat)
    (h : tckScan (fuel + 1) ((l ++ nl :: R).take j) fo = .ok r) :
    l.length < j ∧ ∃ fo', tckScan fuel (R.take (j - l.length - 1)) fo' = .ok r ∧
      ((strip (l ++ [nl])).take 5 = bFilePrefix → parseFileLine ((strip (l ++ [nl])).drop 5) = fo') ∧
      ((strip (l ++ [nl])).take 5 ≠ bFilePrefix → fo' = fo) := by
  by_cases hj : j ≤ l.length
  · -- the line itself is cut: no END can be found
    exfalso
    rw [take_line_short l R j hj] at h
    have hnl : nl ∉ l.take j := fun hm => hl.1 (List.mem_of_mem_take hm)
    have hs : strip (l.take j) ≠ bEND := by
      have := hl.2 j
      rwa [List.take_append_of_le_length hj] at this
    unfold tckScan at h
    split at h
    · cases h
    · simp only [takeLine_no_nl _ hnl] at h
      rw [if_neg hs] at h
      obtain ⟨e, he⟩ := tckScan_nil fuel fo
      split at h
      · split at h
        · rename_i o _
          obtain ⟨e', he'⟩ := tckScan_nil fuel (some o)
          rw [he'] at h; cases h
        · cases h
      · rw [he] at h; cases h
  · have hj' : l.length < j := by omega
    refine ⟨hj', ?_⟩
    rw [take_line_long l R j hj'] at h
    unfold tckScan at h
    split at h
    · cases h
    · simp only [takeLine_append _ _ hl.1] at h
      have hs : strip (l ++ [nl]) ≠ bEND := by
        have := hl.2 (l.length + 1)
        rwa [List.take_of_length_le (by simp)] at this
      rw [if_neg hs] at h
      split at h
      · rename_i hf
        split at h
        · rename_i o ho
          exact ⟨some o, h, fun _ => ho, fun hne => absurd hf hne⟩
        · cases h
      · rename_i hf
        exact ⟨fo, h, fun hp => absurd hp hf, fun _ => rfl⟩

/-- passing over any number of good lines -/
theorem tckScan_lines (L : List Bytes) (hL : ∀ l ∈ L, GoodLine l) (R : Bytes) :
    ∀ (fuel j : Nat) (fo r : Option Nat),
      tckScan fuel (((L.map (· ++ [nl])).flatten ++ R).take j) fo = .ok r →
      ∃ fuel' j' fo', tckScan fuel' (R.take j') fo' = .ok r := by
  induction L with
  | nil => intro fuel j fo r h; exact ⟨fuel, j, fo, by simpa using h⟩
  | cons l L ih =>
    intro fuel j fo r h
    cases fuel with
    | zero => simp [tckScan] at h
    | succ fuel =>
      have e : ((l :: L).map (· ++ [nl])).flatten ++ R = l ++ nl :: ((L.map (· ++ [nl])).flatten ++ R) := by
        simp [List.append_assoc]
      rw [e] at h
      obtain ⟨_, fo', h', _, _⟩ := tckScan_step l _ (hL l (by simp)) fuel j fo r h
      exact ih (fun x hx => hL x (by simp [hx])) fuel _ fo' r h'

/-! ### strip -/

theorem dropWhile_snoc_keep (p : Nat → Bool) (xs : List Nat) (a : Nat) (ha : p a = false) :
    (xs ++ [a]).dropWhile p = xs.dropWhile p ++ [a] := by
  induction xs with
  | nil => simp [List.dropWhile, ha]
  | cons x xs ih =>
    simp only [List.cons_append, List.dropWhile_cons]
    split
    · exact ih
    · rfl

/-- `strip` keeps a first byte that is not whitespace -/
theorem strip_cons (a : Nat) (l : Bytes) (ha : isWs a = false) : ∃ q, strip (a :: l) = a :: q := by
  unfold strip
  rw [List.dropWhile_cons, if_neg (by simp [ha]), List.reverse_cons, dropWhile_snoc_keep _ _ _ ha,
    List.reverse_append]
  exact ⟨_, rfl⟩

/-- a line whose first byte is neither whitespace nor `E` is good -/
theorem goodLine_of_head (a : Nat) (l : Bytes) (hnl : nl ∉ a :: l) (hw : isWs a = false) (hE : a ≠ 69) :
    GoodLine (a :: l) := by
  refine ⟨hnl, fun i => ?_⟩
  cases i with
  | zero => simp [strip, bEND]
  | succ i =>
    rw [List.cons_append, List.take_succ_cons]
    obtain ⟨q, hq⟩ := strip_cons a (List.take i (l ++ [nl])) hw
    rw [hq]
    intro h
    simp only [bEND, List.cons.injEq] at h
    exact hE h.1

/-- no whitespace at either end: `strip` is the identity, also with a trailing newline -/
theorem strip_ends (a c : Nat) (l' r : Bytes) (l : Bytes) (h1 : l = a :: l') (h2 : l.reverse = c :: r)
    (ha : isWs a = false) (hc : isWs c = false) : strip l = l ∧ strip (l ++ [nl]) = l := by
  constructor
  · unfold strip
    rw [h1, List.dropWhile_cons, if_neg (by simp [ha]), ← h1, h2, List.dropWhile_cons,
      if_neg (by simp [hc]), ← h2, List.reverse_reverse]
  · unfold strip
    rw [h1, List.cons_append, List.dropWhile_cons, if_neg (by simp [ha]), ← List.cons_append, ← h1,
      List.reverse_append, List.reverse_singleton, List.singleton_append, List.dropWhile_cons,
      if_pos (by decide), h2, List.dropWhile_cons, if_neg (by simp [hc]), ← h2, List.reverse_reverse]

theorem strip_ws_cons (w : Nat) (l : Bytes) (hw : isWs w = true) : strip (w :: l) = strip l := by
  unfold strip
  rw [List.dropWhile_cons, if_pos hw]

theorem isWs_digit {c : Nat} (h : C16.isDigit c = true) : isWs c = false := by
  simp only [C16.isDigit, Bool.and_eq_true, decide_eq_true_eq] at h
  simp only [isWs, Bool.or_eq_false_iff, decide_eq_false_iff_not]
  omega

/-- first and last digit of `str(n)` -/
theorem decRepr_ends (n : Nat) : ∃ a l' c r, C16.decRepr n = a :: l' ∧ (C16.decRepr n).reverse = c :: r ∧
    isWs a = false ∧ isWs c = false := by
  have hne := C16.decRepr_ne_nil n
  have hall := C16.decRepr_all_digit n
  cases h1 : C16.decRepr n with
  | nil => exact absurd h1 hne
  | cons a l' =>
    cases h2 : (a :: l').reverse with
    | nil => simp at h2
    | cons c r =>
      refine ⟨a, l', c, r, rfl, rfl, isWs_digit (hall a (by rw [h1]; simp)), isWs_digit (hall c ?_)⟩
      rw [h1]
      have hm : c ∈ (a :: l').reverse := by rw [h2]; simp
      exact List.mem_reverse.mp hm

/-! ### the `file:` line and the `END` line -/

/-- `file: . <N>` -/
def fileLine (N : Nat) : Bytes := bFilePrefix ++ [32, 46, 32] ++ decDigits N

theorem fileLine_good (N : Nat) : GoodLine (fileLine N) := by
  have hd : ∀ c ∈ C16.decRepr N, c ≠ nl := by
    intro c hc h
    have := C16.decRepr_all_digit N c hc
    rw [h] at this; revert this; decide
  have e : fileLine N = 102 :: ([105, 108, 101, 58, 32, 46, 32] ++ C16.decRepr N) := by
    simp [fileLine, bFilePrefix, decDigits]
  rw [e]
  apply goodLine_of_head 102
  · intro h
    have : nl ∈ C16.decRepr N := by simpa [nl] using h
    exact hd _ this rfl
  · decide
  · decide

theorem fileLine_parse (N : Nat) :
    (strip (fileLine N ++ [nl])).take 5 = bFilePrefix ∧
    parseFileLine ((strip (fileLine N ++ [nl])).drop 5) = some N := by
  obtain ⟨a, l', c, r, h1, h2, ha, hc⟩ := decRepr_ends N
  have hs : strip (fileLine N ++ [nl]) = fileLine N := by
    refine (strip_ends 102 c ([105, 108, 101, 58, 32, 46, 32] ++ C16.decRepr N)
      (r ++ (bFilePrefix ++ [32, 46, 32]).reverse) (fileLine N) ?_ ?_ (by decide) hc).2
    · simp [fileLine, bFilePrefix, decDigits]
    · simp only [fileLine, decDigits, List.reverse_append, h2]
      simp [bFilePrefix]
  rw [hs]
  refine ⟨by simp [fileLine, bFilePrefix], ?_⟩
  have hd : (fileLine N).drop 5 = 32 :: 46 :: 32 :: C16.decRepr N := by
    simp [fileLine, bFilePrefix, decDigits]
  rw [hd]
  unfold parseFileLine
  rw [strip_ws_cons 32 _ (by decide)]
  have h46 : strip (46 :: 32 :: C16.decRepr N) = 46 :: 32 :: C16.decRepr N := by
    refine (strip_ends 46 c (32 :: C16.decRepr N) (r ++ [32, 46]) _ rfl ?_ (by decide) hc).1
    simp [h2]
  rw [h46]
  simp only
  rw [strip_ws_cons 32 _ (by decide), (strip_ends a c l' r _ h1 h2 ha hc).1]
  exact C16.parseDec_decRepr N

/-- the `END` line, possibly cut: the scan ends with the offset collected so far, or fails -/
theorem tckScan_end (body : Bytes) (fuel j : Nat) (fo r : Option Nat)
    (h : tckScan fuel ((bEND ++ nl :: body).take j) fo = .ok r) : r = fo := by
  cases fuel with
  | zero => simp [tckScan] at h
  | succ fuel =>
    obtain ⟨e, he⟩ := tckScan_nil fuel fo
    rcases Nat.lt_or_ge j 4 with hj | hj
    · have : j = 0 ∨ j = 1 ∨ j = 2 ∨ j = 3 := by omega
      rcases this with h0 | h0 | h0 | h0 <;> subst h0
      · simp [tckScan] at h
      · simp [tckScan, bEND, takeLine, nl, strip, isWs, bFilePrefix, he] at h
      · simp [tckScan, bEND, takeLine, nl, strip, isWs, bFilePrefix, he] at h
      · simp [tckScan, bEND, takeLine, nl, strip, isWs] at h
        exact h.symm
    · rw [take_line_long bEND body j (by simp [bEND]; omega)] at h
      unfold tckScan at h
      split at h
      · cases h
      · simp only [takeLine_append bEND _ (by decide)] at h
        rw [if_pos (by decide)] at h
        cases h; rfl

/-- behind the good lines: `file: . N`, `END`, body — a successful scan returns `some N` -/
theorem tckScan_tail (N : Nat) (body : Bytes) (fuel j : Nat) (fo r : Option Nat)
    (h : tckScan fuel ((fileLine N ++ nl :: (bEND ++ nl :: body)).take j) fo = .ok r) : r = some N := by
  cases fuel with
  | zero => simp [tckScan] at h
  | succ fuel =>
    obtain ⟨_, fo', h', hf, _⟩ := tckScan_step _ _ (fileLine_good N) fuel j fo r h
    have hp := fileLine_parse N
    have : fo' = some N := by rw [← hf hp.1, hp.2]
    subst this
    exact tckScan_end body fuel _ _ r h'

/-! ### the written header -/

/-- the offset written into the `file:` line is the length of the header (the self-referential
    computation of `_write_header` reaches its fixed point) -/
theorem tckHeader_length (t : Tck) :
    (tckHeader t).length = tckOffset ((tckHeaderPre t).length + 5) := by
  simp only [tckHeader, tckOffset, decDigits, List.length_append, C16.decRepr_length, bEND,
    List.length_cons, List.length_nil]
  have := C16.offset_digits_fixpoint ((tckHeaderPre t).length + 5)
  omega

theorem tckWrite_drop14 (t : Tck) :
    (tckWrite t).drop 14 = (t.lines.map (· ++ [nl])).flatten ++
      (fileLine (tckOffset ((tckHeaderPre t).length + 5)) ++ nl :: (bEND ++ nl :: tckBody t.streams)) := by
  have e : tckWrite t = (tckMagic ++ [nl]) ++ ((t.lines.map (· ++ [nl])).flatten ++
      (fileLine (tckOffset ((tckHeaderPre t).length + 5)) ++ nl :: (bEND ++ nl :: tckBody t.streams))) := by
    simp [tckWrite, tckHeader, tckHeaderPre, fileLine, List.append_assoc]
  rw [e]
  exact List.drop_left' (by decide)

/-- **the header scan is sound for every written header and every cut** -/
theorem scanOk_all (t : Tck) (hL : ∀ l ∈ t.lines, GoodLine l) (m : Nat) : ScanOk t m := by
  unfold ScanOk
  split
  · rename_i off h
    rw [List.drop_take, tckWrite_drop14] at h
    obtain ⟨fuel', j', fo', h'⟩ := tckScan_lines t.lines hL _ _ _ _ _ h
    have := tckScan_tail _ _ _ _ _ _ h'
    rw [tckHeader_length]
    exact Option.some.inj this
  · trivial

end Nb.C08
