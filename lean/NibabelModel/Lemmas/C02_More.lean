import NibabelModel.Lemmas.C02_E2E
/-! Lemmas/C02_More — constant arrays, sharp range statement, accepted header values, NaN-fill slack bound. -/
namespace Nb.C02

/-- `rint x` is a NEAREST integer: no integer is closer to `x` -/
theorem rint_nearest (x : Rat) (n : Int) : |(rint x : Rat) - x| ≤ |(n : Rat) - x| := by
  by_cases h : n = rint x
  · rw [h]
  · have hr := rint_spec x
    have ha := rint_abs x
    rcases lt_or_gt_of_ne h with hlt | hgt
    · have : (n : Rat) + 1 ≤ (rint x : Rat) := by exact_mod_cast (show n + 1 ≤ rint x by omega)
      have : (n : Rat) - x ≤ -(1/2) := by linarith
      rw [abs_of_nonpos (by linarith : (n : Rat) - x ≤ 0)]
      linarith
    · have : (rint x : Rat) + 1 ≤ (n : Rat) := by exact_mod_cast (show rint x + 1 ≤ n by omega)
      have : (1/2 : Rat) ≤ (n : Rat) - x := by linarith
      rw [abs_of_nonneg (by linarith : (0 : Rat) ≤ (n : Rat) - x)]
      linarith

/-- a successful `save` of a non-MGH class stored what its writer computed, and the header accepted it -/
theorem save_scale {c : Cls} (hc : c ≠ .mgh) {rnd : Rat → Rat} {p32 : Nat} {i : InT} {o : OutT} {data : List Val}
    {s b : Rat} {raws : List Int} (h : save c rnd p32 i o data = .ok (s, b, raws)) :
    writerScale c.writer rnd p32 i o data = .ok (s, b) ∧ setSlopeInter c s b = .ok () := by
  cases c with
  | mgh => exact absurd rfl hc
  | nifti | spm | analyze =>
    simp only [save, bind, Except.bind] at h
    split at h
    · cases h
    · rename_i sb hsb
      obtain ⟨s', b'⟩ := sb
      simp only at h
      split at h
      · cases h
      · rename_i hset
        split at h
        · cases h
        · injection h with h; injection h with e1 h; injection h with e2 _
          subst e1 e2
          exact ⟨hsb, hset⟩

/-- CONSTANT float array `c ≠ 0` (no NaN) through the slope + intercept writer: slope 1, intercept `rnd c` (the float32
    nearest `c`), every element stored as `clip(rint(c − rnd c))`; when that is not clipped the reload error is at most
    `min(1/2, |rnd c − c|)` — the rounding error of the stored intercept, nothing else. -/
theorem save_const_nifti {rnd : Rat → Rat} {p32 prec : Nat} {o : OutT} {data : List Val} {s b c : Rat}
    {raws : List Int} (ho1 : o.omin ≤ 0) (ho2 : 0 ≤ o.omax)
    (hsave : save .nifti rnd p32 (.flt prec) o data = .ok (s, b, raws))
    (hfr : finiteRange data = (some (c, c), false)) (hc : c ≠ 0) :
    s = 1 ∧ b = rnd c ∧
    List.Forall₂ (fun v q => ∀ r, v = Val.fin r → r = c ∧
      q = clipI (rint (c - rnd c)) (sharedRange (workingPrec (.flt prec)) o).1
            (sharedRange (workingPrec (.flt prec)) o).2 ∧
      ((sharedRange (workingPrec (.flt prec)) o).1 ≤ rint (c - rnd c) →
       rint (c - rnd c) ≤ (sharedRange (workingPrec (.flt prec)) o).2 →
        |applyReadScaling s b q - c| ≤ |rnd c - c| ∧ |applyReadScaling s b q - c| ≤ 1/2)) data raws := by
  have hnz : ¬ (c = 0 ∧ c = 0) := fun h => hc h.1
  obtain ⟨hw, _⟩ := save_scale (by decide) hsave
  simp only [Cls.writer] at hw
  rw [writerScale_flt (Or.inl rfl) hfr hnz] at hw
  simp only [rangeScale, Bool.false_eq_true, if_false, rangeScaleInter, if_true] at hw
  injection hw with hw; injection hw with e1 e2
  subst e1 e2
  refine ⟨rfl, rfl, ?_⟩
  obtain ⟨_, hel⟩ := save_flt_elem (Or.inl rfl) ho1 ho2 hsave hfr hnz
  refine forall₂_imp_mem hel ?_
  intro v q hmem hq r hv
  obtain ⟨h1, h2⟩ := finiteRange_mem data c c false hfr r (hv ▸ hmem)
  have hr : r = c := le_antisymm h2 h1
  subst hr
  have hq' := hq r hv
  simp only [div_one] at hq'
  refine ⟨rfl, hq', fun hlo hhi => ?_⟩
  have hqe : q = rint (r - rnd r) := by rw [hq']; unfold clipI; omega
  have e : applyReadScaling 1 (rnd r) q - r = (rint (r - rnd r) : Rat) - (r - rnd r) := by
    rw [hqe]; unfold applyReadScaling; ring
  rw [e]
  refine ⟨?_, rint_abs _⟩
  have := rint_nearest (r - rnd r) 0
  have e2 : |((0 : Int) : Rat) - (r - rnd r)| = |rnd r - r| := by
    push_cast; rw [zero_sub, neg_sub]
  rw [e2] at this
  exact this

/-- STAYS IN RANGE, sharp and without any ideal `(ss, bs)`: if the clip range `[bmn, bmx]` meets the interval spanned by
    the two scaled thresholds, every `v ∈ [mn, mx]` reloads inside `[mn − |s|/2, mx + |s|/2]` -/
theorem stays_sharp {s b mn mx v : Rat} {bmn bmx : Int} (hs : s ≠ 0) (hb : bmn ≤ bmx) (h1 : mn ≤ v) (h2 : v ≤ mx)
    (ha : min (rint ((mn - b) / s)) (rint ((mx - b) / s)) ≤ bmx)
    (hc : bmn ≤ max (rint ((mn - b) / s)) (rint ((mx - b) / s))) :
    mn - |s| / 2 ≤ applyReadScaling s b (scaleFin s b mn mx bmn bmx v) ∧
    applyReadScaling s b (scaleFin s b mn mx bmn bmx v) ≤ mx + |s| / 2 := by
  rw [scaleFin_eq hs hb h1 h2]
  have hbt := rint_between (b := b) hs h1 h2
  simp only at hbt
  set x := rint ((v - b) / s) with hx
  set a := rint ((mn - b) / s) with hadef
  set c := rint ((mx - b) / s) with hcdef
  have hq1 : min a c ≤ clipI x bmn bmx := by unfold clipI; omega
  have hq2 : clipI x bmn bmx ≤ max a c := by unfold clipI; omega
  have sa := rint_spec ((mn - b) / s)
  have sc := rint_spec ((mx - b) / s)
  unfold applyReadScaling
  rcases lt_or_gt_of_ne hs with hneg | hpos
  · -- s < 0: thresholds swap
    have hac : c ≤ a := rint_mono (div_le_div_of_nonpos_of_le (le_of_lt hneg) (by linarith))
    rw [abs_of_neg hneg]
    have q1 : (c : Rat) ≤ (clipI x bmn bmx : Rat) := by exact_mod_cast (show c ≤ clipI x bmn bmx by omega)
    have q2 : (clipI x bmn bmx : Rat) ≤ (a : Rat) := by exact_mod_cast (show clipI x bmn bmx ≤ a by omega)
    have e1 : (mn - b) / s * s = mn - b := by field_simp
    have e2 : (mx - b) / s * s = mx - b := by field_simp
    constructor
    · have : (a : Rat) * s ≤ (clipI x bmn bmx : Rat) * s := mul_le_mul_of_nonpos_right q2 (le_of_lt hneg)
      have : ((mn - b) / s + 1/2) * s ≤ (a : Rat) * s :=
        mul_le_mul_of_nonpos_right (by linarith [sa.1]) (le_of_lt hneg)
      nlinarith
    · have : (clipI x bmn bmx : Rat) * s ≤ (c : Rat) * s := mul_le_mul_of_nonpos_right q1 (le_of_lt hneg)
      have : (c : Rat) * s ≤ ((mx - b) / s - 1/2) * s :=
        mul_le_mul_of_nonpos_right (by linarith [sc.2]) (le_of_lt hneg)
      nlinarith
  · have hac : a ≤ c := rint_mono (div_le_div_of_nonneg_right (by linarith) (le_of_lt hpos))
    rw [abs_of_pos hpos]
    have q1 : (a : Rat) ≤ (clipI x bmn bmx : Rat) := by exact_mod_cast (show a ≤ clipI x bmn bmx by omega)
    have q2 : (clipI x bmn bmx : Rat) ≤ (c : Rat) := by exact_mod_cast (show clipI x bmn bmx ≤ c by omega)
    have e1 : (mn - b) / s * s = mn - b := by field_simp
    have e2 : (mx - b) / s * s = mx - b := by field_simp
    constructor
    · have : (a : Rat) * s ≤ (clipI x bmn bmx : Rat) * s := mul_le_mul_of_nonneg_right q1 (le_of_lt hpos)
      have : ((mn - b) / s - 1/2) * s ≤ (a : Rat) * s :=
        mul_le_mul_of_nonneg_right (by linarith [sa.2]) (le_of_lt hpos)
      nlinarith
    · have : (clipI x bmn bmx : Rat) * s ≤ (c : Rat) * s := mul_le_mul_of_nonneg_right q2 (le_of_lt hpos)
      have : (c : Rat) * s ≤ ((mx - b) / s + 1/2) * s :=
        mul_le_mul_of_nonneg_right (by linarith [sc.1]) (le_of_lt hpos)
      nlinarith

theorem rint_nonneg {x : Rat} (h : 0 ≤ x) : 0 ≤ rint x := by
  have := rint_mono (show ((0 : Int) : Rat) ≤ x by simpa using h)
  rwa [rint_intCast] at this

/-- NaN fill, BOTH accepted branches of the range test: the stored fill reloads within `|s|·(1/2 + estErr)` of zero,
    `estErr = rint(2·2^(1−p)·|b/s|)` being the slack the test grants; within `|s|/2` when the fill was in range. -/
theorem nanFill_bound {p : Nat} {s b : Rat} {bmn bmx f : Int} (hs : s ≠ 0) (hb : bmn ≤ bmx)
    (h : nanFillCheck p s b (rint ((0 - b) / s)) bmn bmx = .ok f) :
    |applyReadScaling s b f - 0| ≤ |s| * (1/2 + (rint (2 * (2 : Rat) ^ (1 - (p : Int)) * rabs (b / s)) : Rat)) ∧
    (bmn ≤ rint ((0 - b) / s) ∧ rint ((0 - b) / s) ≤ bmx → |applyReadScaling s b f - 0| ≤ |s| / 2) := by
  have hE : 0 ≤ rint (2 * (2 : Rat) ^ (1 - (p : Int)) * rabs (b / s)) := by
    apply rint_nonneg
    rw [rabs_eq_abs]
    have h2 : (0 : Rat) < (2 : Rat) ^ (1 - (p : Int)) := zpow_pos (by norm_num) _
    have := abs_nonneg (b / s)
    exact mul_nonneg (mul_nonneg (by norm_num) (le_of_lt h2)) this
  have hEq : (0 : Rat) ≤ (rint (2 * (2 : Rat) ^ (1 - (p : Int)) * rabs (b / s)) : Rat) := by exact_mod_cast hE
  have hs0 := abs_nonneg s
  have hnan := nan_reload (b := b) hs
  have key : ∀ g : Int, |((g : Rat) - (rint ((0 - b) / s) : Rat))| ≤
        (rint (2 * (2 : Rat) ^ (1 - (p : Int)) * rabs (b / s)) : Rat) →
      |applyReadScaling s b g - 0| ≤ |s| * (1/2 + (rint (2 * (2 : Rat) ^ (1 - (p : Int)) * rabs (b / s)) : Rat)) := by
    intro g hg
    have e : applyReadScaling s b g - 0 = s * ((g : Rat) - (rint ((0 - b) / s) : Rat)) +
        ((rint ((0 - b) / s) : Rat) * s + b - 0) := by unfold applyReadScaling; ring
    rw [e]
    have t1 := abs_add_le (s * ((g : Rat) - (rint ((0 - b) / s) : Rat))) ((rint ((0 - b) / s) : Rat) * s + b - 0)
    rw [abs_mul] at t1
    have := mul_le_mul_of_nonneg_left hg hs0
    linarith
  have hin : bmn ≤ rint ((0 - b) / s) ∧ rint ((0 - b) / s) ≤ bmx → f = rint ((0 - b) / s) := by
    intro hr
    have := nanFillCheck_eq h
    rw [this]; unfold clipI; omega
  refine ⟨?_, fun hr => ?_⟩
  · unfold nanFillCheck at h
    split at h
    · injection h with h; subst h
      exact key _ (by simpa using hEq)
    · rename_i hout
      simp only at h
      split at h
      · rename_i hacc
        injection h with h; subst h
        apply key
        rcases hacc with ⟨h1, h2⟩ | ⟨h1, h2⟩
        · have e : clipI (rint ((0 - b) / s)) bmn bmx = bmn := by unfold clipI; omega
          rw [e, abs_of_nonneg (by exact_mod_cast (show (0 : Int) ≤ bmn - rint ((0 - b) / s) by omega))]
          exact_mod_cast (le_of_lt h2)
        · have e : clipI (rint ((0 - b) / s)) bmn bmx = bmx := by unfold clipI; omega
          rw [e, abs_of_nonpos (by exact_mod_cast (show bmx - rint ((0 - b) / s) ≤ (0 : Int) by omega))]
          have : ((rint ((0 - b) / s) - bmx : Int) : Rat) ≤
              ((rint (2 * (2 : Rat) ^ (1 - (p : Int)) * rabs (b / s)) : Int) : Rat) := by exact_mod_cast (le_of_lt h2)
          push_cast at this; linarith
      · cases h
  · rw [hin hr]; unfold applyReadScaling; exact hnan

/-- plain Analyze: a save that succeeds stored slope 1 / intercept 0 and needed no scaling -/
theorem save_analyze_ok {rnd : Rat → Rat} {p32 : Nat} {i : InT} {o : OutT} {data : List Val} {s b : Rat}
    {raws : List Int} (h : save .analyze rnd p32 i o data = .ok (s, b, raws)) :
    s = 1 ∧ b = 0 ∧ awScalingNeeded i o data = false := by
  simp only [save, Cls.writer, writerScale, bind, Except.bind] at h
  by_cases hn : awScalingNeeded i o data = true
  · simp [hn] at h
  · simp only [hn, Bool.false_eq_true, if_false] at h
    split at h
    · cases h
    · split at h
      · cases h
      · injection h with h; injection h with e1 h; injection h with e2 _
        exact ⟨e1.symm, e2.symm, by simpa using hn⟩

end Nb.C02
