import NibabelModel.Model.C06
import NibabelModel.Lemmas.PySlice
/-! Lemmas/C06_Defs — specification-level vocabulary used by the C06 theorems (no model logic):
    positions a read item reads along its axis, Python application of a post item, byte addresses
    of a segment, well-formedness predicates. -/
namespace Nb.C06
open Nb

/-- decidable equality of `Except` values (used only by the concrete `example`s) -/
instance (priority := low) instDecEqExcept {ε α} [DecidableEq ε] [DecidableEq α] :
    DecidableEq (Except ε α)
  | .ok a, .ok b => if h : a = b then isTrue (h ▸ rfl) else isFalse (fun e => h (Except.ok.inj e))
  | .error a, .error b =>
      if h : a = b then isTrue (h ▸ rfl) else isFalse (fun e => h (Except.error.inj e))
  | .ok _, .error _ => isFalse (fun e => by cases e)
  | .error _, .ok _ => isFalse (fun e => by cases e)

/-- positions read along an axis of length `n`, exactly as `slicers2segments` enumerates them:
    `[i]` for an int, `range(start, stop, step)` of the filled slicer for a slice / full axis.
    (`newaxis` consumes no axis; it contributes the single position 0 of its new length-1 axis.) -/
def ReadItem.selNat (r : ReadItem) (n : Nat) : List Nat :=
  match r with
  | .int i => [i.toNat]
  | .newaxis => [0]
  | r => (fillSlicer r.toPy n).range.map Int.toNat

/-- Python/NumPy semantics of applying a post item to the list of positions read along an axis:
    `l[k]` (negative `k` allowed) for an int, `l[s]` for a slice; `'dropped'` means the axis holds
    exactly one element and is removed. `none` = Python would raise. -/
def applyPost : PostItem → List Nat → Option Sel
  | .int k, l => (pyIntIndex l.length k).bind (fun j => l[j]?.map Sel.one)
  | .slice s, l => some (Sel.many (s.apply l))
  | .dropped, [x] => some (Sel.one x)
  | .dropped, _ => none

/-- canonical, non-newaxis item on an axis of length `n` (what `canonical_slicers` hands on) -/
def Item.WF (n : Nat) : Item → Prop
  | .int i => 0 ≤ i ∧ i < n
  | .slice s => s.Valid
  | .newaxis => False

instance (n : Nat) (it : Item) : Decidable (it.WF n) := by
  cases it <;> unfold Item.WF <;> exact inferInstance

/-- the NumPy selection of a canonical item along its axis -/
def Item.target (n : Nat) : Item → Sel
  | .int i => .one i.toNat
  | .slice s => .many (s.sel n)
  | .newaxis => .new

/-- post items whose slices are legal Python slices -/
def PostItem.Valid : PostItem → Prop
  | .slice s => s.Valid
  | _ => True

/-- byte addresses `offset … offset+length-1` of a segment -/
def Segment.addrs (s : Segment) : List Int := rangeInts s.offset 1 s.length

/-- positions read per REAL axis (newaxis skipped), fastest axis first -/
def readLists : List ReadItem → List Nat → List (List Nat)
  | [], _ => []
  | .newaxis :: rest, shape => readLists rest shape
  | _ :: _, [] => []
  | r :: rest, n :: shape => r.selNat n :: readLists rest shape

/-- a read item as `optimize_slicer` produces it for an axis of length `n`: ints in range, slices
    with positive step and bounds inside `[0, n]` -/
def ReadItem.Canon (n : Nat) : ReadItem → Prop
  | .int i => 0 ≤ i ∧ i < n
  | .full => True
  | .slice a b c => 0 < c ∧ 0 ≤ a ∧ a ≤ n ∧ 0 ≤ b ∧ b ≤ n
  | .newaxis => False

instance (n : Nat) (r : ReadItem) : Decidable (r.Canon n) := by
  cases r <;> unfold ReadItem.Canon <;> exact inferInstance

/-- read items aligned with the shape: every real axis has exactly one canonical read item -/
def ReadCanon : List ReadItem → List Nat → Prop
  | [], [] => True
  | [], _ :: _ => False
  | .newaxis :: rest, shape => ReadCanon rest shape
  | _ :: _, [] => False
  | r :: rest, n :: shape => r.Canon n ∧ ReadCanon rest shape

/-- canonical items aligned with the shape (output of `canonical_slicers` on a legal index) -/
def ItemsWF : List Item → List Nat → Prop
  | [], [] => True
  | [], _ :: _ => False
  | .newaxis :: rest, shape => ItemsWF rest shape
  | _ :: _, [] => False
  | it :: rest, n :: shape => it.WF n ∧ ItemsWF rest shape

/-! equation lemmas for `readShape` (the auto-generated ones fail on its overlapping patterns) -/
theorem readShape_nil (shape : List Nat) : readShape [] shape = [] := by cases shape <;> rfl
theorem readShape_newaxis (rest : List ReadItem) (shape : List Nat) :
    readShape (.newaxis :: rest) shape = 1 :: readShape rest shape := by
  cases shape <;> rfl
theorem readShape_int (i : Int) (rest : List ReadItem) (n : Nat) (shape : List Nat) :
    readShape (.int i :: rest) (n :: shape) = readShape rest shape := rfl
theorem readShape_full (rest : List ReadItem) (n : Nat) (shape : List Nat) :
    readShape (.full :: rest) (n :: shape) = slice2len pySliceNone n :: readShape rest shape := rfl
theorem readShape_slice (a b c : Int) (rest : List ReadItem) (n : Nat) (shape : List Nat) :
    readShape (.slice a b c :: rest) (n :: shape)
      = slice2len ⟨some a, some b, some c⟩ n :: readShape rest shape := rfl

theorem readCanon_cons (r : ReadItem) (rest : List ReadItem) (n : Nat) (shape : List Nat)
    (hn : r ≠ .newaxis) : ReadCanon (r :: rest) (n :: shape) = (r.Canon n ∧ ReadCanon rest shape) := by
  cases r <;> first | exact absurd rfl hn | rfl

theorem readCanon_newaxis (rest : List ReadItem) (shape : List Nat) :
    ReadCanon (.newaxis :: rest) shape = ReadCanon rest shape := by
  cases shape <;> rfl

/-- `ReadCanon` is decidable (it is the explicit side condition of the segment theorems) -/
def ReadCanon.dec : (rs : List ReadItem) → (shape : List Nat) → Decidable (ReadCanon rs shape)
  | [], [] => isTrue trivial
  | [], _ :: _ => isFalse (fun h => h)
  | .newaxis :: rest, [] => (ReadCanon.dec rest [] : Decidable (ReadCanon rest []))
  | .newaxis :: rest, n :: shape => (ReadCanon.dec rest (n :: shape) : Decidable (ReadCanon rest (n :: shape)))
  | .int _ :: _, [] => isFalse (fun h => h)
  | .full :: _, [] => isFalse (fun h => h)
  | .slice _ _ _ :: _, [] => isFalse (fun h => h)
  | .int i :: rest, n :: shape =>
      (@instDecidableAnd _ _ inferInstance (ReadCanon.dec rest shape) :
        Decidable ((ReadItem.int i).Canon n ∧ ReadCanon rest shape))
  | .full :: rest, n :: shape =>
      (@instDecidableAnd _ _ inferInstance (ReadCanon.dec rest shape) :
        Decidable (ReadItem.full.Canon n ∧ ReadCanon rest shape))
  | .slice a b c :: rest, n :: shape =>
      (@instDecidableAnd _ _ inferInstance (ReadCanon.dec rest shape) :
        Decidable ((ReadItem.slice a b c).Canon n ∧ ReadCanon rest shape))

instance (rs : List ReadItem) (shape : List Nat) : Decidable (ReadCanon rs shape) := ReadCanon.dec rs shape

def ItemsWF.dec : (items : List Item) → (shape : List Nat) → Decidable (ItemsWF items shape)
  | [], [] => isTrue trivial
  | [], _ :: _ => isFalse (fun h => h)
  | .newaxis :: rest, [] => (ItemsWF.dec rest [] : Decidable (ItemsWF rest []))
  | .newaxis :: rest, n :: shape => (ItemsWF.dec rest (n :: shape) : Decidable (ItemsWF rest (n :: shape)))
  | .int _ :: _, [] => isFalse (fun h => h)
  | .slice _ :: _, [] => isFalse (fun h => h)
  | .int i :: rest, n :: shape =>
      (@instDecidableAnd _ _ inferInstance (ItemsWF.dec rest shape) :
        Decidable ((Item.int i).WF n ∧ ItemsWF rest shape))
  | .slice s :: rest, n :: shape =>
      (@instDecidableAnd _ _ inferInstance (ItemsWF.dec rest shape) :
        Decidable ((Item.slice s).WF n ∧ ItemsWF rest shape))

instance (items : List Item) (shape : List Nat) : Decidable (ItemsWF items shape) := ItemsWF.dec items shape

/-- the pinned (pre-fix) `_positive_slice`: no guard for an empty slice; `int(gap / step)` truncates
    toward zero -/
def positiveSliceOrig (f : Filled) : Filled :=
  if f.step > 0 then f
  else
    let stop := f.stop.getD (-1)
    let gap := stop - f.start
    let q : Int := Int.tdiv gap f.step
    let k : Int := if gap % f.step = 0 then q - 1 else q
    ⟨f.start + k * f.step, some (f.start + 1), -f.step⟩

end Nb.C06
