import NibabelModel.Lemmas.C20_Load
/-! Lemmas/C20_Trunc — the second sort stage puts every position flagged full before every position
    flagged partial, so trimming to the number of full positions keeps exactly those. -/
namespace Nb.C20

theorem annLe_trans (a b d : Ann) : annLe a b = true → annLe b d = true → annLe a d = true := by
  unfold annLe
  cases a.notFull <;> cases b.notFull <;> cases d.notFull <;> simp <;> grind

theorem annLe_total (a b : Ann) : (annLe a b || annLe b a) = true := by
  unfold annLe
  cases a.notFull <;> cases b.notFull <;> simp <;> grind

/-- a list sorted by an order that never puts a non-`F` element before an `F` element is its `F`
    part followed by its non-`F` part -/
theorem sorted_bool_split {α : Type} (le : α → α → Bool) (F : α → Bool)
    (hF : ∀ a b, F a = false → F b = true → le a b = false) :
    ∀ l : List α, l.Pairwise (fun x y => le x y = true) → l = l.filter F ++ l.filter (fun x => !F x)
  | [], _ => rfl
  | a :: t, h => by
      rw [List.pairwise_cons] at h
      have ih := sorted_bool_split le F hF t h.2
      cases hfa : F a with
      | true =>
        simp only [List.filter_cons, hfa, if_true, Bool.not_true, Bool.false_eq_true, if_false,
          List.cons_append]
        rw [← ih]
      | false =>
        have hall : ∀ x ∈ t, F x = false := by
          intro x hx
          cases hfx : F x with
          | false => rfl
          | true => have := hF a x hfa hfx; rw [h.1 x hx] at this; cases this
        have h1 : t.filter F = [] := List.filter_eq_nil_iff.2 (fun x hx => by simp [hall x hx])
        have h2 : t.filter (fun x => !F x) = t := List.filter_eq_self.2 (fun x hx => by simp [hall x hx])
        simp [hfa, h1, h2]

/-- the full flag of a second-stage entry -/
def isFullEntry (x : Ann × Rec) : Bool := !x.1.notFull

theorem annLe_partial_full (a b : Ann × Rec) (ha : isFullEntry a = false) (hb : isFullEntry b = true) :
    annLe a.1 b.1 = false := by
  unfold isFullEntry at ha hb
  unfold annLe
  cases h1 : a.1.notFull <;> cases h2 : b.1.notFull <;> simp_all

/-- trimming the second-stage order to the number of full entries keeps exactly the full entries -/
theorem take_full_of_sorted (Z : List (Ann × Rec)) (n : Nat) (hn : n = (Z.filter isFullEntry).length) :
    ((stableSort (fun a b : Ann × Rec => annLe a.1 b.1) Z).take n).Perm (Z.filter isFullEntry) := by
  have hsorted := pairwise_stableSort (le := fun a b : Ann × Rec => annLe a.1 b.1)
    (fun a b d => annLe_trans a.1 b.1 d.1) (fun a b => annLe_total a.1 b.1) Z
  have hsplit := sorted_bool_split _ isFullEntry annLe_partial_full _ hsorted
  have hperm := (stableSort_perm (fun a b : Ann × Rec => annLe a.1 b.1) Z).filter isFullEntry
  generalize stableSort (fun a b : Ann × Rec => annLe a.1 b.1) Z = T at *
  rw [hsplit, List.take_left' (by rw [hn]; exact hperm.length_eq)]
  exact hperm

end Nb.C20
