import NibabelModel.Model.C08
/-! Lemmas/C08 — helper lemmas for the C08 theorems: byte codec round trip, reads from prefixes. -/
deriving instance DecidableEq for Except

namespace Nb.C08

/-! ### codec -/

theorem leN_length (w v : Nat) : (leN w v).length = w := by
  induction w generalizing v with
  | zero => rfl
  | succ w ih => simp [leN, ih]

theorem deLE_leN (w v : Nat) (h : v < 256 ^ w) : deLE (leN w v) = v := by
  induction w generalizing v with
  | zero => simp [leN, deLE]; omega
  | succ w ih =>
    simp only [leN, deLE]
    have : v / 256 < 256 ^ w := by
      rw [Nat.div_lt_iff_lt_mul (by decide)]; rw [Nat.pow_succ] at h; omega
    rw [ih _ this]; omega

theorem deLE_append_zeros (l : Bytes) (n : Nat) : deLE (l ++ List.replicate n 0) = deLE l := by
  induction l with
  | nil => induction n with
    | zero => rfl
    | succ n ih => simp [List.replicate_succ, deLE] at *; omega
  | cons a l ih => simp [deLE, ih]

/-! ### lists -/

theorem take_take_len {α} (l : List α) (m h : Nat) (hl : ((l.take m).take h).length = h) :
    (l.take m).take h = l.take h ∧ h ≤ m ∨ h = 0 := by
  by_cases h0 : h = 0
  · right; exact h0
  · left
    simp only [List.length_take] at hl
    have : h ≤ m := by omega
    refine ⟨?_, this⟩
    rw [List.take_take]; congr 1; omega

theorem drop_take_len {α} (l : List α) (m off n : Nat)
    (hl : (((l.take m).drop off).take n).length = n) (hn : 0 < n) :
    ((l.take m).drop off).take n = (l.drop off).take n ∧ off + n ≤ m := by
  simp only [List.length_take, List.length_drop] at hl
  have hm : off + n ≤ m := by omega
  refine ⟨?_, hm⟩
  rw [List.drop_take, List.take_take]; congr 1; omega

/-! ### Src.read -/

theorem read_ok {s : Src} {pos n : Nat} {b : Bytes} (h : s.read pos n = .ok b) :
    b = (s.bytes.drop pos).take n := by
  unfold Src.read at h
  split at h
  · cases h
  · cases h; rfl

theorem read_plain (b : Bytes) (pos n : Nat) : (Src.plain b).read pos n = .ok ((b.drop pos).take n) := by
  simp [Src.read, Src.plain]

end Nb.C08
