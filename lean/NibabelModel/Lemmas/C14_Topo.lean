import NibabelModel.Model.C14
/-! Lemmas/C14_Topo — lock topology of proxies derived from one another by sequences of `copy()`, `reshape()`
    and `copy.copy()`/unpickling (`proxyLocks`): prefix stability, "a copy() edge preserves the lock",
    "every proxy is copy-connected to the proxy whose construction made its lock".  Core tactics only. -/
namespace Nb.C14

theorem snoc_induction {α : Type} {P : List α → Prop} (h0 : P []) (hs : ∀ l a, P l → P (l ++ [a])) :
    ∀ l, P l := by
  have : ∀ r : List α, P r.reverse := by
    intro r
    induction r with
    | nil => simpa using h0
    | cons a r ih => rw [List.reverse_cons]; exact hs _ _ ih
  intro l
  have h := this l.reverse
  rwa [List.reverse_reverse] at h

theorem proxyLocks_snoc (h : Bool) (ops : List POp) (op : POp) :
    proxyLocks h (ops ++ [op]) = addProxy h (proxyLocks h ops) op := by
  simp [proxyLocks, List.foldl_append]

theorem addProxy_length (h : Bool) (locks : List Nat) (op : POp) :
    (addProxy h locks op).length = locks.length + 1 := by
  simp [addProxy]

theorem proxyLocks_length (h : Bool) (ops : List POp) : (proxyLocks h ops).length = ops.length + 1 := by
  induction ops using snoc_induction with
  | h0 => simp [proxyLocks]
  | hs l a ih => rw [proxyLocks_snoc, addProxy_length, ih]; simp

/-- prefix stability: deriving one more proxy does not change the lock of an existing proxy -/
theorem proxyLocks_getD_snoc (h : Bool) (ops : List POp) (op : POp) (i : Nat) (hi : i ≤ ops.length) :
    (proxyLocks h (ops ++ [op])).getD i 0 = (proxyLocks h ops).getD i 0 := by
  rw [proxyLocks_snoc]
  unfold addProxy
  have hl := proxyLocks_length h ops
  simp only [List.getD_eq_getElem?_getD]
  rw [List.getElem?_append_left (by omega)]

/-- the lock of the newest proxy -/
theorem proxyLocks_getD_new (h : Bool) (ops : List POp) (op : POp) :
    (proxyLocks h (ops ++ [op])).getD (ops.length + 1) 0 =
      (match op with
       | .copy s => copyLock h ((proxyLocks h ops).getD s 0) (ops.length + 1)
       | .reshape s => reshapeLock ((proxyLocks h ops).getD s 0) (ops.length + 1)
       | .setstate s => setstateLock ((proxyLocks h ops).getD s 0) (ops.length + 1)) := by
  rw [proxyLocks_snoc]
  unfold addProxy
  have hl := proxyLocks_length h ops
  simp only [List.getD_eq_getElem?_getD]
  rw [List.getElem?_append_right (by omega)]
  simp only [hl, Nat.sub_self, List.getElem?_cons_zero, Option.getD_some]
  cases op <;> simp [POp.src]

theorem validOps_snoc (ops : List POp) (op : POp) : ∀ n,
    validOps n (ops ++ [op]) = (validOps n ops && decide (op.src < n + ops.length)) := by
  induction ops with
  | nil => intro n; simp [validOps]
  | cons a r ih =>
    intro n
    simp only [List.cons_append, validOps, ih, List.length_cons]
    have : n + 1 + r.length = n + (r.length + 1) := by omega
    rw [this, Bool.and_assoc]

theorem validOps_src (ops : List POp) : ∀ n, validOps n ops = true → ∀ k op, ops[k]? = some op → op.src < n + k := by
  induction ops with
  | nil => intro n _ k op hk; simp at hk
  | cons a r ih =>
    intro n hv k op hk
    simp only [validOps, Bool.and_eq_true, decide_eq_true_eq] at hv
    cases k with
    | zero => simp at hk; subst hk; omega
    | succ k =>
      simp only [List.getElem?_cons_succ] at hk
      have := ih (n + 1) hv.2 k op hk
      omega

/-- every lock in use was created by one of the constructions -/
theorem proxyLocks_lt (h : Bool) (ops : List POp) : ∀ i, (proxyLocks h ops).getD i 0 < ops.length + 1 := by
  induction ops using snoc_induction with
  | h0 => intro i; cases i <;> simp [proxyLocks]
  | hs l a ih =>
    intro i
    by_cases hi : i ≤ l.length
    · rw [proxyLocks_getD_snoc h l a i hi]; have := ih i; rw [List.length_append]; simp only [List.length_cons, List.length_nil]; omega
    · by_cases hi2 : i = l.length + 1
      · subst hi2
        rw [proxyLocks_getD_new]
        rw [List.length_append]; simp only [List.length_cons, List.length_nil]
        cases a with
        | copy s => cases h <;> simp only [copyLock, if_true, if_false, Bool.false_eq_true] <;> (have := ih s; omega)
        | reshape s => simp only [reshapeLock]; omega
        | setstate s => simp only [setstateLock]; omega
      · have hl := proxyLocks_length h (l ++ [a])
        simp only [List.getD_eq_getElem?_getD]
        rw [List.getElem?_eq_none (by simp at hl ⊢; omega)]
        simp

/-- proxies connected by `copy()` edges (`ops[k] = copy s` links proxy `k+1` with proxy `s`) -/
inductive CopyConn (ops : List POp) : Nat → Nat → Prop
  | refl (i : Nat) : CopyConn ops i i
  | edge (k s : Nat) : ops[k]? = some (.copy s) → CopyConn ops (k + 1) s
  | symm {i j : Nat} : CopyConn ops i j → CopyConn ops j i
  | trans {i j k : Nat} : CopyConn ops i j → CopyConn ops j k → CopyConn ops i k

theorem CopyConn.mono {ops : List POp} {i j : Nat} (op : POp) (h : CopyConn ops i j) :
    CopyConn (ops ++ [op]) i j := by
  induction h with
  | refl i => exact .refl i
  | edge k s hk =>
    apply CopyConn.edge
    have hlt : k < ops.length := by
      by_cases hh : k < ops.length
      · exact hh
      · rw [List.getElem?_eq_none (by omega)] at hk; cases hk
    rw [List.getElem?_append_left hlt]; exact hk
  | symm _ ih => exact .symm ih
  | trans _ _ ih1 ih2 => exact .trans ih1 ih2

/-- over a shared handle a `copy()` edge preserves the lock -/
theorem edge_same_lock (ops : List POp) : validOps 1 ops = true → ∀ k s, ops[k]? = some (.copy s) →
    (proxyLocks true ops).getD (k + 1) 0 = (proxyLocks true ops).getD s 0 := by
  induction ops using snoc_induction with
  | h0 => intro _ k s hk; simp at hk
  | hs l a ih =>
    intro hv k s hk
    rw [validOps_snoc] at hv
    simp only [Bool.and_eq_true, decide_eq_true_eq] at hv
    by_cases hlt : k < l.length
    · rw [List.getElem?_append_left hlt] at hk
      have hs : s < 1 + k := by
        -- validity of the prefix gives s < 1 + k
        exact validOps_src l 1 hv.1 k (.copy s) hk
      rw [proxyLocks_getD_snoc true l a (k + 1) (by omega), proxyLocks_getD_snoc true l a s (by omega)]
      exact ih hv.1 k s hk
    · have hk2 : k = l.length := by
        by_cases hh : k = l.length
        · exact hh
        · rw [List.getElem?_eq_none (by simp; omega)] at hk; cases hk
      subst hk2
      rw [List.getElem?_append_right (by omega)] at hk
      simp at hk
      subst hk
      simp only [POp.src] at hv
      rw [proxyLocks_getD_new, proxyLocks_getD_snoc true l _ s (by omega)]
      simp [copyLock]

/-- over a shared handle every proxy is copy-connected to the proxy whose construction created the lock it
    uses (its lock NUMBER is that proxy's index) -/
theorem conn_to_lock (ops : List POp) : validOps 1 ops = true → ∀ i, i ≤ ops.length →
    CopyConn ops i ((proxyLocks true ops).getD i 0) := by
  induction ops using snoc_induction with
  | h0 => intro _ i hi; simp at hi; subst hi; simp [proxyLocks]; exact .refl 0
  | hs l a ih =>
    intro hv i hi
    rw [validOps_snoc] at hv
    simp only [Bool.and_eq_true, decide_eq_true_eq] at hv
    rw [List.length_append] at hi
    simp only [List.length_cons, List.length_nil] at hi
    by_cases hlt : i ≤ l.length
    · rw [proxyLocks_getD_snoc true l a i hlt]
      exact (ih hv.1 i hlt).mono a
    · have : i = l.length + 1 := by omega
      subst this
      rw [proxyLocks_getD_new]
      cases a with
      | copy s =>
        simp only [POp.src] at hv
        simp only [copyLock, if_true]
        refine .trans (.edge l.length s ?_) ((ih hv.1 s (by omega)).mono _)
        rw [List.getElem?_append_right (by omega)]; simp
      | reshape s => simp only [reshapeLock]; exact .refl _
      | setstate s => simp only [setstateLock]; exact .refl _

theorem lock_eq_of_conn (ops : List POp) (hv : validOps 1 ops = true) {i j : Nat} (h : CopyConn ops i j) :
    (proxyLocks true ops).getD i 0 = (proxyLocks true ops).getD j 0 := by
  induction h with
  | refl i => rfl
  | edge k s hk => exact edge_same_lock ops hv k s hk
  | symm _ ih => exact ih.symm
  | trans _ _ ih1 ih2 => exact ih1.trans ih2

/-- all-copy histories over a shared handle: every proxy uses lock 0 -/
theorem copy_only_lock_zero (ops : List POp) : (∀ op ∈ ops, ∃ s, op = .copy s) →
    ∀ i, (proxyLocks true ops).getD i 0 = 0 := by
  induction ops using snoc_induction with
  | h0 => intro _ i; cases i <;> simp [proxyLocks]
  | hs l a ih =>
    intro hall i
    have hl : ∀ op ∈ l, ∃ s, op = .copy s := fun op h => hall op (by simp [h])
    by_cases hi : i ≤ l.length
    · rw [proxyLocks_getD_snoc true l a i hi]; exact ih hl i
    · by_cases hi2 : i = l.length + 1
      · subst hi2
        obtain ⟨s, rfl⟩ := hall a (by simp)
        rw [proxyLocks_getD_new]
        simp only [copyLock, if_true]
        exact ih hl s
      · have hlen := proxyLocks_length true (l ++ [a])
        rw [List.length_append] at hlen
        simp only [List.length_cons, List.length_nil] at hlen
        rw [List.getD_eq_getElem?_getD, List.getElem?_eq_none (by omega)]
        rfl

/-- path proxies (no shared handle object): every proxy keeps the lock of its own construction -/
theorem path_locks_private (ops : List POp) : ∀ i, i ≤ ops.length → (proxyLocks false ops).getD i 0 = i := by
  induction ops using snoc_induction with
  | h0 => intro i hi; simp at hi; subst hi; simp [proxyLocks]
  | hs l a ih =>
    intro i hi
    rw [List.length_append] at hi
    simp only [List.length_cons, List.length_nil] at hi
    by_cases hlt : i ≤ l.length
    · rw [proxyLocks_getD_snoc false l a i hlt]; exact ih i hlt
    · have : i = l.length + 1 := by omega
      subst this
      rw [proxyLocks_getD_new]
      cases a <;> simp [copyLock, reshapeLock, setstateLock]

/-- prefix stability over any continuation of the history -/
theorem proxyLocks_getD_prefix (h : Bool) (a : List POp) (i : Nat) (hi : i ≤ a.length) :
    ∀ b, (proxyLocks h (a ++ b)).getD i 0 = (proxyLocks h a).getD i 0 := by
  intro b
  induction b using snoc_induction with
  | h0 => simp
  | hs l x ih =>
    rw [← List.append_assoc, proxyLocks_getD_snoc h (a ++ l) x i (by rw [List.length_append]; omega)]
    exact ih
end Nb.C14
