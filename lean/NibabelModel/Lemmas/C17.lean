import NibabelModel.Model.C17
/-! Lemmas/C17 — helper lemmas for Props/C17 (core Lean only).
    §1 filtering is characterised by "sublist + only p-elements + full multiplicity of p-elements"
    §2 the ORIGINAL iterate-while-removing loop on duplicate-free lists
    §3 parser: states that differ only in how pending character data is split behave identically
    §4 byte codec, C/F index order
    §5 predicates used in the statements of Props/C17: NoAdjacent, Codes.Distinct, CodecContract -/
namespace Nb.C17

/-- uniqueness of filtering: a sublist that contains only `p`-elements and every `p`-element with its full
    multiplicity is the filter -/
theorem sublist_eq_filter {α} [DecidableEq α] (p : α → Bool) :
    ∀ {r l : List α}, r.Sublist l → (∀ d ∈ r, p d = true) → (∀ d, p d = true → r.count d = l.count d) →
      r = l.filter p := by
  intro r l h
  induction h with
  | slnil => intros; rfl
  | @cons r l a h ih =>
    intro hp hc
    have hpa : p a = false := by
      cases hpa : p a with
      | false => rfl
      | true =>
        have := hc a hpa
        have hle := h.count_le a
        simp at this
        omega
    rw [List.filter_cons_of_neg (by simp [hpa])]
    apply ih hp
    intro d hd
    have := hc d hd
    have hne : a ≠ d := by intro e; subst e; simp [hd] at hpa
    simpa [List.count_cons, hne] using this
  | @cons_cons r l a h ih =>
    intro hp hc
    have hpa : p a = true := hp a (by simp)
    rw [List.filter_cons_of_pos hpa]
    congr 1
    apply ih (fun d hd => hp d (by simp [hd]))
    intro d hd
    have := hc d hd
    simp [List.count_cons] at this
    omega

theorem filter_spec {α} [DecidableEq α] (p : α → Bool) (l : List α) :
    (l.filter p).Sublist l ∧ (∀ d ∈ l.filter p, p d = true) ∧ (∀ d, p d = true → (l.filter p).count d = l.count d) := by
  refine ⟨List.filter_sublist, fun d hd => (List.mem_filter.1 hd).2, fun d hd => ?_⟩
  rw [List.count_filter] <;> simp [hd]

theorem origLoop_out_of_range {α} [BEq α] (p : α → Bool) (fuel : Nat) (l : List α) (i : Nat)
    (h : l.length ≤ i) : origLoop p fuel l i = l := by
  cases fuel with
  | zero => rfl
  | succ f => simp [origLoop, List.getElem?_eq_none h]

theorem origLoop_inv {α} [BEq α] [LawfulBEq α] (p : α → Bool) :
    ∀ (fuel : Nat) (kept rest : List α), (kept ++ rest).Nodup → rest.length < fuel →
      origLoop p fuel (kept ++ rest) kept.length = kept ++ skipAfterRemoval p rest := by
  intro fuel
  induction fuel with
  | zero => intro _ _ _ h; omega
  | succ f ih =>
    intro kept rest hnd hlen
    cases rest with
    | nil => simp [origLoop, skipAfterRemoval]
    | cons x xs =>
      have hget : (kept ++ x :: xs)[kept.length]? = some x := by simp
      rw [origLoop, hget]
      have hx : x ∉ kept := by
        intro hmem
        have := List.nodup_append.1 hnd
        exact this.2.2 x hmem x (by simp) rfl
      cases hp : p x with
      | true =>
        simp only []
        rw [List.erase_append_right _ hx, List.erase_cons_head]
        cases xs with
        | nil =>
          simp only [skipAfterRemoval, hp, if_true]
          rw [origLoop_out_of_range] <;> simp
        | cons y ys =>
          simp only [skipAfterRemoval, hp, if_true]
          have e1 : kept ++ y :: ys = (kept ++ [y]) ++ ys := by simp
          have e2 : kept.length + 1 = (kept ++ [y]).length := by simp
          rw [e1, e2, ih]
          · simp
          · have hs : ((kept ++ [y]) ++ ys).Sublist (kept ++ x :: y :: ys) := by
              simp only [List.append_assoc, List.singleton_append]
              exact List.Sublist.append_left (List.Sublist.cons _ (List.Sublist.refl _)) _
            exact hnd.sublist hs
          · simp at hlen ⊢; omega
      | false =>
        skip
        have e1 : kept ++ x :: xs = (kept ++ [x]) ++ xs := by simp
        have e2 : kept.length + 1 = (kept ++ [x]).length := by simp
        rw [e1, e2, ih]
        · conv => rhs; rw [skipAfterRemoval.eq_def]
          simp [hp]
        · rw [← e1]; exact hnd
        · simp at hlen ⊢; omega

/-- two parser states that differ only in HOW the pending character data is split into blocks -/
def Sim (a b : PState) : Prop :=
  { a with blocks := none } = { b with blocks := none } ∧ joined a = joined b

theorem Sim.refl (a : PState) : Sim a a := ⟨rfl, rfl⟩
theorem Sim.trans {a b c : PState} (h1 : Sim a b) (h2 : Sim b c) : Sim a c :=
  ⟨h1.1.trans h2.1, h1.2.trans h2.2⟩

theorem Sim.img {a b : PState} (h : Sim a b) : a.img = b.img :=
  congrArg (f := PState.img) (a₁ := { a with blocks := none }) (a₂ := { b with blocks := none }) h.1

theorem flush_sim (K : Codes) (X : Ext) {a b : PState} (h : Sim a b) : flush K X a = flush K X b := by
  unfold flush; rw [h.1, h.2]

theorem step_sim_start (K : Codes) (X : Ext) {a b : PState} (h : Sim a b) (n : String) (at_ : List (String × Text)) :
    step K X a (.start n at_) = step K X b (.start n at_) := by
  simp only [step, flush_sim K X h]

theorem step_sim_stop (K : Codes) (X : Ext) {a b : PState} (h : Sim a b) (n : String) :
    step K X a (.stop n) = step K X b (.stop n) := by
  simp only [step, flush_sim K X h]

theorem getD_flatten_of_joined {a b : PState} (h : joined a = joined b) :
    (a.blocks.getD []).flatten = (b.blocks.getD []).flatten := by
  unfold joined at h
  cases ha : a.blocks <;> cases hb : b.blocks <;> simp_all

theorem onChars_sim {a b : PState} (h : Sim a b) (c : Text) : Sim (onChars a c) (onChars b c) := by
  refine ⟨h.1, ?_⟩
  simp only [joined, onChars, Option.map_some, List.flatten_append, getD_flatten_of_joined h.2]

theorem onChars_merge (a : PState) (c1 c2 : Text) : Sim (onChars (onChars a c1) c2) (onChars a (c1 ++ c2)) := by
  refine ⟨rfl, ?_⟩
  simp [joined, onChars, List.flatten_append]

def imgOf : Except Err PState → Except Err (Option Img)
  | .ok st => .ok st.img
  | .error e => .error e

theorem run_eq (K : Codes) (X : Ext) (es : List Event) : run K X es = imgOf (runFrom K X {} es) := by
  unfold run imgOf; cases runFrom K X {} es <;> rfl

theorem runFrom_sim (K : Codes) (X : Ext) (es : List Event) :
    ∀ {a b : PState}, Sim a b → imgOf (runFrom K X a es) = imgOf (runFrom K X b es) := by
  induction es with
  | nil => intro a b h; simp [runFrom, imgOf, h.img]
  | cons e es ih =>
    intro a b h
    cases e with
    | chars c => simp only [runFrom, step]; exact ih (onChars_sim h c)
    | start n at_ => simp only [runFrom, step_sim_start K X h]
    | stop n => simp only [runFrom, step_sim_stop K X h]

theorem runFrom_merge (K : Codes) (X : Ext) (a : PState) (c1 c2 : Text) (es : List Event) :
    imgOf (runFrom K X a (.chars c1 :: .chars c2 :: es)) = imgOf (runFrom K X a (.chars (c1 ++ c2) :: es)) := by
  simp only [runFrom, step]
  exact runFrom_sim K X es (onChars_merge a c1 c2)

theorem runFrom_canon (K : Codes) (X : Ext) (es : List Event) :
    ∀ a : PState, imgOf (runFrom K X a es) = imgOf (runFrom K X a (canon es)) := by
  fun_induction canon es with
  | case1 c1 c2 rest ih =>
    intro a
    rw [runFrom_merge]; exact ih a
  | case2 e rest hne ih =>
    intro a
    simp only [runFrom]
    cases step K X a e with
    | ok st => exact ih st
    | error err => rfl
  | case3 => intro a; rfl

theorem runFrom_append (K : Codes) (X : Ext) (es1 es2 : List Event) :
    ∀ a : PState, runFrom K X a (es1 ++ es2) =
      match runFrom K X a es1 with
      | .ok st => runFrom K X st es2
      | .error e => .error e := by
  induction es1 with
  | nil => intro a; rfl
  | cons e es ih =>
    intro a
    simp only [List.cons_append, runFrom]
    cases step K X a e with
    | ok st => exact ih st
    | error err => rfl

theorem runFrom_chars (K : Codes) (X : Ext) (cs : List Text) :
    ∀ a : PState, runFrom K X a (cs.map .chars) = .ok (cs.foldl onChars a) := by
  induction cs with
  | nil => intro a; rfl
  | cons c cs ih => intro a; simp only [List.map_cons, runFrom, step, List.foldl_cons]; exact ih _

theorem foldl_onChars_sim (cs : List Text) :
    ∀ (a : PState) (c : Text), Sim (cs.foldl onChars (onChars a c)) (onChars a (c ++ cs.flatten)) := by
  induction cs with
  | nil => intro a c; simp; exact Sim.refl _
  | cons d ds ih =>
    intro a c
    simp only [List.foldl_cons, List.flatten_cons]
    exact (ih (onChars a c) d).trans (onChars_merge a c _)

/-! byte codec -/
theorem encLE_length (w v : Nat) : (encLE w v).length = w := by
  induction w generalizing v with
  | zero => rfl
  | succ w ih => simp [encLE, ih]

theorem decLE_encLE (w v : Nat) : decLE (encLE w v) = v % 256 ^ w := by
  induction w generalizing v with
  | zero => simp [encLE, decLE, Nat.mod_one]
  | succ w ih =>
    simp only [encLE, decLE, ih]
    rw [Nat.pow_succ, Nat.mul_comm (256 ^ w) 256, Nat.mod_mul]

theorem encLE_lt (w v : Nat) : ∀ b ∈ encLE w v, b < 256 := by
  induction w generalizing v with
  | zero => simp [encLE]
  | succ w ih =>
    intro b hb
    simp only [encLE, List.mem_cons] at hb
    rcases hb with rfl | hb
    · exact Nat.mod_lt _ (by decide)
    · exact ih _ b hb

theorem encElem_length (big : Bool) (w v : Nat) : (encElem big w v).length = w := by
  cases big <;> simp [encElem, encLE_length]

theorem encElem_lt (big : Bool) (w v : Nat) : ∀ b ∈ encElem big w v, b < 256 := by
  intro b hb
  cases big <;> simp [encElem] at hb <;> exact encLE_lt w v b hb

theorem decElem_encElem (big : Bool) (w v : Nat) (h : v < 256 ^ w) : decElem big (encElem big w v) = v := by
  cases big <;> simp [decElem, encElem, decLE_encLE, Nat.mod_eq_of_lt h]

theorem toBytes_length (big : Bool) (w : Nat) (vals : List Nat) : (toBytes big w vals).length = w * vals.length := by
  induction vals with
  | nil => simp [toBytes]
  | cons v vs ih =>
    simp only [toBytes, List.flatMap_cons, List.length_append, encElem_length, List.length_cons] at ih ⊢
    rw [ih, Nat.mul_succ, Nat.add_comm]

theorem toBytes_lt (big : Bool) (w : Nat) (vals : List Nat) : ∀ b ∈ toBytes big w vals, b < 256 := by
  intro b hb
  simp only [toBytes, List.mem_flatMap] at hb
  obtain ⟨v, _, hv⟩ := hb
  exact encElem_lt big w v b hv

theorem splitEvery_toBytes (big : Bool) (w : Nat) (vals : List Nat) :
    splitEvery w vals.length (toBytes big w vals) = vals.map (encElem big w) := by
  induction vals with
  | nil => rfl
  | cons v vs ih =>
    simp only [toBytes, List.flatMap_cons, List.length_cons, splitEvery, List.map_cons] at ih ⊢
    rw [List.take_left' (encElem_length big w v), List.drop_left' (encElem_length big w v), ih]

theorem fromBuffer_toBytes (big : Bool) (w : Nat) (hw : 0 < w) (vals : List Nat)
    (hv : ∀ v ∈ vals, v < 256 ^ w) : fromBuffer big w (toBytes big w vals) = .ok vals := by
  unfold fromBuffer
  rw [toBytes_length, Nat.mul_mod_right, Nat.mul_div_cancel_left _ hw, splitEvery_toBytes]
  have hw' : ¬ w = 0 := by omega
  simp only [hw', false_or, ne_eq, not_true_eq_false, if_false, List.map_map]
  congr 1
  conv => rhs; rw [← List.map_id vals]
  apply List.map_congr_left
  intro v hmem
  simp [decElem_encElem big w v (hv v hmem)]

/-! index order -/

/-- `idx` is a valid multi-index of `shape` -/
def InB : List Nat → List Nat → Prop
  | [], [] => True
  | n :: ns, i :: is => i < n ∧ InB ns is
  | _, _ => False

theorem unravelC_inB : ∀ (shape : List Nat) (k : Nat), k < prod shape → InB shape (unravelC shape k)
  | [], _, _ => trivial
  | n :: ns, k, h => by
    simp only [prod] at h
    have hp : 0 < prod ns := by
      rcases Nat.eq_zero_or_pos (prod ns) with h0 | h0
      · rw [h0] at h; omega
      · exact h0
    refine ⟨?_, unravelC_inB ns _ (Nat.mod_lt _ hp)⟩
    rw [Nat.mul_comm] at h
    exact Nat.div_lt_of_lt_mul h

theorem ravelC_unravelC : ∀ (shape : List Nat) (k : Nat), k < prod shape → ravelC shape (unravelC shape k) = k
  | [], k, h => by simp [prod] at h; simp [ravelC, h]
  | n :: ns, k, h => by
    simp only [prod] at h
    have hp : 0 < prod ns := by
      rcases Nat.eq_zero_or_pos (prod ns) with h0 | h0
      · rw [h0] at h; omega
      · exact h0
    simp only [unravelC, ravelC]
    rw [ravelC_unravelC ns _ (Nat.mod_lt _ hp), Nat.mul_comm]
    exact Nat.div_add_mod k (prod ns)

theorem ravelF_lt : ∀ (shape idx : List Nat), InB shape idx → ravelF shape idx < prod shape
  | [], [], _ => by simp [ravelF, prod]
  | n :: ns, i :: is, h => by
    obtain ⟨hi, hr⟩ := h
    have := ravelF_lt ns is hr
    simp only [ravelF, prod]
    calc i + n * ravelF ns is < n + n * ravelF ns is := by omega
      _ = n * (ravelF ns is + 1) := by rw [Nat.mul_succ, Nat.add_comm]
      _ ≤ n * prod ns := Nat.mul_le_mul_left _ this
  | [], _ :: _, h => by simp [InB] at h
  | _ :: _, [], h => by simp [InB] at h

theorem unravelF_ravelF : ∀ (shape idx : List Nat), InB shape idx → unravelF shape (ravelF shape idx) = idx
  | [], [], _ => rfl
  | n :: ns, i :: is, h => by
    obtain ⟨hi, hr⟩ := h
    have hn : 0 < n := by omega
    simp only [ravelF, unravelF]
    rw [Nat.add_mul_mod_self_left, Nat.mod_eq_of_lt hi, Nat.add_mul_div_left _ _ hn, Nat.div_eq_of_lt hi,
      Nat.zero_add, unravelF_ravelF ns is hr]
  | [], _ :: _, h => by simp [InB] at h
  | _ :: _, [], h => by simp [InB] at h

theorem fromOrder_toOrder (col : Bool) (shape elems : List Nat) (h : elems.length = prod shape) :
    fromOrder col shape (toOrder col shape elems) = elems := by
  cases col with
  | false => rfl
  | true =>
    simp only [fromOrder, toOrder, if_true]
    apply List.ext_getElem?
    intro j
    by_cases hj : j < prod shape
    · have hb := unravelC_inB shape j hj
      have hlt := ravelF_lt shape _ hb
      rw [List.getElem?_map, List.getElem?_range hj]
      simp only [Option.map_some, List.getD_eq_getElem?_getD, List.getElem?_map, List.getElem?_range hlt,
        unravelF_ravelF shape _ hb, ravelC_unravelC shape j hj, Option.getD_some]
      have : j < elems.length := by omega
      simp [List.getElem?_eq_getElem this]
    · have h1 : elems.length ≤ j := by omega
      rw [List.getElem?_eq_none (by simpa using (by omega : prod shape ≤ j)), List.getElem?_eq_none h1]

theorem toOrder_length (col : Bool) (shape elems : List Nat) (h : elems.length = prod shape) :
    (toOrder col shape elems).length = prod shape := by
  cases col <;> simp [toOrder, h]

theorem toOrder_mem_lt (col : Bool) (shape elems : List Nat) (B : Nat) (hB : 0 < B) (h : ∀ v ∈ elems, v < B) :
    ∀ v ∈ toOrder col shape elems, v < B := by
  cases col with
  | false => simpa [toOrder] using h
  | true =>
    intro v hv
    simp only [toOrder, if_true, List.mem_map] at hv
    obtain ⟨k, _, rfl⟩ := hv
    rw [List.getD_eq_getElem?_getD]
    cases hg : elems[ravelC shape (unravelF shape k)]? with
    | none => simpa using hB
    | some x => exact h x (List.mem_of_getElem? hg)

/-! §5 predicates used in theorem statements -/

/-- no two adjacent elements both satisfy `p` -/
def NoAdjacent {α} (p : α → Bool) : List α → Prop
  | x :: y :: rest => ¬(p x = true ∧ p y = true) ∧ NoAdjacent p (y :: rest)
  | _ => True

theorem skip_eq_filter_iff {α} (p : α → Bool) (l : List α) :
    skipAfterRemoval p l = l.filter (fun x => !p x) ↔ NoAdjacent p l := by
  fun_induction skipAfterRemoval p l with
  | case1 => simp [NoAdjacent]
  | case2 x hp => simp [NoAdjacent, hp]
  | case3 x hp y ys ih =>
    cases hy : p y with
    | true =>
      simp only [NoAdjacent, hp, hy, and_self, not_true_eq_false, false_and, iff_false]
      intro h
      have hm : y ∈ List.filter (fun x => !p x) (x :: y :: ys) := by rw [← h]; simp
      have := (List.mem_filter.1 hm).2
      simp [hy] at this
    | false =>
      have e : NoAdjacent p (x :: y :: ys) ↔ NoAdjacent p ys := by
        cases ys with
        | nil => simp [NoAdjacent, hy]
        | cons z zs => simp [NoAdjacent, hy]
      rw [e, ← ih]
      simp [List.filter_cons, hp, hy]
  | case4 x xs hp ih =>
    have hp : p x = false := by simpa using hp
    have e : NoAdjacent p (x :: xs) ↔ NoAdjacent p xs := by
      cases xs with
      | nil => simp [NoAdjacent]
      | cons z zs => simp [NoAdjacent, hp]
    rw [e, ← ih]
    simp [List.filter_cons, hp]

/-- the facts about the code tables the round trip needs (decidable; instantiated for the REGENERATED tables in
    `codes_pinned`) -/
structure Codes.Distinct (K : Codes) : Prop where
  a_b : K.encAscii ≠ K.encB64
  a_g : K.encAscii ≠ K.encGz
  b_g : K.encB64 ≠ K.encGz
  e_b : K.encExt ≠ K.encB64
  e_g : K.encExt ≠ K.encGz
  end_ : K.endBig ≠ K.endLittle
  ord : K.ordCol ≠ K.ordRow

/-- contract of the external codecs: decode ∘ encode = id on byte strings; compress yields bytes -/
structure CodecContract (X : Ext) (b64enc : List Nat → Text) (deflate : List Nat → List Nat) : Prop where
  b64 : ∀ b : List Nat, (∀ x ∈ b, x < 256) → X.b64dec (b64enc b) = some b
  zlib : ∀ b : List Nat, (∀ x ∈ b, x < 256) → X.inflate (deflate b) = some b
  zbytes : ∀ b : List Nat, (∀ x ∈ b, x < 256) → ∀ x ∈ deflate b, x < 256

end Nb.C17
