import NibabelModel.Lemmas.C03_Ecat
/-! Lemmas/C03_EcatMain — assembling `ecat_frames` from the lemmas of C03_Ecat. -/
namespace Nb.C03
open Nb Nb.C06

theorem realCount_cons_real {it : Item} (h : it ≠ Item.newaxis) (r : List Item) :
    realCount (it :: r) = realCount r + 1 := by
  cases it with
  | int i => simp
  | slice s => simp
  | newaxis => exact absurd rfl h

theorem pyIntIndex_nonneg {n : Nat} {i : Int} {k : Nat} (h : pyIntIndex n i = some k) (h0 : 0 ≤ i) :
    (0 ≤ i ∧ i < n) ∧ k = i.toNat := by
  unfold pyIntIndex at h
  split at h
  · rename_i hh; simp at h; exact ⟨hh, h.symm⟩
  · split at h
    · rename_i hh; omega
    · simp at h

theorem fill_all (L m V : Nat) (G : List Nat) (frames : List Nat) (hm : frames.length = m) (buf : List (Option Nat)) :
    fill L m V G 0 frames buf =
      ((List.range (L * m)).map (fun p => G.getD (p % L) 0 + V * frames.getD (p / L) 0)).map some := by
  simp only [fill, List.map_map]
  apply List.map_congr_left
  intro p hp
  have hpN : p < L * m := by simpa using hp
  have hL : 0 < L := by
    rcases Nat.eq_zero_or_pos L with h0 | h0
    · rw [h0] at hpN; omega
    · exact h0
  have hj : p / L < m := (Nat.div_lt_iff_lt_mul hL).mpr (by rw [Nat.mul_comm]; exact hpN)
  simp only [Function.comp_def, Nat.zero_add, Nat.sub_zero]
  rw [if_pos ⟨Nat.zero_le _, by omega⟩]

/-- THE FRAME LOOP: whenever NumPy indexing of the stacked `(x, y, z, T)` array succeeds with
    selectors `sels`, `EcatImageArrayProxy.__getitem__` returns the same shape and, element for
    element, the same stacked-array elements; every element of the `np.empty` buffer is written. -/
theorem ecat_frames_sels (shape3 : List Nat) (T : Nat) (idx : List IdxItem) (items : List Item) (sels : List Sel)
    (hc : canonicalSlicers idx (shape3 ++ [T]) = .ok items)
    (hv : ∀ s, IdxItem.slice s ∈ idx → s.Valid)
    (hs : itemsSels items (shape3 ++ [T]) = .ok sels) :
    ecatGetitem shape3 T idx =
      .ok (outShape sels, (gatherF (realSels sels) (shape3 ++ [T])).map some) := by
  have hrc : realCount items = shape3.length + 1 := by
    rw [canonLoop_realCount true idx _ items hc]; simp
  obtain ⟨pre, it, post, hsplit, hitems, hpre, hit⟩ := splitReal_spec shape3.length items (by omega)
  have hpost0 : realCount post = 0 := by
    rw [hitems, realCount_append, realCount_cons_real hit, hpre] at hrc; omega
  have hpost := all_newaxis_of_realCount_zero post hpost0
  generalize post.length = c at hpost
  subst hpost
  -- selectors of the pieces
  have hsplit4 := itemsSels_append pre shape3 (it :: List.replicate c Item.newaxis) [T] hpre
  rw [← hitems, hs] at hsplit4
  cases hpa : itemsSels pre shape3 with
  | error e => rw [hpa] at hsplit4; simp [Except.bind] at hsplit4
  | ok a =>
  rw [hpa] at hsplit4
  simp only [Except.bind] at hsplit4
  cases hpb : itemsSels (it :: List.replicate c Item.newaxis) [T] with
  | error e => rw [hpb] at hsplit4; simp at hsplit4
  | ok b =>
  rw [hpb] at hsplit4
  simp only [Except.ok.injEq] at hsplit4
  -- the in_slicer selectors
  have hin : itemsSels (pre ++ List.replicate c Item.newaxis) shape3 = .ok (a ++ List.replicate c Sel.new) := by
    have := itemsSels_append pre shape3 (List.replicate c Item.newaxis) [] hpre
    rw [List.append_nil, hpa, itemsSels_newaxes] at this
    exact this
  have hgs := gather_size pre shape3 a hpa hpre
  have hvi : ∀ s, Item.slice s ∈ items → s.Valid := canonical_slice_valid hc hv
  have hnews : realSels (List.replicate c Sel.new) = [] := realSels_news c
  unfold ecatGetitem ecatGetitemWith
  simp only [hc, bind, Except.bind, hsplit, hin, pure, Except.pure, indexFn, outShape_append, outShape_news,
    realSels_append, realSels_news, List.append_nil]
  cases it with
  | newaxis => exact absurd rfl hit
  | int i =>
      obtain ⟨k, r, hk, hr, hb⟩ := itemsSels_cons_int hpb
      rw [itemsSels_newaxes] at hr
      simp only [Except.ok.injEq] at hr
      subst hr
      have hi0 : 0 ≤ i := canonical_int_nonneg hc i (by rw [hitems]; simp)
      obtain ⟨hrange, hkk⟩ := pyIntIndex_nonneg hk hi0
      simp only [hrange, and_self, if_true]
      have hrs : realSels sels = realSels a ++ [[k]] := by
        rw [hsplit4, hb, realSels_append]
        congr 1
        simp only [realSels]
        rw [List.filter_cons_of_pos (by simp)]
        have := hnews
        simp only [realSels] at this
        simp [this, Sel.list]
      have hos : outShape sels = outShape a ++ List.replicate c 1 := by
        rw [hsplit4, hb, outShape_append]; simp [outShape, outShape_news]
      have hfe : frameElem shape3 i.toNat = (· + shape3.prod * i.toNat) := rfl
      rw [hos, hrs, gatherF_snoc _ _ _ _ hgs.2, hkk, hfe]
      simp
  | slice s =>
      obtain ⟨r, hr, hb⟩ := itemsSels_cons_slice hpb
      rw [itemsSels_newaxes] at hr
      simp only [Except.ok.injEq] at hr
      subst hr
      have hps := predictShape_eq items (shape3 ++ [T]) sels hs hvi
      have hos : outShape sels = outShape a ++ (s.sel T).length :: List.replicate c 1 := by
        rw [hsplit4, hb, outShape_append]; simp [outShape, outShape_news]
      simp only [hps, hos]
      have hk : nonIntCount pre = (outShape a).length := (outShape_length pre shape3 a hpa).symm
      have hfe : ∀ i, frameElem shape3 i = (· + shape3.prod * i) := fun i => rfl
      simp only [hk, hfe]
      rw [ecatLoop_fill (outShape a) (s.sel T).length c shape3.prod (gatherF (realSels a) shape3) hgs.1
        (fun i => .ok ⟨outShape a ++ List.replicate c 1,
          (gatherF (realSels a) shape3).map (· + shape3.prod * i)⟩) (fun i => rfl) (s.sel T) 0 _
        (by simp [prod_append_nat, prod_ones]) (by omega)]
      simp only [Except.ok.injEq, Prod.mk.injEq, true_and]
      rw [fill_all _ _ _ _ _ rfl]
      have hrs : realSels sels = realSels a ++ [s.sel T] := by
        rw [hsplit4, hb, realSels_append]
        congr 1
        simp only [realSels]
        rw [List.filter_cons_of_pos (by simp)]
        have := hnews
        simp only [realSels] at this
        simp [this, Sel.list]
      rw [hrs, gatherF_snoc _ _ _ _ hgs.2, flatMap_blocks, hgs.1]

/-! ### NumPy indexing stays inside the array -/

theorem pyIntIndex_lt {n : Nat} {i : Int} {k : Nat} (h : pyIntIndex n i = some k) : k < n := by
  unfold pyIntIndex at h
  split at h
  · simp at h; omega
  · split at h
    · simp at h; omega
    · simp at h

theorem gather_step_lt {n P : Nat} {l : List Nat} {G : List Nat} (hl : ∀ i ∈ l, i < n) (hG : ∀ r ∈ G, r < P) :
    ∀ q ∈ G.flatMap (fun r => l.map (fun i => i + n * r)), q < n * P := by
  intro q hq
  simp only [List.mem_flatMap, List.mem_map] at hq
  obtain ⟨r, hr, i, hi, rfl⟩ := hq
  have h1 := hl i hi
  have h2 := hG r hr
  have : n * (r + 1) ≤ n * P := Nat.mul_le_mul_left n h2
  rw [Nat.mul_succ] at this
  omega

theorem gather_lt : ∀ (items : List Item) (shape : List Nat) (sels : List Sel),
    itemsSels items shape = .ok sels → realCount items = shape.length →
    (∀ s, Item.slice s ∈ items → s.Valid) →
    ∀ q ∈ gatherF (realSels sels) shape, q < shape.prod
  | [], [], sels, h, _, _ => by
      simp only [itemsSels, Except.ok.injEq] at h; subst h; simp [realSels, gatherF]
  | [], _ :: _, _, _, hc, _ => by simp at hc
  | .newaxis :: rest, shape, sels, h, hc, hv => by
      obtain ⟨r, hr, rfl⟩ := itemsSels_cons_newaxis h
      have : realSels (Sel.new :: r) = realSels r := by
        simp only [realSels]; rw [List.filter_cons_of_neg (by simp)]
      rw [this]
      exact gather_lt rest shape r hr (by simpa using hc) (fun s hs => hv s (by simp [hs]))
  | .int i :: rest, [], sels, h, _, _ => by simp [itemsSels] at h
  | .slice s :: rest, [], sels, h, _, _ => by simp [itemsSels] at h
  | .int i :: rest, n :: shape, sels, h, hc, hv => by
      obtain ⟨k, r, hk, hr, rfl⟩ := itemsSels_cons_int h
      have ih := gather_lt rest shape r hr (by simpa using hc) (fun s hs => hv s (by simp [hs]))
      have : realSels (Sel.one k :: r) = [k] :: realSels r := by
        simp only [realSels]; rw [List.filter_cons_of_pos (by simp)]; rfl
      rw [this, List.prod_cons]
      simp only [gatherF]
      exact gather_step_lt (by intro j hj; simp at hj; subst hj; exact pyIntIndex_lt hk) ih
  | .slice s :: rest, n :: shape, sels, h, hc, hv => by
      obtain ⟨r, hr, rfl⟩ := itemsSels_cons_slice h
      have ih := gather_lt rest shape r hr (by simpa using hc) (fun s hs => hv s (by simp [hs]))
      have : realSels (Sel.many (s.sel n) :: r) = s.sel n :: realSels r := by
        simp only [realSels]; rw [List.filter_cons_of_pos (by simp)]; rfl
      rw [this, List.prod_cons]
      simp only [gatherF]
      exact gather_step_lt (PySlice.sel_lt s n (hv s (by simp))) ih

/-- every element number NumPy indexing selects lies inside the array (F order) -/
theorem npIndex_lt_F (idx : List IdxItem) (shape : List Nat) (r : List Nat × List Nat)
    (hv : ∀ s, IdxItem.slice s ∈ idx → s.Valid) (h : npIndex idx shape .F = .ok r) :
    ∀ q ∈ r.2, q < shape.prod := by
  unfold npIndex at h
  cases hc : canonicalSlicers idx shape with
  | error e => simp [hc, bind, Except.bind] at h
  | ok items =>
      simp only [hc, bind, Except.bind, orient] at h
      cases hs : itemsSels items shape with
      | error e => simp [hs] at h
      | ok sels =>
          simp only [hs, pure, Except.pure, Except.ok.injEq] at h
          subst h
          exact gather_lt items shape sels hs (canonLoop_realCount true idx shape items hc)
            (canonical_slice_valid hc hv)

end Nb.C03
