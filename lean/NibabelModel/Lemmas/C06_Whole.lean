import NibabelModel.Lemmas.C06_Gather
/-! Lemmas/C06_Whole — `optimize_read_slicers` + post slicing compose to NumPy indexing (stage C). -/
namespace Nb.C06
open Nb Nb.PySlice

/-! ### equation lemmas (the auto-generated ones fail on overlapping patterns) -/

theorem optimizeLoop_cons (h : Heuristic) (it : Item) (rest : List Item) (n : Nat) (shape : List Nat)
    (stride : Nat) (allFull : Bool) (hn : it ≠ .newaxis) :
    optimizeLoop h (it :: rest) (n :: shape) stride allFull = (do
      let (r, p) ← optimizeSlicer h it n allFull shape.isEmpty stride
      let (rs, ps) ← optimizeLoop h rest shape (stride * n) (allFull && r.isFull)
      pure (r :: rs, if r.isInt then ps else p :: ps)) := by
  cases it <;> first | exact absurd rfl hn | rfl

theorem optimizeLoop_newaxis (h : Heuristic) (rest : List Item) (shape : List Nat)
    (stride : Nat) (allFull : Bool) :
    optimizeLoop h (.newaxis :: rest) shape stride allFull = (do
      let (rs, ps) ← optimizeLoop h rest shape stride allFull
      pure (ReadItem.newaxis :: rs, PostItem.slice pySliceNone :: ps)) := by
  cases shape <;> rfl

theorem itemsSels_cons (it : Item) (rest : List Item) (n : Nat) (shape : List Nat) (hn : it ≠ .newaxis) :
    itemsSels (it :: rest) (n :: shape) = (do
      let s ← itemSel n it
      let r ← itemsSels rest shape
      pure (s :: r)) := by
  cases it <;> first | exact absurd rfl hn | rfl

theorem itemsSels_newaxis (rest : List Item) (shape : List Nat) :
    itemsSels (.newaxis :: rest) shape = (do
      let r ← itemsSels rest shape
      pure (Sel.new :: r)) := by
  cases shape <;> rfl

theorem postSels_cons (p : PostItem) (ps : List PostItem) (n : Nat) (ns : List Nat) :
    postSels (p :: ps) (n :: ns) = (do
      let s ← postSel n p
      let r ← postSels ps ns
      pure (s :: r)) := rfl

theorem readLists_cons (r : ReadItem) (rest : List ReadItem) (n : Nat) (shape : List Nat)
    (hn : r ≠ .newaxis) : readLists (r :: rest) (n :: shape) = r.selNat n :: readLists rest shape := by
  cases r <;> first | exact absurd rfl hn | rfl

theorem readLists_newaxis (rest : List ReadItem) (shape : List Nat) :
    readLists (.newaxis :: rest) shape = readLists rest shape := by
  cases shape <;> rfl

theorem readShape_cons (r : ReadItem) (rest : List ReadItem) (n : Nat) (shape : List Nat)
    (hc : r.Canon n) :
    readShape (r :: rest) (n :: shape)
      = if r.isInt then readShape rest shape else (r.selNat n).length :: readShape rest shape := by
  cases r with
  | int i => rfl
  | newaxis => exact absurd hc (by simp [ReadItem.Canon])
  | full =>
    have := slice2len_spec' pySliceNone n pySliceNone_valid
    rw [readShape_full, selNat_eq_sel hc rfl, this]; rfl
  | slice a b c =>
    have := slice2len_spec' _ n (canon_toPy_valid hc rfl)
    rw [readShape_slice, selNat_eq_sel hc rfl]
    show slice2len (ReadItem.slice a b c).toPy n :: _ = _
    rw [this]; rfl

/-! ### one axis: the post item, read positions and NumPy selection fit together -/

/-- post selection `psel` (into the read positions `l`) yields exactly the target selection -/
def Compose (l : List Nat) (psel tgt : Sel) : Prop :=
  psel ≠ .new ∧ tgt ≠ .new ∧ psel.list.map (l[·]?) = tgt.list.map some ∧ outShape [psel] = outShape [tgt]

theorem postSel_of_applyPost (p : PostItem) (l : List Nat) (tgt : Sel) (hv : p.Valid)
    (hnd : p ≠ .dropped) (h : applyPost p l = some tgt) :
    ∃ psel, postSel l.length p = .ok psel ∧ Compose l psel tgt := by
  cases p with
  | dropped => exact absurd rfl hnd
  | int k =>
    simp only [applyPost] at h
    cases hk : pyIntIndex l.length k with
    | none => rw [hk] at h; simp at h
    | some j =>
      rw [hk] at h
      simp only [Option.bind_some] at h
      cases hj : l[j]? with
      | none => rw [hj] at h; simp at h
      | some t =>
        rw [hj] at h
        simp only [Option.map_some, Option.some.injEq] at h
        subst h
        refine ⟨.one j, by simp [postSel, hk], by simp, by simp, ?_, rfl⟩
        simp [Sel.list, hj]
  | slice s =>
    simp only [applyPost, Option.some.injEq] at h
    subst h
    refine ⟨.many (s.sel l.length), rfl, by simp, by simp, ?_, ?_⟩
    · simp only [Sel.list, PySlice.apply]
      apply map_eq_map_some_of_filterMap
      intro i hi
      have := sel_lt s l.length hv i hi
      simp [this]
    · have : (s.apply l).length = (s.sel l.length).length := by
        have h1 := map_eq_map_some_of_filterMap (fun i => l[i]?) (s.sel l.length) (by
          intro i hi
          have := sel_lt s l.length hv i hi
          simp [this])
        have h2 := congrArg List.length h1
        simp only [List.length_map] at h2
        exact h2.symm
      simp [outShape, this]

theorem outShape_cons (s : Sel) (rest : List Sel) : outShape (s :: rest) = outShape [s] ++ outShape rest := by
  cases s <;> rfl

theorem realSels_cons (s : Sel) (rest : List Sel) (hs : s ≠ .new) :
    realSels (s :: rest) = s.list :: realSels rest := by
  cases s <;> first | exact absurd rfl hs | rfl

theorem itemSel_of_wf {n : Nat} {it : Item} (h : it.WF n) : itemSel n it = .ok (it.target n) := by
  cases it with
  | newaxis => exact h.elim
  | slice s => rfl
  | int i =>
    obtain ⟨h0, h1⟩ : 0 ≤ i ∧ i < n := h
    simp [itemSel, pyIntIndex, h0, h1, Item.target]

theorem target_ne_new {n : Nat} {it : Item} (h : it.WF n) : it.target n ≠ .new := by
  cases it <;> first | exact h.elim | simp [Item.target]

theorem realSels_new (rest : List Sel) : realSels (Sel.new :: rest) = realSels rest := rfl

theorem itemsWF_newaxis (rest : List Item) (shape : List Nat) :
    ItemsWF (.newaxis :: rest) shape = ItemsWF rest shape := by
  cases shape <;> rfl

theorem itemsWF_cons (it : Item) (rest : List Item) (n : Nat) (shape : List Nat) (hn : it ≠ .newaxis) :
    ItemsWF (it :: rest) (n :: shape) = (it.WF n ∧ ItemsWF rest shape) := by
  cases it <;> first | exact absurd rfl hn | rfl

theorem sel_none_one : pySliceNone.sel 1 = [0] := by rw [pySliceNone, sel_none]; rfl

/-- what the optimiser + post slicing achieve on a list of canonical items -/
def LoopOK (h : Heuristic) (items : List Item) (shape : List Nat) (stride : Nat) (allFull : Bool) : Prop :=
  ∃ rs ps sels psels, optimizeLoop h items shape stride allFull = .ok (rs, ps) ∧
    itemsSels items shape = .ok sels ∧ ReadCanon rs shape ∧
    postSels ps (readShape rs shape) = .ok psels ∧ outShape psels = outShape sels ∧
    (gatherF (realSels psels) (readShape rs shape)).map ((gatherF (readLists rs shape) shape)[·]?)
      = (gatherF (realSels sels) shape).map some

theorem loopOK_step (h : Heuristic) (hh : ∀ i n st, h (.int i) n st ≠ .contiguous)
    (it : Item) (rest : List Item) (n : Nat) (shape : List Nat) (stride : Nat) (allFull : Bool)
    (hw : it.WF n) (ih : ∀ stride' allFull', LoopOK h rest shape stride' allFull') :
    LoopOK h (it :: rest) (n :: shape) stride allFull := by
  have hn : it ≠ .newaxis := by intro e; subst e; exact hw.elim
  cases hres : optimizeSlicer h it n allFull shape.isEmpty stride with
  | error e =>
    obtain ⟨_, i0, rfl, _, hc⟩ := (optimizeSlicer_error_iff' h it n allFull shape.isEmpty stride e).mp hres
    exact absurd hc (hh _ _ _)
  | ok rp =>
    obtain ⟨r, p⟩ := rp
    have hs := optimizeSlicer_axisSound h it n hw allFull shape.isEmpty stride r p hres
    obtain ⟨rs, ps, sels, psels, h1, h2, h3, h4, h5, h6⟩ := ih (stride * n) (allFull && r.isFull)
    have hrn : r ≠ .newaxis := by intro e; subst e; exact absurd hs.canon (by simp [ReadItem.Canon])
    have hsel : itemsSels (it :: rest) (n :: shape) = .ok (it.target n :: sels) := by
      rw [itemsSels_cons _ _ _ _ hn, itemSel_of_wf hw, h2]; rfl
    have htn := target_ne_new hw
    cases hri : r.isInt with
    | true =>
      have hpd : p = .dropped := hs.dropped_iff.mpr hri
      obtain ⟨x, hx⟩ : ∃ x, r.selNat n = [x] := by
        cases r <;> first | exact ⟨_, rfl⟩ | simp [ReadItem.isInt] at hri
      have htgt : it.target n = .one x := by
        have := hs.post
        rw [hpd, hx] at this
        simp only [applyPost, Option.some.injEq] at this
        exact this.symm
      refine ⟨r :: rs, ps, it.target n :: sels, psels, ?_, hsel, ?_, ?_, ?_, ?_⟩
      · rw [optimizeLoop_cons _ _ _ _ _ _ _ hn, hres]
        simp only [bind, Except.bind]
        rw [h1]
        simp [hri, pure, Except.pure]
      · rw [readCanon_cons _ _ _ _ hrn]; exact ⟨hs.canon, h3⟩
      · rw [readShape_cons _ _ _ _ hs.canon, hri]; exact h4
      · rw [htgt]; exact h5
      · rw [readShape_cons _ _ _ _ hs.canon, hri, readLists_cons _ _ _ _ hrn, htgt,
          realSels_cons _ _ (by simp), hx]
        simp only [if_true, Sel.list]
        rw [← gatherF_unit (realSels psels) (readShape rs shape)]
        exact gather_step [x] n _ shape [0] [x] _ _ _ (by simp) h6
    | false =>
      have hnd : p ≠ .dropped := by
        intro e; have := hs.dropped_iff.mp e; rw [hri] at this; cases this
      obtain ⟨psel, hps, hc1, hc2, hc3, hc4⟩ :=
        postSel_of_applyPost p (r.selNat n) (it.target n) hs.pvalid hnd hs.post
      refine ⟨r :: rs, p :: ps, it.target n :: sels, psel :: psels, ?_, hsel, ?_, ?_, ?_, ?_⟩
      · rw [optimizeLoop_cons _ _ _ _ _ _ _ hn, hres]
        simp only [bind, Except.bind]
        rw [h1]
        simp [hri, pure, Except.pure]
      · rw [readCanon_cons _ _ _ _ hrn]; exact ⟨hs.canon, h3⟩
      · rw [readShape_cons _ _ _ _ hs.canon, hri]
        simp only [Bool.false_eq_true, if_false]
        rw [postSels_cons, hps, h4]; rfl
      · rw [outShape_cons, outShape_cons (it.target n), hc4, h5]
      · rw [readShape_cons _ _ _ _ hs.canon, hri, readLists_cons _ _ _ _ hrn,
          realSels_cons _ _ hc1, realSels_cons _ _ htn]
        simp only [Bool.false_eq_true, if_false]
        exact gather_step (r.selNat n) n _ shape psel.list (it.target n).list _ _ _ hc3 h6

theorem loopOK_newaxis (h : Heuristic) (rest : List Item) (shape : List Nat) (stride : Nat)
    (allFull : Bool) (ih : LoopOK h rest shape stride allFull) :
    LoopOK h (.newaxis :: rest) shape stride allFull := by
  obtain ⟨rs, ps, sels, psels, h1, h2, h3, h4, h5, h6⟩ := ih
  refine ⟨.newaxis :: rs, .slice pySliceNone :: ps, .new :: sels, .many [0] :: psels, ?_, ?_, ?_, ?_, ?_, ?_⟩
  · rw [optimizeLoop_newaxis, h1]; rfl
  · rw [itemsSels_newaxis, h2]; rfl
  · rw [readCanon_newaxis]; exact h3
  · rw [readShape_newaxis, postSels_cons, h4]
    simp only [postSel, sel_none_one]; rfl
  · simp only [outShape, h5, List.length_singleton]
  · rw [readShape_newaxis, readLists_newaxis, realSels_new, realSels_cons _ _ (by simp)]
    simp only [Sel.list]
    rw [gatherF_unit]; exact h6

theorem loopOK (h : Heuristic) (hh : ∀ i n st, h (.int i) n st ≠ .contiguous) :
    ∀ (items : List Item) (shape : List Nat) (stride : Nat) (allFull : Bool),
      ItemsWF items shape → LoopOK h items shape stride allFull
  | [], [], _, _, _ => ⟨[], [], [], [], rfl, rfl, trivial, rfl, rfl, by
      simp [gatherF, realSels, readLists, readShape_nil]⟩
  | [], _ :: _, _, _, hw => hw.elim
  | .newaxis :: rest, shape, stride, allFull, hw =>
      loopOK_newaxis h rest shape stride allFull
        (loopOK h hh rest shape stride allFull (by rw [itemsWF_newaxis] at hw; exact hw))
  | .int _ :: _, [], _, _, hw => hw.elim
  | .slice _ :: _, [], _, _, hw => hw.elim
  | .int i :: rest, n :: shape, stride, allFull, hw =>
      loopOK_step h hh (.int i) rest n shape stride allFull hw.1
        (fun s a => loopOK h hh rest shape s a hw.2)
  | .slice s :: rest, n :: shape, stride, allFull, hw =>
      loopOK_step h hh (.slice s) rest n shape stride allFull hw.1
        (fun s' a => loopOK h hh rest shape s' a hw.2)

/-! ### the read items `optimize_read_slicers` produces are canonical (no assumption on the heuristic) -/

theorem optimizeLoop_readCanon (h : Heuristic) :
    ∀ (items : List Item) (shape : List Nat) (stride : Nat) (allFull : Bool) (rs : List ReadItem)
      (ps : List PostItem), ItemsWF items shape →
      optimizeLoop h items shape stride allFull = .ok (rs, ps) → ReadCanon rs shape
  | [], [], _, _, rs, ps, _, hok => by
      simp only [optimizeLoop, Except.ok.injEq, Prod.mk.injEq] at hok
      rw [← hok.1]; trivial
  | [], _ :: _, _, _, _, _, hw, _ => hw.elim
  | .newaxis :: rest, shape, stride, allFull, rs, ps, hw, hok => by
      rw [itemsWF_newaxis] at hw
      rw [optimizeLoop_newaxis] at hok
      cases hr : optimizeLoop h rest shape stride allFull with
      | error e => rw [hr] at hok; cases hok
      | ok rp =>
        obtain ⟨rs', ps'⟩ := rp
        rw [hr] at hok
        simp only [bind, Except.bind, pure, Except.pure, Except.ok.injEq, Prod.mk.injEq] at hok
        rw [← hok.1, readCanon_newaxis]
        exact optimizeLoop_readCanon h rest shape stride allFull rs' ps' hw hr
  | .int _ :: _, [], _, _, _, _, hw, _ => hw.elim
  | .slice _ :: _, [], _, _, _, _, hw, _ => hw.elim
  | .int i :: rest, n :: shape, stride, allFull, rs, ps, hw, hok => by
      rw [optimizeLoop_cons _ _ _ _ _ _ _ (by simp)] at hok
      cases hres : optimizeSlicer h (.int i) n allFull shape.isEmpty stride with
      | error e => rw [hres] at hok; cases hok
      | ok rp =>
        obtain ⟨r, p⟩ := rp
        rw [hres] at hok
        simp only [bind, Except.bind] at hok
        cases hr : optimizeLoop h rest shape (stride * n) (allFull && r.isFull) with
        | error e => rw [hr] at hok; cases hok
        | ok rp' =>
          obtain ⟨rs', ps'⟩ := rp'
          rw [hr] at hok
          simp only [pure, Except.pure, Except.ok.injEq, Prod.mk.injEq] at hok
          have hs := optimizeSlicer_axisSound h _ n hw.1 allFull shape.isEmpty stride r p hres
          have hrn : r ≠ .newaxis := by
            intro e; subst e; exact absurd hs.canon (by simp [ReadItem.Canon])
          rw [← hok.1, readCanon_cons _ _ _ _ hrn]
          exact ⟨hs.canon, optimizeLoop_readCanon h rest shape _ _ rs' ps' hw.2 hr⟩
  | .slice s :: rest, n :: shape, stride, allFull, rs, ps, hw, hok => by
      rw [optimizeLoop_cons _ _ _ _ _ _ _ (by simp)] at hok
      cases hres : optimizeSlicer h (.slice s) n allFull shape.isEmpty stride with
      | error e => rw [hres] at hok; cases hok
      | ok rp =>
        obtain ⟨r, p⟩ := rp
        rw [hres] at hok
        simp only [bind, Except.bind] at hok
        cases hr : optimizeLoop h rest shape (stride * n) (allFull && r.isFull) with
        | error e => rw [hr] at hok; cases hok
        | ok rp' =>
          obtain ⟨rs', ps'⟩ := rp'
          rw [hr] at hok
          simp only [pure, Except.pure, Except.ok.injEq, Prod.mk.injEq] at hok
          have hs := optimizeSlicer_axisSound h _ n hw.1 allFull shape.isEmpty stride r p hres
          have hrn : r ≠ .newaxis := by
            intro e; subst e; exact absurd hs.canon (by simp [ReadItem.Canon])
          rw [← hok.1, readCanon_cons _ _ _ _ hrn]
          exact ⟨hs.canon, optimizeLoop_readCanon h rest shape _ _ rs' ps' hw.2 hr⟩

/-! ### `canonical_slicers` produces well-formed items -/

theorem itemsWF_append : ∀ (l1 : List Item) (s1 : List Nat) (l2 : List Item) (s2 : List Nat),
    ItemsWF l1 s1 → ItemsWF l2 s2 → ItemsWF (l1 ++ l2) (s1 ++ s2)
  | [], [], _, _, _, h2 => h2
  | [], _ :: _, _, _, h1, _ => h1.elim
  | .newaxis :: rest, s1, l2, s2, h1, h2 => by
      rw [itemsWF_newaxis] at h1
      rw [List.cons_append, itemsWF_newaxis]
      exact itemsWF_append rest s1 l2 s2 h1 h2
  | .int _ :: _, [], _, _, h1, _ => h1.elim
  | .slice _ :: _, [], _, _, h1, _ => h1.elim
  | .int i :: rest, n :: s1, l2, s2, h1, h2 => ⟨h1.1, itemsWF_append rest s1 l2 s2 h1.2 h2⟩
  | .slice s :: rest, n :: s1, l2, s2, h1, h2 => ⟨h1.1, itemsWF_append rest s1 l2 s2 h1.2 h2⟩

theorem itemsWF_reverse : ∀ (items : List Item) (shape : List Nat),
    ItemsWF items shape → ItemsWF items.reverse shape.reverse
  | [], [], _ => trivial
  | [], _ :: _, h => h.elim
  | .newaxis :: rest, shape, h => by
      rw [itemsWF_newaxis] at h
      rw [List.reverse_cons]
      have := itemsWF_append rest.reverse shape.reverse [.newaxis] [] (itemsWF_reverse rest shape h)
        (by rw [itemsWF_newaxis]; trivial)
      simpa using this
  | .int _ :: _, [], h => h.elim
  | .slice _ :: _, [], h => h.elim
  | .int i :: rest, n :: shape, h => by
      rw [List.reverse_cons, List.reverse_cons]
      exact itemsWF_append rest.reverse shape.reverse [.int i] [n] (itemsWF_reverse rest shape h.2)
        ⟨h.1, trivial⟩
  | .slice s :: rest, n :: shape, h => by
      rw [List.reverse_cons, List.reverse_cons]
      exact itemsWF_append rest.reverse shape.reverse [.slice s] [n] (itemsWF_reverse rest shape h.2)
        ⟨h.1, trivial⟩

theorem itemsWF_fill : ∀ shape : List Nat, ItemsWF (shape.map (fun _ => Item.slice pySliceNone)) shape
  | [] => trivial
  | _ :: shape => ⟨pySliceNone_valid, itemsWF_fill shape⟩

theorem canonItem_wf (n : Nat) (it : IdxItem) (c : Item) (hn : it ≠ .newaxis)
    (hv : ∀ s, it = .slice s → s.Valid) (h : canonItem n true it = .ok c) : c.WF n := by
  cases it with
  | newaxis => exact absurd rfl hn
  | ellipsis => simp [canonItem] at h
  | int i =>
    simp only [canonItem, Bool.true_and] at h
    split at h
    · split at h
      · cases h
      · simp only [Except.ok.injEq] at h; subst h
        rename_i h1 h2
        simp only [decide_eq_true_eq] at h2
        exact ⟨by omega, by omega⟩
    · split at h
      · cases h
      · simp only [Except.ok.injEq] at h; subst h
        rename_i h1 h2
        simp only [decide_eq_true_eq] at h2
        exact ⟨by omega, by omega⟩
  | slice s =>
    simp only [canonItem] at h
    split at h
    · simp only [Except.ok.injEq] at h; subst h; exact hv s rfl
    · split at h <;> simp only [Except.ok.injEq] at h <;> subst h
      · exact pySliceNone_valid
      · exact hv s rfl

theorem canonLoop_nil (c : Bool) (shape : List Nat) :
    canonLoop c [] shape = .ok (shape.map (fun _ => Item.slice pySliceNone)) := by
  cases shape <;> rfl

theorem canonLoop_newaxis (c : Bool) (rest : List IdxItem) (shape : List Nat) :
    canonLoop c (.newaxis :: rest) shape = (do
      let r ← canonLoop c rest shape
      pure (Item.newaxis :: r)) := by
  cases shape <;> rfl

theorem canonLoop_ellipsis (c : Bool) (rest : List IdxItem) (shape : List Nat) :
    canonLoop c (.ellipsis :: rest) shape =
      if rest.any isEllipsis then .error .value
      else (do
        let r ← canonLoop c rest
          (shape.drop (shape.length - (rest.filter (fun x => !isNewaxis x)).length))
        pure ((List.replicate (shape.length - (rest.filter (fun x => !isNewaxis x)).length)
          (Item.slice pySliceNone)) ++ r)) := by
  cases shape <;> rfl

theorem canonLoop_cons_nil (c : Bool) (it : IdxItem) (rest : List IdxItem)
    (h1 : it ≠ .newaxis) (h2 : it ≠ .ellipsis) : canonLoop c (it :: rest) [] = .error .index := by
  cases it <;> first | exact absurd rfl h1 | exact absurd rfl h2 | rfl

theorem canonLoop_cons (c : Bool) (it : IdxItem) (rest : List IdxItem) (n : Nat) (shape : List Nat)
    (h1 : it ≠ .newaxis) (h2 : it ≠ .ellipsis) :
    canonLoop c (it :: rest) (n :: shape) = (do
      let ci ← canonItem n c it
      let r ← canonLoop c rest shape
      pure (ci :: r)) := by
  cases it <;> first | exact absurd rfl h1 | exact absurd rfl h2 | rfl

theorem canonLoop_wf_step (it : IdxItem) (rest : List IdxItem) (n : Nat) (shape : List Nat)
    (items : List Item) (h1 : it ≠ .newaxis) (h2 : it ≠ .ellipsis)
    (hv : ∀ s, it = .slice s → s.Valid)
    (ih : ∀ items', canonLoop true rest shape = .ok items' → ItemsWF items' shape)
    (hok : canonLoop true (it :: rest) (n :: shape) = .ok items) : ItemsWF items (n :: shape) := by
  rw [canonLoop_cons _ _ _ _ _ h1 h2] at hok
  cases hc : canonItem n true it with
  | error e => rw [hc] at hok; cases hok
  | ok ci =>
    rw [hc] at hok
    simp only [bind, Except.bind] at hok
    cases hr : canonLoop true rest shape with
    | error e => rw [hr] at hok; cases hok
    | ok r =>
      rw [hr] at hok
      simp only [pure, Except.pure, Except.ok.injEq] at hok
      subst hok
      have hw := canonItem_wf n it ci h1 hv hc
      have hcn : ci ≠ .newaxis := by intro e; subst e; exact hw.elim
      rw [itemsWF_cons _ _ _ _ hcn]
      exact ⟨hw, ih r hr⟩

theorem canonLoop_wf : ∀ (idx : List IdxItem) (shape : List Nat) (items : List Item),
    (∀ s, IdxItem.slice s ∈ idx → s.Valid) → canonLoop true idx shape = .ok items →
    ItemsWF items shape
  | [], shape, items, _, hok => by
      rw [canonLoop_nil] at hok
      simp only [Except.ok.injEq] at hok
      subst hok; exact itemsWF_fill shape
  | .newaxis :: rest, shape, items, hv, hok => by
      rw [canonLoop_newaxis] at hok
      cases hr : canonLoop true rest shape with
      | error e => rw [hr] at hok; cases hok
      | ok r =>
        rw [hr] at hok
        simp only [bind, Except.bind, pure, Except.pure, Except.ok.injEq] at hok
        subst hok
        rw [itemsWF_newaxis]
        exact canonLoop_wf rest shape r (fun s hs => hv s (by simp [hs])) hr
  | .ellipsis :: rest, shape, items, hv, hok => by
      rw [canonLoop_ellipsis] at hok
      split at hok
      · cases hok
      · generalize hk : shape.length - (rest.filter (fun x => !isNewaxis x)).length = k at hok
        cases hr : canonLoop true rest (shape.drop k) with
        | error e => rw [hr] at hok; cases hok
        | ok r =>
          rw [hr] at hok
          simp only [bind, Except.bind, pure, Except.pure, Except.ok.injEq] at hok
          subst hok
          have ih := canonLoop_wf rest (shape.drop k) r (fun s hs => hv s (by simp [hs])) hr
          have hlen : (shape.take k).length = k := by rw [List.length_take]; omega
          have hrep : List.replicate k (Item.slice pySliceNone)
              = (shape.take k).map (fun _ => Item.slice pySliceNone) := by
            rw [List.map_const', hlen]
          have := itemsWF_append _ _ _ _ (itemsWF_fill (shape.take k)) ih
          rw [List.take_append_drop] at this
          rw [hrep]; exact this
  | .int i :: rest, [], items, _, hok => by
      rw [canonLoop_cons_nil _ _ _ (by simp) (by simp)] at hok; cases hok
  | .slice s :: rest, [], items, _, hok => by
      rw [canonLoop_cons_nil _ _ _ (by simp) (by simp)] at hok; cases hok
  | .int i :: rest, n :: shape, items, hv, hok =>
      canonLoop_wf_step (.int i) rest n shape items (by simp) (by simp) (by simp)
        (fun items' h => canonLoop_wf rest shape items' (fun s hs => hv s (by simp [hs])) h) hok
  | .slice s :: rest, n :: shape, items, hv, hok =>
      canonLoop_wf_step (.slice s) rest n shape items (by simp) (by simp)
        (fun s' hs' => by cases hs'; exact hv s (by simp))
        (fun items' h => canonLoop_wf rest shape items' (fun s hs => hv s (by simp [hs])) h) hok

end Nb.C06
