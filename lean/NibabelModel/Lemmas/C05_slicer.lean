import NibabelModel.Lemmas.C05
/-! Lemmas/C05_slicer — which index expressions `img.slicer[...]` accepts and refuses
    (`SpatialFirstSlicer.check_slicing` on `fileslice.canonical_slicers`), for all shapes.  (core Lean only) -/
namespace Nb.C05
open Nb Nb.C06

theorem canonLoop_cons' (c : Bool) (it : IdxItem) (rest : List IdxItem) (n : Nat) (shape : List Nat)
    (h1 : it ≠ .newaxis) (h2 : it ≠ .ellipsis) :
    canonLoop c (it :: rest) (n :: shape) = (do
      let ci ← canonItem n c it
      let r ← canonLoop c rest shape
      pure (ci :: r)) := by
  cases it <;> first | exact absurd rfl h1 | exact absurd rfl h2 | rfl

theorem canonLoop_nil' (c : Bool) (shape : List Nat) :
    canonLoop c [] shape = .ok (shape.map (fun _ => Item.slice pySliceNone)) := by
  cases shape <;> rfl

/-- a slice item is canonicalised to a slice with the same `indices` on its axis -/
theorem canonItem_slice_ok (n : Nat) (s : PySlice) :
    ∃ s', canonItem n true (.slice s) = .ok (.slice s') ∧ s'.indices n = s.indices n ∧
      (s.Valid → itemZeroStep (.slice s') = false) := by
  simp only [canonItem]
  split
  · rename_i h; subst h; exact ⟨_, rfl, rfl, fun _ => by decide⟩
  · split
    · rename_i h
      refine ⟨_, rfl, ?_, fun _ => by decide⟩
      obtain ⟨hstop, hstart, hstep⟩ := h
      obtain ⟨a, b, c⟩ := s
      simp only at hstop hstart hstep
      subst hstop
      rcases hstart with rfl | rfl <;> rcases hstep with rfl | rfl <;>
        simp [pySliceNone, PySlice.indices, PySlice.stepVal, PySlice.adjust1] <;> omega
    · refine ⟨s, rfl, rfl, ?_⟩
      intro hv
      unfold PySlice.Valid PySlice.stepVal at hv
      unfold itemZeroStep
      cases hs : s.step with
      | none => simp [hs]
      | some v => simp [hs] at hv; simp [hs]; exact hv

theorem sel_congr {s s' : PySlice} {n : Nat} (h : s'.indices n = s.indices n) : s'.sel n = s.sel n := by
  unfold PySlice.sel; rw [h]

theorem len_congr {s s' : PySlice} {n : Nat} (h : s'.indices n = s.indices n) : s'.len n = s.len n := by
  unfold PySlice.len; rw [h]

theorem itemsSels_full : ∀ nr : List Nat,
    itemsSels (nr.map (fun _ => Item.slice pySliceNone)) nr = .ok (nr.map (fun n => Sel.many (List.range n))) := by
  intro nr
  induction nr with
  | nil => rfl
  | cons n nr ih =>
    simp only [List.map, itemsSels, itemSel, ih]
    have : pySliceNone.sel n = List.range n := PySlice.sel_none n
    simp [this]
    rfl

theorem outShape_full : ∀ nr : List Nat, outShape (nr.map (fun n => Sel.many (List.range n))) = nr := by
  intro nr
  induction nr with
  | nil => rfl
  | cons n nr ih => simp [outShape, ih]

theorem any_zeroStep_full : ∀ nr : List Nat, (nr.map (fun _ => Item.slice pySliceNone)).any itemZeroStep = false := by
  intro nr
  induction nr with
  | nil => rfl
  | cons n nr ih => simp only [List.map, List.any_cons, ih, Bool.or_false]; decide

/-- **slicer_triple_ok** (no false rejection): every triple of spatial slices with non-zero steps that
    each select at least one voxel is accepted, on every image shape without empty trailing axes; the
    result has the NumPy shape and the `slice_affine` affine. -/
theorem slicer_triple_ok' (A : Aff Int) (n0 n1 n2 : Nat) (nr : List Nat) (s0 s1 s2 : PySlice)
    (hv0 : s0.Valid) (hv1 : s1.Valid) (hv2 : s2.Valid)
    (h0 : 0 < s0.len n0) (h1 : 0 < s1.len n1) (h2 : 0 < s2.len n2) (hnr : ∀ n ∈ nr, 0 < n) :
    ∃ o, slicer A (n0 :: n1 :: n2 :: nr) [.slice s0, .slice s1, .slice s2] = .ok o ∧
      o.shape = s0.len n0 :: s1.len n1 :: s2.len n2 :: nr ∧
      o.affine = sliceAffine A s0 s1 s2 n0 n1 n2 := by
  obtain ⟨t0, c0, i0, z0⟩ := canonItem_slice_ok n0 s0
  obtain ⟨t1, c1, i1, z1⟩ := canonItem_slice_ok n1 s1
  obtain ⟨t2, c2, i2, z2⟩ := canonItem_slice_ok n2 s2
  have hcan : canonicalSlicers [.slice s0, .slice s1, .slice s2] (n0 :: n1 :: n2 :: nr) =
      .ok (.slice t0 :: .slice t1 :: .slice t2 :: nr.map (fun _ => Item.slice pySliceNone)) := by
    unfold canonicalSlicers
    rw [canonLoop_cons' _ _ _ _ _ (by simp) (by simp), c0, canonLoop_cons' _ _ _ _ _ (by simp) (by simp), c1,
      canonLoop_cons' _ _ _ _ _ (by simp) (by simp), c2, canonLoop_nil']
    rfl
  unfold slicer
  rw [hcan]
  simp only [itemsSels_full]
  have hz : (Item.slice t0 :: Item.slice t1 :: Item.slice t2 :: nr.map (fun _ => Item.slice pySliceNone)).any itemZeroStep = false := by
    simp only [List.any_cons, z0 hv0, z1 hv1, z2 hv2, any_zeroStep_full, Bool.or_false]
  simp only [hz, Bool.false_eq_true, if_false]
  have hshape : outShape (Sel.many (t0.sel n0) :: Sel.many (t1.sel n1) :: Sel.many (t2.sel n2) ::
      nr.map (fun n => Sel.many (List.range n))) = s0.len n0 :: s1.len n1 :: s2.len n2 :: nr := by
    simp only [outShape, outShape_full, PySlice.sel_length, len_congr i0, len_congr i1, len_congr i2]
  rw [hshape]
  have hne : (s0.len n0 :: s1.len n1 :: s2.len n2 :: nr).any (· == 0) = false := by
    simp only [List.any_cons, Bool.or_eq_false_iff, beq_eq_false_iff_ne, ne_eq, List.any_eq_false, beq_iff_eq]
    refine ⟨by omega, by omega, by omega, ?_⟩
    intro n hn; have := hnr n hn; omega
  simp only [hne, Bool.false_eq_true, if_false]
  refine ⟨_, rfl, rfl, ?_⟩
  simp only [sliceAffine, i0, i1, i2]

def itemIsSlice : Item → Bool
  | .slice _ => true
  | _ => false

/-- canonical form of an index expression that starts with `pre.length` slices followed by a scalar
    index or a new axis: if it exists at all, its item number `pre.length` is not a slice -/
theorem canon_prefix_nonslice (x : IdxItem) (hx : (∃ i, x = .int i) ∨ x = .newaxis) (post : List IdxItem) :
    ∀ (pre : List PySlice) (shape : List Nat) (can : List Item),
      canonLoop true (pre.map IdxItem.slice ++ x :: post) shape = .ok can →
      ∃ c, can[pre.length]? = some c ∧ itemIsSlice c = false := by
  intro pre
  induction pre with
  | nil =>
    intro shape can h
    simp only [List.map_nil, List.nil_append] at h
    rcases hx with ⟨i, rfl⟩ | rfl
    · cases shape with
      | nil => simp [canonLoop] at h
      | cons n shape =>
        rw [canonLoop_cons' _ _ _ _ _ (by simp) (by simp)] at h
        cases hc : canonItem n true (.int i) with
        | error e => simp [hc, bind, Except.bind] at h
        | ok ci =>
          have hci : itemIsSlice ci = false := by
            simp only [canonItem] at hc
            split at hc <;> split at hc <;> first | (cases hc; done) | (injection hc with hc; subst hc; simp [itemIsSlice])
          cases hr : canonLoop true post shape with
          | error e => simp [hc, hr, bind, Except.bind] at h
          | ok r =>
            simp [hc, hr, bind, Except.bind, pure, Except.pure] at h
            subst h
            exact ⟨ci, rfl, hci⟩
    · cases hr : canonLoop true post shape with
      | error e => cases shape <;> simp [canonLoop, hr, bind, Except.bind] at h
      | ok r =>
        have : can = Item.newaxis :: r := by
          cases shape <;> simp [canonLoop, hr, bind, Except.bind, pure, Except.pure] at h <;> exact h.symm
        subst this
        exact ⟨_, rfl, rfl⟩
  | cons s pre ih =>
    intro shape can h
    simp only [List.map_cons, List.cons_append] at h
    cases shape with
    | nil => simp [canonLoop] at h
    | cons n shape =>
      rw [canonLoop_cons' _ _ _ _ _ (by simp) (by simp)] at h
      cases hc : canonItem n true (.slice s) with
      | error e => simp [hc, bind, Except.bind] at h
      | ok ci =>
        cases hr : canonLoop true (pre.map IdxItem.slice ++ x :: post) shape with
        | error e => simp [hc, hr, bind, Except.bind] at h
        | ok r =>
          simp [hc, hr, bind, Except.bind, pure, Except.pure] at h
          subst h
          obtain ⟨c, hc', hs⟩ := ih shape r hr
          exact ⟨c, by simpa using hc', hs⟩

/-- **slicer_rejects_spatial_scalar**: an integer index or a new axis in one of the three spatial
    positions (after fewer than three slices) is refused with IndexError — for every image shape,
    every affine and whatever follows in the index expression. -/
theorem slicer_rejects_spatial_scalar' (A : Aff Int) (shape : List Nat) (pre : List PySlice) (hpre : pre.length < 3)
    (x : IdxItem) (hx : (∃ i, x = .int i) ∨ x = .newaxis) (post : List IdxItem) :
    slicer A shape (pre.map IdxItem.slice ++ x :: post) = .error .index := by
  unfold slicer
  cases hcan : canonicalSlicers (pre.map IdxItem.slice ++ x :: post) shape with
  | error e => rfl
  | ok can =>
    obtain ⟨c, hc, hs⟩ := canon_prefix_nonslice x hx post pre shape can hcan
    dsimp only
    split
    · rename_i s0 s1 s2 crest n0 n1 n2 nrest
      exfalso
      have : pre.length = 0 ∨ pre.length = 1 ∨ pre.length = 2 := by omega
      rcases this with h | h | h <;> rw [h] at hc <;> simp at hc <;> subst hc <;> simp [itemIsSlice] at hs
    · rfl

end Nb.C05
