import NibabelModel.Generated.C20Funcs
import NibabelModel.Lemmas.PyVal
import NibabelModel.Model.C20
/-! Lemmas/C20_GenFuncs — the tie to the source (Leg T).
    * `GenV`: `vol_numbers`, translated statement by statement from the working tree into
      `Generated/C20Funcs.lean` on every run, IS the model's `occNumbers` (loop invariant: the counter
      dict holds exactly the counts of the slice numbers seen so far).
    * `Src`: the lexsort key tuples, the fields behind the key variables, `dynamic_keys` and the field
      lists of the PAR versions, read off the source with `ast` on every run, yield the model's
      `strictKey` / `dynamicKeys`. -/
namespace Nb.C20.GenV
open Nb.Py Nb.Py.V

/-- the counter dict of `vol_numbers` as an association list slice number ↦ count -/
def enc (d : List (Int × Int)) : V := ofList (d.map fun p => .tup2 (.int p.1) (.int p.2))

def lookupI : List (Int × Int) → Int → Option Int
  | [], _ => none
  | (k, v) :: rest, key => if k = key then some v else lookupI rest key

def setI : List (Int × Int) → Int → Int → List (Int × Int)
  | [], key, val => [(key, val)]
  | (k, v) :: rest, key, val => if k = key then (k, val) :: rest else (k, v) :: setI rest key val

theorem dictGet_enc (d : List (Int × Int)) (key : Int) :
    dictGet? (enc d) (.int key) = (lookupI d key).map V.int := by
  induction d with
  | nil => rfl
  | cons p d ih =>
    obtain ⟨k, v⟩ := p
    simp only [enc, List.map_cons, ofList_cons, dictGet?, pyEq_int, lookupI] at ih ⊢
    by_cases h : k = key
    · simp [h]
    · simp [h, ih]

theorem dictSet_enc (d : List (Int × Int)) (key val : Int) :
    dictSet (enc d) (.int key) (.int val) = enc (setI d key val) := by
  induction d with
  | nil => rfl
  | cons p d ih =>
    obtain ⟨k, v⟩ := p
    simp only [enc, List.map_cons, ofList_cons, dictSet, pyEq_int, setI] at ih ⊢
    by_cases h : k = key
    · simp [h]
    · simp [h, ih]

theorem lookupI_setI (d : List (Int × Int)) (key val key' : Int) :
    lookupI (setI d key val) key' = if key = key' then some val else lookupI d key' := by
  induction d with
  | nil => simp [setI, lookupI]
  | cons p d ih =>
    obtain ⟨k, v⟩ := p
    simp only [setI, lookupI]
    by_cases h : k = key
    · subst h; by_cases h2 : k = key' <;> simp [lookupI, h2]
    · by_cases h2 : k = key'
      · subst h2; simp [h, lookupI, Ne.symm h]
      · simp [h, lookupI, h2, ih]

/-- one pass of the translated loop body on an encoded state -/
def step (d : List (Int × Int)) (s : Int) : List (Int × Int) × Int :=
  let c := (lookupI d s).getD 0
  (setI (match lookupI d s with | Option.some _ => d | Option.none => setI d s 0) s (c + 1), c)

open Nb.Gen.C20F in
theorem body_enc (sn : V) (d : List (Int × Int)) (acc : List V) (s : Int) (cnt : V) :
    vol_numbers_body1 ⟨sn, .dict (enc d), ofList acc, .int s, cnt⟩ =
      .ok (.next ⟨sn, .dict (enc (step d s).1), ofList (acc ++ [.int (step d s).2]), .int s, .int (step d s).2⟩) := by
  unfold vol_numbers_body1 step
  simp only [dictSetdefault, dictGet_enc]
  cases h : lookupI d s with
  | some c =>
    simp [getItem, dictGet_enc, h, setItem, dictSet_enc]
  | none =>
    simp [getItem, dictGet_enc, h, setItem, dictSet_enc, lookupI_setI]


/-- the whole loop: the dict only matters through the counts it holds -/
def loopI : List Int → List (Int × Int) → List Int → List Int
  | [], _, acc => acc
  | s :: rest, d, acc => loopI rest (step d s).1 (acc ++ [(step d s).2])

/-- the invariant: the dict holds exactly the counts of the elements seen so far -/
def Inv (d : List (Int × Int)) (seen : List Int) : Prop :=
  ∀ s, lookupI d s = if s ∈ seen then some (seen.count s : Int) else none

theorem step_inv {d : List (Int × Int)} {seen : List Int} (h : Inv d seen) (s : Int) :
    (step d s).2 = (seen.count s : Int) ∧ Inv (step d s).1 (s :: seen) := by
  unfold step
  have hs := h s
  by_cases hm : s ∈ seen
  · rw [if_pos hm] at hs
    simp only [hs, Option.getD_some]
    refine ⟨trivial, fun s' => ?_⟩
    rw [lookupI_setI, h s']
    by_cases e : s = s'
    · subst e; simp [hm]
    · by_cases hm' : s' ∈ seen <;> simp [hm', e, Ne.symm e]
  · rw [if_neg hm] at hs
    simp only [hs, Option.getD_none]
    refine ⟨by simp [List.count_eq_zero_of_not_mem hm], fun s' => ?_⟩
    rw [lookupI_setI, lookupI_setI, h s']
    by_cases e : s = s'
    · subst e; simp [List.count_eq_zero_of_not_mem hm]
    · by_cases hm' : s' ∈ seen <;> simp [hm', e, Ne.symm e]

theorem loopI_eq : ∀ (l : List Int) (d : List (Int × Int)) (seen : List Int) (acc : List Int), Inv d seen →
    loopI l d acc = acc ++ (occAux seen l).map (fun (k : Nat) => (k : Int))
  | [], _, _, acc, _ => by simp [loopI, occAux]
  | s :: rest, d, seen, acc, h => by
    obtain ⟨h1, h2⟩ := step_inv h s
    rw [loopI, loopI_eq rest _ (s :: seen) _ h2, h1]
    simp [occAux, List.append_assoc]

open Nb.Gen.C20F in
theorem loop_enc (sn : V) : ∀ (l : List Int) (d : List (Int × Int)) (acc : List Int) (s0 cnt : V),
    ∃ s1 c1 d1, vol_numbers_loop1 (ofList (l.map V.int)) ⟨sn, .dict (enc d), ofList (acc.map V.int), s0, cnt⟩ =
      .ok (.next ⟨sn, .dict (enc d1), ofList ((loopI l d acc).map V.int), s1, c1⟩)
  | [], d, acc, s0, cnt => ⟨s0, cnt, d, rfl⟩
  | s :: rest, d, acc, s0, cnt => by
    obtain ⟨s1, c1, d1, ih⟩ := loop_enc sn rest (step d s).1 (acc ++ [(step d s).2]) (.int s) (.int (step d s).2)
    refine ⟨s1, c1, d1, ?_⟩
    simp only [List.map_cons, ofList_cons, vol_numbers_loop1, body_enc, bind_ok, loopI]
    have : acc.map V.int ++ [V.int (step d s).2] = (acc ++ [(step d s).2]).map V.int := by simp
    rw [this]
    exact ih

open Nb.Gen.C20F in
/-- **the translated `vol_numbers` is `occNumbers`** -/
theorem vol_numbers_eq (l : List Int) :
    vol_numbers (ofList (l.map V.int)) = .ok (ofList ((occNumbers l).map (fun (k : Nat) => V.int k))) := by
  obtain ⟨s1, c1, d1, h⟩ := loop_enc (ofList (l.map V.int)) l [] [] .none .none
  unfold vol_numbers
  have he : (V.dict V.nil) = V.dict (enc []) := rfl
  have ha : (V.nil : V) = ofList (([] : List Int).map V.int) := rfl
  simp only [asList_ofList, bind_ok]
  rw [he, ha, h]
  simp only [bind_ok, pure_eq_ok]
  rw [loopI_eq l [] [] [] (fun s => by simp [lookupI])]
  simp [occNumbers, List.map_map]
  rfl

end Nb.C20.GenV

namespace Nb.C20.Src
open Nb.Gen.C20T

/-- image-definition fields (those the assembly logic reads) of a PAR version, from `image_def_dtds` -/
def fieldsOf : Version → List String
  | .v4 => fieldsV4
  | .v41 => fieldsV41
  | .v42 => fieldsV42

/-- the record field of the model behind an image-definition column.  V4 files have no 'diffusion b
    value number'; their b-value key is 'diffusion_b_factor', which the model stores in `bval`. -/
def fieldVal (f : String) (r : Rec) : Option Int :=
  if f = "slice number" then some r.slice
  else if f = "echo number" then some r.echo
  else if f = "dynamic scan number" then some r.dyn
  else if f = "cardiac phase number" then some r.phase
  else if f = "image_type_mr" then some r.itype
  else if f = "scanning sequence" then some r.seq
  else if f = "diffusion b value number" then some r.bval
  else if f = "diffusion_b_factor" then some r.bval
  else if f = "gradient orientation number" then some r.grad
  else if f = "label type" then some r.label
  else none

/-- `idefs['f']` / `self.get_def('f')` behind a key variable of `_strict_sort_order`: the first
    assignment if the version has the field, else the fallback assignment, else None -/
def varField (c : Cfg) (v : String) : Option String :=
  match strictVarField.lookup v with
  | some f =>
    if f ∈ fieldsOf c.version then some f
    else match strictVarFallback.lookup v with
      | some g => if g ∈ fieldsOf c.version then some g else none
      | none => none
  | none => none

/-- `diffusion_keys`: `()` without diffusion, `(bvals,)` when there are no b-vectors, else `(bvecs, bvals)` -/
def diffusionKeyVars (c : Cfg) : List String :=
  if !c.diffusion then [] else if (varField c "bvecs").isSome then ["bvecs", "bvals"] else ["bvals"]

/-- the key tuple handed to the first `np.lexsort`, as image-definition fields, in tuple order
    (LAST = highest precedence) -/
def strictKeyFields (c : Cfg) : List (Option String) :=
  strictKeysSrc.flatMap fun k =>
    if k = "+diffusion_keys" then (diffusionKeyVars c).map (varField c)
    else if k = "+asl_keys" then (if "label type" ∈ fieldsOf c.version then [some "label type"] else [])
    else [varField c k]

def longName (s : String) : String :=
  if s = "phase" then "cardiac phase number" else if s = "echo" then "echo number"
  else if s = "label" then "label type" else if s = "itype" then "image_type_mr"
  else if s = "dyn" then "dynamic scan number" else if s = "seq" then "scanning sequence"
  else if s = "grad" then "gradient orientation number" else if s = "bval" then "diffusion b value number"
  else s

theorem strictKey_from_source (c : Cfg) (r : Rec) :
    (strictKeyFields c).reverse.map (fun f => f.bind (fieldVal · r)) = (strictKey c r).map some := by
  obtain ⟨v, d, a, b, e, f, g⟩ := c
  cases v <;> cases d <;> rfl

theorem diffusionKeyVars_in_source (c : Cfg) : diffusionKeyVars c ∈ diffusionKeysAlts := by
  obtain ⟨v, d, a, b, e, f, g⟩ := c
  have key : ∀ (v : Version) (d : Bool), diffusionKeyVars ⟨v, d, 0, 0, 0, 0, 0⟩ ∈ diffusionKeysAlts := by
    intro v d; cases v <;> cases d <;> decide
  exact key v d

theorem dynamicKeys_from_source (c : Cfg) :
    (dynamicKeys c).map (fun kf => longName kf.1) = dynamicKeysSrc.filter (· ∈ fieldsOf c.version) := by
  obtain ⟨v, d, a, b, e, f, g⟩ := c
  have key : ∀ (v : Version), (dynamicKeys ⟨v, false, 0, 0, 0, 0, 0⟩).map (fun kf => longName kf.1) =
      dynamicKeysSrc.filter (· ∈ fieldsOf v) := by
    intro v; cases v <;> decide
  exact key v

theorem dynamicKeys_fields (c : Cfg) (r : Rec) :
    ∀ kf ∈ dynamicKeys c, fieldVal (longName kf.1) r = some (kf.2 r) := by
  obtain ⟨v, d, a, b, e, f, g⟩ := c
  cases v <;> simp [dynamicKeys, Cfg.hasLabel, Cfg.hasGrad, fieldVal, longName]

theorem sort_stage_keys_from_source :
    stage2KeysSrc = ["vol_nos", "set_nos", "np.logical_not(is_full)"] ∧
    laxKeysSrc = ["slice_nos", "vol_numbers(slice_nos)", "np.logical_not(is_full)"] ∧
    aslKeysSrc = "(idefs['label type'],) if 'label type' in idefs.dtype.names else ()" ∧
    diffusionKeysAlts.length = 3 := by decide

end Nb.C20.Src
