import NibabelModel.Model.C02
import Mathlib.Tactic.Linarith
import Mathlib.Tactic.Ring
import Mathlib.Tactic.FieldSimp
import Mathlib.Tactic.Positivity
import Mathlib.Tactic.NormNum
import Mathlib.Algebra.Order.Field.Basic
import Mathlib.Algebra.Order.AbsoluteValue.Basic
/-! Lemmas/C02 — helper lemmas for the C02 property theorems (Mathlib tactics allowed here). -/
namespace Nb.C02

theorem rabs_eq_abs (x : Rat) : rabs x = |x| := by
  unfold rabs
  split
  · rename_i h; exact (abs_of_neg h).symm
  · rename_i h; exact (abs_of_nonneg (not_lt.mp h)).symm

/-! ### rint -/

theorem rint_cases (x : Rat) :
    (rint x = x.floor ∧ x - x.floor ≤ 1/2) ∨ (rint x = x.floor + 1 ∧ 1/2 ≤ x - x.floor) := by
  unfold rint
  simp only
  split
  · left; exact ⟨rfl, by linarith⟩
  · split
    · right; exact ⟨rfl, by linarith⟩
    · rename_i h1 h2
      have h : x - (x.floor : Rat) = 1/2 := le_antisymm (not_lt.mp h2) (not_lt.mp h1)
      split
      · left; exact ⟨rfl, by linarith⟩
      · right; exact ⟨rfl, by linarith⟩

/-- `|rint x − x| ≤ 1/2` -/
theorem rint_spec (x : Rat) : (rint x : Rat) - x ≤ 1/2 ∧ x - (rint x : Rat) ≤ 1/2 := by
  have h1 := Rat.floor_le x
  have h2 := Rat.lt_floor_add_one x
  rcases rint_cases x with ⟨e, h⟩ | ⟨e, h⟩
  · rw [e]; constructor <;> linarith
  · rw [e]; push_cast at h2 ⊢; constructor <;> linarith

theorem rint_abs (x : Rat) : |(rint x : Rat) - x| ≤ 1/2 := by
  rw [abs_le]; have := rint_spec x; constructor <;> linarith

theorem rint_mono {x y : Rat} (h : x ≤ y) : rint x ≤ rint y := by
  by_contra hc
  have hc' : rint y + 1 ≤ rint x := by omega
  have hcq : (rint y : Rat) + 1 ≤ (rint x : Rat) := by exact_mod_cast hc'
  have hx := rint_spec x
  have hy := rint_spec y
  have : x = y := le_antisymm h (by linarith)
  subst this
  omega

theorem rint_intCast (n : Int) : rint (n : Rat) = n := by
  have h := rint_spec (n : Rat)
  have h1 : ((rint (n : Rat) - n : Int) : Rat) ≤ 1/2 := by push_cast; linarith
  have h2 : -(1/2 : Rat) ≤ ((rint (n : Rat) - n : Int) : Rat) := by push_cast; linarith
  have a : rint (n : Rat) - n < 1 := by
    by_contra hc
    have : (1 : Rat) ≤ ((rint (n : Rat) - n : Int) : Rat) := by exact_mod_cast (not_lt.mp hc)
    linarith
  have b : -1 < rint (n : Rat) - n := by
    by_contra hc
    have : ((rint (n : Rat) - n : Int) : Rat) ≤ (-1 : Rat) := by exact_mod_cast (not_lt.mp hc)
    linarith
  omega

/-! ### clip -/

theorem clipI_mem {x lo hi : Int} (h : lo ≤ hi) : lo ≤ clipI x lo hi ∧ clipI x lo hi ≤ hi := by
  unfold clipI; omega

theorem clipI_cases {x lo hi : Int} (h : lo ≤ hi) :
    (clipI x lo hi = x ∧ lo ≤ x ∧ x ≤ hi) ∨ (clipI x lo hi = hi ∧ hi < x) ∨ (clipI x lo hi = lo ∧ x < lo) := by
  unfold clipI; omega

/-- clipping to thresholds that were themselves clamped into `[bmn, bmx]` is clipping to `[bmn, bmx]`
    for anything between the thresholds -/
theorem clipI_clamped {r a c bmn bmx : Int} (hb : bmn ≤ bmx) (ha : a ≤ r) (hc : r ≤ c) :
    clipI r (clipI a bmn bmx) (clipI c bmn bmx) = clipI r bmn bmx := by
  unfold clipI; omega

/-! ### floor_exact / shared_range -/

theorem floorExact_le (p : Nat) (v : Int) : floorExact p v ≤ v := by
  unfold floorExact
  simp only
  split
  · exact le_refl v
  · have hg : (0 : Int) < ((2 ^ (v.natAbs.log2 + 1 - p) : Nat) : Int) := by positivity
    exact Int.ediv_mul_le v (ne_of_gt hg)

theorem floorExact_nonneg (p : Nat) {v : Int} (h : 0 ≤ v) : 0 ≤ floorExact p v := by
  unfold floorExact
  simp only
  split
  · exact h
  · have hg : (0 : Int) < ((2 ^ (v.natAbs.log2 + 1 - p) : Nat) : Int) := by positivity
    exact Int.mul_nonneg (Int.ediv_nonneg h (le_of_lt hg)) (le_of_lt hg)

theorem ceilExact_ge (p : Nat) (v : Int) : v ≤ ceilExact p v := by
  unfold ceilExact; have := floorExact_le p (-v); omega

theorem ceilExact_nonpos (p : Nat) {v : Int} (h : v ≤ 0) : ceilExact p v ≤ 0 := by
  unfold ceilExact; have := floorExact_nonneg p (v := -v) (by omega); omega

/-! ### deviation of the stored scaled value from the ideal one -/

/-- if `v = s* x* + b*` then the stored map's scaled value `(v − b)/s` is within
    `(|s − s*|·|x*| + |b − b*|) / |s|` of `x*` -/
theorem scaled_dev {s b ss bs v xs : Rat} (hs : s ≠ 0) (hv : v = ss * xs + bs) :
    |s| * |(v - b) / s - xs| ≤ |s - ss| * |xs| + |b - bs| := by
  have e : s * ((v - b) / s - xs) = (ss - s) * xs + (bs - b) := by
    field_simp; rw [hv]; ring
  calc |s| * |(v - b) / s - xs| = |s * ((v - b) / s - xs)| := (abs_mul _ _).symm
    _ = |(ss - s) * xs + (bs - b)| := by rw [e]
    _ ≤ |(ss - s) * xs| + |bs - b| := abs_add_le _ _
    _ = |s - ss| * |xs| + |b - bs| := by rw [abs_mul, abs_sub_comm ss s, abs_sub_comm bs b]

theorem abs_le_max_of_mem {y L H : Rat} (h1 : L ≤ y) (h2 : y ≤ H) : |y| ≤ max |L| |H| := by
  rw [abs_le]
  constructor
  · have : -max |L| |H| ≤ -|L| := neg_le_neg (le_max_left _ _)
    have := neg_abs_le L
    linarith
  · have : |H| ≤ max |L| |H| := le_max_right _ _
    have := le_abs_self H
    linarith

end Nb.C02
