import NibabelModel.Model.C12
/-! Lemmas/C12 — helper lemmas for the C12 theorems (core Lean only). -/
namespace Nb.C12

instance : DecidableEq (Except Err FileMap) := fun a b =>
  match a, b with
  | .ok x, .ok y => if h : x = y then isTrue (by rw [h]) else isFalse (by intro h'; cases h'; exact h rfl)
  | .error x, .error y => if h : x = y then isTrue (by rw [h]) else isFalse (by intro h'; cases h'; exact h rfl)
  | .ok _, .error _ => isFalse (by intro h; cases h)
  | .error _, .ok _ => isFalse (by intro h; cases h)

/-! ### characters -/
theorem lowerC_eq_dot (c : Nat) : lowerC c = DOT ↔ c = DOT := by
  unfold lowerC DOT; split <;> omega
theorem lowerC_eq_sep (c : Nat) : lowerC c = SEP ↔ c = SEP := by
  unfold lowerC SEP; split <;> omega
theorem lowerC_idem (c : Nat) : lowerC (lowerC c) = lowerC c := by
  unfold lowerC; grind
theorem upperC_idem (c : Nat) : upperC (upperC c) = upperC c := by
  unfold upperC; grind
theorem lowerC_upperC (c : Nat) : lowerC (upperC c) = lowerC c := by
  unfold lowerC upperC; grind
theorem upperC_lowerC (c : Nat) : upperC (lowerC c) = upperC c := by
  unfold lowerC upperC; grind

theorem lower_append (a b : Str) : lower (a ++ b) = lower a ++ lower b := by simp [lower]
theorem lower_length (a : Str) : (lower a).length = a.length := by simp [lower]
theorem lower_lower (a : Str) : lower (lower a) = lower a := by
  simp [lower, lowerC_idem]
theorem upper_upper (a : Str) : upper (upper a) = upper a := by
  simp [upper, upperC_idem]
theorem lower_upper (a : Str) : lower (upper a) = lower a := by
  simp [lower, upper, lowerC_upperC]
theorem upper_lower (a : Str) : upper (lower a) = upper a := by
  simp [lower, upper, upperC_lowerC]
theorem lower_nil_iff (a : Str) : lower a = [] ↔ a = [] := by simp [lower]
theorem length_eq_of_lower_eq {a b : Str} (h : lower a = lower b) : a.length = b.length := by
  have := congrArg List.length h
  simpa [lower_length] using this

theorem mem_lower_dot (t : Str) : DOT ∈ lower t ↔ DOT ∈ t := by
  induction t with
  | nil => simp [lower]
  | cons x xs ih =>
    simp only [lower, List.map_cons, List.mem_cons] at ih ⊢
    rw [ih, eq_comm, lowerC_eq_dot, eq_comm]
theorem mem_lower_sep (t : Str) : SEP ∈ lower t ↔ SEP ∈ t := by
  induction t with
  | nil => simp [lower]
  | cons x xs ih =>
    simp only [lower, List.map_cons, List.mem_cons] at ih ⊢
    rw [ih, eq_comm, lowerC_eq_sep, eq_comm]

/-! ### dotted extensions: `.` followed by a non-empty run without `.` and `/` -/
/-- an extension or compression suffix as nibabel's tables have them: `.xyz` -/
def dotted : Str → Bool
  | [] => false
  | d :: t => d == DOT && !t.isEmpty && !t.contains DOT && !t.contains SEP

theorem dotted_iff (e : Str) :
    dotted e = true ↔ ∃ t, e = DOT :: t ∧ t ≠ [] ∧ DOT ∉ t ∧ SEP ∉ t := by
  cases e with
  | nil => simp [dotted]
  | cons d t =>
    simp only [dotted, Bool.and_eq_true, beq_iff_eq, Bool.not_eq_true', List.isEmpty_eq_false_iff,
      List.contains_eq_mem, decide_eq_false_iff_not, List.cons.injEq]
    constructor
    · rintro ⟨⟨⟨h1, h2⟩, h3⟩, h4⟩; exact ⟨t, ⟨h1, rfl⟩, h2, h3, h4⟩
    · rintro ⟨t', ⟨h1, rfl⟩, h2, h3, h4⟩; exact ⟨⟨⟨h1, h2⟩, h3⟩, h4⟩

theorem dotted_lower (e : Str) : dotted (lower e) = dotted e := by
  rw [Bool.eq_iff_iff, dotted_iff, dotted_iff]
  constructor
  · rintro ⟨t, h1, h2, h3, h4⟩
    cases e with
    | nil => simp [lower] at h1
    | cons d u =>
      simp only [lower, List.map_cons, List.cons.injEq] at h1
      obtain ⟨hd, rfl⟩ := h1
      refine ⟨u, by rw [(lowerC_eq_dot d).1 hd], ?_, ?_, ?_⟩
      · intro hu; apply h2; simp [hu]
      · exact fun h => h3 ((mem_lower_dot u).2 h)
      · exact fun h => h4 ((mem_lower_sep u).2 h)
  · rintro ⟨t, rfl, h2, h3, h4⟩
    refine ⟨lower t, ?_, ?_, ?_, ?_⟩
    · simp [lower, (lowerC_eq_dot DOT).2 rfl]
    · intro h; exact h2 ((lower_nil_iff t).1 h)
    · exact fun h => h3 ((mem_lower_dot t).1 h)
    · exact fun h => h4 ((mem_lower_sep t).1 h)

theorem dotted_of_lower_eq {a b : Str} (h : lower a = lower b) (hb : dotted b = true) : dotted a = true := by
  rw [← dotted_lower, h, dotted_lower]; exact hb

theorem dotted_ne_nil {e : Str} (h : dotted e = true) : e ≠ [] := by
  intro h'; subst h'; simp [dotted] at h

/-- a dotted string that is a suffix of a dotted string is that string -/
theorem dotted_suffix_eq {a b : Str} (ha : dotted a = true) (hb : dotted b = true) (h : b <:+ a) : b = a := by
  obtain ⟨ta, rfl, _, hda, _⟩ := (dotted_iff a).1 ha
  obtain ⟨tb, rfl, _, _, _⟩ := (dotted_iff b).1 hb
  rcases List.suffix_cons_iff.1 h with h | h
  · exact h
  · exact absurd (h.subset (List.mem_cons_self)) hda

/-- the key fact: if a dotted `b` is a suffix of `x ++ a` with `a` dotted then `b = a` -/
theorem dotted_suffix_append {x a b : Str} (ha : dotted a = true) (hb : dotted b = true)
    (h : b <:+ x ++ a) : b = a := by
  rcases List.suffix_or_suffix_of_suffix h (List.suffix_append x a) with h' | h'
  · exact dotted_suffix_eq ha hb h'
  · exact (dotted_suffix_eq hb ha h').symm

theorem iendsWith_iff (w e : Str) : iendsWith w e = true ↔ lower e <:+ lower w := by
  simp [iendsWith]

theorem iendsWith_append_self (x a' a : Str) (h : lower a' = lower a) : iendsWith (x ++ a') a = true := by
  rw [iendsWith_iff, lower_append, h]; exact List.suffix_append _ _

/-- case-insensitive suffix test against a name ending in a (case variant of a) dotted string -/
theorem iendsWith_dotted {x a' a s : Str} (h : lower a' = lower a) (ha : dotted a = true)
    (hs : dotted s = true) (hm : iendsWith (x ++ a') s = true) : lower s = lower a := by
  rw [iendsWith_iff, lower_append, h] at hm
  exact dotted_suffix_append (by rw [dotted_lower]; exact ha) (by rw [dotted_lower]; exact hs) hm

/-! ### Python slicing -/
theorem cutEnd_append (a b : Str) (hb : b ≠ []) : cutEnd (a ++ b) b.length = (a, b) := by
  have hl : b.length ≠ 0 := by simpa using hb
  simp only [cutEnd, if_neg hl, List.length_append, Nat.add_sub_cancel]
  rw [List.take_left' rfl, List.drop_left' rfl]

theorem cutEnd_append' (a b : Str) (n : Nat) (hb : b ≠ []) (hn : n = b.length) : cutEnd (a ++ b) n = (a, b) := by
  subst hn; exact cutEnd_append a b hb

/-! ### `splitLast`, `splitext` -/
theorem splitLast_none {c : Nat} {t : Str} (h : c ∉ t) : splitLast c t = none := by
  induction t with
  | nil => rfl
  | cons x xs ih =>
    simp only [List.mem_cons, not_or] at h
    simp [splitLast, ih h.2, Ne.symm h.1]

theorem splitLast_append (c : Nat) (a t : Str) (h : c ∉ t) : splitLast c (a ++ c :: t) = some (a, c :: t) := by
  induction a with
  | nil => simp [splitLast, splitLast_none h]
  | cons x xs ih => simp [splitLast, ih]

/-- the stem's last path component has a character other than `.` (so `<stem>.ext` is not a
    dot-file name without extension) -/
def goodStem (stem : Str) : Bool := (baseRev stem).any (· ≠ DOT)

theorem splitext_dotted (x d : Str) (hd : dotted d = true) :
    splitext (x ++ d) = if goodStem x then (x, d) else (x ++ d, []) := by
  obtain ⟨t, rfl, _, h3, h4⟩ := (dotted_iff d).1 hd
  have hc : (DOT :: t).contains SEP = false := by
    simp only [List.contains_eq_mem, List.mem_cons, decide_eq_false_iff_not, not_or]
    exact ⟨by decide, h4⟩
  simp only [splitext, splitLast_append DOT x t h3, hc, goodStem]
  split <;> simp_all

theorem splitext_dotted_snd (x d : Str) (hd : dotted d = true) :
    (splitext (x ++ d)).2 = d ∨ (splitext (x ++ d)).2 = [] := by
  rw [splitext_dotted x d hd]; split <;> simp

/-- a stem followed by a dotted extension is a good stem for a further extension -/
theorem goodStem_append_dotted (x d : Str) (hd : dotted d = true) : goodStem (x ++ d) = true := by
  obtain ⟨t, rfl, h2, h3, h4⟩ := (dotted_iff d).1 hd
  have hall : ∀ a ∈ t.reverse, (fun c => decide (c ≠ SEP)) a = true := by
    intro a ha; simp only [List.mem_reverse] at ha
    simp only [decide_eq_true_eq]; intro h; exact h4 (h ▸ ha)
  obtain ⟨y, hy⟩ := List.exists_mem_of_ne_nil t h2
  simp only [goodStem, baseRev, List.reverse_append, List.reverse_cons, List.append_assoc]
  rw [List.takeWhile_append_of_pos hall, List.any_append]
  have : t.reverse.any (fun c => decide (c ≠ DOT)) = true := by
    rw [List.any_eq_true]; exact ⟨y, by simpa using hy, by simp only [decide_eq_true_eq]; intro h; exact h3 (h ▸ hy)⟩
  rw [this, Bool.true_or]

theorem getLast?_append_dotted (x d : Str) (hd : dotted d = true) : (x ++ d).getLast? ≠ some DOT := by
  obtain ⟨t, rfl, h2, h3, _⟩ := (dotted_iff d).1 hd
  obtain ⟨y, ys, rfl⟩ := List.exists_cons_of_ne_nil h2
  rw [List.getLast?_append, List.getLast?_cons_cons]
  rw [List.getLast?_eq_some_getLast (l := y :: ys) (by simp)]
  simp only [Option.some_or, ne_eq, Option.some.injEq]
  intro h; exact h3 (h ▸ List.getLast_mem _)

theorem removeSuffixDot_append_dotted (x d : Str) (hd : dotted d = true) : removeSuffixDot (x ++ d) = x ++ d := by
  unfold removeSuffixDot
  rw [if_neg (getLast?_append_dotted x d hd)]

end Nb.C12
