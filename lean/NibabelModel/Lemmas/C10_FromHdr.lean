import NibabelModel.Lemmas.C10_Glue5
/-! Lemmas/C10_FromHdr — the copy loop of `from_header`. -/
namespace Nb.C10

theorem copyStep_length (cast : Field → Field → List Nat → List Nat) (Ld : Layout) (fs : Field)
    (v : List Nat) (d : List (List Nat)) : (copyStep cast Ld fs v d).length = d.length := by
  unfold copyStep
  split
  · rfl
  · split
    · exact setRawFs_length ..
    · rfl

/-- what the copy loop leaves in target field `n` -/
def copiedVal (cast : Field → Field → List Nat → List Nat) (Ld : Layout) (fs : List Field)
    (vs : List (List Nat)) (d : List (List Nat)) (n : String) : List Nat :=
  match findFs fs n, findFs Ld.fields n with
  | some f, some fd => if castable f fd then cast f fd (getRawFs fs vs n) else getRaw Ld d n
  | _, _ => getRaw Ld d n

theorem copyFs_get (cast : Field → Field → List Nat → List Nat) (Ld : Layout) (fs : List Field)
    (vs : List (List Nat)) (d : List (List Nat)) (n : String) (hnd : (fs.map (·.name)).Nodup)
    (hl : d.length = Ld.fields.length) (hvs : vs.length = fs.length) :
    getRaw Ld (copyFs cast Ld fs vs d) n = copiedVal cast Ld fs vs d n := by
  induction fs generalizing vs d with
  | nil => cases vs <;> simp [copyFs, copiedVal, findFs]
  | cons f fs ih =>
    cases vs with
    | nil => simp at hvs
    | cons v vs =>
      simp only [List.map_cons, List.nodup_cons] at hnd
      have hl' : (copyStep cast Ld f v d).length = Ld.fields.length := by rw [copyStep_length]; exact hl
      rw [copyFs, ih vs _ hnd.2 hl' (by simpa using hvs)]
      by_cases hf : f.name = n
      · -- this key is `n`; no later key is
        have hnone : findFs fs n = none := by
          cases hx : findFs fs n with
          | none => rfl
          | some g =>
            exfalso
            have : ∀ (l : List Field), findFs l n = some g → n ∈ l.map (·.name) := by
              intro l
              induction l with
              | nil => intro h; simp [findFs] at h
              | cons a l ihl =>
                intro h
                by_cases ha : a.name = n
                · simp [ha]
                · simp only [findFs, ha, if_false] at h
                  simp [ihl h]
            exact hnd.1 (hf ▸ this fs hx)
        simp only [copiedVal, hnone, findFs, hf, if_true, getRawFs]
        unfold copyStep
        rw [hf]
        cases hd : findFs Ld.fields n with
        | none => rfl
        | some fd =>
          simp only []
          split
          · exact getRawFs_setRawFs_same _ _ _ _ hl fd hd
          · rfl
      · have hother : getRaw Ld (copyStep cast Ld f v d) n = getRaw Ld d n := by
          unfold copyStep
          split
          · rfl
          · split
            · exact getRawFs_setRawFs_other _ _ _ _ _ (fun h => hf h.symm)
            · rfl
        simp only [copiedVal, findFs, hf, if_false, getRawFs, hother]

theorem copyFs_length (cast : Field → Field → List Nat → List Nat) (Ld : Layout) (fs : List Field)
    (vs : List (List Nat)) (d : List (List Nat)) : (copyFs cast Ld fs vs d).length = d.length := by
  induction fs generalizing vs d with
  | nil => cases vs <;> rfl
  | cons f fs ih =>
    cases vs with
    | nil => rfl
    | cons v vs => rw [copyFs, ih, copyStep_length]

/-- the Analyze-family layouts of the working tree and whether the class is a NIfTI class -/
def familyLayouts : List (Layout × Bool) :=
  [(Gen.analyze, false), (Gen.spm99, false), (Gen.spm2, false), (Gen.nifti1, true), (Gen.nifti2, true)]

/-- every same-named pair of fields can be assigned (same bytes/numeric class, same item count) -/
def allCastable (Ls Ld : Layout) : Bool :=
  Ld.fields.all (fun fd => match findFs Ls.fields fd.name with
                           | some fs => castable fs fd
                           | none => true)

/-! ### the setters of from_header (`fromHeaderG?`) -/

theorem fitsInt_iff (w : Nat) (x : Int) : fitsInt w x = true ↔ intFits w x := by
  simp [fitsInt, intFits]

theorem getShape_length (dim : List Int) (hl : dim.length = 8) (h7 : dim.getD 0 0 ≤ 7) :
    1 ≤ (getShape dim).length ∧ (getShape dim).length ≤ 7 := by
  simp only [getShape]
  split
  · simp
  · rename_i hz
    simp only [List.length_take, List.length_drop]
    omega

theorem getShape_setShapeDim (s : List Int) (h1 : 1 ≤ s.length) (h7 : s.length ≤ 7) :
    getShape (setShapeDim s) = s := by
  simp only [getShape, setShapeDim, List.cons_append, List.getD_cons_zero, Int.toNat_natCast,
    List.drop_succ_cons, List.drop_zero]
  split
  · omega
  · simp


theorem dtCodeOf_find (t : List DtCode) (htab : dtTableOk t = true) (kind : Char) (isz : Nat) (k : Int)
    (h : dtCodeOf t kind isz = some k) : ∃ r, dtFind t k = some r ∧ r.kind = kind ∧ r.isz = isz ∧ r ∈ t := by
  unfold dtCodeOf at h
  cases hf : t.find? (fun r => r.kind == kind && r.isz == isz) with
  | none => simp [hf] at h
  | some r =>
    simp only [hf, Option.map_some, Option.some.injEq] at h
    have hmem := List.mem_of_find?_eq_some hf
    have hp := List.find?_some hf
    simp only [Bool.and_eq_true, beq_iff_eq] at hp
    simp only [dtTableOk, Bool.and_eq_true, List.all_eq_true, beq_iff_eq] at htab
    have := htab.1.2 r hmem
    exact ⟨r, by rw [← h]; exact this, hp.1, hp.2, hmem⟩

theorem getInts_setSlots_in (L : Layout) (vals : List (List Nat)) (ns : List String)
    (g : String → List Nat) (n : String) (hnd : ns.Nodup) (hn : n ∈ ns)
    (hl : vals.length = L.fields.length) (f : Field) (hf : findFs L.fields n = some f) :
    getInts L (setSlots L vals ns g) n = (g n).map (toInt (fieldW L n)) := by
  unfold getInts
  rw [getRaw_setSlots_in L vals ns g n hnd hn hl f hf]

theorem convDtype?_some (ts td : List DtCode) (code k bp : Int) (h : convDtype? ts td code = some (k, bp)) :
    ∃ rs, dtFind ts code = some rs ∧ rs.isz ≠ 0 ∧ dtCodeOf td rs.kind rs.isz = some k ∧
      bp = ((8 * rs.isz : Nat) : Int) := by
  unfold convDtype? at h
  cases hrs : dtFind ts code with
  | none => rw [hrs] at h; simp at h
  | some rs =>
    rw [hrs] at h
    dsimp only at h
    split at h
    · simp at h
    · rename_i hz
      cases hk : dtCodeOf td rs.kind rs.isz with
      | none => rw [hk] at h; simp at h
      | some k' =>
        rw [hk] at h
        simp only [Option.map_some, Option.some.injEq, Prod.mk.injEq] at h
        exact ⟨rs, rfl, hz, by rw [← h.1]; exact hk, h.2.symm⟩

theorem fromHeaderG?_some (cs cd : ClsSpec) (Ls Ld : Layout) (src copied : List (List Nat))
    (g : String → List Nat) (hg : fromHeaderG? cs cd Ls Ld src copied = some g) :
    ∃ k bp, convDtype? cs.dtTable cd.dtTable ((getInts Ls src "datatype").getD 0 0) = some (k, bp) ∧
      (∀ x ∈ getShape (getInts Ls src "dim"), fitsInt (fieldW Ld "dim") x = true) ∧
      g "datatype" = [ofInt (fieldW Ld "datatype") k] ∧ g "bitpix" = [ofInt (fieldW Ld "bitpix") bp] ∧
      g "dim" = (setShapeDim (getShape (getInts Ls src "dim"))).map (ofInt (fieldW Ld "dim")) ∧
      g "pixdim" = fromHeaderPixG cd.pixFmt (getInts Ls src "dim") (getRaw Ld copied "pixdim") := by
  unfold fromHeaderG? at hg
  cases hconv : convDtype? cs.dtTable cd.dtTable ((getInts Ls src "datatype").getD 0 0) with
  | none => rw [hconv] at hg; simp at hg
  | some kb =>
    obtain ⟨k, bp⟩ := kb
    rw [hconv] at hg
    dsimp only at hg
    split at hg
    · simp at hg
    · rename_i hfit
      split at hg
      · simp at hg
      · simp only [Option.some.injEq] at hg
        refine ⟨k, bp, rfl, ?_, ?_, ?_, ?_, ?_⟩
        · simpa using hfit
        all_goals (rw [← hg]; simp)

end Nb.C10
