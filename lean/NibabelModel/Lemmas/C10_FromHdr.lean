import NibabelModel.Lemmas.C10_Glue5
/-! Lemmas/C10_FromHdr — the copy loop of `from_header`. -/
namespace Nb.C10

theorem copyStep_length (cast : Field → Field → List Nat → List Nat) (Ld : Layout) (fs : Field)
    (v : List Nat) (d : List (List Nat)) : (copyStep cast Ld fs v d).length = d.length := by
  unfold copyStep
  split
  · rfl
  · split
    · exact setRawFs_length ..
    · rfl

/-- what the copy loop leaves in target field `n` -/
def copiedVal (cast : Field → Field → List Nat → List Nat) (Ld : Layout) (fs : List Field)
    (vs : List (List Nat)) (d : List (List Nat)) (n : String) : List Nat :=
  match findFs fs n, findFs Ld.fields n with
  | some f, some fd => if castable f fd then cast f fd (getRawFs fs vs n) else getRaw Ld d n
  | _, _ => getRaw Ld d n

theorem copyFs_get (cast : Field → Field → List Nat → List Nat) (Ld : Layout) (fs : List Field)
    (vs : List (List Nat)) (d : List (List Nat)) (n : String) (hnd : (fs.map (·.name)).Nodup)
    (hl : d.length = Ld.fields.length) (hvs : vs.length = fs.length) :
    getRaw Ld (copyFs cast Ld fs vs d) n = copiedVal cast Ld fs vs d n := by
  induction fs generalizing vs d with
  | nil => cases vs <;> simp [copyFs, copiedVal, findFs]
  | cons f fs ih =>
    cases vs with
    | nil => simp at hvs
    | cons v vs =>
      simp only [List.map_cons, List.nodup_cons] at hnd
      have hl' : (copyStep cast Ld f v d).length = Ld.fields.length := by rw [copyStep_length]; exact hl
      rw [copyFs, ih vs _ hnd.2 hl' (by simpa using hvs)]
      by_cases hf : f.name = n
      · -- this key is `n`; no later key is
        have hnone : findFs fs n = none := by
          cases hx : findFs fs n with
          | none => rfl
          | some g =>
            exfalso
            have : ∀ (l : List Field), findFs l n = some g → n ∈ l.map (·.name) := by
              intro l
              induction l with
              | nil => intro h; simp [findFs] at h
              | cons a l ihl =>
                intro h
                by_cases ha : a.name = n
                · simp [ha]
                · simp only [findFs, ha, if_false] at h
                  simp [ihl h]
            exact hnd.1 (hf ▸ this fs hx)
        simp only [copiedVal, hnone, findFs, hf, if_true, getRawFs]
        unfold copyStep
        rw [hf]
        cases hd : findFs Ld.fields n with
        | none => rfl
        | some fd =>
          simp only []
          split
          · exact getRawFs_setRawFs_same _ _ _ _ hl fd hd
          · rfl
      · have hother : getRaw Ld (copyStep cast Ld f v d) n = getRaw Ld d n := by
          unfold copyStep
          split
          · rfl
          · split
            · exact getRawFs_setRawFs_other _ _ _ _ _ (fun h => hf h.symm)
            · rfl
        simp only [copiedVal, findFs, hf, if_false, getRawFs, hother]

theorem copyFs_length (cast : Field → Field → List Nat → List Nat) (Ld : Layout) (fs : List Field)
    (vs : List (List Nat)) (d : List (List Nat)) : (copyFs cast Ld fs vs d).length = d.length := by
  induction fs generalizing vs d with
  | nil => cases vs <;> rfl
  | cons f fs ih =>
    cases vs with
    | nil => rfl
    | cons v vs => rw [copyFs, ih, copyStep_length]

/-- the Analyze-family layouts of the working tree and whether the class is a NIfTI class -/
def familyLayouts : List (Layout × Bool) :=
  [(Gen.analyze, false), (Gen.spm99, false), (Gen.spm2, false), (Gen.nifti1, true), (Gen.nifti2, true)]

/-- every same-named pair of fields can be assigned (same bytes/numeric class, same item count) -/
def allCastable (Ls Ld : Layout) : Bool :=
  Ld.fields.all (fun fd => match findFs Ls.fields fd.name with
                           | some fs => castable fs fd
                           | none => true)

end Nb.C10
