import NibabelModel.Lemmas.C05
/-! Lemmas/C05_pairs — exhaustive check of `ornt_transform` over the 48 x 48 pairs of signed
    permutations (kernel evaluation of a Boolean function; no axioms). -/
namespace Nb.C05
open Nb

def eqOk (x : Except PyErr OrntN) (t : Ornt) : Bool :=
  match x with
  | .ok y => y == t.map some
  | .error _ => false

theorem eqOk_elim {x : Except PyErr OrntN} {t : Ornt} (h : eqOk x t = true) : x = .ok (t.map some) := by
  cases x with
  | error e => simp [eqOk] at h
  | ok y => simp only [eqOk, beq_iff_eq] at h; rw [h]

def pairOk (a b : Ornt) : Bool :=
  let t := orntCompose a (orntInverse b)
  let u := orntCompose b (orntInverse a)
  eqOk (orntTransform a b) t && eqOk (orntTransform b a) u && isOrnt3 t &&
    (orntCompose t b == a) && (orntCompose t u == identityOrnt) && (u == orntInverse t)

theorem pairOk_half1 : (allOrnts3.take 24).all (fun a => allOrnts3.all (fun b => pairOk a b)) = true := by
  decide +kernel

end Nb.C05
