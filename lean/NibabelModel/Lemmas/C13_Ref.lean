import NibabelModel.Model.C13
import NibabelModel.Lemmas.C13
import NibabelModel.Lemmas.C13_Cor
/-! Lemmas for the object-level header model of C13 (`RState`, `rstep`): core Lean only. -/
namespace Nb.C13
open Nb

theorem State.ext' {s t : State} (h1 : s.img = t.img) (h2 : s.heap = t.heap) (h3 : s.fcache = t.fcache)
    (h4 : s.dcache = t.dcache) (h5 : s.last = t.last) (h6 : s.imgHdr = t.imgHdr)
    (h7 : s.origHdr = t.origHdr) : s = t := by
  cases s; cases t; simp_all

/-- a non-header op leaves both header values alone -/
theorem step_hdrs_same (s : State) (op : Op) (hop : op.isHdr = false) :
    (step s op).1.imgHdr = s.imgHdr ∧ (step s op).1.origHdr = s.origHdr := by
  have h := step_withHdrs s s.imgHdr s.origHdr op hop
  rw [withHdrs_self] at h
  have h1 : (step s op).1 = (step s op).1.withHdrs s.imgHdr s.origHdr := congrArg Prod.fst h
  constructor
  · rw [h1]; rfl
  · rw [h1]; rfl

/-- the object-level state after a non-header op whose flat step ended in `x` -/
def RState.after (r : RState) (x : State) : RState :=
  { r with heap := x.heap, fcache := x.fcache, dcache := x.dcache, last := x.last }

theorem rstep_data (r : RState) (op : Op) (hop : op.isHdr = false) :
    rstep r op = (r.after (step r.view op).1, (step r.view op).2) := by
  cases op <;> first | rfl | (simp [Op.isHdr] at hop)

theorem rstep_data_view (r : RState) (op : Op) (hop : op.isHdr = false) :
    (rstep r op).1.view = (step r.view op).1 ∧ (rstep r op).2 = (step r.view op).2 := by
  rw [rstep_data r op hop]
  refine ⟨?_, rfl⟩
  have hh := step_hdrs_same r.view op hop
  apply State.ext'
  · rw [step_img]; rfl
  · rfl
  · rfl
  · rfl
  · rfl
  · rw [hh.1]; rfl
  · rw [hh.2]; rfl

theorem rstep_data_img (r : RState) (op : Op) : (rstep r op).1.img = r.img := by
  cases op <;> rfl

theorem rstep_frozen {r : RState} (h : r.Frozen) (op : Op) : (rstep r op).1.Frozen := by
  intro raw c io; rw [rstep_data_img]; exact h raw c io

theorem rrun_frozen {r : RState} (h : r.Frozen) (ops : List Op) : (rrun r ops).Frozen := by
  induction ops generalizing r with
  | nil => exact h
  | cons op ops ih => exact ih (rstep_frozen h op)

theorem rrun_img (r : RState) (ops : List Op) : (rrun r ops).img = r.img := by
  induction ops generalizing r with
  | nil => rfl
  | cons op ops ih => exact (ih _).trans (rstep_data_img r op)

/-- with a frozen proxy the view's data source does not depend on the header cells -/
theorem view_img_frozen {r : RState} (h : r.Frozen) (cells' : List Hdr) :
    ({ r with cells := cells' } : RState).view.img = r.view.img := by
  simp only [RState.view]
  cases hi : r.img with
  | array o => rfl
  | proxy raw src =>
    cases src with
    | copy p => rfl
    | ref c io => exact absurd hi (h raw c io)

theorem view_cells_frozen {r : RState} (h : r.Frozen) (cells' : List Hdr) :
    ({ r with cells := cells' } : RState).view
      = r.view.withHdrs (cellGet cells' r.imgCell) (cellGet cells' r.origCell) := by
  apply State.ext'
  · exact view_img_frozen h cells'
  · rfl
  · rfl
  · rfl
  · rfl
  · rfl
  · rfl

theorem rstep_hdr_view {r : RState} (h : r.Frozen) (t : HTarget) (e : HEdit) :
    ∃ a b, (rstep r (.hdr t e)).1.view = r.view.withHdrs a b :=
  ⟨_, _, view_cells_frozen h _⟩

/-- the data outputs of the object-level model with a frozen proxy are those of ANY flat state that
    agrees with its view up to the two header values -/
theorem rdataTrace_flat {r : RState} (h : r.Frozen) (s : State) (a b : Hdr)
    (hv : r.view = s.withHdrs a b) (ops : List Op) : rdataTrace r ops = dataTrace s ops := by
  induction ops generalizing r s a b with
  | nil => rfl
  | cons op ops ih =>
    cases hop : op.isHdr with
    | true =>
      cases op with
      | hdr t e =>
        obtain ⟨a1, b1, h1⟩ := rstep_hdr_view h t e
        obtain ⟨a2, b2, h2⟩ := step_hdr s t e
        simp only [rdataTrace, dataTrace, Op.isHdr, if_true]
        apply ih (rstep_frozen h _) _ a1 b1
        rw [h1, hv, h2]; rfl
      | _ => simp [Op.isHdr] at hop
    | false =>
      have hv' := rstep_data_view r op hop
      simp only [rdataTrace, dataTrace, hop, Bool.false_eq_true, if_false]
      rw [hv'.2, hv, step_withHdrs s a b op hop]
      congr 1
      apply ih (rstep_frozen h _) _ a b
      rw [hv'.1, hv, step_withHdrs s a b op hop]

/-! ### separate header objects: the object-level model IS the flat model -/

theorem cellGet_modify_same (cells : List Hdr) (c : Nat) (f : Hdr → Hdr) (hc : c < cells.length) :
    cellGet (cells.modify c f) c = f (cellGet cells c) := by
  simp [cellGet, hc]

theorem cellGet_modify_ne (cells : List Hdr) (c j : Nat) (f : Hdr → Hdr) (hne : c ≠ j) :
    cellGet (cells.modify c f) j = cellGet cells j := by
  simp [cellGet, hne]

theorem rstep_sep {r : RState} (h : r.Sep) (op : Op) : (rstep r op).1.Sep := by
  cases op with
  | hdr t e => exact ⟨by simpa [rstep] using h.1, by simpa [rstep] using h.2.1, h.2.2⟩
  | _ => exact h

theorem rstep_hdr_sep {r : RState} (hf : r.Frozen) (h : r.Sep) (t : HTarget) (e : HEdit) :
    (rstep r (.hdr t e)).1.view = (step r.view (.hdr t e)).1 ∧
    (rstep r (.hdr t e)).2 = (step r.view (.hdr t e)).2 := by
  obtain ⟨hi, ho, hne⟩ := h
  have hv := view_cells_frozen hf (r.cells.modify (r.cellOf t) e.apply)
  cases t with
  | img =>
    have e1 : cellGet (r.cells.modify r.imgCell e.apply) r.imgCell = e.apply (cellGet r.cells r.imgCell) :=
      cellGet_modify_same _ _ _ hi
    have e2 : cellGet (r.cells.modify r.imgCell e.apply) r.origCell = cellGet r.cells r.origCell :=
      cellGet_modify_ne _ _ _ _ hne
    simp only [RState.cellOf] at hv
    rw [e1, e2] at hv
    refine ⟨hv, ?_⟩
    simp only [rstep, RState.cellOf, step, retRes]
    rw [e1, e2, hv]
    rfl
  | orig =>
    have e1 : cellGet (r.cells.modify r.origCell e.apply) r.origCell = e.apply (cellGet r.cells r.origCell) :=
      cellGet_modify_same _ _ _ ho
    have e2 : cellGet (r.cells.modify r.origCell e.apply) r.imgCell = cellGet r.cells r.imgCell :=
      cellGet_modify_ne _ _ _ _ (Ne.symm hne)
    simp only [RState.cellOf] at hv
    rw [e1, e2] at hv
    refine ⟨hv, ?_⟩
    simp only [rstep, RState.cellOf, step, retRes]
    rw [e1, e2, hv]
    rfl

theorem rstep_flat {r : RState} (hf : r.Frozen) (h : r.Sep) (op : Op) :
    (rstep r op).1.view = (step r.view op).1 ∧ (rstep r op).2 = (step r.view op).2 := by
  cases hop : op.isHdr with
  | false => exact rstep_data_view r op hop
  | true =>
    cases op with
    | hdr t e => exact rstep_hdr_sep hf h t e
    | _ => simp [Op.isHdr] at hop

theorem rrun_flat {r : RState} (hf : r.Frozen) (h : r.Sep) (ops : List Op) :
    rtrace r ops = trace r.view ops ∧ (rrun r ops).view = run r.view ops := by
  induction ops generalizing r with
  | nil => exact ⟨rfl, rfl⟩
  | cons op ops ih =>
    have h1 := rstep_flat hf h op
    have ih' := ih (rstep_frozen hf op) (rstep_sep h op)
    simp only [rtrace, trace, rrun, run]
    rw [h1.2, ih'.1, ih'.2, h1.1]
    exact ⟨rfl, rfl⟩


/-! ### the constructors -/

theorem frozen_of_copy {r : RState} {raw : List Int} {p : Par} (h : r.img = .proxy raw (.copy p)) : r.Frozen := by
  intro raw' c io hc; rw [h] at hc; cases hc

theorem frozen_of_array {r : RState} {o : Nat} (h : r.img = .array o) : r.Frozen := by
  intro raw' c io hc; rw [h] at hc; cases hc

theorem rinitFileMap_frozen (k : Copies) (hk : k.proxy = true) (raw : List Int) (h : Hdr) (io : IOp) :
    (rinitFileMap k raw h io).Frozen := by
  intro raw' c io' hc
  simp only [rinitFileMap, mkSrc, hk, if_true] at hc
  cases hc

theorem rinitCtor_frozen (k : Copies) (hk : k.proxy = true) (raw : List Int) (h : Hdr) (io : IOp) :
    (rinitCtor k raw h io).Frozen := by
  intro raw' c io' hc
  simp only [rinitCtor, mkSrc, hk, if_true] at hc
  cases hc

theorem rinitArray_frozen (k : Copies) (a : Arr) (h : Hdr) : (rinitArray k a h).Frozen :=
  frozen_of_array (o := 0) rfl

theorem rinitFileMap_view (k : Copies) (hk : k.proxy = true) (raw : List Int) (h : Hdr) (io : IOp) :
    ∃ a b, (rinitFileMap k raw h io).view = (initProxy raw h io).withHdrs a b := by
  rcases k with ⟨p, f, i⟩
  simp only at hk; subst hk
  cases f <;> cases i <;> exact ⟨_, _, rfl⟩

theorem rinitCtor_view (k : Copies) (hk : k.proxy = true) (raw : List Int) (h : Hdr) (io : IOp) :
    ∃ a b, (rinitCtor k raw h io).view = (initProxy raw h io).withHdrs a b := by
  rcases k with ⟨p, f, i⟩
  simp only at hk; subst hk
  cases i <;> exact ⟨_, _, rfl⟩

theorem rinitArray_view (k : Copies) (a : Arr) (h : Hdr) :
    ∃ x y, (rinitArray k a h).view = (initArray a h).withHdrs x y := by
  rcases k with ⟨p, f, i⟩
  cases i <;> exact ⟨_, _, rfl⟩

theorem rinitFileMap_code (raw : List Int) (h : Hdr) (io : IOp) :
    (rinitFileMap .code raw h io).view = initProxy raw h io ∧ (rinitFileMap .code raw h io).Sep :=
  ⟨rfl, Nat.lt_succ_self _, by simp [rinitFileMap, Copies.code, mkImgHdr], by simp [rinitFileMap, Copies.code, mkImgHdr]⟩

theorem rinitCtor_code (raw : List Int) (h : Hdr) (io : IOp) :
    (rinitCtor .code raw h io).view = initProxy raw h io ∧ (rinitCtor .code raw h io).Sep :=
  ⟨rfl, Nat.lt_succ_self _, by simp [rinitCtor, Copies.code, mkImgHdr], by simp [rinitCtor, Copies.code, mkImgHdr]⟩

theorem rinitArray_code (a : Arr) (h : Hdr) :
    (rinitArray .code a h).view = initArray a h ∧ (rinitArray .code a h).Sep :=
  ⟨rfl, Nat.lt_succ_self _, by simp [rinitArray, Copies.code, mkImgHdr], by simp [rinitArray, Copies.code, mkImgHdr]⟩

end Nb.C13
