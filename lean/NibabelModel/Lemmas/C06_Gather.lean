import NibabelModel.Lemmas.C06_Segments
/-! Lemmas/C06_Gather — from segments to element numbers, and gather-of-a-gather (stage C). -/
namespace Nb.C06
open Nb Nb.PySlice
attribute [local simp] rangeInts_length rangeInts_zero

/-! ### segments scale with item size and offset -/

/-- a segment in units of elements from the array start, turned into bytes in the file -/
def scaleSeg (off isz : Nat) (s : Segment) : Segment :=
  ⟨(off : Int) + (isz : Int) * s.offset, isz * s.length⟩

theorem segStep_scale (off isz : Nat) (r : ReadItem) (n stride : Nat) (allFull : Bool)
    (segs : List Segment) :
    segStep r n (isz * stride) allFull (segs.map (scaleSeg off isz))
      = (segStep r n stride allFull segs).map (scaleSeg off isz) := by
  cases r with
  | newaxis => rfl
  | int i =>
    simp only [segStep, List.map_map]
    apply List.map_congr_left
    intro s _
    simp only [Function.comp, scaleSeg, Int.natCast_mul, Int.mul_add, Segment.mk.injEq, and_true]
    rw [Int.mul_assoc]; omega
  | full =>
    simp only [segStep]
    split
    · simp only [List.map_map]
      apply List.map_congr_left
      intro s _
      simp only [Function.comp, scaleSeg, Int.natCast_mul, Int.mul_add, Segment.mk.injEq]
      refine ⟨by rw [Int.mul_assoc]; omega, by rw [Nat.mul_assoc]⟩
    · rw [List.map_flatMap]
      apply flatMap_congr'
      intro x _
      simp only [List.map_map]
      apply List.map_congr_left
      intro s _
      simp only [Function.comp, scaleSeg, Int.natCast_mul, Int.mul_add, Segment.mk.injEq, and_true]
      rw [Int.mul_assoc]; omega
  | slice a b c =>
    simp only [segStep]
    split
    · simp only [List.map_map]
      apply List.map_congr_left
      intro s _
      simp only [Function.comp, scaleSeg, Int.natCast_mul, Int.mul_add, Segment.mk.injEq]
      refine ⟨by rw [Int.mul_assoc]; omega, by rw [Nat.mul_assoc]⟩
    · rw [List.map_flatMap]
      apply flatMap_congr'
      intro x _
      simp only [List.map_map]
      apply List.map_congr_left
      intro s _
      simp only [Function.comp, scaleSeg, Int.natCast_mul, Int.mul_add, Segment.mk.injEq, and_true]
      rw [Int.mul_assoc]; omega

theorem segLoop_scale (off isz : Nat) (rs : List ReadItem) (shape : List Nat) (stride : Nat)
    (allFull : Bool) (segs : List Segment) :
    segLoop rs shape (isz * stride) allFull (segs.map (scaleSeg off isz))
      = (segLoop rs shape stride allFull segs).map (scaleSeg off isz) := by
  fun_induction segLoop rs shape stride allFull segs with
  | case1 => simp [segLoop]
  | case2 rest shape stride allFull segs ih => simpa [segLoop] using ih
  | case3 stride allFull r rest segs hr =>
    cases r <;> first | rfl | exact absurd rfl hr
  | case4 r rest n shape stride allFull segs hr he =>
    cases r <;> first | exact absurd rfl hr | simp [segLoop, he]
  | case5 r rest n shape stride allFull segs hr he ih =>
    have : segLoop (r :: rest) (n :: shape) (isz * stride) allFull (segs.map (scaleSeg off isz))
        = segLoop rest shape (isz * stride * n) (allFull && r.isFullFor n)
            (segStep r n (isz * stride) allFull (segs.map (scaleSeg off isz))) := by
      cases r <;> first | exact absurd rfl hr | simp [segLoop, he]
    rw [this, segStep_scale, Nat.mul_assoc]
    exact ih

theorem slicers2segments_scale (rs : List ReadItem) (shape : List Nat) (off isz : Nat) :
    slicers2segments rs shape off isz = (slicers2segments rs shape 0 1).map (scaleSeg off isz) := by
  unfold slicers2segments
  rw [← segLoop_scale]
  simp [scaleSeg]

/-- element numbers covered by the segments = F-order enumeration of the selected sub-array -/
theorem segElems_eq (rs : List ReadItem) (shape : List Nat) (off isz : Nat) (hisz : 0 < isz)
    (hc : ReadCanon rs shape) :
    segElems off isz (slicers2segments rs shape off isz)
      = (gatherF (readLists rs shape) shape).map Int.ofNat := by
  have h1 := segments_cover' rs shape 0 1 hc
  rw [slicers2segments_scale]
  unfold segElems
  rw [List.flatMap_map]
  have h2 : (gatherF (readLists rs shape) shape).map Int.ofNat
      = (gatherF (readLists rs shape) shape).flatMap
          (fun (q : Nat) => rangeInts (((0 : Nat) : Int) + ((1 : Nat) : Int) * (q : Int)) 1 1) := by
    rw [← List.flatMap_singleton' (l := (gatherF (readLists rs shape) shape).map Int.ofNat),
      List.flatMap_map]
    apply flatMap_congr'
    intro q _
    simp [rangeInts]
  rw [h2, ← h1]
  apply flatMap_congr'
  intro s _
  unfold Segment.addrs rangeInts scaleSeg
  simp only []
  rw [Nat.mul_div_cancel_left _ hisz]
  apply List.map_congr_left
  intro k _
  have : (off : Int) + (isz : Int) * s.offset - (off : Int) = (isz : Int) * s.offset := by omega
  rw [this, Int.mul_ediv_cancel_left _ (by omega)]
  omega

/-! ### indexing into a concatenation of equal-length blocks -/

theorem getElem?_flatMap_block {α β} (f : α → List β) (m : Nat) :
    ∀ (xs : List α), (∀ x ∈ xs, (f x).length = m) → ∀ (j r : Nat), j < m →
      (xs.flatMap f)[j + m * r]? = (xs[r]?).bind (fun x => (f x)[j]?)
  | [], _, j, r, _ => by simp
  | x :: xs, hlen, j, r, hj => by
      have hx : (f x).length = m := hlen x (by simp)
      rw [List.flatMap_cons]
      cases r with
      | zero =>
        rw [Nat.mul_zero, Nat.add_zero, List.getElem?_append_left (by omega)]
        simp
      | succ r =>
        rw [List.getElem?_append_right (by rw [hx, Nat.mul_succ]; omega)]
        have : j + m * (r + 1) - (f x).length = j + m * r := by rw [hx, Nat.mul_succ]; omega
        rw [this, getElem?_flatMap_block f m xs (fun y hy => hlen y (by simp [hy])) j r hj]
        simp

/-! ### gather of a gather, one axis at a time -/

theorem gatherF_cons (l : List Nat) (ls : List (List Nat)) (n : Nat) (ns : List Nat) :
    gatherF (l :: ls) (n :: ns) = (gatherF ls ns).flatMap (fun r => l.map (fun i => i + n * r)) := rfl

/-- a length-1 axis selected by `[0]` does not change the enumeration -/
theorem gatherF_unit (P : List (List Nat)) (RS : List Nat) :
    gatherF ([0] :: P) (1 :: RS) = gatherF P RS := by
  rw [gatherF_cons]
  simp

/-- **gather of a gather**, one more axis: if `pl` picks `tl` out of the read positions `l`, and
    the remaining axes already compose, then so does the whole -/
theorem gather_step (l : List Nat) (n : Nat) (L' : List (List Nat)) (ns : List Nat)
    (pl tl : List Nat) (P : List (List Nat)) (RS : List Nat) (S' : List (List Nat))
    (hcomp : pl.map (l[·]?) = tl.map some)
    (ih : (gatherF P RS).map ((gatherF L' ns)[·]?) = (gatherF S' ns).map some) :
    (gatherF (pl :: P) (l.length :: RS)).map ((gatherF (l :: L') (n :: ns))[·]?)
      = (gatherF (tl :: S') (n :: ns)).map some := by
  have hpl : ∀ j ∈ pl, j < l.length := by
    intro j hj
    have h1 : l[j]? ∈ pl.map (l[·]?) := List.mem_map.mpr ⟨j, hj, rfl⟩
    rw [hcomp] at h1
    obtain ⟨t, _, ht⟩ := List.mem_map.mp h1
    by_cases hlt : j < l.length
    · exact hlt
    · rw [List.getElem?_eq_none (by omega)] at ht; cases ht
  rw [gatherF_cons, gatherF_cons, gatherF_cons, List.map_flatMap, List.map_flatMap]
  -- left: push the lookup through the block structure
  have hL : ∀ r ∈ gatherF P RS,
      (pl.map (fun i => i + l.length * r)).map
          (((gatherF L' ns).flatMap (fun r => l.map (fun i => i + n * r)))[·]?)
        = pl.map (fun j => ((gatherF L' ns)[r]?).bind (fun g => (l[j]?).map (· + n * g))) := by
    intro r _
    rw [List.map_map]
    apply List.map_congr_left
    intro j hj
    simp only [Function.comp]
    rw [getElem?_flatMap_block _ l.length _ (by intro x _; simp) j r (hpl j hj)]
    congr 1
    funext g
    rw [List.getElem?_map]
  rw [flatMap_congr' hL]
  have hF : (gatherF P RS).flatMap
        (fun r => pl.map (fun j => ((gatherF L' ns)[r]?).bind (fun g => (l[j]?).map (· + n * g))))
      = ((gatherF P RS).map ((gatherF L' ns)[·]?)).flatMap
        (fun o => pl.map (fun j => o.bind (fun g => (l[j]?).map (· + n * g)))) := by
    rw [List.flatMap_map]
  rw [hF, ih, List.flatMap_map]
  apply flatMap_congr'
  intro g _
  simp only [Option.bind_some]
  have : pl.map (fun j => (l[j]?).map (· + n * g)) = (pl.map (l[·]?)).map (Option.map (· + n * g)) := by
    rw [List.map_map]; rfl
  rw [this, hcomp, List.map_map, List.map_map]
  rfl

end Nb.C06
