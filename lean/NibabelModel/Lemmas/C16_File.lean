import NibabelModel.Model.C16
import NibabelModel.Lemmas.C16_Digits
import NibabelModel.Lemmas.C16_Trk
/-! Lemmas/C16_File — byte-level TCK file: header length = announced offset, decode ∘ encode (core Lean only). -/
namespace Nb.C16

theorem decWord_encWord (w : Nat) (h : w < 4294967296) :
    decWord (w % 256) (w / 256 % 256) (w / 65536 % 256) (w / 16777216 % 256) = w := by
  unfold decWord; omega

def Is32 (t : Triple) : Prop := t.1 < 4294967296 ∧ t.2.1 < 4294967296 ∧ t.2.2 < 4294967296

theorem decTriples_encTriples (ts : List Triple) (h : ∀ t ∈ ts, Is32 t) : decTriples (encTriples ts) = (ts, 0) := by
  induction ts with
  | nil => rfl
  | cons t rest ih =>
    obtain ⟨x, y, z⟩ := t
    have ht := h (x, y, z) (by simp)
    have := ih (fun u hu => h u (by simp [hu]))
    simp only [encTriples] at this
    simp only [encTriples, List.map_cons, List.flatten_cons, encTriple, encWord, List.cons_append, List.nil_append,
      decTriples, this]
    rw [decWord_encWord x ht.1, decWord_encWord y ht.2.1, decWord_encWord z ht.2.2]

theorem takeWhile_append_stop {α} (p : α → Bool) (a : List α) (b : α) (r : List α)
    (ha : ∀ x ∈ a, p x = true) (hb : p b = false) : (a ++ b :: r).takeWhile p = a := by
  induction a with
  | nil => simp [hb]
  | cons x xs ih =>
    have hx := ha x (by simp)
    simp [hx, ih (fun y hy => ha y (by simp [hy]))]

/-- the model's offset satisfies the fixed-point equation (same argument as `tck_offset_fixpoint`) -/
theorem tckHdrOffset_fix (L : Nat) :
    tckHdrOffset L = L + tckFilePrefix.length + decDigits (tckHdrOffset L) + tckFileSuffix.length := by
  have h := offset_digits_fixpoint (L + 8 + 3 + 3)
  simp only [tckHdrOffset, tckFilePrefix, tckFileSuffix, List.length_cons, List.length_nil]
  omega

theorem tckData_is32 (sls : List (List Triple)) (h : ∀ s ∈ sls, ∀ t ∈ s, Is32 t) : ∀ t ∈ tckData sls, Is32 t := by
  intro t ht
  simp only [tckData, List.mem_append, List.mem_flatten, List.mem_map, List.mem_singleton] at ht
  rcases ht with ⟨l, ⟨s, hs, rfl⟩, htl⟩ | rfl
  · rcases List.mem_append.mp htl with h1 | h1
    · exact h s hs t h1
    · simp at h1; subst h1; exact ⟨by decide, by decide, by decide⟩
  · exact ⟨by decide, by decide, by decide⟩

end Nb.C16
