import NibabelModel.Lemmas.C20_Load
/-! Lemmas/C20_Lax — stability of `stableSort` on sorted sublists; occurrence numbers grow along equal
    values; under lax sorting same-slice records keep their file order. -/
namespace Nb.C20

variable {α : Type}

theorem sublist_insertSorted (le : α → α → Bool) (a : α) : ∀ l : List α, l.Sublist (insertSorted le a l)
  | [] => by simp [insertSorted]
  | b :: l => by
      simp only [insertSorted]
      split
      · exact List.Sublist.cons _ (List.Sublist.refl _)
      · exact (sublist_insertSorted le a l).cons_cons b

theorem cons_sublist_insertSorted {le : α → α → Bool} {a : α} :
    ∀ {L c : List α}, (∀ x ∈ c, le a x = true) → c.Sublist L → (a :: c).Sublist (insertSorted le a L)
  | [], c, _, h => by
      have : c = [] := List.eq_nil_of_sublist_nil h
      subst this; simp [insertSorted]
  | b :: L, c, hc, h => by
      simp only [insertSorted]
      by_cases hab : le a b = true
      · simp only [hab, if_true]
        exact h.cons_cons a
      · simp only [hab]
        cases h with
        | cons _ h' => exact (cons_sublist_insertSorted hc h').cons b
        | cons_cons _ h' => exact absurd (hc b (by simp)) hab

/-- **stability**: a sublist that is already sorted stays a sublist, in its order -/
theorem sublist_stableSort {le : α → α → Bool} :
    ∀ {l c : List α}, c.Pairwise (fun x y => le x y = true) → c.Sublist l → c.Sublist (stableSort le l)
  | [], c, _, h => by simpa [stableSort] using h
  | a :: l, c, hp, h => by
      simp only [stableSort]
      cases h with
      | cons _ h' => exact (sublist_stableSort hp h').trans (sublist_insertSorted le a _)
      | cons_cons _ h' =>
        rename_i c'
        rw [List.pairwise_cons] at hp
        exact cons_sublist_insertSorted hp.1 (sublist_stableSort hp.2 h')

/-- the part of a stable sort that satisfies `p` is the `p`-part of the input, in input order, when
    that part is already sorted -/
theorem filter_stableSort_eq {le : α → α → Bool} (p : α → Bool) (l : List α)
    (h : (l.filter p).Pairwise (fun x y => le x y = true)) :
    (stableSort le l).filter p = l.filter p := by
  have hsub : (l.filter p).Sublist (stableSort le l) := sublist_stableSort h List.filter_sublist
  have hsub2 : (l.filter p).Sublist ((stableSort le l).filter p) := by
    have := hsub.filter p
    simpa [List.filter_filter] using this
  have hlen : ((stableSort le l).filter p).length = (l.filter p).length :=
    ((stableSort_perm le l).filter p).length_eq
  exact (hsub2.eq_of_length hlen.symm).symm

/-! ### occurrence numbers -/

theorem occAux_getElem [BEq α] [LawfulBEq α] : ∀ (l seen : List α) (i : Nat) (h : i < l.length),
    (occAux seen l)[i]'(by rw [occAux_length]; exact h) = seen.count l[i] + (l.take i).count l[i]
  | [], _, _, h => by simp at h
  | s :: rest, seen, 0, _ => by simp [occAux]
  | s :: rest, seen, i + 1, h => by
      have ih := occAux_getElem rest (s :: seen) i (by simpa using h)
      simp only [occAux, List.getElem_cons_succ, List.take_succ_cons, ih, List.count_cons]
      omega

/-- a later occurrence of the same value has a larger occurrence number -/
theorem occNumbers_lt [BEq α] [LawfulBEq α] (l : List α) (i j : Nat) (hj : j < l.length) (hij : i < j)
    (he : l[i]'(by omega) = l[j]) :
    (occNumbers l)[i]'(by unfold occNumbers; rw [occAux_length]; omega) <
      (occNumbers l)[j]'(by unfold occNumbers; rw [occAux_length]; exact hj) := by
  have hi : i < l.length := by omega
  unfold occNumbers
  rw [occAux_getElem l [] i hi, occAux_getElem l [] j hj, ← he]
  simp only [List.count_nil, Nat.zero_add]
  have h1 : (l.take (i + 1)).count l[i] = (l.take i).count l[i] + 1 := by
    rw [List.take_succ_eq_append_getElem hi, List.count_append]; simp
  have h2 : (l.take (i + 1)).count l[i] ≤ (l.take j).count l[i] :=
    (List.take_sublist_take_left (by omega : i + 1 ≤ j)).count_le _
  omega

end Nb.C20

namespace Nb.C20

theorem indexedFrom_length {α : Type} : ∀ (k : Nat) (l : List α), (indexedFrom k l).length = l.length
  | _, [] => rfl
  | k, _ :: l => by simp [indexedFrom, indexedFrom_length (k + 1) l]

theorem indexedFrom_getElem_eq {α : Type} : ∀ (k : Nat) (l : List α) (i : Nat) (h : i < l.length),
    (indexedFrom k l)[i]'(by rw [indexedFrom_length]; exact h) = (k + i, l[i])
  | _, [], _, h => by simp at h
  | k, a :: l, 0, _ => by simp [indexedFrom]
  | k, a :: l, i + 1, h => by
      have := indexedFrom_getElem_eq (k + 1) l i (by simpa using h)
      simp only [indexedFrom, List.getElem_cons_succ, this]
      congr 1; omega

theorem volsAndFull_length {τ : Type} [BEq τ] [LawfulBEq τ] (tagged : List (τ × Int)) (smax : Int) :
    (volsAndFull tagged smax).length = tagged.length := by
  simp [volsAndFull, occNumbers, occAux_length]

theorem occNumbers_length {α : Type} [BEq α] [LawfulBEq α] (l : List α) : (occNumbers l).length = l.length := by
  simp [occNumbers, occAux_length]

/-- fullness is downward closed in the volume number -/
theorem full_antitone (tagged : List (Unit × Int)) (smax : Int) {w w' : Nat} (h : w ≤ w')
    (hf : ((sliceRange smax).all fun s => decide (w' < tagged.count ((), s))) = true) :
    ((sliceRange smax).all fun s => decide (w < tagged.count ((), s))) = true := by
  simp only [List.all_eq_true, decide_eq_true_eq] at *
  intro s hs
  have := hf s hs
  omega

/-- in file order, the lax keys of the records of one slice number are increasing -/
theorem laxZ_pairwise (c : Cfg) (recs : List Rec) (s : Int) :
    let tagged := (recs.map (·.slice)).map fun s => ((), s)
    let keys := ((volsAndFull tagged c.maxSlices).zip (recs.map (·.slice))).map
      fun x => (!x.1.2, x.1.1, x.2)
    ((keys.zip (indexed recs)).filter (fun x => x.2.2.slice == s)).Pairwise
      (fun a b => laxLe a.1 b.1 = true) := by
  intro tagged keys
  rw [List.pairwise_filter, List.pairwise_iff_getElem]
  intro i j hi hj hij
  have hlen : (keys.zip (indexed recs)).length = recs.length := by
    simp [keys, tagged, indexed, volsAndFull_length, indexedFrom_length]
  have hi' : i < recs.length := by omega
  have hj' : j < recs.length := by omega
  have hocc := occNumbers_lt tagged i j (by simp [tagged]; exact hj') hij
  simp only [keys, indexed, List.getElem_zip, List.getElem_map, volsAndFull_eq,
    indexedFrom_getElem_eq 0 recs i hi', indexedFrom_getElem_eq 0 recs j hj', beq_iff_eq]
  intro hsi hsj
  have hocc' := hocc (by simp [tagged, hsi, hsj])
  unfold laxLe
  simp only [hsi, hsj]
  generalize (occNumbers tagged)[i]'_ = wi at *
  generalize (occNumbers tagged)[j]'_ = wj at *
  cases hfi : (sliceRange c.maxSlices).all fun s => decide (wi < tagged.count ((), s)) <;>
    cases hfj : (sliceRange c.maxSlices).all fun s => decide (wj < tagged.count ((), s))
  · simp; omega
  · have := full_antitone tagged c.maxSlices (Nat.le_of_lt hocc') hfj
    rw [hfi] at this; cases this
  · simp
  · simp; omega

end Nb.C20

namespace Nb.C20

/-- under lax sorting the (position, record) pairs of one slice number keep their file order -/
theorem laxOrder_filter_slice (c : Cfg) (recs : List Rec) (o : List (Nat × Rec))
    (h : laxOrder c recs = .ok o) (s : Int) :
    o.filter (fun p => p.2.slice == s) = (indexed recs).filter (fun p => p.2.slice == s) := by
  unfold laxOrder laxKeys volsFullGlobal at h
  by_cases hr : (recs.map (·.slice)).all (inRange c.maxSlices) = true
  · simp only [hr, if_true, bind, Except.bind, pure, Except.pure] at h
    injection h with h
    subst h
    have hp := laxZ_pairwise c recs s
    simp only at hp
    rw [List.filter_map]
    have hf := filter_stableSort_eq (le := fun a b : (Bool × Nat × Int) × Nat × Rec => laxLe a.1 b.1)
      (fun x => x.2.2.slice == s) _ hp
    simp only [Function.comp_def]
    rw [hf]
    have hz : ((((volsAndFull ((recs.map (·.slice)).map fun s => ((), s)) c.maxSlices).zip
        (recs.map (·.slice))).map fun x => (!x.1.2, x.1.1, x.2)).zip (indexed recs)).map (·.2) =
        indexed recs := by
      rw [List.map_snd_zip]
      simp [indexed, indexedFrom_length, volsAndFull_length]
    conv => rhs; rw [← hz, List.filter_map]
    rfl
  · simp [hr, bind, Except.bind] at h

end Nb.C20
