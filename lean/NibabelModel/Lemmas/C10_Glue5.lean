import NibabelModel.Lemmas.C10_Glue4
/-! Lemmas/C10_Glue5 — `readCF (writeCF vals h) = h` for every representable record `h` that agrees with
    the header on what cannot be stored. -/
namespace Nb.C10

theorem int_read (L : Layout) (n : String) (x : Int) (hx : intFits (fieldW L n) x) :
    (List.map (toInt (fieldW L n)) [ofInt (fieldW L n) x]).getD 0 0 = x := by
  simp [toInt_ofInt _ _ hx]

/-- agreement of `h` with the header on what `writeCF` cannot store: the four read-only components and
    the components of absent slots -/
structure Agrees (L : Layout) (vals : List (List Nat)) (h : CF) : Prop where
  dt : h.datatype = (readCF L vals).datatype
  mg : h.magic = (readCF L vals).magic
  org : h.origin = (readCF L vals).origin
  dim : h.dim = (readCF L vals).dim
  absent : ∀ n ∈ writtenSlots, present L n = false → slotView n h = slotView n (readCF L vals)

theorem readCF_writeCF (L : Layout) (vals : List (List Nat))
    (hv : valsOk L.fields vals = true) (h : CF) (hh : CFFits L h) (ha : Agrees L vals h) :
    readCF L (writeCF L vals h) = h := by
  have G := getRaw_writeCF L vals hv h
  have R := getRaw_writeCF_ro L vals h
  have absentRaw : ∀ n, present L n = false → getRaw L vals n = [] := by
    intro n hn
    unfold present at hn
    cases hf : findFs L.fields n with
    | none => exact getRawFs_absent _ _ _ hf
    | some f => simp [hf] at hn
  -- the five single-integer slots
  have e_sz : (readCF L (writeCF L vals h)).sizeofHdr = h.sizeofHdr := by
    show (getInts L _ "sizeof_hdr").getD 0 0 = _
    unfold getInts; rw [G _ (by decide)]
    by_cases hp : present L "sizeof_hdr" = true
    · simp only [hp, if_true, newRaw]; exact int_read L _ _ hh.sz
    · have hp' : present L "sizeof_hdr" = false := by simpa using hp
      have := ha.absent _ (by decide) hp'
      simp only [slotView, if_true, Prod.mk.injEq] at this
      simp [hp', this.1, readCF, getInts, absentRaw _ hp']
  have e_bp : (readCF L (writeCF L vals h)).bitpix = h.bitpix := by
    show (getInts L _ "bitpix").getD 0 0 = _
    unfold getInts; rw [G _ (by decide)]
    by_cases hp : present L "bitpix" = true
    · simp only [hp, if_true, newRaw, String.reduceEq, if_false]; exact int_read L _ _ hh.bp
    · have hp' : present L "bitpix" = false := by simpa using hp
      have := ha.absent _ (by decide) hp'
      simp only [slotView, String.reduceEq, if_false, if_true, Prod.mk.injEq] at this
      simp [hp', this.1, readCF, getInts, absentRaw _ hp']
  have e_qf : (readCF L (writeCF L vals h)).qform = h.qform := by
    show (getInts L _ "qform_code").getD 0 0 = _
    unfold getInts; rw [G _ (by decide)]
    by_cases hp : present L "qform_code" = true
    · simp only [hp, if_true, newRaw, String.reduceEq, if_false]; exact int_read L _ _ hh.qf
    · have hp' : present L "qform_code" = false := by simpa using hp
      have := ha.absent _ (by decide) hp'
      simp only [slotView, String.reduceEq, if_false, if_true, Prod.mk.injEq] at this
      simp [hp', this.1, readCF, getInts, absentRaw _ hp']
  have e_sf : (readCF L (writeCF L vals h)).sform = h.sform := by
    show (getInts L _ "sform_code").getD 0 0 = _
    unfold getInts; rw [G _ (by decide)]
    by_cases hp : present L "sform_code" = true
    · simp only [hp, if_true, newRaw, String.reduceEq, if_false]; exact int_read L _ _ hh.sf
    · have hp' : present L "sform_code" = false := by simpa using hp
      have := ha.absent _ (by decide) hp'
      simp only [slotView, String.reduceEq, if_false, if_true, Prod.mk.injEq] at this
      simp [hp', this.1, readCF, getInts, absentRaw _ hp']
  have e_ver : (readCF L (writeCF L vals h)).version = h.version := by
    show (getInts L _ "version").getD 0 0 = _
    unfold getInts; rw [G _ (by decide)]
    by_cases hp : present L "version" = true
    · simp only [hp, if_true, newRaw, String.reduceEq, if_false]; exact int_read L _ _ hh.ver
    · have hp' : present L "version" = false := by simpa using hp
      have := ha.absent _ (by decide) hp'
      simp only [slotView, String.reduceEq, if_false, if_true, Prod.mk.injEq] at this
      simp [hp', this.1, readCF, getInts, absentRaw _ hp']
  -- vox_offset
  have e_vox : (readCF L (writeCF L vals h)).voxOffset = h.voxOffset := by
    show (getRaw L _ "vox_offset").getD 0 0 = _
    rw [G _ (by decide)]
    by_cases hp : present L "vox_offset" = true
    · simp [hp, newRaw]
    · have hp' : present L "vox_offset" = false := by simpa using hp
      have := ha.absent _ (by decide) hp'
      simp only [slotView, String.reduceEq, if_false, if_true, Prod.mk.injEq] at this
      simp [hp', this.2.1, readCF, absentRaw _ hp']
  -- pixdim: qfac and the three spatial entries
  have e_pix : (readCF L (writeCF L vals h)).qfac = h.qfac ∧ (readCF L (writeCF L vals h)).pixdim = h.pixdim := by
    show (getRaw L _ "pixdim").getD 0 0 = _ ∧ ((getRaw L _ "pixdim").drop 1).take 3 = _
    rw [G _ (by decide)]
    by_cases hp : present L "pixdim" = true
    · have hpl : h.pixdim.length = 3 := by rw [hh.pixl]; simp [pixLen, hp]
      simp only [hp, if_true, newRaw, String.reduceEq, if_false]
      refine ⟨by simp, ?_⟩
      show (h.pixdim ++ _).take 3 = h.pixdim
      exact List.take_left' hpl
    · have hp' : present L "pixdim" = false := by simpa using hp
      have := ha.absent _ (by decide) hp'
      simp only [slotView, String.reduceEq, if_false, if_true, Prod.mk.injEq] at this
      simp [hp', this.2.1, this.2.2.1, readCF, absentRaw _ hp']
  -- eol_check
  have e_eol : (readCF L (writeCF L vals h)).eol = h.eol := by
    show getInts L _ "eol_check" = _
    unfold getInts; rw [G _ (by decide)]
    by_cases hp : present L "eol_check" = true
    · simp only [hp, if_true, newRaw, String.reduceEq, if_false, List.map_map]
      conv => rhs; rw [← List.map_id h.eol]
      apply List.map_congr_left
      intro x hx
      simp [toInt_ofInt _ _ (hh.eol x hx)]
    · have hp' : present L "eol_check" = false := by simpa using hp
      have := ha.absent _ (by decide) hp'
      simp only [slotView, String.reduceEq, if_false, if_true, Prod.mk.injEq] at this
      simp [hp', this.2.2.2, readCF, getInts, absentRaw _ hp']
  -- read-only components
  have e_dt : (readCF L (writeCF L vals h)).datatype = h.datatype := by
    rw [ha.dt]; show (getInts L _ "datatype").getD 0 0 = (getInts L _ "datatype").getD 0 0
    unfold getInts; rw [R _ (by decide)]
  have e_mg : (readCF L (writeCF L vals h)).magic = h.magic := by
    rw [ha.mg]; show getRaw L _ "magic" = getRaw L _ "magic"
    rw [R _ (by decide)]
  have e_org : (readCF L (writeCF L vals h)).origin = h.origin := by
    rw [ha.org]; show (getInts L _ "origin").take 3 = (getInts L _ "origin").take 3
    unfold getInts; rw [R _ (by decide)]
  have e_dim : (readCF L (writeCF L vals h)).dim = h.dim := by
    rw [ha.dim]; show ((getInts L _ "dim").drop 1).take 3 = ((getInts L _ "dim").drop 1).take 3
    unfold getInts; rw [R _ (by decide)]
  cases h
  cases hW : readCF L (writeCF L vals _)
  simp_all

/-- the result of a battery agrees with the header on what cannot be stored -/
theorem fixAll_agrees (c : ClsSpec) (L : Layout) (hc : Compat c L) (vals : List (List Nat)) :
    Agrees L vals (fixAll c c.checks (readCF L vals)) := by
  have ro := readonly_fixAll c c.checks (readCF L vals)
  refine ⟨ro.1, ro.2.1, ro.2.2.1, ro.2.2.2, ?_⟩
  intro n _ hp
  apply slotView_fixAll
  intro k hk hks
  have := hc.slots k hk n hks
  rw [hp] at this; cases this

end Nb.C10

namespace Nb.C10

/-! ### from field values to bytes -/

theorem tiles_mem_bound {fs : List Field} {off size : Nat} (h : tiles fs off size = true) (f : Field)
    (hf : f ∈ fs) : f.offset + f.nbytes ≤ size := by
  induction fs generalizing off with
  | nil => cases hf
  | cons g fs ih =>
    simp only [tiles, Bool.and_eq_true, beq_iff_eq] at h
    rcases List.mem_cons.mp hf with rfl | hf
    · have := tiles_total h.2; rw [h.1]; omega
    · exact ih h.2 hf

theorem getRawFs_parseFs (fs : List Field) (e : Endian) (bs : List Byte) (f : Field) (hf : f ∈ fs)
    (hnd : (fs.map (·.name)).Nodup) :
    getRawFs fs (fs.map (fun g => parseField g e bs)) f.name = parseField f e bs := by
  induction fs with
  | nil => cases hf
  | cons g fs ih =>
    simp only [List.map_cons, List.nodup_cons] at hnd
    rcases List.mem_cons.mp hf with rfl | hf
    · simp [getRawFs]
    · have hne : ¬ g.name = f.name := fun h => hnd.1 (h ▸ List.mem_map_of_mem hf)
      simp only [List.map_cons, getRawFs, hne, if_false]
      exact ih hf hnd.2

/-- equal items of a field mean equal bytes of that field -/
theorem field_bytes_eq (f : Field) (e : Endian) (a b : List Byte) (ha : f.offset + f.nbytes ≤ a.length)
    (hb : f.offset + f.nbytes ≤ b.length) (h : parseField f e a = parseField f e b) :
    (a.drop f.offset).take f.nbytes = (b.drop f.offset).take f.nbytes := by
  unfold parseField at h
  have h1 := encItems_decItems e f.iw f.n (a.drop f.offset) (by rw [List.length_drop]; unfold Field.nbytes at ha; omega)
  have h2 := encItems_decItems e f.iw f.n (b.drop f.offset) (by rw [List.length_drop]; unfold Field.nbytes at hb; omega)
  unfold Field.nbytes
  rw [← h1, ← h2, h]

end Nb.C10
