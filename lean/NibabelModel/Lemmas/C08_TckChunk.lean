import NibabelModel.Lemmas.C08_Tck
/-! Lemmas/C08_TckChunk — the chunked loop of `TckFile._read` refines the whole-buffer model `tckData`:
    for every buffer size that is a positive multiple of 12 the chunked reader returns exactly what
    reading everything at once returns (value or error). -/
namespace Nb.C08

theorem tckSplit_append (L1 L2 : List Bytes) : ∀ cur acc,
    tckSplit (L1 ++ L2) cur acc =
      tckSplit L2 (tckSplit L1 cur acc).2.reverse (tckSplit L1 cur acc).1.reverse := by
  induction L1 with
  | nil => intro cur acc; simp [tckSplit]
  | cons t r ih =>
    intro cur acc
    simp only [List.cons_append, tckSplit]
    split
    · exact ih _ _
    · exact ih _ _

theorem triples_take (q : Nat) : ∀ (b : Bytes), triples q (b.take (12 * q)) = triples q b := by
  induction q with
  | zero => intro b; rfl
  | succ q ih =>
    intro b
    simp only [triples]
    rw [List.take_take, List.drop_take]
    have h1 : min 12 (12 * (q + 1)) = 12 := by omega
    have h2 : 12 * (q + 1) - 12 = 12 * q := by omega
    rw [h1, h2, ih]

theorem triples_add (q r : Nat) : ∀ (b : Bytes),
    triples (q + r) b = triples q b ++ triples r (b.drop (12 * q)) := by
  induction q with
  | zero => intro b; simp [triples]
  | succ q ih =>
    intro b
    have : q + 1 + r = (q + r) + 1 := by omega
    rw [this]
    simp only [triples, List.cons_append]
    rw [ih, List.drop_drop]
    have : 12 + 12 * q = 12 * (q + 1) := by omega
    rw [this]

/-- the whole-buffer computation of `tckData`, started from a loop state -/
def tckWholeFrom (d : Bytes) (left : List Bytes) (done : List (List Bytes)) : Except Err (List (List Bytes)) :=
  if d.length % 4 ≠ 0 then .error .trunc
  else if (d.length / 4) % 3 ≠ 0 then .error .trunc
  else tckFinish (tckSplit (triples (d.length / 12) d) left.reverse done.reverse)

theorem tckWholeFrom_step (B : Nat) (hB : B % 12 = 0) (d : Bytes) (hd : B ≤ d.length)
    (left : List Bytes) (done : List (List Bytes)) :
    tckWholeFrom d left done =
      tckWholeFrom (d.drop B)
        (tckSplit (triples (B / 12) (d.take B)) left.reverse done.reverse).2
        (tckSplit (triples (B / 12) (d.take B)) left.reverse done.reverse).1 := by
  obtain ⟨q, rfl⟩ : ∃ q, B = 12 * q := ⟨B / 12, by omega⟩
  unfold tckWholeFrom
  have hl : (d.drop (12 * q)).length = d.length - 12 * q := List.length_drop
  rw [hl]
  have e4 : (d.length - 12 * q) % 4 = d.length % 4 := by omega
  have e3 : (d.length - 12 * q) / 4 % 3 = d.length / 4 % 3 := by omega
  rw [e4, e3]
  split
  · rfl
  · split
    · rfl
    · have hq : 12 * q / 12 = q := by omega
      have hsum : d.length / 12 = q + (d.length - 12 * q) / 12 := by omega
      rw [hq, hsum, triples_add, tckSplit_append, triples_take]

theorem chunkLoop_plain (B : Nat) (hB0 : 0 < B) (hB : B % 12 = 0) (bytes : Bytes) :
    ∀ fuel pos left done, (bytes.drop pos).length + 1 ≤ fuel →
      tckChunkLoop ⟨bytes, false⟩ B fuel pos left done = tckWholeFrom (bytes.drop pos) left done := by
  intro fuel
  induction fuel with
  | zero => intro pos left done h; omega
  | succ fuel ih =>
    intro pos left done hf
    simp only [tckChunkLoop, Src.read, Bool.false_and, Bool.false_eq_true, if_false]
    by_cases hfull : B ≤ (bytes.drop pos).length
    · -- a full chunk
      have hlen : ((bytes.drop pos).take B).length = B := by
        rw [List.length_take]; omega
      rw [hlen]
      rw [if_neg (by omega), if_neg (by omega), if_neg (by simp)]
      rw [ih (pos + B) _ _ (by
        have : (bytes.drop (pos + B)).length = (bytes.drop pos).length - B := by
          simp only [List.length_drop]; omega
        omega)]
      rw [tckWholeFrom_step B hB (bytes.drop pos) hfull left done, List.drop_drop]
    · -- the last, short chunk
      have ht : (bytes.drop pos).take B = bytes.drop pos := List.take_of_length_le (by omega)
      rw [ht]
      unfold tckWholeFrom
      split
      · rfl
      · split
        · rfl
        · rw [if_pos (by omega)]

theorem chunkLoop_strict (B : Nat) (hB0 : 0 < B) (bytes : Bytes) :
    ∀ fuel pos left done, (bytes.drop pos).length + 1 ≤ fuel →
      tckChunkLoop ⟨bytes, true⟩ B fuel pos left done = .error .trunc := by
  intro fuel
  induction fuel with
  | zero => intro pos left done h; omega
  | succ fuel ih =>
    intro pos left done hf
    simp only [tckChunkLoop, Src.read, Bool.true_and]
    by_cases hshort : bytes.length < pos + B
    · simp [hshort]
    · simp only [hshort, decide_false, Bool.false_eq_true, if_false]
      have hlen : ((bytes.drop pos).take B).length = B := by
        rw [List.length_take, List.length_drop]; omega
      rw [hlen]
      split
      · rfl
      · split
        · rfl
        · rw [if_neg (by simp)]
          apply ih
          simp only [List.length_drop] at hf ⊢; omega

/-- chunked reading = reading everything -/
theorem tckDataChunked_eq (B : Nat) (hB0 : 0 < B) (hB : B % 12 = 0) (s : Src) (off : Nat) :
    tckDataChunked B s off = tckData s off := by
  obtain ⟨bytes, st⟩ := s
  unfold tckDataChunked tckData Src.readAll
  cases st
  · rw [chunkLoop_plain B hB0 hB bytes _ _ _ _ (by simp only [List.length_drop]; omega)]
    simp only [Bool.false_eq_true, if_false, tckWholeFrom, List.reverse_nil, tckFinish]
  · rw [chunkLoop_strict B hB0 bytes _ _ _ _ (by simp only [List.length_drop]; omega)]
    rfl

theorem tckReadB_eq (B : Nat) (hB0 : 0 < B) (hB : B % 12 = 0) (s : Src) : tckReadB B s = tckRead s := by
  unfold tckReadB tckRead
  simp only [tckDataChunked_eq B hB0 hB]

end Nb.C08
