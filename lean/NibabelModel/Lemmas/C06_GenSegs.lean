/-
  Lemmas/C06_GenSegs — the `slicers2segments` translated from the CURRENT source of nibabel/fileslice.py
  (three nested `for` loops, in-place mutation of the segment lists, early `return []`) computes exactly the
  hand-written model `Nb.C06.slicers2segments`, on every canonical read-slicer tuple aligned with the shape.
  With `gen_optimize_read_slicers_eq` this puts the whole planning stage of `fileslice` (what to read, where)
  under theorems about code regenerated from the source on every run.  Core Lean only.
-/
import NibabelModel.Lemmas.C06_GenFuncs
set_option linter.unusedSimpArgs false
namespace Nb.C06
open Nb.Py Nb.Py.V

abbrev SLoc := Gen.C06F.slicers2segments_Locals

@[simp] theorem ofSegs_nil : ofSegs [] = .nil := rfl
@[simp] theorem asList_ofSegs (l : List Segment) : asList (ofSegs l) = .ok (ofSegs l) := by
  simp [ofSegs]
theorem ofSegs_append (a b : List Segment) : ofList (a.map ofSeg ++ b.map ofSeg) = ofSegs (a ++ b) := by
  simp [ofSegs]

@[simp] theorem getItem_ofSeg_0 (s : Segment) : getItem (ofSeg s) (.int 0) = .ok (.int s.offset) := by
  simp [ofSeg, getItem, getItemSeq, len, asList, getNat]
@[simp] theorem getItem_ofSeg_1 (s : Segment) : getItem (ofSeg s) (.int 1) = .ok (.int (s.length : Int)) := by
  simp [ofSeg, getItem, getItemSeq, len, asList, getNat]

def upd2 (s : SLoc) (seg wb : V) : SLoc := { s with segment := seg, _wb1 := wb }

/-- inner loop of the int case: every segment is shifted by `stride * index` (write-back list) -/
theorem loop2_eq (l : List Segment) : ∀ (s : SLoc) (acc : List Segment) (st : Nat) (i : Int),
    s._wb1 = ofSegs acc → s.stride = .int (st : Int) → s.read_slicer = .int i →
    ∃ y, Gen.C06F.slicers2segments_loop2 (ofSegs l) s =
      .ok (.next (upd2 s y (ofSegs (acc ++ l.map (fun g => { g with offset := g.offset + st * i }))))) := by
  induction l with
  | nil =>
    intro s acc st i h1 h2 h3
    refine ⟨s.segment, ?_⟩
    cases s
    simp_all [Gen.C06F.slicers2segments_loop2, ofSegs, upd2]
  | cons g rest ih =>
    intro s acc st i h1 h2 h3
    let g' : Segment := { g with offset := g.offset + st * i }
    have hb : Gen.C06F.slicers2segments_body2 { s with segment := ofSeg g } =
        .ok (.next (upd2 s (ofSeg g') (ofSegs (acc ++ [g'])))) := by
      unfold Gen.C06F.slicers2segments_body2
      simp [h1, h2, h3, ofSegs, upd2, g']
      simp [ofSeg, setItem, setItemSeq, len, setNat]
    obtain ⟨y, hy⟩ := ih (upd2 s (ofSeg g') (ofSegs (acc ++ [g']))) (acc ++ [g']) st i rfl h2 h3
    refine ⟨y, ?_⟩
    simp only [ofSegs, List.map_cons, ofList_cons, Gen.C06F.slicers2segments_loop2, bind, Except.bind, hb]
    simp only [ofSegs] at hy
    rw [hy]
    simp [upd2, g']

def upd4 (s : SLoc) (sv segs : V) : SLoc := { s with s_ := sv, all_segments := segs }

def shiftSegs (segs : List Segment) (st : Nat) (i : Int) : List Segment :=
  segs.map (fun g => { g with offset := g.offset + st * i })

/-- innermost loop of the slice case: appends every segment shifted by `stride * i` -/
theorem loop4_eq (l : List Segment) : ∀ (s : SLoc) (acc : List Segment) (st : Nat) (i : Int),
    s.all_segments = ofSegs acc → s.stride = .int (st : Int) → s.i = .int i →
    ∃ y, Gen.C06F.slicers2segments_loop4 (ofSegs l) s =
      .ok (.next (upd4 s y (ofSegs (acc ++ shiftSegs l st i)))) := by
  induction l with
  | nil =>
    intro s acc st i h1 h2 h3
    refine ⟨s.s_, ?_⟩
    cases s
    simp_all [Gen.C06F.slicers2segments_loop4, ofSegs, upd4, shiftSegs]
  | cons g rest ih =>
    intro s acc st i h1 h2 h3
    let g' : Segment := { g with offset := g.offset + st * i }
    have hb : Gen.C06F.slicers2segments_body4 { s with s_ := ofSeg g } =
        .ok (.next (upd4 s (ofSeg g) (ofSegs (acc ++ [g'])))) := by
      unfold Gen.C06F.slicers2segments_body4
      simp [h1, h2, h3, ofSegs, upd4, g']
      simp [ofSeg]
    obtain ⟨y, hy⟩ := ih (upd4 s (ofSeg g) (ofSegs (acc ++ [g']))) (acc ++ [g']) st i rfl h2 h3
    refine ⟨y, ?_⟩
    simp only [ofSegs, List.map_cons, ofList_cons, Gen.C06F.slicers2segments_loop4, bind, Except.bind, hb]
    simp only [ofSegs] at hy
    rw [hy]
    simp [upd4, g', shiftSegs]

def upd3 (s : SLoc) (iv sv segs : V) : SLoc := { s with i := iv, s_ := sv, all_segments := segs }

/-- outer loop of the slice case over `range(start, stop, step)` -/
theorem loop3_eq (is : List Int) : ∀ (s : SLoc) (acc segs : List Segment) (st : Nat),
    s.all_segments = ofSegs acc → s.stride = .int (st : Int) → s.segments = ofSegs segs →
    ∃ y z, Gen.C06F.slicers2segments_loop3 (ofList (is.map V.int)) s =
      .ok (.next (upd3 s y z (ofSegs (acc ++ is.flatMap (fun i => shiftSegs segs st i))))) := by
  induction is with
  | nil =>
    intro s acc segs st h1 h2 h3
    refine ⟨s.i, s.s_, ?_⟩
    cases s
    simp_all [Gen.C06F.slicers2segments_loop3, ofSegs, upd3]
  | cons i rest ih =>
    intro s acc segs st h1 h2 h3
    obtain ⟨y4, h4⟩ := loop4_eq segs { s with i := V.int i } acc st i h1 h2 rfl
    have hb : ∃ y, Gen.C06F.slicers2segments_body3 { s with i := V.int i } =
        .ok (.next (upd3 s (V.int i) y (ofSegs (acc ++ shiftSegs segs st i)))) := by
      refine ⟨y4, ?_⟩
      unfold Gen.C06F.slicers2segments_body3
      simp only [h3]
      have : ({ s with i := V.int i } : SLoc) = ⟨s.read_slicers, s.in_shape, s.offset, s.itemsize, s.all_full,
          s.all_segments, s.stride, s.real_no, s.read_slicer, s.dim_len, s.is_int, s.is_full, s.is_contiguous,
          s.slice_len, s._wb1, s.segment, ofSegs segs, V.int i, s.s_⟩ := by simp [h3]
      rw [this] at h4
      simp [h4, upd4, upd3, h3]
    obtain ⟨y3, hb3⟩ := hb
    obtain ⟨y, z, hy⟩ := ih (upd3 s (V.int i) y3 (ofSegs (acc ++ shiftSegs segs st i)))
      (acc ++ shiftSegs segs st i) segs st rfl h2 h3
    refine ⟨y, z, ?_⟩
    simp only [List.map_cons, ofList_cons, Gen.C06F.slicers2segments_loop3, bind, Except.bind, hb3]
    rw [hy]
    simp [upd3, List.flatMap_cons]

structure SInv (s : SLoc) (full : List Nat) (k stride : Nat) (allFull : Bool) (segs : List Segment) : Prop where
  hShape : s.in_shape = ofShape full
  hRealNo : s.real_no = .int (k : Int)
  hStride : s.stride = .int (stride : Int)
  hAllFull : s.all_full = .bool allFull
  hSegs : s.all_segments = ofSegs segs
  hOne : allFull = true → ∃ g, segs = [g]

theorem sbody_newaxis (s : SLoc) :
    Gen.C06F.slicers2segments_body1 { s with read_slicer := V.none } = .ok (.next { s with read_slicer := V.none }) := by
  unfold Gen.C06F.slicers2segments_body1
  simp

theorem sbody_int (s : SLoc) (full : List Nat) (k stride : Nat) (allFull : Bool) (segs : List Segment)
    (i : Int) (n : Nat) (inv : SInv s full k stride allFull segs) (hfull : full[k]? = some n) :
    ∃ s', Gen.C06F.slicers2segments_body1 { s with read_slicer := V.int i } = .ok (.next s') ∧
      SInv s' full (k + 1) (stride * n) false (segStep (.int i) n stride allFull segs) := by
  obtain ⟨y, h2⟩ := loop2_eq segs
    ⟨s.read_slicers, s.in_shape, s.offset, s.itemsize, s.all_full, s.all_segments, s.stride, .int ((k : Int) + 1),
      .int i, .int (n : Int), .bool true, .bool false, .bool false, s.slice_len, .nil, s.segment, s.segments, s.i, s.s_⟩
    [] stride i rfl inv.hStride rfl
  unfold Gen.C06F.slicers2segments_body1
  simp [inv.hShape, inv.hRealNo, inv.hStride, inv.hAllFull, inv.hSegs, ofShape_get, hfull]
  simp [inv.hSegs, inv.hShape, inv.hStride, inv.hAllFull] at h2
  simp [h2, upd2]
  refine ⟨rfl, ?_, ?_, rfl, ?_, ?_⟩ <;> simp [segStep]

@[simp] theorem getItem_ofSegs1 (g : Segment) : getItem (ofSegs [g]) (.int 0) = .ok (ofSeg g) := by
  simp [ofSegs, getItem, getItemSeq, len, asList, getNat]
@[simp] theorem setItem_ofSegs1 (g : Segment) (v : V) : setItem (ofSegs [g]) (.int 0) v = .ok (.cons v .nil) := by
  simp [ofSegs, setItem, setItemSeq, len, setNat]
@[simp] theorem setItem_ofSeg_0 (g : Segment) (v : V) :
    setItem (ofSeg g) (.int 0) v = .ok (.cons v (.cons (.int (g.length : Int)) .nil)) := by
  simp [ofSeg, setItem, setItemSeq, len, setNat]
@[simp] theorem setItem_ofSeg_1 (g : Segment) (v : V) :
    setItem (ofSeg g) (.int 1) v = .ok (.cons (.int g.offset) (.cons v .nil)) := by
  simp [ofSeg, setItem, setItemSeq, len, setNat]
theorem ofSeg_mk (a : Int) (b : Nat) : V.cons (.int a) (.cons (.int (b : Int)) .nil) = ofSeg ⟨a, b⟩ := rfl
theorem ofSegs_single (g : Segment) : V.cons (ofSeg g) .nil = ofSegs [g] := rfl

theorem pyRange_filled (f : Filled) (b : Int) (hb : f.stop = some b) (hc : f.step ≠ 0) :
    pyRange (.int f.start) (.int b) (.int f.step) = .ok (ofList (f.range.map V.int)) := by
  simp [pyRange, hc, Filled.range, hb]

theorem sbody_py (s : SLoc) (full : List Nat) (k stride : Nat) (allFull : Bool) (segs : List Segment)
    (p : PySlice) (n : Nat) (hv : p.Valid) (hpos : p.stepVal > 0)
    (inv : SInv s full k stride allFull segs) (hfull : full[k]? = some n) :
    (fullSlicerLen (fillSlicer p n) = 0 →
      Gen.C06F.slicers2segments_body1 { s with read_slicer := ofPySlice p } = .ok (.ret .nil)) ∧
    (fullSlicerLen (fillSlicer p n) ≠ 0 →
      ∃ s', Gen.C06F.slicers2segments_body1 { s with read_slicer := ofPySlice p } = .ok (.next s') ∧
        SInv s' full (k + 1) (stride * n) (allFull && decide (fillSlicer p n = ⟨0, some (n : Int), 1⟩))
          (if allFull ∧ (fillSlicer p n).step = 1 then
             segs.map (fun g => ⟨g.offset + stride * (fillSlicer p n).start,
                                 g.length * fullSlicerLen (fillSlicer p n)⟩)
           else (fillSlicer p n).range.flatMap (fun i => shiftSegs segs stride i))) := by
  have hf := gen_fill_slicer_eq p n hv
  have hstep : (fillSlicer p n).step ≠ 0 := by rw [fillSlicer_step]; exact hv
  have hsp : (fillSlicer p n).step > 0 := by rw [fillSlicer_step]; exact hpos
  obtain ⟨sb, hsb⟩ := fillSlicer_stop_some p n hv hsp
  have hlen := gen_full_slicer_len_eq (fillSlicer p n) hstep
  have hnone : isNone (ofPySlice p) = false := by obtain ⟨a, b, c⟩ := p; rfl
  have hint : isIntegral (ofPySlice p) = false := by obtain ⟨a, b, c⟩ := p; rfl
  generalize hfd : fillSlicer p n = f at *
  constructor
  · intro h0
    unfold Gen.C06F.slicers2segments_body1
    simp [inv.hShape, inv.hRealNo, inv.hStride, inv.hAllFull, inv.hSegs, ofShape_get, hfull, hnone, hint, hf, hlen, h0]
  · intro h0
    have h0' : ¬ ((fullSlicerLen f : Int) = 0) := by omega
    by_cases hA : allFull = true ∧ f.step = 1
    · -- all_full and contiguous: only all_segments[0] is touched; there is exactly one segment
      obtain ⟨g, hg⟩ := inv.hOne hA.1
      subst hg
      unfold Gen.C06F.slicers2segments_body1
      have a1 : attr "step" (ofFilled f) = .ok (int f.step) := by simp [ofFilled]
      have a2 : attr "start" (ofFilled f) = .ok (int f.start) := by simp [ofFilled]
      simp [inv.hShape, inv.hRealNo, inv.hStride, inv.hAllFull, inv.hSegs, ofShape_get, hfull, hnone, hint, hf,
        hlen, h0', pyEq_ofFilled_some, hA.1, hA.2, a1, a2]
      simp only [h0, if_false]
      by_cases hs0 : f.start = 0
      · simp only [hs0, if_true]
        refine ⟨_, rfl, ⟨rfl, ?_, ?_, rfl, ?_, ?_⟩⟩
        · simp
        · simp
        · simp [ofSegs, ofSeg]
        · intro _; exact ⟨_, rfl⟩
      · simp only [hs0, if_false]
        simp only [ofSeg_mk, ofSegs_single, getItem_ofSegs1, getItem_ofSeg_1, setItem_ofSeg_1, setItem_ofSegs1,
          bind_ok, mul_int]
        refine ⟨_, rfl, ⟨rfl, ?_, ?_, rfl, ?_, ?_⟩⟩
        · simp
        · simp
        · simp [ofSegs, ofSeg]
        · intro _; exact ⟨_, rfl⟩
    · -- not (all_full and contiguous): nested loops over range(start, stop, step) x segments
      have a1 : attr "step" (ofFilled f) = .ok (int f.step) := by simp [ofFilled]
      have a2 : attr "start" (ofFilled f) = .ok (int f.start) := by simp [ofFilled]
      have a3 : attr "stop" (ofFilled f) = .ok (int sb) := by simp [ofFilled, hsb]
      have hr := pyRange_filled f sb hsb hstep
      have hcond : (allFull && decide (f.step = 1)) = false := by
        cases allFull <;> simp_all
      obtain ⟨y, z, h3⟩ := loop3_eq f.range
        ⟨s.read_slicers, ofShape full, s.offset, s.itemsize, .bool allFull, .nil, .int (stride : Int),
          .int ((k : Int) + 1), ofFilled f, .int (n : Int), .bool false,
          .bool (decide (f = ⟨0, some (n : Int), 1⟩)), .bool (decide (f.step = 1)), .int (fullSlicerLen f : Int),
          s._wb1, s.segment, ofSegs segs, s.i, s.s_⟩ [] segs stride rfl rfl rfl
      have hc1 : (pyEq (int f.step) (int 1)) = decide (f.step = 1) := rfl
      have hz : ((fullSlicerLen f : Int) == 0) = false := by simpa using h0'
      unfold Gen.C06F.slicers2segments_body1
      simp only [hnone, Bool.false_eq_true, if_false, bind_ok, pure_eq_ok, inv.hShape, inv.hRealNo, ofShape_get,
        hfull, add_int, hint, truthy_bool, Bool.not_false, if_true, hf, hlen, pyEq_int, pyEq_ofFilled_some]
      simp only [hz, Bool.false_eq_true, if_false, a1, bind_ok, hc1, inv.hAllFull, truthy_bool]
      have hcond' : (if allFull = true then (Except.ok (decide (f.step = 1)) : M Bool) else Except.ok false)
          = Except.ok false := by
        cases allFull <;> simp_all
      simp only [hcond', bind_ok, Bool.false_eq_true, if_false, inv.hSegs, a2, a3, hr, inv.hStride]
      rw [h3]
      simp only [bind_ok, upd3, truthy_bool, mul_int, List.nil_append]
      simp only [hA, if_false]
      have hfin : (if allFull = true then (Except.ok (decide (f = ⟨0, some (n : Int), 1⟩)) : M Bool) else Except.ok false)
          = Except.ok (allFull && decide (f = ⟨0, some (n : Int), 1⟩)) := by
        cases allFull <;> simp
      simp only [hfin, bind_ok]
      refine ⟨_, rfl, ⟨rfl, ?_, ?_, rfl, rfl, ?_⟩⟩
      · simp
      · simp
      · intro hh
        exfalso
        simp only [Bool.and_eq_true, decide_eq_true_eq] at hh
        apply hA
        refine ⟨hh.1, ?_⟩
        rw [hh.2]

theorem sinv_newaxis (s : SLoc) (full : List Nat) (k stride : Nat) (allFull : Bool) (segs : List Segment)
    (inv : SInv s full k stride allFull segs) :
    SInv { s with read_slicer := V.none } full k stride allFull segs :=
  ⟨inv.hShape, inv.hRealNo, inv.hStride, inv.hAllFull, inv.hSegs, inv.hOne⟩

theorem segStep_py (r : ReadItem) (n stride : Nat) (allFull : Bool) (segs : List Segment)
    (hr : r = .full ∨ ∃ a b c, r = .slice a b c) :
    segStep r n stride allFull segs =
      if allFull ∧ (fillSlicer r.toPy n).step = 1 then
        segs.map (fun g => ⟨g.offset + stride * (fillSlicer r.toPy n).start,
                            g.length * fullSlicerLen (fillSlicer r.toPy n)⟩)
      else (fillSlicer r.toPy n).range.flatMap (fun i => shiftSegs segs stride i) := by
  rcases hr with rfl | ⟨a, b, c, rfl⟩ <;> simp [segStep, shiftSegs]

theorem isFullFor_py (r : ReadItem) (n : Nat) (hr : r = .full ∨ ∃ a b c, r = .slice a b c) :
    r.isFullFor n = decide (fillSlicer r.toPy n = ⟨0, some (n : Int), 1⟩) := by
  rcases hr with rfl | ⟨a, b, c, rfl⟩ <;> simp [ReadItem.isFullFor]

theorem isEmptyFor_py (r : ReadItem) (n : Nat) (hr : r = .full ∨ ∃ a b c, r = .slice a b c) :
    r.isEmptyFor n = decide (fullSlicerLen (fillSlicer r.toPy n) = 0) := by
  rcases hr with rfl | ⟨a, b, c, rfl⟩ <;> simp [ReadItem.isEmptyFor]

theorem ofRead_py (r : ReadItem) (hr : r = .full ∨ ∃ a b c, r = .slice a b c) :
    ofRead r = ofPySlice r.toPy := by
  rcases hr with rfl | ⟨a, b, c, rfl⟩ <;> rfl

/-- body of the main loop on a slice-like read item (`slice(None)` or a positive-step slice) -/
theorem sbody_slice (s : SLoc) (full : List Nat) (k stride : Nat) (allFull : Bool) (segs : List Segment)
    (r : ReadItem) (n : Nat) (hr : r = .full ∨ ∃ a b c, r = .slice a b c ∧ 0 < c)
    (inv : SInv s full k stride allFull segs) (hfull : full[k]? = some n) :
    (r.isEmptyFor n = true →
      Gen.C06F.slicers2segments_body1 { s with read_slicer := ofRead r } = .ok (.ret .nil)) ∧
    (r.isEmptyFor n = false →
      ∃ s', Gen.C06F.slicers2segments_body1 { s with read_slicer := ofRead r } = .ok (.next s') ∧
        SInv s' full (k + 1) (stride * n) (allFull && r.isFullFor n) (segStep r n stride allFull segs)) := by
  have hr' : r = .full ∨ ∃ a b c, r = .slice a b c := by
    rcases hr with h | ⟨a, b, c, h, _⟩
    · exact Or.inl h
    · exact Or.inr ⟨a, b, c, h⟩
  have hv : r.toPy.Valid ∧ r.toPy.stepVal > 0 := by
    rcases hr with rfl | ⟨a, b, c, rfl, hc⟩
    · exact ⟨by decide, by decide⟩
    · exact ⟨by show (c : Int) ≠ 0; omega, by show (c : Int) > 0; omega⟩
  have := sbody_py s full k stride allFull segs r.toPy n hv.1 hv.2 inv hfull
  rw [segStep_py r n stride allFull segs hr', isFullFor_py r n hr', isEmptyFor_py r n hr', ofRead_py r hr']
  simpa only [decide_eq_true_eq, decide_eq_false_iff_not] using this

/-- the main loop of the translated `slicers2segments` computes the model's `segLoop`
    (either falling through with the segment list, or returning `[]` early) -/
theorem sloop_eq (rs : List ReadItem) :
    ∀ (s : SLoc) (full : List Nat) (k stride : Nat) (allFull : Bool) (segs : List Segment),
      ReadCanon rs (full.drop k) → SInv s full k stride allFull segs →
      (∃ s', Gen.C06F.slicers2segments_loop1 (ofList (rs.map ofRead)) s = .ok (.next s') ∧
          s'.all_segments = ofSegs (segLoop rs (full.drop k) stride allFull segs)) ∨
      (Gen.C06F.slicers2segments_loop1 (ofList (rs.map ofRead)) s = .ok (.ret .nil) ∧
          segLoop rs (full.drop k) stride allFull segs = []) := by
  induction rs with
  | nil =>
    intro s full k stride allFull segs _ inv
    left
    exact ⟨s, by simp [Gen.C06F.slicers2segments_loop1], by simpa [segLoop] using inv.hSegs⟩
  | cons r rest ih =>
    intro s full k stride allFull segs hc inv
    by_cases hnew : r = .newaxis
    · subst hnew
      rw [readCanon_newaxis] at hc
      have hb := sbody_newaxis s
      have := ih _ full k stride allFull segs hc (sinv_newaxis s full k stride allFull segs inv)
      have hseg : segLoop (.newaxis :: rest) (full.drop k) stride allFull segs
          = segLoop rest (full.drop k) stride allFull segs := by
        cases full.drop k <;> rfl
      rw [hseg]
      simp only [List.map_cons, ofList_cons, ofRead, Gen.C06F.slicers2segments_loop1, bind, Except.bind, hb]
      exact this
    · cases hd : full.drop k with
      | nil => rw [hd] at hc; cases r <;> simp_all [ReadCanon]
      | cons n shape =>
        rw [hd] at hc
        rw [readCanon_cons r rest n shape hnew] at hc
        obtain ⟨hg, hdrop, _⟩ := drop_head full k n shape hd
        have hseg : segLoop (r :: rest) (n :: shape) stride allFull segs =
            if r.isEmptyFor n then [] else
              segLoop rest shape (stride * n) (allFull && r.isFullFor n) (segStep r n stride allFull segs) := by
          cases r <;> first | exact absurd rfl hnew | rfl
        rw [hseg]
        cases r with
        | newaxis => exact absurd rfl hnew
        | int i =>
          obtain ⟨s1, hb, inv1⟩ := sbody_int s full k stride allFull segs i n inv hg
          have := ih s1 full (k + 1) (stride * n) false _ (by rw [hdrop]; exact hc.2) inv1
          rw [hdrop] at this
          simp only [List.map_cons, ofList_cons, ofRead, Gen.C06F.slicers2segments_loop1, bind, Except.bind, hb]
          simpa [ReadItem.isEmptyFor, ReadItem.isFullFor] using this
        | full =>
          have hb := sbody_slice s full k stride allFull segs .full n (Or.inl rfl) inv hg
          cases he : ReadItem.full.isEmptyFor n with
          | true =>
            right
            simp only [List.map_cons, ofList_cons, Gen.C06F.slicers2segments_loop1, bind, Except.bind, hb.1 he]
            simp
          | false =>
            obtain ⟨s1, hb1, inv1⟩ := hb.2 he
            have := ih s1 full (k + 1) (stride * n) _ _ (by rw [hdrop]; exact hc.2) inv1
            rw [hdrop] at this
            simp only [List.map_cons, ofList_cons, Gen.C06F.slicers2segments_loop1, bind, Except.bind, hb1]
            simpa using this
        | slice a b c =>
          have hcan : 0 < c := hc.1.1
          have hb := sbody_slice s full k stride allFull segs (.slice a b c) n
            (Or.inr ⟨a, b, c, rfl, hcan⟩) inv hg
          cases he : (ReadItem.slice a b c).isEmptyFor n with
          | true =>
            right
            simp only [List.map_cons, ofList_cons, Gen.C06F.slicers2segments_loop1, bind, Except.bind, hb.1 he]
            simp
          | false =>
            obtain ⟨s1, hb1, inv1⟩ := hb.2 he
            have := ih s1 full (k + 1) (stride * n) _ _ (by rw [hdrop]; exact hc.2) inv1
            rw [hdrop] at this
            simp only [List.map_cons, ofList_cons, Gen.C06F.slicers2segments_loop1, bind, Except.bind, hb1]
            simpa using this

/-- **slicers2segments**: the function translated from the source (three nested `for` loops, element
    mutation through the loop variable, early `return []`) computes the model's segment list, for every
    canonical read-slicer tuple aligned with the shape, every offset and item size. -/
theorem gen_slicers2segments_eq (rs : List ReadItem) (shape : List Nat) (off isz : Nat)
    (hc : ReadCanon rs shape) :
    Gen.C06F.slicers2segments (ofList (rs.map ofRead)) (ofShape shape) (.int (off : Int)) (.int (isz : Int))
      = .ok (ofSegs (slicers2segments rs shape off isz)) := by
  have h := sloop_eq rs ⟨ofList (rs.map ofRead), ofShape shape, .int (off : Int), .int (isz : Int), .bool true,
      ofSegs [⟨(off : Int), isz⟩], .int (isz : Int), .int 0, .none, .none, .none, .none, .none, .none, .none,
      .none, .none, .none, .none⟩ shape 0 isz true [⟨(off : Int), isz⟩] (by simpa using hc)
      ⟨rfl, rfl, rfl, rfl, rfl, fun _ => ⟨_, rfl⟩⟩
  simp only [List.drop_zero] at h
  unfold Gen.C06F.slicers2segments Nb.C06.slicers2segments
  simp only [bind_ok, pure_eq_ok]
  have e0 : (V.cons (V.cons (V.int (off : Int)) (V.cons (V.int (isz : Int)) V.nil)) V.nil) = ofSegs [⟨(off : Int), isz⟩] := rfl
  simp only [e0]
  rcases h with ⟨s', e1, e2⟩ | ⟨e1, e2⟩
  · simp [e1, e2]
  · simp [e1, e2]

end Nb.C06
