import NibabelModel.Lemmas.C20_Load
/-! Lemmas/C20_Perm — `_truncation_checks` and the whole strict load (success included) do not depend
    on the record order. -/
namespace Nb.C20

/-- every position is flagged full -/
def allFull {τ : Type} [BEq τ] (tagged : List (τ × Int)) (smax : Int) : Bool :=
  ((volsAndFull tagged smax).map (·.2)).all id

theorem allFull_iff {τ : Type} [BEq τ] [LawfulBEq τ] (tagged : List (τ × Int)) (smax : Int) :
    allFull tagged smax = true ↔
      ∀ a b w, w < tagged.count (a, b) → ∀ s ∈ sliceRange smax, w < tagged.count (a, s) := by
  unfold allFull
  rw [volsAndFull_eq]
  simp only [List.map_map, List.all_map, List.all_eq_true, Function.comp_def, id]
  constructor
  · intro h a b w hw s hs
    have := h ((a, b), w) ((mem_zip_occNumbers (a, b) w tagged).2 hw)
    simp only [List.all_eq_true, decide_eq_true_eq] at this
    exact this s hs
  · intro h x hx
    obtain ⟨⟨a, b⟩, w⟩ := x
    simp only [List.all_eq_true, decide_eq_true_eq]
    exact h a b w ((mem_zip_occNumbers (a, b) w tagged).1 hx)

theorem allFull_perm {τ : Type} [BEq τ] [LawfulBEq τ] {t₁ t₂ : List (τ × Int)} (h : t₁.Perm t₂) (smax : Int) :
    allFull t₁ smax = allFull t₂ smax := by
  rw [Bool.eq_iff_iff, allFull_iff, allFull_iff]
  simp only [h.count_eq]

theorem volIsFull_all_eq (sl : List Int) (smax : Int) :
    (volIsFull sl smax).map (fun f => f.all id) =
      if sl.all (inRange smax) then .ok (allFull (sl.map fun s => ((), s)) smax) else .error .value := by
  unfold volIsFull volsFullGlobal allFull
  split <;> rfl

theorem distinctCount_map_perm {β : Type} [DecidableEq β] {r₁ r₂ : List Rec} (h : r₁.Perm r₂) (f : Rec → β) :
    distinctCount (r₁.map f) = distinctCount (r₂.map f) :=
  distinctCount_congr (fun a => (h.map f).mem_iff)

/-- `_truncation_checks` gives the same verdict for every record order -/
theorem truncationChecks_perm (c : Cfg) (permit : Bool) {r₁ r₂ : List Rec} (h : r₁.Perm r₂) :
    truncationChecks c permit r₁ = truncationChecks c permit r₂ := by
  have hv := volIsFull_all_eq (r₁.map (·.slice)) c.maxSlices
  have hv2 := volIsFull_all_eq (r₂.map (·.slice)) c.maxSlices
  rw [all_perm (h.map _), allFull_perm ((h.map _).map _)] at hv
  unfold truncationChecks
  simp only [distinctCount_map_perm h]
  cases h1 : volIsFull (r₁.map (·.slice)) c.maxSlices <;>
    cases h2 : volIsFull (r₂.map (·.slice)) c.maxSlices <;>
    rw [h1] at hv <;> rw [h2] at hv2 <;> rw [← hv2] at hv <;>
    simp only [Except.map] at hv
  · injection hv with hv; subst hv; rfl
  · cases hv
  · cases hv
  · injection hv with hv
    simp only [bind, Except.bind, hv]

/-- everything a load returns except the file positions (`idx`, `direct`), which necessarily depend on
    where the records are stored -/
structure Content where
  shape : List Nat
  data : List Nat
  slopes : List Rat
  inters : List Rat
  labels : List (String × List Int)
  pdata : List Nat

def Out.content (o : Out) : Content := ⟨o.shape, o.data, o.slopes, o.inters, o.labels, o.pdata⟩

/-- the strict load on bare records -/
def loadContent (c : Cfg) (permit : Bool) (m : Scaling) (recs : List Rec) : Except Err Content :=
  match truncationChecks c permit recs with
  | .error e => .error e
  | .ok _ =>
    match nVols c recs with
    | .error e => .error e
    | .ok nv =>
      match assembled c recs with
      | .error e => .error e
      | .ok kept =>
        if kept.length ≠ nUsedOf (nSlices recs) nv then .error .value
        else .ok ⟨shapeTail (nSlices recs) nv, kept.map (·.payload), kept.map (slopeOf m), kept.map (interOf m),
                  volumeLabels c recs kept, kept.map (·.payload)⟩

theorem load_content (c : Cfg) (permit : Bool) (m : Scaling) (recs : List Rec) :
    (load c permit true m false recs).map Out.content = loadContent c permit m recs := by
  unfold load loadContent assembled
  cases truncationChecks c permit recs with
  | error e => rfl
  | ok u =>
    cases nVols c recs with
    | error e => rfl
    | ok nv =>
      cases hs : sortedSlices c true false recs with
      | error e => rfl
      | ok kept =>
        by_cases hlen : kept.length = nUsedOf (nSlices recs) nv
        · simp [bind, Except.bind, pure, Except.pure, Except.map, hlen, Out.content,
            partialSlabs_eq (sortedSlices_atPos hs), Function.comp_def]
        · simp [bind, Except.bind, pure, Except.pure, Except.map, hlen, throw, throwThe, MonadExceptOf.throw]

theorem volumeLabels_perm' (c : Cfg) {r₁ r₂ : List Rec} (hp : r₁.Perm r₂) (kept : List Rec) :
    volumeLabels c r₁ kept = volumeLabels c r₂ kept := by
  unfold volumeLabels
  congr 1
  apply List.filter_congr
  intro kf _
  rw [distinctCount_map_perm hp]

end Nb.C20
