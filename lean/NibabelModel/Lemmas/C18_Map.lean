import NibabelModel.Model.C18
/-!
  Lemmas/C18_Map — helper lemmas for the to_mapping / from_index_mapping round trips of the Series, Scalar,
  Label and Parcels axes and the label-colour XML text (phase-3 extension of C18).  Core Lean only.
  The primed statements are re-exported (unprimed, with non-vacuity examples) in Props/C18.lean.
-/
namespace Nb.C18
open Nb

theorem updSet_fresh {α κ} [DecidableEq κ] (key : α → κ) (t : List α) (e : α)
    (h : key e ∉ t.map key) : updSet key t e = t ++ [e] := by
  unfold updSet
  have : t.any (fun x => decide (key x = key e)) = false := by
    rw [List.any_eq_false]
    intro x hx hd
    simp only [decide_eq_true_eq] at hd
    exact h (List.mem_map.mpr ⟨x, hx, hd⟩)
  simp [this]

theorem foldl_updSet_nodup {α κ} [DecidableEq κ] (key : α → κ) (es acc : List α)
    (h : ((acc ++ es).map key).Nodup) : es.foldl (updSet key) acc = acc ++ es := by
  induction es generalizing acc with
  | nil => simp
  | cons e es ih =>
    simp only [List.foldl_cons]
    have hfresh : key e ∉ acc.map key := by
      simp only [List.map_append, List.map_cons, List.nodup_append, List.nodup_cons] at h
      intro hm
      exact h.2.2 _ hm _ (List.mem_cons_self) rfl
    rw [updSet_fresh key acc e hfresh]
    have := ih (acc ++ [e]) (by simpa using h)
    simpa using this

theorem ltBuild_nodup (es : List LEntry) (h : (es.map (·.key)).Nodup) : ltBuild es = es := by
  have := foldl_updSet_nodup (fun e : LEntry => e.key) es [] (by simpa using h)
  simpa [ltBuild] using this

theorem nvFromSurfaces_nodup (s : List (Nat × Nat)) (h : (s.map (·.1)).Nodup) : nvFromSurfaces s = s := by
  have := foldl_updSet_nodup (fun e : Nat × Nat => e.1) s [] (by simpa using h)
  simpa [nvFromSurfaces] using this

end Nb.C18
namespace Nb.C18
open Nb

theorem zip3_map_fst {α β γ} (a : List α) (b : List β) (c : List γ) (h1 : b.length = a.length)
    (h2 : c.length = a.length) : (zip3 a b c).map (·.1) = a := by
  unfold zip3
  exact List.map_fst_zip (by simp [List.length_zip]; omega)

theorem zip3_map_snd {α β γ δ} (f : β → δ) (a : List α) (b : List β) (c : List γ) (h1 : b.length = a.length)
    (h2 : c.length = a.length) : (zip3 a b c).map (fun e => f e.2.1) = b.map f := by
  unfold zip3
  have : (a.zip (b.zip c)).map (fun e => f e.2.1) = ((a.zip (b.zip c)).map (·.2)).map (fun p => f p.1) := by
    simp [List.map_map, Function.comp]
  rw [this, List.map_snd_zip (by simp [List.length_zip]; omega)]
  have e : (fun p : β × γ => f p.1) = f ∘ Prod.fst := rfl
  rw [e, ← List.map_map, List.map_fst_zip (by omega)]

theorem zip3_map_thd {α β γ} (a : List α) (b : List β) (c : List γ) (h1 : b.length = a.length)
    (h2 : c.length = a.length) : (zip3 a b c).map (·.2.2) = c := by
  unfold zip3
  have : (a.zip (b.zip c)).map (·.2.2) = ((a.zip (b.zip c)).map (·.2)).map (·.2) := by
    simp [List.map_map, Function.comp]
  rw [this, List.map_snd_zip (by simp [List.length_zip]; omega), List.map_snd_zip (by omega)]

/-- SeriesAxis -/
theorem series_mapping_roundtrip' (a : Series) : seriesFromMapping (seriesToMapping a) = a := by
  simp [seriesFromMapping, seriesToMapping, Nb.Gen.C18.seriesExponent]

/-- ScalarAxis -/
theorem scalar_mapping_roundtrip' (a : Scalar) (hv : a.mta.length = a.name.length) :
    scalarFromMapping (scalarToMapping a) = .ok a ∧ (scalarToMapping a).length = a.size := by
  have h1 : (scalarToMapping a).map (·.name) = a.name := by
    simp only [scalarToMapping, List.map_map, Function.comp]
    exact List.map_fst_zip (by omega)
  have h2 : (scalarToMapping a).map (·.mta) = a.mta := by
    simp only [scalarToMapping, List.map_map, Function.comp]
    exact List.map_snd_zip (by omega)
  refine ⟨?_, by simp [scalarToMapping, Scalar.size, List.length_zip, hv]⟩
  simp only [scalarFromMapping, h1, h2, scalarMk, hv, if_true]

structure LabelR.Valid (a : LabelR) : Prop where
  ltab : a.table.length = a.name.length
  lmta : a.mta.length = a.name.length
  /-- every label table is a dict: keys are unique -/
  keys : ∀ t ∈ a.table, (t.map (·.key)).Nodup

theorem map_id_of_forall {α} (f : α → α) (l : List α) (h : ∀ x ∈ l, f x = x) : l.map f = l := by
  induction l with
  | nil => rfl
  | cons x xs ih =>
    simp only [List.map_cons, h x (List.mem_cons_self), ih (fun y hy => h y (List.mem_cons_of_mem _ hy))]

theorem label_mapping_roundtrip' (a : LabelR) (hv : a.Valid) :
    labelRFromMapping (labelRToMapping a) = .ok a := by
  have h1 : (labelRToMapping a).map (·.name) = a.name := by
    simp only [labelRToMapping, List.map_map, Function.comp]
    exact zip3_map_fst _ _ _ hv.ltab hv.lmta
  have h3 : (labelRToMapping a).map (·.mta) = a.mta := by
    simp only [labelRToMapping, List.map_map, Function.comp]
    exact zip3_map_thd _ _ _ hv.ltab hv.lmta
  have h2 : (labelRToMapping a).map (fun m => ltBuild m.table) = a.table := by
    simp only [labelRToMapping, List.map_map]
    have e : ((fun m : NMap => ltBuild m.table) ∘ fun e : Nat × LTable × Nat => (⟨e.1, e.2.2, ltBuild e.2.1⟩ : NMap))
        = (fun e => (fun t => ltBuild (ltBuild t)) e.2.1) := rfl
    rw [e, zip3_map_snd (fun t => ltBuild (ltBuild t)) _ _ _ hv.ltab hv.lmta]
    apply map_id_of_forall
    intro t ht
    rw [ltBuild_nodup t (hv.keys t ht), ltBuild_nodup t (hv.keys t ht)]
  simp only [labelRFromMapping, h1, h2, h3, labelRMk, hv.ltab, hv.lmta, and_self, if_true]

theorem map_xml_keys (t : LTable) : (t.map LEntry.xml).map (·.key) = t.map (·.key) := by
  simp [List.map_map, Function.comp, LEntry.xml]

theorem label_xml_roundtrip' (a : LabelR) (hv : a.Valid) :
    labelRXrt a = .ok { a with table := a.table.map (fun t => t.map LEntry.xml) } := by
  have h1 : (nmapsXml (labelRToMapping a)).map (·.name) = a.name := by
    simp only [nmapsXml, labelRToMapping, List.map_map, Function.comp]
    exact zip3_map_fst _ _ _ hv.ltab hv.lmta
  have h3 : (nmapsXml (labelRToMapping a)).map (·.mta) = a.mta := by
    simp only [nmapsXml, labelRToMapping, List.map_map, Function.comp]
    exact zip3_map_thd _ _ _ hv.ltab hv.lmta
  have h2 : (nmapsXml (labelRToMapping a)).map (fun m => ltBuild m.table)
      = a.table.map (fun t => t.map LEntry.xml) := by
    simp only [nmapsXml, labelRToMapping, List.map_map]
    have e : ((fun m : NMap => ltBuild m.table) ∘ (fun m : NMap => { m with table := ltBuild (m.table.map LEntry.xml) }) ∘
        fun e : Nat × LTable × Nat => (⟨e.1, e.2.2, ltBuild e.2.1⟩ : NMap))
        = (fun e => (fun t => ltBuild (ltBuild ((ltBuild t).map LEntry.xml))) e.2.1) := rfl
    rw [e, zip3_map_snd (fun t => ltBuild (ltBuild ((ltBuild t).map LEntry.xml))) _ _ _ hv.ltab hv.lmta]
    apply List.map_congr_left
    intro t ht
    have hk := hv.keys t ht
    rw [ltBuild_nodup t hk]
    have hk' : ((t.map LEntry.xml).map (·.key)).Nodup := by rw [map_xml_keys]; exact hk
    rw [ltBuild_nodup _ hk', ltBuild_nodup _ hk']
  simp only [labelRXrt, labelRFromMapping, h1, h2, h3, labelRMk, hv.ltab, hv.lmta, List.length_map, and_self,
    if_true]

/-- the XML text changes no colour as a float: each component compares equal (`==` on floats) to the original,
    and is bit-identical unless it is `-0.0` -/
theorem colXml_spec (c : Nat) : colEq (colXml c) c = true ∧ (c ≠ negZeroBits → colXml c = c) := by
  unfold colEq colXml
  by_cases h : c = negZeroBits
  · simp [h, negZeroBits]
  · simp [h]

end Nb.C18
namespace Nb.C18
open Nb

structure ParcelsR.Valid (a : ParcelsR) : Prop where
  lvox : a.voxels.length = a.name.length
  lvert : a.vertices.length = a.name.length
  /-- `nvertices` is a dict -/
  nvKeys : (a.nvertices.map (·.1)).Nodup
  /-- every parcel's vertex dict is a dict whose structures all have an `nvertices` entry -/
  vKeys : ∀ d ∈ a.vertices, (d.map (·.1)).Nodup ∧ ∀ e ∈ d, dictHas a.nvertices e.1 = true
  /-- a volume shape is only kept together with an affine -/
  vol : a.affine = none → a.shape = none

theorem vertsLoop_ok (nv : Dict) : ∀ (d acc : VDict), ((acc ++ d).map (·.1)).Nodup →
    (∀ e ∈ d, dictHas nv e.1 = true) → vertsLoop nv acc d = .ok (acc ++ d) := by
  intro d
  induction d with
  | nil => intro acc _ _; simp [vertsLoop]
  | cons e d ih =>
    intro acc hn hs
    have hfresh : e.1 ∉ acc.map (·.1) := by
      simp only [List.map_append, List.map_cons, List.nodup_append, List.nodup_cons] at hn
      intro hm
      exact hn.2.2 _ hm _ (List.mem_cons_self) rfl
    simp only [vertsLoop, hs e (List.mem_cons_self), if_true]
    rw [updSet_fresh (fun p : Nat × List Nat => p.1) acc e hfresh]
    have := ih (acc ++ [e]) (by simpa using hn) (fun x hx => hs x (List.mem_cons_of_mem _ hx))
    simpa using this

theorem parcelsLoop_ok (nv : Dict) : ∀ (ps : List (Nat × List Vox × VDict)),
    (∀ p ∈ ps, (p.2.2.map (·.1)).Nodup ∧ ∀ e ∈ p.2.2, dictHas nv e.1 = true) → parcelsLoop nv ps = .ok ps := by
  intro ps
  induction ps with
  | nil => intro _; rfl
  | cons p ps ih =>
    intro h
    have hp := h p (List.mem_cons_self)
    have h1 := vertsLoop_ok nv p.2.2 [] (by simpa using hp.1) hp.2
    simp only [List.nil_append] at h1
    simp only [parcelsLoop, h1, ih (fun q hq => h q (List.mem_cons_of_mem _ hq))]

theorem mem_zip3_thd {α β γ} (a : List α) (b : List β) (c : List γ) (e : α × β × γ) (he : e ∈ zip3 a b c) :
    e.2.2 ∈ c := by
  unfold zip3 at he
  have := (List.of_mem_zip he).2
  exact (List.of_mem_zip (a := e.2.1) (b := e.2.2) (by simpa using this)).2

theorem parcels_mapping_roundtrip' (a : ParcelsR) (hv : a.Valid) :
    parcelsRFromMapping (parcelsRToMapping a) = .ok a := by
  have hnv : nvFromSurfaces a.nvertices = a.nvertices := nvFromSurfaces_nodup _ hv.nvKeys
  have hloop : parcelsLoop a.nvertices (zip3 a.name a.voxels a.vertices) = .ok (zip3 a.name a.voxels a.vertices) :=
    parcelsLoop_ok _ _ (fun p hp => hv.vKeys p.2.2 (mem_zip3_thd _ _ _ p hp))
  simp only [parcelsRFromMapping, parcelsRToMapping, hnv, hloop]
  rw [zip3_map_fst _ _ _ hv.lvox hv.lvert, zip3_map_snd (fun x => x) _ _ _ hv.lvox hv.lvert,
    zip3_map_thd _ _ _ hv.lvox hv.lvert]
  simp only [List.map_id', parcelsRMk, hv.lvox, hv.lvert, and_self, if_true]
  cases ha : a.affine with
  | none =>
    have := hv.vol ha
    cases a; simp_all
  | some f => cases a; simp_all

end Nb.C18
