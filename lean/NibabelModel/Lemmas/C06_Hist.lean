import NibabelModel.Model.C06_IO
import NibabelModel.Lemmas.C06_Final
/-! Lemmas/C06_Hist — the byte level of `fileslice` and histories of reads (stage H).

    `read_segments` (Model/C06_IO.readSegments: seek/read loop with the length checks) returns exactly the bytes
    of the planned segments, whatever the position of the file object; cut into items these are the bytes of the
    stored elements NumPy indexing selects (`filesliceIO_eq_numpy'`); a read leaves the contents of its file
    untouched and its outcome does not depend on the position left behind by earlier reads, hence the i-th
    result of ANY history of reads depends on the i-th request only (`read_history_independent'`). -/
namespace Nb.C06
open Nb Nb.PySlice

/-! ### `read_segments` -/

/-- the bytes of the file a segment stands for -/
def segBytes (data : List Nat) (s : Segment) : List Nat := (data.drop s.offset.toNat).take s.length

/-- a segment lies inside a file of `flen` bytes -/
def Segment.InFile (flen : Nat) (s : Segment) : Prop := 0 ≤ s.offset ∧ s.offset.toNat + s.length ≤ flen

theorem segBytes_length {data : List Nat} {s : Segment} (h : s.InFile data.length) :
    (segBytes data s).length = s.length := by
  unfold segBytes
  rw [List.length_take, List.length_drop]
  have := h.2
  omega

theorem readLoop_ok (cap : Nat) (data : List Nat) :
    ∀ (segs : List Segment) (pos : Nat) (buf : List Nat),
      (∀ s ∈ segs, s.InFile data.length) → buf.length + (segs.map (·.length)).sum ≤ cap →
      ∃ pos', readLoop cap segs ⟨data, pos⟩ buf = (.ok (buf ++ segs.flatMap (segBytes data)), ⟨data, pos'⟩)
  | [], pos, buf, _, _ => ⟨pos, by simp [readLoop]⟩
  | s :: rest, pos, buf, hin, hcap => by
      have hs := hin s (by simp)
      have hl := segBytes_length hs
      simp only [List.map_cons, List.sum_cons] at hcap
      have hneg : ¬ s.offset < 0 := by have := hs.1; omega
      obtain ⟨pos', ih⟩ := readLoop_ok cap data rest (s.offset.toNat + (segBytes data s).length)
        (buf ++ segBytes data s) (fun t ht => hin t (by simp [ht]))
        (by rw [List.length_append, hl]; omega)
      refine ⟨pos', ?_⟩
      unfold readLoop
      simp only [hneg, if_false, FileObj.seek, FileObj.read]
      have : ¬ (buf.length + (List.take s.length (List.drop s.offset.toNat data)).length > cap) := by
        have := hl; unfold segBytes at this; rw [this]; omega
      simp only [this, if_false]
      rw [List.flatMap_cons, ← List.append_assoc]
      exact ih

theorem readSegments_ok (data : List Nat) (pos : Nat) (segs : List Segment)
    (hin : ∀ s ∈ segs, s.InFile data.length) (hpos : ∀ s ∈ segs, 0 < s.length) :
    ∃ pos', readSegments ⟨data, pos⟩ segs (segs.map (·.length)).sum
      = (.ok (segs.flatMap (segBytes data)), ⟨data, pos'⟩) := by
  match segs, hin, hpos with
  | [], _, _ => exact ⟨pos, by simp [readSegments]⟩
  | [s], hin, _ =>
      have hs := hin s (by simp)
      have hl := segBytes_length hs
      have hneg : ¬ s.offset < 0 := by have := hs.1; omega
      refine ⟨s.offset.toNat + (segBytes data s).length, ?_⟩
      unfold readSegments
      simp only [hneg, if_false, FileObj.seek, FileObj.read, List.map_cons, List.map_nil, List.sum_cons,
        List.sum_nil, Nat.add_zero]
      have : (List.take s.length (List.drop s.offset.toNat data)).length = s.length := hl
      simp [this, segBytes]
  | s1 :: s2 :: rest, hin, hpos =>
      obtain ⟨pos', h⟩ := readLoop_ok ((s1 :: s2 :: rest).map (·.length)).sum data (s1 :: s2 :: rest) pos []
        hin (by simp)
      refine ⟨pos', ?_⟩
      have hne : ((s1 :: s2 :: rest).map (·.length)).sum ≠ 0 := by
        have := hpos s1 (by simp)
        simp only [List.map_cons, List.sum_cons]; omega
      have hlen : ((s1 :: s2 :: rest).flatMap (segBytes data)).length = ((s1 :: s2 :: rest).map (·.length)).sum := by
        generalize (s1 :: s2 :: rest) = l at hin
        induction l with
        | nil => rfl
        | cons a l ih =>
          rw [List.flatMap_cons, List.length_append, segBytes_length (hin a (by simp)),
            ih (fun t ht => hin t (by simp [ht]))]
          simp
      unfold readSegments
      simp only [hne, if_false, h, List.nil_append, hlen, ne_eq, not_true_eq_false]

theorem readSegments_nil (f : FileObj) (n : Nat) :
    readSegments f [] n = if n ≠ 0 then (.error .value, f) else (.ok [], f) := rfl

theorem readSegments_one (f : FileObj) (s : Segment) (n : Nat) :
    readSegments f [s] n =
      if s.offset < 0 then (.error .value, f)
      else if ((f.seek s.offset.toNat).read s.length).1.length ≠ n
        then (.error .short, ((f.seek s.offset.toNat).read s.length).2)
        else (.ok ((f.seek s.offset.toNat).read s.length).1, ((f.seek s.offset.toNat).read s.length).2) := rfl

theorem readSegments_many (f : FileObj) (s1 s2 : Segment) (rest : List Segment) (n : Nat) :
    readSegments f (s1 :: s2 :: rest) n =
      if n = 0 then (.error .value, f)
      else match readLoop n (s1 :: s2 :: rest) f [] with
        | (.ok buf, f') => if buf.length ≠ n then (.error .short, f') else (.ok buf, f')
        | r => r := rfl

theorem readLoop_cons (cap : Nat) (s : Segment) (rest : List Segment) (f : FileObj) (buf : List Nat) :
    readLoop cap (s :: rest) f buf =
      if s.offset < 0 then (.error .value, f)
      else if buf.length + ((f.seek s.offset.toNat).read s.length).1.length > cap
        then (.error .short, ((f.seek s.offset.toNat).read s.length).2)
        else readLoop cap rest ((f.seek s.offset.toNat).read s.length).2
          (buf ++ ((f.seek s.offset.toNat).read s.length).1) := rfl

theorem seek_read_pos (data : List Nat) (p o n : Nat) :
    ((FileObj.mk data p).seek o).read n = ((data.drop o).take n, ⟨data, o + ((data.drop o).take n).length⟩) := rfl

/-- the tail of the multi-segment branch, on the outcome alone -/
def finishRead (n : Nat) : Except Err (List Nat) → Except Err (List Nat)
  | .ok buf => if buf.length ≠ n then .error .short else .ok buf
  | e => e

theorem many_fst (n : Nat) (r : Except Err (List Nat) × FileObj) :
    (match r with
      | (Except.ok buf, f') =>
          if buf.length ≠ n then ((Except.error Err.short : Except Err (List Nat)), f') else (Except.ok buf, f')
      | r => r).1 = finishRead n r.1 := by
  obtain ⟨r1, r2⟩ := r
  cases r1 with
  | error e => rfl
  | ok buf => simp only [finishRead]; split <;> rfl

theorem readLoop_pos_irrelevant (cap : Nat) (data : List Nat) (p p' : Nat) (s : Segment) (rest : List Segment)
    (buf : List Nat) :
    (readLoop cap (s :: rest) ⟨data, p⟩ buf).1 = (readLoop cap (s :: rest) ⟨data, p'⟩ buf).1 := by
  rw [readLoop_cons, readLoop_cons, seek_read_pos, seek_read_pos]
  split <;> rfl

/-- the outcome of `read_segments` (and, unless there is no segment at all, the file object afterwards) does
    not depend on where the file object was positioned before -/
theorem readSegments_pos_irrelevant (data : List Nat) (p p' : Nat) (segs : List Segment) (n : Nat) :
    (readSegments ⟨data, p⟩ segs n).1 = (readSegments ⟨data, p'⟩ segs n).1 := by
  match segs with
  | [] => rw [readSegments_nil, readSegments_nil]; split <;> rfl
  | [s] =>
      rw [readSegments_one, readSegments_one, seek_read_pos, seek_read_pos]
      split
      · rfl
      · split <;> rfl
  | s1 :: s2 :: rest =>
      rw [readSegments_many, readSegments_many]
      split
      · rfl
      · rw [many_fst, many_fst, readLoop_pos_irrelevant]

/-- reading never changes the contents of the file object -/
theorem readLoop_data (cap : Nat) : ∀ (segs : List Segment) (f : FileObj) (buf : List Nat),
    (readLoop cap segs f buf).2.data = f.data
  | [], f, buf => rfl
  | s :: rest, f, buf => by
      rw [readLoop_cons]
      split
      · rfl
      · split
        · rfl
        · rw [readLoop_data cap rest]; rfl

theorem readSegments_data (f : FileObj) (segs : List Segment) (n : Nat) :
    (readSegments f segs n).2.data = f.data := by
  match segs with
  | [] => rw [readSegments_nil]; split <;> rfl
  | [s] =>
      rw [readSegments_one]
      split
      · rfl
      · split <;> rfl
  | s1 :: s2 :: rest =>
      rw [readSegments_many]
      split
      · rfl
      · have := readLoop_data n (s1 :: s2 :: rest) f []
        split
        · split <;> simp_all
        · exact this


/-! ### from the bytes of the segments to the bytes of the elements -/

theorem segBytes_eq_addrs {data : List Nat} {s : Segment} (h : s.InFile data.length) :
    segBytes data s = s.addrs.map (fun a => data.getD a.toNat 0) := by
  apply List.ext_getElem
  · rw [segBytes_length h, List.length_map]; simp [Segment.addrs, rangeInts_length]
  · intro k h1 h2
    have hk : k < s.length := by rw [segBytes_length h] at h1; exact h1
    have h0 := h.1
    have h3 := h.2
    simp only [segBytes, List.getElem_take, List.getElem_drop, List.getElem_map, Segment.addrs,
      rangeInts_getElem]
    have : (s.offset + (k : Int) * 1).toNat = s.offset.toNat + k := by omega
    rw [this, List.getD_eq_getElem?_getD, List.getElem?_eq_getElem (by omega)]
    rfl

theorem elemBytes_eq (data : List Nat) (off isz q : Nat) :
    (rangeInts ((off : Int) + (isz : Int) * (q : Int)) 1 isz).map (fun a => data.getD a.toNat 0)
      = elemBytes data off isz q := by
  unfold rangeInts elemBytes
  rw [List.map_map]
  apply List.map_congr_left
  intro k _
  simp only [Function.comp]
  have : ((off : Int) + (isz : Int) * (q : Int) + (k : Int) * 1).toNat = off + isz * q + k := by
    have : (off : Int) + (isz : Int) * (q : Int) + (k : Int) * 1 = ((off + isz * q + k : Nat) : Int) := by
      simp only [Int.natCast_add, Int.natCast_mul]; omega
    rw [this, Int.toNat_natCast]
  rw [this]

theorem elemBytes_length (data : List Nat) (off isz q : Nat) : (elemBytes data off isz q).length = isz := by
  simp [elemBytes]

theorem chunks_flatMap (isz : Nat) (f : Nat → List Nat) (hf : ∀ q, (f q).length = isz) :
    ∀ G : List Nat, chunks isz G.length (G.flatMap f) = G.map f
  | [] => rfl
  | q :: G => by
      rw [List.flatMap_cons, List.length_cons, chunks, List.take_left' (hf q), List.drop_left' (hf q),
        chunks_flatMap isz f hf G, List.map_cons]

/-- the bytes `read_segments` returns for the planned segments, cut into items, are the stored elements the
    read slicers select, in F order -/
theorem segments_bytes (rs : List ReadItem) (shape : List Nat) (off isz : Nat) (data : List Nat)
    (hc : ReadCanon rs shape) (hisz : 0 < isz) (hlen : off + isz * shape.prod ≤ data.length) :
    (∀ s ∈ slicers2segments rs shape off isz, s.InFile data.length) ∧
    (slicers2segments rs shape off isz).flatMap (segBytes data)
      = (gatherF (readLists rs shape) shape).flatMap (elemBytes data off isz) := by
  have hin : ∀ s ∈ slicers2segments rs shape off isz, s.InFile data.length := by
    intro s hs
    have hp := segments_len_pos rs shape off isz hisz s hs
    have he := segments_in_extent' rs shape off isz hc s hs (by omega)
    have : ((off + isz * shape.prod : Nat) : Int) ≤ (data.length : Int) := by omega
    simp only [Int.natCast_add, Int.natCast_mul] at this
    refine ⟨by omega, ?_⟩
    omega
  refine ⟨hin, ?_⟩
  have h1 : (slicers2segments rs shape off isz).flatMap (segBytes data)
      = ((slicers2segments rs shape off isz).flatMap Segment.addrs).map (fun a => data.getD a.toNat 0) := by
    rw [List.map_flatMap]
    apply flatMap_congr'
    intro s hs
    exact segBytes_eq_addrs (hin s hs)
  rw [h1, segments_cover' rs shape off isz hc, List.map_flatMap]
  apply flatMap_congr'
  intro q _
  exact elemBytes_eq data off isz q

/-- **byte level** `fileslice` on a file object — whatever position earlier reads left it at — returns, for
    every output element, the bytes of the stored element NumPy indexing selects. -/
theorem filesliceIO_eq_numpy' (h : Heuristic) (hh : ∀ i n st, h (.int i) n st ≠ .contiguous)
    (idx : List IdxItem) (shape : List Nat) (hv : ∀ s, IdxItem.slice s ∈ idx → s.Valid)
    (o : Order) (isz off : Nat) (data : List Nat) (pos : Nat) (hisz : 0 < isz)
    (hlen : off + isz * shape.prod ≤ data.length) :
    (filesliceIO h idx shape isz off o ⟨data, pos⟩).1
      = (npIndex idx shape o).map (fun (sh, l) => (sh, l.map (elemBytes data off isz))) := by
  unfold filesliceIO npIndex calcSlicedefs
  cases hcan : canonicalSlicers idx shape with
  | error e => rfl
  | ok items =>
    have hwf := orient_wf o _ _ (canonLoop_wf idx shape items hv hcan)
    obtain ⟨rs, ps, sels, psels, h1, h2, h3, h4, h5, h6⟩ := loopOK h hh _ _ isz true hwf
    obtain ⟨hin, hbytes⟩ := segments_bytes rs (orient o shape) off isz data h3 hisz
      (by rw [orient_prod]; exact hlen)
    have hpos := segments_len_pos rs (orient o shape) off isz hisz
    have htot := segments_total_length' rs (orient o shape) off isz h3
    obtain ⟨pos', hrd⟩ := readSegments_ok data pos _ hin hpos
    have hcount : (readShape rs (orient o shape)).foldl (· * ·) 1 * isz
        = ((slicers2segments rs (orient o shape) off isz).map (·.length)).sum := by
      rw [htot, List.prod_eq_foldl, Nat.mul_comm]
    have hG : (readShape rs (orient o shape)).foldl (· * ·) 1
        = (gatherF (readLists rs (orient o shape)) (orient o shape)).length := by
      rw [gatherF_length _ _ (readLists_in _ _ h3), ← readShape_prod _ _ h3, List.prod_eq_foldl]
    simp only [bind, Except.bind, h1, h2, pure, Except.pure, Except.map]
    simp only [hcount, hrd, h4, hbytes]
    rw [hG, chunks_flatMap isz _ (elemBytes_length data off isz)]
    have hdata : (gatherF (realSels psels) (readShape rs (orient o shape))).map
          (fun q => ((gatherF (readLists rs (orient o shape)) (orient o shape)).map
            (elemBytes data off isz)).getD q default)
        = (gatherF (realSels sels) (orient o shape)).map (elemBytes data off isz) := by
      have := congrArg (List.map (fun (x : Option Nat) => (x.map (elemBytes data off isz)).getD default)) h6
      rw [List.map_map, List.map_map] at this
      refine Eq.trans ?_ (Eq.trans this ?_)
      · apply List.map_congr_left
        intro q _
        simp only [Function.comp, List.getD_eq_getElem?_getD, List.getElem?_map]
      · apply List.map_congr_left
        intro q _
        simp
    simp only [NdArr.index, h5, hdata]


/-! ### histories -/

/-- what `fileslice` does with the outcome of `read_segments` -/
def afterRead (d : SliceDefs) (isz : Nat) (o : Order) :
    Except Err (List Nat) × FileObj → Except Err (List Nat × List (List Nat)) × FileObj
  | (.error e, f') => (.error e, f')
  | (.ok bytes, f') =>
      match postSels d.post d.readShape with
      | .error e => (.error e, f')
      | .ok sels =>
          let r : NdArr (List Nat) := ⟨d.readShape, chunks isz (d.readShape.foldl (· * ·) 1) bytes⟩
          let out := r.index sels
          (.ok (orient o out.shape, out.data), f')

theorem filesliceIO_unfold (h : Heuristic) (idx : List IdxItem) (shape : List Nat) (isz off : Nat) (o : Order)
    (f : FileObj) :
    filesliceIO h idx shape isz off o f =
      match calcSlicedefs h idx shape isz off o with
      | .error e => (.error e, f)
      | .ok d => afterRead d isz o (readSegments f d.segments (d.readShape.foldl (· * ·) 1 * isz)) := by
  unfold filesliceIO
  cases calcSlicedefs h idx shape isz off o with
  | error e => rfl
  | ok d =>
    simp only []
    generalize readSegments f d.segments (d.readShape.foldl (· * ·) 1 * isz) = r
    obtain ⟨r1, r2⟩ := r
    cases r1 <;> rfl

theorem afterRead_fst (d : SliceDefs) (isz : Nat) (o : Order) (r r' : Except Err (List Nat) × FileObj)
    (h : r.1 = r'.1) : (afterRead d isz o r).1 = (afterRead d isz o r').1 := by
  obtain ⟨r1, r2⟩ := r
  obtain ⟨r1', r2'⟩ := r'
  simp only at h
  subst h
  cases r1 with
  | error e => rfl
  | ok b => simp only [afterRead]; split <;> rfl

theorem afterRead_snd (d : SliceDefs) (isz : Nat) (o : Order) (r : Except Err (List Nat) × FileObj) :
    (afterRead d isz o r).2 = r.2 := by
  obtain ⟨r1, r2⟩ := r
  cases r1 with
  | error e => rfl
  | ok b => simp only [afterRead]; split <;> rfl

/-- the outcome of a read does not depend on the position an earlier read left the file object at -/
theorem filesliceIO_pos_irrelevant' (h : Heuristic) (idx : List IdxItem) (shape : List Nat) (isz off : Nat)
    (o : Order) (data : List Nat) (p p' : Nat) :
    (filesliceIO h idx shape isz off o ⟨data, p⟩).1 = (filesliceIO h idx shape isz off o ⟨data, p'⟩).1 := by
  rw [filesliceIO_unfold, filesliceIO_unfold]
  cases calcSlicedefs h idx shape isz off o with
  | error e => rfl
  | ok d => exact afterRead_fst d isz o _ _ (readSegments_pos_irrelevant data p p' _ _)

/-- a read never changes the contents of the file object -/
theorem filesliceIO_data' (h : Heuristic) (idx : List IdxItem) (shape : List Nat) (isz off : Nat)
    (o : Order) (f : FileObj) : (filesliceIO h idx shape isz off o f).2.data = f.data := by
  rw [filesliceIO_unfold]
  cases calcSlicedefs h idx shape isz off o with
  | error e => rfl
  | ok d => simp only []; rw [afterRead_snd, readSegments_data]

/-- the read a request stands for, on the ORIGINAL contents of its file, from position 0 -/
def readAlone (files : List FileObj) (r : Req) : ReadResult :=
  (filesliceIO r.h r.idx r.shape r.isz r.off r.o ⟨(files.getD r.file default).data, 0⟩).1

theorem readAlone_congr (files files' : List FileObj) (r : Req)
    (h : ∀ j, (files'.getD j default).data = (files.getD j default).data) :
    readAlone files' r = readAlone files r := by
  unfold readAlone; rw [h]

theorem getD_set_data (files : List FileObj) (k : Nat) (f' : FileObj)
    (h : f'.data = (files.getD k default).data) (j : Nat) :
    ((files.set k f').getD j default).data = (files.getD j default).data := by
  simp only [List.getD_eq_getElem?_getD, List.getElem?_set]
  by_cases hkj : k = j
  · subst hkj
    by_cases hk : k < files.length
    · simp only [hk, if_true, Option.getD_some]
      rw [h, List.getD_eq_getElem?_getD]
    · simp [hk]
  · simp [hkj]

/-- **history** the i-th result of ANY history of reads on ANY number of file objects is the result of the
    i-th request alone on the original contents of its file: it does not depend on the reads before it (nor on
    the positions they left the file objects at) nor on the reads after it. -/
theorem read_history_independent' : ∀ (reqs : List Req) (files : List FileObj) (i : Nat) (hi : i < reqs.length),
    (runHistory files reqs)[i]? = some (readAlone files reqs[i])
  | [], _, _, hi => by simp at hi
  | r :: rest, files, 0, _ => by
      simp only [runHistory, List.getElem?_cons_zero, List.getElem_cons_zero, readAlone]
      rw [filesliceIO_pos_irrelevant' r.h r.idx r.shape r.isz r.off r.o _ (files.getD r.file default).pos 0]
  | r :: rest, files, i + 1, hi => by
      simp only [runHistory, List.getElem?_cons_succ, List.getElem_cons_succ]
      rw [read_history_independent' rest _ i (by simpa using hi)]
      congr 1
      apply readAlone_congr
      exact getD_set_data files r.file _ (filesliceIO_data' r.h r.idx r.shape r.isz r.off r.o _)

theorem runHistory_length : ∀ (reqs : List Req) (files : List FileObj), (runHistory files reqs).length = reqs.length
  | [], _ => rfl
  | r :: rest, files => by simp [runHistory, runHistory_length rest]

/-! ### a short file is refused, never padded -/

theorem segBytes_length_le (data : List Nat) (s : Segment) : (segBytes data s).length ≤ s.length := by
  unfold segBytes; rw [List.length_take]; omega

theorem segBytes_length_lt (data : List Nat) (s : Segment) (hp : 0 < s.length)
    (h : data.length < s.offset.toNat + s.length) : (segBytes data s).length < s.length := by
  unfold segBytes; rw [List.length_take, List.length_drop]; omega

theorem readLoop_length (cap : Nat) (data : List Nat) :
    ∀ (segs : List Segment) (pos : Nat) (buf out : List Nat) (f' : FileObj),
      readLoop cap segs ⟨data, pos⟩ buf = (.ok out, f') →
      out.length = buf.length + (segs.map (fun s => (segBytes data s).length)).sum
  | [], pos, buf, out, f', h => by
      simp only [readLoop, Prod.mk.injEq, Except.ok.injEq] at h
      rw [← h.1]; simp
  | s :: rest, pos, buf, out, f', h => by
      rw [readLoop_cons, seek_read_pos] at h
      split at h
      · simp at h
      · split at h
        · simp at h
        · have := readLoop_length cap data rest _ _ _ _ h
          rw [this, List.map_cons, List.sum_cons]
          simp only [List.length_append, segBytes]
          omega

theorem sum_lt_of_le_of_exists_lt (f g : Segment → Nat) : ∀ (segs : List Segment),
    (∀ s ∈ segs, f s ≤ g s) → (∃ s ∈ segs, f s < g s) → (segs.map f).sum < (segs.map g).sum
  | [], _, h => by obtain ⟨s, hs, _⟩ := h; cases hs
  | a :: l, hle, hex => by
      simp only [List.map_cons, List.sum_cons]
      have ha := hle a (by simp)
      have hl : (l.map f).sum ≤ (l.map g).sum := by
        clear hex
        induction l with
        | nil => simp
        | cons b l ih =>
          simp only [List.map_cons, List.sum_cons]
          have := hle b (by simp)
          have := ih (fun s hs => hle s (by
            simp only [List.mem_cons] at hs ⊢
            rcases hs with h | h
            · exact Or.inl h
            · exact Or.inr (Or.inr h)))
          omega
      obtain ⟨s, hs, hlt⟩ := hex
      simp only [List.mem_cons] at hs
      rcases hs with rfl | hs
      · omega
      · have := sum_lt_of_le_of_exists_lt f g l (fun t ht => hle t (by simp [ht])) ⟨s, hs, hlt⟩
        omega

/-- if a planned segment reaches beyond the end of the file, `read_segments` (asked for the planned total)
    raises — from any position, however many segments: it never pads, never returns fewer bytes silently -/
theorem readSegments_short' (data : List Nat) (pos : Nat) (segs : List Segment)
    (hout : ∃ s ∈ segs, 0 < s.length ∧ data.length < s.offset.toNat + s.length) :
    ∃ e, (readSegments ⟨data, pos⟩ segs (segs.map (·.length)).sum).1 = .error e := by
  have hlt := sum_lt_of_le_of_exists_lt (fun s => (segBytes data s).length) (·.length) segs
    (fun s _ => segBytes_length_le data s)
    (by obtain ⟨s, hs, hp, h⟩ := hout; exact ⟨s, hs, segBytes_length_lt data s hp h⟩)
  match segs, hout, hlt with
  | [], hout, _ => obtain ⟨s, hs, _⟩ := hout; cases hs
  | [s], _, hlt =>
      rw [readSegments_one, seek_read_pos]
      simp only [List.map_cons, List.map_nil, List.sum_cons, List.sum_nil, Nat.add_zero] at hlt ⊢
      split
      · exact ⟨_, rfl⟩
      · have : (List.take s.length (List.drop s.offset.toNat data)).length ≠ s.length := by
          unfold segBytes at hlt; omega
        simp only [this, ne_eq, not_false_eq_true, if_true]
        exact ⟨_, rfl⟩
  | s1 :: s2 :: rest, _, hlt =>
      rw [readSegments_many]
      split
      · exact ⟨_, rfl⟩
      · rw [many_fst]
        cases hr : readLoop ((s1 :: s2 :: rest).map (·.length)).sum (s1 :: s2 :: rest) ⟨data, pos⟩ [] with
        | mk r1 f' =>
          cases r1 with
          | error e => exact ⟨e, rfl⟩
          | ok out =>
            have := readLoop_length _ data _ _ _ _ _ hr
            simp only [List.length_nil, Nat.zero_add] at this
            simp only [finishRead]
            have hne : out.length ≠ ((s1 :: s2 :: rest).map (·.length)).sum := by omega
            simp only [hne, ne_eq, not_false_eq_true, if_true]
            exact ⟨_, rfl⟩


/-- hence `fileslice` on a file too short for one of the planned reads raises (it never fabricates data) -/
theorem filesliceIO_short' (h : Heuristic) (idx : List IdxItem) (shape : List Nat)
    (hv : ∀ s, IdxItem.slice s ∈ idx → s.Valid) (o : Order) (isz off : Nat) (data : List Nat) (pos : Nat)
    (d : SliceDefs) (hok : calcSlicedefs h idx shape isz off o = .ok d)
    (hout : ∃ s ∈ d.segments, 0 < s.length ∧ data.length < s.offset.toNat + s.length) :
    ∃ e, (filesliceIO h idx shape isz off o ⟨data, pos⟩).1 = .error e := by
  rw [filesliceIO_unfold, hok]
  simp only []
  have htot := (calcSlicedefs_in_extent' h idx shape hv o isz off d hok).2
  have hcount : d.readShape.foldl (· * ·) 1 * isz = (d.segments.map (·.length)).sum := by
    rw [htot, List.prod_eq_foldl, Nat.mul_comm]
  rw [hcount]
  obtain ⟨e, he⟩ := readSegments_short' data pos d.segments hout
  generalize readSegments ⟨data, pos⟩ d.segments (d.segments.map (·.length)).sum = r at he
  obtain ⟨r1, r2⟩ := r
  simp only at he
  subst he
  exact ⟨e, rfl⟩

end Nb.C06
