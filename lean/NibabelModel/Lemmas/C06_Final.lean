import NibabelModel.Lemmas.C06_Whole
/-! Lemmas/C06_Final — the whole `fileslice` equals NumPy indexing (stage C, assembly). -/
namespace Nb.C06
open Nb Nb.PySlice

theorem orient_wf (o : Order) (items : List Item) (shape : List Nat) (h : ItemsWF items shape) :
    ItemsWF (orient o items) (orient o shape) := by
  cases o
  · exact itemsWF_reverse _ _ h
  · exact h

theorem orient_prod (o : Order) (shape : List Nat) : (orient o shape).prod = shape.prod := by
  cases o
  · exact List.prod_reverse shape
  · rfl

theorem fileslice_eq_numpy' (h : Heuristic) (hh : ∀ i n st, h (.int i) n st ≠ .contiguous)
    (idx : List IdxItem) (shape : List Nat) (hv : ∀ s, IdxItem.slice s ∈ idx → s.Valid)
    (o : Order) (isz off flen : Nat) (hisz : 0 < isz) (hlen : off + isz * shape.prod ≤ flen) :
    fileslice h idx shape isz off flen o
      = (npIndex idx shape o).map (fun (sh, l) => (sh, l.map Int.ofNat)) := by
  unfold fileslice npIndex calcSlicedefs
  cases hcan : canonicalSlicers idx shape with
  | error e => rfl
  | ok items =>
    have hwf := orient_wf o _ _ (canonLoop_wf idx shape items hv hcan)
    obtain ⟨rs, ps, sels, psels, h1, h2, h3, h4, h5, h6⟩ := loopOK h hh _ _ isz true hwf
    have hread := segments_readable rs (orient o shape) off isz flen h3 hisz
      (by rw [orient_prod]; exact hlen)
    have helems := segElems_eq rs (orient o shape) off isz hisz h3
    have hlenE : (segElems off isz (slicers2segments rs (orient o shape) off isz)).length
        = (readShape rs (orient o shape)).foldl (· * ·) 1 := by
      rw [helems, List.length_map, gatherF_length _ _ (readLists_in _ _ h3), ← readShape_prod _ _ h3,
        List.prod_eq_foldl]
    simp only [bind, Except.bind, h1, h2, pure, Except.pure, Except.map]
    simp only [hread, hlenE, h4]
    simp only [Bool.not_true, Bool.false_eq_true, if_false, ne_eq, not_true_eq_false]
    have hdata : (gatherF (realSels psels) (readShape rs (orient o shape))).map
          (fun q => (segElems off isz (slicers2segments rs (orient o shape) off isz)).getD q default)
        = (gatherF (realSels sels) (orient o shape)).map Int.ofNat := by
      have := congrArg (List.map (fun (x : Option Nat) => (x.map Int.ofNat).getD default)) h6
      rw [List.map_map, List.map_map] at this
      rw [helems]
      refine Eq.trans ?_ (Eq.trans this ?_)
      · apply List.map_congr_left
        intro q _
        simp only [Function.comp, List.getD_eq_getElem?_getD, List.getElem?_map]
      · apply List.map_congr_left
        intro q _
        simp
    simp only [NdArr.index, h5, hdata]

/-- every byte `calc_slicedefs` asks for lies inside the array extent — for EVERY heuristic -/
theorem calcSlicedefs_in_extent' (h : Heuristic) (idx : List IdxItem) (shape : List Nat)
    (hv : ∀ s, IdxItem.slice s ∈ idx → s.Valid) (o : Order) (isz off : Nat) (d : SliceDefs)
    (hok : calcSlicedefs h idx shape isz off o = .ok d) :
    (∀ s ∈ d.segments, s.length ≠ 0 →
      (off : Int) ≤ s.offset ∧ s.offset + s.length ≤ (off : Int) + (isz : Int) * (shape.prod : Nat)) ∧
    (d.segments.map (·.length)).sum = isz * d.readShape.prod := by
  unfold calcSlicedefs at hok
  cases hcan : canonicalSlicers idx shape with
  | error e => rw [hcan] at hok; cases hok
  | ok items =>
    rw [hcan] at hok
    simp only [bind, Except.bind] at hok
    have hwf := orient_wf o _ _ (canonLoop_wf idx shape items hv hcan)
    cases hopt : optimizeLoop h (orient o items) (orient o shape) isz true with
    | error e => rw [hopt] at hok; cases hok
    | ok rp =>
      obtain ⟨rs, ps⟩ := rp
      rw [hopt] at hok
      simp only [pure, Except.pure, Except.ok.injEq] at hok
      subst hok
      have hc := optimizeLoop_readCanon h _ _ isz true rs ps hwf hopt
      refine ⟨?_, segments_total_length' rs _ off isz hc⟩
      have := segments_in_extent' rs (orient o shape) off isz hc
      rw [orient_prod] at this
      exact this

/-- an integer index outside `[-n, n)` makes `canonical_slicers` raise -/
theorem canonLoop_int_error : ∀ (pre : List IdxItem) (i : Int) (post : List IdxItem) (shape : List Nat)
    (_hpre : ∀ x ∈ pre, x ≠ .newaxis ∧ x ≠ .ellipsis) (_hlt : pre.length < shape.length)
    (_hout : ¬ (-(shape.getD pre.length 0 : Int) ≤ i ∧ i < (shape.getD pre.length 0 : Int))),
    canonLoop true (pre ++ .int i :: post) shape = .error .index
  | [], i, post, [], _, hlt, _ => by simp at hlt
  | [], i, post, n :: shape, _, _, hout => by
      rw [List.nil_append, canonLoop_cons _ _ _ _ _ (by simp) (by simp)]
      have : canonItem n true (.int i) = .error .index := by
        simp only [List.length_nil, List.getD_cons_zero] at hout
        simp only [canonItem, Bool.true_and]
        split
        · rw [if_pos (by simp only [decide_eq_true_eq]; omega)]
        · rw [if_pos (by simp only [decide_eq_true_eq]; omega)]
      rw [this]; rfl
  | a :: pre, i, post, [], _, hlt, _ => by simp at hlt
  | a :: pre, i, post, m :: shape, hpre, hlt, hout => by
      have ha := hpre a (by simp)
      rw [List.cons_append, canonLoop_cons _ _ _ _ _ ha.1 ha.2]
      have ih := canonLoop_int_error pre i post shape (fun x hx => hpre x (by simp [hx]))
        (by simpa using hlt) (by simpa using hout)
      have hce : ∀ e, canonItem m true a = .error e → e = .index := by
        intro e he
        cases a with
        | newaxis => simp [canonItem] at he
        | ellipsis => exact absurd rfl ha.2
        | slice s => simp only [canonItem] at he; split at he <;> (try split at he) <;> cases he
        | int j =>
          simp only [canonItem] at he
          split at he <;> split at he <;> first | cases he; rfl | cases he
      cases hc : canonItem m true a with
      | error e => rw [hce e hc]; rfl
      | ok c => rw [ih]; rfl

theorem fileslice_int_out_of_range' (h : Heuristic) (pre : List IdxItem) (i : Int) (post : List IdxItem)
    (shape : List Nat) (o : Order) (isz off flen : Nat)
    (hpre : ∀ x ∈ pre, x ≠ .newaxis ∧ x ≠ .ellipsis) (hlt : pre.length < shape.length)
    (hout : ¬ (-(shape.getD pre.length 0 : Int) ≤ i ∧ i < (shape.getD pre.length 0 : Int))) :
    fileslice h (pre ++ .int i :: post) shape isz off flen o = .error .index ∧
    npIndex (pre ++ .int i :: post) shape o = .error .index := by
  have hc : canonicalSlicers (pre ++ .int i :: post) shape = .error .index :=
    canonLoop_int_error pre i post shape hpre hlt hout
  unfold fileslice calcSlicedefs npIndex
  rw [hc]
  exact ⟨rfl, rfl⟩

end Nb.C06
