import NibabelModel.Model.C17_Hist
/-! Lemmas/C17_Hist — the literal, object-walking serialiser of Model/C17_Hist refines the pure one (core Lean). -/
namespace Nb.C17

theorem mapOpt_getElem {α β} (f : α → Option β) : ∀ (l : List α) (r : List β), mapOpt f l = some r →
    r.length = l.length ∧ ∀ (k : Nat) a, l[k]? = some a → ∃ b, r[k]? = some b ∧ f a = some b
  | [], r, h => by
    simp only [mapOpt, Option.some.injEq] at h; subst h
    exact ⟨rfl, fun k a hk => by simp at hk⟩
  | x :: xs, r, h => by
    simp only [mapOpt] at h
    cases hx : f x with
    | none => simp [hx] at h
    | some b =>
      cases hxs : mapOpt f xs with
      | none => simp [hx, hxs] at h
      | some bs =>
        simp only [hx, hxs, Option.some.injEq] at h
        subst h
        obtain ⟨h1, h2⟩ := mapOpt_getElem f xs bs hxs
        refine ⟨by simp [h1], fun k a hk => ?_⟩
        cases k with
        | zero => simp at hk; subst hk; exact ⟨b, by simp, hx⟩
        | succ k => simpa using h2 k a (by simpa using hk)

/-- the `endian` attributes after one serialisation: native on every array of the image, untouched elsewhere -/
def normEnd (native : Nat) (en : Nat → Nat) (ids : List Nat) : Nat → Nat := fun j => if j ∈ ids then native else en j

theorem serDAs_spec (N : WNames) (native : Nat) (E : DataEnc) (c : Core) : ∀ (ids : List Nat) (en : Nat → Nat),
    serDAs N native E c en ids =
      (mapOpt (viewDA native E c) ids).map (fun ws => (normEnd native en ids, ws.flatMap (daEvents N)))
  | [], en => by
    simp only [serDAs, mapOpt, Option.map_some, List.flatMap_nil]
    congr 2
  | id :: ids, en => by
    simp only [serDAs, mapOpt, viewDA]
    cases hd : c.das id with
    | none => simp
    | some d =>
      cases ha : c.nds d.data with
      | none => simp [ha]
      | some a =>
        simp only [if_true, ha]
        rw [serDAs_spec N native E c ids]
        cases hm : mapOpt (viewDA native E c) ids with
        | none => simp
        | some ws =>
          simp only [Option.map_some, List.flatMap_cons, Option.some.injEq, Prod.mk.injEq, and_true]
          funext j
          simp only [normEnd, List.mem_cons]
          by_cases h1 : j = id <;> by_cases h2 : j ∈ ids <;> simp [h1, h2]

theorem serLit_spec (N : WNames) (native : Nat) (E : DataEnc) (s : HSt) :
    serLit N native E s =
      (view native E s.core).map (fun w => (⟨s.core, normEnd native s.endians s.core.darrays⟩, imgEvents N w)) := by
  simp only [serLit, serDAs_spec, view]
  cases hm : mapOpt (viewDA native E s.core) s.core.darrays with
  | none => simp
  | some ws =>
    have hl := (mapOpt_getElem _ _ _ hm).1
    simp [imgEvents, hl]

theorem runLit_eq_runAbs (N : WNames) (native : Nat) (E : DataEnc) (col : Nat → Option Bool) :
    ∀ (ops : List Op) (s : HSt), runLit N native E col s ops = runAbs N native E col s.core ops
  | [], s => by simp [runLit, runAbs, serStates, mapOpt]
  | op :: ops, s => by
    cases op with
    | ser =>
      simp only [runLit, runAbs, serStates, serLit_spec]
      cases hv : view native E s.core with
      | none =>
        cases hs : serStates col s.core ops with
        | none => simp
        | some cs => simp [mapOpt, hv]
      | some w =>
        simp only [Option.map_some]
        rw [runLit_eq_runAbs N native E col ops]
        simp only [runAbs]
        cases hs : serStates col s.core ops with
        | none => simp
        | some cs =>
          simp only [Option.map_some, Option.bind_some, mapOpt, hv]
          cases mapOpt (fun c => Option.map (imgEvents N) (view native E c)) cs <;> simp
    | reload base =>
      simp only [runLit, runAbs, serStates]
      cases hr : reloadCore col s.core base with
      | none => simp
      | some c => simp only; rw [runLit_eq_runAbs N native E col ops]; rfl
    | _ =>
      simp only [runLit, runAbs, serStates, applyMut]
      cases hr : applyCore s.core _ with
      | none => simp
      | some c => simp only [Option.map_some]; rw [runLit_eq_runAbs N native E col ops]; rfl


/-- an in-place edit of the ndarray held by the data array at `pos` is seen through EVERY data array object that holds
    the same ndarray (and through no other) -/
theorem viewDA_editNd (native : Nat) (E : DataEnc) (c : Core) (pos id : Nat) (d : DObj) (a : NdArr) (elems : List Nat)
    (hp : c.darrays[pos]? = some id) (hd : c.das id = some d) (ha : c.nds d.data = some a)
    (hl : elems.length = a.elems.length) :
    ∃ c', applyCore c (.editNd pos elems) = some c' ∧ c'.darrays = c.darrays ∧
      ∀ id2 d2, c.das id2 = some d2 →
        viewDA native E c' id2 =
          if d2.data = d.data then
            some { intent := d2.intent, datatype := d2.datatype, indOrd := d2.indOrd, encoding := d2.encoding,
                   «endian» := native, dims := d2.dims, extFname := d2.extFname, extOffset := d2.extOffset,
                   dmeta := d2.dmeta, coordsys := d2.coordsys,
                   dataText := E d2.encoding d2.datatype d2.indOrd { a with elems := elems } }
          else viewDA native E c id2 := by
  refine ⟨{ c with nds := c.nds.set d.data { a with elems := elems } }, by simp [applyCore, hp, hd, ha, hl], rfl, ?_⟩
  intro id2 d2 h2
  by_cases he : d2.data = d.data
  · simp [viewDA, h2, Heap.set, he]
  · simp [viewDA, h2, Heap.set, he]

end Nb.C17
