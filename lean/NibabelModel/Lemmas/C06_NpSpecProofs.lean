import NibabelModel.Lemmas.C06_Final
import NibabelModel.Lemmas.C06_NpSpec
/-! Lemmas/C06_NpSpecProofs — `canonical_slicers` followed by per-axis selection equals the
    independent NumPy specification `npSpec`; `predict_shape` equals the spec's output shape. -/
namespace Nb.C06
open Nb Nb.PySlice

/-! ### per item: canonicalise then select = select directly -/

/-- NumPy selection of one int / slice item on an axis of length `n` (as `specSels` computes it) -/
def selOf (n : Nat) : IdxItem → Except Err Sel
  | .int i => match pyIntIndex n i with
      | some k => .ok (.one k)
      | none => .error .index
  | .slice s => .ok (.many (s.sel n))
  | _ => .error .value

theorem sel_fullslice (s : PySlice) (n : Nat)
    (h : s.stop = some (n : Int) ∧ (s.start = none ∨ s.start = some 0) ∧ (s.step = none ∨ s.step = some 1)) :
    s.sel n = pySliceNone.sel n := by
  obtain ⟨a, b, c⟩ := s
  obtain ⟨h1, h2, h3⟩ := h
  simp only at h1 h2 h3
  subst h1
  have hi : (⟨a, some (n : Int), c⟩ : PySlice).indices n = (0, (n : Int), 1) := by
    rcases h2 with rfl | rfl <;> rcases h3 with rfl | rfl <;>
      simp [indices, stepVal, adjust1] <;> omega
  unfold sel
  rw [hi, pySliceNone, indices_none]

theorem canonItem_selOf (n : Nat) (x : IdxItem) (hx : isReal x = true) :
    (∃ c, canonItem n true x = .ok c ∧ c ≠ .newaxis ∧ itemSel n c = selOf n x ∧
        ∃ sv, selOf n x = .ok sv) ∨
    (canonItem n true x = .error .index ∧ selOf n x = .error .index) := by
  cases x with
  | newaxis => simp [isReal] at hx
  | ellipsis => simp [isReal] at hx
  | slice s =>
    left
    simp only [canonItem]
    split
    · exact ⟨_, rfl, by simp, rfl, _, rfl⟩
    · split
      · rename_i h
        refine ⟨_, rfl, by simp, ?_, _, rfl⟩
        simp only [itemSel, selOf, sel_fullslice s n h]
      · exact ⟨_, rfl, by simp, rfl, _, rfl⟩
  | int i =>
    simp only [canonItem, Bool.true_and, selOf, pyIntIndex]
    by_cases h0 : i < 0
    · by_cases h1 : i + (n : Int) < 0
      · right
        rw [if_pos h0, if_pos (by simpa using h1), if_neg (by omega), if_neg (by omega)]
        exact ⟨rfl, rfl⟩
      · left
        rw [if_pos h0, if_neg (by simpa using h1), if_neg (by omega), if_pos (by omega)]
        refine ⟨_, rfl, by simp, ?_, _, rfl⟩
        simp only [itemSel, pyIntIndex]
        rw [if_pos (by omega)]
    · by_cases h1 : i ≥ (n : Int)
      · right
        rw [if_neg h0, if_pos (by simpa using h1), if_neg (by omega), if_neg (by omega)]
        exact ⟨rfl, rfl⟩
      · left
        rw [if_neg h0, if_neg (by simpa using h1), if_pos (by omega)]
        refine ⟨_, rfl, by simp, ?_, _, rfl⟩
        simp only [itemSel, pyIntIndex]
        rw [if_pos (by omega)]

/-! ### counting lemmas -/

theorem nReal_cons (x : IdxItem) (l : List IdxItem) :
    nReal (x :: l) = (if isReal x then 1 else 0) + nReal l := by
  unfold nReal
  rw [List.filter_cons]
  split <;> simp <;> omega

theorem nEllipsis_cons (x : IdxItem) (l : List IdxItem) :
    nEllipsis (x :: l) = (if isEllipsis x then 1 else 0) + nEllipsis l := by
  unfold nEllipsis
  rw [List.filter_cons]
  split <;> simp <;> omega

theorem any_isEllipsis_of_zero : ∀ (l : List IdxItem), nEllipsis l = 0 → l.any isEllipsis = false
  | [], _ => rfl
  | x :: l, h => by
      rw [nEllipsis_cons] at h
      have hx : isEllipsis x = false := by
        cases hx : isEllipsis x <;> simp [hx] at h ⊢
      rw [List.any_cons, hx, any_isEllipsis_of_zero l (by rw [hx] at h; simpa using h)]; rfl

theorem any_isEllipsis_of_pos : ∀ (l : List IdxItem), 0 < nEllipsis l → l.any isEllipsis = true
  | [], h => by simp [nEllipsis] at h
  | x :: l, h => by
      rw [nEllipsis_cons] at h
      rw [List.any_cons]
      cases hx : isEllipsis x
      · rw [hx] at h
        rw [any_isEllipsis_of_pos l (by simpa using h)]; rfl
      · rfl

theorem filter_notNewaxis_length : ∀ (l : List IdxItem), nEllipsis l = 0 →
    (l.filter (fun x => !isNewaxis x)).length = nReal l
  | [], _ => rfl
  | x :: l, h => by
      rw [nEllipsis_cons] at h
      have ih := filter_notNewaxis_length l (by omega)
      rw [nReal_cons, List.filter_cons]
      cases x with
      | ellipsis => simp [isEllipsis] at h
      | newaxis =>
        simp only [show (!isNewaxis IdxItem.newaxis) = false from rfl,
          show isReal IdxItem.newaxis = false from rfl, Bool.false_eq_true, if_false, Nat.zero_add]
        exact ih
      | int i =>
        simp only [show (!isNewaxis (IdxItem.int i)) = true from rfl,
          show isReal (IdxItem.int i) = true from rfl, if_true, List.length_cons]
        omega
      | slice s =>
        simp only [show (!isNewaxis (IdxItem.slice s)) = true from rfl,
          show isReal (IdxItem.slice s) = true from rfl, if_true, List.length_cons]
        omega

theorem expand_noEllipsis (f : Nat) : ∀ (l : List IdxItem), nEllipsis l = 0 → expandEllipsis f l = l
  | [], _ => rfl
  | x :: l, h => by
      rw [nEllipsis_cons] at h
      have ih := expand_noEllipsis f l (by omega)
      cases x with
      | ellipsis => simp [isEllipsis] at h
      | newaxis => simp [expandEllipsis, ih]
      | int i => simp [expandEllipsis, ih]
      | slice s => simp [expandEllipsis, ih]

theorem expand_append (f : Nat) : ∀ (l m : List IdxItem),
    expandEllipsis f (l ++ m) = expandEllipsis f l ++ expandEllipsis f m
  | [], m => rfl
  | x :: l, m => by
      cases x <;> simp [expandEllipsis, expand_append f l m]

/-! ### runs of full slices -/

def fullSel (shape : List Nat) : List Sel := shape.map (fun n => Sel.many (pySliceNone.sel n))

theorem itemsSels_fill_append : ∀ (pre : List Nat) (r : List Item) (shape : List Nat),
    itemsSels (pre.map (fun _ => Item.slice pySliceNone) ++ r) (pre ++ shape)
      = (itemsSels r shape).map (fullSel pre ++ ·)
  | [], r, shape => by
      simp only [List.map_nil, List.nil_append, fullSel]
      cases itemsSels r shape <;> rfl
  | n :: pre, r, shape => by
      rw [List.map_cons, List.cons_append, List.cons_append, itemsSels_cons _ _ _ _ (by simp),
        itemsSels_fill_append pre r shape]
      cases h : itemsSels r shape <;> simp [fullSel, Except.map, itemSel, bind, Except.bind, pure, Except.pure]

theorem specSels_fill_append : ∀ (pre : List Nat) (e : List IdxItem) (shape : List Nat),
    specSels (pre.map (fun _ => IdxItem.slice ⟨none, none, none⟩) ++ e) (pre ++ shape)
      = (specSels e shape).map (fullSel pre ++ ·)
  | [], e, shape => by
      simp only [List.map_nil, List.nil_append, fullSel]
      cases specSels e shape <;> rfl
  | n :: pre, e, shape => by
      rw [List.map_cons, List.cons_append, List.cons_append, specSels,
        specSels_fill_append pre e shape]
      cases h : specSels e shape <;>
        simp [fullSel, Except.map, bind, Except.bind, pure, Except.pure, pySliceNone]

theorem replicate_eq_map_take {α β} (x : β) (k : Nat) (l : List α) (hk : k ≤ l.length) :
    List.replicate k x = (l.take k).map (fun _ => x) := by
  rw [List.map_const', List.length_take, Nat.min_eq_left hk]

/-! ### the two sides, with their recursion equations -/

/-- `canonical_slicers` followed by the per-axis selection of the canonical items -/
def canonSels (idx : List IdxItem) (shape : List Nat) : Except Err (List Sel) :=
  match canonLoop true idx shape with
  | .ok items => itemsSels items shape
  | .error e => .error e

/-- `npSpec` after the single-ellipsis check -/
def specCore (idx : List IdxItem) (shape : List Nat) : Except Err (List Sel) :=
  if nReal idx > shape.length then .error .index
  else specSels (expandEllipsis (shape.length - nReal idx)
    (if nEllipsis idx = 0 then idx ++ [IdxItem.ellipsis] else idx)) shape

theorem npSpec_eq (idx : List IdxItem) (shape : List Nat) :
    npSpec idx shape = if nEllipsis idx > 1 then .error .value else specCore idx shape := rfl

theorem specCore_nil (shape : List Nat) : specCore [] shape = .ok (fullSel shape) := by
  unfold specCore
  rw [if_neg (by simp [nReal]), if_pos (by simp [nEllipsis])]
  simp only [nReal, List.filter_nil, List.length_nil, Nat.sub_zero, List.nil_append, expandEllipsis,
    List.append_nil]
  have h1 : List.replicate shape.length (IdxItem.slice ⟨none, none, none⟩)
      = shape.map (fun _ => IdxItem.slice ⟨none, none, none⟩) := by rw [List.map_const']
  have h2 := specSels_fill_append shape [] []
  rw [List.append_nil, List.append_nil] at h2
  rw [h1, h2]; simp [specSels, Except.map]

theorem canonSels_nil (shape : List Nat) : canonSels [] shape = .ok (fullSel shape) := by
  unfold canonSels
  rw [canonLoop_nil]
  have h2 := itemsSels_fill_append shape [] []
  rw [List.append_nil, List.append_nil] at h2
  simp only [h2]; simp [itemsSels, Except.map]

theorem specCore_newaxis (rest : List IdxItem) (shape : List Nat) :
    specCore (.newaxis :: rest) shape = (specCore rest shape).map (Sel.new :: ·) := by
  unfold specCore
  have h1 : nReal (.newaxis :: rest) = nReal rest := by rw [nReal_cons]; simp [isReal]
  have h2 : nEllipsis (.newaxis :: rest) = nEllipsis rest := by rw [nEllipsis_cons]; simp [isEllipsis]
  rw [h1, h2]
  split
  · rfl
  · split
    · simp only [List.cons_append, expandEllipsis, specSels]
      cases specSels _ shape <;> rfl
    · simp only [expandEllipsis, specSels]
      cases specSels _ shape <;> rfl

theorem canonSels_newaxis (rest : List IdxItem) (shape : List Nat) :
    canonSels (.newaxis :: rest) shape = (canonSels rest shape).map (Sel.new :: ·) := by
  unfold canonSels
  rw [canonLoop_newaxis]
  cases canonLoop true rest shape with
  | error e => rfl
  | ok r =>
    simp only [bind, Except.bind, pure, Except.pure]
    rw [itemsSels_newaxis]
    cases itemsSels r shape <;> rfl

theorem specCore_cons_nil (x : IdxItem) (rest : List IdxItem) (hx : isReal x = true) :
    specCore (x :: rest) [] = .error .index := by
  unfold specCore
  rw [if_pos (by rw [nReal_cons, hx]; simp; omega)]

theorem canonSels_cons_nil (x : IdxItem) (rest : List IdxItem) (hx : isReal x = true) :
    canonSels (x :: rest) [] = .error .index := by
  unfold canonSels
  rw [canonLoop_cons_nil _ _ _ (by intro e; subst e; simp [isReal] at hx)
    (by intro e; subst e; simp [isReal] at hx)]

theorem specCore_cons (x : IdxItem) (rest : List IdxItem) (n : Nat) (shape : List Nat)
    (hx : isReal x = true) :
    specCore (x :: rest) (n :: shape) = match selOf n x with
      | .ok sv => (specCore rest shape).map (sv :: ·)
      | .error _ => .error .index := by
  unfold specCore
  have h1 : nReal (x :: rest) = nReal rest + 1 := by rw [nReal_cons, hx]; simp; omega
  have h2 : nEllipsis (x :: rest) = nEllipsis rest := by
    rw [nEllipsis_cons]; cases x <;> simp [isEllipsis, isReal] at hx ⊢
  rw [h1, h2]
  simp only [List.length_cons, Nat.add_lt_add_iff_right, gt_iff_lt, Nat.add_sub_add_right]
  cases x with
  | newaxis => simp [isReal] at hx
  | ellipsis => simp [isReal] at hx
  | int i =>
    simp only [selOf]
    cases hp : pyIntIndex n i with
    | none =>
      simp only []
      split
      · rfl
      · split <;> simp only [List.cons_append, expandEllipsis, specSels, hp]
    | some k =>
      simp only []
      split
      · rfl
      · split <;> simp only [List.cons_append, expandEllipsis, specSels, hp] <;>
          cases specSels _ shape <;> rfl
  | slice s =>
    simp only [selOf]
    split
    · rfl
    · split <;> simp only [List.cons_append, expandEllipsis, specSels] <;>
        cases specSels _ shape <;> rfl

theorem canonSels_cons (x : IdxItem) (rest : List IdxItem) (n : Nat) (shape : List Nat)
    (hx : isReal x = true) :
    canonSels (x :: rest) (n :: shape) = match selOf n x with
      | .ok sv => (canonSels rest shape).map (sv :: ·)
      | .error _ => .error .index := by
  unfold canonSels
  rw [canonLoop_cons _ _ _ _ _ (by intro e; subst e; simp [isReal] at hx)
    (by intro e; subst e; simp [isReal] at hx)]
  rcases canonItem_selOf n x hx with ⟨c, hc, hcn, hsel, sv, hsv⟩ | ⟨hc, hs⟩
  · rw [hc, hsv]
    simp only [bind, Except.bind]
    cases canonLoop true rest shape with
    | error e => rfl
    | ok r =>
      simp only [pure, Except.pure]
      rw [itemsSels_cons _ _ _ _ hcn, hsel, hsv]
      simp only [bind, Except.bind]
      cases itemsSels r shape <;> rfl
  · rw [hc, hs]; rfl

theorem specCore_noEllipsis_exact (rest : List IdxItem) (shape : List Nat) (h0 : nEllipsis rest = 0)
    (hlen : nReal rest = shape.length) : specCore rest shape = specSels rest shape := by
  unfold specCore
  rw [if_neg (by omega), if_pos h0, hlen, Nat.sub_self, expand_append, expand_noEllipsis 0 rest h0]
  simp [expandEllipsis]

theorem specCore_ellipsis (rest : List IdxItem) (shape : List Nat) (h0 : nEllipsis rest = 0) :
    specCore (.ellipsis :: rest) shape =
      (specCore rest (shape.drop (shape.length - nReal rest))).map
        (fullSel (shape.take (shape.length - nReal rest)) ++ ·) := by
  have h1 : nReal (.ellipsis :: rest) = nReal rest := by rw [nReal_cons]; simp [isReal]
  have h2 : nEllipsis (.ellipsis :: rest) ≠ 0 := by rw [nEllipsis_cons]; simp [isEllipsis]
  by_cases hgt : nReal rest > shape.length
  · have hk : shape.length - nReal rest = 0 := by omega
    rw [hk, List.drop_zero]
    unfold specCore
    rw [h1, if_pos hgt, if_pos hgt]; rfl
  · have hk : shape.length - nReal rest ≤ shape.length := by omega
    rw [specCore_noEllipsis_exact rest _ h0 (by rw [List.length_drop]; omega)]
    unfold specCore
    rw [h1, if_neg hgt, if_neg h2]
    simp only [expandEllipsis]
    rw [expand_noEllipsis _ rest h0, replicate_eq_map_take _ _ shape hk]
    have := specSels_fill_append (shape.take (shape.length - nReal rest)) rest
      (shape.drop (shape.length - nReal rest))
    rw [List.take_append_drop] at this
    exact this

theorem canonSels_ellipsis (rest : List IdxItem) (shape : List Nat) (h0 : nEllipsis rest = 0) :
    canonSels (.ellipsis :: rest) shape =
      (canonSels rest (shape.drop (shape.length - nReal rest))).map
        (fullSel (shape.take (shape.length - nReal rest)) ++ ·) := by
  unfold canonSels
  rw [canonLoop_ellipsis, any_isEllipsis_of_zero rest h0, filter_notNewaxis_length rest h0]
  simp only [Bool.false_eq_true, if_false]
  have hk : shape.length - nReal rest ≤ shape.length := by omega
  cases canonLoop true rest (shape.drop (shape.length - nReal rest)) with
  | error e => rfl
  | ok r =>
    simp only [bind, Except.bind, pure, Except.pure]
    rw [replicate_eq_map_take _ _ shape hk]
    have := itemsSels_fill_append (shape.take (shape.length - nReal rest)) r
      (shape.drop (shape.length - nReal rest))
    rw [List.take_append_drop] at this
    exact this

/-- **canonicalise-then-select = the independent NumPy spec** (fastest-first frame not involved:
    this is in index order), for at most one ellipsis -/
theorem canonSels_eq_specCore : ∀ (idx : List IdxItem) (shape : List Nat), nEllipsis idx ≤ 1 →
    canonSels idx shape = specCore idx shape
  | [], shape, _ => by rw [canonSels_nil, specCore_nil]
  | .newaxis :: rest, shape, h => by
      rw [canonSels_newaxis, specCore_newaxis,
        canonSels_eq_specCore rest shape (by rw [nEllipsis_cons] at h; omega)]
  | .ellipsis :: rest, shape, h => by
      have h0 : nEllipsis rest = 0 := by
        rw [nEllipsis_cons] at h; simp [isEllipsis] at h; omega
      rw [canonSels_ellipsis rest shape h0, specCore_ellipsis rest shape h0,
        canonSels_eq_specCore rest _ (by omega)]
  | .int i :: rest, [], _ => by
      rw [canonSels_cons_nil _ _ rfl, specCore_cons_nil _ _ rfl]
  | .slice s :: rest, [], _ => by
      rw [canonSels_cons_nil _ _ rfl, specCore_cons_nil _ _ rfl]
  | .int i :: rest, n :: shape, h => by
      rw [canonSels_cons _ _ _ _ rfl, specCore_cons _ _ _ _ rfl,
        canonSels_eq_specCore rest shape (by rw [nEllipsis_cons] at h; omega)]
  | .slice s :: rest, n :: shape, h => by
      rw [canonSels_cons _ _ _ _ rfl, specCore_cons _ _ _ _ rfl,
        canonSels_eq_specCore rest shape (by rw [nEllipsis_cons] at h; omega)]

/-- two ellipses: `canonical_slicers` raises too -/
theorem canonLoop_two_ellipses : ∀ (idx : List IdxItem) (shape : List Nat), 1 < nEllipsis idx →
    ∃ e, canonLoop true idx shape = .error e
  | [], _, h => by simp [nEllipsis] at h
  | .newaxis :: rest, shape, h => by
      obtain ⟨e, he⟩ := canonLoop_two_ellipses rest shape
        (by rw [nEllipsis_cons] at h; simpa [isEllipsis] using h)
      exact ⟨e, by rw [canonLoop_newaxis, he]; rfl⟩
  | .ellipsis :: rest, shape, h => by
      have : 0 < nEllipsis rest := by rw [nEllipsis_cons] at h; simp [isEllipsis] at h; omega
      exact ⟨.value, by rw [canonLoop_ellipsis, any_isEllipsis_of_pos rest this]; rfl⟩
  | .int i :: rest, [], _ => ⟨.index, canonLoop_cons_nil _ _ _ (by simp) (by simp)⟩
  | .slice s :: rest, [], _ => ⟨.index, canonLoop_cons_nil _ _ _ (by simp) (by simp)⟩
  | .int i :: rest, n :: shape, h => by
      obtain ⟨e, he⟩ := canonLoop_two_ellipses rest shape
        (by rw [nEllipsis_cons] at h; simpa [isEllipsis] using h)
      rw [canonLoop_cons _ _ _ _ _ (by simp) (by simp)]
      cases canonItem n true (.int i) with
      | error e' => exact ⟨e', rfl⟩
      | ok c => exact ⟨e, by rw [he]; rfl⟩
  | .slice s :: rest, n :: shape, h => by
      obtain ⟨e, he⟩ := canonLoop_two_ellipses rest shape
        (by rw [nEllipsis_cons] at h; simpa [isEllipsis] using h)
      rw [canonLoop_cons _ _ _ _ _ (by simp) (by simp)]
      cases canonItem n true (.slice s) with
      | error e' => exact ⟨e', rfl⟩
      | ok c => exact ⟨e, by rw [he]; rfl⟩

/-! ### memory order: selections of the reversed canonical items -/

/-- the NumPy selections of well-formed canonical items (total version of `itemsSels`) -/
def targets : List Item → List Nat → List Sel
  | [], _ => []
  | .newaxis :: rest, shape => .new :: targets rest shape
  | .int _ :: _, [] => []
  | .slice _ :: _, [] => []
  | .int i :: rest, _ :: shape => .one i.toNat :: targets rest shape
  | .slice s :: rest, n :: shape => .many (s.sel n) :: targets rest shape

theorem itemsSels_wf : ∀ (items : List Item) (shape : List Nat), ItemsWF items shape →
    itemsSels items shape = .ok (targets items shape)
  | [], [], _ => rfl
  | [], _ :: _, h => h.elim
  | .newaxis :: rest, shape, h => by
      rw [itemsWF_newaxis] at h
      rw [itemsSels_newaxis, itemsSels_wf rest shape h]; rfl
  | .int _ :: _, [], h => h.elim
  | .slice _ :: _, [], h => h.elim
  | .int i :: rest, n :: shape, h => by
      rw [itemsSels_cons _ _ _ _ (by simp), itemSel_of_wf h.1, itemsSels_wf rest shape h.2]; rfl
  | .slice s :: rest, n :: shape, h => by
      rw [itemsSels_cons _ _ _ _ (by simp), itemSel_of_wf h.1, itemsSels_wf rest shape h.2]; rfl

theorem targets_append : ∀ (l1 : List Item) (s1 : List Nat) (l2 : List Item) (s2 : List Nat),
    ItemsWF l1 s1 → targets (l1 ++ l2) (s1 ++ s2) = targets l1 s1 ++ targets l2 s2
  | [], [], _, _, _ => by simp [targets]
  | [], _ :: _, _, _, h => h.elim
  | .newaxis :: rest, s1, l2, s2, h => by
      rw [itemsWF_newaxis] at h
      simp only [List.cons_append, targets, targets_append rest s1 l2 s2 h]
  | .int _ :: _, [], _, _, h => h.elim
  | .slice _ :: _, [], _, _, h => h.elim
  | .int i :: rest, n :: s1, l2, s2, h => by
      simp only [List.cons_append, targets, targets_append rest s1 l2 s2 h.2]
  | .slice s :: rest, n :: s1, l2, s2, h => by
      simp only [List.cons_append, targets, targets_append rest s1 l2 s2 h.2]

theorem targets_reverse : ∀ (items : List Item) (shape : List Nat), ItemsWF items shape →
    targets items.reverse shape.reverse = (targets items shape).reverse
  | [], [], _ => rfl
  | [], _ :: _, h => h.elim
  | .newaxis :: rest, shape, h => by
      rw [itemsWF_newaxis] at h
      have := targets_append rest.reverse shape.reverse [.newaxis] [] (itemsWF_reverse rest shape h)
      rw [List.append_nil] at this
      rw [List.reverse_cons, this, targets_reverse rest shape h]
      simp [targets]
  | .int _ :: _, [], h => h.elim
  | .slice _ :: _, [], h => h.elim
  | .int i :: rest, n :: shape, h => by
      rw [List.reverse_cons, List.reverse_cons,
        targets_append rest.reverse shape.reverse [.int i] [n] (itemsWF_reverse rest shape h.2),
        targets_reverse rest shape h.2]
      simp [targets]
  | .slice s :: rest, n :: shape, h => by
      rw [List.reverse_cons, List.reverse_cons,
        targets_append rest.reverse shape.reverse [.slice s] [n] (itemsWF_reverse rest shape h.2),
        targets_reverse rest shape h.2]
      simp [targets]

theorem outShape_append : ∀ (a b : List Sel), outShape (a ++ b) = outShape a ++ outShape b
  | [], b => rfl
  | s :: a, b => by
      rw [List.cons_append, outShape_cons, outShape_cons s a, outShape_append a b, List.append_assoc]

theorem outShape_reverse : ∀ (a : List Sel), outShape a.reverse = (outShape a).reverse
  | [] => rfl
  | s :: a => by
      rw [List.reverse_cons, outShape_append, outShape_reverse a, outShape_cons s a, List.reverse_append]
      cases s <;> rfl

theorem outShape_orient (o : Order) (a : List Sel) : orient o (outShape (orient o a)) = outShape a := by
  cases o
  · simp [orient, outShape_reverse]
  · rfl

theorem targets_orient (o : Order) (items : List Item) (shape : List Nat) (h : ItemsWF items shape) :
    targets (orient o items) (orient o shape) = orient o (targets items shape) := by
  cases o
  · exact targets_reverse items shape h
  · rfl

/-- **`npIndex` (canonical_slicers-based) = independent NumPy spec**, exact, incl. error values -/
theorem npIndex_eq_npSpec' (idx : List IdxItem) (shape : List Nat) (o : Order)
    (hv : ∀ s, IdxItem.slice s ∈ idx → s.Valid) (he : nEllipsis idx ≤ 1) :
    npIndex idx shape o = npSpecIndex idx shape o := by
  unfold npSpecIndex
  rw [npSpec_eq, if_neg (by omega), ← canonSels_eq_specCore idx shape he]
  unfold npIndex canonSels canonicalSlicers
  cases hcan : canonLoop true idx shape with
  | error e => rfl
  | ok items =>
    have hwf := canonLoop_wf idx shape items hv hcan
    simp only [bind, Except.bind]
    rw [itemsSels_wf _ _ (orient_wf o _ _ hwf), itemsSels_wf _ _ hwf, targets_orient o _ _ hwf]
    simp only [pure, Except.pure, Except.map, npSpecResult, outShape_orient]

theorem npIndex_two_ellipses' (idx : List IdxItem) (shape : List Nat) (o : Order)
    (he : 1 < nEllipsis idx) :
    npSpecIndex idx shape o = .error .value ∧ ∃ e, npIndex idx shape o = .error e := by
  refine ⟨by unfold npSpecIndex; rw [npSpec_eq, if_pos he]; rfl, ?_⟩
  obtain ⟨e, hce⟩ := canonLoop_two_ellipses idx shape he
  exact ⟨e, by unfold npIndex canonicalSlicers; rw [hce]; rfl⟩

/-! ### `predict_shape` -/

theorem predictLoop_eq : ∀ (items : List Item) (shape : List Nat), ItemsWF items shape →
    predictLoop items shape = outShape (targets items shape)
  | [], [], _ => rfl
  | [], _ :: _, h => h.elim
  | .newaxis :: rest, shape, h => by
      rw [itemsWF_newaxis] at h
      simp only [predictLoop, targets, outShape, predictLoop_eq rest shape h]
  | .int _ :: _, [], h => h.elim
  | .slice _ :: _, [], h => h.elim
  | .int i :: rest, n :: shape, h => by
      simp only [predictLoop, targets, outShape, predictLoop_eq rest shape h.2]
  | .slice s :: rest, n :: shape, h => by
      simp only [predictLoop, targets, outShape, predictLoop_eq rest shape h.2,
        slice2len_spec' s n h.1]

theorem predictShape_spec' (idx : List IdxItem) (shape : List Nat)
    (hv : ∀ s, IdxItem.slice s ∈ idx → s.Valid) (he : nEllipsis idx ≤ 1) :
    predictShape idx shape = (npSpec idx shape).map outShape := by
  rw [npSpec_eq, if_neg (by omega), ← canonSels_eq_specCore idx shape he]
  unfold predictShape canonSels canonicalSlicers
  cases hcan : canonLoop true idx shape with
  | error e => rfl
  | ok items =>
    have hwf := canonLoop_wf idx shape items hv hcan
    simp only [bind, Except.bind, pure, Except.pure]
    rw [itemsSels_wf _ _ hwf, predictLoop_eq _ _ hwf]; rfl

theorem predictShape_two_ellipses' (idx : List IdxItem) (shape : List Nat) (he : 1 < nEllipsis idx) :
    npSpec idx shape = .error .value ∧ ∃ e, predictShape idx shape = .error e := by
  refine ⟨by rw [npSpec_eq, if_pos he], ?_⟩
  obtain ⟨e, hce⟩ := canonLoop_two_ellipses idx shape he
  exact ⟨e, by unfold predictShape canonicalSlicers; rw [hce]; rfl⟩

/-! ### `fileslice` against the independent spec -/

theorem fileslice_eq_npSpec' (h : Heuristic) (hh : ∀ i n st, h (.int i) n st ≠ .contiguous)
    (idx : List IdxItem) (shape : List Nat) (hv : ∀ s, IdxItem.slice s ∈ idx → s.Valid)
    (he : nEllipsis idx ≤ 1)
    (o : Order) (isz off flen : Nat) (hisz : 0 < isz) (hlen : off + isz * shape.prod ≤ flen) :
    fileslice h idx shape isz off flen o
      = (npSpecIndex idx shape o).map (fun (sh, l) => (sh, l.map Int.ofNat)) := by
  rw [fileslice_eq_numpy' h hh idx shape hv o isz off flen hisz hlen, npIndex_eq_npSpec' idx shape o hv he]

theorem fileslice_two_ellipses' (h : Heuristic) (idx : List IdxItem) (shape : List Nat)
    (he : 1 < nEllipsis idx) (o : Order) (isz off flen : Nat) :
    npSpecIndex idx shape o = .error .value ∧ ∃ e, fileslice h idx shape isz off flen o = .error e := by
  refine ⟨(npIndex_two_ellipses' idx shape o he).1, ?_⟩
  obtain ⟨e, hce⟩ := canonLoop_two_ellipses idx shape he
  exact ⟨e, by unfold fileslice calcSlicedefs canonicalSlicers; rw [hce]; rfl⟩

end Nb.C06
