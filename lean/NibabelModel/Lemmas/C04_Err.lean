import NibabelModel.Model.C04
import NibabelModel.Lemmas.C04
import Mathlib.Tactic.Linarith
import Mathlib.Tactic.Positivity
import Mathlib.Tactic.Ring
import Mathlib.Tactic.FieldSimp
import Mathlib.Algebra.Order.AbsoluteValue.Basic
import Mathlib.Algebra.Order.Field.Basic
/-! Lemmas/C04_Err — forward-error analysis of the MGH and qform decoders under an ABSTRACT rounding
  `rnd` with relative error `u` (`|rnd x − x| ≤ u·|x|`; IEEE round-to-nearest float32 has `u = 2⁻²⁴` on its
  normal range).  Uses Mathlib's ordered-field tactics; the statements are over the model's own `absR`. -/
namespace Nb.C04.L
open Nb.C04

theorem absR_eq_abs (x : Rat) : absR x = |x| := by
  unfold absR
  split
  · rename_i h; rw [abs_of_neg h]
  · rename_i h; rw [abs_of_nonneg (not_lt.mp h)]

/-- relative rounding: `|rnd x − x| ≤ u·|x|` -/
def RelRnd (u : Rat) (rnd : Rat → Rat) : Prop := ∀ x, absR (rnd x - x) ≤ u * absR x

theorem relrnd_abs {u : Rat} {rnd : Rat → Rat} (h : RelRnd u rnd) (x : Rat) : |rnd x - x| ≤ u * |x| := by
  have := h x; rwa [absR_eq_abs, absR_eq_abs] at this

theorem relrnd_factor {u : Rat} {rnd : Rat → Rat} (h : RelRnd u rnd) (hu : 0 ≤ u) (x : Rat) :
    ∃ e, rnd x = x * (1 + e) ∧ |e| ≤ u := by
  by_cases hx : x = 0
  · subst hx
    have h0 := relrnd_abs h 0
    simp only [abs_zero, mul_zero, sub_zero] at h0
    have : rnd 0 = 0 := abs_eq_zero.mp (le_antisymm h0 (abs_nonneg _))
    exact ⟨0, by rw [this]; ring, by simpa using hu⟩
  · refine ⟨(rnd x - x) / x, by field_simp; ring, ?_⟩
    rw [abs_div]
    have hp : 0 < |x| := abs_pos.mpr hx
    rw [div_le_iff₀ hp]
    exact relrnd_abs h x

theorem prod3_err (u e1 e2 e3 : Rat) (hu : 0 ≤ u) (h1 : |e1| ≤ u) (h2 : |e2| ≤ u) (h3 : |e3| ≤ u) :
    |(1 + e1) * (1 + e2) * (1 + e3) - 1| ≤ (1 + u) * (1 + u) * (1 + u) - 1 := by
  have e : (1 + e1) * (1 + e2) * (1 + e3) - 1 = e1 + e2 + e3 + e1 * e2 + e1 * e3 + e2 * e3 + e1 * e2 * e3 := by ring
  rw [e]
  have a12 : |e1 * e2| ≤ u * u := by rw [abs_mul]; exact mul_le_mul h1 h2 (abs_nonneg _) hu
  have a13 : |e1 * e3| ≤ u * u := by rw [abs_mul]; exact mul_le_mul h1 h3 (abs_nonneg _) hu
  have a23 : |e2 * e3| ≤ u * u := by rw [abs_mul]; exact mul_le_mul h2 h3 (abs_nonneg _) hu
  have a123 : |e1 * e2 * e3| ≤ u * u * u := by
    rw [abs_mul]; exact mul_le_mul a12 h3 (abs_nonneg _) (mul_nonneg hu hu)
  have t := abs_add_le (e1 + e2 + e3 + e1 * e2 + e1 * e3 + e2 * e3) (e1 * e2 * e3)
  have t2 := abs_add_le (e1 + e2 + e3 + e1 * e2 + e1 * e3) (e2 * e3)
  have t3 := abs_add_le (e1 + e2 + e3 + e1 * e2) (e1 * e3)
  have t4 := abs_add_le (e1 + e2 + e3) (e1 * e2)
  have t5 := abs_add_le (e1 + e2) e3
  have t6 := abs_add_le e1 e2
  nlinarith [t, t2, t3, t4, t5, t6]

/-- one entry of the matrix: `rnd(rnd(a/δ)·rnd δ)` against `a` -/
theorem mgh_entry_err (u : Rat) (hu : 0 ≤ u) (rnd : Rat → Rat) (h : RelRnd u rnd) (a δ : Rat) (hδ : δ ≠ 0) :
    |rnd (rnd (a / δ) * rnd δ) - a| ≤ ((1 + u) * (1 + u) * (1 + u) - 1) * |a| := by
  obtain ⟨e1, r1, b1⟩ := relrnd_factor h hu (a / δ)
  obtain ⟨e2, r2, b2⟩ := relrnd_factor h hu δ
  obtain ⟨e3, r3, b3⟩ := relrnd_factor h hu (rnd (a / δ) * rnd δ)
  rw [r3, r1, r2]
  have : a / δ * (1 + e1) * (δ * (1 + e2)) * (1 + e3) - a = a * ((1 + e1) * (1 + e2) * (1 + e3) - 1) := by
    field_simp
  rw [this, abs_mul, mul_comm]
  exact mul_le_mul_of_nonneg_right (prod3_err u e1 e2 e3 hu b1 b2 b3) (abs_nonneg _)

theorem mgh_trans_err (u : Rat) (hu : 0 ≤ u) (rnd : Rat → Rat) (hr : RelRnd u rnd) (g : Rat)
    (a0 a1 a2 t s0 s1 s2 m0 m1 m2 : Rat) (hs0 : 0 ≤ s0) (hs1 : 0 ≤ s1) (hs2 : 0 ≤ s2)
    (h0 : |m0 - a0| ≤ g * |a0|) (h1 : |m1 - a1| ≤ g * |a1|) (h2 : |m2 - a2| ≤ g * |a2|) :
    |rnd (rnd (a0 * (s0 / 2) + a1 * (s1 / 2) + a2 * (s2 / 2) + t) - (m0 * s0 + m1 * s1 + m2 * s2) / 2) - t|
      ≤ (1 + u) * (u * ((|a0| * s0 + |a1| * s1 + |a2| * s2) / 2 + |t|) + g * ((|a0| * s0 + |a1| * s1 + |a2| * s2) / 2))
        + u * |t| := by
  set S := a0 * (s0 / 2) + a1 * (s1 / 2) + a2 * (s2 / 2) with hS
  set S' := (m0 * s0 + m1 * s1 + m2 * s2) / 2 with hS'
  set B := (|a0| * s0 + |a1| * s1 + |a2| * s2) / 2 with hB
  have hB0 : 0 ≤ B := by positivity
  -- |S| ≤ B
  have p0 : |a0 * (s0 / 2)| = |a0| * s0 / 2 := by rw [abs_mul, abs_of_nonneg (by positivity : 0 ≤ s0 / 2)]; ring
  have p1 : |a1 * (s1 / 2)| = |a1| * s1 / 2 := by rw [abs_mul, abs_of_nonneg (by positivity : 0 ≤ s1 / 2)]; ring
  have p2 : |a2 * (s2 / 2)| = |a2| * s2 / 2 := by rw [abs_mul, abs_of_nonneg (by positivity : 0 ≤ s2 / 2)]; ring
  have hSB : |S| ≤ B := by
    have t1 := abs_add_le (a0 * (s0 / 2) + a1 * (s1 / 2)) (a2 * (s2 / 2))
    have t2 := abs_add_le (a0 * (s0 / 2)) (a1 * (s1 / 2))
    rw [hS, hB]; linarith
  -- |S' - S| ≤ g B
  have q0 : |(m0 - a0) * (s0 / 2)| ≤ g * (|a0| * s0 / 2) := by
    rw [abs_mul, abs_of_nonneg (by positivity : 0 ≤ s0 / 2)]
    have := mul_le_mul_of_nonneg_right h0 (by positivity : 0 ≤ s0 / 2); linarith
  have q1 : |(m1 - a1) * (s1 / 2)| ≤ g * (|a1| * s1 / 2) := by
    rw [abs_mul, abs_of_nonneg (by positivity : 0 ≤ s1 / 2)]
    have := mul_le_mul_of_nonneg_right h1 (by positivity : 0 ≤ s1 / 2); linarith
  have q2 : |(m2 - a2) * (s2 / 2)| ≤ g * (|a2| * s2 / 2) := by
    rw [abs_mul, abs_of_nonneg (by positivity : 0 ≤ s2 / 2)]
    have := mul_le_mul_of_nonneg_right h2 (by positivity : 0 ≤ s2 / 2); linarith
  have hSS : |S' - S| ≤ g * B := by
    have e : S' - S = (m0 - a0) * (s0 / 2) + (m1 - a1) * (s1 / 2) + (m2 - a2) * (s2 / 2) := by
      rw [hS, hS']; ring
    have t1 := abs_add_le ((m0 - a0) * (s0 / 2) + (m1 - a1) * (s1 / 2)) ((m2 - a2) * (s2 / 2))
    have t2 := abs_add_le ((m0 - a0) * (s0 / 2)) ((m1 - a1) * (s1 / 2))
    rw [e, hB]; linarith
  -- roundings
  have r1 := relrnd_abs hr (S + t)
  have r2 := relrnd_abs hr (rnd (S + t) - S')
  set c := rnd (S + t) with hc
  have hSt : |S + t| ≤ B + |t| := (abs_add_le S t).trans (by linarith)
  have r1' : |c - (S + t)| ≤ u * (B + |t|) := r1.trans (mul_le_mul_of_nonneg_left hSt hu)
  -- c - S' - t
  have d1 : |c - S' - t| ≤ u * (B + |t|) + g * B := by
    have e : c - S' - t = (c - (S + t)) + -(S' - S) := by ring
    rw [e]; have := abs_add_le (c - (S + t)) (-(S' - S)); rw [abs_neg] at this; linarith
  have d2 : |c - S'| ≤ |t| + (u * (B + |t|) + g * B) := by
    have e : c - S' = t + (c - S' - t) := by ring
    have := abs_add_le t (c - S' - t); rw [← e] at this; linarith
  have d3 : |rnd (c - S') - (c - S')| ≤ u * (|t| + (u * (B + |t|) + g * B)) := r2.trans (mul_le_mul_of_nonneg_left d2 hu)
  have e : rnd (c - S') - t = (rnd (c - S') - (c - S')) + (c - S' - t) := by ring
  rw [e]
  have := abs_add_le (rnd (c - S') - (c - S')) (c - S' - t)
  nlinarith [this, d3, d1]

/-- `B_i = Σ_j |a_ij|·dims_j / 2`: the size of the terms the MGH loader subtracts to find the corner voxel -/
def mghRowScale (a0 a1 a2 : Rat) (s : V3 Rat) : Rat := (absR a0 * s.x + absR a1 * s.y + absR a2 * s.z) / 2

/-- first-order `2u|t| + 4u·B`: bound on a reloaded translation entry -/
def mghTransBound (u B t : Rat) : Rat :=
  (1 + u) * (u * (B + absR t) + ((1 + u) * (1 + u) * (1 + u) - 1) * B) + u * absR t

theorem mgh_forward_error (u : Rat) (hu : 0 ≤ u) (rnd : Rat → Rat) (hr : RelRnd u rnd) (a : Aff Rat)
    (shape δ : V3 Rat) (hx : δ.x ≠ 0) (hy : δ.y ≠ 0) (hz : δ.z ≠ 0)
    (hs : 0 ≤ shape.x ∧ 0 ≤ shape.y ∧ 0 ≤ shape.z) :
    let L := mghGetAffine rnd (mghAffine2Header rnd a shape δ) shape
    let g := (1 + u) * (1 + u) * (1 + u) - 1
    (absR (L.m.a00 - a.m.a00) ≤ g * absR a.m.a00 ∧ absR (L.m.a01 - a.m.a01) ≤ g * absR a.m.a01 ∧
     absR (L.m.a02 - a.m.a02) ≤ g * absR a.m.a02 ∧ absR (L.m.a10 - a.m.a10) ≤ g * absR a.m.a10 ∧
     absR (L.m.a11 - a.m.a11) ≤ g * absR a.m.a11 ∧ absR (L.m.a12 - a.m.a12) ≤ g * absR a.m.a12 ∧
     absR (L.m.a20 - a.m.a20) ≤ g * absR a.m.a20 ∧ absR (L.m.a21 - a.m.a21) ≤ g * absR a.m.a21 ∧
     absR (L.m.a22 - a.m.a22) ≤ g * absR a.m.a22) ∧
    absR (L.t.x - a.t.x) ≤ mghTransBound u (mghRowScale a.m.a00 a.m.a01 a.m.a02 shape) a.t.x ∧
    absR (L.t.y - a.t.y) ≤ mghTransBound u (mghRowScale a.m.a10 a.m.a11 a.m.a12 shape) a.t.y ∧
    absR (L.t.z - a.t.z) ≤ mghTransBound u (mghRowScale a.m.a20 a.m.a21 a.m.a22 shape) a.t.z := by
  obtain ⟨⟨a00, a01, a02, a10, a11, a12, a20, a21, a22⟩, ⟨tx, ty, tz⟩⟩ := a
  obtain ⟨s0, s1, s2⟩ := shape
  obtain ⟨d0, d1, d2⟩ := δ
  obtain ⟨hs0, hs1, hs2⟩ := hs
  simp only at hx hy hz hs0 hs1 hs2
  have E := fun (x d : Rat) (hd : d ≠ 0) => mgh_entry_err u hu rnd hr x d hd
  have e00 := E a00 d0 hx
  have e01 := E a01 d1 hy
  have e02 := E a02 d2 hz
  have e10 := E a10 d0 hx
  have e11 := E a11 d1 hy
  have e12 := E a12 d2 hz
  have e20 := E a20 d0 hx
  have e21 := E a21 d1 hy
  have e22 := E a22 d2 hz
  have T := fun (x0 x1 x2 t m0 m1 m2 : Rat) => mgh_trans_err u hu rnd hr ((1 + u) * (1 + u) * (1 + u) - 1)
    x0 x1 x2 t s0 s1 s2 m0 m1 m2 hs0 hs1 hs2
  have tx' := T a00 a01 a02 tx _ _ _ e00 e01 e02
  have ty' := T a10 a11 a12 ty _ _ _ e10 e11 e12
  have tz' := T a20 a21 a22 tz _ _ _ e20 e21 e22
  simp only [mghGetAffine, mghAffine2Header, M33.divCols, M33.transpose, M33.map, V3.map, M33.scaleCols,
    M33.mulVec, V3.sub, Aff.apply, V3.add, absR_eq_abs, mghTransBound, mghRowScale]
  refine ⟨⟨e00, e01, e02, e10, e11, e12, e20, e21, e22⟩, ?_, ?_, ?_⟩
  · convert tx' using 2
  · convert ty' using 2
  · convert tz' using 2

/-! ### qform: perturbation of the decoded affine by errors in the stored fields -/

theorem abs_le_one_of_sq (x r : Rat) (h : x * x + r = 1) (hr : 0 ≤ r) : |x| ≤ 1 := by
  rw [abs_le]; constructor <;> nlinarith

theorem prod_err (p q p' q' d : Rat) (hp : |p| ≤ 1) (hq : |q| ≤ 1) (h1 : |p' - p| ≤ d) (h2 : |q' - q| ≤ d) :
    |p' * q' - p * q| ≤ d * (2 + d) := by
  have hd : 0 ≤ d := (abs_nonneg _).trans h1
  have e : p' * q' - p * q = (p' - p) * (q' - q) + (p' - p) * q + p * (q' - q) := by ring
  rw [e]
  have a1 : |(p' - p) * (q' - q)| ≤ d * d := by rw [abs_mul]; exact mul_le_mul h1 h2 (abs_nonneg _) hd
  have a2 : |(p' - p) * q| ≤ d * 1 := by rw [abs_mul]; exact mul_le_mul h1 hq (abs_nonneg _) hd
  have a3 : |p * (q' - q)| ≤ 1 * d := by rw [abs_mul]; exact mul_le_mul hp h2 (abs_nonneg _) (by norm_num)
  have t1 := abs_add_le ((p' - p) * (q' - q) + (p' - p) * q) (p * (q' - q))
  have t2 := abs_add_le ((p' - p) * (q' - q)) ((p' - p) * q)
  nlinarith

/-- both quaternions of norm 1, components within `d`: every entry of the rotation moves by at most `4d(2+d)` -/
theorem quat2mat_perturbation (q q' : Quat Rat) (hq : q.norm2 = 1) (hq' : q'.norm2 = 1) (d : Rat)
    (hw : |q'.w - q.w| ≤ d) (hx : |q'.x - q.x| ≤ d) (hy : |q'.y - q.y| ≤ d) (hz : |q'.z - q.z| ≤ d) :
    let R := quat2mat q
    let R' := quat2mat q'
    let b := 4 * d * (2 + d)
    |R'.a00 - R.a00| ≤ b ∧ |R'.a01 - R.a01| ≤ b ∧ |R'.a02 - R.a02| ≤ b ∧
    |R'.a10 - R.a10| ≤ b ∧ |R'.a11 - R.a11| ≤ b ∧ |R'.a12 - R.a12| ≤ b ∧
    |R'.a20 - R.a20| ≤ b ∧ |R'.a21 - R.a21| ≤ b ∧ |R'.a22 - R.a22| ≤ b := by
  obtain ⟨w, x, y, z⟩ := q
  obtain ⟨w', x', y', z'⟩ := q'
  simp only [Quat.norm2] at hq hq'
  simp only at hw hx hy hz
  have bw : |w| ≤ 1 := abs_le_one_of_sq w (x * x + y * y + z * z) (by linarith) (by nlinarith [mul_self_nonneg w, mul_self_nonneg x, mul_self_nonneg y, mul_self_nonneg z])
  have bx : |x| ≤ 1 := abs_le_one_of_sq x (w * w + y * y + z * z) (by linarith) (by nlinarith [mul_self_nonneg w, mul_self_nonneg x, mul_self_nonneg y, mul_self_nonneg z])
  have by' : |y| ≤ 1 := abs_le_one_of_sq y (w * w + x * x + z * z) (by linarith) (by nlinarith [mul_self_nonneg w, mul_self_nonneg x, mul_self_nonneg y, mul_self_nonneg z])
  have bz : |z| ≤ 1 := abs_le_one_of_sq z (w * w + x * x + y * y) (by linarith) (by nlinarith [mul_self_nonneg w, mul_self_nonneg x, mul_self_nonneg y, mul_self_nonneg z])
  have pxx := abs_le.mp (prod_err x x x' x' d bx bx hx hx)
  have pyy := abs_le.mp (prod_err y y y' y' d by' by' hy hy)
  have pzz := abs_le.mp (prod_err z z z' z' d bz bz hz hz)
  have pxy := abs_le.mp (prod_err x y x' y' d bx by' hx hy)
  have pxz := abs_le.mp (prod_err x z x' z' d bx bz hx hz)
  have pyz := abs_le.mp (prod_err y z y' z' d by' bz hy hz)
  have pwx := abs_le.mp (prod_err w x w' x' d bw bx hw hx)
  have pwy := abs_le.mp (prod_err w y w' y' d bw by' hw hy)
  have pwz := abs_le.mp (prod_err w z w' z' d bw bz hw hz)
  simp only [quat2mat, Quat.norm2, hq, hq', div_one]
  refine ⟨?_, ?_, ?_, ?_, ?_, ?_, ?_, ?_, ?_⟩ <;> rw [abs_le] <;> constructor <;> linarith

theorem scale_err (r r' z z' d u : Rat) (hr : |r| ≤ 1) (h1 : |r' - r| ≤ d) (h2 : |z' - z| ≤ u * |z|) (_hu : 0 ≤ u) :
    |r' * z' - r * z| ≤ (d * (1 + u) + u) * |z| := by
  have hd : 0 ≤ d := (abs_nonneg _).trans h1
  have e : r' * z' - r * z = (r' - r) * z' + r * (z' - z) := by ring
  have hz' : |z'| ≤ (1 + u) * |z| := by
    have : z' = z + (z' - z) := by ring
    rw [this]; have := abs_add_le z (z' - z); linarith
  have a1 : |(r' - r) * z'| ≤ d * ((1 + u) * |z|) := by rw [abs_mul]; exact mul_le_mul h1 hz' (abs_nonneg _) hd
  have a2 : |r * (z' - z)| ≤ 1 * (u * |z|) := by rw [abs_mul]; exact mul_le_mul hr h2 (abs_nonneg _) (by norm_num)
  rw [e]; have := abs_add_le ((r' - r) * z') (r * (z' - z)); nlinarith

/-- the affine decoded from stored fields `(q', z')` against the one of the ideal fields `(q, z)` -/
theorem qform_forward_error (q q' : Quat Rat) (hq : q.norm2 = 1) (hq' : q'.norm2 = 1) (d u : Rat) (hu : 0 ≤ u)
    (hw : absR (q'.w - q.w) ≤ d) (hx : absR (q'.x - q.x) ≤ d) (hy : absR (q'.y - q.y) ≤ d)
    (hz : absR (q'.z - q.z) ≤ d)
    (z z' : V3 Rat) (hzx : absR (z'.x - z.x) ≤ u * absR z.x) (hzy : absR (z'.y - z.y) ≤ u * absR z.y)
    (hzz : absR (z'.z - z.z) ≤ u * absR z.z) :
    let A := (quat2mat q).scaleCols z
    let A' := (quat2mat q').scaleCols z'
    let b := 4 * d * (2 + d) * (1 + u) + u
    absR (A'.a00 - A.a00) ≤ b * absR z.x ∧ absR (A'.a01 - A.a01) ≤ b * absR z.y ∧ absR (A'.a02 - A.a02) ≤ b * absR z.z ∧
    absR (A'.a10 - A.a10) ≤ b * absR z.x ∧ absR (A'.a11 - A.a11) ≤ b * absR z.y ∧ absR (A'.a12 - A.a12) ≤ b * absR z.z ∧
    absR (A'.a20 - A.a20) ≤ b * absR z.x ∧ absR (A'.a21 - A.a21) ≤ b * absR z.y ∧ absR (A'.a22 - A.a22) ≤ b * absR z.z := by
  simp only [absR_eq_abs] at *
  have P := quat2mat_perturbation q q' hq hq' d hw hx hy hz
  have hn : q.norm2 ≠ 0 := by rw [hq]; norm_num
  have O := quat2mat_orthogonal q hn
  generalize quat2mat q = R at P O
  generalize quat2mat q' = R' at P
  obtain ⟨r00, r01, r02, r10, r11, r12, r20, r21, r22⟩ := R
  obtain ⟨s00, s01, s02, s10, s11, s12, s20, s21, s22⟩ := R'
  simp only [M33.mul, M33.transpose, M33.one, M33.mk.injEq] at O
  obtain ⟨o0, -, -, -, o4, -, -, -, o8⟩ := O
  simp only at P
  obtain ⟨p00, p01, p02, p10, p11, p12, p20, p21, p22⟩ := P
  have b00 : |r00| ≤ 1 := abs_le_one_of_sq r00 (r01 * r01 + r02 * r02) (by linarith) (add_nonneg (mul_self_nonneg _) (mul_self_nonneg _))
  have b01 : |r01| ≤ 1 := abs_le_one_of_sq r01 (r00 * r00 + r02 * r02) (by linarith) (add_nonneg (mul_self_nonneg _) (mul_self_nonneg _))
  have b02 : |r02| ≤ 1 := abs_le_one_of_sq r02 (r00 * r00 + r01 * r01) (by linarith) (add_nonneg (mul_self_nonneg _) (mul_self_nonneg _))
  have b10 : |r10| ≤ 1 := abs_le_one_of_sq r10 (r11 * r11 + r12 * r12) (by linarith) (add_nonneg (mul_self_nonneg _) (mul_self_nonneg _))
  have b11 : |r11| ≤ 1 := abs_le_one_of_sq r11 (r10 * r10 + r12 * r12) (by linarith) (add_nonneg (mul_self_nonneg _) (mul_self_nonneg _))
  have b12 : |r12| ≤ 1 := abs_le_one_of_sq r12 (r10 * r10 + r11 * r11) (by linarith) (add_nonneg (mul_self_nonneg _) (mul_self_nonneg _))
  have b20 : |r20| ≤ 1 := abs_le_one_of_sq r20 (r21 * r21 + r22 * r22) (by linarith) (add_nonneg (mul_self_nonneg _) (mul_self_nonneg _))
  have b21 : |r21| ≤ 1 := abs_le_one_of_sq r21 (r20 * r20 + r22 * r22) (by linarith) (add_nonneg (mul_self_nonneg _) (mul_self_nonneg _))
  have b22 : |r22| ≤ 1 := abs_le_one_of_sq r22 (r20 * r20 + r21 * r21) (by linarith) (add_nonneg (mul_self_nonneg _) (mul_self_nonneg _))
  simp only [M33.scaleCols]
  exact ⟨scale_err _ _ _ _ _ u b00 p00 hzx hu, scale_err _ _ _ _ _ u b01 p01 hzy hu, scale_err _ _ _ _ _ u b02 p02 hzz hu,
         scale_err _ _ _ _ _ u b10 p10 hzx hu, scale_err _ _ _ _ _ u b11 p11 hzy hu, scale_err _ _ _ _ _ u b12 p12 hzz hu,
         scale_err _ _ _ _ _ u b20 p20 hzx hu, scale_err _ _ _ _ _ u b21 p21 hzy hu, scale_err _ _ _ _ _ u b22 p22 hzz hu⟩
end Nb.C04.L
