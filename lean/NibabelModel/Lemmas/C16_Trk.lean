import NibabelModel.Model.C16
/-! Lemmas/C16_Trk — the TRK record reader parses back what the record writer wrote (core Lean only). -/
namespace Nb.C16

theorem take_append_len {α} (a b : List α) (n : Nat) (h : a.length = n) : (a ++ b).take n = a := by
  subst h; simp

theorem drop_append_len {α} (a b : List α) (n : Nat) (h : a.length = n) : (a ++ b).drop n = b := by
  subst h; simp

theorem flatten_length_uniform (w : Nat) (rows : List (List Nat)) (h : ∀ r ∈ rows, r.length = w) :
    rows.flatten.length = rows.length * w := by
  induction rows with
  | nil => simp
  | cons r rs ih =>
    have hr : r.length = w := h r (by simp)
    have := ih (fun x hx => h x (by simp [hx]))
    simp [this, hr, Nat.succ_mul]; omega

theorem chunkRows_flatten (w : Nat) (rows : List (List Nat)) (h : ∀ r ∈ rows, r.length = w) (rest : List Nat) :
    chunkRows w rows.length (rows.flatten ++ rest) = rows := by
  induction rows with
  | nil => simp [chunkRows]
  | cons r rs ih =>
    have hr : r.length = w := h r (by simp)
    have := ih (fun x hx => h x (by simp [hx]))
    simp only [List.length_cons, chunkRows, List.flatten_cons, List.append_assoc]
    rw [take_append_len r _ w hr, drop_append_len r _ w hr, this]

/-- well-formed record for a header announcing `ns` scalars per point and `np` properties -/
def TrkRec.WF (ns np : Nat) (r : TrkRec) : Prop :=
  (∀ row ∈ r.rows, row.length = 3 + ns) ∧ r.props.length = np ∧ r.rows.length < 2147483648

theorem trkLoop_records (ns np announced : Nat) (recs : List TrkRec)
    (hw : ∀ r ∈ recs, r.WF ns np) (count pos : Nat)
    (hann : announced = 0 ∨ announced = count + recs.length) :
    (trkLoop ns np announced (trkDataWords recs) count pos).items.map (·.1) = recs ∧
    (trkLoop ns np announced (trkDataWords recs) count pos).err = none := by
  induction recs generalizing count pos with
  | nil =>
    unfold trkLoop
    simp only [trkDataWords, List.map_nil, List.flatten_nil]
    split
    · simp
    · simp only [List.map_nil, true_and]
      have : ¬ count < announced := by
        rcases hann with h | h
        · omega
        · simp only [List.length_nil] at h; omega
      simp [this]
  | cons r rs ih =>
    obtain ⟨hrows, hprops, hn⟩ := hw r (by simp)
    have hF := flatten_length_uniform (3 + ns) r.rows hrows
    have hcond : ¬ (announced ≠ 0 ∧ announced ≤ count) := by
      rcases hann with h | h
      · simp [h]
      · simp at h; omega
    have hwords : trkDataWords (r :: rs) =
        r.rows.length :: (r.rows.flatten ++ (r.props ++ trkDataWords rs)) := by
      simp [trkDataWords, trkRecWords]
    rw [hwords]
    unfold trkLoop
    simp only [hcond, if_false]
    have hlen1 : ¬ (r.rows.flatten ++ (r.props ++ trkDataWords rs)).length < r.rows.length * (3 + ns) := by
      simp [hF]
    have htake : (r.rows.flatten ++ (r.props ++ trkDataWords rs)).take (r.rows.length * (3 + ns)) = r.rows.flatten :=
      take_append_len _ _ _ hF
    have hdrop : (r.rows.flatten ++ (r.props ++ trkDataWords rs)).drop (r.rows.length * (3 + ns)) =
        r.props ++ trkDataWords rs := drop_append_len _ _ _ hF
    have hlen2 : ¬ (r.props ++ trkDataWords rs).length < np := by simp [hprops]
    have hn' : ¬ 2147483648 ≤ r.rows.length := by omega
    simp only [hn', hlen1, hdrop, hlen2, htake, if_false]
    rw [take_append_len r.props _ np hprops, drop_append_len r.props _ np hprops]
    have hch : chunkRows (3 + ns) r.rows.length r.rows.flatten = r.rows := by
      have := chunkRows_flatten (3 + ns) r.rows hrows []
      simpa using this
    rw [hch]
    have ih' := ih (fun x hx => hw x (by simp [hx])) (count + 1)
      (pos + 4 + 4 * (r.rows.length * (3 + ns)) + 4 * np)
      (by rcases hann with h | h
          · exact Or.inl h
          · right; simp at h; omega)
    simp only [List.map_cons, ih'.1, ih'.2, and_true]

end Nb.C16
