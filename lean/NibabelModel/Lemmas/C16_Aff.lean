import NibabelModel.Model.C16
/-! Lemmas/C16_Aff — algebra of the trackvis→RAS+mm affine over `Rat` and the 48 orientations
    (core Lean only: `grind`'s ring/field solver, `decide`). -/
namespace Nb.C16

theorem Aff.apply_comp (A B : Aff) (p : V3) : (A.comp B).apply p = A.apply (B.apply p) := by
  simp only [Aff.apply, Aff.comp]
  refine Prod.ext ?_ (Prod.ext ?_ ?_) <;> simp only <;> grind

theorem Aff.det_comp (A B : Aff) : (A.comp B).det = A.det * B.det := by
  simp only [Aff.det, Aff.comp]
  grind

theorem Aff.inv_apply (A : Aff) (h : A.det ≠ 0) (p : V3) : A.inv.apply (A.apply p) = p := by
  obtain ⟨x, y, z⟩ := p
  have hd : A.a00 * (A.a11 * A.a22 - A.a12 * A.a21) - A.a01 * (A.a10 * A.a22 - A.a12 * A.a20) +
      A.a02 * (A.a10 * A.a21 - A.a11 * A.a20) ≠ 0 := h
  simp only [Aff.apply, Aff.inv, Aff.det]
  refine Prod.ext ?_ (Prod.ext ?_ ?_) <;> simp only <;> grind

theorem Aff.apply_inv (A : Aff) (h : A.det ≠ 0) (p : V3) : A.apply (A.inv.apply p) = p := by
  obtain ⟨x, y, z⟩ := p
  have hd : A.a00 * (A.a11 * A.a22 - A.a12 * A.a21) - A.a01 * (A.a10 * A.a22 - A.a12 * A.a20) +
      A.a02 * (A.a10 * A.a21 - A.a11 * A.a20) ≠ 0 := h
  simp only [Aff.apply, Aff.inv, Aff.det]
  refine Prod.ext ?_ (Prod.ext ?_ ?_) <;> simp only <;> grind

theorem det_scaleInv (vs : V3) (h0 : vs.1 ≠ 0) (h1 : vs.2.1 ≠ 0) (h2 : vs.2.2 ≠ 0) : (scaleInv vs).det ≠ 0 := by
  simp only [Aff.det, scaleInv]
  grind

theorem det_shiftHalf : shiftHalf.det = 1 := by
  simp only [Aff.det, shiftHalf]
  grind

/-! ### the 48 orientations -/

def orntTransformOk (s e : Ornt) : Bool :=
  match orntTransform s e with
  | .ok r => allOrnts.contains r
  | .error _ => false

theorem orntTransform_closed_bool : ∀ s ∈ allOrnts, ∀ e ∈ allOrnts, orntTransformOk s e = true := by
  decide +kernel

theorem orntTransform_closed (s e : Ornt) (hs : s ∈ allOrnts) (he : e ∈ allOrnts) :
    ∃ r, r ∈ allOrnts ∧ orntTransform s e = .ok r := by
  have h := orntTransform_closed_bool s hs e he
  unfold orntTransformOk at h
  split at h
  · rename_i r hr
    exact ⟨r, by simpa using h, hr⟩
  · cases h

/-- the 48 voxel-order strings -/
def voxelOrders : List (List Char) := allOrnts.map orntToAxcodes

def axcodesOk (order : List Char) : Bool :=
  match axcodesToOrnt order with
  | .ok o => allOrnts.contains o
  | .error _ => false

theorem axcodes_closed_bool : ∀ order ∈ voxelOrders, axcodesOk order = true := by
  decide +kernel

theorem axcodes_closed (order : List Char) (h : order ∈ voxelOrders) :
    ∃ o, o ∈ allOrnts ∧ axcodesToOrnt order = .ok o := by
  have h := axcodes_closed_bool order h
  unfold axcodesOk at h
  split at h
  · rename_i r hr
    exact ⟨r, by simpa using h, hr⟩
  · cases h

def axcodesRoundtripOk (o : Ornt) : Bool :=
  match axcodesToOrnt (orntToAxcodes o) with
  | .ok o' => o' == o
  | .error _ => false

theorem axcodes_roundtrip_bool : ∀ o ∈ allOrnts, axcodesRoundtripOk o = true := by
  decide +kernel

theorem axcodes_roundtrip (o : Ornt) (h : o ∈ allOrnts) : axcodesToOrnt (orntToAxcodes o) = .ok o := by
  have h := axcodes_roundtrip_bool o h
  unfold axcodesRoundtripOk at h
  split at h
  · rename_i r hr
    rw [hr]
    simp at h
    rw [h]
  · cases h

theorem det_invOrntAff_dims (o : Ornt) (dims : Int × Int × Int) :
    (invOrntAff o dims).det = (invOrntAff o (0, 0, 0)).det := rfl

def detUnit (o : Ornt) : Bool :=
  (invOrntAff o (0, 0, 0)).det == 1 || (invOrntAff o (0, 0, 0)).det == -1

theorem det_invOrntAff_bool : ∀ o ∈ allOrnts, detUnit o = true := by
  decide +kernel

theorem det_invOrntAff (o : Ornt) (h : o ∈ allOrnts) (dims : Int × Int × Int) : (invOrntAff o dims).det ≠ 0 := by
  rw [det_invOrntAff_dims]
  have := det_invOrntAff_bool o h
  unfold detUnit at this
  simp at this
  rcases this with h1 | h1 <;> rw [h1] <;> decide

end Nb.C16
