import NibabelModel.Lemmas.C20_Sets
/-! Lemmas/C20_Complete — with distinct strict keys the per-set fullness flag of `_strict_sort_order`
    says "the label set of this record contains every slice number"; the second stage + trimming keeps
    exactly the records of complete label sets, in key order. -/
namespace Nb.C20

theorem complete_iff (c : Cfg) (recs : List Rec) (r : Rec) :
    complete c recs r = true ↔
      ∀ s ∈ sliceRange c.maxSlices, ∃ r' ∈ recs, labelKey c r' = labelKey c r ∧ r'.slice = s := by
  simp [complete]

theorem complete_perm (c : Cfg) {r₁ r₂ : List Rec} (h : r₁.Perm r₂) (r : Rec) :
    complete c r₁ r = complete c r₂ r := by
  rw [Bool.eq_iff_iff, complete_iff, complete_iff]
  simp only [h.mem_iff]

/-- per-position annotation in closed form -/
def annOf (c : Cfg) (sorted : List Rec) : List Ann :=
  let W := withSets c sorted
  let T := W.map (fun p => (p.1, p.2.slice))
  (W.zip (occNumbers T)).map fun x =>
    ⟨!((sliceRange c.maxSlices).all fun s => decide (x.2 < T.count (x.1.1, s))), x.1.1, x.2⟩

theorem annotate_eq (c : Cfg) (sorted : List Rec)
    (hr : (sorted.map (·.slice)).all (inRange c.maxSlices) = true) :
    annotate c sorted = .ok (annOf c sorted) := by
  unfold annotate annOf
  rw [if_pos hr]
  simp only [tagged_eq, volsAndFull_eq]
  apply congrArg Except.ok
  apply List.ext_getElem
  · simp [withSets, setNos_length, occNumbers_length]
  · intro i h1 h2
    simp [withSets]

end Nb.C20

namespace Nb.C20

section facts
variable (c : Cfg) {sorted : List Rec}
  (hs : sorted.Pairwise (fun a b => strictLe c a b = true)) (hk : keysNodup c sorted)
include hs hk

/-- with distinct keys every per-set volume number is 0 -/
theorem occ_zero {x : (Nat × Rec) × Nat}
    (hx : x ∈ (withSets c sorted).zip (occNumbers ((withSets c sorted).map (fun p => (p.1, p.2.slice))))) :
    x.2 = 0 := by
  have hm : ((x.1.1, x.1.2.slice), x.2) ∈ ((withSets c sorted).map (fun p => (p.1, p.2.slice))).zip
      (occNumbers ((withSets c sorted).map (fun p => (p.1, p.2.slice)))) := by
    rw [List.zip_map_left]
    exact List.mem_map.2 ⟨x, hx, rfl⟩
  have h1 := (mem_zip_occNumbers _ _ _).1 hm
  have h2 := (List.nodup_iff_count.1 (tagged_nodup c hs hk)) (x.1.1, x.1.2.slice)
  omega

/-- the flag computed for a position says that the label set of its record is complete -/
theorem flag_eq_complete {x : (Nat × Rec) × Nat}
    (hx : x ∈ (withSets c sorted).zip (occNumbers ((withSets c sorted).map (fun p => (p.1, p.2.slice))))) :
    ((sliceRange c.maxSlices).all fun s =>
      decide (x.2 < ((withSets c sorted).map (fun p => (p.1, p.2.slice))).count (x.1.1, s))) =
      complete c sorted x.1.2 := by
  rw [occ_zero c hs hk hx, Bool.eq_iff_iff, complete_iff]
  simp only [List.all_eq_true, decide_eq_true_eq, List.count_pos_iff, List.mem_map]
  have hp : x.1 ∈ withSets c sorted := (List.of_mem_zip hx).1
  have hrel := withSets_set_eq_iff c hs
  constructor
  · intro h s hsr
    obtain ⟨q, hq, he⟩ := h s hsr
    simp only [Prod.mk.injEq] at he
    refine ⟨q.2, ?_, (hrel q hq x.1 hp).1 he.1, he.2⟩
    rw [← withSets_map_snd c sorted]
    exact List.mem_map.2 ⟨q, hq, rfl⟩
  · intro h s hsr
    obtain ⟨r', hr', hl, hsl⟩ := h s hsr
    rw [← withSets_map_snd c sorted] at hr'
    obtain ⟨q, hq, rfl⟩ := List.mem_map.1 hr'
    exact ⟨q, hq, by simp [(hrel q hq x.1 hp).2 hl, hsl]⟩

end facts

end Nb.C20

namespace Nb.C20

/-- second-stage entries as a map over (set number, record, volume number) triples -/
def entryOf (c : Cfg) (sorted : List Rec) (x : (Nat × Rec) × Nat) : Ann × Rec :=
  (⟨!((sliceRange c.maxSlices).all fun s =>
      decide (x.2 < ((withSets c sorted).map (fun p => (p.1, p.2.slice))).count (x.1.1, s))), x.1.1, x.2⟩,
   x.1.2)

theorem annOf_zip (c : Cfg) (sorted : List Rec) :
    (annOf c sorted).zip sorted =
      ((withSets c sorted).zip (occNumbers ((withSets c sorted).map (fun p => (p.1, p.2.slice))))).map
        (entryOf c sorted) := by
  have hB : ((withSets c sorted).zip (occNumbers ((withSets c sorted).map (fun p => (p.1, p.2.slice))))).map
      (fun x => x.1.2) = sorted := by
    have : ((withSets c sorted).zip (occNumbers ((withSets c sorted).map (fun p => (p.1, p.2.slice))))).map
        (·.1) = withSets c sorted := by
      rw [List.map_fst_zip]; simp [occNumbers_length]
    conv => rhs; rw [← withSets_map_snd c sorted, ← this]
    simp [List.map_map, Function.comp_def]
  have key : (annOf c sorted).zip
      (((withSets c sorted).zip (occNumbers ((withSets c sorted).map (fun p => (p.1, p.2.slice))))).map
        (fun x => x.1.2)) =
      ((withSets c sorted).zip (occNumbers ((withSets c sorted).map (fun p => (p.1, p.2.slice))))).map
        (entryOf c sorted) := by
    unfold annOf
    simp only
    rw [List.zip_map']
    rfl
  rwa [hB] at key

theorem strictRecs_complete (c : Cfg) {sorted : List Rec}
    (hs : sorted.Pairwise (fun a b => strictLe c a b = true)) (hk : keysNodup c sorted)
    (hr : (sorted.map (·.slice)).all (inRange c.maxSlices) = true) (n : Nat)
    (hn : n = (sorted.filter (complete c sorted)).length) :
    ∃ L, strictRecs c sorted = .ok L ∧ L.take n = sorted.filter (complete c sorted) := by
  unfold strictRecs
  rw [annotate_eq c sorted hr]
  refine ⟨_, rfl, ?_⟩
  have hZ := annOf_zip c sorted
  generalize hZdef : (annOf c sorted).zip sorted = Z at *
  -- facts about the entries
  have hmem : ∀ z ∈ Z, ∃ x ∈ (withSets c sorted).zip
      (occNumbers ((withSets c sorted).map (fun p => (p.1, p.2.slice)))), z = entryOf c sorted x := by
    intro z hz; rw [hZ] at hz
    obtain ⟨x, hx, rfl⟩ := List.mem_map.1 hz
    exact ⟨x, hx, rfl⟩
  have hF : ∀ z ∈ Z, isFullEntry z = complete c sorted z.2 := by
    intro z hz
    obtain ⟨x, hx, rfl⟩ := hmem z hz
    simp only [isFullEntry, entryOf, Bool.not_not]
    exact flag_eq_complete c hs hk hx
  have hvol : ∀ z ∈ Z, z.1.volNo = 0 := by
    intro z hz
    obtain ⟨x, hx, rfl⟩ := hmem z hz
    exact occ_zero c hs hk hx
  have hsnd : Z.map (·.2) = sorted := by
    rw [← hZdef, List.map_snd_zip]
    simp [annOf, withSets_length, occNumbers_length]
  have hset : Z.Pairwise (fun a b => a.1.setNo ≤ b.1.setNo) := by
    have hW : Z.map (fun z => (z.1.setNo, z.2)) = withSets c sorted := by
      rw [hZ, List.map_map]
      have : ((fun z : Ann × Rec => (z.1.setNo, z.2)) ∘ entryOf c sorted) = (·.1) := by
        funext x; rfl
      rw [this, List.map_fst_zip]; simp [occNumbers_length]
    have := withSets_rel c hs
    rw [← hW, List.pairwise_map] at this
    exact this.imp (fun {a b} h => h.1)
  have hpw : (Z.filter isFullEntry).Pairwise (fun a b => annLe a.1 b.1 = true) := by
    rw [List.pairwise_filter]
    refine hset.imp_of_mem ?_
    intro a b ha hb hab hfa hfb
    have va := hvol a ha
    have vb := hvol b hb
    unfold isFullEntry at hfa hfb
    unfold annLe
    simp only [Bool.not_eq_true'] at hfa hfb
    simp [hfa, hfb, va, vb]
    omega
  have hsortedT := pairwise_stableSort (le := fun a b : Ann × Rec => annLe a.1 b.1)
    (fun a b d => annLe_trans a.1 b.1 d.1) (fun a b => annLe_total a.1 b.1) Z
  have hsplit := sorted_bool_split _ isFullEntry annLe_partial_full _ hsortedT
  have hfilt := filter_stableSort_eq (le := fun a b : Ann × Rec => annLe a.1 b.1) isFullEntry Z hpw
  have hkept : (Z.filter isFullEntry).map (·.2) = sorted.filter (complete c sorted) := by
    have h1 : Z.filter isFullEntry = Z.filter ((complete c sorted) ∘ (·.2)) :=
      List.filter_congr (fun z hz => hF z hz)
    rw [h1, ← List.filter_map, hsnd]
  have hlen : n = (Z.filter isFullEntry).length := by
    rw [hn, ← hkept, List.length_map]
  rw [← List.map_take, hsplit, hfilt, List.take_left' hlen.symm, hkept]

end Nb.C20

namespace Nb.C20

/-- strict sorting + trimming keeps exactly the records of complete label sets, in key order, as soon
    as the number of kept positions `prod(shape[2:])` is the number of such records -/
theorem assembled_complete (c : Cfg) (recs : List Rec) (hk : keysNodup c recs)
    (hr : (recs.map (·.slice)).all (inRange c.maxSlices) = true) (nv : Nat) (hv : nVols c recs = .ok nv)
    (hn : nUsedOf (nSlices recs) nv = (recs.filter (complete c recs)).length) :
    assembled c recs = .ok ((stableSort (strictLe c) recs).filter (complete c recs)) := by
  have hperm := stableSort_perm (strictLe c) recs
  have hs := pairwise_stableSort (strictLe_trans c) (strictLe_total c) recs
  have hk' : keysNodup c (stableSort (strictLe c) recs) :=
    (hperm.pairwise_iff (fun {x y} (h : strictKey c x ≠ strictKey c y) => Ne.symm h)).2 hk
  have hr' : ((stableSort (strictLe c) recs).map (·.slice)).all (inRange c.maxSlices) = true := by
    rw [all_perm (hperm.map _)]; exact hr
  have hc : complete c (stableSort (strictLe c) recs) = complete c recs := by
    funext r; exact complete_perm c hperm r
  have hlen : nUsedOf (nSlices recs) nv =
      ((stableSort (strictLe c) recs).filter (complete c (stableSort (strictLe c) recs))).length := by
    rw [hn, hc]; exact ((hperm.filter _).length_eq).symm
  obtain ⟨L, hL, htake⟩ := strictRecs_complete c hs hk' hr' _ hlen
  rw [assembled_eq, strictOrder_recs, hL, hv]
  simp only [htake, hc]

end Nb.C20
