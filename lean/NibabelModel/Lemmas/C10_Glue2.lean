import NibabelModel.Lemmas.C10_Glue
/-! Lemmas/C10_Glue2 — the record `CF` of checked fields versus the parsed header: reading after writing,
    writing back what was read, representability of every value the repairs produce, frames. -/
namespace Nb.C10

/-! ### which slot a check repairs, what a slot stores -/

def checkSlot : CheckId → Option String
  | .sizeofHdr => some "sizeof_hdr"
  | .bitpix => some "bitpix"
  | .pixdims => some "pixdim"
  | .qfac => some "pixdim"
  | .offset => some "vox_offset"
  | .qform => some "qform_code"
  | .sform => some "sform_code"
  | .eol => some "eol_check"
  | .version => some "version"
  | .datatype | .magic | .origin => none

/-- names of the layout fields the battery of a class may repair -/
def repairable (c : ClsSpec) : List String := c.checks.filterMap checkSlot

/-- the components of `CF` stored in slot `n` -/
def slotView (n : String) (h : CF) : Int × Nat × List Nat × List Int :=
  if n = "sizeof_hdr" then (h.sizeofHdr, 0, [], [])
  else if n = "bitpix" then (h.bitpix, 0, [], [])
  else if n = "pixdim" then (0, h.qfac, h.pixdim, [])
  else if n = "vox_offset" then (0, h.voxOffset, [], [])
  else if n = "qform_code" then (h.qform, 0, [], [])
  else if n = "sform_code" then (h.sform, 0, [], [])
  else if n = "eol_check" then (0, 0, [], h.eol)
  else if n = "version" then (h.version, 0, [], [])
  else (0, 0, [], [])

theorem newRaw_congr (L : Layout) (vals : List (List Nat)) (a b : CF) (n : String)
    (h : slotView n a = slotView n b) : newRaw L vals a n = newRaw L vals b n := by
  unfold slotView at h
  unfold newRaw
  split
  · simp_all
  · split
    · simp_all
    · split
      · simp_all
      · split
        · simp_all
        · split
          · simp_all
          · split
            · simp_all
            · split
              · simp_all
              · split
                · simp_all
                · rfl

theorem fixAll_proj {α : Type} (c : ClsSpec) (π : CF → α) (ks : List CheckId)
    (hπ : ∀ k ∈ ks, ∀ h, π (fixOf c k h) = π h) (h : CF) : π (fixAll c ks h) = π h := by
  induction ks generalizing h with
  | nil => rfl
  | cons k ks ih =>
    show π (fixAll c ks (fixOf c k h)) = π h
    rw [ih (fun k' hk' => hπ k' (List.mem_cons_of_mem _ hk')), hπ k (List.mem_cons_self ..)]

/-- a slot no check of the battery repairs keeps its stored components -/
theorem slotView_fixAll (c : ClsSpec) (ks : List CheckId) (n : String)
    (hn : ∀ k ∈ ks, checkSlot k ≠ some n) (h : CF) : slotView n (fixAll c ks h) = slotView n h := by
  apply fixAll_proj
  intro k hk h
  have := hn k hk
  cases k <;> simp only [checkSlot, ne_eq, Option.some.injEq, reduceCtorEq, not_false_eq_true] at this <;>
    simp only [fixOf, slotView] <;> (try rfl) <;>
    (have this' : ¬ n = _ := fun e => this e.symm) <;> simp [this']

theorem readonly_fixAll (c : ClsSpec) (ks : List CheckId) (h : CF) :
    (fixAll c ks h).datatype = h.datatype ∧ (fixAll c ks h).magic = h.magic ∧
    (fixAll c ks h).origin = h.origin ∧ (fixAll c ks h).dim = h.dim := by
  refine ⟨?_, ?_, ?_, ?_⟩ <;> (apply fixAll_proj; intro k _ h; cases k <;> rfl)

end Nb.C10
