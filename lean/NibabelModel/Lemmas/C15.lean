import NibabelModel.Model.C15
/-! Lemmas/C15 — helper lemmas for Props/C15 (core Lean only). -/
namespace Nb.C15
open Nb
theorem padTo_take {rows : List Row} {p : Nat} (h : p ≤ rows.length) : (padTo rows p).take p = rows.take p := by
  unfold padTo
  have : p - rows.length = 0 := by omega
  simp [this]

theorem write_rows_of_le (b : Buf) (p : Nat) (el : Elem) (h : p ≤ b.rows.length) :
    (b.write p el).rows = b.rows.take p ++ el ++ b.rows.drop (p + el.length) := by
  simp [Buf.write, padTo_take h]

theorem write_rows_length (b : Buf) (p : Nat) (el : Elem) (h : p ≤ b.rows.length) :
    (b.write p el).rows.length = max b.rows.length (p + el.length) := by
  rw [write_rows_of_le b p el h]; simp; omega

theorem slice_write_same (b : Buf) (p : Nat) (el : Elem) (h : p ≤ b.rows.length) :
    (b.write p el).slice p el.length = el := by
  simp only [Buf.slice, write_rows_of_le b p el h]
  apply List.ext_getElem?
  intro i
  simp only [List.getElem?_take, List.getElem?_drop, List.getElem?_append]
  grind

theorem slice_write_below (b : Buf) (p : Nat) (el : Elem) (o l : Nat) (h : p ≤ b.rows.length)
    (hd : o + l ≤ p) : (b.write p el).slice o l = b.slice o l := by
  simp only [Buf.slice, write_rows_of_le b p el h]
  apply List.ext_getElem?
  intro i
  simp only [List.getElem?_take, List.getElem?_drop, List.getElem?_append]
  grind

theorem slice_write_above (b : Buf) (p : Nat) (el : Elem) (o l : Nat) (h : p + el.length ≤ b.rows.length)
    (hd : p + el.length ≤ o) : (b.write p el).slice o l = b.slice o l := by
  simp only [Buf.slice, write_rows_of_le b p el (by omega)]
  apply List.ext_getElem?
  intro i
  simp only [List.getElem?_take, List.getElem?_drop, List.getElem?_append]
  grind

theorem slice_resize (b : Buf) (n o l : Nat) (h : o + l ≤ n) : (b.resize n).slice o l = b.slice o l := by
  simp only [Buf.slice, Buf.resize]
  apply List.ext_getElem?
  intro i
  simp only [List.getElem?_take, List.getElem?_drop]
  grind

theorem slice_length (b : Buf) (o l : Nat) (h : o + l ≤ b.rows.length) : (b.slice o l).length = l := by
  simp [Buf.slice]; omega
/-! accessors -/
theorem seqAt_of_get {σ : State} {i : Nat} {s : Seq} (h : σ.seqs[i]? = some s) : σ.seqAt i = s := by
  simp [State.seqAt, List.getD, h]

theorem get_seqAt {σ : State} {i : Nat} (h : i < σ.seqs.length) : σ.seqs[i]? = some (σ.seqAt i) := by
  simp [State.seqAt, List.getD, h]

theorem lt_of_get {σ : State} {i : Nat} {s : Seq} (h : σ.seqs[i]? = some s) : i < σ.seqs.length := by
  exact (List.getElem?_eq_some_iff.mp h).1

theorem setSeq_get (σ : State) (t : Nat) (s : Seq) (i : Nat) :
    (σ.setSeq t s).seqs[i]? = if i = t ∧ t < σ.seqs.length then some s else σ.seqs[i]? := by
  simp only [State.setSeq, List.getElem?_set]
  grind

theorem setSeq_heap (σ : State) (t : Nat) (s : Seq) : (σ.setSeq t s).heap = σ.heap := rfl
theorem setSeq_bufAt (σ : State) (t : Nat) (s : Seq) (b : Nat) : (σ.setSeq t s).bufAt b = σ.bufAt b := rfl
theorem setBuf_seqs (σ : State) (b : Nat) (x : Buf) : (σ.setBuf b x).seqs = σ.seqs := rfl
theorem setBuf_heap_length (σ : State) (b : Nat) (x : Buf) : (σ.setBuf b x).heap.length = σ.heap.length := by
  simp [State.setBuf]

theorem setBuf_bufAt (σ : State) (b : Nat) (x : Buf) (b' : Nat) :
    (σ.setBuf b x).bufAt b' = if b' = b ∧ b < σ.heap.length then x else σ.bufAt b' := by
  simp only [State.setBuf, State.bufAt, List.getD, List.getElem?_set]
  grind

theorem alloc_seqs (σ : State) (x : Buf) : (σ.alloc x).1.seqs = σ.seqs := rfl
theorem alloc_id (σ : State) (x : Buf) : (σ.alloc x).2 = σ.heap.length := rfl
theorem alloc_heap_length (σ : State) (x : Buf) : (σ.alloc x).1.heap.length = σ.heap.length + 1 := by
  simp [State.alloc]
theorem alloc_bufAt (σ : State) (x : Buf) (b : Nat) :
    (σ.alloc x).1.bufAt b = if b = σ.heap.length then x else σ.bufAt b := by
  simp only [State.alloc, State.bufAt, List.getD, List.getElem?_append]
  grind

theorem addSeq_get (σ : State) (s : Seq) (i : Nat) :
    (σ.addSeq s).seqs[i]? = if i = σ.seqs.length then some s else σ.seqs[i]? := by
  simp only [State.addSeq, List.getElem?_append]
  grind
theorem addSeq_bufAt (σ : State) (s : Seq) (b : Nat) : (σ.addSeq s).bufAt b = σ.bufAt b := rfl
theorem addSeq_heap (σ : State) (s : Seq) : (σ.addSeq s).heap = σ.heap := rfl

def endsLe (rs : List (Nat × Nat)) (n : Nat) : Prop := ∀ r ∈ rs, r.1 + r.2 ≤ n
def eqOrDisj (r r' : Nat × Nat) : Prop := r = r' ∨ r.1 + r.2 ≤ r'.1 ∨ r'.1 + r'.2 ≤ r.1

structure Inv (σ : State) : Prop where
  bufLt : ∀ (i : Nat) (s : Seq), σ.seqs[i]? = some s → s.buf < σ.heap.length
  capOk : ∀ (b : Nat), b < σ.heap.length → (σ.bufAt b).rows.length ≤ (σ.bufAt b).cap
  pos : ∀ (i : Nat) (s : Seq), σ.seqs[i]? = some s → ∀ r ∈ s.ranges, 0 < r.2
  inb : ∀ (i : Nat) (s : Seq), σ.seqs[i]? = some s → endsLe s.ranges (σ.bufAt s.buf).rows.length
  oneOwner : ∀ (i j : Nat) (s s' : Seq), σ.seqs[i]? = some s → σ.seqs[j]? = some s' → i ≠ j → s.isView = false →
    s.buf = s'.buf → s'.isView = true
  tail : ∀ (i j : Nat) (s s' : Seq), σ.seqs[i]? = some s → σ.seqs[j]? = some s' → s.isView = false → s'.buf = s.buf →
    endsLe s'.ranges (nextOffset s.ranges)
  cells : ∀ (i j : Nat) (s s' : Seq), σ.seqs[i]? = some s → σ.seqs[j]? = some s' → s.buf = s'.buf →
    ∀ r ∈ s.ranges, ∀ r' ∈ s'.ranges, eqOrDisj r r'

theorem inv_init : Inv State.init := by
  constructor <;> simp [State.init]

theorem inv_setBuf {σ : State} (h : Inv σ) (b : Nat) (x : Buf) (hx : x.rows.length ≤ x.cap)
    (hr : ∀ (i : Nat) (s : Seq), σ.seqs[i]? = some s → s.buf = b → endsLe s.ranges x.rows.length) :
    Inv (σ.setBuf b x) := by
  constructor
  · intro i s hs; simpa [setBuf_heap_length] using h.bufLt i s hs
  · intro b' hb'; rw [setBuf_bufAt]; split
    · exact hx
    · exact h.capOk b' (by simpa [setBuf_heap_length] using hb')
  · exact h.pos
  · intro i s hs; rw [setBuf_bufAt]; split
    · exact hr i s hs (by grind)
    · exact h.inb i s hs
  · exact h.oneOwner
  · exact h.tail
  · exact h.cells

theorem inv_alloc {σ : State} (h : Inv σ) (x : Buf) (hx : x.rows.length ≤ x.cap) : Inv (σ.alloc x).1 := by
  constructor
  · intro i s hs; have := h.bufLt i s hs; simp [alloc_heap_length]; omega
  · intro b hb; rw [alloc_bufAt]; split
    · exact hx
    · exact h.capOk b (by simp [alloc_heap_length] at hb; omega)
  · exact h.pos
  · intro i s hs; have := h.bufLt i s hs; rw [alloc_bufAt]; split
    · omega
    · exact h.inb i s hs
  · exact h.oneOwner
  · exact h.tail
  · exact h.cells

theorem argmaxOff_mem (b : Nat × Nat) (l : List (Nat × Nat)) : argmaxOff b l = b ∨ argmaxOff b l ∈ l := by
  induction l generalizing b with
  | nil => simp [argmaxOff]
  | cons r rest ih =>
    simp only [argmaxOff]
    split
    · rcases ih r with h | h
      · right; simp [h]
      · right; simp [h]
    · rcases ih b with h | h
      · left; exact h
      · right; simp [h]

theorem nextOffset_mem {rs : List (Nat × Nat)} (h : rs ≠ []) : ∃ r ∈ rs, nextOffset rs = r.1 + r.2 := by
  cases rs with
  | nil => exact absurd rfl h
  | cons r rest =>
    simp only [nextOffset]
    rcases argmaxOff_mem r rest with h | h
    · exact ⟨r, by simp, by rw [h]⟩
    · exact ⟨_, List.mem_cons_of_mem _ h, rfl⟩

theorem nextOffset_le {rs : List (Nat × Nat)} {n : Nat} (h : endsLe rs n) : nextOffset rs ≤ n := by
  by_cases hr : rs = []
  · subst hr; simp [nextOffset]
  · obtain ⟨r, hm, he⟩ := nextOffset_mem hr
    rw [he]; exact h r hm

theorem argmaxOff_append_gt (b x : Nat × Nat) (l : List (Nat × Nat))
    (hb : b.1 < x.1) (hl : ∀ r ∈ l, r.1 < x.1) : argmaxOff b (l ++ [x]) = x := by
  induction l generalizing b with
  | nil => simp [argmaxOff, hb]
  | cons r rest ih =>
    simp only [List.cons_append, argmaxOff]
    split
    · exact ih r (hl r (by simp)) (fun q hq => hl q (by simp [hq]))
    · exact ih b hb (fun q hq => hl q (by simp [hq]))

theorem nextOffset_push (rs : List (Nat × Nat)) (p n : Nat) (hp : ∀ r ∈ rs, r.1 < p) :
    nextOffset (rs ++ [(p, n)]) = p + n := by
  cases rs with
  | nil => simp [nextOffset, argmaxOff]
  | cons r rest =>
    simp only [List.cons_append, nextOffset]
    rw [argmaxOff_append_gt r (p, n) rest (hp r (by simp)) (fun q hq => hp q (by simp [hq]))]

theorem packRanges_mem {n : Nat} {ls : List Nat} {r : Nat × Nat} (h : r ∈ packRanges n ls) :
    n ≤ r.1 ∧ r.1 + r.2 ≤ n + ls.sum ∧ r.2 ∈ ls := by
  induction ls generalizing n with
  | nil => simp [packRanges] at h
  | cons l ls ih =>
    simp only [packRanges, List.mem_cons] at h
    rcases h with h | h
    · subst h; simp
    · obtain ⟨h1, h2, h3⟩ := ih h
      simp only [List.sum_cons, List.mem_cons]
      exact ⟨by omega, by omega, Or.inr h3⟩

theorem packRanges_cells {n : Nat} {ls : List Nat} (hp : ∀ l ∈ ls, 0 < l) :
    ∀ r ∈ packRanges n ls, ∀ r' ∈ packRanges n ls, eqOrDisj r r' := by
  induction ls generalizing n with
  | nil => simp [packRanges]
  | cons l ls ih =>
    intro r hr r' hr'
    simp only [packRanges, List.mem_cons] at hr hr'
    rcases hr with hr | hr <;> rcases hr' with hr' | hr'
    · left; rw [hr, hr']
    · have := packRanges_mem hr'; subst hr; right; left; simp; omega
    · have := packRanges_mem hr; subst hr'; right; right; simp; omega
    · exact ih (fun x hx => hp x (by simp [hx])) r hr r' hr'

theorem argmaxOff_pack (b : Nat × Nat) (m : Nat) (ls : List Nat) (hb : b.1 + b.2 = m) (hb2 : 0 < b.2)
    (hp : ∀ l ∈ ls, 0 < l) :
    (argmaxOff b (packRanges m ls)).1 + (argmaxOff b (packRanges m ls)).2 = m + ls.sum := by
  induction ls generalizing b m with
  | nil => simp [packRanges, argmaxOff, hb]
  | cons l ls ih =>
    simp only [packRanges, argmaxOff]
    have : m > b.1 := by omega
    simp only [this, if_true]
    have := ih (m, l) (m + l) rfl (hp l (by simp)) (fun x hx => hp x (by simp [hx]))
    simp only [List.sum_cons]; omega

theorem nextOffset_pack (n : Nat) (ls : List Nat) (hp : ∀ l ∈ ls, 0 < l) (hne : ls ≠ []) :
    nextOffset (packRanges n ls) = n + ls.sum := by
  cases ls with
  | nil => exact absurd rfl hne
  | cons l ls =>
    simp only [packRanges, nextOffset]
    have := argmaxOff_pack (n, l) (n + l) ls rfl (hp l (by simp)) (fun x hx => hp x (by simp [hx]))
    simp only [List.sum_cons]; omega

theorem endsLe_pack_next (ls : List Nat) (hp : ∀ l ∈ ls, 0 < l) :
    endsLe (packRanges 0 ls) (nextOffset (packRanges 0 ls)) := by
  intro r hr
  have hne : ls ≠ [] := by intro h; subst h; simp [packRanges] at hr
  rw [nextOffset_pack 0 ls hp hne]
  exact (packRanges_mem hr).2.1

theorem packRanges_pos {n : Nat} {ls : List Nat} (hp : ∀ l ∈ ls, 0 < l) : ∀ r ∈ packRanges n ls, 0 < r.2 :=
  fun _ hr => hp _ (packRanges_mem hr).2.2

/-- slices of a compacted buffer at the packed ranges give the elements back -/
theorem contentsOf_pack (pre : List Row) (els : List Elem) (post : List Row) (cap dt : Nat) :
    contentsOf ⟨pre ++ els.flatten ++ post, cap, dt⟩ (packRanges pre.length (els.map List.length)) = els := by
  induction els generalizing pre with
  | nil => simp [packRanges, contentsOf]
  | cons e es ih =>
    simp only [List.map_cons, packRanges, contentsOf, List.map_cons, List.flatten_cons]
    congr 1
    · simp [Buf.slice]
    · have := ih (pre ++ e)
      simp only [contentsOf, List.length_append, List.append_assoc] at this ⊢
      exact this
theorem inv_addView {σ : State} (h : Inv σ) (t : Nat) (ht : t < σ.seqs.length) (rs : List (Nat × Nat))
    (hsub : ∀ r ∈ rs, r ∈ (σ.seqAt t).ranges) (bb : Nat) :
    Inv (σ.addSeq { buf := (σ.seqAt t).buf, ranges := rs, isView := true, bufBytes := bb }) := by
  have hts := get_seqAt ht
  constructor
  · intro i s hs
    rw [addSeq_get] at hs; simp only [addSeq_heap]
    split at hs
    · cases hs; exact h.bufLt t (σ.seqAt t) hts
    · exact h.bufLt i s hs
  · exact h.capOk
  · intro i s hs
    rw [addSeq_get] at hs
    split at hs
    · cases hs; exact fun r hr => h.pos t (σ.seqAt t) hts r (hsub r hr)
    · exact h.pos i s hs
  · intro i s hs
    rw [addSeq_get] at hs; simp only [addSeq_bufAt]
    split at hs
    · cases hs; exact fun r hr => h.inb t (σ.seqAt t) hts r (hsub r hr)
    · exact h.inb i s hs
  · intro i j s s' hs hs' hij hv hb
    rw [addSeq_get] at hs hs'
    split at hs <;> split at hs'
    · omega
    · cases hs; simp at hv
    · cases hs'; rfl
    · exact h.oneOwner i j s s' hs hs' hij hv hb
  · intro i j s s' hs hs' hv hb
    rw [addSeq_get] at hs hs'
    split at hs <;> split at hs'
    · cases hs; simp at hv
    · cases hs; simp at hv
    · cases hs'; exact fun r hr => h.tail i t s (σ.seqAt t) hs hts hv hb r (hsub r hr)
    · exact h.tail i j s s' hs hs' hv hb
  · intro i j s s' hs hs' hb r hr r' hr'
    rw [addSeq_get] at hs hs'
    split at hs <;> split at hs'
    · cases hs; cases hs'; exact h.cells t t (σ.seqAt t) (σ.seqAt t) hts hts rfl r (hsub r hr) r' (hsub r' hr')
    · cases hs; exact h.cells t j (σ.seqAt t) s' hts hs' hb r (hsub r hr) r' hr'
    · cases hs'; exact h.cells i t s (σ.seqAt t) hs hts hb r hr r' (hsub r' hr')
    · exact h.cells i j s s' hs hs' hb r hr r' hr'

/-- a sequence (new, or replacing the one at `t`) that alone owns buffer `id` -/
structure OwnerOK (σ : State) (id : Nat) (rs : List (Nat × Nat)) : Prop where
  idLt : id < σ.heap.length
  pos : ∀ r ∈ rs, 0 < r.2
  inb : endsLe rs (σ.bufAt id).rows.length
  tail : endsLe rs (nextOffset rs)
  cells : ∀ r ∈ rs, ∀ r' ∈ rs, eqOrDisj r r'

theorem inv_addOwner {σ : State} (h : Inv σ) (id : Nat) (rs : List (Nat × Nat)) (ok : OwnerOK σ id rs)
    (hfresh : ∀ (i : Nat) (s : Seq), σ.seqs[i]? = some s → s.buf ≠ id) (bb : Nat) :
    Inv (σ.addSeq { buf := id, ranges := rs, isView := false, bufBytes := bb }) := by
  constructor
  · intro i s hs
    rw [addSeq_get] at hs; simp only [addSeq_heap]
    split at hs
    · cases hs; exact ok.idLt
    · exact h.bufLt i s hs
  · exact h.capOk
  · intro i s hs
    rw [addSeq_get] at hs
    split at hs
    · cases hs; exact ok.pos
    · exact h.pos i s hs
  · intro i s hs
    rw [addSeq_get] at hs; simp only [addSeq_bufAt]
    split at hs
    · cases hs; exact ok.inb
    · exact h.inb i s hs
  · intro i j s s' hs hs' hij hv hb
    rw [addSeq_get] at hs hs'
    split at hs <;> split at hs'
    · omega
    · cases hs; exact absurd hb.symm (hfresh j s' hs')
    · cases hs'; exact absurd hb (hfresh i s hs)
    · exact h.oneOwner i j s s' hs hs' hij hv hb
  · intro i j s s' hs hs' hv hb
    rw [addSeq_get] at hs hs'
    split at hs <;> split at hs'
    · cases hs; cases hs'; exact ok.tail
    · cases hs; exact absurd hb (hfresh j s' hs')
    · cases hs'; exact absurd hb.symm (hfresh i s hs)
    · exact h.tail i j s s' hs hs' hv hb
  · intro i j s s' hs hs' hb r hr r' hr'
    rw [addSeq_get] at hs hs'
    split at hs <;> split at hs'
    · cases hs; cases hs'; exact ok.cells r hr r' hr'
    · cases hs; exact absurd hb.symm (hfresh j s' hs')
    · cases hs'; exact absurd hb (hfresh i s hs)
    · exact h.cells i j s s' hs hs' hb r hr r' hr'

theorem inv_setOwner {σ : State} (h : Inv σ) (t : Nat) (id : Nat) (rs : List (Nat × Nat))
    (ok : OwnerOK σ id rs)
    (hfresh : ∀ (i : Nat) (s : Seq), σ.seqs[i]? = some s → i ≠ t → s.buf ≠ id) (bb : Nat) :
    Inv (σ.setSeq t { buf := id, ranges := rs, isView := false, bufBytes := bb }) := by
  constructor
  · intro i s hs
    rw [setSeq_get] at hs; simp only [setSeq_heap]
    split at hs
    · cases hs; exact ok.idLt
    · exact h.bufLt i s hs
  · exact h.capOk
  · intro i s hs
    rw [setSeq_get] at hs
    split at hs
    · cases hs; exact ok.pos
    · exact h.pos i s hs
  · intro i s hs
    rw [setSeq_get] at hs; simp only [setSeq_bufAt]
    split at hs
    · cases hs; exact ok.inb
    · exact h.inb i s hs
  · intro i j s s' hs hs' hij hv hb
    rw [setSeq_get] at hs hs'
    split at hs <;> split at hs'
    · omega
    · cases hs; exact absurd hb.symm (hfresh j s' hs' (by omega))
    · cases hs'; exact absurd hb (hfresh i s hs (by omega))
    · exact h.oneOwner i j s s' hs hs' hij hv hb
  · intro i j s s' hs hs' hv hb
    rw [setSeq_get] at hs hs'
    split at hs <;> split at hs'
    · cases hs; cases hs'; exact ok.tail
    · cases hs; exact absurd hb (hfresh j s' hs' (by omega))
    · cases hs'; exact absurd hb.symm (hfresh i s hs (by omega))
    · exact h.tail i j s s' hs hs' hv hb
  · intro i j s s' hs hs' hb r hr r' hr'
    rw [setSeq_get] at hs hs'
    split at hs <;> split at hs'
    · cases hs; cases hs'; exact ok.cells r hr r' hr'
    · cases hs; exact absurd hb.symm (hfresh j s' hs' (by omega))
    · cases hs'; exact absurd hb (hfresh i s hs (by omega))
    · exact h.cells i j s s' hs hs' hb r hr r' hr'
theorem contents_congr {σ σ' : State} {u : Nat}
    (hr : (σ'.seqAt u).ranges = (σ.seqAt u).ranges)
    (hs : ∀ r ∈ (σ.seqAt u).ranges,
      (σ'.bufAt (σ'.seqAt u).buf).slice r.1 r.2 = (σ.bufAt (σ.seqAt u).buf).slice r.1 r.2) :
    σ'.contents u = σ.contents u := by
  simp only [State.contents, contentsOf, hr]
  exact List.map_congr_left hs

theorem seqAt_setSeq (σ : State) (t : Nat) (s : Seq) (u : Nat) :
    (σ.setSeq t s).seqAt u = if u = t ∧ t < σ.seqs.length then s else σ.seqAt u := by
  simp only [State.seqAt, List.getD, setSeq_get]
  split <;> simp

theorem seqAt_addSeq (σ : State) (s : Seq) (u : Nat) :
    (σ.addSeq s).seqAt u = if u = σ.seqs.length then s else σ.seqAt u := by
  simp only [State.seqAt, List.getD, addSeq_get]
  split <;> simp

theorem seqAt_setBuf (σ : State) (b : Nat) (x : Buf) (u : Nat) : (σ.setBuf b x).seqAt u = σ.seqAt u := rfl
theorem seqAt_alloc (σ : State) (x : Buf) (u : Nat) : (σ.alloc x).1.seqAt u = σ.seqAt u := rfl
theorem setSeq_length (σ : State) (t : Nat) (s : Seq) : (σ.setSeq t s).seqs.length = σ.seqs.length := by
  simp [State.setSeq]
theorem addSeq_length (σ : State) (s : Seq) : (σ.addSeq s).seqs.length = σ.seqs.length + 1 := by
  simp [State.addSeq]

/-- owner `t` gets the range `(next, n)` pushed after the rows were written -/
theorem inv_push {σ : State} (h : Inv σ) (t : Nat) (ht : t < σ.seqs.length)
    (hown : (σ.seqAt t).isView = false) (n : Nat) (hn : 0 < n)
    (hlen : nextOffset (σ.seqAt t).ranges + n ≤ (σ.bufAt (σ.seqAt t).buf).rows.length) :
    Inv (σ.setSeq t { σ.seqAt t with
      ranges := (σ.seqAt t).ranges ++ [(nextOffset (σ.seqAt t).ranges, n)] }) := by
  have hts := get_seqAt ht
  have hlt : ∀ r ∈ (σ.seqAt t).ranges, r.1 < nextOffset (σ.seqAt t).ranges := by
    intro r hr
    have h1 := h.tail t t (σ.seqAt t) (σ.seqAt t) hts hts hown rfl r hr
    have h2 := h.pos t (σ.seqAt t) hts r hr
    omega
  have hnext := nextOffset_push (σ.seqAt t).ranges (nextOffset (σ.seqAt t).ranges) n hlt
  constructor
  · intro i s hs
    rw [setSeq_get] at hs; simp only [setSeq_heap]
    split at hs
    · cases hs; exact h.bufLt t (σ.seqAt t) hts
    · exact h.bufLt i s hs
  · exact h.capOk
  · intro i s hs
    rw [setSeq_get] at hs
    split at hs
    · cases hs
      intro r hr
      simp only [List.mem_append, List.mem_singleton] at hr
      rcases hr with hr | hr
      · exact h.pos t (σ.seqAt t) hts r hr
      · subst hr; exact hn
    · exact h.pos i s hs
  · intro i s hs
    rw [setSeq_get] at hs; simp only [setSeq_bufAt]
    split at hs
    · cases hs
      intro r hr
      simp only [List.mem_append, List.mem_singleton] at hr
      rcases hr with hr | hr
      · exact h.inb t (σ.seqAt t) hts r hr
      · subst hr; exact hlen
    · exact h.inb i s hs
  · intro i j s s' hs hs' hij hv hb
    rw [setSeq_get] at hs hs'
    split at hs <;> split at hs'
    · omega
    · cases hs; exact h.oneOwner t j (σ.seqAt t) s' hts hs' (by omega) hown hb
    · cases hs'; exact absurd (h.oneOwner i t s (σ.seqAt t) hs hts (by omega) hv hb) (by simp [hown])
    · exact h.oneOwner i j s s' hs hs' hij hv hb
  · intro i j s s' hs hs' hv hb
    rw [setSeq_get] at hs hs'
    split at hs <;> split at hs'
    · cases hs; cases hs'
      simp only; rw [hnext]
      intro r hr
      simp only [List.mem_append, List.mem_singleton] at hr
      rcases hr with hr | hr
      · have := h.tail t t (σ.seqAt t) (σ.seqAt t) hts hts hown rfl r hr; omega
      · subst hr; simp
    · cases hs
      simp only; rw [hnext]
      intro r hr
      have := h.tail t j (σ.seqAt t) s' hts hs' hown hb r hr; omega
    · cases hs'
      rename_i h1 h2
      have hit : i ≠ t := by omega
      exact absurd (h.oneOwner i t s (σ.seqAt t) hs hts hit hv hb.symm) (by simp [hown])
    · exact h.tail i j s s' hs hs' hv hb
  · intro i j s s' hs hs' hb r hr r' hr'
    have key : ∀ (k : Nat) (x : Seq), σ.seqs[k]? = some x → x.buf = (σ.seqAt t).buf →
        ∀ q ∈ x.ranges, q.1 + q.2 ≤ nextOffset (σ.seqAt t).ranges :=
      fun k x hx hbx q hq => h.tail t k (σ.seqAt t) x hts hx hown hbx q hq
    rw [setSeq_get] at hs hs'
    split at hs <;> split at hs'
    · cases hs; cases hs'
      simp only [List.mem_append, List.mem_singleton] at hr hr'
      rcases hr with hr | hr <;> rcases hr' with hr' | hr'
      · exact h.cells t t (σ.seqAt t) (σ.seqAt t) hts hts rfl r hr r' hr'
      · subst hr'; have := key t (σ.seqAt t) hts rfl r hr; right; left; simpa using this
      · subst hr; have := key t (σ.seqAt t) hts rfl r' hr'; right; right; simpa using this
      · left; rw [hr, hr']
    · cases hs
      simp only [List.mem_append, List.mem_singleton] at hr
      rcases hr with hr | hr
      · exact h.cells t j (σ.seqAt t) s' hts hs' hb r hr r' hr'
      · subst hr; have := key j s' hs' hb.symm r' hr'; right; right; simpa using this
    · cases hs'
      simp only [List.mem_append, List.mem_singleton] at hr'
      rcases hr' with hr' | hr'
      · exact h.cells i t s (σ.seqAt t) hs hts hb r hr r' hr'
      · subst hr'; have := key i s hs hb r hr; right; left; simpa using this
    · exact h.cells i j s s' hs hs' hb r hr r' hr'
theorem contentsOf_lengths (b : Buf) (rs : List (Nat × Nat)) (h : endsLe rs b.rows.length) :
    (contentsOf b rs).map List.length = rs.map (·.2) := by
  simp only [contentsOf, List.map_map]
  apply List.map_congr_left
  intro r hr
  exact slice_length b r.1 r.2 (h r hr)

/-- the buffer `copy()` builds -/
def copyBuf (σ : State) (t : Nat) : Buf :=
  { rows := (contentsOf (σ.bufAt (σ.seqAt t).buf) (σ.seqAt t).ranges).flatten,
    cap := ((σ.seqAt t).ranges.map (·.2)).sum, dt := (σ.bufAt (σ.seqAt t).buf).dt }

theorem copySeq_fst (σ : State) (t : Nat) : (copySeq σ t).1 = (σ.alloc (copyBuf σ t)).1 := rfl
theorem copySeq_snd (σ : State) (t : Nat) : (copySeq σ t).2 =
    { buf := σ.heap.length, ranges := packRanges 0 ((σ.seqAt t).ranges.map (·.2)), isView := false,
      bufBytes := defaultBufBytes } := rfl

theorem sum_map_length_flatten (els : List Elem) : els.flatten.length = (els.map List.length).sum := by
  simp [List.length_flatten]

theorem copyBuf_rows_length {σ : State} (h : Inv σ) {t : Nat} (ht : t < σ.seqs.length) :
    (copyBuf σ t).rows.length = ((σ.seqAt t).ranges.map (·.2)).sum := by
  simp only [copyBuf, sum_map_length_flatten]
  rw [contentsOf_lengths _ _ (h.inb t _ (get_seqAt ht))]

theorem copy_contents {σ : State} (h : Inv σ) {t : Nat} (ht : t < σ.seqs.length) :
    contentsOf (copyBuf σ t) (packRanges 0 ((σ.seqAt t).ranges.map (·.2))) = σ.contents t := by
  have hl := contentsOf_lengths _ _ (h.inb t _ (get_seqAt ht))
  have := contentsOf_pack [] (σ.contents t) [] (copyBuf σ t).cap (copyBuf σ t).dt
  simp only [List.nil_append, List.append_nil, List.length_nil, State.contents] at this
  rw [hl] at this
  exact this

theorem copy_ownerOK {σ : State} (h : Inv σ) {t : Nat} (ht : t < σ.seqs.length) :
    OwnerOK (σ.alloc (copyBuf σ t)).1 σ.heap.length (packRanges 0 ((σ.seqAt t).ranges.map (·.2))) := by
  have hpos : ∀ l ∈ (σ.seqAt t).ranges.map (·.2), 0 < l := by
    intro l hl
    simp only [List.mem_map] at hl
    obtain ⟨r, hr, rfl⟩ := hl
    exact h.pos t _ (get_seqAt ht) r hr
  constructor
  · simp [alloc_heap_length]
  · exact packRanges_pos hpos
  · intro r hr
    rw [alloc_bufAt]; simp only [if_true]
    rw [copyBuf_rows_length h ht]
    have := (packRanges_mem hr).2.1; omega
  · exact endsLe_pack_next _ hpos
  · exact packRanges_cells hpos
theorem contents_def (σ : State) (u : Nat) :
    σ.contents u = contentsOf (σ.bufAt (σ.seqAt u).buf) (σ.seqAt u).ranges := rfl

theorem contents_alloc {σ : State} (h : Inv σ) (x : Buf) {u : Nat} (hu : u < σ.seqs.length) :
    (σ.alloc x).1.contents u = σ.contents u := by
  have := h.bufLt u _ (get_seqAt hu)
  simp only [contents_def, seqAt_alloc, alloc_bufAt]
  rw [if_neg (by omega)]

theorem contents_addSeq_old (σ : State) (s : Seq) {u : Nat} (hu : u < σ.seqs.length) :
    (σ.addSeq s).contents u = σ.contents u := by
  simp only [contents_def, seqAt_addSeq, addSeq_bufAt]
  rw [if_neg (by omega)]

theorem contents_addSeq_new (σ : State) (s : Seq) :
    (σ.addSeq s).contents σ.seqs.length = contentsOf (σ.bufAt s.buf) s.ranges := by
  simp only [contents_def, seqAt_addSeq, addSeq_bufAt, if_true]

theorem contents_setSeq_other (σ : State) (t : Nat) (s : Seq) {u : Nat} (hu : u ≠ t) :
    (σ.setSeq t s).contents u = σ.contents u := by
  simp only [contents_def, seqAt_setSeq, setSeq_bufAt]
  rw [if_neg (by omega)]

theorem contents_setSeq_self (σ : State) (t : Nat) (s : Seq) (ht : t < σ.seqs.length) :
    (σ.setSeq t s).contents t = contentsOf (σ.bufAt s.buf) s.ranges := by
  simp only [contents_def, seqAt_setSeq, setSeq_bufAt, ht, and_self, if_true]

/-! ### copy -/
theorem copyOp_eq (σ : State) (t : Nat) : copyOp σ t = (σ.alloc (copyBuf σ t)).1.addSeq (copySeq σ t).2 := rfl

theorem copyBuf_capOk {σ : State} (h : Inv σ) {t : Nat} (ht : t < σ.seqs.length) :
    (copyBuf σ t).rows.length ≤ (copyBuf σ t).cap := by
  rw [copyBuf_rows_length h ht]; exact Nat.le_refl _

theorem inv_copyOp {σ : State} (h : Inv σ) {t : Nat} (ht : t < σ.seqs.length) : Inv (copyOp σ t) := by
  rw [copyOp_eq, copySeq_snd]
  refine inv_addOwner (inv_alloc h _ (copyBuf_capOk h ht)) _ _ (copy_ownerOK h ht) ?_ _
  intro i s hs
  have := h.bufLt i s hs
  omega

theorem copyOp_contents_new {σ : State} (h : Inv σ) {t : Nat} (ht : t < σ.seqs.length) :
    (copyOp σ t).contents σ.seqs.length = σ.contents t := by
  rw [copyOp_eq, copySeq_snd]
  have := contents_addSeq_new (σ.alloc (copyBuf σ t)).1
    { buf := σ.heap.length, ranges := packRanges 0 ((σ.seqAt t).ranges.map (·.2)), isView := false,
      bufBytes := defaultBufBytes }
  rw [alloc_seqs] at this
  rw [this, alloc_bufAt, if_pos rfl]
  exact copy_contents h ht

theorem copyOp_contents_old {σ : State} (h : Inv σ) (t : Nat) {u : Nat} (hu : u < σ.seqs.length) :
    (copyOp σ t).contents u = σ.contents u := by
  rw [copyOp_eq, contents_addSeq_old _ _ (by rw [alloc_seqs]; exact hu), contents_alloc h _ hu]

/-! ### `_own_data` -/
theorem ownData_view {σ : State} {t : Nat} (hv : (σ.seqAt t).isView = true) :
    ownData σ t = (σ.alloc (copyBuf σ t)).1.setSeq t
      { buf := σ.heap.length, ranges := packRanges 0 ((σ.seqAt t).ranges.map (·.2)), isView := false,
        bufBytes := (σ.seqAt t).bufBytes } := by
  simp only [ownData, hv, if_true, copySeq_fst, copySeq_snd]

theorem ownData_owner {σ : State} {t : Nat} (hv : (σ.seqAt t).isView = false) : ownData σ t = σ := by
  simp [ownData, hv]

theorem inv_ownData {σ : State} (h : Inv σ) {t : Nat} (ht : t < σ.seqs.length) : Inv (ownData σ t) := by
  cases hv : (σ.seqAt t).isView
  · rw [ownData_owner hv]; exact h
  · rw [ownData_view hv]
    refine inv_setOwner (inv_alloc h _ (copyBuf_capOk h ht)) t _ _ (copy_ownerOK h ht) ?_ _
    intro i s hs _
    have := h.bufLt i s hs
    omega

theorem ownData_length (σ : State) (t : Nat) : (ownData σ t).seqs.length = σ.seqs.length := by
  cases hv : (σ.seqAt t).isView
  · rw [ownData_owner hv]
  · rw [ownData_view hv, setSeq_length, alloc_seqs]

theorem ownData_isView {σ : State} {t : Nat} (ht : t < σ.seqs.length) :
    ((ownData σ t).seqAt t).isView = false := by
  cases hv : (σ.seqAt t).isView
  · rw [ownData_owner hv]; exact hv
  · rw [ownData_view hv, seqAt_setSeq, if_pos ⟨rfl, by rw [alloc_seqs]; exact ht⟩]

theorem ownData_contents {σ : State} (h : Inv σ) {t : Nat} (ht : t < σ.seqs.length) {u : Nat}
    (hu : u < σ.seqs.length) : (ownData σ t).contents u = σ.contents u := by
  cases hv : (σ.seqAt t).isView
  · rw [ownData_owner hv]
  · rw [ownData_view hv]
    by_cases hut : u = t
    · subst hut
      rw [contents_setSeq_self _ _ _ (by rw [alloc_seqs]; exact ht), alloc_bufAt, if_pos rfl]
      exact copy_contents h ht
    · rw [contents_setSeq_other _ _ _ hut, contents_alloc h _ hu]

theorem ownData_other (σ : State) (t : Nat) {u : Nat} (hu : u ≠ t) : (ownData σ t).seqAt u = σ.seqAt u := by
  cases hv : (σ.seqAt t).isView
  · rw [ownData_owner hv]
  · rw [ownData_view hv, seqAt_setSeq, if_neg (by omega), seqAt_alloc]
/-! ### views -/
theorem mem_of_filterMap_get {α} {l : List α} {pos : List Nat} {r : α}
    (h : r ∈ pos.filterMap (fun i => l[i]?)) : r ∈ l := by
  simp only [List.mem_filterMap] at h
  obtain ⟨i, _, hi⟩ := h
  exact List.mem_of_getElem? hi

theorem inv_getView {σ : State} (h : Inv σ) {t : Nat} (ht : t < σ.seqs.length) (pos : List Nat) :
    Inv (getView σ t pos) :=
  inv_addView h t ht _ (fun _ hr => mem_of_filterMap_get hr) _

theorem inv_viewCtor {σ : State} (h : Inv σ) {t : Nat} (ht : t < σ.seqs.length) (bb : Nat) :
    Inv (viewCtor σ t bb) :=
  inv_addView h t ht _ (fun _ hr => hr) _

theorem map_filterMap_get {α β} (f : α → β) (l : List α) (pos : List Nat) :
    (pos.filterMap (fun i => l[i]?)).map f = pos.filterMap (fun i => (l.map f)[i]?) := by
  induction pos with
  | nil => rfl
  | cons i is ih =>
    simp only [List.filterMap_cons, List.getElem?_map]
    cases l[i]? <;> simp [ih]

theorem getView_contents_new (σ : State) (t : Nat) (pos : List Nat) :
    (getView σ t pos).contents σ.seqs.length = pos.filterMap (fun i => (σ.contents t)[i]?) := by
  unfold getView
  rw [contents_addSeq_new]
  simp only [contentsOf, contents_def]
  exact map_filterMap_get _ _ _

theorem getView_contents_old (σ : State) (t : Nat) (pos : List Nat) {u : Nat} (hu : u < σ.seqs.length) :
    (getView σ t pos).contents u = σ.contents u := contents_addSeq_old _ _ hu

theorem viewCtor_contents_new (σ : State) (t : Nat) (bb : Nat) :
    (viewCtor σ t bb).contents σ.seqs.length = σ.contents t := by
  unfold viewCtor; rw [contents_addSeq_new]; rfl

theorem viewCtor_contents_old (σ : State) (t : Nat) (bb : Nat) {u : Nat} (hu : u < σ.seqs.length) :
    (viewCtor σ t bb).contents u = σ.contents u := contents_addSeq_old _ _ hu

/-! ### new -/
theorem inv_new {σ : State} (h : Inv σ) (bb : Nat) :
    Inv ((σ.alloc { rows := [], cap := 0, dt := 0 }).1.addSeq
      { buf := σ.heap.length, ranges := [], isView := false, bufBytes := bb }) := by
  refine inv_addOwner (inv_alloc h _ (by simp)) _ _ ?_ ?_ _
  · constructor
    · simp [alloc_heap_length]
    · simp
    · intro r hr; simp at hr
    · intro r hr; simp at hr
    · simp
  · intro i s hs
    have := h.bufLt i s hs
    omega

/-! ### writes into an existing range -/
theorem inv_setRange {σ : State} (h : Inv σ) {t : Nat} (ht : t < σ.seqs.length) {r : Nat × Nat}
    (hr : r ∈ (σ.seqAt t).ranges) {el : Elem} (hl : el.length = r.2) :
    Inv (setRange σ (σ.seqAt t).buf r el) := by
  have hin := h.inb t _ (get_seqAt ht) r hr
  have hlen : ((σ.bufAt (σ.seqAt t).buf).write r.1 el).rows.length = (σ.bufAt (σ.seqAt t).buf).rows.length := by
    rw [write_rows_length _ _ _ (by omega)]; omega
  refine inv_setBuf h _ _ ?_ ?_
  · have := h.capOk _ (h.bufLt t _ (get_seqAt ht))
    rw [hlen]; exact this
  · intro i s hs hb
    rw [hlen, ← hb]
    exact h.inb i s hs

theorem setRange_seqAt (σ : State) (b : Nat) (r : Nat × Nat) (el : Elem) (u : Nat) :
    (setRange σ b r el).seqAt u = σ.seqAt u := rfl

/-- what a write through range `r` of sequence `t` does to every sequence `u`: exactly the
    elements stored at the same place of the same buffer take the new value -/
theorem setRange_contents {σ : State} (h : Inv σ) {t : Nat} (ht : t < σ.seqs.length) {r : Nat × Nat}
    (hr : r ∈ (σ.seqAt t).ranges) {el : Elem} (hl : el.length = r.2) {u : Nat} (hu : u < σ.seqs.length) :
    (setRange σ (σ.seqAt t).buf r el).contents u =
      (σ.seqAt u).ranges.map (fun q =>
        if (σ.seqAt u).buf = (σ.seqAt t).buf ∧ q = r then el
        else (σ.bufAt (σ.seqAt u).buf).slice q.1 q.2) := by
  have hin := h.inb t _ (get_seqAt ht) r hr
  have hblt := h.bufLt t _ (get_seqAt ht)
  simp only [contents_def, contentsOf, setRange_seqAt]
  apply List.map_congr_left
  intro q hq
  simp only [setRange, setBuf_bufAt]
  by_cases hb : (σ.seqAt u).buf = (σ.seqAt t).buf
  · rw [if_pos ⟨hb, hblt⟩]
    have hq_in := h.inb u _ (get_seqAt hu) q hq
    rw [hb] at hq_in
    rcases h.cells u t _ _ (get_seqAt hu) (get_seqAt ht) hb q hq r hr with he | hd | hd
    · subst he
      simp only [hb, and_self, if_true]
      rw [← hl]; exact slice_write_same _ _ _ (by omega)
    · have hne : q ≠ r := by
        intro he; subst he
        have := h.pos t _ (get_seqAt ht) q hr; omega
      simp only [hne, and_false, if_false, hb]
      exact slice_write_below _ _ _ _ _ (by omega) hd
    · have hne : q ≠ r := by
        intro he; subst he
        have := h.pos t _ (get_seqAt ht) q hr; omega
      simp only [hne, and_false, if_false, hb]
      exact slice_write_above _ _ _ _ _ (by omega) (by omega)
  · simp only [hb, false_and, if_false]
theorem le_ceil_mul (n k : Nat) (hk : 0 < k) : n ≤ ((n + k - 1) / k) * k := by
  have h1 := Nat.lt_mul_div_succ (n + k - 1) hk
  rw [Nat.mul_add, Nat.mul_one, Nat.mul_comm] at h1
  omega

theorem seq_with_buf (s : Seq) (id : Nat) (hv : s.isView = false) :
    ({ s with buf := id } : Seq) = { buf := id, ranges := s.ranges, isView := false, bufBytes := s.bufBytes } := by
  cases s; simp_all

/-- owner `t` moves to a fresh buffer holding the first `ext` rows of its old one -/
theorem move_spec {σ : State} (h : Inv σ) {t : Nat} (ht : t < σ.seqs.length)
    (hown : (σ.seqAt t).isView = false) (ext : Nat) (x : Buf)
    (hx : x.rows = (σ.bufAt (σ.seqAt t).buf).rows.take ext) (hcap : x.rows.length ≤ x.cap)
    (hn : nextOffset (σ.seqAt t).ranges ≤ ext) :
    let σ' := (σ.alloc x).1.setSeq t { σ.seqAt t with buf := σ.heap.length }
    Inv σ' ∧ σ'.seqs.length = σ.seqs.length ∧ (σ'.seqAt t).ranges = (σ.seqAt t).ranges ∧
    (σ'.seqAt t).isView = false ∧ (σ'.seqAt t).bufBytes = (σ.seqAt t).bufBytes ∧
    (∀ u, u ≠ t → σ'.seqAt u = σ.seqAt u) ∧
    (∀ u, u < σ.seqs.length → σ'.contents u = σ.contents u) ∧
    (σ'.bufAt (σ'.seqAt t).buf) = x := by
  intro σ'
  have hts := get_seqAt ht
  have htail := h.tail t t _ _ hts hts hown rfl
  have hinb := h.inb t _ hts
  have hσ' : σ' = (σ.alloc x).1.setSeq t
      { buf := σ.heap.length, ranges := (σ.seqAt t).ranges, isView := false, bufBytes := (σ.seqAt t).bufBytes } := by
    simp only [σ', seq_with_buf _ _ hown]
  have ht' : t < (σ.alloc x).1.seqs.length := by rw [alloc_seqs]; exact ht
  refine ⟨?_, ?_, ?_, ?_, ?_, ?_, ?_, ?_⟩
  · rw [hσ']
    refine inv_setOwner (inv_alloc h x hcap) t _ _ ?_ ?_ _
    · constructor
      · simp [alloc_heap_length]
      · exact h.pos t _ hts
      · intro r hr
        rw [alloc_bufAt, if_pos rfl, hx, List.length_take]
        have := htail r hr; have := hinb r hr; omega
      · exact htail
      · exact h.cells t t _ _ hts hts rfl
    · intro i s hs _
      have := h.bufLt i s hs
      omega
  · rw [hσ', setSeq_length, alloc_seqs]
  · rw [hσ', seqAt_setSeq, if_pos ⟨rfl, ht'⟩]
  · rw [hσ', seqAt_setSeq, if_pos ⟨rfl, ht'⟩]
  · rw [hσ', seqAt_setSeq, if_pos ⟨rfl, ht'⟩]
  · intro u hu; rw [hσ', seqAt_setSeq, if_neg (by omega), seqAt_alloc]
  · intro u hu
    by_cases hut : u = t
    · subst hut
      rw [hσ', contents_setSeq_self _ _ _ ht', alloc_bufAt, if_pos rfl]
      simp only [contents_def, contentsOf]
      apply List.map_congr_left
      intro r hr
      have := htail r hr
      simp only [Buf.slice, hx]
      apply List.ext_getElem?
      intro i
      simp only [List.getElem?_take, List.getElem?_drop]
      grind
    · rw [hσ', contents_setSeq_other _ _ _ hut, contents_alloc h _ hu]
  · rw [hσ', seqAt_setSeq, if_pos ⟨rfl, ht'⟩, setSeq_bufAt, alloc_bufAt, if_pos rfl]

/-- the rows of an owner's buffer are cut (or kept) at `ext ≥` its next offset, in place -/
theorem inplace_resize_spec {σ : State} (h : Inv σ) {t : Nat} (ht : t < σ.seqs.length)
    (hown : (σ.seqAt t).isView = false) (ext : Nat)
    (hn : nextOffset (σ.seqAt t).ranges ≤ ext) :
    let σ' := σ.setBuf (σ.seqAt t).buf ((σ.bufAt (σ.seqAt t).buf).resize ext)
    Inv σ' ∧ (∀ u, u < σ.seqs.length → σ'.contents u = σ.contents u) ∧
    (σ'.bufAt (σ.seqAt t).buf).cap = ext := by
  intro σ'
  have hts := get_seqAt ht
  have hblt := h.bufLt t _ hts
  refine ⟨?_, ?_, ?_⟩
  · refine inv_setBuf h _ _ (by simp [Buf.resize]; omega) ?_
    intro i s hs hb r hr
    have h1 := h.tail t i _ s hts hs hown hb r hr
    have h2 := h.inb i s hs r hr
    rw [hb] at h2
    simp only [Buf.resize, List.length_take]; omega
  · intro u hu
    refine contents_congr (σ := σ) (σ' := σ') (u := u) rfl ?_
    intro r hr
    simp only [σ', seqAt_setBuf, setBuf_bufAt]
    split
    · rename_i hc
      have h1 := h.tail t u _ _ hts (get_seqAt hu) hown hc.1 r hr
      rw [hc.1]; exact slice_resize _ _ _ _ (by omega)
    · rfl
  · simp only [σ', setBuf_bufAt, hblt, and_self, if_true, Buf.resize]

theorem resize_spec {σ : State} (h : Inv σ) {t : Nat} (ht : t < σ.seqs.length)
    (hown : (σ.seqAt t).isView = false) (nRows : Nat) (c : Cache) (hrpb : 0 < c.rpb)
    (hn : nextOffset (σ.seqAt t).ranges ≤ nRows) :
    Inv (resizeDataTo σ t nRows c) ∧ (resizeDataTo σ t nRows c).seqs.length = σ.seqs.length ∧
    ((resizeDataTo σ t nRows c).seqAt t).ranges = (σ.seqAt t).ranges ∧
    ((resizeDataTo σ t nRows c).seqAt t).isView = false ∧
    ((resizeDataTo σ t nRows c).seqAt t).bufBytes = (σ.seqAt t).bufBytes ∧
    (∀ u, u ≠ t → (resizeDataTo σ t nRows c).seqAt u = σ.seqAt u) ∧
    (∀ u, u < σ.seqs.length → (resizeDataTo σ t nRows c).contents u = σ.contents u) ∧
    nRows ≤ ((resizeDataTo σ t nRows c).bufAt ((resizeDataTo σ t nRows c).seqAt t).buf).cap := by
  have hext := le_ceil_mul nRows c.rpb hrpb
  have hts := get_seqAt ht
  unfold resizeDataTo
  simp only
  split
  · -- `_data.size == 0`: np.empty
    rename_i hc
    have hc0 : (σ.bufAt (σ.seqAt t).buf).cap = 0 := by simpa using hc
    have hrows : (σ.bufAt (σ.seqAt t).buf).rows = [] := by
      have := h.capOk _ (h.bufLt t _ hts)
      rw [hc0] at this
      exact List.eq_nil_of_length_eq_zero (by omega)
    have := move_spec h ht hown ((nRows + c.rpb - 1) / c.rpb * c.rpb)
      { rows := [], cap := (nRows + c.rpb - 1) / c.rpb * c.rpb, dt := c.dt } (by simp [hrows]) (by simp)
      (by omega)
    simp only [alloc_id] at this ⊢
    obtain ⟨a1, a2, a3, a4, a5, a6, a7, a8⟩ := this
    exact ⟨a1, a2, a3, a4, a5, a6, a7, by rw [a8]; exact hext⟩
  · split
    · rename_i _ he
      have he' : (nRows + c.rpb - 1) / c.rpb * c.rpb = (σ.bufAt (σ.seqAt t).buf).cap := by simpa using he
      exact ⟨h, rfl, rfl, hown, rfl, fun _ _ => rfl, fun _ _ => rfl, by omega⟩
    · split
      · have := move_spec h ht hown ((nRows + c.rpb - 1) / c.rpb * c.rpb)
          ((σ.bufAt (σ.seqAt t).buf).resize ((nRows + c.rpb - 1) / c.rpb * c.rpb)) (by simp [Buf.resize])
          (by simp [Buf.resize]; omega) (by omega)
        simp only [alloc_id] at this ⊢
        obtain ⟨a1, a2, a3, a4, a5, a6, a7, a8⟩ := this
        exact ⟨a1, a2, a3, a4, a5, a6, a7, by rw [a8]; simp only [Buf.resize]; exact hext⟩
      · have := inplace_resize_spec h ht hown ((nRows + c.rpb - 1) / c.rpb * c.rpb) (by omega)
        obtain ⟨a1, a2, a3⟩ := this
        refine ⟨a1, ?_, rfl, hown, rfl, fun _ _ => rfl, a2, ?_⟩
        · simp [setBuf_seqs]
        · simp only [seqAt_setBuf]; rw [a3]; exact hext
/-- what is known after the `if self._data.shape[0] < req_rows: self._resize_data_to(...)` of `append` -/
theorem ensure_spec {σ : State} (h : Inv σ) {t : Nat} (ht : t < σ.seqs.length)
    (hown : (σ.seqAt t).isView = false) (req : Nat) (c : Cache) (hrpb : 0 < c.rpb)
    (hn : nextOffset (σ.seqAt t).ranges ≤ req) :
    let σ1 := if (σ.bufAt (σ.seqAt t).buf).cap < req then resizeDataTo σ t req c else σ
    Inv σ1 ∧ σ1.seqs.length = σ.seqs.length ∧ (σ1.seqAt t).ranges = (σ.seqAt t).ranges ∧
    (σ1.seqAt t).isView = false ∧ (σ1.seqAt t).bufBytes = (σ.seqAt t).bufBytes ∧
    (∀ u, u ≠ t → σ1.seqAt u = σ.seqAt u) ∧
    (∀ u, u < σ.seqs.length → σ1.contents u = σ.contents u) ∧
    req ≤ (σ1.bufAt (σ1.seqAt t).buf).cap := by
  intro σ1
  by_cases hc : (σ.bufAt (σ.seqAt t).buf).cap < req
  · simp only [σ1, hc, if_true]
    exact resize_spec h ht hown req c hrpb hn
  · have e : σ1 = σ := if_neg hc
    rw [e]
    exact ⟨h, rfl, rfl, hown, rfl, fun _ _ => rfl, fun _ _ => rfl, by omega⟩

/-- rows written at the owner's next offset + the range pushed: one list append -/
theorem write_push_spec {σ : State} (h : Inv σ) {t : Nat} (ht : t < σ.seqs.length)
    (hown : (σ.seqAt t).isView = false) (el : Elem) (hel : 0 < el.length)
    (hcap : nextOffset (σ.seqAt t).ranges + el.length ≤ (σ.bufAt (σ.seqAt t).buf).cap) :
    let nx := nextOffset (σ.seqAt t).ranges
    let σ2 := σ.setBuf (σ.seqAt t).buf ((σ.bufAt (σ.seqAt t).buf).write nx el)
    let σ' := σ2.setSeq t { σ.seqAt t with ranges := (σ.seqAt t).ranges ++ [(nx, el.length)] }
    Inv σ' ∧ σ'.contents t = σ.contents t ++ [el] ∧
    (∀ u, u ≠ t → u < σ.seqs.length → σ'.contents u = σ.contents u) := by
  intro nx σ2 σ'
  have hts := get_seqAt ht
  have hblt := h.bufLt t _ hts
  have hnx : nx ≤ (σ.bufAt (σ.seqAt t).buf).rows.length := nextOffset_le (h.inb t _ hts)
  have hlen := write_rows_length (σ.bufAt (σ.seqAt t).buf) nx el hnx
  have hbuf2 : σ2.bufAt (σ.seqAt t).buf = (σ.bufAt (σ.seqAt t).buf).write nx el := by
    simp only [σ2, setBuf_bufAt, hblt, and_self, if_true]
  have h2 : Inv σ2 := by
    refine inv_setBuf h _ _ ?_ ?_
    · have := h.capOk _ hblt
      rw [hlen]; simp only [Buf.write]; omega
    · intro i s hs hb r hr
      have := h.inb i s hs r hr
      rw [hb] at this; rw [hlen]; omega
  have hc2 : ∀ u, u < σ.seqs.length → σ2.contents u = σ.contents u := by
    intro u hu
    refine contents_congr (σ := σ) (σ' := σ2) (u := u) rfl ?_
    intro r hr
    simp only [σ2, seqAt_setBuf, setBuf_bufAt]
    split
    · rename_i hc
      have h1 := h.tail t u _ _ hts (get_seqAt hu) hown hc.1 r hr
      rw [hc.1]; exact slice_write_below _ _ _ _ _ hnx h1
    · rfl
  have ht2 : t < σ2.seqs.length := ht
  have hpush := inv_push h2 t ht2 hown el.length hel (by
    show nextOffset (σ.seqAt t).ranges + el.length ≤ (σ2.bufAt (σ.seqAt t).buf).rows.length
    rw [hbuf2, hlen]; omega)
  refine ⟨hpush, ?_, ?_⟩
  · simp only [σ']
    rw [contents_setSeq_self _ _ _ ht2]
    simp only [contentsOf, List.map_append, List.map_cons, List.map_nil]
    congr 1
    · exact hc2 t ht
    · show [(σ2.bufAt (σ.seqAt t).buf).slice nx el.length] = [el]
      rw [hbuf2, slice_write_same _ _ _ hnx]
  · intro u hut hu
    simp only [σ']
    rw [contents_setSeq_other _ _ _ hut]; exact hc2 u hu

theorem updateSeq_eq (σ : State) (t : Nat) (c : Cache) :
    updateSeq σ t c = σ.setSeq t { σ.seqAt t with ranges := c.ranges } := rfl

/-- one `append` step whose cache agrees with the sequence (one-shot append; each step of a cached
    build seen through `update_seq`) -/
theorem grow_spec {σ : State} (h : Inv σ) {t : Nat} (ht : t < σ.seqs.length)
    (hown : (σ.seqAt t).isView = false) (el : Elem) (hel : 0 < el.length) (c : Cache) (hrpb : 0 < c.rpb)
    (hcr : c.ranges = (σ.seqAt t).ranges) (hcn : c.next = nextOffset (σ.seqAt t).ranges) :
    let r := appendCore σ t el c
    let σ' := updateSeq r.1 t r.2
    Inv σ' ∧ σ'.seqs.length = σ.seqs.length ∧ (σ'.seqAt t).isView = false ∧
    (σ'.seqAt t).bufBytes = (σ.seqAt t).bufBytes ∧ (∀ u, u ≠ t → σ'.seqAt u = σ.seqAt u) ∧
    σ'.contents t = σ.contents t ++ [el] ∧
    (∀ u, u ≠ t → u < σ.seqs.length → σ'.contents u = σ.contents u) ∧
    r.2.ranges = (σ'.seqAt t).ranges ∧ r.2.next = nextOffset (σ'.seqAt t).ranges ∧ r.2.rpb = c.rpb := by
  intro r σ'
  have hts := get_seqAt ht
  obtain ⟨i1, l1, r1, v1, bb1, o1, c1, cap1⟩ :=
    ensure_spec h ht hown (c.next + el.length) c hrpb (by omega)
  generalize hσ1 : (if (σ.bufAt (σ.seqAt t).buf).cap < c.next + el.length
      then resizeDataTo σ t (c.next + el.length) c else σ) = σ1 at i1 l1 r1 v1 bb1 o1 c1 cap1
  have ht1 : t < σ1.seqs.length := by omega
  have hnx : c.next = nextOffset (σ1.seqAt t).ranges := by rw [r1]; exact hcn
  obtain ⟨w1, w2, w3⟩ := write_push_spec i1 ht1 v1 el hel (by rw [← hnx]; exact cap1)
  have hσ' : σ' = (σ1.setBuf (σ1.seqAt t).buf ((σ1.bufAt (σ1.seqAt t).buf).write
      (nextOffset (σ1.seqAt t).ranges) el)).setSeq t
        { σ1.seqAt t with ranges := (σ1.seqAt t).ranges ++ [(nextOffset (σ1.seqAt t).ranges, el.length)] } := by
    simp only [σ', r, appendCore, updateSeq_eq, hσ1]
    rw [hnx, hcr, ← r1]
    rfl
  have hlen' : σ'.seqs.length = σ.seqs.length := by
    rw [hσ', setSeq_length, setBuf_seqs]; exact l1
  have hsq : σ'.seqAt t = { σ1.seqAt t with
      ranges := (σ1.seqAt t).ranges ++ [(nextOffset (σ1.seqAt t).ranges, el.length)] } := by
    rw [hσ', seqAt_setSeq, if_pos ⟨rfl, ht1⟩]
  have hpos : ∀ q ∈ (σ1.seqAt t).ranges, q.1 < nextOffset (σ1.seqAt t).ranges := by
    intro q hq
    have a := i1.tail t t _ _ (get_seqAt ht1) (get_seqAt ht1) v1 rfl q hq
    have b := i1.pos t _ (get_seqAt ht1) q hq
    omega
  refine ⟨hσ' ▸ w1, hlen', ?_, ?_, ?_, ?_, ?_, ?_, ?_, rfl⟩
  · rw [hsq]; exact v1
  · rw [hsq]; exact bb1
  · intro u hu
    rw [hσ', seqAt_setSeq, if_neg (by omega), seqAt_setBuf]; exact o1 u hu
  · rw [hσ', w2, c1 t ht]
  · intro u hut hu
    rw [hσ', w3 u hut (by omega), c1 u hu]
  · rw [hsq]; simp only [r, appendCore]; rw [hcr, r1, hcn]
  · rw [hsq]; simp only [r, appendCore]
    rw [nextOffset_push _ _ _ hpos, hnx]
theorem isEmpty_false_length {el : Elem} (h : el.isEmpty = false) : 0 < el.length := by
  cases el with
  | nil => simp at h
  | cons a b => simp

/-- one-shot `append` -/
theorem append_spec {σ : State} (h : Inv σ) {t : Nat} (ht : t < σ.seqs.length) (el : Elem) (w dt : Nat) :
    Inv (append σ t el w dt) ∧ (append σ t el w dt).seqs.length = σ.seqs.length ∧
    (append σ t el w dt).contents t = σ.contents t ++ (if el.isEmpty then [] else [el]) ∧
    (∀ u, u ≠ t → u < σ.seqs.length → (append σ t el w dt).contents u = σ.contents u) := by
  unfold append
  cases he : el.isEmpty
  · simp only [Bool.false_eq_true, if_false]
    have h0 := inv_ownData h ht
    have ht0 : t < (ownData σ t).seqs.length := by rw [ownData_length]; exact ht
    have g := grow_spec h0 ht0 (ownData_isView ht) el (isEmpty_false_length he)
      (mkCache (ownData σ t) t w dt) (by simp only [mkCache]; omega) rfl rfl
    obtain ⟨g1, g2, _, _, _, g6, g7, _⟩ := g
    refine ⟨g1, by rw [g2, ownData_length], ?_, ?_⟩
    · rw [g6, ownData_contents h ht ht]
    · intro u hut hu
      rw [g7 u hut (by rw [ownData_length]; exact hu), ownData_contents h ht hu]
  · simp only [if_true, List.append_nil]
    exact ⟨h, trivial, trivial, fun _ _ _ => trivial⟩

/-- a loop of writes into ranges of sequence `t` keeps the invariant and every sequence object -/
theorem opLoop_inplace_inv (f : Elem → Elem) (hf : ∀ e, (f e).length = e.length) {t : Nat}
    (rs : List (Nat × Nat)) : ∀ {σ : State}, Inv σ → t < σ.seqs.length →
    (∀ r ∈ rs, r ∈ (σ.seqAt t).ranges) →
    Inv (opLoop f σ (σ.seqAt t).buf (σ.seqAt t).buf rs rs) ∧
    (opLoop f σ (σ.seqAt t).buf (σ.seqAt t).buf rs rs).seqs = σ.seqs := by
  induction rs with
  | nil => intro σ h _ _; exact ⟨h, rfl⟩
  | cons r rs ih =>
    intro σ h ht hr
    simp only [opLoop]
    have hr0 := hr r (by simp)
    have hin := h.inb t _ (get_seqAt ht) r hr0
    have hl : (f ((σ.bufAt (σ.seqAt t).buf).slice r.1 r.2)).length = r.2 := by
      rw [hf, slice_length _ _ _ hin]
    have h1 := inv_setRange h ht hr0 hl
    have := ih (σ := setRange σ (σ.seqAt t).buf r (f ((σ.bufAt (σ.seqAt t).buf).slice r.1 r.2))) h1 ht
      (fun q hq => hr q (by simp [hq]))
    exact this

theorem arith_length (code : Nat) (k : Int) (e : Elem) : (arith code k e).length = e.length := by
  simp [arith]

theorem inv_iop {σ : State} (h : Inv σ) {t : Nat} (ht : t < σ.seqs.length) (code : Nat) (k : Int)
    {σ' : State} (hs : iop (arith code k) σ t = some σ') : Inv σ' ∧ σ'.seqs = σ.seqs := by
  unfold iop at hs
  simp only at hs
  split at hs
  · cases hs
  · cases hs
    exact opLoop_inplace_inv _ (arith_length code k) _ h ht (fun _ hr => hr)

theorem setMany_inv {t : Nat} (rs : List (Nat × Nat)) : ∀ (els : List Elem) {σ : State}, Inv σ →
    t < σ.seqs.length → (∀ r ∈ rs, r ∈ (σ.seqAt t).ranges) → sizesMatch rs els = true →
    Inv (setMany σ (σ.seqAt t).buf rs els) ∧ (setMany σ (σ.seqAt t).buf rs els).seqs = σ.seqs := by
  induction rs with
  | nil => intro els σ h _ _ _; cases els <;> exact ⟨h, rfl⟩
  | cons r rs ih =>
    intro els σ h ht hr hm
    cases els with
    | nil => exact ⟨h, rfl⟩
    | cons e es =>
      simp only [setMany]
      simp only [sizesMatch, List.length_cons, List.zip_cons_cons, List.all_cons, Bool.and_eq_true,
        beq_iff_eq, Nat.add_right_cancel_iff] at hm
      have h1 := inv_setRange h ht (hr r (by simp)) hm.2.1.symm
      exact ih es (σ := setRange σ (σ.seqAt t).buf r e) h1 ht (fun q hq => hr q (by simp [hq]))
        (by simp only [sizesMatch, Bool.and_eq_true, beq_iff_eq]; exact ⟨hm.1, hm.2.2⟩)
theorem opLoop_frame (f : Elem → Elem) (bid : Nat) (rs : List (Nat × Nat)) : ∀ (σ : State),
    (opLoop f σ bid bid rs rs).seqs = σ.seqs ∧ (opLoop f σ bid bid rs rs).heap.length = σ.heap.length ∧
    ∀ b', b' ≠ bid → (opLoop f σ bid bid rs rs).bufAt b' = σ.bufAt b' := by
  induction rs with
  | nil => intro σ; exact ⟨rfl, rfl, fun _ _ => rfl⟩
  | cons r rs ih =>
    intro σ
    simp only [opLoop]
    obtain ⟨a, b, c⟩ := ih (setRange σ bid r (f ((σ.bufAt bid).slice r.1 r.2)))
    refine ⟨a, by rw [b]; simp [setRange, setBuf_heap_length], ?_⟩
    intro b' hb'
    rw [c b' hb']
    simp only [setRange, setBuf_bufAt]
    rw [if_neg (by omega)]

/-- the in-place loop of `_op`: a range `q` of the buffer that is equal to or disjoint from every
    range written gets `f` applied exactly when it is one of them -/
theorem opLoop_slice (f : Elem → Elem) (hf : ∀ e, (f e).length = e.length) (bid : Nat)
    (rs : List (Nat × Nat)) : ∀ (σ : State), bid < σ.heap.length → rs.Nodup →
    (∀ r ∈ rs, r.1 + r.2 ≤ (σ.bufAt bid).rows.length ∧ 0 < r.2) →
    (∀ r ∈ rs, ∀ r' ∈ rs, eqOrDisj r r') →
    ∀ (q : Nat × Nat), q.1 + q.2 ≤ (σ.bufAt bid).rows.length → 0 < q.2 → (∀ r ∈ rs, eqOrDisj q r) →
    ((opLoop f σ bid bid rs rs).bufAt bid).slice q.1 q.2 =
      if q ∈ rs then f ((σ.bufAt bid).slice q.1 q.2) else (σ.bufAt bid).slice q.1 q.2 := by
  induction rs with
  | nil => intro σ _ _ _ _ q _ _ _; simp [opLoop]
  | cons r rs ih =>
    intro σ hb hnd hin hcell q hq hqp hqc
    simp only [opLoop]
    have hrin := hin r (by simp)
    have hnd' := List.nodup_cons.mp hnd
    let el := f ((σ.bufAt bid).slice r.1 r.2)
    have hel : el.length = r.2 := by simp only [el]; rw [hf, slice_length _ _ _ hrin.1]
    let σ1 := setRange σ bid r el
    have hb1 : σ1.bufAt bid = (σ.bufAt bid).write r.1 el := by
      simp only [σ1, setRange, setBuf_bufAt, hb, and_self, if_true]
    have hlen1 : (σ1.bufAt bid).rows.length = (σ.bufAt bid).rows.length := by
      rw [hb1, write_rows_length _ _ _ (by omega)]; omega
    have hheap1 : bid < σ1.heap.length := by simp only [σ1, setRange, setBuf_heap_length]; exact hb
    have ih' := ih σ1 hheap1 hnd'.2
      (fun x hx => by rw [hlen1]; exact hin x (by simp [hx]))
      (fun x hx y hy => hcell x (by simp [hx]) y (by simp [hy]))
      q (by rw [hlen1]; exact hq) hqp (fun x hx => hqc x (by simp [hx]))
    show ((opLoop f σ1 bid bid rs rs).bufAt bid).slice q.1 q.2 = _
    rw [ih']
    by_cases hqr : q = r
    · subst hqr
      have hnot : q ∉ rs := hnd'.1
      simp only [hnot, if_false, List.mem_cons, true_or, if_true]
      rw [hb1]
      have := slice_write_same (σ.bufAt bid) q.1 el (by omega)
      rw [hel] at this; exact this
    · have hdis : q.1 + q.2 ≤ r.1 ∨ r.1 + r.2 ≤ q.1 := by
        rcases hqc r (by simp) with h | h | h
        · exact absurd h hqr
        · exact Or.inl h
        · exact Or.inr h
      have hsame : (σ1.bufAt bid).slice q.1 q.2 = (σ.bufAt bid).slice q.1 q.2 := by
        rw [hb1]
        rcases hdis with h | h
        · exact slice_write_below _ _ _ _ _ (by omega) h
        · exact slice_write_above _ _ _ _ _ (by omega) (by omega)
      simp only [List.mem_cons, hqr, false_or, hsame]
end Nb.C15
