import NibabelModel.Model.C05
import NibabelModel.Lemmas.PySlice
/-! Lemmas/C05 — helper definitions and lemmas for Props/C05 (core Lean only). -/
namespace Nb.C05
open Nb Nb.C06

/-! ### multi-indices -/

theorem mem_allIdx_cons {n : Nat} {ns : List Nat} {j : List Nat} :
    j ∈ allIdx (n :: ns) ↔ ∃ i r, i < n ∧ r ∈ allIdx ns ∧ j = i :: r := by
  simp only [allIdx, List.mem_flatMap, List.mem_range, List.mem_map]
  constructor
  · rintro ⟨i, hi, r, hr, rfl⟩; exact ⟨i, r, hi, hr, rfl⟩
  · rintro ⟨i, r, hi, hr, rfl⟩; exact ⟨i, hi, r, hr, rfl⟩

/-! ### affine algebra -/

open Lean.Grind in
theorem comp_apply_ring {R : Type} [CommRing R] (A B : Aff R) (x y z : R) :
    (A.comp B).apply x y z =
      A.apply (B.apply x y z).1 (B.apply x y z).2.1 (B.apply x y z).2.2 := by
  simp only [Aff.comp, Aff.apply, Row.comp, Row.apply]
  refine Prod.ext ?_ (Prod.ext ?_ ?_) <;> simp only <;> grind

open Lean.Grind in
theorem scaleShift_apply_ring' {R : Type} [CommRing R] (A : Aff R) (p0 p1 p2 s0 s1 s2 x y z : R) :
    (A.comp (scaleShift p0 p1 p2 s0 s1 s2)).apply x y z =
      A.apply (s0 + p0 * x) (s1 + p1 * y) (s2 + p2 * z) := by
  simp only [Aff.comp, Aff.apply, Row.comp, Row.apply, scaleShift]
  refine Prod.ext ?_ (Prod.ext ?_ ?_) <;> simp only <;> grind

theorem scaleShift_apply_int (A : Aff Int) (p0 p1 p2 s0 s1 s2 x y z : Int) :
    (A.comp (scaleShift p0 p1 p2 s0 s1 s2)).apply x y z =
      A.apply (s0 + p0 * x) (s1 + p1 * y) (s2 + p2 * z) := scaleShift_apply_ring' A ..

/-! ### one sliced axis -/

/-- the `j`-th element selected by slice `s` on an axis of length `n` is `start + step*j`, where
    `(start, _, step) = s.indices(n)` — exactly the 1-D map `slice_affine` puts into the affine -/
theorem slice_axis_src' (s : PySlice) (n : Nat) (hv : s.Valid) (j : Nat) (hj : j < s.len n) :
    (((s.sel n).getD j 0 : Nat) : Int) = (s.indices n).1 + (s.indices n).2.2 * (j : Int) ∧
      (s.sel n).getD j 0 < n := by
  have hl : j < (s.sel n).length := by rw [PySlice.sel_length]; exact hj
  have hb := PySlice.rangeInts_mem_bounds s n hv j hj
  rw [List.getD_eq_getElem?_getD, List.getElem?_eq_getElem hl, Option.getD_some, PySlice.sel_getElem,
    PySlice.indices_step]
  have : (s.indices n).1 + s.stepVal * (j : Int) = (s.indices n).1 + (j : Int) * s.stepVal := by
    rw [Int.mul_comm]
  rw [this]
  omega

theorem valid_of_not_zeroStep (s : PySlice) (h : itemZeroStep (.slice s) = false) : s.Valid := by
  unfold itemZeroStep at h
  unfold PySlice.Valid PySlice.stepVal
  cases hs : s.step with
  | none => simp
  | some v =>
    simp only [hs, beq_eq_false_iff_ne, ne_eq, Option.some.injEq] at h
    simpa using h

/-! ### orientations of three axes -/

def perms3 : List (List Nat) := [[0, 1, 2], [0, 2, 1], [1, 0, 2], [1, 2, 0], [2, 0, 1], [2, 1, 0]]

/-- index along a flipped (`f = -1`) or unflipped axis of length `n` -/
def flipIdx (n : Nat) (f : Int) (x : Nat) : Nat := if f = -1 then n - 1 - x else x

/-- `o` is one of the 48 signed permutations (Boolean form, see `allOrnts3_isOrnt3`) -/
def isOrnt3 : Ornt → Bool
  | [(a0, f0), (a1, f1), (a2, f2)] =>
      decide ([a0, a1, a2] ∈ perms3) && (f0 == 1 || f0 == -1) && (f1 == 1 || f1 == -1) && (f2 == 1 || f2 == -1)
  | _ => false

theorem allOrnts3_isOrnt3 : ∀ o ∈ allOrnts3, isOrnt3 o = true := by decide

theorem isOrnt3_elim {o : Ornt} (h : isOrnt3 o = true) :
    ∃ a0 a1 a2 f0 f1 f2, o = [(a0, f0), (a1, f1), (a2, f2)] ∧ [a0, a1, a2] ∈ perms3 ∧
      (f0 = 1 ∨ f0 = -1) ∧ (f1 = 1 ∨ f1 = -1) ∧ (f2 = 1 ∨ f2 = -1) := by
  match o, h with
  | [(a0, f0), (a1, f1), (a2, f2)], h =>
    simp only [isOrnt3, Bool.and_eq_true, decide_eq_true_eq, Bool.or_eq_true, beq_iff_eq] at h
    exact ⟨a0, a1, a2, f0, f1, f2, rfl, h.1.1.1, h.1.1.2, h.1.2, h.2⟩

theorem mem_allOrnts3_elim {o : Ornt} (h : o ∈ allOrnts3) :
    ∃ a0 a1 a2 f0 f1 f2, o = [(a0, f0), (a1, f1), (a2, f2)] ∧ [a0, a1, a2] ∈ perms3 ∧
      (f0 = 1 ∨ f0 = -1) ∧ (f1 = 1 ∨ f1 = -1) ∧ (f2 = 1 ∨ f2 = -1) :=
  isOrnt3_elim (allOrnts3_isOrnt3 o h)

theorem argsort_perms3 :
    argsort [0, 1, 2] = [0, 1, 2] ∧ argsort [0, 2, 1] = [0, 2, 1] ∧ argsort [1, 0, 2] = [1, 0, 2] ∧
    argsort [1, 2, 0] = [2, 0, 1] ∧ argsort [2, 0, 1] = [1, 2, 0] ∧ argsort [2, 1, 0] = [2, 1, 0] := by
  decide

theorem perms3_lt {a0 a1 a2 : Nat} (hp : [a0, a1, a2] ∈ perms3) : a0 < 3 ∧ a1 < 3 ∧ a2 < 3 := by
  simp only [perms3, List.mem_cons, List.cons.injEq, and_true, List.not_mem_nil, or_false] at hp
  omega

/-- the gather of `apply_orientation` for a signed permutation of the first three axes:
    old axis `i` is new axis `a_i`, reversed when `f_i = -1`; the other axes are untouched -/
theorem applyOrnt_char (a0 a1 a2 : Nat) (f0 f1 f2 : Int) (hp : [a0, a1, a2] ∈ perms3)
    (n0 n1 n2 : Nat) (nr : List Nat) (j : List Nat)
    (hj : j ∈ allIdx (applyOrntShape (n0 :: n1 :: n2 :: nr) [(a0, f0), (a1, f1), (a2, f2)])) :
    ∃ j0 j1 j2 jr, j = j0 :: j1 :: j2 :: jr ∧ jr ∈ allIdx nr ∧
      [j0, j1, j2].getD a0 0 < n0 ∧ [j0, j1, j2].getD a1 0 < n1 ∧ [j0, j1, j2].getD a2 0 < n2 ∧
      applyOrntSrc (n0 :: n1 :: n2 :: nr) [(a0, f0), (a1, f1), (a2, f2)] j =
        flipIdx n0 f0 ([j0, j1, j2].getD a0 0) :: flipIdx n1 f1 ([j0, j1, j2].getD a1 0) ::
          flipIdx n2 f2 ([j0, j1, j2].getD a2 0) :: jr := by
  obtain ⟨h0, h1, h2, h3, h4, h5⟩ := argsort_perms3
  simp only [perms3, List.mem_cons, List.cons.injEq, and_true, List.not_mem_nil, or_false] at hp
  rcases hp with ⟨rfl, rfl, rfl⟩ | ⟨rfl, rfl, rfl⟩ | ⟨rfl, rfl, rfl⟩ | ⟨rfl, rfl, rfl⟩ | ⟨rfl, rfl, rfl⟩ |
    ⟨rfl, rfl, rfl⟩ <;>
  · simp only [applyOrntShape, List.map, h0, h1, h2, h3, h4, h5, List.length_cons, List.length_nil, List.drop,
      List.getD_cons_zero, List.getD_cons_succ, List.cons_append, List.nil_append] at hj
    obtain ⟨j0, r0, hj0, hr0, rfl⟩ := mem_allIdx_cons.mp hj
    obtain ⟨j1, r1, hj1, hr1, rfl⟩ := mem_allIdx_cons.mp hr0
    obtain ⟨j2, r2, hj2, hr2, rfl⟩ := mem_allIdx_cons.mp hr1
    refine ⟨j0, j1, j2, r2, rfl, hr2, ?_, ?_, ?_, ?_⟩
    all_goals first
      | (simp only [List.getD_cons_zero, List.getD_cons_succ]; assumption)
      | simp [applyOrntSrc, h0, h1, h2, h3, h4, h5, flipIdx, List.range, List.range.loop, List.idxOf,
          List.findIdx, List.findIdx.go]

/-- shape of the reoriented array: new axis `a_i` has the length of old axis `i` -/
theorem applyOrntShape_getD (a0 a1 a2 : Nat) (f0 f1 f2 : Int) (hp : [a0, a1, a2] ∈ perms3)
    (n0 n1 n2 : Nat) (nr : List Nat) :
    (applyOrntShape (n0 :: n1 :: n2 :: nr) [(a0, f0), (a1, f1), (a2, f2)]).getD a0 0 = n0 ∧
    (applyOrntShape (n0 :: n1 :: n2 :: nr) [(a0, f0), (a1, f1), (a2, f2)]).getD a1 0 = n1 ∧
    (applyOrntShape (n0 :: n1 :: n2 :: nr) [(a0, f0), (a1, f1), (a2, f2)]).getD a2 0 = n2 ∧
    (applyOrntShape (n0 :: n1 :: n2 :: nr) [(a0, f0), (a1, f1), (a2, f2)]).drop 3 = nr := by
  obtain ⟨h0, h1, h2, h3, h4, h5⟩ := argsort_perms3
  simp only [perms3, List.mem_cons, List.cons.injEq, and_true, List.not_mem_nil, or_false] at hp
  rcases hp with ⟨rfl, rfl, rfl⟩ | ⟨rfl, rfl, rfl⟩ | ⟨rfl, rfl, rfl⟩ | ⟨rfl, rfl, rfl⟩ | ⟨rfl, rfl, rfl⟩ |
    ⟨rfl, rfl, rfl⟩ <;>
  simp [applyOrntShape, h0, h1, h2, h3, h4, h5]

theorem unitRow_apply (k : Nat) (hk : k < 3) (x y z : Int) :
    (unitRow k).apply x y z = [x, y, z].getD k 0 := by
  have : k = 0 ∨ k = 1 ∨ k = 2 := by omega
  rcases this with rfl | rfl | rfl <;> simp [unitRow, Row.apply]

theorem getD_cast3 (k : Nat) (hk : k < 3) (x y z : Nat) :
    [(x : Int), (y : Int), (z : Int)].getD k 0 = (([x, y, z].getD k 0 : Nat) : Int) := by
  have : k = 0 ∨ k = 1 ∨ k = 2 := by omega
  rcases this with rfl | rfl | rfl <;> simp

/-- the 1-D map of `undo_flip`: `f*x + (f*c - c)`, `c = -(n-1)/2`, is `x` or `n-1-x` -/
theorem flipTrans_apply (n : Nat) (f : Int) (hf : f = 1 ∨ f = -1) (x : Nat) (hx : x < n) :
    f * (x : Int) + flipTrans n f = ((flipIdx n f x : Nat) : Int) := by
  rcases hf with rfl | rfl <;> simp only [flipTrans, flipIdx] <;> simp <;> omega

/-- `inv_ornt_aff(ornt, shape)` applied to an output voxel -/
theorem invOrntAff_apply (a0 a1 a2 : Nat) (f0 f1 f2 : Int) (h0 : a0 < 3) (h1 : a1 < 3) (h2 : a2 < 3)
    (n0 n1 n2 : Nat) (nr : List Nat) (x y z : Int) :
    ∃ inv, invOrntAff [(a0, f0), (a1, f1), (a2, f2)] (n0 :: n1 :: n2 :: nr) = some inv ∧
      inv.apply x y z = (f0 * [x, y, z].getD a0 0 + flipTrans n0 f0,
                         f1 * [x, y, z].getD a1 0 + flipTrans n1 f1,
                         f2 * [x, y, z].getD a2 0 + flipTrans n2 f2) := by
  refine ⟨_, rfl, ?_⟩
  rw [comp_apply_ring]
  have u0 := unitRow_apply a0 h0 x y z
  have u1 := unitRow_apply a1 h1 x y z
  have u2 := unitRow_apply a2 h2 x y z
  simp only [Row.apply] at u0 u1 u2
  simp only [Aff.apply, scaleShift, Row.apply, u0, u1, u2]
  simp


theorem flipIdx_inj (n : Nat) (f : Int) (x y : Nat) (hx : x < n) (hy : y < n)
    (h : flipIdx n f x = flipIdx n f y) : x = y := by
  unfold flipIdx at h; split at h <;> omega

theorem getD_cons3 (k : Nat) (hk : k < 3) (x y z : Nat) (r : List Nat) :
    (x :: y :: z :: r).getD k 0 = [x, y, z].getD k 0 := by
  have : k = 0 ∨ k = 1 ∨ k = 2 := by omega
  rcases this with rfl | rfl | rfl <;> simp

instance instDecEqExcept {ε α : Type} [DecidableEq ε] [DecidableEq α] : DecidableEq (Except ε α) := fun a b =>
  match a, b with
  | .ok x, .ok y => if h : x = y then isTrue (by rw [h]) else isFalse (fun e => h (Except.ok.inj e))
  | .error x, .error y => if h : x = y then isTrue (by rw [h]) else isFalse (fun e => h (Except.error.inj e))
  | .ok _, .error _ => isFalse (fun e => by cases e)
  | .error _, .ok _ => isFalse (fun e => by cases e)

/-- follow every axis through `t` and then through `u` (composition of orientation transforms) -/
def orntCompose (t u : Ornt) : Ornt :=
  t.map (fun r => ((u.getD r.1 (0, 1)).1, r.2 * (u.getD r.1 (0, 1)).2))

/-- the orientation that undoes `t`: new axis `a_i` goes back to axis `i` with the same flip -/
def orntInverse (t : Ornt) : Ornt :=
  (List.range t.length).map (fun k =>
    let i := (t.map (·.1)).idxOf k
    (i, (t.getD i (0, 1)).2))

def idAff : Aff Int := ⟨⟨1, 0, 0, 0⟩, ⟨0, 1, 0, 0⟩, ⟨0, 0, 1, 0⟩⟩

end Nb.C05
